#!/bin/sh
# Extract the model and build the driver.  Usage: ocaml/build.sh  (from anywhere)
set -e
here="$(cd "$(dirname "$0")" && pwd)"
cache="$here/../.cache"
mkdir -p "$here/extracted" "$cache/ocaml"
cd "$here/extracted"
rm -f n2model.ml n2model.mli
coqc -Q ../../coq/theories N2 -o "$cache/Extract.vo" ../../coq/theories/Extract.v >/dev/null
cd "$cache/ocaml"
cp "$here/extracted/n2model.ml" "$here/extracted/n2model.mli" "$here/conv.ml" "$here/driver.ml" .
ocamlfind ocamlopt -w -a -o driver n2model.mli n2model.ml conv.ml driver.ml
echo "built $cache/ocaml/driver"
