(* Model side of the correspondence check: runs the extracted Gallina definitions on the cases
   read from stdin (one per line) and prints one canonical result per line. *)
open N2model
open Conv
type string = Stdlib.String.t

let canon_impl_line l = show_outcome hex_of_bytes (canon_impl (bytes_of_hex l))
let canon_line l = show_outcome hex_of_bytes (canon (bytes_of_hex l))

(* rooted ups name,name,... dirlike *)
let sem_line l =
  let p = bytes_of_hex l in
  let (r, (ups, names)) = sem p in
  Printf.sprintf "%b %d %s %b" r (int_of_nat ups)
    (String.concat "," (List.map hex_of_bytes (List.rev names)))
    (ends_dirlike p)

let words l = List.filter (fun s -> s <> "") (String.split_on_char ' ' (String.trim l))

let show_depmap m =
  String.concat ";"
    (List.map (fun (t, ds) -> hex_of_bytes t ^ ":" ^ String.concat "," (List.map hex_of_bytes ds)) m)

let depfile_line fixed l =
  show_outcome show_depmap ((if fixed then depfile_parse else depfile_parse_pinned) (bytes_of_hex l))

let showinc_line fixed l =
  let (incs, out) = (if fixed then extract_showincludes else extract_showincludes_pinned) (bytes_of_hex l) in
  "ok " ^ String.concat "," (List.map hex_of_bytes incs) ^ "|" ^ hex_of_bytes out

let depfiledeps_line l =
  if String.trim l = "-x" then "ok "
  else show_outcome (fun ds -> String.concat "," (List.map hex_of_bytes ds)) (depfile_deps (bytes_of_hex l))

let lastline_line l = "ok " ^ hex_of_bytes (find_last_line (bytes_of_hex l))

let taskmsg_line fixed l =
  match words l with
  | [m; secs; cols] ->
    show_outcome hex_of_bytes
      ((if fixed then task_message else task_message_pinned)
         (bytes_of_hex m) (n_of_int (int_of_string secs)) (nat_of_int (int_of_string cols)))
  | _ -> "bad"

let truncate_line l =
  match words l with
  | [m; max] -> "ok " ^ hex_of_bytes (truncate (bytes_of_hex m) (nat_of_int (int_of_string max)))
  | _ -> "bad"

let bar_line l =
  match List.map int_of_string (words l) with
  | [w; r; q; run; d; f; size] ->
    "ok " ^ hex_of_bytes
      (progress_bar { c_want = n_of_int w; c_ready = n_of_int r; c_queued = n_of_int q;
                      c_running = n_of_int run; c_done = n_of_int d; c_failed = n_of_int f }
         (n_of_int size))
  | _ -> "bad"

let fancy_line l =
  let opt s = if s = "~" then None else Some (bytes_of_hex s) in
  let ni s = n_of_int (int_of_string s) in
  match String.index_opt l ' ' with
  | None -> "bad"
  | Some i ->
    let v = String.sub l 0 i = "v=1" in
    let rest = String.sub l (i + 1) (String.length l - i - 1) in
    let ops = List.filter_map (fun o ->
      match words o with
      | [] -> None
      | ["U"; w; r; q; run; d; f] ->
        Some (FUpdate { c_want = ni w; c_ready = ni r; c_queued = ni q; c_running = ni run; c_done = ni d; c_failed = ni f })
      | ["S"; id; ms; d; c] -> Some (FStart (ni id, ni ms, opt d, opt c))
      | ["O"; id; h] -> Some (FOutput (ni id, bytes_of_hex h))
      | ["F"; id; d; c; hide; term; h] -> Some (FFinish (ni id, opt d, opt c, hide = "1", ni term, bytes_of_hex h))
      | ["L"; h] -> Some (FLog (bytes_of_hex h))
      | ["P"; ms; cols] -> Some (FPrint (ni ms, nat_of_int (int_of_string cols)))
      | _ -> failwith "bad fancy op") (String.split_on_char ';' rest) in
    show_outcome (fun (frames, st) ->
      Printf.sprintf "frames=%s pending=%s ids=%s"
        (String.concat "," (List.map hex_of_bytes frames))
        (hex_of_bytes st.fs_pending)
        (String.concat "," (List.map (fun t -> string_of_int (int_of_n t.ft_id)) st.fs_tasks)))
      (f_run0 v ops)

(* same line format as the harness; the depfile the command leaves = what it writes, else the stale one *)
let task_line l =
  match words l with
  | showinc :: term :: stale :: written :: rsp :: chunks :: rest ->
    let uses = stale <> "~" || written <> "~" || rest = ["d"] in
    let file = if written <> "~" then Some (bytes_of_hex written) else if stale <> "~" then Some (bytes_of_hex stale) else None in
    let depfile = if uses then Some (bytes_of_string "DEPFILE", file) else None in
    let cs = if chunks = "-" then [] else List.map bytes_of_hex (String.split_on_char ',' chunks) in
    let seen = if rsp = "~" then "~" else hex (unhex rsp) in
    (match run_task (showinc = "1") depfile { cr_chunks = cs; cr_term = n_of_int (int_of_string term) } with
     | Ok (t, lines) ->
       Printf.sprintf "ok %d %s %s lines=%s rsp=%s" (int_of_n t.tr_term) (hex_of_bytes t.tr_output)
         (match t.tr_deps with None -> "~" | Some d -> "[" ^ String.concat "," (List.map hex_of_bytes d) ^ "]")
         (String.concat "," (List.map hex_of_bytes lines)) seen
     | Err m -> "err " ^ hex_of_bytes m ^ " rsp=" ^ seen
     | o -> show_outcome (fun _ -> "") o)
  | _ -> "bad"

(* v=<0|1> then `;`-separated: S id desc cmd | F id desc cmd hide term hex   -> the bytes printed *)
let dumb_line l =
  let opt s = if s = "~" then None else Some (bytes_of_hex s) in
  let ni s = n_of_int (int_of_string s) in
  match String.index_opt l ' ' with
  | None -> "bad"
  | Some i ->
    let v = String.sub l 0 i = "v=1" in
    let rest = String.sub l (i + 1) (String.length l - i - 1) in
    let ops = List.filter_map (fun o ->
      match words o with
      | [] -> None
      | ["S"; id; d; c] -> Some (DStart (ni id, opt d, opt c))
      | ["F"; id; d; c; hide; term; h] -> Some (DFinish (ni id, opt d, opt c, hide = "1", ni term, bytes_of_hex h))
      | _ -> failwith "bad dumb op") (String.split_on_char ';' rest) in
    show_outcome (fun (segs, _) -> hex_of_bytes (printed segs)) (d_run0 v ops)

(* fs: <cwd comps, '/'-separated hex or -> ; <tree entries: D hexpath | F hexpath hexcontent, ','-separated> ; <ops: D out-hex ... | R name-hex content-hex, ','-separated>
   paths of tree entries are '/'-joined component names relative to the model root; prints the result of every operation
   and the final tree, sorted *)
let fs_line l =
  let comps_of (h : string) : n list list =
    let s = unhex h in
    if s = "" then [] else List.map bytes_of_string (String.split_on_char '/' s) in
  match String.split_on_char ';' l with
  | [cwd; tree; ops] ->
    let cwd = comps_of (String.trim cwd) in
    let entries = List.filter_map (fun e ->
      match words e with
      | [] -> None
      | ["D"; p] -> Some (comps_of p, KDir)
      | ["F"; p; c] -> Some (comps_of p, KFile (bytes_of_hex c))
      | _ -> failwith "bad fs entry") (String.split_on_char ',' tree) in
    (* later entries shadow nothing: the generator lists each location once *)
    let ops = List.filter_map (fun o ->
      match words o with
      | [] -> None
      | "D" :: outs -> Some (OpDirs (List.map (fun h -> let b = bytes_of_hex h in match canon b with Ok c -> c | _ -> b) outs))   (* the graph holds canonical names *)
      | ["R"; n; c] -> Some (OpRsp (bytes_of_hex n, bytes_of_hex c))
      | _ -> failwith "bad fs op") (String.split_on_char ',' ops) in
    let (res, fs') = fs_run entries cwd ops in
    let show_e = function
      | None -> "ok" | Some ENOENT -> "ENOENT" | Some ENOTDIR -> "ENOTDIR" | Some EEXIST -> "EEXIST" | Some EISDIR -> "EISDIR" in
    let items = List.map (fun (p, k) ->
      let ps = String.concat "/" (List.map string_of_bytes p) in
      match k with KDir -> "D " ^ hex ps | KFile c -> "F " ^ hex ps ^ " " ^ hex_of_bytes c) (fs_listing fs') in
    String.concat " " (List.map show_e res) ^ " | " ^ String.concat "," (List.sort compare items)
  | _ -> "bad"

(* <argv0-hex> [arg-hex ...].  The file system `-C` sees is the harness's scratch tree: d1, d1/d2, "with space"
   (this emulation is part of the correspondence machinery, not of the model) *)
let cli_dirs = [ []; ["d1"]; ["d1"; "d2"]; ["with space"] ]
let cli_walk (cur : string list option) (path : string) : string list option =
  if path = "" then None else
  let comps = String.split_on_char '/' path in
  let start = if String.length path > 0 && path.[0] = '/' then None else cur in   (* absolute paths leave the tree *)
  List.fold_left (fun acc c ->
    match acc with
    | None -> None
    | Some cur ->
      if c = "" || c = "." then Some cur
      else if c = ".." then (match List.rev cur with [] -> None | _ :: r -> Some (List.rev r))
      else let next = cur @ [c] in if List.mem next cli_dirs then Some next else None) start comps
let cli_dir_ok (hist : n list list) (d : n list) : bool =
  let cur = List.fold_left (fun acc h -> cli_walk acc (string_of_bytes h)) (Some []) hist in
  cli_walk cur (string_of_bytes d) <> None
let dec_n x = string_of_bytes (dec_of_N x)
let cli_line l =
  match words l with
  | [] -> "bad"
  | a0 :: args ->
    let b x = if x then 1 else 0 in
    (match parse_args cli_dir_ok (bytes_of_hex a0) (List.map bytes_of_hex args) with
     | PExit c -> Printf.sprintf "exit %d" (int_of_n c)
     | PErr -> "err"
     | PPanic s -> Printf.sprintf "panic %d" (int_of_n s)
     | PFuel -> "fuel"
     | PArgs a ->
       Printf.sprintf "args compat=%d adopt=%d explain=%d file=%s targets=%s j=%s k=%s v=%d chdirs=%s trace=%d"
         (b a.ba_compat) (b a.ba_adopt) (b a.ba_explain)
         (match a.ba_file with None -> "~" | Some f -> hex_of_bytes f)
         (String.concat "," (List.map hex_of_bytes a.ba_targets))
         (dec_n a.ba_par)
         (match a.ba_keep with None -> "~" | Some k -> dec_n k)
         (b a.ba_verbose)
         (String.concat "," (List.map hex_of_bytes a.ba_chdirs)) (b a.ba_trace))

let lossy_line l = "ok " ^ hex_of_bytes (lossy (bytes_of_hex l))

let status_line l = "ok " ^ string_of_int (int_of_n (decode_status (n_of_int (int_of_string (String.trim l)))))

(* ---- scheduler: token stream parsing ---- *)
exception Parse of string

let toks_of_line l = ref (words l)

let next ts = match !ts with [] -> raise (Parse "eof") | x :: r -> ts := r; x
let peek_tok ts = match !ts with [] -> "" | x :: _ -> x
let next_int ts = int_of_string (next ts)
let expect ts s = let x = next ts in if x <> s then raise (Parse ("expected " ^ s ^ " got " ^ x))
let rec times n f = if n <= 0 then [] else let x = f () in x :: times (n - 1) f

let parse_graph ts =
  expect ts "G";
  let nb = next_int ts in
  let nf = next_int ts in
  let builds = times nb (fun () ->
    expect ts "B";
    let nins = next_int ts in
    let ins = times nins (fun () -> nat_of_int (next_int ts)) in
    let e = next_int ts in let i = next_int ts in let o = next_int ts in
    let nouts = next_int ts in
    let outs = times nouts (fun () -> nat_of_int (next_int ts)) in
    let phony = next_int ts = 1 in
    let p = next ts in
    let pool = if p = "n" then None else Some (bytes_of_hex (String.sub p 1 (String.length p - 1))) in
    let _cmd = next ts in
    let _rsp = next ts in
    { b_ins = ins; b_explicit = nat_of_int e; b_implicit = nat_of_int i; b_order_only = nat_of_int o;
      b_outs = outs; b_phony = phony; b_pool = pool }) in
  let files = times nf (fun () ->
    expect ts "F";
    let name = bytes_of_hex (next ts) in
    let inp = next_int ts in
    let nd = next_int ts in
    let deps = times nd (fun () -> nat_of_int (next_int ts)) in
    { f_name = name; f_input = (if inp < 0 then None else Some (nat_of_int inp)); f_dependents = deps }) in
  expect ts "P";
  let np = next_int ts in
  let pools = times np (fun () -> let n = bytes_of_hex (next ts) in let d = next_int ts in (n, nat_of_int d)) in
  expect ts "D";
  let nd = next_int ts in
  let defaults = times nd (fun () -> nat_of_int (next_int ts)) in
  ({ g_builds = builds; g_files = files }, pools, defaults)

let state_of_tok = function
  | "U" -> Unknown | "W" -> Want | "R" -> Ready | "Q" -> Queued | "X" -> Running | "D" -> Done | "F" -> Failed
  | s -> raise (Parse ("state " ^ s))
let tok_of_state = function
  | Unknown -> "U" | Want -> "W" | Ready -> "R" | Queued -> "Q" | Running -> "X" | Done -> "D" | Failed -> "F"

let rec pos_of_int_z i = pos_of_int i
let z_of_int i = if i = 0 then Z0 else if i > 0 then Zpos (pos_of_int i) else Zneg (pos_of_int (-i))
let int_of_z = function Z0 -> 0 | Zpos p -> int_of_pos p | Zneg p -> - (int_of_pos p)

let parse_event ts =
  match next ts with
  | "u" -> let l = times 6 (fun () -> z_of_int (next_int ts)) in
    (match l with [a;b;c;d;e;f] -> EUpdate { k_want = a; k_ready = b; k_queued = c; k_running = d; k_done = e; k_failed = f }
                | _ -> raise (Parse "u"))
  | "p" -> EPopReady (nat_of_int (next_int ts))
  | "v" -> let b = nat_of_int (next_int ts) in
    let v = (match next ts with "c" -> VClean | "d" -> VDirty | _ -> VError) in EVerdict (b, v)
  | "s" -> let b = nat_of_int (next_int ts) in let p = state_of_tok (next ts) in let n = state_of_tok (next ts) in ESet (b, p, n)
  | "st" -> EStart (nat_of_int (next_int ts))
  | "q" -> EQuiesce (nat_of_int (next_int ts))
  | "f" -> let b = nat_of_int (next_int ts) in
    let t = (match next_int ts with 0 -> TSuccess | 2 -> TInterrupted | _ -> TFailure) in EFinish (b, t)
  | "r" -> ERecord (nat_of_int (next_int ts))
  | "ret" -> (match next ts with "1" -> EReturn (Some true) | "0" -> EReturn (Some false) | _ -> EReturn None)
  | s -> raise (Parse ("event " ^ s))

let show_ctl = function
  | CIdle -> "idle" | CChecking _ -> "checking" | CVerdict _ -> "verdict" | CStarting _ -> "starting"
  | CFinished _ -> "finished"
  | CReturned (Some true) -> "ret1" | CReturned (Some false) -> "ret0" | CReturned None -> "rete"

let show_log log = String.concat "," (List.map (fun (b, s) -> string_of_int (int_of_nat b) ^ tok_of_state s) log)

(* PHASE G.. C par adopt fl S reuse T n ids W n (b st)* E n events  PHASE ... *)
let inv_line l =
  try
    let ts = toks_of_line l in
    let prev : bstates option ref = ref None in
    let out = ref [] in
    while peek_tok ts = "PHASE" do
      expect ts "PHASE";
      let (g, pools, defaults) = parse_graph ts in
      expect ts "C";
      let par = next_int ts in let adopt = next_int ts = 1 in let fl = next_int ts in
      expect ts "S";
      let reuse = next_int ts = 1 in
      let tk = next ts in
      let nt = next_int ts in
      let targets = if tk = "T" then times nt (fun () -> nat_of_int (next_int ts)) else [] in
      let names = if tk = "TN" then times nt (fun () -> bytes_of_hex (next ts)) else [] in
      let manifest = if tk = "TN" then (let m = next_int ts in if m < 0 then None else Some (nat_of_int m)) else None in
      expect ts "W";
      let nw = next_int ts in
      let wl = times nw (fun () -> let b = nat_of_int (next_int ts) in let s = state_of_tok (next ts) in (b, s)) in
      expect ts "E";
      let ne = next_int ts in
      let evs = times ne (fun () -> parse_event ts) in
      let cf = { cf_graph = g; cf_parallelism = nat_of_int par; cf_adopt = adopt } in
      let s0 = (match (reuse, !prev) with
                | (true, Some s) -> s
                | _ -> bs_new (nat_of_int (List.length g.g_builds)) pools) in
      let flo = if fl < 0 then None else Some (nat_of_int fl) in
      let r = if tk = "TN" then run_phase_main cf s0 flo defaults manifest names wl evs
              else run_phase cf s0 flo targets wl evs in
      (match r with
       | PWantErr m -> out := ("wanterr " ^ hex_of_bytes m) :: !out; prev := None
       | PWantMismatch log -> out := ("wantmismatch " ^ show_log log) :: !out; prev := None
       | PReject i -> out := ("reject " ^ string_of_int (int_of_nat i)) :: !out; prev := None
       | PBroken _ -> out := "broken" :: !out; prev := None
       | PAccept r ->
         prev := Some r.rs_bs;
         out := (Printf.sprintf "accept %s run=%d failed=%d pending=%d states=%s"
                   (show_ctl r.rs_ctl) (int_of_nat r.rs_tasks_run) (int_of_nat r.rs_failed)
                   (int_of_z r.rs_bs.bs_pending)
                   (String.concat "" (List.map tok_of_state r.rs_bs.bs_states))) :: !out)
    done;
    String.concat " | " (List.rev !out)
  with Parse m -> "parse-error " ^ m | Failure m -> "parse-error " ^ m

(* select: G.. M manifest A adopt N n names *)
let select_line l =
  try
    let ts = toks_of_line l in
    let (g, _, defaults) = parse_graph ts in
    expect ts "M";
    let m = next_int ts in
    expect ts "A";
    let adopt = next_int ts = 1 in
    expect ts "N";
    let n = next_int ts in
    let names = times n (fun () -> bytes_of_hex (next ts)) in
    show_outcome (fun ids -> String.concat "," (List.map (fun x -> string_of_int (int_of_nat x)) ids))
      (select_targets g defaults (if m < 0 then None else Some (nat_of_int m)) adopt names)
  with Parse m -> "parse-error " ^ m | Failure m -> "parse-error " ^ m

(* dbopen: <fixed> <file-hex> P n (name-hex build)* *)
let dbopen_line l =
  try
    let ts = toks_of_line l in
    let fixed = next_int ts = 1 in
    let file = bytes_of_hex (next ts) in
    expect ts "P";
    let n = next_int ts in
    let prods = times n (fun () -> let nm = bytes_of_hex (next ts) in let b = next_int ts in (nm, nat_of_int b)) in
    let producer name = (try Some (List.assoc name prods) with Not_found -> None) in
    expect ts "W";
    let nw = next_int ts in
    let writes = times nw (fun () ->
      expect ts "O"; let no = next_int ts in let outs = times no (fun () -> bytes_of_hex (next ts)) in
      expect ts "D"; let nd = next_int ts in let deps = times nd (fun () -> bytes_of_hex (next ts)) in
      expect ts "H"; let h = n_of_hexnum (next ts) in (outs, deps, h)) in
    match db_open fixed producer file with
    | OpenErr m -> "err " ^ hex_of_bytes m
    | OpenPanic s -> "panic " ^ string_of_int (int_of_n s)
    | OpenOk (st, f) ->
      let bs = List.sort_uniq compare (List.map (fun (b, _) -> int_of_nat b) st.ld_builds) in
      let loaded = String.concat ";" (List.map (fun b ->
        match loaded_for st (nat_of_int b) with
        | Some (deps, h) -> Printf.sprintf "%d:%s:%s" b (hexnum_of_n h) (String.concat "," (List.map hex_of_bytes deps))
        | None -> "") bs) in
      let rec go tbl file ws =
        match ws with
        | [] -> "final=" ^ hex (string_of_bytes file)
        | (o, dd, h) :: rest ->
          (match write_build tbl o dd h with
           | Ok (b, tbl') -> go tbl' (file @ b) rest
           | Panic s -> "wpanic " ^ string_of_int (int_of_n s)
           | _ -> "wbroken") in
      "ok after_open=" ^ hex_of_bytes f ^ " loaded=" ^ loaded ^ " " ^ go st.ld_tbl f writes
  with Parse m -> "parse-error " ^ m | Failure m -> "parse-error " ^ m

(* dbwrite: T n names  O n names  D n names  H hexhash *)
let dbwrite_line l =
  try
    let ts = toks_of_line l in
    expect ts "T"; let nt = next_int ts in let tbl = times nt (fun () -> bytes_of_hex (next ts)) in
    expect ts "O"; let no = next_int ts in let outs = times no (fun () -> bytes_of_hex (next ts)) in
    expect ts "D"; let nd = next_int ts in let deps = times nd (fun () -> bytes_of_hex (next ts)) in
    expect ts "H"; let h = n_of_hexnum (next ts) in
    show_outcome (fun (b, tbl') -> hex_of_bytes b ^ " " ^ string_of_int (List.length tbl')) (write_build tbl outs deps h)
  with Parse m -> "parse-error " ^ m | Failure m -> "parse-error " ^ m

(* ---- loader: load <fixed> <name-hex> <text-hex> [<name-hex> <content-hex>]... ---- *)
let opt_hex = function None -> "~" | Some b -> hex_of_bytes b
let ids_str l = String.concat "," (List.map (fun x -> string_of_int (int_of_nat x)) l)
let b01 b = if b then "1" else "0"

let dump_loader (l : loader) : string =
  let bs_ = List.map (fun b ->
    Printf.sprintf "B %s:%d ins=%s e=%d i=%d o=%d outs=%s eo=%d cmd=%s desc=%s depfile=%s si=%s rsp=%s pool=%s hs=%s hp=%s"
      (hex_of_bytes b.lb_file) (int_of_z b.lb_line) (ids_str b.lb_ins) (int_of_nat b.lb_explicit_ins)
      (int_of_nat b.lb_implicit_ins) (int_of_nat b.lb_order_only_ins) (ids_str b.lb_outs)
      (int_of_nat b.lb_explicit_outs) (opt_hex b.lb_cmdline) (opt_hex b.lb_desc) (opt_hex b.lb_depfile)
      (b01 b.lb_showincludes)
      (match b.lb_rspfile with None -> "~" | Some (p, c) -> hex_of_bytes p ^ ":" ^ hex_of_bytes c)
      (opt_hex b.lb_pool) (b01 b.lb_hide_success) (b01 b.lb_hide_progress)) l.l_builds in
  let fs = List.map (fun f ->
    Printf.sprintf "F %s in=%s deps=%s" (hex_of_bytes f.lf_name)
      (match f.lf_input with None -> "~" | Some b -> string_of_int (int_of_nat b)) (ids_str f.lf_dependents)) l.l_files in
  let ps = "P " ^ String.concat "," (List.map (fun (n, d) -> hex_of_bytes n ^ "=" ^ hexnum_of_n d) l.l_pools) in
  let ds = "D " ^ ids_str l.l_defaults in
  let bd = "BD " ^ opt_hex l.l_builddir in
  "ok " ^ String.concat ";" (bs_ @ fs @ [ps; ds; bd])

let load_line l =
  try
    let ts = toks_of_line l in
    let fixed = next_int ts = 1 in
    let name = bytes_of_hex (next ts) in
    let text = bytes_of_hex (next ts) in
    let rec rest acc = if peek_tok ts = "" then List.rev acc
      else (let n = bytes_of_hex (next ts) in let c = bytes_of_hex (next ts) in rest ((n, c) :: acc)) in
    let fs = rest [] in
    (match load_manifest fixed (nat_of_int 40) fs name text with
     | Ok l -> dump_loader l
     | Err m -> "err " ^ hex_of_bytes m
     | Panic s -> "panic " ^ string_of_int (int_of_n s)
     | OutOfBounds s -> "oob " ^ string_of_int (int_of_n s)
     | OutOfFuel -> "fuel")
  with Parse m -> "parse-error " ^ m | Failure m -> "parse-error " ^ m

let dedup_line fixed l =
  match List.map int_of_string (words l) with
  | e :: ids ->
    let (o, e') = remove_duplicates fixed (List.map nat_of_int ids) (nat_of_int e) in
    Printf.sprintf "ok %d %s" (int_of_nat e') (String.concat " " (List.map (fun x -> string_of_int (int_of_nat x)) o))
  | _ -> "bad"

(* ---- world: PHASE <reload> WG nb (B nins names.. e i o nouts names.. cmd rsp)*  then once: FS n (name mtime)* DB hex|none ; per phase EV n events ---- *)
let opt_tok t = if t = "n" then None else Some (bytes_of_hex (String.sub t 1 (String.length t - 1)))

let parse_wgraph ts =
  expect ts "WG";
  let nb = next_int ts in
  let builds = times nb (fun () ->
    expect ts "B";
    let nins = next_int ts in
    let ins = times nins (fun () -> bytes_of_hex (next ts)) in
    let e = next_int ts in let i = next_int ts in let o = next_int ts in
    let nouts = next_int ts in
    let outs = times nouts (fun () -> bytes_of_hex (next ts)) in
    let cmd = opt_tok (next ts) in
    let r = next ts in
    let rsp = if r = "n" then None else
        (let body = String.sub r 1 (String.length r - 1) in
         match String.index_opt body ':' with
         | Some k -> Some (bytes_of_hex (String.sub body 0 k), bytes_of_hex (String.sub body (k + 1) (String.length body - k - 1)))
         | None -> None) in
    { wb_ins = ins; wb_explicit = nat_of_int e; wb_implicit = nat_of_int i; wb_order_only = nat_of_int o;
      wb_outs = outs; wb_cmdline = cmd; wb_rsp = rsp }) in
  let prods = List.concat (List.mapi (fun bi b -> List.map (fun o -> (o, nat_of_int bi)) b.wb_outs) builds) in
  { w_builds = builds; w_producer = prods }

let mt_of_int i = (n_of_int (1500000000 + i), N0)

let parse_wevent ts =
  match next ts with
  | "v" -> let b = nat_of_int (next_int ts) in WVerdict (b, n_of_int (next_int ts))
  | "f" -> let b = nat_of_int (next_int ts) in let t = n_of_int (next_int ts) in
    let d = next ts in
    let deps = if d = "~" then None else if d = "-" then Some []
      else Some (List.map bytes_of_hex (String.split_on_char ';' d)) in
    WFinish (b, t, deps)
  | "r" -> let b = nat_of_int (next_int ts) in WRecord (b, n_of_hexnum (next ts))
  | "nr" -> WNoRecord (nat_of_int (next_int ts))
  | "a" -> WAdopt (nat_of_int (next_int ts))
  | "w" -> let n = bytes_of_hex (next ts) in let m = next ts in
    WWrite (n, if m = "x" then None else Some (mt_of_int (int_of_string m)))
  | s -> raise (Parse ("wevent " ^ s))

let world_line l =
  try
    let ts = toks_of_line l in
    expect ts "FS";
    let nf = next_int ts in
    let fs = times nf (fun () -> let n = bytes_of_hex (next ts) in let m = next_int ts in (n, mt_of_int m)) in
    expect ts "DB";
    let dbt = next ts in
    let db = if dbt = "none" then [] else bytes_of_hex dbt in
    let state : wstate option ref = ref None in
    let fs_now = ref fs in
    let log_now = ref db in
    let out = ref [] in
    let stop = ref false in
    while peek_tok ts = "PHASE" && not !stop do
      expect ts "PHASE";
      let reload = next_int ts = 1 in
      let g = parse_wgraph ts in
      expect ts "EV";
      let ne = next_int ts in
      let evs = times ne (fun () -> parse_wevent ts) in
      let st0 = (match (!state, reload) with
        | (Some s, false) -> Ok s
        | _ -> load_state g !fs_now !log_now) in
      (match st0 with
       | Ok s ->
         (match replay g s None evs O with
          | WOk s' -> state := Some s'; fs_now := s'.ws_fs; log_now := s'.ws_log; out := "ok" :: !out
          | WMismatch (i, what, detail) ->
            out := (Printf.sprintf "mismatch %d %d %s" (int_of_nat i) (int_of_n what) (hex_of_bytes detail)) :: !out; stop := true
          | WBroken (i, _) -> out := (Printf.sprintf "broken %d" (int_of_nat i)) :: !out; stop := true)
       | Err m -> out := ("loaderr " ^ hex_of_bytes m) :: !out; stop := true
       | _ -> out := "loadbroken" :: !out; stop := true)
    done;
    String.concat " | " (List.rev !out) ^ " log=" ^ hex_of_bytes !log_now
  with Parse m -> "parse-error " ^ m | Failure m -> "parse-error " ^ m

(* the 'world' line with `LOC n hex...` after every phase's events: the messages `-d explain` logs at every verdict,
   "ok b:hexmsg,hexmsg b: ..." in order (Model/Explain.v) *)
let explain_line l =
  try
    let ts = toks_of_line l in
    expect ts "FS";
    let nf = next_int ts in
    let fs = times nf (fun () -> let n = bytes_of_hex (next ts) in let m = next_int ts in (n, mt_of_int m)) in
    expect ts "DB";
    let dbt = next ts in
    let db = if dbt = "none" then [] else bytes_of_hex dbt in
    let state : wstate option ref = ref None in
    let fs_now = ref fs in
    let log_now = ref db in
    let out = ref [] in
    let stop = ref false in
    while peek_tok ts = "PHASE" && not !stop do
      expect ts "PHASE";
      let reload = next_int ts = 1 in
      let g = parse_wgraph ts in
      expect ts "EV";
      let ne = next_int ts in
      let evs = times ne (fun () -> parse_wevent ts) in
      expect ts "LOC";
      let nl = next_int ts in
      let locs = times nl (fun () -> bytes_of_hex (next ts)) in
      let st0 = (match (!state, reload) with
        | (Some s, false) -> Ok s
        | _ -> load_state g !fs_now !log_now) in
      (match st0 with
       | Ok s ->
         List.iter (fun (b, msgs) ->
           out := (Printf.sprintf "%d:%s" (int_of_nat b) (String.concat "," (List.map hex_of_bytes msgs))) :: !out)
           (explain_trace g locs s None evs);
         (match replay g s None evs O with
          | WOk s' -> state := Some s'; fs_now := s'.ws_fs; log_now := s'.ws_log
          | _ -> stop := true)
       | _ -> stop := true)
    done;
    String.concat " " ("ok" :: List.rev !out)
  with Parse m -> "parse-error " ^ m | Failure m -> "parse-error " ^ m

(* "<n>" | "fail" -> terminal::get_cols and the width print_progress uses *)
let cols_line l =
  let io = if String.trim l = "fail" then None else Some (n_of_int (int_of_string (String.trim l))) in
  (match get_cols io with None -> "none" | Some c -> Printf.sprintf "some %d" (int_of_n c)) ^ Printf.sprintf " use %d" (int_of_n (max_cols io))

(* hex of a name -> Path::new(name): has_root, components, and the same for its parent *)
let pathparts_line l =
  let show (p : lpath) = Printf.sprintf "%d %s" (if p.lp_rooted then 1 else 0) (hex (String.concat "/" (List.map string_of_bytes p.lp_comps))) in
  let p = path_new (bytes_of_hex l) in
  match lp_parent p with
  | Some q -> show p ^ " | " ^ show q
  | None -> show p ^ " | none"

(* "none" | <n> -> run_impl's closing line (hex) and the exit status *)
let summary_line l =
  let t = String.trim l in
  let (txt, code) = summary (if t = "none" then None else Some (n_of_int (int_of_string t))) in
  Printf.sprintf "%s %d" (hex_of_bytes txt) (int_of_n code)

let hash_line l =
  (* hex of the manifest stream -> siphash *)
  "ok " ^ hexnum_of_n (siphash13 (bytes_of_hex l))

(* ---- run::build orchestration replayed on an observed tape ---- *)
let build_line l =
  match words l with
  | [l0; r; t1; l1; m; t2] ->
    let ob s = match s with "1" -> Some true | "0" -> Some false | _ -> None in
    let tp = { tp_load0 = (l0 = "1"); tp_regen = ob r; tp_tasks1 = nat_of_int (int_of_string t1);
               tp_load1 = (l1 = "1"); tp_main = ob m; tp_tasks2 = nat_of_int (int_of_string t2) } in
    let bt = build_tape tp in
    let res = match bt.bt_result with
      | BOk n -> "ok:" ^ string_of_int (int_of_nat n) | BFailed -> "fail" | BError -> "err" in
    let mn = match bt.bt_main_on with
      | None -> "nomain"
      | Some (g, reuse) -> Printf.sprintf "main:%d:%d" (if g then 1 else 0) (if reuse then 1 else 0) in
    res ^ " " ^ mn
  | _ -> "bad"

let suites : (string * (string -> string)) list =
  [ ("canon_impl", canon_impl_line); ("canon", canon_line); ("canon_sem", sem_line);
    ("depfile", depfile_line true); ("depfile_pinned", depfile_line false);
    ("showincludes", showinc_line true); ("showincludes_pinned", showinc_line false);
    ("lastline", lastline_line); ("depfiledeps", depfiledeps_line);
    ("taskmsg", taskmsg_line true); ("taskmsg_pinned", taskmsg_line false);
    ("truncate", truncate_line); ("bar", bar_line); ("fancy", fancy_line); ("lossy", lossy_line); ("task", task_line); ("dumb", dumb_line); ("cli", cli_line); ("fs", fs_line); ("cols", cols_line); ("summary", summary_line); ("pathparts", pathparts_line); ("status", status_line);
    ("inv", inv_line); ("select", select_line); ("build", build_line);
    ("dbopen", dbopen_line); ("dbwrite", dbwrite_line);
    ("load", load_line); ("world", world_line); ("explain", explain_line); ("siphash", hash_line); ("dedup", dedup_line true); ("dedup_pinned", dedup_line false) ]

let () =
  let suite = if Array.length Sys.argv > 1 then Sys.argv.(1) else "" in
  let f =
    try List.assoc suite suites
    with Not_found ->
      prerr_endline ("unknown suite " ^ suite);
      exit 2
  in
  try
    while true do
      let l = input_line stdin in
      print_endline (f l)
    done
  with End_of_file -> ()
