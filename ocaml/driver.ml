(* Model side of the correspondence check: runs the extracted Gallina definitions on the cases
   read from stdin (one per line) and prints one canonical result per line. *)
open N2model
open Conv
type string = Stdlib.String.t

let canon_impl_line l = show_outcome hex_of_bytes (canon_impl (bytes_of_hex l))
let canon_line l = show_outcome hex_of_bytes (canon (bytes_of_hex l))

(* rooted ups name,name,... dirlike *)
let sem_line l =
  let p = bytes_of_hex l in
  let (r, (ups, names)) = sem p in
  Printf.sprintf "%b %d %s %b" r (int_of_nat ups)
    (String.concat "," (List.map hex_of_bytes (List.rev names)))
    (ends_dirlike p)

let words l = List.filter (fun s -> s <> "") (String.split_on_char ' ' (String.trim l))

let show_depmap m =
  String.concat ";"
    (List.map (fun (t, ds) -> hex_of_bytes t ^ ":" ^ String.concat "," (List.map hex_of_bytes ds)) m)

let depfile_line fixed l =
  show_outcome show_depmap ((if fixed then depfile_parse else depfile_parse_pinned) (bytes_of_hex l))

let showinc_line fixed l =
  let (incs, out) = (if fixed then extract_showincludes else extract_showincludes_pinned) (bytes_of_hex l) in
  "ok " ^ String.concat "," (List.map hex_of_bytes incs) ^ "|" ^ hex_of_bytes out

let lastline_line l = "ok " ^ hex_of_bytes (find_last_line (bytes_of_hex l))

let taskmsg_line fixed l =
  match words l with
  | [m; secs; cols] ->
    show_outcome hex_of_bytes
      ((if fixed then task_message else task_message_pinned)
         (bytes_of_hex m) (n_of_int (int_of_string secs)) (nat_of_int (int_of_string cols)))
  | _ -> "bad"

let truncate_line l =
  match words l with
  | [m; max] -> "ok " ^ hex_of_bytes (truncate (bytes_of_hex m) (nat_of_int (int_of_string max)))
  | _ -> "bad"

let bar_line l =
  match List.map int_of_string (words l) with
  | [w; r; q; run; d; f; size] ->
    "ok " ^ hex_of_bytes
      (progress_bar { c_want = n_of_int w; c_ready = n_of_int r; c_queued = n_of_int q;
                      c_running = n_of_int run; c_done = n_of_int d; c_failed = n_of_int f }
         (n_of_int size))
  | _ -> "bad"

let status_line l = "ok " ^ string_of_int (int_of_n (decode_status (n_of_int (int_of_string (String.trim l)))))

let suites : (string * (string -> string)) list =
  [ ("canon_impl", canon_impl_line); ("canon", canon_line); ("canon_sem", sem_line);
    ("depfile", depfile_line true); ("depfile_pinned", depfile_line false);
    ("showincludes", showinc_line true); ("showincludes_pinned", showinc_line false);
    ("lastline", lastline_line);
    ("taskmsg", taskmsg_line true); ("taskmsg_pinned", taskmsg_line false);
    ("truncate", truncate_line); ("bar", bar_line); ("status", status_line) ]

let () =
  let suite = if Array.length Sys.argv > 1 then Sys.argv.(1) else "" in
  let f =
    try List.assoc suite suites
    with Not_found ->
      prerr_endline ("unknown suite " ^ suite);
      exit 2
  in
  try
    while true do
      let l = input_line stdin in
      print_endline (f l)
    done
  with End_of_file -> ()
