(* Model side of the correspondence check: runs the extracted Gallina definitions on the cases
   read from stdin (one per line) and prints one canonical result per line. *)
open N2model
open Conv

let canon_impl_line l = show_outcome hex_of_bytes (canon_impl (bytes_of_hex l))
let canon_line l = show_outcome hex_of_bytes (canon (bytes_of_hex l))

(* rooted ups name,name,... dirlike *)
let sem_line l =
  let p = bytes_of_hex l in
  let (r, (ups, names)) = sem p in
  Printf.sprintf "%b %d %s %b" r (int_of_nat ups)
    (String.concat "," (List.map hex_of_bytes (List.rev names)))
    (ends_dirlike p)

let suites : (string * (string -> string)) list =
  [ ("canon_impl", canon_impl_line); ("canon", canon_line); ("canon_sem", sem_line) ]

let () =
  let suite = if Array.length Sys.argv > 1 then Sys.argv.(1) else "" in
  let f =
    try List.assoc suite suites
    with Not_found ->
      prerr_endline ("unknown suite " ^ suite);
      exit 2
  in
  try
    while true do
      let l = input_line stdin in
      print_endline (f l)
    done
  with End_of_file -> ()
