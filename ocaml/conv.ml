(* Conversions between OCaml ints/strings and the extracted Coq datatypes; hex line I/O. *)
open N2model
type string = Stdlib.String.t

let rec pos_of_int (i : int) : positive =
  if i = 1 then XH
  else if i land 1 = 0 then XO (pos_of_int (i lsr 1))
  else XI (pos_of_int (i lsr 1))

let n_of_int (i : int) : n = if i = 0 then N0 else Npos (pos_of_int i)

let rec int_of_pos (p : positive) : int =
  match p with XH -> 1 | XO q -> 2 * int_of_pos q | XI q -> 2 * int_of_pos q + 1

let int_of_n (x : n) : int = match x with N0 -> 0 | Npos p -> int_of_pos p

let rec nat_of_int (i : int) : nat = if i <= 0 then O else S (nat_of_int (i - 1))

let int_of_nat (x : nat) : int =
  let rec go acc = function O -> acc | S m -> go (acc + 1) m in
  go 0 x

(* byte table so that the same 256 [n] values are shared *)
let byte_tab = Array.init 256 n_of_int

let bytes_of_string (s : string) : n list =
  let r = ref [] in
  for i = String.length s - 1 downto 0 do
    r := byte_tab.(Char.code s.[i]) :: !r
  done;
  !r

let string_of_bytes (l : n list) : string =
  let b = Buffer.create 16 in
  List.iter (fun x -> Buffer.add_char b (Char.chr ((int_of_n x) land 255))) l;
  Buffer.contents b

let unhex (s : string) : string =
  let s = String.trim s in
  if s = "-" then ""
  else begin
    let n = String.length s / 2 in
    let b = Bytes.create n in
    let d c =
      match c with
      | '0' .. '9' -> Char.code c - 48
      | 'a' .. 'f' -> Char.code c - 87
      | 'A' .. 'F' -> Char.code c - 55
      | _ -> failwith "hex"
    in
    for i = 0 to n - 1 do
      Bytes.set b i (Char.chr ((d s.[2 * i] * 16) + d s.[(2 * i) + 1]))
    done;
    Bytes.to_string b
  end

let hex (s : string) : string =
  if s = "" then "-"
  else begin
    let b = Buffer.create (2 * String.length s) in
    String.iter (fun c -> Buffer.add_string b (Printf.sprintf "%02x" (Char.code c))) s;
    Buffer.contents b
  end

let hex_of_bytes l = hex (string_of_bytes l)
let bytes_of_hex s = bytes_of_string (unhex s)

let show_outcome (f : 'a -> string) (o : 'a outcome) : string =
  match o with
  | Ok a -> "ok " ^ f a
  | Err m -> "err " ^ hex_of_bytes m
  | Panic s -> "panic " ^ string_of_int (int_of_n s)
  | OutOfBounds s -> "oob " ^ string_of_int (int_of_n s)
  | OutOfFuel -> "fuel"

(* big numbers as hex strings (u64 does not fit OCaml's int) *)
let n_of_hexnum (s : string) : n =
  let r = ref N0 in
  String.iter (fun ch ->
    let d = (match ch with '0'..'9' -> Char.code ch - 48 | 'a'..'f' -> Char.code ch - 87 | _ -> failwith "hexnum") in
    r := N.add (N.mul !r (n_of_int 16)) (n_of_int d)) s;
  !r

let rec hexnum_of_pos (p : positive) (acc : int list) : int list =
  (* little-endian bits *)
  match p with XH -> 1 :: acc | XO q -> hexnum_of_pos q (0 :: acc) | XI q -> hexnum_of_pos q (1 :: acc)

let hexnum_of_n (x : n) : string =
  match x with
  | N0 -> "0"
  | Npos p ->
    let bits = hexnum_of_pos p [] in   (* most significant first *)
    let bits = let pad = (4 - (List.length bits mod 4)) mod 4 in List.init pad (fun _ -> 0) @ bits in
    let rec go l acc = match l with
      | a :: b :: c :: d :: r -> go r (acc ^ Printf.sprintf "%x" (8*a + 4*b + 2*c + d))
      | _ -> acc in
    go bits ""
