#!/bin/sh
# MANIFEST.setup_cmd: build the framework from files on disk only (offline).
set -e
cd "$(dirname "$0")"
export CARGO_NET_OFFLINE=true
mkdir -p .cache evidence
( cd coq && coq_makefile -f _CoqProject -o Makefile >/dev/null && timeout 3000 make -j"$(nproc)" >/dev/null 2>.cache_make_err || { cat .cache_make_err; exit 1; } )
rm -f coq/.cache_make_err
./ocaml/build.sh
( cd harness && CARGO_TARGET_DIR=../.cache/target RUSTFLAGS="--cfg n2_verif -Awarnings" cargo build --offline -q )
echo setup done
