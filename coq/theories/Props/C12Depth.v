(* C12 / C10, repaired (audit findings D1, D2, D4 of Proofs/AuditFindingsParse.v).
   D1: C12_manifest_safe allows Panic 60 - the model's own bound on include nesting - for every
       depth.  With more depth than files in the file map it cannot happen (a file that is being
       read is rejected, so the nesting is bounded by the number of files), and the bound is tight.
   D4: C10_eval_roundtrip / C10_build_roundtrip conclude "SFuel or ..." for any fuel; with fuel for
       the rest of the buffer the second branch holds.
   D2: C12_error_format pins neither the line number nor the context: a formatter that always
       reports line 1 with an empty context satisfies it.  Here: the diagnostic names the file, the
       1-based number of the line the error offset lies in (= newlines before the offset + 1),
       shows that line (cut as the code cuts it: [err_window], Proofs/FixErrFormatSpec.v) and puts
       the caret [err_caret] columns behind the "file:line: " prefix.
   Statements only; proofs in Proofs/AuditFindingsParse.v, Proofs/FixErrFormat.v, Proofs/FixParse.v. *)
From Coq Require Import String.
From N2 Require Import Model.All Proofs.ParseSpell Proofs.ParseSpec Proofs.RenderTrunc Proofs.FixErrFormatSpec.
From N2 Require Import Proofs.AuditFindingsParse Proofs.FixErrFormat Proofs.FixParse.

(* ---- D1 ---- *)

Theorem C12_manifest_no_depth_panic : forall depth fs name text, length fs < depth -> load_manifest true depth fs name text <> Panic 60%N.
Proof. exact load_manifest_no_panic60. Qed.
Print Assumptions C12_manifest_no_depth_panic.

(* the headline of C12 without the model's artefact: loaded, rejected with a diagnostic, or one of
   the two documented panics of canonicalize_path *)
Theorem C12_manifest_safe_enough_depth : forall depth fs name text, length fs < depth -> match load_manifest true depth fs name text with Ok _ | Err _ => True | Panic s => s = 0%N \/ s = 1%N | OutOfBounds _ => False | OutOfFuel => False end.
Proof. exact manifest_safe_enough_depth. Qed.
Print Assumptions C12_manifest_safe_enough_depth.

(* the bound is tight: a chain of includes through both files of a two-file map needs depth 3 *)
Example C12_manifest_depth_bound_tight : load_manifest true (length chain_fs) chain_fs (bs "build.ninja") (bs "include a.ninja" ++ [10%N]) = Panic 60%N /\ exists l, load_manifest true (S (length chain_fs)) chain_fs (bs "build.ninja") (bs "include a.ninja" ++ [10%N]) = Ok l /\ map fst (l_rules l) = [bs "phony"; bs "r"].
Proof. exact depth_bound_tight. Qed.

(* ---- D4 ---- *)

Theorem C10_eval_roundtrip_total : forall path es txt pre rest s fuel, spells_eval path es txt -> txt <> [] -> eval_stop path (rest ++ [0%N]) -> ~ In 13%N (pre ++ rest) -> sbuf s = pre ++ txt ++ rest ++ [0%N] -> sofs s = length pre -> length (sbuf s) <= fuel + sofs s -> exists es', read_eval fuel path s = SOk es' (mkScanner (sbuf s) (length (pre ++ txt)) (sline s + nlz txt)) /\ norm_eval es' = norm_eval es /\ es' <> [].
Proof. exact eval_roundtrip_total. Qed.
Print Assumptions C10_eval_roundtrip_total.

Example C10_eval_roundtrip_total_example : exists path es txt pre rest s fuel, spells_eval path es txt /\ txt <> [] /\ eval_stop path (rest ++ [0%N]) /\ ~ In 13%N (pre ++ rest) /\ sbuf s = pre ++ txt ++ rest ++ [0%N] /\ sofs s = length pre /\ length (sbuf s) <= fuel + sofs s /\ length es = 4 /\ pre <> [].
Proof. exact eval_roundtrip_total_example. Qed.

Theorem C10_build_roundtrip_total : forall pre L Bt rest d bl s fuel, spells_build_line d L -> spells_block (fun _ => true) bl Bt -> (exists c r, rest ++ [0%N] = c :: r /\ c <> 32%N) -> ~ In 13%N (sbuf s) -> sbuf s = pre ++ L ++ Bt ++ rest ++ [0%N] -> sofs s = length pre -> length (sbuf s) + 1 <= fuel + sofs s -> exists b, read_build true fuel s = SOk (SBuild b) (mkScanner (sbuf s) (length (pre ++ L ++ Bt)) (sline s + nlz (L ++ Bt))) /\ norm_build b = norm_build (decl_build d (sline s) (block_vars bl)).
Proof. exact build_roundtrip_total. Qed.
Print Assumptions C10_build_roundtrip_total.

Example C10_build_roundtrip_total_example : exists pre L Bt rest d bl s fuel, spells_build_line d L /\ spells_block (fun _ => true) bl Bt /\ (exists c r, rest ++ [0%N] = c :: r /\ c <> 32%N) /\ ~ In 13%N (sbuf s) /\ sbuf s = pre ++ L ++ Bt ++ rest ++ [0%N] /\ sofs s = length pre /\ length (sbuf s) + 1 <= fuel + sofs s /\ (d_outs d <> [] /\ d_iouts d <> [] /\ d_ins d <> [] /\ d_iins d <> [] /\ d_oins d <> [] /\ d_vins d <> []) /\ bl <> [] /\ rest <> [].
Proof. exact build_roundtrip_total_example. Qed.

(* ---- D2 ---- *)

(* format_parse_error, exactly: if the error offset lies in [line] - a maximal newline-free stretch
   of the buffer that starts at byte [length before] - the text is
     "parse error: " msg NL  file ":" (1 + newlines before the line) ": "  window-of-the-line NL
     spaces up to the caret column "^" NL *)
Theorem C12_format_parse_error_exact : forall buf filename msg eofs before line after, buf = before ++ line ++ after -> ~ In 10%N line -> (before = [] \/ exists b', before = b' ++ [10%N]) -> (after = [] \/ exists a', after = 10%N :: a') -> length before <= eofs <= length before + length line -> format_parse_error buf filename msg eofs = Ok (error_text filename msg (S (count_nl before)) (err_window line (eofs - length before)) (length (error_prefix filename (S (count_nl before))) + err_caret line (eofs - length before))).
Proof. exact format_parse_error_exact. Qed.
Print Assumptions C12_format_parse_error_exact.

(* every offset inside the buffer lies in such a line *)
Theorem C12_error_line_exists : forall buf eofs, eofs <= length buf -> exists before line after, buf = before ++ line ++ after /\ ~ In 10%N line /\ (before = [] \/ exists b', before = b' ++ [10%N]) /\ (after = [] \/ exists a', after = 10%N :: a') /\ length before <= eofs <= length before + length line.
Proof. exact error_line_exists. Qed.
Print Assumptions C12_error_line_exists.

(* the strengthened C12_error_format: every error of Parser::read is formatted without a panic, and
   the diagnostic names the right file, the right line number, that line's text and the column *)
Theorem C12_error_format_exact : forall text filename s vs m o, good_scanner text s -> parser_read true (parse_fuel (text ++ [0%N])) s vs = SErr m o -> exists before line after, text ++ [0%N] = before ++ line ++ after /\ ~ In 10%N line /\ (before = [] \/ exists b', before = b' ++ [10%N]) /\ (after = [] \/ exists a', after = 10%N :: a') /\ length before <= o <= length before + length line /\ S (count_nl before) = S (count_nl (firstn o (text ++ [0%N]))) /\ format_parse_error (text ++ [0%N]) filename m o = Ok (error_text filename m (S (count_nl before)) (err_window line (o - length before)) (length (error_prefix filename (S (count_nl before))) + err_caret line (o - length before))).
Proof. exact error_format_exact. Qed.
Print Assumptions C12_error_format_exact.

(* a line of at most 40 bytes is shown whole and the caret is under the error column *)
Theorem C12_error_window_short : forall line col, length line <= 40 -> col <= length line -> err_window line col = line /\ err_caret line col = col.
Proof. exact err_window_short. Qed.
Print Assumptions C12_error_window_short.

(* in general (ASCII lines) the byte above the caret is the byte at the error column, except when
   the column is exactly 40 in a line longer than 40 bytes: the code trims the front only for
   columns GREATER than 40 but cuts the back AT 40, so the caret then stands under the first '.' of
   the "..." mark (second statement: the witness) *)
Theorem C12_caret_under_error_byte : forall line col b, ascii_only line = true -> nth_error line col = Some b -> (col = 40 -> length line <= 40) -> nth_error (err_window line col) (err_caret line col) = Some b.
Proof. exact caret_under_error_byte. Qed.
Print Assumptions C12_caret_under_error_byte.

Theorem C12_caret_corner_case : let line := repeat_byte 97%N 40 ++ bs "X" ++ repeat_byte 97%N 9 in nth_error line 40 = Some 88%N /\ nth_error (err_window line 40) (err_caret line 40) = Some 46%N.
Proof. exact caret_corner_case. Qed.
Print Assumptions C12_caret_corner_case.

(* the instance of AuditNonVacuousParse.v: an error on line 2, column 9 *)
Example C12_error_format_exact_example : let text := bs "# c" ++ [10%N] ++ bs "build a b" ++ [10%N] in let before := bs "# c" ++ [10%N] in let line := bs "build a b" in text ++ [0%N] = before ++ line ++ (10%N :: [0%N]) /\ S (count_nl before) = 2 /\ err_window line (13 - length before) = line /\ err_caret line (13 - length before) = 9 /\ format_parse_error (text ++ [0%N]) (bs "build.ninja") (bs "expected ':', got '\n'") 13 = Ok (bs "parse error: expected ':', got '\n'" ++ [10%N] ++ bs "build.ninja:2: build a b" ++ [10%N] ++ bs "                        ^" ++ [10%N]).
Proof. repeat split; vm_compute; reflexivity. Qed.
