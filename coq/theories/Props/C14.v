(* C14 - each file has at most one producing step.  Statements only. *)
From Coq Require Import String.
From N2 Require Import Model.All.
From N2 Require Import Proofs.EvalFiles Proofs.GraphDedup Proofs.GraphAddBuild Proofs.GraphLoad.

(* 1. BuildOuts::remove_duplicates (after the fix for F12) *)
Theorem C14_remove_duplicates_spec : forall ids e, e <= length ids -> remove_duplicates true ids e = (dedup ids, length (dedup (firstn e ids))).
Proof. exact remove_duplicates_spec. Qed.
Print Assumptions C14_remove_duplicates_spec.

Theorem C14_dedup_meaning : forall l, NoDup (dedup l) /\ (forall x, In x (dedup l) <-> In x l) /\ (NoDup l -> dedup l = l) /\ (forall x, dedup (l ++ [x]) = if mem_nat x l then dedup l else dedup l ++ [x]).
Proof. exact dedup_meaning. Qed.
Print Assumptions C14_dedup_meaning.

Theorem C14_repeats_meaning : forall l, length (dedup l) + length (repeats l) = length l /\ (NoDup l -> repeats l = []) /\ (forall x, repeats (l ++ [x]) = if mem_nat x l then repeats l ++ [x] else repeats l).
Proof. exact repeats_meaning. Qed.
Print Assumptions C14_repeats_meaning.

Theorem C14_remove_duplicates_nodup : forall ids e, NoDup (fst (remove_duplicates true ids e)).
Proof. exact remove_duplicates_nodup. Qed.
Print Assumptions C14_remove_duplicates_nodup.

Theorem C14_remove_duplicates_same_set : forall ids e x, In x (fst (remove_duplicates true ids e)) <-> In x ids.
Proof. exact remove_duplicates_same_set. Qed.
Print Assumptions C14_remove_duplicates_same_set.

Theorem C14_remove_duplicates_explicit_le : forall ids e, e <= length ids -> snd (remove_duplicates true ids e) <= length (fst (remove_duplicates true ids e)).
Proof. exact remove_duplicates_explicit_le. Qed.
Print Assumptions C14_remove_duplicates_explicit_le.

Theorem C14_remove_duplicates_explicit_prefix : forall ids e, e <= length ids -> firstn (snd (remove_duplicates true ids e)) (fst (remove_duplicates true ids e)) = dedup (firstn e ids).
Proof. exact remove_duplicates_explicit_prefix. Qed.
Print Assumptions C14_remove_duplicates_explicit_prefix.

(* 2. the pinned code (F12) *)
Theorem C14_remove_duplicates_pinned_refuted : exists ids e, e <= length ids /\ length (fst (remove_duplicates false ids e)) < snd (remove_duplicates false ids e).
Proof. exact remove_duplicates_pinned_refuted. Qed.
Print Assumptions C14_remove_duplicates_pinned_refuted.

(* 3. the loader invariant *)
Theorem C14_LInv_meaning : forall l, LInv l <-> (forall i f p, nth_error (l_files l) i = Some f -> lf_input f = Some p -> exists b, nth_error (l_builds l) p = Some b /\ In i (lb_outs b)) /\ (forall p b o, nth_error (l_builds l) p = Some b -> In o (lb_outs b) -> exists f, nth_error (l_files l) o = Some f /\ lf_input f = Some p) /\ (forall p b, nth_error (l_builds l) p = Some b -> NoDup (lb_outs b) /\ lb_explicit_outs b <= length (lb_outs b) /\ (forall i, In i (lb_ins b) -> i < length (l_files l)) /\ (forall o, In o (lb_outs b) -> o < length (l_files l))).
Proof. exact LInv_meaning. Qed.
Print Assumptions C14_LInv_meaning.

Theorem C14_LInv_unique_producer : forall l, LInv l -> forall p1 b1 p2 b2 o, nth_error (l_builds l) p1 = Some b1 -> nth_error (l_builds l) p2 = Some b2 -> In o (lb_outs b1) -> In o (lb_outs b2) -> p1 = p2.
Proof. exact LInv_unique_producer. Qed.
Print Assumptions C14_LInv_unique_producer.

Theorem C14_graph_add_build_LInv : forall l b l', LInv l -> (forall i, In i (lb_ins b) -> i < length (l_files l)) -> lb_explicit_outs b <= length (lb_outs b) -> graph_add_build true l b = Ok l' -> LInv l'.
Proof. exact graph_add_build_LInv. Qed.
Print Assumptions C14_graph_add_build_LInv.

Theorem C14_loader_add_build_LInv : forall l filename fvars pb l', LInv l -> pb_explicit_outs pb <= length (pb_outs pb) -> loader_add_build true l filename fvars pb = Ok l' -> LInv l'.
Proof. exact loader_add_build_LInv. Qed.
Print Assumptions C14_loader_add_build_LInv.

Theorem C14_parser_explicit_outs : forall fixed fuel s vs pb vs' s', parser_read fixed fuel s vs = SOk (Some (SBuild pb), vs') s' -> pb_explicit_outs pb <= length (pb_outs pb).
Proof. exact parser_read_build. Qed.
Print Assumptions C14_parser_explicit_outs.

Theorem C14_unique_producer : forall depth fs name text l, load_manifest true depth fs name text = Ok l -> LInv l.
Proof. exact load_manifest_LInv. Qed.
Print Assumptions C14_unique_producer.

(* 4. a second producer is rejected, citing both statements *)
Theorem C14_second_producer_rejected : forall fixed l b pre o post f prev, LInv l -> lb_outs b = pre ++ o :: post -> (forall o', In o' pre -> exists f', nth_error (l_files l) o' = Some f' /\ lf_input f' = None) -> nth_error (l_files l) o = Some f -> lf_input f = Some prev -> exists pb, nth_error (l_builds l) prev = Some pb /\ In o (lb_outs pb) /\ graph_add_build fixed l b = Err (loc_text (lb_file b) (lb_line b) ++ bs ": " ++ str_debug (lf_name f) ++ bs " is already an output at " ++ loc_text (lb_file pb) (lb_line pb)).
Proof. exact second_producer_rejected. Qed.
Print Assumptions C14_second_producer_rejected.

Theorem C14_any_second_producer_rejected : forall fixed l b o f prev, LInv l -> (forall o', In o' (lb_outs b) -> o' < length (l_files l)) -> In o (lb_outs b) -> nth_error (l_files l) o = Some f -> lf_input f = Some prev -> exists m, graph_add_build fixed l b = Err m.
Proof. exact any_second_producer_rejected. Qed.
Print Assumptions C14_any_second_producer_rejected.

Theorem C14_build_error_aborts_load : forall fixed rec fs reading buf filename n l s vs pb vs1 s1 m, parser_read fixed (parse_fuel buf) s vs = SOk (Some (SBuild pb), vs1) s1 -> loader_add_build fixed l filename vs1 pb = Err m -> stmts_loop fixed rec fs reading buf filename (S n) l s vs = Err m.
Proof. exact stmts_loop_build_err. Qed.
Print Assumptions C14_build_error_aborts_load.

Theorem C14_second_producer_example : load_manifest true 5 [] (bs "build.ninja") (ln "rule r" (ln "  command = c" (ln "build o: r" (ln "build p ./o: r" [])))) = Err (bs "build.ninja:4: ""o"" is already an output at build.ninja:3").
Proof. exact second_producer_example. Qed.
Print Assumptions C14_second_producer_example.

Theorem C14_second_producer_across_files_example : load_manifest true 5 [(bs "sub.ninja", ln "build d/../o: r" [])] (bs "build.ninja") (ln "rule r" (ln "  command = c" (ln "build o: r" (ln "subninja sub.ninja" [])))) = Err (bs "sub.ninja:1: ""o"" is already an output at build.ninja:3").
Proof. exact second_producer_across_files_example. Qed.
Print Assumptions C14_second_producer_across_files_example.

(* 5. an output repeated within one statement *)
Theorem C14_repeat_within_statement : forall l b, LInv l -> (forall i, In i (lb_ins b) -> i < length (l_files l)) -> (forall o, In o (lb_outs b) -> exists f, nth_error (l_files l) o = Some f /\ lf_input f = None) -> lb_explicit_outs b <= length (lb_outs b) -> exists l' b', graph_add_build true l b = Ok l' /\ LInv l' /\ l_builds l' = l_builds l ++ [b'] /\ lb_outs b' = dedup (lb_outs b) /\ lb_explicit_outs b' = length (dedup (firstn (lb_explicit_outs b) (lb_outs b))) /\ lb_ins b' = lb_ins b /\ lb_cmdline b' = lb_cmdline b /\ lb_file b' = lb_file b /\ lb_line b' = lb_line b /\ l_warnings l' = l_warnings l ++ map (fun o => bs "n2: warn: " ++ loc_text (lb_file b) (lb_line b) ++ bs ": " ++ str_debug (file_nm l o) ++ bs " is repeated in output list") (repeats (lb_outs b)).
Proof. exact repeat_within_statement. Qed.
Print Assumptions C14_repeat_within_statement.

Theorem C14_repeat_example : exists l b, load_manifest true 5 [] (bs "build.ninja") (ln "rule r" (ln "  command = c" (ln "build o o | ./o p o: r" []))) = Ok l /\ l_builds l = [b] /\ map (file_nm l) (lb_outs b) = [bs "o"; bs "p"] /\ lb_explicit_outs b = 1 /\ l_warnings l = [bs "n2: warn: build.ninja:3: ""o"" is repeated in output list"; bs "n2: warn: build.ninja:3: ""o"" is repeated in output list"; bs "n2: warn: build.ninja:3: ""o"" is repeated in output list"].
Proof. exact repeat_example. Qed.
Print Assumptions C14_repeat_example.
