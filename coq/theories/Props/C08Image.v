(* C08, repaired (audit finding M4) - renumbering the steps of the manifest (src/db.rs).
   C08_renumbering_invariant carries a third premise that follows from the first two
   (C08_renumbering_opens), and both are silent about step ids OUTSIDE the image of the
   renumbering, where the renumbered state must hold nothing.
   Statements only; proofs in Proofs/FixDbImage.v, Proofs/AuditFindingsMisc.v. *)
From Coq Require Import String.
From N2 Require Import Model.All Proofs.DbSpec.
From N2 Require Import Proofs.AuditFindingsMisc Proofs.FixDbImage.

(* the third premise of C08_renumbering_invariant is derivable *)
Theorem C08_renumbering_third_premise_redundant : forall producer sigma log st1, (forall x y : nat, sigma x = sigma y -> x = y) -> db_open true producer log = OpenOk st1 log -> exists st2, db_open true (fun n => option_map sigma (producer n)) log = OpenOk st2 log.
Proof. exact M4_third_premise_redundant. Qed.
Print Assumptions C08_renumbering_third_premise_redundant.

(* nothing is loaded for a step id no step was renumbered to *)
Theorem C08_renumbering_outside_image : forall producer sigma log st1 st2 f, (forall x y : nat, sigma x = sigma y -> x = y) -> db_open true producer log = OpenOk st1 f -> db_open true (fun n => option_map sigma (producer n)) log = OpenOk st2 f -> forall c, (forall b, sigma b <> c) -> loaded_for st2 c = None.
Proof. exact M4_outside_image_empty. Qed.
Print Assumptions C08_renumbering_outside_image.

(* the complete statement, for any file content (torn files included): the renumbered open
   succeeds with the same recovered file and id table, step sigma b holds what step b held, and
   every other step id holds nothing *)
Theorem C08_renumbering_exact : forall producer sigma log st1 f, (forall x y : nat, sigma x = sigma y -> x = y) -> db_open true producer log = OpenOk st1 f -> exists st2, db_open true (fun n => option_map sigma (producer n)) log = OpenOk st2 f /\ ld_tbl st2 = ld_tbl st1 /\ (forall b, loaded_for st2 (sigma b) = loaded_for st1 b) /\ (forall c, (forall b, sigma b <> c) -> loaded_for st2 c = None).
Proof. exact renumbering_exact. Qed.
Print Assumptions C08_renumbering_exact.

(* C08_renumbering_invariant without the redundant premise, with the missing conjunct *)
Theorem C08_renumbering_invariant_two_premises : forall producer sigma log st1, (forall x y : nat, sigma x = sigma y -> x = y) -> db_open true producer log = OpenOk st1 log -> exists st2, db_open true (fun n => option_map sigma (producer n)) log = OpenOk st2 log /\ (forall b, loaded_for st2 (sigma b) = loaded_for st1 b) /\ (forall c, (forall b, sigma b <> c) -> loaded_for st2 c = None).
Proof. exact renumbering_invariant_two_premises. Qed.
Print Assumptions C08_renumbering_invariant_two_premises.

(* a renumbering that is not onto (every id shifted by five): steps 0 and 1 of the old numbering
   are loaded as 5 and 6, the ids 0 and 1 hold nothing *)
Example C08_renumbering_exact_example : exists producer sigma log st1 f, (forall x y : nat, sigma x = sigma y -> x = y) /\ db_open true producer log = OpenOk st1 f /\ (forall b, sigma b <> 0) /\ (forall b, sigma b <> 1) /\ loaded_for st1 0 = Some ([bs "y"], 22%N) /\ loaded_for st1 1 = Some ([bs "x"], 33%N) /\ exists st2, db_open true (fun n => option_map sigma (producer n)) log = OpenOk st2 f /\ loaded_for st2 5 = Some ([bs "y"], 22%N) /\ loaded_for st2 6 = Some ([bs "x"], 33%N) /\ loaded_for st2 0 = None /\ loaded_for st2 1 = None.
Proof. exact renumbering_exact_example. Qed.
