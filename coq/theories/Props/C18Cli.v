(* C18 (third sentence), C04/C05 (where -j and -k come from), C19 (the final summary): the command
   line, Model/Cli.v = run.rs parse_args over the lexopt 0.3.0 parser, subtool, debugtool, and
   run_impl's summary.
   "-f, -C and builddir select manifest, working directory and log location without otherwise
   changing behaviour."
   Statements only; proofs in Proofs/CliProofs.v. *)
From Coq Require Import String.
From N2 Require Import Model.All Model.Fancy Model.Cli.
From N2 Require Import Proofs.CliProofs.

(* the canonical command line `n2 -f FILE -C DIR -j N -k M target...`: the manifest is FILE, the
   directory DIR, parallelism N, budget M, the targets are exactly the words, in order, and nothing
   else is switched on *)
Theorem C18_cli_canonical : forall bad file dir j k ws n m, Forall plain ws -> bad [] dir = true -> parse_usize j = Some n -> parse_usize k = Some m -> exists a, parse_args bad (bs "n2") ([45; 102]%N :: file :: [45; 67]%N :: dir :: [45; 106]%N :: j :: [45; 107]%N :: k :: ws) = PArgs a /\ ba_file a = Some (lossy file) /\ ba_chdirs a = [dir] /\ ba_par a = n /\ ba_keep a = Some m /\ ba_targets a = map lossy ws /\ ba_adopt a = false /\ ba_compat a = false /\ ba_verbose a = false.
Proof. exact cli_canonical. Qed.
Print Assumptions C18_cli_canonical.

(* without options every word is a target and every setting keeps its default *)
Theorem C18_cli_targets_only : forall bad ws, Forall plain ws -> parse_args bad (bs "n2") ws = PArgs (mkBA false false false false [] None (map lossy ws) 0 None false).
Proof. exact cli_targets_only. Qed.
Print Assumptions C18_cli_targets_only.

(* after `--` everything is a target, whatever it looks like *)
Theorem C18_cli_after_dashdash : forall bad ws v, exists a, parse_args bad (bs "n2") (dashdash :: v :: ws) = PArgs a /\ ba_targets a = map lossy (v :: ws) /\ ba_file a = None /\ ba_chdirs a = [].
Proof. exact cli_after_dashdash. Qed.
Print Assumptions C18_cli_after_dashdash.

(* `-f FILE`, `-fFILE` and `-f=FILE` are one (likewise -j): at any point of the command line *)
Theorem C18_cli_f_spellings : forall bad fuel a x xs rest, x <> 61%N -> parse_loop bad (S fuel) a LNone ([45; 102]%N :: (x :: xs) :: rest) = parse_loop bad (S fuel) a LNone ((45 :: 102 :: x :: xs)%N :: rest) /\ parse_loop bad (S fuel) a LNone ([45; 102]%N :: (x :: xs) :: rest) = parse_loop bad (S fuel) a LNone ((45 :: 102 :: 61 :: x :: xs)%N :: rest).
Proof. exact cli_f_spellings. Qed.
Print Assumptions C18_cli_f_spellings.

Theorem C04_cli_j_spellings : forall bad fuel a x xs rest, x <> 61%N -> parse_loop bad (S fuel) a LNone ([45; 106]%N :: (x :: xs) :: rest) = parse_loop bad (S fuel) a LNone ((45 :: 106 :: x :: xs)%N :: rest) /\ parse_loop bad (S fuel) a LNone ([45; 106]%N :: (x :: xs) :: rest) = parse_loop bad (S fuel) a LNone ((45 :: 106 :: 61 :: x :: xs)%N :: rest).
Proof. exact cli_j_spellings. Qed.
Print Assumptions C04_cli_j_spellings.

(* the final line: exit status 0 iff the build succeeded; `no work to do` exactly for zero
   commands; otherwise the number of commands, with the plural s except for one *)
Theorem C19_summary : forall tasks, (snd (summary tasks) = 0%N <-> tasks <> None) /\ (fst (summary tasks) = bs "n2: no work to do" ++ [10%N] <-> tasks = Some 0%N) /\ (forall n, tasks = Some n -> n <> 0%N -> fst (summary tasks) = bs "n2: ran " ++ dec_of_N n ++ bs " task" ++ (if (n =? 1)%N then [] else bs "s") ++ bs ", now up to date" ++ [10%N]) /\ (tasks = None -> summary tasks = ([], 1%N)).
Proof. exact summary_spec. Qed.
Print Assumptions C19_summary.
