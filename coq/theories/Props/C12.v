(* C12 - any input is either loaded or rejected with a diagnostic.  Statements only. *)
From Coq Require Import String.
From N2 Require Import Model.All.
From N2 Require Import Proofs.ParseSpec.
From N2 Require Import Proofs.DepfileSafe Proofs.ParseSafeWit Proofs.ParseSafeScan Proofs.ParseSafeStmt Proofs.ParseSafeLoad Proofs.ParseSafeErr.

Theorem C12_parser_read_safe : forall text vs, match parser_read true (parse_fuel (text ++ [0%N])) (mkScanner (text ++ [0%N]) 0 1) vs with SOk (Some _, _) s' => sbuf s' = text ++ [0%N] /\ (0 < sofs s' <= length text)%nat | SOk (None, _) _ => True | SErr _ o => (o <= length (text ++ [0%N]))%nat | SPanic _ => False | SOob _ => False | SFuel => False end.
Proof. exact parser_read_safe_initial_explicit. Qed.
Print Assumptions C12_parser_read_safe.

Theorem C12_parser_read_safe_gen : forall text s vs, good_scanner text s -> match parser_read true (parse_fuel (text ++ [0%N])) s vs with SOk (Some _, _) s' => good_scanner text s' /\ (sofs s < sofs s')%nat | SOk (None, _) s' => good_scanner text s' | SErr _ o => (o <= length (text ++ [0%N]))%nat | SPanic _ => False | SOob _ => False | SFuel => False end.
Proof. exact parser_read_safe_gen. Qed.
Print Assumptions C12_parser_read_safe_gen.

Theorem C12_parser_read_fuel : forall text f s vs, good_scanner text s -> (length (text ++ [0%N]) + 2 <= f + sofs s)%nat -> parser_read_ok text s (parser_read true f s vs).
Proof. exact parser_read_safe_fuel. Qed.
Print Assumptions C12_parser_read_fuel.

Theorem C12_manifest_safe : forall depth fs name text, match load_manifest true depth fs name text with Ok _ | Err _ => True | Panic s => s = 0%N \/ s = 1%N \/ s = 60%N | OutOfBounds _ => False | OutOfFuel => False end.
Proof. exact manifest_safe. Qed.
Print Assumptions C12_manifest_safe.

Theorem C12_manifest_panic0 : forall depth fs name text, load_manifest true depth fs name text = Panic 0%N -> name = [].
Proof. exact manifest_panic0. Qed.
Print Assumptions C12_manifest_panic0.

Theorem C12_include_cycle_rejected : load_manifest true 5 [(bs "build.ninja", bs "include build.ninja" ++ [10%N])] (bs "build.ninja") (bs "include build.ninja" ++ [10%N]) = Err (bs "build.ninja: build.ninja includes itself").
Proof. exact include_cycle_rejected. Qed.
Print Assumptions C12_include_cycle_rejected.

Theorem C12_error_format : forall text filename s vs m o, good_scanner text s -> parser_read true (parse_fuel (text ++ [0%N])) s vs = SErr m o -> exists lno ctx pad, (1 <= lno)%nat /\ (length (error_prefix filename lno) <= pad)%nat /\ format_parse_error (text ++ [0%N]) filename m o = Ok (error_text filename m lno ctx pad).
Proof. exact error_format. Qed.
Print Assumptions C12_error_format.

Theorem C12_target_safe : forall g name, match resolve_target g name with Ok _ => True | Panic s => s = 1%N | _ => False end.
Proof. exact target_safe. Qed.
Print Assumptions C12_target_safe.

Theorem C12_depfile_total : forall t, (exists m, depfile_parse t = Ok m) \/ (exists e, depfile_parse t = Err e).
Proof. exact depfile_total. Qed.
Print Assumptions C12_depfile_total.

Theorem C12_pinned_vardef_refuted : exists text vs, parser_read false (parse_fuel (text ++ [0%N])) (mkScanner (text ++ [0%N]) 0 1) vs = SOob 20%N.
Proof. exact pinned_vardef_refuted. Qed.
Print Assumptions C12_pinned_vardef_refuted.
