(* C06 ("never ... waits forever"), C04 (what the -j test counts), C20/C09 (whose output lines
   can reach the display): the worker threads and the channel of task::Runner (Model/Runner.v,
   on top of Model/Task.v).  The channel keeps each worker's messages in order and nothing else;
   which worker is heard next is the environment's choice at every receive.
   Statements only; proofs in Proofs/RunnerProofs.v (written by a proof sub-agent against these
   statements). *)
From Coq Require Import String.
From N2 Require Import Model.All Model.Task Model.Runner.
From N2 Require Import Proofs.TaskProofs Proofs.RunnerProofs.

(* every worker sends its result, as the last thing it sends: run_task cannot panic and an error
   becomes a failed task (C16_worker_result_total) *)
Theorem C06_every_worker_reports : forall id hide showinc depfile run, exists msgs, worker_msgs id hide showinc depfile run = Ok msgs.
Proof. exact worker_msgs_total. Qed.
Print Assumptions C06_every_worker_reports.

Theorem C06_worker_messages_shape : forall id hide showinc depfile run msgs, worker_msgs id hide showinc depfile run = Ok msgs -> exists r, worker_result showinc depfile run = Ok r /\ msgs = map (ROut id) (worker_outputs hide run) ++ [RDone id r].
Proof. exact worker_msgs_shape. Qed.
Print Assumptions C06_worker_messages_shape.

(* the invariant: every queue is empty or ends in its worker's result, and `running` is the number
   of workers whose result has not been received; it holds initially and is kept by start *)
Theorem C04_runner_invariant_start : forall p, WInv (rn_new p).
Proof. exact WInv_new. Qed.
Theorem C04_runner_invariant_kept_by_start : forall rn id hide showinc depfile run msgs, WInv rn -> worker_msgs id hide showinc depfile run = Ok msgs -> WInv (rn_start rn id msgs).
Proof. exact WInv_start_worker. Qed.
Print Assumptions C04_runner_invariant_kept_by_start.

(* Runner::wait returns, in whatever order the channel delivers: with the result of a worker that
   had been started and not yet heard from, having handed to the display only output lines of
   such workers; `running` goes down by exactly one and the invariant is kept *)
Theorem C06_wait_always_returns : forall rn choices outs0, WInv rn -> 0 < rn_running rn -> forall fuel, wait_fuel rn <= fuel -> exists outs id r rn', rn_wait fuel rn choices outs0 = Ok (outs0 ++ outs, (id, r), rn') /\ WInv rn' /\ rn_running rn' + 1 = rn_running rn /\ rn_par rn' = rn_par rn /\ In id (map fst (pending rn)) /\ (forall i l, In (i, l) outs -> In i (map fst (pending rn))) /\ chan_size rn' < chan_size rn.
Proof. exact rn_wait_returns. Qed.
Print Assumptions C06_wait_always_returns.

(* hence the -j test counts exactly the commands whose completion has not been received *)
Theorem C04_can_start_more_counts_live_workers : forall rn, WInv rn -> rn_can_start_more rn = (length (pending rn) <? rn_par rn).
Proof. exact rn_can_start_more_pending. Qed.
Print Assumptions C04_can_start_more_counts_live_workers.

(* both halves of the invariant are needed: a worker that never sends its result is an endless
   wait, a result that was not counted at start is an underflow *)
Theorem C06_runner_invariant_is_needed : (forall choices, rn_wait 5 (mkRunner 1 1 [(1, [ROut 1 []])]) choices [] = Panic 81%N) /\ (forall choices, rn_wait 5 (mkRunner 0 1 [(1, [RDone 1 (mkTR 0 [] None)])]) choices [] = Panic 80%N).
Proof. split; [exact no_result_waits_forever | exact running_underflow]. Qed.
Print Assumptions C06_runner_invariant_is_needed.
