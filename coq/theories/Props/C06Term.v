(* C06, third part - the run loop terminates whatever the scheduler chooses and whatever the
   environment answers.  C06Bound.v bounds the non-stuttering events of an accepted trace and
   shows that SOME continuation completes; here: from every reachable state that has not
   returned some non-stuttering event is accepted (so a trace can only stop being extended at a
   return), the scheduler needs the environment only while a step is examined or a command
   runs, every maximal trace ends in a returned state, no infinite run makes infinitely many
   moves, with the two fairness premises on EQuiesce / EUpdate the whole length is bounded,
   and the returned state is characterised by the value returned.
   Statements only; proofs in Proofs/SchedTerm*.v, vocabulary in Proofs/SchedTermSpec.v. *)
From N2 Require Import Model.All Proofs.SchedSpec Proofs.SchedBoundSpec Proofs.SchedTermSpec.
From N2 Require Import Proofs.SchedTerm Proofs.SchedTermFair Proofs.SchedTermFinal Proofs.SchedTermReturn Proofs.SchedTermEx.

(* ---- who moves ---- *)

(* scheduler moves: EPopReady ESet EStart ERecord EReturn; environment moves: EVerdict EFinish;
   stuttering: EUpdate EQuiesce.  Every event is in exactly one class *)
Theorem C06_move_classes : forall e, ((if is_stutter e then 1 else 0) + (if sched_move e then 1 else 0) + (if env_move e then 1 else 0) = 1)%nat.
Proof. exact SchedTerm.move_classes. Qed.
Print Assumptions C06_move_classes.

(* an environment move is accepted only while a step is being examined, or at the top of the loop with a command running *)
Theorem C06_env_move_awaited : forall cf r e r', accept1 cf r e = Some r' -> env_move e = true -> (exists b, rs_ctl r = CChecking b) \/ (rs_ctl r = CIdle /\ (0 < rs_running r)%nat).
Proof. exact SchedTerm.env_move_awaited. Qed.
Print Assumptions C06_env_move_awaited.

(* ---- no reachable state is stuck ---- *)

(* whatever the environment answers (vd, tm), some event that is not a stutter and agrees with these answers is accepted *)
Theorem C06_never_stuck : forall cf decls, graph_wf (cf_graph cf) -> (1 <= cf_parallelism cf)%nat -> forall vd tm, (forall b, b_phony (get_build (cf_graph cf) b) = true -> vd b <> VDirty) -> forall r, reachable cf decls r -> (forall ok, rs_ctl r <> CReturned ok) -> exists e r', is_stutter e = false /\ obeys vd tm e /\ accept1 cf r e = Some r'.
Proof. exact SchedTerm.never_stuck. Qed.
Print Assumptions C06_never_stuck.

(* the sharper form: unless the acceptor awaits the environment, a scheduler move is accepted *)
Theorem C06_scheduler_never_waits : forall cf decls, graph_wf (cf_graph cf) -> (1 <= cf_parallelism cf)%nat -> forall r, reachable cf decls r -> (forall ok, rs_ctl r <> CReturned ok) -> ~ awaits_env r -> exists e r', sched_move e = true /\ accept1 cf r e = Some r'.
Proof. exact SchedTerm.scheduler_never_waits. Qed.
Print Assumptions C06_scheduler_never_waits.

(* at the top of the loop with no command running: examine a ready step, start a queued one, promote a waiting one, or return *)
Theorem C06_idle_scheduler_move : forall cf decls, graph_wf (cf_graph cf) -> (1 <= cf_parallelism cf)%nat -> forall r, reachable cf decls r -> rs_ctl r = CIdle -> rs_running r = 0%nat -> exists e r', sched_move e = true /\ accept1 cf r e = Some r' /\ exists b, e = EPopReady b \/ e = ESet b Queued Running \/ e = ESet b Want Ready \/ e = EReturn (Some (rs_failed r =? 0)%nat).
Proof. exact SchedTerm.idle_scheduler_move. Qed.
Print Assumptions C06_idle_scheduler_move.

(* in the middle of an iteration, once the verdict is in *)
Theorem C06_mid_iteration_scheduler_move : forall cf decls, graph_wf (cf_graph cf) -> (1 <= cf_parallelism cf)%nat -> forall r, reachable cf decls r -> (exists b v rec, rs_ctl r = CVerdict b v rec) \/ (exists b, rs_ctl r = CStarting b) \/ (exists b t rec, rs_ctl r = CFinished b t rec) -> exists e r', sched_move e = true /\ accept1 cf r e = Some r'.
Proof. exact SchedTerm.mid_iteration_scheduler_move. Qed.
Print Assumptions C06_mid_iteration_scheduler_move.

(* while a step is being examined only its verdict is accepted: there the scheduler does wait *)
Theorem C06_checking_only_verdict : forall cf r b e r', rs_ctl r = CChecking b -> accept1 cf r e = Some r' -> exists v, e = EVerdict b v.
Proof. exact SchedTerm.checking_only_verdict. Qed.
Print Assumptions C06_checking_only_verdict.

(* the environment is never refused: every verdict (a step without a command cannot be dirty) on the step examined, every termination of every running command; and with a command running some step is Running *)
Theorem C06_env_never_refused : forall cf decls, graph_wf (cf_graph cf) -> forall r, reachable cf decls r -> (forall b, rs_ctl r = CChecking b -> forall v, (v = VDirty -> b_phony (get_build (cf_graph cf) b) = false) -> exists r', accept1 cf r (EVerdict b v) = Some r') /\ (rs_ctl r = CIdle -> (0 < rs_running r)%nat -> (exists b, (b < length (g_builds (cf_graph cf)))%nat /\ get_state (rs_bs r) b = Running) /\ forall b t, get_state (rs_bs r) b = Running -> exists r', accept1 cf r (EFinish b t) = Some r').
Proof. exact SchedTerm.env_never_refused. Qed.
Print Assumptions C06_env_never_refused.

Example C06_never_stuck_example_idle : exists cf decls r e r', graph_wf (cf_graph cf) /\ (1 <= cf_parallelism cf)%nat /\ reachable cf decls r /\ rs_ctl r = CIdle /\ rs_running r = 0%nat /\ e = EPopReady 1%nat /\ sched_move e = true /\ accept1 cf r e = Some r'.
Proof. exact ex_never_stuck_idle. Qed.

Example C06_never_stuck_example_checking : exists cf decls r e r', graph_wf (cf_graph cf) /\ (1 <= cf_parallelism cf)%nat /\ reachable cf decls r /\ rs_ctl r = CChecking 1%nat /\ e = EVerdict 1%nat VDirty /\ env_move e = true /\ accept1 cf r e = Some r' /\ forall e2 r2, accept1 cf r e2 = Some r2 -> sched_move e2 = false.
Proof. exact ex_never_stuck_checking. Qed.

Example C06_never_stuck_example_verdict : exists cf decls r e r', graph_wf (cf_graph cf) /\ (1 <= cf_parallelism cf)%nat /\ reachable cf decls r /\ rs_ctl r = CVerdict 1%nat VDirty false /\ e = ESet 1%nat Ready Queued /\ sched_move e = true /\ accept1 cf r e = Some r'.
Proof. exact ex_never_stuck_verdict. Qed.

Example C06_never_stuck_example_starting : exists cf decls r e r', graph_wf (cf_graph cf) /\ (1 <= cf_parallelism cf)%nat /\ reachable cf decls r /\ rs_ctl r = CStarting 1%nat /\ e = EStart 1%nat /\ sched_move e = true /\ accept1 cf r e = Some r'.
Proof. exact ex_never_stuck_starting. Qed.

Example C06_never_stuck_example_finished : exists cf decls r e r', graph_wf (cf_graph cf) /\ (1 <= cf_parallelism cf)%nat /\ reachable cf decls r /\ rs_ctl r = CFinished 1%nat TSuccess false /\ e = ERecord 1%nat /\ sched_move e = true /\ accept1 cf r e = Some r'.
Proof. exact ex_never_stuck_finished. Qed.

(* the premise "no command is running" cannot be dropped: here the only unfinished step runs, every termination is accepted, and no scheduler move is *)
Example C06_scheduler_waits_example : exists cf decls r, graph_wf (cf_graph cf) /\ (1 <= cf_parallelism cf)%nat /\ reachable cf decls r /\ rs_ctl r = CIdle /\ rs_running r = 1%nat /\ (forall t, exists r', env_move (EFinish 0%nat t) = true /\ accept1 cf r (EFinish 0%nat t) = Some r') /\ forall e r', accept1 cf r e = Some r' -> sched_move e = false.
Proof. exact ex_scheduler_waits. Qed.

(* ---- every run terminates ---- *)

(* maximal cf r evs r' := accepts cf r evs = Some r' /\ no event that is not a stutter is accepted from r'.
   A maximal trace from a reachable state ends in a returned state and has at most 9 moves per unfinished step plus one *)
Theorem C06_every_run_terminates : forall cf decls, graph_wf (cf_graph cf) -> (1 <= cf_parallelism cf)%nat -> forall r evs r', reachable cf decls r -> maximal cf r evs r' -> (exists ok, rs_ctl r' = CReturned ok) /\ (count_ev (fun e => negb (is_stutter e)) evs <= 9 * unfinished (cf_graph cf) (rs_bs r) + 1)%nat /\ (unfinished (cf_graph cf) (rs_bs r) <= length (g_builds (cf_graph cf)))%nat.
Proof. exact SchedTerm.every_run_terminates. Qed.
Print Assumptions C06_every_run_terminates.

Theorem C06_maximal_iff_returned : forall cf decls, graph_wf (cf_graph cf) -> (1 <= cf_parallelism cf)%nat -> forall r evs r', reachable cf decls r -> accepts cf r evs = Some r' -> (maximal cf r evs r' <-> exists ok, rs_ctl r' = CReturned ok).
Proof. exact SchedTerm.maximal_iff_returned. Qed.
Print Assumptions C06_maximal_iff_returned.

(* maximal traces exist: every accepted trace is the beginning of one, for every environment *)
Theorem C06_maximal_extension : forall cf decls, graph_wf (cf_graph cf) -> (1 <= cf_parallelism cf)%nat -> forall vd tm, (forall b, b_phony (get_build (cf_graph cf) b) = true -> vd b <> VDirty) -> forall r evs r1, reachable cf decls r -> accepts cf r evs = Some r1 -> exists evs2 r', maximal cf r (evs ++ evs2) r' /\ Forall (obeys vd tm) evs2 /\ count_ev is_stutter evs2 = 0%nat /\ (length evs2 <= 4 * run_potential (cf_graph cf) (rs_bs r1) + 8)%nat.
Proof. exact SchedTerm.maximal_extension. Qed.
Print Assumptions C06_maximal_extension.

Example C06_every_run_terminates_example : exists cf decls r evs r', graph_wf (cf_graph cf) /\ (1 <= cf_parallelism cf)%nat /\ reachable cf decls r /\ rs_ctl r = CIdle /\ maximal cf r evs r' /\ rs_ctl r' = CReturned (Some true) /\ count_ev (fun e => negb (is_stutter e)) evs = 27%nat /\ (9 * unfinished (cf_graph cf) (rs_bs r) + 1 = 28)%nat /\ bs_states (rs_bs r') = [Done; Done; Done].
Proof. exact ex_maximal_success. Qed.

Example C06_every_run_terminates_example_failure : exists cf decls r evs r', graph_wf (cf_graph cf) /\ (1 <= cf_parallelism cf)%nat /\ reachable cf decls r /\ rs_ctl r = CIdle /\ maximal cf r evs r' /\ rs_ctl r' = CReturned (Some false) /\ count_ev (fun e => negb (is_stutter e)) evs = 17%nat /\ (9 * unfinished (cf_graph cf) (rs_bs r) + 1 = 28)%nat /\ bs_states (rs_bs r') = [Failed; Done; Want].
Proof. exact ex_maximal_failure. Qed.

Example C06_not_maximal_example : exists cf decls r evs r' e, graph_wf (cf_graph cf) /\ reachable cf decls r /\ accepts cf r evs = Some r' /\ ~ maximal cf r evs r' /\ is_stutter e = false /\ accept1 cf r' e <> None.
Proof. exact ex_not_maximal. Qed.

(* infinite runs: if every finite prefix of f is accepted, the moves of f all lie in a bounded number of positions, so f does not move infinitely often: from some point on it only stutters *)
Theorem C06_infinite_run_moves : forall cf decls, graph_wf (cf_graph cf) -> forall r f n, reachable cf decls r -> infinite_run cf r f -> (count_ev (fun e => negb (is_stutter e)) (prefix f n) <= 9 * unfinished (cf_graph cf) (rs_bs r) + 1)%nat.
Proof. exact SchedTerm.infinite_run_moves. Qed.
Print Assumptions C06_infinite_run_moves.

Theorem C06_no_infinite_run : forall cf decls, graph_wf (cf_graph cf) -> forall r f, reachable cf decls r -> infinite_run cf r f -> ~ (forall n, exists m, (n <= m)%nat /\ is_stutter (f m) = false).
Proof. exact SchedTerm.no_infinite_run. Qed.
Print Assumptions C06_no_infinite_run.

(* ---- the stuttering events: fairness ---- *)

(* quiesce_fair: between two EQuiesce some EFinish; update_fair: between two EUpdate some other event.
   Under both, the whole trace is bounded *)
Theorem C06_fair_run_bounded : forall cf decls, graph_wf (cf_graph cf) -> forall r evs r', reachable cf decls r -> accepts cf r evs = Some r' -> quiesce_fair evs -> update_fair evs -> (length evs <= 20 * unfinished (cf_graph cf) (rs_bs r) + 5)%nat /\ (unfinished (cf_graph cf) (rs_bs r) <= length (g_builds (cf_graph cf)))%nat.
Proof. exact SchedTermFair.fair_run_bounded. Qed.
Print Assumptions C06_fair_run_bounded.

Theorem C06_fair_quiesce_bound : forall cf decls, graph_wf (cf_graph cf) -> forall r evs r', reachable cf decls r -> accepts cf r evs = Some r' -> quiesce_fair evs -> (count_ev is_quiesce evs <= unfinished (cf_graph cf) (rs_bs r) + 1)%nat.
Proof. exact SchedTermFair.fair_quiesce_bound. Qed.
Print Assumptions C06_fair_quiesce_bound.

(* the premise on EQuiesce is the weakest of its kind: on an accepted trace it says no more than "between two EQuiesce there is a move" *)
Theorem C06_quiesce_fair_minimal : forall cf decls, graph_wf (cf_graph cf) -> forall r evs r', reachable cf decls r -> accepts cf r evs = Some r' -> (quiesce_fair evs <-> separated is_quiesce (fun e => negb (is_stutter e)) evs).
Proof. exact SchedTermFair.quiesce_fair_minimal. Qed.
Print Assumptions C06_quiesce_fair_minimal.

(* and it must cover EQuiesce with no command running as well: after a failure has blocked the rest, EQuiesce 0 is accepted any number of times *)
Theorem C06_quiesce_nothing_running : exists cf decls r, graph_wf (cf_graph cf) /\ reachable cf decls r /\ rs_ctl r = CIdle /\ rs_running r = 0%nat /\ forall k, accepts cf r (repeat (EQuiesce 0%nat) k) = Some r.
Proof. exact SchedTermFair.quiesce_nothing_running. Qed.
Print Assumptions C06_quiesce_nothing_running.

(* the premises can be checked on a trace *)
Theorem C06_separated_iff : forall p q evs, separated p q evs <-> sep_b p q false evs = true.
Proof. exact SchedTermFair.separated_iff. Qed.
Print Assumptions C06_separated_iff.

(* the acceptor enforces neither premise: in the witness state EQuiesce n twice, and EUpdate c twice, are accepted *)
Theorem C06_fairness_not_enforced : exists cf decls r c n, graph_wf (cf_graph cf) /\ reachable cf decls r /\ accepts cf r (repeat (EQuiesce n) 2) = Some r /\ ~ quiesce_fair (repeat (EQuiesce n) 2) /\ accepts cf r (repeat (EUpdate c) 2) = Some r /\ ~ update_fair (repeat (EUpdate c) 2).
Proof. exact SchedTermFair.fairness_not_enforced. Qed.
Print Assumptions C06_fairness_not_enforced.

(* and neither can be dropped (without both: C06_trace_length_unbounded, C06_quiesce_count_refuted, C06_update_count_refuted) *)
Theorem C06_quiesce_fair_not_enough : ~ bounded_by_graph_if quiesce_fair (@length event).
Proof. exact SchedTermFair.quiesce_fair_not_enough. Qed.
Print Assumptions C06_quiesce_fair_not_enough.

Theorem C06_update_fair_not_enough : ~ bounded_by_graph_if update_fair (@length event).
Proof. exact SchedTermFair.update_fair_not_enough. Qed.
Print Assumptions C06_update_fair_not_enough.

Example C06_fair_run_bounded_example : exists cf decls r evs r', graph_wf (cf_graph cf) /\ reachable cf decls r /\ maximal cf r evs r' /\ quiesce_fair evs /\ update_fair evs /\ count_ev is_stutter evs = 2%nat /\ length evs = 6%nat /\ (20 * unfinished (cf_graph cf) (rs_bs r) + 5 = 25)%nat.
Proof. exact ex_fair_run. Qed.

(* ---- what a terminated run guarantees ---- *)

(* return_guarantee cf r1 ok (Proofs/SchedTermSpec.v), r1 being the state the loop returned from:
   Some true  - top of the loop, nothing failed, nothing runs, nothing pending, every wanted step Done;
   Some false - top of the loop, something Failed, nothing runs, every wanted step Done, Failed or blocked by a Failed one;
                or the command that has just failed spent the failure budget; or a command was interrupted;
   None       - a build-file error on a step: its dirtiness check failed, or its pool is not declared *)
Theorem C06_return_guarantee : forall cf decls, graph_wf (cf_graph cf) -> forall r1 ok r', reachable cf decls r1 -> accept1 cf r1 (EReturn ok) = Some r' -> return_guarantee cf r1 ok.
Proof. exact SchedTermFinal.return_guarantee_holds. Qed.
Print Assumptions C06_return_guarantee.

Theorem C06_success_iff_all_done : forall cf decls, graph_wf (cf_graph cf) -> forall r1 ok r', reachable cf decls r1 -> accept1 cf r1 (EReturn ok) = Some r' -> (ok = Some true <-> all_done (cf_graph cf) (rs_bs r1)).
Proof. exact SchedTermFinal.success_iff_all_done. Qed.
Print Assumptions C06_success_iff_all_done.

(* and conversely: from the top of the loop EReturn (Some ok) is accepted exactly when nothing more can be done (every wanted step Done, Failed, or blocked by a Failed one), with ok telling whether nothing failed *)
Theorem C06_idle_return_iff : forall cf decls, graph_wf (cf_graph cf) -> forall r ok, reachable cf decls r -> rs_ctl r = CIdle -> ((exists r', accept1 cf r (EReturn (Some ok)) = Some r') <-> (settled (cf_graph cf) (rs_bs r) /\ ok = (rs_failed r =? 0)%nat)).
Proof. exact SchedTermReturn.idle_return_iff. Qed.
Print Assumptions C06_idle_return_iff.

(* a trace that reaches a returned state ends with its EReturn; nothing is accepted afterwards *)
Theorem C06_final_states : forall cf decls, graph_wf (cf_graph cf) -> forall r evs r' ok, reachable cf decls r -> (forall o, rs_ctl r <> CReturned o) -> accepts cf r evs = Some r' -> rs_ctl r' = CReturned ok -> exists evs0 r1, evs = evs0 ++ [EReturn ok] /\ accepts cf r evs0 = Some r1 /\ accept1 cf r1 (EReturn ok) = Some r' /\ r' = with_ctl r1 (CReturned ok) /\ return_guarantee cf r1 ok /\ (ok = Some true <-> all_done (cf_graph cf) (rs_bs r')) /\ forall e, accept1 cf r' e = None.
Proof. exact SchedTermFinal.final_states. Qed.
Print Assumptions C06_final_states.

(* every maximal trace is such a trace *)
Theorem C06_terminated_run_guarantee : forall cf decls, graph_wf (cf_graph cf) -> forall r evs r', (1 <= cf_parallelism cf)%nat -> reachable cf decls r -> (forall o, rs_ctl r <> CReturned o) -> maximal cf r evs r' -> exists ok evs0 r1, rs_ctl r' = CReturned ok /\ evs = evs0 ++ [EReturn ok] /\ accepts cf r evs0 = Some r1 /\ r' = with_ctl r1 (CReturned ok) /\ return_guarantee cf r1 ok /\ (ok = Some true <-> all_done (cf_graph cf) (rs_bs r')).
Proof. exact SchedTermFinal.terminated_run_guarantee. Qed.
Print Assumptions C06_terminated_run_guarantee.

Example C06_final_states_example : exists cf decls r evs r' ok, graph_wf (cf_graph cf) /\ reachable cf decls r /\ (forall o, rs_ctl r <> CReturned o) /\ accepts cf r evs = Some r' /\ rs_ctl r' = CReturned ok /\ ok = Some false /\ get_state (rs_bs r') 0%nat = Failed /\ get_state (rs_bs r') 1%nat = Done /\ blocked (cf_graph cf) (rs_bs r') 2%nat.
Proof. exact ex_final_states. Qed.
