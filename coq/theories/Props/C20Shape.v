(* C20, repaired (audit findings M8, M9) - what truncate and task_message (src/progress_fancy.rs)
   actually produce.
   M8: C20_truncate_safe / _utf8 / _fits are satisfied by "drop the whole string when it does not
       fit"; the missing conjunct is maximality - no char boundary lies between the cut and max -
       and with it the statement determines the function.
   M9: C20_task_message / _fits are satisfied by "print nothing when the message does not fit";
       here: what is printed in each of the three regimes (fits / shortened with "..." / the
       terminal is narrower than "..." plus the time note), and the format of the time note.
   Statements only; proofs in Proofs/FixRender.v (and Proofs/AuditFindingsMisc.v). *)
From Coq Require Import String.
From N2 Require Import Model.All.
From N2 Require Import Proofs.RenderTrunc Proofs.AuditFindingsMisc Proofs.FixRender.

(* ---- M8 ---- *)

Theorem C20_truncate_maximal : forall s max, (length (truncate s max) <= max)%nat /\ (exists t, s = truncate s max ++ t) /\ is_char_boundary s (length (truncate s max)) = true /\ forall j, (length (truncate s max) < j <= max)%nat -> is_char_boundary s j = false.
Proof. exact truncate_maximal. Qed.
Print Assumptions C20_truncate_maximal.

(* the four conjuncts leave no freedom *)
Theorem C20_truncate_unique : forall s max r, (length r <= max)%nat -> (exists t, s = r ++ t) -> is_char_boundary s (length r) = true -> (forall j, (length r < j <= max)%nat -> is_char_boundary s j = false) -> r = truncate s max.
Proof. exact truncate_unique. Qed.
Print Assumptions C20_truncate_unique.

(* a three-byte character straddling the limit: the cut backs up to its first byte, and the
   maximality conjunct speaks about the two continuation bytes *)
Example C20_truncate_maximal_example : let s := [104; 226; 130; 172; 33]%N in utf8_ok s = true /\ truncate s 3 = [104]%N /\ is_char_boundary s 2 = false /\ is_char_boundary s 3 = false /\ is_char_boundary s 4 = true.
Proof. repeat split. Qed.

(* the old statements are satisfied by the degenerate implementation; the new conjunct is not *)
Theorem C20_truncate_old_statements_refuted : ((forall s max, (length (truncate_bad s max) <= max)%nat /\ (exists t, s = truncate_bad s max ++ t) /\ is_char_boundary s (length (truncate_bad s max)) = true) /\ (forall s max, utf8_ok s = true -> utf8_ok (truncate_bad s max) = true) /\ (forall s max, (length s <= max)%nat -> truncate_bad s max = s)) /\ (truncate_bad (bs "hello") 3 = [] /\ truncate (bs "hello") 3 = bs "hel") /\ ~ (forall s max j, (length (truncate_bad s max) < j <= max)%nat -> is_char_boundary s j = false).
Proof. split; [exact M8_bad_truncate_satisfies_C20|]. split; [exact M8_bad_truncate_differs | exact truncate_bad_not_maximal]. Qed.
Print Assumptions C20_truncate_old_statements_refuted.

(* ---- M9 ---- *)

(* the elapsed-time note: nothing up to two seconds, then " (" seconds "s)" with the seconds in
   decimal digits without a leading zero *)
Theorem C20_time_note_shape : forall secs, ((secs <= 2)%N -> time_note secs = []) /\ ((2 < secs)%N -> exists d, time_note secs = bs " (" ++ d ++ bs "s)" /\ d <> [] /\ forallb is_digit d = true /\ dec_value d = secs /\ hd 0%N d <> 48%N).
Proof. exact time_note_shape. Qed.
Print Assumptions C20_time_note_shape.

(* what is printed: the message and the note when they fit in fewer than [cols] bytes; otherwise
   the longest prefix of the message that leaves room for "..." and the note, then "...", then
   the note; and when the terminal cannot even hold "..." and the note, the first [cols] bytes of
   these *)
Theorem C20_task_message_shape : forall m secs cols, ((length m + length (time_note secs) < cols)%nat -> task_message m secs cols = Ok (m ++ time_note secs)) /\ ((length (time_note secs) + 3 <= cols <= length m + length (time_note secs))%nat -> task_message m secs cols = Ok (truncate m (cols - (length (time_note secs) + 3)) ++ bs "..." ++ time_note secs)) /\ ((cols <= length m + length (time_note secs))%nat -> (cols < length (time_note secs) + 3)%nat -> task_message m secs cols = Ok (firstn cols (bs "..." ++ time_note secs))).
Proof. exact task_message_shape. Qed.
Print Assumptions C20_task_message_shape.

Example C20_task_message_shape_example : task_message (bs "cc -c foo.c") 100%N 30 = Ok (bs "cc -c foo.c (100s)") /\ task_message (bs "cc -c foo.c") 100%N 12 = Ok (bs "cc... (100s)") /\ task_message (bs "cc -c foo.c") 1000000%N 10 = Ok (bs "... (10000") /\ task_message (bs "cc -c foo.c") 2%N 30 = Ok (bs "cc -c foo.c").
Proof. repeat split; vm_compute; reflexivity. Qed.

(* the old statements are satisfied by the implementation that prints nothing when the message does not fit *)
Theorem C20_task_message_old_statements_refuted : ((forall m secs cols, exists r, task_message_bad m secs cols = Ok r /\ (length r <= cols)%nat /\ (utf8_ok m = true -> utf8_ok r = true)) /\ (forall m secs cols, (length m + length (time_note secs) < cols)%nat -> task_message_bad m secs cols = Ok (m ++ time_note secs))) /\ task_message_bad (bs "cc -c foo.c") 100%N 12 = Ok [] /\ task_message (bs "cc -c foo.c") 100%N 12 = Ok (bs "cc... (100s)").
Proof. split; [exact M9_bad_task_message_satisfies_C20 | exact task_message_bad_not_shaped]. Qed.
Print Assumptions C20_task_message_old_statements_refuted.
