(* C05 - failure handling: a failed step stays failed, nothing downstream of it starts, the
   failure budget ends the run, the exit status tells the truth.  Statements only; proofs in
   Proofs/SchedRun*.v, Proofs/SchedLive.v. *)
From N2 Require Import Model.All Proofs.SchedSpec.
From N2 Require Import Proofs.SchedRunThms Proofs.SchedRunFinal Proofs.SchedLive.

Theorem C05_failed_is_final : forall cf decls, graph_wf (cf_graph cf) -> forall r tr r' p, reachable cf decls r -> accepts cf r tr = Some r' -> get_state (rs_bs r) p = Failed -> get_state (rs_bs r') p = Failed.
Proof. exact C05_failed_is_final_closed. Qed.
Print Assumptions C05_failed_is_final.

Theorem C05_no_start_downstream_of_failure : forall cf decls, graph_wf (cf_graph cf) -> forall r f b tr r', reachable cf decls r -> get_state (rs_bs r) f = Failed -> ord_reach (cf_graph cf) b f -> accepts cf r tr = Some r' -> starts_of b tr = 0%nat.
Proof. exact C05_no_start_downstream_of_failure_closed. Qed.
Print Assumptions C05_no_start_downstream_of_failure.

Theorem C05_record_only_after_success : forall cf decls r b r', reachable cf decls r -> accept1 cf r (ERecord b) = Some r' -> (rs_ctl r = CFinished b TSuccess false \/ (cf_adopt cf = true /\ rs_ctl r = CVerdict b VDirty false)).
Proof. exact SchedRunThms.C05_record_only_after_success. Qed.
Print Assumptions C05_record_only_after_success.

Theorem C05_budget : forall cf decls r b x e r', reachable cf decls r -> (rs_ctl r = CFinished b TInterrupted x \/ (rs_ctl r = CFinished b TFailure x /\ rs_failures_left r = Some 1%nat)) -> accept1 cf r e = Some r' -> e = EReturn (Some false).
Proof. exact SchedRunThms.C05_budget. Qed.
Print Assumptions C05_budget.

Theorem C05_returned_is_final : forall cf r o e, rs_ctl r = CReturned o -> accept1 cf r e = None.
Proof. exact SchedRunThms.C05_returned_is_final. Qed.
Print Assumptions C05_returned_is_final.

Theorem C05_exit_status : forall cf decls, graph_wf (cf_graph cf) -> forall r r', reachable cf decls r -> accept1 cf r (EReturn (Some true)) = Some r' -> forall b, get_state (rs_bs r) b <> Unknown -> (b < length (g_builds (cf_graph cf)))%nat -> get_state (rs_bs r) b = Done.
Proof. exact C05_exit_status_closed. Qed.
Print Assumptions C05_exit_status.

Theorem C05_keep_going : forall cf decls, graph_wf (cf_graph cf) -> forall r r', reachable cf decls r -> accept1 cf r (EReturn (Some false)) = Some r' -> rs_ctl r = CIdle -> forall b, (b < length (g_builds (cf_graph cf)))%nat -> get_state (rs_bs r) b <> Unknown -> get_state (rs_bs r) b = Done \/ get_state (rs_bs r) b = Failed \/ (get_state (rs_bs r) b = Want /\ exists f, get_state (rs_bs r) f = Failed /\ ord_reach (cf_graph cf) b f).
Proof. exact SchedLive.C05_keep_going. Qed.
Print Assumptions C05_keep_going.
