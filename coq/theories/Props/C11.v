(* C11 - variables are expanded with Ninja's scoping rules.  Statements only. *)
From Coq Require Import String.
From N2 Require Import Model.All.
From N2 Require Import Proofs.EvalScope Proofs.EvalFiles Proofs.GraphLoad.

(* 1. a reference found in env i is expanded in envs i+1.. only *)
Theorem C11_first_env_wins : forall e rest v es, assoc_b v e = Some es -> eval_var (e :: rest) v = evaluate rest es.
Proof. exact eval_first_env_wins. Qed.
Print Assumptions C11_first_env_wins.

Theorem C11_skip_env : forall e rest v, assoc_b v e = None -> eval_var (e :: rest) v = eval_var rest v.
Proof. exact eval_skip_env. Qed.
Print Assumptions C11_skip_env.

(* 2. undefined variables expand to the empty string *)
Theorem C11_undefined_is_empty : forall envs v, (forall e, In e envs -> assoc_b v e = None) -> eval_var envs v = [].
Proof. exact eval_undefined. Qed.
Print Assumptions C11_undefined_is_empty.

Theorem C11_undefined_evaluates_empty : forall envs v, (forall e, In e envs -> assoc_b v e = None) -> evaluate envs [Var v] = [].
Proof. exact evaluate_undefined. Qed.
Print Assumptions C11_undefined_evaluates_empty.

(* 3. evaluate is a homomorphism; literals are copied verbatim *)
Theorem C11_evaluate_app : forall envs a b, evaluate envs (a ++ b) = evaluate envs a ++ evaluate envs b.
Proof. exact evaluate_app. Qed.
Print Assumptions C11_evaluate_app.

Theorem C11_evaluate_lit : forall envs s, evaluate envs [Lit s] = s.
Proof. exact evaluate_lit. Qed.
Print Assumptions C11_evaluate_lit.

Theorem C11_evaluate_var : forall envs v, evaluate envs [Var v] = eval_var envs v.
Proof. exact evaluate_var. Qed.
Print Assumptions C11_evaluate_var.

(* keys *)
Theorem C11_assoc_insert_same : forall (V : Type) k (v : V) l, assoc_b k (insert_b k v l) = Some v.
Proof. exact @assoc_insert_same. Qed.
Print Assumptions C11_assoc_insert_same.

Theorem C11_assoc_insert_other : forall (V : Type) k x (v : V) l, k <> x -> assoc_b k (insert_b x v l) = assoc_b k l.
Proof. exact @assoc_insert_other. Qed.
Print Assumptions C11_assoc_insert_other.

(* 4. file-level bindings are expanded when defined, top-down *)
Theorem C11_top_down : forall vs x v, bind_step vs x v = insert_b x (evaluate [vars_env vs] v) vs /\ assoc_b x (bind_step vs x v) = Some (evaluate [vars_env vs] v) /\ (forall k, k <> x -> assoc_b k (bind_step vs x v) = assoc_b k vs).
Proof. exact top_down. Qed.
Print Assumptions C11_top_down.

Theorem C11_file_var_value : forall vs y, eval_var [vars_env vs] y = match assoc_b y vs with Some s => s | None => [] end.
Proof. exact eval_var_file1. Qed.
Print Assumptions C11_file_var_value.

Theorem C11_value_depends_on_mentioned : forall vs vs' v, (forall y, In y (es_vars v) -> assoc_b y vs = assoc_b y vs') -> evaluate [vars_env vs] v = evaluate [vars_env vs'] v.
Proof. exact value_depends_on_mentioned. Qed.
Print Assumptions C11_value_depends_on_mentioned.

Theorem C11_later_rebinding_no_effect : forall vs x v y w k, k <> y -> assoc_b k (bind_step (bind_step vs x v) y w) = assoc_b k (bind_step vs x v).
Proof. exact later_rebinding_no_effect. Qed.
Print Assumptions C11_later_rebinding_no_effect.

(* 5. x = $x-suffix uses the old value *)
Theorem C11_self_reference : forall vs x s, assoc_b x (bind_step vs x [Var x; Lit s]) = Some ((match assoc_b x vs with Some old => old | None => [] end) ++ s).
Proof. exact self_reference. Qed.
Print Assumptions C11_self_reference.

(* 6. an attribute bound in the build block is expanded in file scope only *)
Theorem C11_build_binding_in_file_scope : forall bvars rule implicit fenv key v, assoc_b key bvars = Some v -> attr_lookup bvars rule implicit fenv key = Some (evaluate [fenv] v).
Proof. exact build_binding_in_file_scope. Qed.
Print Assumptions C11_build_binding_in_file_scope.

Theorem C11_build_binding_independent : forall bvars bvars' rule rule' implicit implicit' fenv key v, assoc_b key bvars = Some v -> assoc_b key bvars' = Some v -> attr_lookup bvars rule implicit fenv key = attr_lookup bvars' rule' implicit' fenv key.
Proof. exact build_binding_independent. Qed.
Print Assumptions C11_build_binding_independent.

Theorem C11_sibling_not_visible : forall bvars rule implicit fenv key y w, assoc_b key bvars = Some [Var y] -> assoc_b y bvars = Some w -> assoc_b y fenv = None -> attr_lookup bvars rule implicit fenv key = Some [].
Proof. exact sibling_not_visible. Qed.
Print Assumptions C11_sibling_not_visible.

(* 7. otherwise the rule's binding: $in/$out, then the build block, then file scope *)
Theorem C11_rule_binding_chain : forall bvars rule implicit fenv key v, assoc_b key bvars = None -> assoc_b key rule = Some v -> attr_lookup bvars rule implicit fenv key = Some (evaluate [implicit; bvars; fenv] v).
Proof. exact rule_binding_chain. Qed.
Print Assumptions C11_rule_binding_chain.

Theorem C11_attr_absent : forall bvars rule implicit fenv key, assoc_b key bvars = None -> assoc_b key rule = None -> attr_lookup bvars rule implicit fenv key = None.
Proof. exact attr_absent. Qed.
Print Assumptions C11_attr_absent.

Theorem C11_chain_implicit_first : forall (implicit bvars fenv : env) y es, assoc_b y implicit = Some es -> eval_var [implicit; bvars; fenv] y = evaluate [bvars; fenv] es.
Proof. exact chain_implicit_first. Qed.
Print Assumptions C11_chain_implicit_first.

Theorem C11_chain_build_shadows_file : forall (implicit bvars fenv : env) y es, assoc_b y implicit = None -> assoc_b y bvars = Some es -> eval_var [implicit; bvars; fenv] y = evaluate [fenv] es.
Proof. exact chain_build_shadows_file. Qed.
Print Assumptions C11_chain_build_shadows_file.

Theorem C11_chain_file_last : forall (implicit bvars fenv : env) y, assoc_b y implicit = None -> assoc_b y bvars = None -> eval_var [implicit; bvars; fenv] y = eval_var [fenv] y.
Proof. exact chain_file_last. Qed.
Print Assumptions C11_chain_file_last.

Theorem C11_magic_vars : forall l pb ins outs (bvars fenv : env), eval_var [implicit_env l pb ins outs; bvars; fenv] (bs "in") = join_names l (firstn (pb_explicit_ins pb) ins) 32%N /\ eval_var [implicit_env l pb ins outs; bvars; fenv] (bs "in_newline") = join_names l (firstn (pb_explicit_ins pb) ins) 10%N /\ eval_var [implicit_env l pb ins outs; bvars; fenv] (bs "out") = join_names l (firstn (pb_explicit_outs pb) outs) 32%N /\ eval_var [implicit_env l pb ins outs; bvars; fenv] (bs "out_newline") = join_names l (firstn (pb_explicit_outs pb) outs) 10%N.
Proof. exact magic_vars. Qed.
Print Assumptions C11_magic_vars.

(* 8. paths on a build line see the build block's bindings, then file scope *)
Theorem C11_evaluate_path_uses : forall l p envs, evaluate_path l p envs = match evaluate envs p with [] => Err (bs "empty path") | path => load_path l path end.
Proof. exact evaluate_path_uses. Qed.
Print Assumptions C11_evaluate_path_uses.

Theorem C11_evaluate_paths_names : forall envs ps l l' ids, evaluate_paths l ps envs = Ok (l', ids) -> Ext l l' /\ Forall (fun id => id < length (l_files l')) ids /\ Forall2 (fun p id => canon (evaluate envs p) = Ok (file_nm l' id)) ps ids.
Proof. exact evaluate_paths_spec. Qed.
Print Assumptions C11_evaluate_paths_names.

Theorem C11_paths_scope : forall fixed l filename fvars pb l', loader_add_build fixed l filename fvars pb = Ok l' -> exists l1 ins l2 outs rule b, evaluate_paths l (pb_ins pb) [pb_vars pb; vars_env fvars] = Ok (l1, ins) /\ evaluate_paths l1 (pb_outs pb) [pb_vars pb; vars_env fvars] = Ok (l2, outs) /\ assoc_b (pb_rule pb) (l_rules l2) = Some rule /\ lb_file b = filename /\ lb_line b = pb_line pb /\ lb_ins b = ins /\ lb_outs b = outs /\ lb_explicit_outs b = pb_explicit_outs pb /\ lb_cmdline b = attr_lookup (pb_vars pb) rule (implicit_env l2 pb ins outs) (vars_env fvars) (bs "command") /\ lb_desc b = attr_lookup (pb_vars pb) rule (implicit_env l2 pb ins outs) (vars_env fvars) (bs "description") /\ lb_depfile b = attr_lookup (pb_vars pb) rule (implicit_env l2 pb ins outs) (vars_env fvars) (bs "depfile") /\ graph_add_build fixed l2 b = Ok l'.
Proof. exact loader_add_build_ok. Qed.
Print Assumptions C11_paths_scope.

(* 9. file boundaries *)
Theorem C11_parse_file_unfold : forall fixed depth fs l filename text inherited, parse_file fixed (S depth) fs l filename text inherited = (do s0 <- sc_new (text ++ [0%N]); stmts_loop fixed (parse_file_r fixed depth fs) fs [] (text ++ [0%N]) filename (S (length (text ++ [0%N]))) l s0 inherited).
Proof. exact parse_file_unfold. Qed.
Print Assumptions C11_parse_file_unfold.

Theorem C11_child_scope_step : forall fixed rec fs reading buf filename n l s vs st p vs1 s1 l1 id content, st = SInclude p \/ st = SSubninja p -> parser_read fixed (parse_fuel buf) s vs = SOk (Some st, vs1) s1 -> evaluate_path l p [vars_env vs1] = Ok (l1, id) -> existsb (bytes_eqb (file_nm l1 id)) reading = false -> assoc_b (file_nm l1 id) fs = Some content -> stmts_loop fixed rec fs reading buf filename (S n) l s vs = (do l2 <- rec (reading ++ [file_nm l1 id]) l1 (file_nm l1 id) content vs1; stmts_loop fixed rec fs reading buf filename n l2 s1 vs1).
Proof. exact stmts_loop_child_scope. Qed.
Print Assumptions C11_child_scope_step.

Theorem C11_subninja_copy : exists l b0 b1, load_manifest true 5 [(bs "sub.ninja", ln "v1 = child" (ln "build p: r" []))] (bs "build.ninja") (ln "rule r" (ln "  command = c.$v0.$v1.$v2" (ln "v0 = top" (ln "subninja sub.ninja" (ln "v2 = late" (ln "build o: r" [])))))) = Ok l /\ l_builds l = [b0; b1] /\ lb_file b0 = bs "sub.ninja" /\ lb_cmdline b0 = Some (bs "c.top.child.") /\ lb_file b1 = bs "build.ninja" /\ lb_cmdline b1 = Some (bs "c.top..late").
Proof. exact subninja_copy. Qed.
Print Assumptions C11_subninja_copy.

Theorem C11_include_extends_refuted : exists l b, load_manifest true 5 [(bs "inc.ninja", ln "v0=sub" [])] (bs "build.ninja") (ln "rule r" (ln "  command = c-$v0" (ln "include inc.ninja" (ln "build o: r" [])))) = Ok l /\ l_builds l = [b] /\ lb_cmdline b = Some (bs "c-").
Proof. exact include_extends_refuted. Qed.
Print Assumptions C11_include_extends_refuted.

Theorem C11_include_sees_parent : exists l b, load_manifest true 5 [(bs "inc.ninja", ln "build o: r" [])] (bs "build.ninja") (ln "rule r" (ln "  command = c-$v0" (ln "v0 = top" (ln "include inc.ninja" [])))) = Ok l /\ l_builds l = [b] /\ lb_file b = bs "inc.ninja" /\ lb_cmdline b = Some (bs "c-top").
Proof. exact include_sees_parent. Qed.
Print Assumptions C11_include_sees_parent.

Theorem C11_build_scope_example : exists l b, load_manifest true 5 [] (bs "build.ninja") (ln "x = file" (ln "y = filey" (ln "rule r" (ln "  command = $out.$x.$y.$z" (ln "  description = d.$x" (ln "build o$x: r" (ln "  x = bx.$x.$z" (ln "  z = bz" (ln "  description = e.$x.$z" []))))))))) = Ok l /\ l_builds l = [b] /\ lb_cmdline b = Some (bs "obx.file..bx.file..filey.bz") /\ lb_desc b = Some (bs "e.file.").
Proof. exact build_scope_example. Qed.
Print Assumptions C11_build_scope_example.
