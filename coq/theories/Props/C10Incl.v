(* C10 / C11, LOADER half for manifests WITH `include` and `subninja` lines.  Statements only.
   (Props/C10Load.v covers include-free files; this file drops [no_include].)

   What Model/Load.v does with a child file (both keywords alike - finding F11 for `include`):
     - the child is read with the file-level variables in force at the line;
     - its steps, defaults, RULES and POOLS go to the one loader: they ARE visible to everything that
       is read later, in whatever file (C10_include_order: the rule table of a step is [rules_of]
       over the whole flat sequence in front of it; C10_example_three_files: `build o1: r2`);
     - its VARIABLES are NOT visible afterwards: the statements after the line carry the variables
       the parser attached to them, a function of the parent's text alone ([reads_to] of the parent
       does not mention the file map);
     - a name in [reading] (the chain of files being read, the manifest itself excepted) is
       rejected; nesting deeper than [depth] is Panic 60 (the model's bound, F20).

   Vocabulary (Proofs/LoadInclSpec.v)
     file_stmts text vs           the reads of a text as a function (C10_file_stmts_reads)
     include_path p vs            the canonical name an include line names;  intern l c  gives it an id
     child_step / stmt_step_files / run_stmts_files depth fs reading l filename sts
                                  the declarative semantics of a statement sequence, children [depth] deep
     run_file depth fs reading l filename text inherited      ... of a whole file
     fitem = FStmt file st vs | FEnd vs;  flat_file / flat_stmts   the flat sequence: every statement
                                  tagged with its file, a child's items right behind its include line,
                                  computed WITHOUT a loader;  run_flat l items  runs it
     stmts_of items               the statements, files forgotten: rules_of, pools_of, default_items,
                                  count_builds, last_rule (LoadGraphRun.v) apply
     fbuild_items rules items     the `build` items in order: (file, (pb, variables, rule table in force))
     fitem_ok l it b / fitem_view it      build_ok / decl_view of such an item
     FlatSpec l0 l items (LoadInclFlat.v), paths_of v (LoadInclIsolated.v), is_child_line st p *)
From Coq Require Import String.
From N2 Require Import Model.All Proofs.EvalScope Proofs.EvalFiles Proofs.GraphDedup Proofs.GraphAddBuild Proofs.GraphLoad.
From N2 Require Import Proofs.LoadGraphSpec Proofs.LoadGraphBuild Proofs.LoadGraphRun Proofs.LoadGraphFile
     Proofs.LoadGraphNames Proofs.LoadGraphView.
From N2 Require Import Proofs.LoadInclSpec Proofs.LoadInclRun Proofs.LoadInclFlat Proofs.LoadInclIsolated
     Proofs.LoadInclEx.

(* ------------------------------------------------------------------------------------ *)
(* 1. the reads as a function *)

Theorem C10_file_stmts_reads : forall text vs,
  reads_to (text ++ [0%N]) (mkScanner (text ++ [0%N]) 0 1) vs
           (fst (file_stmts text vs)) (snd (file_stmts text vs)).
Proof. exact file_stmts_reads. Qed.
Print Assumptions C10_file_stmts_reads.

Theorem C10_reads_file_stmts : forall text vs sts r,
  reads_to (text ++ [0%N]) (mkScanner (text ++ [0%N]) 0 1) vs sts r -> file_stmts text vs = (sts, r).
Proof. exact reads_file_stmts. Qed.
Print Assumptions C10_reads_file_stmts.

(* ------------------------------------------------------------------------------------ *)
(* 2. the imperative loader is the declarative semantics: every outcome alike (graph, loader
      error, parse error, missing file, include cycle, depth exhausted) *)

Theorem C10_parse_file_r_is_run_file : forall fs depth reading l filename text inherited,
  parse_file_r true depth fs reading l filename text inherited =
  run_file depth fs reading l filename text inherited.
Proof. exact parse_file_r_is_run_file. Qed.
Print Assumptions C10_parse_file_r_is_run_file.

Theorem C10_load_manifest_is_run_file : forall depth fs name text,
  load_manifest true depth fs name text =
  do c <- canon name; run_file depth fs [] (loader_start c) name text [].
Proof. exact load_manifest_is_run_file. Qed.
Print Assumptions C10_load_manifest_is_run_file.

Theorem C10_parse_file_r_is_run_stmts_files : forall depth fs reading l filename text inherited sts r,
  reads_to (text ++ [0%N]) (mkScanner (text ++ [0%N]) 0 1) inherited sts r ->
  parse_file_r true (S depth) fs reading l filename text inherited =
  do l' <- run_stmts_files depth fs reading l filename sts; finish (text ++ [0%N]) filename l' r.
Proof. exact parse_file_r_is_run_stmts_files. Qed.
Print Assumptions C10_parse_file_r_is_run_stmts_files.

(* C10_load_manifest_reads without [no_include] *)
Theorem C10_load_is_run_stmts_files : forall depth fs name text sts r,
  reads_to (text ++ [0%N]) (mkScanner (text ++ [0%N]) 0 1) [] sts r ->
  load_manifest true (S depth) fs name text =
  do c <- canon name;
  do l' <- run_stmts_files depth fs [] (loader_start c) name sts;
  finish (text ++ [0%N]) name l' r.
Proof. exact load_is_run_stmts_files. Qed.
Print Assumptions C10_load_is_run_stmts_files.

Theorem C10_load_depth_exhausted : forall fs name text c,
  canon name = Ok c -> load_manifest true 0 fs name text = Panic 60%N.
Proof. exact load_depth_exhausted. Qed.
Print Assumptions C10_load_depth_exhausted.

(* the semantics, equation by equation *)
Theorem C10_run_file_unfold : forall depth fs reading l filename text inherited,
  run_file (S depth) fs reading l filename text inherited =
  do l' <- run_stmts_files depth fs reading l filename (fst (file_stmts text inherited));
  finish (text ++ [0%N]) filename l' (snd (file_stmts text inherited)).
Proof. exact run_file_unfold. Qed.
Print Assumptions C10_run_file_unfold.

Theorem C10_run_stmts_files_nil : forall depth fs reading l filename,
  run_stmts_files depth fs reading l filename [] = Ok l.
Proof. exact run_stmts_files_nil. Qed.
Print Assumptions C10_run_stmts_files_nil.

Theorem C10_run_stmts_files_cons : forall depth fs reading l filename st vs r,
  run_stmts_files depth fs reading l filename ((st, vs) :: r) =
  do l1 <- stmt_step_files (run_file depth fs) fs reading l filename st vs;
  run_stmts_files depth fs reading l1 filename r.
Proof. exact run_stmts_files_cons. Qed.
Print Assumptions C10_run_stmts_files_cons.

(* a conservative extension of [run_stmts] *)
Theorem C10_run_stmts_files_no_include : forall depth fs reading filename sts l,
  no_include sts -> run_stmts_files depth fs reading l filename sts = run_stmts l filename sts.
Proof. exact run_stmts_files_no_include. Qed.
Print Assumptions C10_run_stmts_files_no_include.

(* an include/subninja line that succeeds: the named file is not being read, is in the file map,
   and is loaded as a whole into the loader at hand, with the variables of the line *)
Theorem C10_child_step_ok : forall depth fs reading l filename p vs l2,
  child_step (run_file depth fs) fs reading l filename p vs = Ok l2 <->
  exists path content,
    include_path p vs = Ok path /\ existsb (bytes_eqb path) reading = false /\
    assoc_b path fs = Some content /\
    run_file depth fs (reading ++ [path]) (intern l path) path content vs = Ok l2.
Proof. exact child_step_ok. Qed.
Print Assumptions C10_child_step_ok.

Theorem C10_evaluate_path_include : forall l p vs,
  evaluate_path l p [vars_env vs] = do c <- include_path p vs; Ok (id_from_canonical l c).
Proof. exact evaluate_path_include. Qed.
Print Assumptions C10_evaluate_path_include.

(* ------------------------------------------------------------------------------------ *)
(* 3. the flat sequence *)

(* a file is its statements' items, then its end *)
Theorem C10_flat_file_some : forall depth fs reading filename text inherited items,
  flat_file (S depth) fs reading filename text inherited = Some items ->
  exists vs' s' its,
    snd (file_stmts text inherited) = SOk (None, vs') s' /\
    flat_stmts depth fs reading filename (fst (file_stmts text inherited)) = Some its /\
    items = its ++ [FEnd vs'].
Proof. exact flat_file_some. Qed.
Print Assumptions C10_flat_file_some.

(* a statement that is not an include line is one item *)
Theorem C10_flat_stmts_plain : forall depth fs reading filename st vs r,
  is_include st = false ->
  flat_stmts depth fs reading filename ((st, vs) :: r) =
  match flat_stmts depth fs reading filename r with
  | Some tl => Some (FStmt filename st vs :: tl)
  | None => None
  end.
Proof. exact flat_stmts_plain. Qed.
Print Assumptions C10_flat_stmts_plain.

(* an include line is one item, then the items of the child file, spliced in *)
Theorem C10_flat_stmts_child : forall depth fs reading filename st p vs r items,
  is_child_line st p ->
  flat_stmts depth fs reading filename ((st, vs) :: r) = Some items <->
  exists path content child tl,
    include_path p vs = Ok path /\ existsb (bytes_eqb path) reading = false /\
    assoc_b path fs = Some content /\
    flat_file depth fs (reading ++ [path]) path content vs = Some child /\
    flat_stmts depth fs reading filename r = Some tl /\
    items = FStmt filename st vs :: child ++ tl.
Proof. exact flat_stmts_child. Qed.
Print Assumptions C10_flat_stmts_child.

Theorem C10_flat_stmts_app : forall depth fs reading filename a b,
  flat_stmts depth fs reading filename (a ++ b) =
  match flat_stmts depth fs reading filename a, flat_stmts depth fs reading filename b with
  | Some fa, Some fb => Some (fa ++ fb)
  | _, _ => None
  end.
Proof. exact flat_stmts_app. Qed.
Print Assumptions C10_flat_stmts_app.

(* a file with a flat sequence loads like the sequence: every outcome alike *)
Theorem C10_flat_file_run : forall fs depth reading filename text inherited items,
  flat_file depth fs reading filename text inherited = Some items ->
  forall l, run_file depth fs reading l filename text inherited = run_flat l items.
Proof. exact flat_file_run. Qed.
Print Assumptions C10_flat_file_run.

Theorem C10_load_manifest_flat_gen : forall depth fs name text items,
  flat_file depth fs [] name text [] = Some items ->
  load_manifest true depth fs name text = do c <- canon name; run_flat (loader_start c) items.
Proof. exact load_manifest_flat_gen. Qed.
Print Assumptions C10_load_manifest_flat_gen.

(* a file loads iff it has a flat sequence and the sequence runs *)
Theorem C10_run_file_ok_iff : forall depth fs reading l filename text inherited l',
  run_file depth fs reading l filename text inherited = Ok l' <->
  exists items, flat_file depth fs reading filename text inherited = Some items /\ run_flat l items = Ok l'.
Proof. exact run_file_ok_iff. Qed.
Print Assumptions C10_run_file_ok_iff.

Theorem C10_run_stmts_files_ok_iff : forall depth fs reading l filename sts l',
  run_stmts_files depth fs reading l filename sts = Ok l' <->
  exists items, flat_stmts depth fs reading filename sts = Some items /\ run_flat l items = Ok l'.
Proof. exact run_stmts_files_ok_iff. Qed.
Print Assumptions C10_run_stmts_files_ok_iff.

Theorem C10_load_manifest_flat : forall depth fs name text l,
  load_manifest true depth fs name text = Ok l <->
  exists c items, canon name = Ok c /\ flat_file depth fs [] name text [] = Some items /\
                  run_flat (loader_start c) items = Ok l.
Proof. exact load_manifest_flat. Qed.
Print Assumptions C10_load_manifest_flat.

Theorem C10_flat_file_wf : forall fs depth reading filename text inherited items,
  flat_file depth fs reading filename text inherited = Some items -> fitems_wf items.
Proof. exact flat_file_wf. Qed.
Print Assumptions C10_flat_file_wf.

(* enough depth: a deeper bound changes no outcome of a file that has a flat sequence *)
Theorem C10_run_file_depth : forall fs d d' reading l filename text inherited items,
  flat_file d fs reading filename text inherited = Some items -> d <= d' ->
  run_file d' fs reading l filename text inherited = run_file d fs reading l filename text inherited.
Proof. exact run_file_depth. Qed.
Print Assumptions C10_run_file_depth.

Theorem C10_load_manifest_depth : forall d d' fs name text l,
  load_manifest true d fs name text = Ok l -> d <= d' -> load_manifest true d' fs name text = Ok l.
Proof. exact load_manifest_depth. Qed.
Print Assumptions C10_load_manifest_depth.

(* what a flat sequence leaves in the loader (C10_run_stmts_spec for several files) *)
Theorem C10_run_flat_spec : forall items l0 l,
  LInv l0 -> fitems_wf items -> run_flat l0 items = Ok l ->
  LInv l /\ NamesExt l0 l /\
  (exists bs, l_builds l = l_builds l0 ++ bs /\
              Forall2 (fitem_ok l) (fbuild_items (l_rules l0) items) bs) /\
  l_rules l = rules_of (l_rules l0) (stmts_of items) /\
  l_pools l = pools_of (l_pools l0) (stmts_of items) /\
  (exists ids, l_defaults l = l_defaults l0 ++ ids /\
               Forall2 (default_ok l) (default_items (stmts_of items)) ids /\ ids_in l ids).
Proof. exact run_flat_spec. Qed.
Print Assumptions C10_run_flat_spec.

Theorem C10_run_flat_names_unique : forall items l0 l,
  LInv l0 -> fitems_wf items -> NamesUnique l0 -> run_flat l0 items = Ok l -> NamesUnique l.
Proof. exact run_flat_unique. Qed.
Print Assumptions C10_run_flat_names_unique.

Theorem C10_run_flat_builddir : forall items l0 l, run_flat l0 items = Ok l ->
  l_builddir l = match last_end items with Some vs => assoc_b (bs "builddir") vs | None => l_builddir l0 end.
Proof. exact run_flat_builddir. Qed.
Print Assumptions C10_run_flat_builddir.

(* the k-th build item is the k-th `build` statement of the flat sequence, with its file, and the
   rules declared in front of it in whatever file *)
Theorem C10_fbuild_items_nth : forall items rules k file pb vs rules',
  nth_error (fbuild_items rules items) k = Some (file, (pb, vs, rules')) ->
  exists pre post, items = pre ++ FStmt file (SBuild pb) vs :: post /\
                   count_builds (stmts_of pre) = k /\ rules' = rules_of rules (stmts_of pre).
Proof. exact fbuild_items_nth. Qed.
Print Assumptions C10_fbuild_items_nth.

Theorem C10_fbuild_items_app : forall a rules b,
  fbuild_items rules (a ++ b) = fbuild_items rules a ++ fbuild_items (rules_of rules (stmts_of a)) b.
Proof. exact fbuild_items_app. Qed.
Print Assumptions C10_fbuild_items_app.

(* the steps of the loaded graph: one per `build` statement, in textual order with the included
   files spliced in at their include lines, each as declared where it stands *)
Theorem C10_include_order : forall depth fs name text l,
  load_manifest true depth fs name text = Ok l ->
  exists items vs',
    flat_file depth fs [] name text [] = Some (items ++ [FEnd vs']) /\
    length (l_builds l) = count_builds (stmts_of items) /\
    Forall2 (fitem_ok l) (fbuild_items [(bs "phony", [])] items) (l_builds l) /\
    map fitem_view (fbuild_items [(bs "phony", [])] items) = map (fun b => Some (view l b)) (l_builds l) /\
    l_rules l = rules_of [(bs "phony", [])] (stmts_of items) /\
    l_pools l = pools_of [] (stmts_of items) /\
    Forall2 (default_ok l) (default_items (stmts_of items)) (l_defaults l) /\
    l_builddir l = assoc_b (bs "builddir") vs' /\
    canon name = Ok (file_nm l 0).
Proof. exact include_order. Qed.
Print Assumptions C10_include_order.

(* ------------------------------------------------------------------------------------ *)
(* 4. C11: the child scope is isolated.  Dropping an include/subninja line: the steps in front of
      it are the same; the child's steps go; every later step keeps its file, line, inputs and
      outputs ([paths_of]); it is the same step altogether unless the child (or a file nested in
      it) declared a rule of the name it uses.  The rule and pool tables lose the child's
      declarations, the default targets the child's defaults; the other defaults are the same files
      by name.  (Also different, not stated: warnings, the numbering of files.) *)

Theorem C11_child_scope_isolated : forall depth fs reading l0 file pre st p vs post l l',
  is_child_line st p -> LInv l0 -> NamesUnique l0 -> builds_wf (pre ++ post) ->
  run_stmts_files depth fs reading l0 file (pre ++ (st, vs) :: post) = Ok l ->
  run_stmts_files depth fs reading l0 file (pre ++ post) = Ok l' ->
  exists path content child fpre fpost bs_pre bs_child bs_post bs_pre' bs_post',
    include_path p vs = Ok path /\ assoc_b path fs = Some content /\
    flat_file depth fs (reading ++ [path]) path content vs = Some child /\
    flat_stmts depth fs reading file pre = Some fpre /\
    flat_stmts depth fs reading file post = Some fpost /\
    l_builds l = l_builds l0 ++ bs_pre ++ bs_child ++ bs_post /\
    l_builds l' = l_builds l0 ++ bs_pre' ++ bs_post' /\
    map (view l) bs_pre = map (view l') bs_pre' /\
    length bs_child = count_builds (stmts_of child) /\
    length bs_post = count_builds (stmts_of fpost) /\
    length bs_post' = count_builds (stmts_of fpost) /\
    (forall k b b', nth_error bs_post k = Some b -> nth_error bs_post' k = Some b' ->
       paths_of (view l b) = paths_of (view l' b') /\
       exists f pb vs0 rules rules',
         nth_error (fbuild_items (rules_of (rules_of (l_rules l0) (stmts_of fpre)) (stmts_of child)) fpost) k
           = Some (f, (pb, vs0, rules)) /\
         nth_error (fbuild_items (rules_of (l_rules l0) (stmts_of fpre)) fpost) k
           = Some (f, (pb, vs0, rules')) /\
         (last_rule (pb_rule pb) (stmts_of child) = None -> view l b = view l' b')) /\
    l_rules l = rules_of (rules_of (rules_of (l_rules l0) (stmts_of fpre)) (stmts_of child)) (stmts_of fpost) /\
    l_rules l' = rules_of (rules_of (l_rules l0) (stmts_of fpre)) (stmts_of fpost) /\
    l_pools l = pools_of (pools_of (pools_of (l_pools l0) (stmts_of fpre)) (stmts_of child)) (stmts_of fpost) /\
    l_pools l' = pools_of (pools_of (l_pools l0) (stmts_of fpre)) (stmts_of fpost) /\
    exists dp dx dq dp' dq',
      l_defaults l = l_defaults l0 ++ dp ++ dx ++ dq /\
      l_defaults l' = l_defaults l0 ++ dp' ++ dq' /\
      map (file_nm l) dp = map (file_nm l') dp' /\
      map (file_nm l) dq = map (file_nm l') dq' /\
      Forall2 default_name (default_items (stmts_of child)) (map (file_nm l) dx).
Proof. exact child_scope_isolated. Qed.
Print Assumptions C11_child_scope_isolated.

(* two manifests whose reads differ by one include/subninja line *)
Theorem C11_manifest_child_scope_isolated : forall depth fs name text text' pre st p vs post r r' l l',
  is_child_line st p ->
  reads_to (text ++ [0%N]) (mkScanner (text ++ [0%N]) 0 1) [] (pre ++ (st, vs) :: post) r ->
  reads_to (text' ++ [0%N]) (mkScanner (text' ++ [0%N]) 0 1) [] (pre ++ post) r' ->
  load_manifest true (S depth) fs name text = Ok l ->
  load_manifest true (S depth) fs name text' = Ok l' ->
  exists path content child fpre fpost bs_pre bs_child bs_post bs_pre' bs_post',
    include_path p vs = Ok path /\ assoc_b path fs = Some content /\
    flat_file depth fs [path] path content vs = Some child /\
    flat_stmts depth fs [] name pre = Some fpre /\
    flat_stmts depth fs [] name post = Some fpost /\
    l_builds l = bs_pre ++ bs_child ++ bs_post /\
    l_builds l' = bs_pre' ++ bs_post' /\
    map (view l) bs_pre = map (view l') bs_pre' /\
    length bs_child = count_builds (stmts_of child) /\
    length bs_post = count_builds (stmts_of fpost) /\
    length bs_post' = count_builds (stmts_of fpost) /\
    (forall k b b', nth_error bs_post k = Some b -> nth_error bs_post' k = Some b' ->
       paths_of (view l b) = paths_of (view l' b') /\
       exists f pb vs0 rules rules',
         nth_error (fbuild_items (rules_of (rules_of [(bs "phony", [])] (stmts_of fpre)) (stmts_of child)) fpost) k
           = Some (f, (pb, vs0, rules)) /\
         nth_error (fbuild_items (rules_of [(bs "phony", [])] (stmts_of fpre)) fpost) k
           = Some (f, (pb, vs0, rules')) /\
         (last_rule (pb_rule pb) (stmts_of child) = None -> view l b = view l' b')) /\
    l_rules l = rules_of (rules_of (rules_of [(bs "phony", [])] (stmts_of fpre)) (stmts_of child)) (stmts_of fpost) /\
    l_rules l' = rules_of (rules_of [(bs "phony", [])] (stmts_of fpre)) (stmts_of fpost) /\
    l_pools l = pools_of (pools_of (pools_of [] (stmts_of fpre)) (stmts_of child)) (stmts_of fpost) /\
    l_pools l' = pools_of (pools_of [] (stmts_of fpre)) (stmts_of fpost) /\
    exists dp dx dq dp' dq',
      l_defaults l = dp ++ dx ++ dq /\
      l_defaults l' = dp' ++ dq' /\
      map (file_nm l) dp = map (file_nm l') dp' /\
      map (file_nm l) dq = map (file_nm l') dq' /\
      Forall2 default_name (default_items (stmts_of child)) (map (file_nm l) dx).
Proof. exact manifest_child_scope_isolated. Qed.
Print Assumptions C11_manifest_child_scope_isolated.

(* the same (pb, variables) under two rule tables: a rule name the tables agree on is bound alike
   at every step *)
Theorem C11_fbuild_items_agree : forall n items R1 R2,
  Forall2 (fun a b => fst a = fst b /\ fst (snd a) = fst (snd b) /\
                      (assoc_b n R1 = assoc_b n R2 -> assoc_b n (snd (snd a)) = assoc_b n (snd (snd b))))
          (fbuild_items R1 items) (fbuild_items R2 items).
Proof. exact fbuild_items_agree. Qed.
Print Assumptions C11_fbuild_items_agree.

Theorem C11_decl_view_paths : forall f pb vs r1 r2 v1 v2,
  decl_view f pb vs r1 = Some v1 -> decl_view f pb vs r2 = Some v2 -> paths_of v1 = paths_of v2.
Proof. exact decl_view_paths. Qed.
Print Assumptions C11_decl_view_paths.

Theorem C11_decl_view_rule : forall f pb vs r1 r2,
  assoc_b (pb_rule pb) r1 = assoc_b (pb_rule pb) r2 -> decl_view f pb vs r1 = decl_view f pb vs r2.
Proof. exact decl_view_rule. Qed.
Print Assumptions C11_decl_view_rule.

(* ------------------------------------------------------------------------------------ *)
(* 5. concrete manifests (LoadInclEx.v) *)

(* build.ninja: rule r / command = c.$v.$w / v = top / include a.ninja / build o1: r2 / build o2: r
   a.ninja:     v = child / w = cw / rule r2 / command = d.$v.$w / pool pl / depth = 2 / build p: r /
                subninja b.ninja
   b.ninja:     build q: r2 *)
Theorem C10_example_three_files :
  exists l b0 b1 b2 b3,
    load_manifest true 5 ex_fs (bs "build.ninja") ex_main = Ok l /\
    l_builds l = [b0; b1; b2; b3] /\
    lb_file b0 = bs "a.ninja" /\ lb_line b0 = 7%Z /\ lb_cmdline b0 = Some (bs "c.child.cw") /\
    lb_file b1 = bs "b.ninja" /\ lb_line b1 = 1%Z /\ lb_cmdline b1 = Some (bs "d.child.cw") /\
    lb_file b2 = bs "build.ninja" /\ lb_line b2 = 5%Z /\ lb_cmdline b2 = Some (bs "d.top.") /\
    lb_file b3 = bs "build.ninja" /\ lb_line b3 = 6%Z /\ lb_cmdline b3 = Some (bs "c.top.") /\
    l_pools l = [(bs "pl", 2%N)] /\
    map fst (l_rules l) = [bs "phony"; bs "r"; bs "r2"] /\
    map lf_name (l_files l) = [bs "build.ninja"; bs "a.ninja"; bs "p"; bs "b.ninja"; bs "q"; bs "o1"; bs "o2"].
Proof. exact ex_incl_load. Qed.
Print Assumptions C10_example_three_files.

Theorem C10_example_run_stmts_files :
  exists sts vs' s' l1,
    file_stmts ex_main [] = (sts, SOk (None, vs') s') /\
    map (fun sv => is_include (fst sv)) sts = [false; true; false; false] /\
    map snd sts = [[]; [(bs "v", bs "top")]; [(bs "v", bs "top")]; [(bs "v", bs "top")]] /\
    vs' = [(bs "v", bs "top")] /\
    run_stmts_files 4 ex_fs [] (loader_start (bs "build.ninja")) (bs "build.ninja") sts = Ok l1 /\
    load_manifest true 5 ex_fs (bs "build.ninja") ex_main = Ok (with_builddir l1 (assoc_b (bs "builddir") vs')).
Proof. exact ex_incl_run_stmts_files. Qed.
Print Assumptions C10_example_run_stmts_files.

Theorem C10_example_include_order :
  exists items vs' l,
    flat_file 5 ex_fs [] (bs "build.ninja") ex_main [] = Some (items ++ [FEnd vs']) /\
    map fitem_tag items =
      [ (bs "build.ninja", bs "rule", None);
        (bs "build.ninja", bs "include", Some (bs "top"));
        (bs "a.ninja", bs "rule", Some (bs "child"));
        (bs "a.ninja", bs "pool", Some (bs "child"));
        (bs "a.ninja", bs "build", Some (bs "child"));
        (bs "a.ninja", bs "subninja", Some (bs "child"));
        (bs "b.ninja", bs "build", Some (bs "child"));
        ([], bs "end", Some (bs "child"));
        ([], bs "end", Some (bs "child"));
        (bs "build.ninja", bs "build", Some (bs "top"));
        (bs "build.ninja", bs "build", Some (bs "top")) ] /\
    map (fun it => (fst it, pb_line (fst (fst (snd it))), map fst (snd (snd it))))
        (fbuild_items [(bs "phony", [])] items) =
      [ (bs "a.ninja", 7%Z, [bs "phony"; bs "r"; bs "r2"]);
        (bs "b.ninja", 1%Z, [bs "phony"; bs "r"; bs "r2"]);
        (bs "build.ninja", 5%Z, [bs "phony"; bs "r"; bs "r2"]);
        (bs "build.ninja", 6%Z, [bs "phony"; bs "r"; bs "r2"]) ] /\
    load_manifest true 5 ex_fs (bs "build.ninja") ex_main = Ok l /\
    run_flat (loader_start (bs "build.ninja")) (items ++ [FEnd vs']) = Ok l /\
    map fitem_view (fbuild_items [(bs "phony", [])] items) = map (fun b => Some (view l b)) (l_builds l) /\
    map (fun b => sv_cmdline (view l b)) (l_builds l) =
      [Some (bs "c.child.cw"); Some (bs "d.child.cw"); Some (bs "d.top."); Some (bs "c.top.")].
Proof. exact ex_incl_flat. Qed.
Print Assumptions C10_example_include_order.

(* build.ninja: rule r / command = c.$v / rule k / command = k.$v / v = top / include a.ninja /
                build o1: r / build o2: k            (iso_main': the include line empty)
   a.ninja:     v = child / rule r / command = changed.$v / build p: k *)
Theorem C11_example_child_scope_isolated :
  exists l l' bp bo1 bo2 bo1' bo2' child,
    iso_sts = iso_pre ++ (SInclude [Lit (bs "a.ninja")], [(bs "v", bs "top")]) :: iso_post /\
    fst (file_stmts iso_main' []) = iso_pre ++ iso_post /\
    load_manifest true 5 iso_fs (bs "build.ninja") iso_main = Ok l /\
    load_manifest true 5 iso_fs (bs "build.ninja") iso_main' = Ok l' /\
    l_builds l = [bp; bo1; bo2] /\ l_builds l' = [bo1'; bo2'] /\
    flat_file 4 iso_fs [bs "a.ninja"] (bs "a.ninja") iso_child [(bs "v", bs "top")] = Some child /\
    last_rule (bs "k") (stmts_of child) = None /\
    last_rule (bs "r") (stmts_of child) = Some [(bs "command", [Lit (bs "changed."); Var (bs "v")])] /\
    view l bo2 = view l' bo2' /\
    paths_of (view l bo1) = paths_of (view l' bo1') /\
    lb_cmdline bp = Some (bs "k.child") /\
    lb_cmdline bo1 = Some (bs "changed.top") /\ lb_cmdline bo1' = Some (bs "c.top") /\
    lb_cmdline bo2 = Some (bs "k.top").
Proof. exact ex_isolated. Qed.
Print Assumptions C11_example_child_scope_isolated.

Theorem C10_example_include_cycle :
  load_manifest true 5 [(bs "a.ninja", ln "include b.ninja" []); (bs "b.ninja", ln "include sub/../a.ninja" [])]
                (bs "build.ninja") (ln "include a.ninja" [])
  = Err (bs "b.ninja: a.ninja includes itself") /\
  flat_file 5 [(bs "a.ninja", ln "include b.ninja" []); (bs "b.ninja", ln "include sub/../a.ninja" [])] []
            (bs "build.ninja") (ln "include a.ninja" []) [] = None.
Proof. exact ex_cycle. Qed.
Print Assumptions C10_example_include_cycle.

Theorem C10_example_missing_file :
  load_manifest true 5 [] (bs "build.ninja") (ln "subninja a.ninja" [])
  = Err (bs "read a.ninja: No such file or directory (os error 2)").
Proof. exact ex_missing. Qed.
Print Assumptions C10_example_missing_file.

Theorem C10_example_manifest_includes_itself :
  load_manifest true 5 [(bs "build.ninja", ln "include build.ninja" [])] (bs "build.ninja")
                (ln "include build.ninja" [])
  = Err (bs "build.ninja: build.ninja includes itself").
Proof. exact ex_self. Qed.
Print Assumptions C10_example_manifest_includes_itself.

Theorem C10_example_depth :
  load_manifest true 2 ex_fs (bs "build.ninja") ex_main = Panic 60%N /\
  flat_file 2 ex_fs [] (bs "build.ninja") ex_main [] = None /\
  exists l, load_manifest true 3 ex_fs (bs "build.ninja") ex_main = Ok l.
Proof. exact ex_depth. Qed.
Print Assumptions C10_example_depth.
