(* C02, the capstone, generalised: histories in which the manifest may change between invocations.
   Statements only; definitions in Proofs/HistSpec.v and Proofs/HistGSpec.v, proofs in
   Proofs/HistG*.v.  Every invocation [GInvoke inv] carries its graph (gi_cf inv, gi_wg inv) and
   satisfies [static_ok] for it; the log records are related to build statements, not to step
   indices ([wprov]); [GRh h m] collects the recorded manifests per recorded hash. *)
From Coq Require Import String.
From N2 Require Import Model.All Proofs.SchedSpec Proofs.DbSpec Proofs.WorldSpec Proofs.JointSpec Proofs.HistSpec Proofs.HistGSpec.
From N2 Require Import Proofs.HistGMain Proofs.HistExample Proofs.HistGExample.

(* The example (Proofs/HistGExample.v): build o under  m <- cc a; o <- ld m b  (two records); the
   command of the second step is changed to "ld -O"; build o again: step 0 is judged clean against
   the record made under the old manifest, step 1 runs (one record).  Final state [sg2], tree [g2]. *)
Example C02G_hist_example : ghsteps hx_content hx_stamp hx_cmd (GRhl grecs) (mkH t0 [] []) [GInvoke ginv1; GInvoke ginv3] sg2 /\ fs_wf t0 /\ gi_wg ginv1 <> gi_wg ginv3 /\ In (JVerdict 0 VClean) (gi_tr ginv3) /\ length (h_ws sg2) = 3.
Proof. exact (conj hx_ghistory (conj t0_wf hx_ghistory_facts)). Qed.
Print Assumptions C02G_hist_example.

(* all hypotheses of the theorems below, instantiated at once (3 records are written) *)
Example C02G_hist_all_hypotheses : GHInv hx_content hx_stamp hx_cmd (GRhl grecs) st0 /\ ghsteps hx_content hx_stamp hx_cmd (GRhl grecs) st0 ([GInvoke ginv1] ++ [GInvoke ginv3])%list sg2 /\ gi_tr ginv3 = (removelast tr3 ++ [JReturn (Some true)])%list /\ (forall b, b < 2 -> get_state (gi_s ginv3) b <> Unknown /\ wb_cmdline (get_wbuild (gi_wg ginv3) b) <> None) /\ length (g_builds (cf_graph (gi_cf ginv3))) <= 2 /\ gi_wg ginv1 <> gi_wg ginv3 /\ In (JVerdict 0 VClean) (gi_tr ginv3) /\ length (h_ws sg2) = 3.
Proof. exact hx_all_hypsG. Qed.
Print Assumptions C02G_hist_all_hypotheses.

Theorem C02G_history_invariant : forall (content : Type) (stamp : bytes -> mtime -> content) (cmd : bytes -> option (bytes * bytes) -> (bytes -> option content) -> (bytes -> content) * list bytes) (GRh : N -> manifest -> Prop) (st : hstate) (H : list gitem) (st' : hstate), GHInv content stamp cmd GRh st -> ghsteps content stamp cmd GRh st H st' -> GHInv content stamp cmd GRh st'.
Proof. exact g_hist_invariant. Qed.
Print Assumptions C02G_history_invariant.

Theorem C02G_history_invariant_from_empty : forall (content : Type) (stamp : bytes -> mtime -> content) (cmd : bytes -> option (bytes * bytes) -> (bytes -> option content) -> (bytes -> content) * list bytes) (GRh : N -> manifest -> Prop) (fs : fsmap) (H : list gitem) (st' : hstate), fs_wf fs -> ghsteps content stamp cmd GRh (mkH fs [] []) H st' -> GHInv content stamp cmd GRh st'.
Proof. exact g_hist_invariant_from_empty. Qed.
Print Assumptions C02G_history_invariant_from_empty.

Example C02G_history_invariant_ex : GHInv hx_content hx_stamp hx_cmd (GRhl grecs) sg2.
Proof. exact hx_ginv_history. Qed.
Print Assumptions C02G_history_invariant_ex.

Theorem C02G_success_all_fresh : forall (content : Type) (stamp : bytes -> mtime -> content) (cmd : bytes -> option (bytes * bytes) -> (bytes -> option content) -> (bytes -> content) * list bytes) (GRh : N -> manifest -> Prop) (st : hstate) (H : list gitem) (inv : ginvocation) (pre : list jitem) (st2 : hstate), GHInv content stamp cmd GRh st -> ghsteps content stamp cmd GRh st (H ++ [GInvoke inv]) st2 -> gi_tr inv = pre ++ [JReturn (Some true)] -> forall b, get_state (gi_s inv) b <> Unknown -> wb_cmdline (get_wbuild (gi_wg inv) b) <> None -> fresh content stamp cmd (h_fs st2) (get_wbuild (gi_wg inv) b) /\ (forall n p, In n (wb_dirtying (get_wbuild (gi_wg inv) b)) -> producer_of (gi_wg inv) n = Some p -> get_state (gi_s inv) p <> Unknown).
Proof. exact g_success_all_fresh. Qed.
Print Assumptions C02G_success_all_fresh.

Example C02G_success_all_fresh_ex : forall b, b < 2 -> fresh hx_content hx_stamp hx_cmd g2 (get_wbuild hx_wg2 b).
Proof. exact hx_gfresh. Qed.
Print Assumptions C02G_success_all_fresh_ex.

Theorem C02G_equals_clean_build : forall (content : Type) (stamp : bytes -> mtime -> content) (cmd : bytes -> option (bytes * bytes) -> (bytes -> option content) -> (bytes -> content) * list bytes) (GRh : N -> manifest -> Prop) (st : hstate) (H : list gitem) (inv : ginvocation) (pre : list jitem) (st2 : hstate), GHInv content stamp cmd GRh st -> ghsteps content stamp cmd GRh st (H ++ [GInvoke inv]) st2 -> gi_tr inv = pre ++ [JReturn (Some true)] -> forall fuel, length (g_builds (cf_graph (gi_cf inv))) <= fuel -> forall b, get_state (gi_s inv) b <> Unknown -> wb_cmdline (get_wbuild (gi_wg inv) b) <> None -> forall o, In o (wb_outs (get_wbuild (gi_wg inv) b)) -> cont content stamp (h_fs st2) o = clean_cont content cmd (gi_wg inv) fuel (cont content stamp (h_fs st2)) o.
Proof. exact g_equals_clean_build. Qed.
Print Assumptions C02G_equals_clean_build.

Example C02G_equals_clean_build_ex : forall b, b < 2 -> forall o, In o (wb_outs (get_wbuild hx_wg2 b)) -> cont hx_content hx_stamp g2 o = clean_cont hx_content hx_cmd hx_wg2 2 (cont hx_content hx_stamp g2) o.
Proof. exact hx_gclean. Qed.
Print Assumptions C02G_equals_clean_build_ex.
