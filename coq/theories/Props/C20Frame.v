(* C20, the composition: the state behind the fancy console (FancyState in src/progress_fancy.rs),
   the frame print_progress paints from it, progress::build_message, and String::from_utf8_lossy
   as task_output applies it to a command's last output line (Model/Fancy.v).
   "For every task description, command text, last output line (any UTF-8 or raw bytes), elapsed
   time, terminal width n2 accepts and state counts, rendering terminates without panicking, the
   bar is exactly its nominal width, and over-long messages are cut to at most the terminal width
   at a character boundary."
   Statements only; proofs in Proofs/FancyLossy.v and Proofs/FancyFrame.v. *)
From Coq Require Import String.
From N2 Require Import Model.All Model.Fancy.
From N2 Require Import Proofs.SchedSpec Proofs.FancyLossy Proofs.FancyFrame Proofs.FancySched Proofs.FancyLines.

(* raw bytes: whatever a command printed, the line kept for display is well-formed UTF-8 ... *)
Theorem C20_lossy_valid : forall s, utf8_strict (lossy s) = true.
Proof. exact lossy_strict. Qed.
Print Assumptions C20_lossy_valid.

(* ... unchanged when it already was ... *)
Theorem C20_lossy_identity_on_valid : forall s, utf8_strict s = true -> lossy s = s.
Proof. exact lossy_id. Qed.
Print Assumptions C20_lossy_identity_on_valid.

(* ... and has the lead/continuation structure the cutting theorems are stated with *)
Theorem C20_strict_implies_structure : forall s, utf8_strict s = true -> utf8_ok s = true.
Proof. exact strict_ok. Qed.
Print Assumptions C20_strict_implies_structure.

(* one frame, for every display state, clock and width >= 2: no panic; the frame is the pending text,
   the status line, the task lines, the "...and N more" line when more than eight commands run, and
   a cursor-up by exactly the number of lines painted; every task line (message or last output) is
   at most [cols] bytes; there are between min(8, running) and 16 of them; they are cut at
   character boundaries when the inputs were text; painting changes nothing but the pending text *)
Theorem C20_frame : forall st now cols, (2 <= cols)%nat -> exists body, f_print st now cols = Ok (frame_of st (body ++ more_line (length (fs_tasks st))), mkFState clear_seq (fs_counts st) (fs_tasks st) (fs_verbose st)) /\ Forall (fun l => (length l <= cols)%nat) body /\ (Nat.min max_tasks (length (fs_tasks st)) <= length body <= 2 * max_tasks)%nat /\ (Forall task_valid (fs_tasks st) -> Forall (fun l => utf8_ok l = true) body).
Proof. exact frame_spec. Qed.
Print Assumptions C20_frame.

(* the status line starts with the bar between brackets, and the bar is 40 wide *)
Theorem C20_status_line_bar : forall c n, exists rest, status_line c n = 91%N :: progress_bar c 40%N ++ 93%N :: rest /\ length (progress_bar c 40%N) = 40%nat.
Proof. exact status_line_bar. Qed.
Print Assumptions C20_status_line_bar.

(* the display under the protocol its callers follow (a started step has a command line; output
   and completion only for a command on display; width >= 2): no operation panics, one frame per
   print_progress, the commands on display are exactly those started and not yet finished in
   order of start, and every stored last-output line is well-formed UTF-8 *)
Theorem C20_protocol_total : forall verbose ops, proto_ok [] ops -> exists frames st, f_run0 verbose ops = Ok (frames, st) /\ map ft_id (fs_tasks st) = track [] ops /\ length frames = nprints ops /\ lasts_valid st.
Proof. exact protocol_total. Qed.
Print Assumptions C20_protocol_total.

(* the premises are necessary: each of the four ways of leaving the protocol is a panic in the code *)
Theorem C20_protocol_is_needed : f_run0 false [FOutput 1 []] = Panic 33%N /\ f_run0 false [FFinish 1 None (Some [99%N]) false 0%N []] = Panic 34%N /\ f_run0 false [FStart 1 0 None None] = Panic 32%N /\ f_run0 false [FStart 1 0 None (Some [99%N]); FOutput 1 [120%N]; FPrint 0 1] = Panic 31%N.
Proof. exact protocol_is_needed. Qed.
Print Assumptions C20_protocol_is_needed.

(* ---- the display under the scheduler ----
   Display items are scheduler events (the accepted trace of Work::run: EStart shows a command,
   EFinish removes it) interleaved with the other display operations (progress updates, logged
   lines, output lines of commands, repaints).  [others_ok]: an output line is only delivered for a
   command that has been started and whose completion has not been received (the runner's channel
   is FIFO per command), and repaints happen at widths >= 2. *)

(* in every accepted run from a quiet state a completion is only received for a command on display
   and only steps with a command line are ever started *)
Theorem C20_scheduler_display_discipline : forall cf r0 tr r', quiet r0 -> accepts cf r0 tr = Some r' -> disp_ok [] tr /\ starts_ok cf tr /\ DInv r' (disp_of [] tr).
Proof. exact scheduler_display_discipline. Qed.
Print Assumptions C20_scheduler_display_discipline.

(* hence the operations the scheduler issues respect the display's protocol ... *)
Theorem C20_scheduler_respects_display_protocol : forall cf info clk hide outp r0 items r', quiet r0 -> accepts cf r0 (sched_part items) = Some r' -> others_ok [] items -> proto_ok [] (fop_part cf info clk hide outp items).
Proof. exact scheduler_respects_display_protocol. Qed.
Print Assumptions C20_scheduler_respects_display_protocol.

(* ... and the display never panics during a build, for every graph, schedule and outcome; the
   commands on display are exactly those started and not finished *)
Theorem C20_display_never_panics_during_a_build : forall cf info clk hide outp verbose r0 items r', quiet r0 -> accepts cf r0 (sched_part items) = Some r' -> others_ok [] items -> exists frames st, f_run0 verbose (fop_part cf info clk hide outp items) = Ok (frames, st) /\ map ft_id (fs_tasks st) = map N.of_nat (disp_of [] (sched_part items)) /\ length frames = nprints (fop_part cf info clk hide outp items) /\ lasts_valid st /\ DInv r' (disp_of [] (sched_part items)).
Proof. exact scheduler_display_never_panics. Qed.
Print Assumptions C20_display_never_panics_during_a_build.

(* the premise [quiet] holds whenever Work::run is entered on a fresh Work *)
Theorem C20_fresh_work_is_quiet : forall cf decls s fl, graph_wf (cf_graph cf) -> wanted (cf_graph cf) (bs_new (length (g_builds (cf_graph cf))) decls) s -> quiet (run_init s fl).
Proof. exact fresh_work_quiet. Qed.
Print Assumptions C20_fresh_work_is_quiet.

(* ---- overprinting stays aligned ----
   when no message contains a line break (descriptions and command lines come from manifest text,
   where none can be written; last-output lines come from find_last_line, C20_last_line_has_no_line_break,
   and lossy decoding introduces none) the frame minus the pending text contains exactly as many line
   breaks as its final cursor-up says: the next frame starts on this frame's status line *)
Theorem C20_frame_line_count : forall st now cols, (2 <= cols)%nat -> Forall task_nonl (fs_tasks st) -> exists lines st', f_print st now cols = Ok (fs_pending st ++ status_line (fs_counts st) (length (fs_tasks st)) ++ concat (map with_nl lines) ++ cursor_up (1 + length lines), st') /\ nl_count (status_line (fs_counts st) (length (fs_tasks st)) ++ concat (map with_nl lines) ++ cursor_up (1 + length lines)) = (1 + length lines)%nat.
Proof. exact frame_line_count. Qed.
Print Assumptions C20_frame_line_count.

Theorem C20_lossy_introduces_no_line_break : forall s, nonl s -> nonl (lossy s).
Proof. exact lossy_keeps_nonl. Qed.
Print Assumptions C20_lossy_introduces_no_line_break.
