(* Joint scheduler / World theorems: statements only; proofs in Proofs/Joint*.v.
   A run of the real scheduler is a list of [jitem]s (Proofs/JointSpec.v) whose projection [proj_s]
   is accepted by Sched.accepts and whose projection [proj_w] by World.replay ([jaccepted]);
   [writes_ok] is H-quiet: only a running command writes, and only its declared outputs. *)
From Coq Require Import String.
From N2 Require Import Model.All Proofs.SchedSpec Proofs.DbSpec Proofs.WorldSpec Proofs.JointSpec.
From N2 Require Import Proofs.JointProps Proofs.JointMain Proofs.JointVacuity Proofs.JointExample.

(* J1: every output of a step that became Done in this Work is in the stat cache with the mtime the tree has *)
Theorem joint_done_outputs_cached : forall (cf : config) (decls : list (bytes * nat)) (wg : wgraph), graph_wf (cf_graph cf) -> graphs_agree (cf_graph cf) wg -> forall (s : bstates) (fl : option nat) (w0 : wstate) (tr : list jitem) (r : rstate) (w : wstate), wanted (cf_graph cf) (bs_new (length (g_builds (cf_graph cf))) decls) s -> ws_cache w0 = [] -> jaccepted cf wg (run_init s fl) w0 tr r w -> writes_ok wg [] tr -> forall b, get_state (rs_bs r) b = Done -> forall o, In o (wb_outs (get_wbuild wg b)) -> cache_get (ws_cache w) o = Some (fs_get (ws_fs w) o).
Proof. exact P_done_outputs_cached. Qed.
Print Assumptions joint_done_outputs_cached.

Theorem joint_done_outputs_cached_reachable : forall (cf : config) (decls : list (bytes * nat)) (wg : wgraph), graph_wf (cf_graph cf) -> graphs_agree (cf_graph cf) wg -> forall (r0 : rstate) (w0 : wstate) (tr : list jitem) (r : rstate) (w : wstate), reachable cf decls r0 -> rs_ctl r0 = CIdle -> (forall b, get_state (rs_bs r0) b <> Done) -> ws_cache w0 = [] -> jaccepted cf wg r0 w0 tr r w -> writes_ok wg [] tr -> forall b, get_state (rs_bs r) b = Done -> forall o, In o (wb_outs (get_wbuild wg b)) -> cache_get (ws_cache w) o = Some (fs_get (ws_fs w) o).
Proof. exact P_done_outputs_cached_reachable. Qed.
Print Assumptions joint_done_outputs_cached_reachable.

(* J2: in the state in which EVerdict b is accepted (and check_build_dirty evaluated), every generated declared dirtying input has been stat()ed *)
Theorem joint_stated_generated : forall (cf : config) (decls : list (bytes * nat)) (wg : wgraph), graph_wf (cf_graph cf) -> graphs_agree (cf_graph cf) wg -> forall (s : bstates) (fl : option nat) (w0 : wstate) (tr : list jitem) (r : rstate) (w : wstate) (b : nat), wanted (cf_graph cf) (bs_new (length (g_builds (cf_graph cf))) decls) s -> ws_cache w0 = [] -> jaccepted cf wg (run_init s fl) w0 tr r w -> writes_ok wg [] tr -> rs_ctl r = CChecking b -> stated_generated wg w (wb_dirtying (get_wbuild wg b)).
Proof. exact P_stated_generated. Qed.
Print Assumptions joint_stated_generated.

(* J3, the invariant: a cache entry that disagrees with the tree is an output of a step that is Running or Failed *)
Theorem joint_cache_stale_only_running_failed : forall (cf : config) (decls : list (bytes * nat)) (wg : wgraph), graph_wf (cf_graph cf) -> graphs_agree (cf_graph cf) wg -> forall (s : bstates) (fl : option nat) (w0 : wstate) (tr : list jitem) (r : rstate) (w : wstate), wanted (cf_graph cf) (bs_new (length (g_builds (cf_graph cf))) decls) s -> ws_cache w0 = [] -> jaccepted cf wg (run_init s fl) w0 tr r w -> writes_ok wg [] tr -> forall n v, cache_get (ws_cache w) n = Some v -> v = fs_get (ws_fs w) n \/ exists p, producer_of wg n = Some p /\ In n (wb_outs (get_wbuild wg p)) /\ (get_state (rs_bs r) p = Running \/ get_state (rs_bs r) p = Failed).
Proof. exact P_cache_stale. Qed.
Print Assumptions joint_cache_stale_only_running_failed.

Theorem joint_cache_stale_only_running_failed_reachable : forall (cf : config) (decls : list (bytes * nat)) (wg : wgraph), graph_wf (cf_graph cf) -> graphs_agree (cf_graph cf) wg -> forall (r0 : rstate) (w0 : wstate) (tr : list jitem) (r : rstate) (w : wstate), reachable cf decls r0 -> rs_ctl r0 = CIdle -> (forall b, get_state (rs_bs r0) b <> Done) -> ws_cache w0 = [] -> jaccepted cf wg r0 w0 tr r w -> writes_ok wg [] tr -> forall n v, cache_get (ws_cache w) n = Some v -> v = fs_get (ws_fs w) n \/ exists p, producer_of wg n = Some p /\ In n (wb_outs (get_wbuild wg p)) /\ (get_state (rs_bs r) p = Running \/ get_state (rs_bs r) p = Failed).
Proof. exact P_cache_stale_reachable. Qed.
Print Assumptions joint_cache_stale_only_running_failed_reachable.

(* J3 at a verdict: the cache entries of the declared dirtying inputs and of the outputs of the step being checked agree with the tree *)
Theorem joint_cache_consistent_for_checked : forall (cf : config) (decls : list (bytes * nat)) (wg : wgraph), graph_wf (cf_graph cf) -> graphs_agree (cf_graph cf) wg -> forall (s : bstates) (fl : option nat) (w0 : wstate) (tr : list jitem) (r : rstate) (w : wstate) (b : nat), wanted (cf_graph cf) (bs_new (length (g_builds (cf_graph cf))) decls) s -> ws_cache w0 = [] -> jaccepted cf wg (run_init s fl) w0 tr r w -> writes_ok wg [] tr -> rs_ctl r = CChecking b -> forall n, In n (wb_dirtying (get_wbuild wg b) ++ wb_outs (get_wbuild wg b)) -> forall v, cache_get (ws_cache w) n = Some v -> v = fs_get (ws_fs w) n.
Proof. exact P_cache_consistent_for_checked. Qed.
Print Assumptions joint_cache_consistent_for_checked.

(* J2 + J3 in trace form: the item JVerdict b v of a jointly accepted trace is processed in the state (rp, wp) reached by the prefix *)
Theorem joint_at_verdict : forall (cf : config) (decls : list (bytes * nat)) (wg : wgraph), graph_wf (cf_graph cf) -> graphs_agree (cf_graph cf) wg -> forall (s : bstates) (fl : option nat) (w0 : wstate) (pre : list jitem) (b : nat) (v : verdict) (post : list jitem) (r : rstate) (w : wstate), wanted (cf_graph cf) (bs_new (length (g_builds (cf_graph cf))) decls) s -> ws_cache w0 = [] -> jaccepted cf wg (run_init s fl) w0 (pre ++ JVerdict b v :: post) r w -> writes_ok wg [] (pre ++ JVerdict b v :: post) -> exists rp wp, jaccepted cf wg (run_init s fl) w0 pre rp wp /\ writes_ok wg [] pre /\ rs_ctl rp = CChecking b /\ (exists wc res, check_build_dirty wg wp b (get_wbuild wg b) = (wc, res) /\ dr_code res = verdict_code v) /\ stated_generated wg wp (wb_dirtying (get_wbuild wg b)) /\ (forall n, In n (wb_dirtying (get_wbuild wg b) ++ wb_outs (get_wbuild wg b)) -> forall x, cache_get (ws_cache wp) n = Some x -> x = fs_get (ws_fs wp) n).
Proof. exact P_at_verdict. Qed.
Print Assumptions joint_at_verdict.

(* J4: the null build of a whole invocation.  Work 1 (not in adopt mode) is loaded from the log of a crash-free writer and returns success; its discovered dependencies (loaded and reported) are source files; every declared input, kept dependency and output of every wanted step with a command exists afterwards.  Work 2 starts from exactly the tree and log Work 1 left, same manifest, no new targets: it starts nothing, every verdict is clean, nothing is written or recorded, it can only return success, tasks_run = 0.

   The log premise.  The log Work 1 leaves is that of the record list  ws0 ++ work_records wg w1 tr1 :
   the records ws0 it was loaded from, then one record per JRecord b h item of Work 1's trace (the
   outputs of step b, the dependency list kept for b, the hash h; Proofs/JointSpec.v).  That this is
   the record list of the log is PROVED (JointLog.Work1_reach, JointMain.work1_records), not
   assumed.  What cannot be derived are the limits of the record format (finding F7: fewer than 2^15
   outputs, 2^16 dependencies, names shorter than 2^15, hashes below 2^64, fewer than 2^24 names in
   the id table - outside them the writer silently truncates a count or panics), so the theorem
   assumes them, for exactly that list:
       Forall in_bounds (work_records wg w1 tr1)   and   table_small (ws0 ++ work_records wg w1 tr1).
   Both are statements about data visible in the trace and the final state, and they hold for every
   run of the real program on a project within the limits (the hashes h of JRecord items are u64
   values; in the model [bytes] are unbounded numbers, so "h < 2^64" follows from the definition of
   siphash13 only for streams of bytes < 256 - Proofs/HashVacuity.v, siphash13_lt - and deriving it
   would need a premise that every name and command line of the project consists of such bytes; it
   is therefore left in [in_bounds], as in C07/C08/C09, where it is a fact about the observed h).

   An earlier version assumed instead
       forall ws1, log_is w1 ws1 -> Forall in_bounds ws1 /\ table_small ws1,
   which no state with a build record in its log satisfies: the writer stores hashes modulo 2^64, so
   a log does not determine the hashes of its records ([C03_old_log_premise_unsatisfiable] below;
   the theorem was vacuous unless Work 1 left an empty log).  Naming a record list ws1 at the top of
   the theorem with  log_is w1 ws1 -> Forall in_bounds ws1 -> table_small ws1  would not do either:
   the counts are stored modulo 2^16, so an out-of-limits list written by Work 1 and an unrelated
   in-limits list can have the same log, and then Work 2 does not see what Work 1 recorded.
   [C03_null_build_invocation_nonvacuous] exhibits a two-step project for which all hypotheses
   hold (and the old premise fails). *)
Theorem C03_null_build_invocation : forall (cf cf2 : config) (decls decls2 : list (bytes * nat)) (wg : wgraph) (wp : wstate) (ws0 : list wr) (fs0 : fsmap) (w0 : wstate) (s1 : bstates) (fl1 : option nat) (pre1 : list jitem) (r1 : rstate) (w1 : wstate) (w20 : wstate) (s2 : bstates) (fl2 : option nat) (tr2 : list jitem) (r2 : rstate) (w2 : wstate), graph_wf (cf_graph cf) -> graphs_agree (cf_graph cf) wg -> cf_graph cf2 = cf_graph cf -> cf_adopt cf = false -> (forall b, b < length (g_builds (cf_graph cf)) -> wb_outs (get_wbuild wg b) <> []) -> log_is wp ws0 -> Forall in_bounds ws0 -> table_small ws0 -> load_state wg fs0 (ws_log wp) = Ok w0 -> wanted (cf_graph cf) (bs_new (length (g_builds (cf_graph cf))) decls) s1 -> jaccepted cf wg (run_init s1 fl1) w0 (pre1 ++ [JReturn (Some true)]) r1 w1 -> writes_ok wg [] (pre1 ++ [JReturn (Some true)]) -> (forall b d, get_state s1 b <> Unknown -> In d (disc_of w0 b) -> producer_of wg d = None) -> (forall b t rep n d, In (JFinish b t rep) pre1 -> In n (reported_names rep) -> n <> [] -> canon n = Ok d -> producer_of wg d = None) -> (forall b n, b < length (g_builds (cf_graph cf)) -> wb_cmdline (get_wbuild wg b) <> None -> get_state s1 b <> Unknown -> In n (wb_dirtying (get_wbuild wg b) ++ disc_of w1 b ++ wb_outs (get_wbuild wg b)) -> fs_get (ws_fs w1) n <> None) -> Forall in_bounds (work_records wg w1 pre1) -> table_small (ws0 ++ work_records wg w1 pre1) -> load_state wg (ws_fs w1) (ws_log w1) = Ok w20 -> wanted (cf_graph cf) (bs_new (length (g_builds (cf_graph cf))) decls2) s2 -> (forall b, get_state s2 b <> Unknown -> get_state s1 b <> Unknown) -> jaccepted cf2 wg (run_init s2 fl2) w20 tr2 r2 w2 -> writes_ok wg [] tr2 -> (forall b, ~ In (JStart b) tr2) /\ (forall b v, In (JVerdict b v) tr2 -> v = VClean) /\ (forall n t, ~ In (JWrite n t) tr2) /\ (forall b h, ~ In (JRecord b h) tr2) /\ (forall ok, In (JReturn ok) tr2 -> ok = Some true) /\ rs_tasks_run r2 = 0.
Proof. exact null_build_invocation_trace. Qed.
Print Assumptions C03_null_build_invocation.

(* the same with "Work 1 returned success" as a fact about its final control state *)
Theorem C03_null_build_invocation_returned : forall (cf cf2 : config) (decls decls2 : list (bytes * nat)) (wg : wgraph) (wp : wstate) (ws0 : list wr) (fs0 : fsmap) (w0 : wstate) (s1 : bstates) (fl1 : option nat) (tr1 : list jitem) (r1 : rstate) (w1 : wstate) (w20 : wstate) (s2 : bstates) (fl2 : option nat) (tr2 : list jitem) (r2 : rstate) (w2 : wstate), graph_wf (cf_graph cf) -> graphs_agree (cf_graph cf) wg -> cf_graph cf2 = cf_graph cf -> cf_adopt cf = false -> (forall b, b < length (g_builds (cf_graph cf)) -> wb_outs (get_wbuild wg b) <> []) -> log_is wp ws0 -> Forall in_bounds ws0 -> table_small ws0 -> load_state wg fs0 (ws_log wp) = Ok w0 -> wanted (cf_graph cf) (bs_new (length (g_builds (cf_graph cf))) decls) s1 -> jaccepted cf wg (run_init s1 fl1) w0 tr1 r1 w1 -> writes_ok wg [] tr1 -> rs_ctl r1 = CReturned (Some true) -> (forall b d, get_state s1 b <> Unknown -> In d (disc_of w0 b) -> producer_of wg d = None) -> (forall b t rep n d, In (JFinish b t rep) tr1 -> In n (reported_names rep) -> n <> [] -> canon n = Ok d -> producer_of wg d = None) -> (forall b n, b < length (g_builds (cf_graph cf)) -> wb_cmdline (get_wbuild wg b) <> None -> get_state s1 b <> Unknown -> In n (wb_dirtying (get_wbuild wg b) ++ disc_of w1 b ++ wb_outs (get_wbuild wg b)) -> fs_get (ws_fs w1) n <> None) -> Forall in_bounds (work_records wg w1 tr1) -> table_small (ws0 ++ work_records wg w1 tr1) -> load_state wg (ws_fs w1) (ws_log w1) = Ok w20 -> wanted (cf_graph cf) (bs_new (length (g_builds (cf_graph cf))) decls2) s2 -> (forall b, get_state s2 b <> Unknown -> get_state s1 b <> Unknown) -> jaccepted cf2 wg (run_init s2 fl2) w20 tr2 r2 w2 -> writes_ok wg [] tr2 -> (forall b, ~ In (JStart b) tr2) /\ (forall b v, In (JVerdict b v) tr2 -> v = VClean) /\ (forall n t, ~ In (JWrite n t) tr2) /\ (forall b h, ~ In (JRecord b h) tr2) /\ (forall ok, In (JReturn ok) tr2 -> ok = Some true) /\ rs_tasks_run r2 = 0.
Proof. exact null_build_invocation. Qed.
Print Assumptions C03_null_build_invocation_returned.

(* the premise the two theorems above used to carry fails for every state whose log holds a build record *)
Theorem C03_old_log_premise_unsatisfiable : forall (w : wstate) (ws : list wr) (x : wr), log_is w (ws ++ [x]) -> ~ (forall ws1, log_is w ws1 -> Forall in_bounds ws1 /\ table_small ws1).
Proof. exact old_log_premise_unsatisfiable. Qed.
Print Assumptions C03_old_log_premise_unsatisfiable.

(* non-vacuity: all hypotheses of C03_null_build_invocation hold together in a two-step project (o <- cc a, reporting a and x/../h;  p <- ld o) whose Work 1 runs and records both steps and returns success; Work 2's trace has both clean verdicts and the successful return; the old premise fails there.  Witnesses and the theorem applied to them: Proofs/JointExample.v (nv_hyps_hold, null_build_hyps_use, nv_conclusion). *)
Example C03_null_build_invocation_nonvacuous : exists (cf cf2 : config) (decls decls2 : list (bytes * nat)) (wg : wgraph) (wp : wstate) (ws0 : list wr) (fs0 : fsmap) (w0 : wstate) (s1 : bstates) (fl1 : option nat) (pre1 : list jitem) (r1 : rstate) (w1 : wstate) (w20 : wstate) (s2 : bstates) (fl2 : option nat) (tr2 : list jitem) (r2 : rstate) (w2 : wstate), graph_wf (cf_graph cf) /\ graphs_agree (cf_graph cf) wg /\ cf_graph cf2 = cf_graph cf /\ cf_adopt cf = false /\ (forall b, b < length (g_builds (cf_graph cf)) -> wb_outs (get_wbuild wg b) <> []) /\ log_is wp ws0 /\ Forall in_bounds ws0 /\ table_small ws0 /\ load_state wg fs0 (ws_log wp) = Ok w0 /\ wanted (cf_graph cf) (bs_new (length (g_builds (cf_graph cf))) decls) s1 /\ jaccepted cf wg (run_init s1 fl1) w0 (pre1 ++ [JReturn (Some true)]) r1 w1 /\ writes_ok wg [] (pre1 ++ [JReturn (Some true)]) /\ (forall b d, get_state s1 b <> Unknown -> In d (disc_of w0 b) -> producer_of wg d = None) /\ (forall b t rep n d, In (JFinish b t rep) pre1 -> In n (reported_names rep) -> n <> [] -> canon n = Ok d -> producer_of wg d = None) /\ (forall b n, b < length (g_builds (cf_graph cf)) -> wb_cmdline (get_wbuild wg b) <> None -> get_state s1 b <> Unknown -> In n (wb_dirtying (get_wbuild wg b) ++ disc_of w1 b ++ wb_outs (get_wbuild wg b)) -> fs_get (ws_fs w1) n <> None) /\ Forall in_bounds (work_records wg w1 pre1) /\ table_small (ws0 ++ work_records wg w1 pre1) /\ load_state wg (ws_fs w1) (ws_log w1) = Ok w20 /\ wanted (cf_graph cf) (bs_new (length (g_builds (cf_graph cf))) decls2) s2 /\ (forall b, get_state s2 b <> Unknown -> get_state s1 b <> Unknown) /\ jaccepted cf2 wg (run_init s2 fl2) w20 tr2 r2 w2 /\ writes_ok wg [] tr2 /\ In (JRecord 0 8172001350084429517%N) pre1 /\ In (JRecord 1 17431866117220885716%N) pre1 /\ length (work_records wg w1 pre1) = 2 /\ disc_of w1 0 <> [] /\ In (JVerdict 0 VClean) tr2 /\ In (JVerdict 1 VClean) tr2 /\ In (JReturn (Some true)) tr2 /\ ~ (forall ws1, log_is w1 ws1 -> Forall in_bounds ws1 /\ table_small ws1).
Proof. exact nv_hyps. Qed.
Print Assumptions C03_null_build_invocation_nonvacuous.
