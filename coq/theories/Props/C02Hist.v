(* C02, the capstone: for every history of edits and invocations, after an invocation that reports
   success, every wanted output is what a clean build of the current sources would produce.
   Statements only; definitions in Proofs/HistSpec.v, proofs in Proofs/Hist*.v.

   A history is a list of [HEdit name mtime] (the user writes / removes any file, outputs included)
   and [HInvoke inv] (one invocation: a fresh Work loaded from the log as it is, a jointly accepted
   trace - Proofs/JointSpec.v - under H-quiet [writes_ok] and the per-item premises [trace_ok]);
   [hsteps st H st'] runs it from the persistent state [st] = (tree, .n2_db).  The quantified
   [content], [stamp] (H-mtime: the content of a file is a function of its name and mtime, fixed
   for the whole history), [cmd] (H-cmd: the oracle of the commands, [hermetic] in [static_ok]) and
   [GR] (the set of recorded manifests the no-collision premise ranges over) are arbitrary. *)
From Coq Require Import String.
From N2 Require Import Model.All Proofs.SchedSpec Proofs.DbSpec Proofs.WorldSpec Proofs.JointSpec Proofs.HistSpec.
From N2 Require Import Proofs.HistThms Proofs.HistExample.

(* The examples: the project  m <- cc a (discovers h);  o <- ld m b  of Proofs/HistExample.v
   (contents = seconds of the mtime; cc writes a+h, ld writes m+b) with the histories
     1: build o; edit a; build o   (both steps run again), final state [st5], tree [t5]
     2: build o; edit b; build o   (step 0 is judged clean, step 1 runs), final state [su4], tree [u4]
   from the tree [t0] without a log satisfy all hypotheses. *)
Example C02_hist_example_history1 : hsteps hx_content hx_stamp hx_cmd (GRl recs1) hx_g hx_wg (mkH t0 [] []) [HInvoke (inv_of tr1); HEdit xa (Some (10, 0)%N); HInvoke (inv_of tr2)] st5 /\ static_ok hx_content hx_cmd hx_g hx_wg /\ fs_wf t0.
Proof. exact (conj hx_history1 (conj hx_static t0_wf)). Qed.
Print Assumptions C02_hist_example_history1.

Example C02_hist_example_history2 : hsteps hx_content hx_stamp hx_cmd (GRl recs2) hx_g hx_wg (mkH t0 [] []) [HInvoke (inv_of tr1); HEdit xb (Some (3, 0)%N); HInvoke (inv_of tr2')] su4 /\ In (JVerdict 0 VClean) tr2'.
Proof. exact (conj hx_history2 (or_intror (or_introl eq_refl))). Qed.
Print Assumptions C02_hist_example_history2.

(* all hypotheses of the theorems below, instantiated at once (history 1 writes 4 records, history 2 writes 3) *)
Example C02_hist_all_hypotheses_history1 : static_ok hx_content hx_cmd hx_g hx_wg /\ HInv hx_content hx_stamp hx_cmd (GRl recs1) hx_g hx_wg st0 /\ hsteps hx_content hx_stamp hx_cmd (GRl recs1) hx_g hx_wg st0 ([HInvoke (inv_of tr1); HEdit xa (Some (10, 0)%N)] ++ [HInvoke (inv_of tr2)])%list st5 /\ i_tr (inv_of tr2) = (removelast tr2 ++ [JReturn (Some true)])%list /\ (forall b, b < 2 -> get_state (i_s (inv_of tr2)) b <> Unknown /\ wb_cmdline (get_wbuild hx_wg b) <> None) /\ length (g_builds hx_g) <= 2 /\ length (h_ws st5) = 4.
Proof. exact hx_all_hyps1. Qed.
Print Assumptions C02_hist_all_hypotheses_history1.

Example C02_hist_all_hypotheses_history2 : static_ok hx_content hx_cmd hx_g hx_wg /\ HInv hx_content hx_stamp hx_cmd (GRl recs2) hx_g hx_wg st0 /\ hsteps hx_content hx_stamp hx_cmd (GRl recs2) hx_g hx_wg st0 ([HInvoke (inv_of tr1); HEdit xb (Some (3, 0)%N)] ++ [HInvoke (inv_of tr2')])%list su4 /\ i_tr (inv_of tr2') = (removelast tr2' ++ [JReturn (Some true)])%list /\ (forall b, b < 2 -> get_state (i_s (inv_of tr2')) b <> Unknown /\ wb_cmdline (get_wbuild hx_wg b) <> None) /\ In (JVerdict 0 VClean) tr2' /\ length (h_ws su4) = 3.
Proof. exact hx_all_hyps2. Qed.
Print Assumptions C02_hist_all_hypotheses_history2.

(* the history invariant (every record in effect in the log has a provenance: a tree on which the
   step's manifest hashed to the recorded hash and on which the step was fresh) holds after every
   history that starts in a state satisfying it *)
Theorem C02_history_invariant : forall (content : Type) (stamp : bytes -> mtime -> content) (cmd : bytes -> option (bytes * bytes) -> (bytes -> option content) -> (bytes -> content) * list bytes) (GR : nat -> manifest -> Prop) (g : graph) (wg : wgraph), static_ok content cmd g wg -> forall (st : hstate) (H : list hitem) (st' : hstate), HInv content stamp cmd GR g wg st -> hsteps content stamp cmd GR g wg st H st' -> HInv content stamp cmd GR g wg st'.
Proof. exact hist_invariant. Qed.
Print Assumptions C02_history_invariant.

(* ... in particular after every history from any tree and no log *)
Theorem C02_history_invariant_from_empty : forall (content : Type) (stamp : bytes -> mtime -> content) (cmd : bytes -> option (bytes * bytes) -> (bytes -> option content) -> (bytes -> content) * list bytes) (GR : nat -> manifest -> Prop) (g : graph) (wg : wgraph), static_ok content cmd g wg -> forall (fs : fsmap) (H : list hitem) (st' : hstate), fs_wf fs -> hsteps content stamp cmd GR g wg (mkH fs [] []) H st' -> HInv content stamp cmd GR g wg st'.
Proof. exact hist_invariant_from_empty. Qed.
Print Assumptions C02_history_invariant_from_empty.

Example C02_history_invariant_ex : HInv hx_content hx_stamp hx_cmd (GRl recs1) hx_g hx_wg st5 /\ HInv hx_content hx_stamp hx_cmd (GRl recs2) hx_g hx_wg su4.
Proof. exact (conj hx_inv_history1 hx_inv_history2). Qed.
Print Assumptions C02_history_invariant_ex.

(* after a history whose last item is an invocation that returns success, every step with a command
   in the closure of the wanted targets is fresh w.r.t. the final tree - each of its outputs exists
   and holds what its command produces from the tree as it is - whether it ran in this invocation or
   was judged clean; and the producers of its generated dirtying inputs are wanted steps too *)
Theorem C02_success_all_fresh : forall (content : Type) (stamp : bytes -> mtime -> content) (cmd : bytes -> option (bytes * bytes) -> (bytes -> option content) -> (bytes -> content) * list bytes) (GR : nat -> manifest -> Prop) (g : graph) (wg : wgraph), static_ok content cmd g wg -> forall (st : hstate) (H : list hitem) (inv : invocation) (pre : list jitem) (st2 : hstate), HInv content stamp cmd GR g wg st -> hsteps content stamp cmd GR g wg st (H ++ [HInvoke inv]) st2 -> i_tr inv = pre ++ [JReturn (Some true)] -> forall b, get_state (i_s inv) b <> Unknown -> wb_cmdline (get_wbuild wg b) <> None -> fresh content stamp cmd (h_fs st2) (get_wbuild wg b) /\ (forall n p, In n (wb_dirtying (get_wbuild wg b)) -> producer_of wg n = Some p -> get_state (i_s inv) p <> Unknown).
Proof. exact success_all_fresh. Qed.
Print Assumptions C02_success_all_fresh.

Example C02_success_all_fresh_ex : (forall b, b < 2 -> fresh hx_content hx_stamp hx_cmd t5 (get_wbuild hx_wg b)) /\ (forall b, b < 2 -> fresh hx_content hx_stamp hx_cmd u4 (get_wbuild hx_wg b)).
Proof. exact (conj hx_fresh_history1 hx_fresh_history2). Qed.
Print Assumptions C02_success_all_fresh_ex.

(* ... and every output of every such step holds exactly what a clean build of the present sources
   produces ([clean_cont]: recursion over the graph from the contents of the source files; any
   fuel >= the number of steps) *)
Theorem C02_equals_clean_build : forall (content : Type) (stamp : bytes -> mtime -> content) (cmd : bytes -> option (bytes * bytes) -> (bytes -> option content) -> (bytes -> content) * list bytes) (GR : nat -> manifest -> Prop) (g : graph) (wg : wgraph), static_ok content cmd g wg -> forall (st : hstate) (H : list hitem) (inv : invocation) (pre : list jitem) (st2 : hstate), HInv content stamp cmd GR g wg st -> hsteps content stamp cmd GR g wg st (H ++ [HInvoke inv]) st2 -> i_tr inv = pre ++ [JReturn (Some true)] -> forall fuel, length (g_builds g) <= fuel -> forall b, get_state (i_s inv) b <> Unknown -> wb_cmdline (get_wbuild wg b) <> None -> forall o, In o (wb_outs (get_wbuild wg b)) -> cont content stamp (h_fs st2) o = clean_cont content cmd wg fuel (cont content stamp (h_fs st2)) o.
Proof. exact equals_clean_build. Qed.
Print Assumptions C02_equals_clean_build.

Example C02_equals_clean_build_ex : (forall b, b < 2 -> forall o, In o (wb_outs (get_wbuild hx_wg b)) -> cont hx_content hx_stamp t5 o = clean_cont hx_content hx_cmd hx_wg 2 (cont hx_content hx_stamp t5) o) /\ (forall b, b < 2 -> forall o, In o (wb_outs (get_wbuild hx_wg b)) -> cont hx_content hx_stamp u4 o = clean_cont hx_content hx_cmd hx_wg 2 (cont hx_content hx_stamp u4) o) /\ cont hx_content hx_stamp t5 xo = Some 13%N /\ cont hx_content hx_stamp u4 xo = Some 10%N.
Proof. exact (conj hx_clean_history1 (conj hx_clean_history2 (conj (proj1 (proj2 hx_values)) (proj1 (proj2 (proj2 (proj2 hx_values))))))). Qed.
Print Assumptions C02_equals_clean_build_ex.
