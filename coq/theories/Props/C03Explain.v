(* C03, the reasons: `-d explain` (src/work.rs check_build_dirty_inner's explain arms, src/hash.rs
   explain_hash_build), Model/Explain.v.  "A step's command is re-run only if it has no completion
   record, one of its dirtying inputs, discovered dependencies or outputs is missing, or the
   names/mtimes of those files, its command line or its response file differ from what was
   recorded" - and the reason n2 prints is the one that applied.
   Statements only; proofs in Proofs/ExplainProofs.v. *)
From Coq Require Import String.
From N2 Require Import Model.All Model.Fancy Model.Explain.
From N2 Require Import Proofs.WorldSpec Proofs.ExplainProofs.

(* a reason is given exactly for the dirty verdicts, and it is the verdict's own reason
   (1 something missing, 2 no record, 3 manifest changed) *)
Theorem C03_explain_gives_the_verdicts_reason : forall g w b bd r, explain_reason g w b bd = Some r -> snd (check_build_dirty g w b bd) = DDirty (why_of r).
Proof. exact explain_gives_the_verdicts_reason. Qed.
Print Assumptions C03_explain_gives_the_verdicts_reason.

Theorem C03_dirty_is_explained : forall g w b bd why, snd (check_build_dirty g w b bd) = DDirty why -> exists r, explain_reason g w b bd = Some r /\ why_of r = why.
Proof. exact dirty_is_explained. Qed.
Print Assumptions C03_dirty_is_explained.

(* "input N missing": N is a dirtying input, a discovered dependency or an output of the step, and
   the stat cache the check leaves behind holds it as missing *)
Theorem C03_explain_missing_is_missing : forall g w b bd n, explain_reason g w b bd = Some (RMissing n) -> In n (wb_dirtying bd ++ disc_of w b ++ wb_outs bd) /\ cache_get (ws_cache (fst (check_build_dirty g w b bd))) n = Some None.
Proof. exact explain_missing_is_missing. Qed.
Print Assumptions C03_explain_missing_is_missing.

(* "no previous state known": the log holds no record in effect for the step *)
Theorem C03_explain_no_record_is_no_record : forall g w b bd, explain_reason g w b bd = Some RNoRecord -> assoc_nat b (ws_hashes w) = None.
Proof. exact explain_no_record_is_no_record. Qed.
Print Assumptions C03_explain_no_record_is_no_record.

(* "manifest changed": there is a record, the manifest shown is the step's manifest over the stat
   cache, and it does not hash to the recorded value *)
Theorem C03_explain_changed_is_changed : forall g w b bd m, explain_reason g w b bd = Some (RChanged m) -> exists prev, assoc_nat b (ws_hashes w) = Some prev /\ hash_build m <> prev /\ manifest_of (fst (check_build_dirty g w b bd)) bd (disc_of w b) = Some m.
Proof. exact explain_changed_is_changed. Qed.
Print Assumptions C03_explain_changed_is_changed.

Theorem C03_phony_is_never_explained : forall g w b bd, wb_cmdline bd = None -> explain_reason g w b bd = None.
Proof. exact phony_is_never_explained. Qed.
Print Assumptions C03_phony_is_never_explained.

(* nothing is logged for a clean verdict or an error, one message for a dirty one, two when the
   manifest changed (the second is the manifest as text) *)
Theorem C03_explain_message_count : forall g w b bd loc, match snd (check_build_dirty g w b bd) with | DDirty 3%N => length (explain_verdict g w b bd loc) = 2 | DDirty _ => length (explain_verdict g w b bd loc) = 1 | _ => explain_verdict g w b bd loc = [] end.
Proof. exact explain_message_count. Qed.
Print Assumptions C03_explain_message_count.

(* limit of the text: times are shown in milliseconds, the hash covers nanoseconds - two manifests
   that hash differently can read the same *)
Theorem C03_explanation_blind_below_a_millisecond : explain_manifest ms_m1 = explain_manifest ms_m2 /\ hash_build ms_m1 <> hash_build ms_m2.
Proof. exact explanation_blind_below_a_millisecond. Qed.
Print Assumptions C03_explanation_blind_below_a_millisecond.

(* the premises above are met: one step `cc a.c -> o` with a reported header a.h (defined in
   Proofs/ExplainProofs.v), clean; the header gone; no record; the header touched *)
Theorem C03_explain_example_clean : explain_reason ex_g (ex_w ex_tree [(0%nat, hash_build ex_manifest)]) 0 ex_bd = None /\ snd (check_build_dirty ex_g (ex_w ex_tree [(0%nat, hash_build ex_manifest)]) 0 ex_bd) = DClean.
Proof. exact ex_clean. Qed.
Print Assumptions C03_explain_example_clean.

Theorem C03_explain_example_header_gone : explain_verdict ex_g (ex_w [(bs "a.c", ex_t 1); (bs "o", ex_t 3)] [(0%nat, hash_build ex_manifest)]) 0 ex_bd (bs "build.ninja:3") = [bs "explain: build.ninja:3: input a.h missing"].
Proof. exact ex_header_gone. Qed.
Print Assumptions C03_explain_example_header_gone.

Theorem C03_explain_example_no_record : explain_verdict ex_g (ex_w ex_tree []) 0 ex_bd (bs "build.ninja:3") = [bs "explain: build.ninja:3: no previous state known"].
Proof. exact ex_no_record. Qed.
Print Assumptions C03_explain_example_no_record.

Theorem C03_explain_example_touched : explain_verdict ex_g (ex_w [(bs "a.c", ex_t 1); (bs "a.h", ex_t 9); (bs "o", ex_t 3)] [(0%nat, hash_build ex_manifest)]) 0 ex_bd (bs "build.ninja:3") = [bs "explain: build.ninja:3: manifest changed"; bs "in:" ++ [10%N] ++ bs "  1500000001000 a.c" ++ [10%N] ++ bs "discovered:" ++ [10%N] ++ bs "  1500000009000 a.h" ++ [10%N] ++ bs "cmdline: cc a.c" ++ [10%N] ++ bs "out:" ++ [10%N] ++ bs "  1500000003000 o" ++ [10%N]].
Proof. exact ex_touched. Qed.
Print Assumptions C03_explain_example_touched.

(* along an invocation: on every trace the World replay accepts (which is what the check establishes
   for every observed invocation) the messages computed are one entry per verdict, in order *)
Theorem C03_explain_trace_covers : forall g locs evs w pend i w', replay g w pend evs i = WOk w' -> map fst (explain_trace g locs w pend evs) = verdict_steps evs.
Proof. exact explain_trace_covers. Qed.
Print Assumptions C03_explain_trace_covers.

(* from the audit (Proofs/AuditR6.v, W_C03_trace_covers_met_by_silence: the statement above compares
   the steps only): every entry of the trace is explain_verdict on the state the replay is in at that
   verdict ([verdict_states] walks the events like World.replay and keeps the state before each verdict) *)
Theorem C03_explain_trace_is_verdicts : forall g locs evs w pend, explain_trace g locs w pend evs = map (fun bw => (fst bw, explain_verdict g (snd bw) (fst bw) (get_wbuild g (fst bw)) (nth (fst bw) locs []))) (verdict_states g w pend evs).
Proof. exact explain_trace_is_verdicts. Qed.
Print Assumptions C03_explain_trace_is_verdicts.
