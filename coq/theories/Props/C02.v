(* C02 - the decision rule half of "an incremental build leaves what a clean build would":
   statements only; proofs in Proofs/World*.v *)
From Coq Require Import String.
From N2 Require Import Model.All Proofs.DbSpec Proofs.WorldSpec.
From N2 Require Import Proofs.WorldBase Proofs.WorldDeps Proofs.WorldDirty Proofs.WorldHash.

Theorem C02_record_manifest_exists : forall w b bd reported w1 h, record_finished w b bd reported = Ok (w1, Some h) -> exists m0, manifest_of w1 bd (disc_of w1 b) = Some m0 /\ hash_build m0 = h.
Proof. exact record_manifest_exists. Qed.
Print Assumptions C02_record_manifest_exists.

Theorem C02_clean_same_hash : forall g w b bd reported w1 h bd' w2 w2', record_finished w b bd reported = Ok (w1, Some h) -> check_build_dirty g w2 b bd' = (w2', DClean) -> wb_cmdline bd' <> None -> assoc_nat b (ws_hashes w2) = Some h -> exists m0 m, manifest_of w1 bd (disc_of w1 b) = Some m0 /\ hash_build m0 = h /\ manifest_of w2' bd' (disc_of w2 b) = Some m /\ hash_build m = hash_build m0.
Proof. exact clean_same_hash. Qed.
Print Assumptions C02_clean_same_hash.

(* C02_clean_implies_recorded_manifest was removed: its premise (global injectivity of hash_build) is false by counting
   (Proofs/HashVacuity.v: hash_build_not_injective), so it said nothing.  The per-comparison form is C02_clean_means_identical. *)

Theorem C02_manifest_stream_injective : forall m1 m2, wf_manifest m1 = true -> wf_manifest m2 = true -> mf_rsp m1 = mf_rsp m2 -> manifest_stream m1 = manifest_stream m2 -> m1 = m2.
Proof. exact manifest_stream_injective. Qed.
Print Assumptions C02_manifest_stream_injective.

Theorem C02_manifest_stream_prefix_injective : forall m1 m2, wf_manifest m1 = true -> wf_manifest m2 = true -> manifest_stream m1 = manifest_stream m2 -> mf_ins m1 = mf_ins m2 /\ mf_discovered m1 = mf_discovered m2 /\ mf_cmdline m1 = mf_cmdline m2 /\ rsp_part m1 ++ hash_files (mf_outs m1) = rsp_part m2 ++ hash_files (mf_outs m2).
Proof. exact manifest_stream_prefix_injective. Qed.
Print Assumptions C02_manifest_stream_prefix_injective.

Theorem C02_manifest_of_shape : forall w bd d m, manifest_of w bd d = Some m -> map fst (mf_ins m) = wb_dirtying bd /\ map fst (mf_discovered m) = d /\ map fst (mf_outs m) = wb_outs bd /\ mf_cmdline m = match wb_cmdline bd with Some c => c | None => [] end /\ mf_rsp m = wb_rsp bd /\ forall n t, In (n, t) (mf_ins m ++ mf_discovered m ++ mf_outs m) -> cache_get (ws_cache w) n = Some (Some t).
Proof. exact manifest_of_shape. Qed.
Print Assumptions C02_manifest_of_shape.

Theorem C02_clean_means_identical : forall g w b bd reported w1 h bd' w2 w2' m0, record_finished w b bd reported = Ok (w1, Some h) -> manifest_of w1 bd (disc_of w1 b) = Some m0 -> wf_manifest m0 = true -> check_build_dirty g w2 b bd' = (w2', DClean) -> wb_cmdline bd' <> None -> assoc_nat b (ws_hashes w2) = Some h -> wb_rsp bd' = wb_rsp bd -> (forall m, manifest_of w2' bd' (disc_of w2 b) = Some m -> wf_manifest m = true /\ no_collision m m0) -> manifest_of w2' bd' (disc_of w2 b) = Some m0.
Proof. exact clean_means_identical. Qed.
Print Assumptions C02_clean_means_identical.

Theorem C02_never_skips_changed : forall g w b bd reported w1 h bd' w2 w2' r m0, record_finished w b bd reported = Ok (w1, Some h) -> manifest_of w1 bd (disc_of w1 b) = Some m0 -> wf_manifest m0 = true -> check_build_dirty g w2 b bd' = (w2', r) -> wb_cmdline bd' <> None -> assoc_nat b (ws_hashes w2) = Some h -> wb_rsp bd' = wb_rsp bd -> (forall m, manifest_of w2' bd' (disc_of w2 b) = Some m -> wf_manifest m = true /\ no_collision m m0) -> ((exists n t0, In (n, t0) (mf_ins m0 ++ mf_discovered m0 ++ mf_outs m0) /\ cache_get (ws_cache w2') n <> Some (Some t0)) \/ wb_dirtying bd' <> map fst (mf_ins m0) \/ disc_of w2 b <> map fst (mf_discovered m0) \/ wb_outs bd' <> map fst (mf_outs m0) \/ match wb_cmdline bd' with Some c => c | None => [] end <> mf_cmdline m0) -> r <> DClean.
Proof. exact never_skips_changed. Qed.
Print Assumptions C02_never_skips_changed.

Theorem C02_never_skips_changed_tree : forall g w b bd reported w1 h bd' w2 w2' r m0 n t0, record_finished w b bd reported = Ok (w1, Some h) -> manifest_of w1 bd (disc_of w1 b) = Some m0 -> wf_manifest m0 = true -> check_build_dirty g w2 b bd' = (w2', r) -> wb_cmdline bd' <> None -> assoc_nat b (ws_hashes w2) = Some h -> wb_rsp bd' = wb_rsp bd -> (forall m, manifest_of w2' bd' (disc_of w2 b) = Some m -> wf_manifest m = true /\ no_collision m m0) -> cache_consistent w2 -> In (n, t0) (mf_ins m0 ++ mf_discovered m0 ++ mf_outs m0) -> fs_get (ws_fs w2) n <> Some t0 -> r <> DClean.
Proof. exact never_skips_changed_tree. Qed.
Print Assumptions C02_never_skips_changed_tree.
