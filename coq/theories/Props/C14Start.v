(* C14, completed (audit findings D5, D6 of Proofs/AuditFindingsParse.v).
   D5: the theorems about the statement loop assume LInv / NamesUnique of the loader they start
       from; here: the loader load_manifest starts from has both, and every loaded manifest has
       unique names, include lines or not - so C14_unique_producer and the C10 loader theorems are
       not conditional on an unstated fact.
   D6: nothing in C10 / C14 speaks about the consumer edges [lf_dependents] (the edges the
       scheduler follows when a file becomes ready): every statement holds just as well of a
       loader whose dependents lists have been emptied.  Here: in every loaded graph the
       dependents list of file i is EXACTLY the ids of the steps in declaration order, each once
       per occurrence of i among the step's inputs - explicit, implicit, order-only and validation
       inputs alike, duplicates kept ([dependents_from], Proofs/FixLoadSpec.v).
   Statements only; proofs in Proofs/FixLoadInv.v, Proofs/AuditFindingsParse.v. *)
From Coq Require Import String Sorted.
From N2 Require Import Model.All Proofs.GraphAddBuild Proofs.LoadGraphFile Proofs.LoadGraphNames Proofs.FixLoadSpec.
From N2 Require Import Proofs.AuditFindingsParse Proofs.FixLoadInv Proofs.FixLoadGraph Proofs.FixLoadEx.

(* ---- D5 ---- *)

Theorem C14_load_manifest_start : forall fixed depth fs name text, load_manifest fixed depth fs name text = do c <- canon name; parse_file fixed depth fs (loader_start c) name text [].
Proof. exact load_manifest_start. Qed.
Print Assumptions C14_load_manifest_start.

Theorem C14_loader_start_ok : forall c, LInv (loader_start c) /\ NamesUnique (loader_start c).
Proof. exact loader_start_ok. Qed.
Print Assumptions C14_loader_start_ok.

Theorem C14_loaded_names_unique : forall depth fs name text l, load_manifest true depth fs name text = Ok l -> NamesUnique l.
Proof. exact load_manifest_names_unique_incl. Qed.
Print Assumptions C14_loaded_names_unique.

(* ---- D6 ---- *)

Theorem C14_loaded_dependents : forall depth fs name text l, load_manifest true depth fs name text = Ok l -> forall i f, nth_error (l_files l) i = Some f -> lf_dependents f = dependents_from (l_builds l) 0 i.
Proof. exact load_manifest_DInv. Qed.
Print Assumptions C14_loaded_dependents.

(* edge by edge: step p is among the dependents of file i iff i is among the inputs of p ... *)
Theorem C14_loaded_dependents_iff : forall depth fs name text l, load_manifest true depth fs name text = Ok l -> forall i f, nth_error (l_files l) i = Some f -> forall p, In p (lf_dependents f) <-> exists b, nth_error (l_builds l) p = Some b /\ In i (lb_ins b).
Proof. exact load_manifest_dependents_iff. Qed.
Print Assumptions C14_loaded_dependents_iff.

(* ... with multiplicity ... *)
Theorem C14_loaded_dependents_count : forall depth fs name text l, load_manifest true depth fs name text = Ok l -> forall i f p, nth_error (l_files l) i = Some f -> count_occ Nat.eq_dec (lf_dependents f) p = match nth_error (l_builds l) p with Some b => count_occ Nat.eq_dec (lb_ins b) i | None => 0 end.
Proof. exact load_manifest_dependents_count. Qed.
Print Assumptions C14_loaded_dependents_count.

(* ... and in declaration order *)
Theorem C14_loaded_dependents_sorted : forall depth fs name text l, load_manifest true depth fs name text = Ok l -> forall i f, nth_error (l_files l) i = Some f -> Sorted le (lf_dependents f).
Proof. exact load_manifest_dependents_sorted. Qed.
Print Assumptions C14_loaded_dependents_sorted.

(* the inductive step, for the pinned and the fixed add_build alike *)
Theorem C14_graph_add_build_dependents : forall fixed l b l', DInv l -> graph_add_build fixed l b = Ok l' -> DInv l'.
Proof. exact graph_add_build_DInv. Qed.
Print Assumptions C14_graph_add_build_dependents.

(* x is listed twice by step 0 and once by step 1; a is an explicit and a validation input of step 1 *)
Example C14_loaded_dependents_example : exists l, load_manifest true 1 [] (bs "build.ninja") dx_text = Ok l /\ map lf_name (l_files l) = [bs "build.ninja"; bs "x"; bs "y"; bs "a"; bs "z"; bs "b"] /\ map lb_ins (l_builds l) = [[1; 1; 2]; [3; 1; 4; 3]] /\ map lf_dependents (l_files l) = [[]; [0; 0; 1]; [0]; [1; 1]; [1]; []] /\ dependents_from (l_builds l) 0 1 = [0; 0; 1] /\ dependents_from (l_builds l) 0 3 = [1; 1].
Proof. exact dependents_example. Qed.
