(* C16, the printing half: the plain console (DumbConsoleProgress, src/progress_dumb.rs; what n2
   uses whenever stdout is not a terminal), Model/Dumb.v.
   "Every byte the command writes to stdout and stderr is ... printed once, contiguously, when it
   finishes."
   Statements only; proofs in Proofs/DumbProofs.v. *)
From Coq Require Import String.
From N2 Require Import Model.All Model.Fancy Model.Dumb.
From N2 Require Import Proofs.DumbProofs.

(* for every sequence of starts and completions of steps that have a command line: nothing panics,
   and the output blocks printed are exactly the outputs to be shown (non-empty; not those of a
   successful command of a hide_success step), each once, whole, in completion order *)
Theorem C16_plain_console_blocks : forall ops st, Forall has_cmd ops -> exists segs st', d_run st ops = Ok (segs, st') /\ blocks segs = concat (map shown ops).
Proof. exact d_run_blocks. Qed.
Print Assumptions C16_plain_console_blocks.

(* one completion prints at most one line of n2's own and then the output, verbatim, last *)
Theorem C16_plain_console_completion : forall st id d c h t out, c <> None -> exists head, d_task_finished st id d c h t out = Ok (head ++ map SBlock (shown (DFinish id d c h t out)), st) /\ (head = [] \/ exists l, head = [SLine l]).
Proof. exact d_finished_shape. Qed.
Print Assumptions C16_plain_console_completion.

Theorem C16_plain_console_bytes : forall st id d c h t out, c <> None -> is_empty out || ((t =? 0)%N && h) = false -> exists head st', d_task_finished st id d c h t out = Ok (head ++ [SBlock out], st') /\ printed (head ++ [SBlock out]) = printed head ++ out.
Proof. exact d_finished_bytes. Qed.
Print Assumptions C16_plain_console_bytes.

Example C16_plain_console_example : d_run0 false [DStart 1 (Some (bs "CC a")) (Some (bs "cc a")); DStart 2 None (Some (bs "cc b")); DFinish 1 (Some (bs "CC a")) (Some (bs "cc a")) false 0 (27%N :: bs "[31mwarn"); DFinish 2 None (Some (bs "cc b")) false 2 (bs "boom")] = Ok ([SLine (bs "CC a"); SLine (bs "cc b"); SLine (bs "CC a"); SBlock (27%N :: bs "[31mwarn"); SLine (bs "failed: cc b"); SBlock (bs "boom")], mkDState false (Some 2%N)).
Proof. reflexivity. Qed.
