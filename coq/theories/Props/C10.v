(* C10 - every manifest written in the Ninja syntax n2 supports loads into exactly the declared
   statements; the result does not depend on spacing, placement of line continuations, or `$var`
   versus `${var}` spelling.  PARSER half (text -> statements); the loader half (statements ->
   graph) is in C11/C14.  Statements only.

   Vocabulary (Proofs/ParseSpell.v):
     spells_eval path es txt     txt is a spelling of the eval string es (path: on a build/default line)
     spells_paths / spells_build_line / spells_block / spells_stmt ln st txt
                                 the same for path lists, the build line, indented bindings, statements
     spells_pre vs vs' F         F = blank lines, comment lines, file-level bindings taking vs to vs'
     follow_ok st X              what must follow the statement (newline behind include/subninja,
                                 otherwise any byte but a space)
   Results are compared up to [norm_eval]/[norm_stmt] (adjacent literals merged, empty literals
   dropped), because the parser keeps the pieces as it read them ("a$ b" -> [Lit a; Lit " "; Lit b]).
   In every theorem the buffer is pre ++ text ++ rest ++ [NUL], the scanner stands at the text, and
   the buffer has no '\r' (Scanner::back steps back two bytes over "\r\n").
   [..._roundtrip]: for ANY fuel the result is SFuel or the stated one; [..._total]: with the
   loader's fuel it is the stated one (uses C12's fuel bound). *)
From Coq Require Import String.
From N2 Require Import Model.All Proofs.ParseSpell.
From N2 Require Import Proofs.ParseRoundScan Proofs.ParseRound1 Proofs.ParseRound2 Proofs.ParseRound3
     Proofs.ParseRoundMain Proofs.ParseRoundTotal Proofs.ParseRoundFile Proofs.ParseRoundEx.

(* evaluation only sees the normal form, and the normal form is canonical *)
Theorem C10_evaluate_norm : forall envs es, evaluate envs (norm_eval es) = evaluate envs es.
Proof. exact evaluate_norm. Qed.
Print Assumptions C10_evaluate_norm.

Theorem C10_norm_eval_canonical : forall es es', norm_eval es = norm_eval es' <-> atoms es = atoms es'.
Proof. exact norm_eval_iff. Qed.
Print Assumptions C10_norm_eval_canonical.

(* Stage 1: an eval string *)
Theorem C10_eval_roundtrip : forall path es txt pre rest s fuel,
  spells_eval path es txt -> txt <> [] -> eval_stop path (rest ++ [0%N]) ->
  ~ In 13%N (pre ++ rest) ->
  sbuf s = pre ++ txt ++ rest ++ [0%N] -> sofs s = length pre ->
  read_eval fuel path s = SFuel \/
  exists es', read_eval fuel path s =
              SOk es' (mkScanner (sbuf s) (length (pre ++ txt)) (sline s + nlz txt)) /\
              norm_eval es' = norm_eval es /\ es' <> [].
Proof. exact eval_roundtrip. Qed.
Print Assumptions C10_eval_roundtrip.

Theorem C10_eval_spelling_independent :
  forall path es t1 t2 pre1 rest1 pre2 rest2 s1 s2 fuel1 fuel2 es1 es2 z1 z2,
  spells_eval path es t1 -> spells_eval path es t2 -> t1 <> [] -> t2 <> [] ->
  eval_stop path (rest1 ++ [0%N]) -> eval_stop path (rest2 ++ [0%N]) ->
  ~ In 13%N (pre1 ++ rest1) -> ~ In 13%N (pre2 ++ rest2) ->
  sbuf s1 = pre1 ++ t1 ++ rest1 ++ [0%N] -> sofs s1 = length pre1 ->
  sbuf s2 = pre2 ++ t2 ++ rest2 ++ [0%N] -> sofs s2 = length pre2 ->
  read_eval fuel1 path s1 = SOk es1 z1 -> read_eval fuel2 path s2 = SOk es2 z2 ->
  norm_eval es1 = norm_eval es2 /\ forall envs, evaluate envs es1 = evaluate envs es2.
Proof. exact eval_spelling_independent. Qed.
Print Assumptions C10_eval_spelling_independent.

(* Stage 2: the build statement, entered behind "build" and its white space: exactly the declared
   lists and counts, the line of the scanner, and the block's bindings *)
Theorem C10_build_roundtrip : forall fixed pre L Bt rest d bl s fuel,
  spells_build_line d L -> spells_block (fun _ => true) bl Bt ->
  (exists c r, rest ++ [0%N] = c :: r /\ c <> 32%N) ->
  ~ In 13%N (sbuf s) ->
  sbuf s = pre ++ L ++ Bt ++ rest ++ [0%N] -> sofs s = length pre ->
  read_build fixed fuel s = SFuel \/
  exists b, read_build fixed fuel s =
            SOk (SBuild b) (mkScanner (sbuf s) (length (pre ++ L ++ Bt)) (sline s + nlz (L ++ Bt))) /\
            norm_build b = norm_build (decl_build d (sline s) (block_vars bl)).
Proof. exact build_roundtrip. Qed.
Print Assumptions C10_build_roundtrip.

(* Stage 3: Parser::read on filler, file-level bindings and one statement *)
Theorem C10_statement_roundtrip : forall fixed pre F txt rest vs vs' st s fuel,
  spells_pre vs vs' F -> spells_stmt (sline s + nlz F) st txt -> follow_ok st (rest ++ [0%N]) ->
  ~ In 13%N (sbuf s) ->
  sbuf s = pre ++ F ++ txt ++ rest ++ [0%N] -> sofs s = length pre ->
  parser_read fixed fuel s vs = SFuel \/
  exists st', parser_read fixed fuel s vs =
              SOk (Some st', vs')
                  (mkScanner (sbuf s) (length (pre ++ F ++ txt)) (sline s + nlz (F ++ txt))) /\
              norm_stmt st' = norm_stmt st.
Proof. exact statement_roundtrip. Qed.
Print Assumptions C10_statement_roundtrip.

Theorem C10_eof_roundtrip : forall fixed pre F vs vs' s fuel,
  spells_pre vs vs' F -> ~ In 13%N (sbuf s) ->
  sbuf s = pre ++ F ++ [0%N] -> sofs s = length pre ->
  parser_read fixed fuel s vs = SFuel \/
  parser_read fixed fuel s vs =
  SOk (None, vs') (mkScanner (sbuf s) (length (pre ++ F)) (sline s + nlz F)).
Proof. exact eof_roundtrip. Qed.
Print Assumptions C10_eof_roundtrip.

Theorem C10_spelling_independent :
  forall fixed st vs vs' pre1 F1 t1 rest1 s1 fuel1 r1 z1 pre2 F2 t2 rest2 s2 fuel2 r2 z2,
  spells_pre vs vs' F1 -> spells_stmt (sline s1 + nlz F1) st t1 -> follow_ok st (rest1 ++ [0%N]) ->
  ~ In 13%N (sbuf s1) -> sbuf s1 = pre1 ++ F1 ++ t1 ++ rest1 ++ [0%N] -> sofs s1 = length pre1 ->
  spells_pre vs vs' F2 -> spells_stmt (sline s2 + nlz F2) st t2 -> follow_ok st (rest2 ++ [0%N]) ->
  ~ In 13%N (sbuf s2) -> sbuf s2 = pre2 ++ F2 ++ t2 ++ rest2 ++ [0%N] -> sofs s2 = length pre2 ->
  parser_read fixed fuel1 s1 vs = SOk r1 z1 -> parser_read fixed fuel2 s2 vs = SOk r2 z2 ->
  exists st1 st2, r1 = (Some st1, vs') /\ r2 = (Some st2, vs') /\ norm_stmt st1 = norm_stmt st2.
Proof. exact statement_spelling_independent. Qed.
Print Assumptions C10_spelling_independent.

(* with the loader's fuel the parser does not run out of fuel *)
Theorem C10_statement_roundtrip_total : forall pre F txt rest vs vs' st s,
  spells_pre vs vs' F -> spells_stmt (sline s + nlz F) st txt -> follow_ok st (rest ++ [0%N]) ->
  ~ In 13%N (sbuf s) ->
  sbuf s = pre ++ F ++ txt ++ rest ++ [0%N] -> sofs s = length pre ->
  exists st', parser_read true (parse_fuel (sbuf s)) s vs =
              SOk (Some st', vs')
                  (mkScanner (sbuf s) (length (pre ++ F ++ txt)) (sline s + nlz (F ++ txt))) /\
              norm_stmt st' = norm_stmt st.
Proof. exact statement_roundtrip_total. Qed.
Print Assumptions C10_statement_roundtrip_total.

Theorem C10_eof_roundtrip_total : forall pre F vs vs' s,
  spells_pre vs vs' F -> ~ In 13%N (sbuf s) ->
  sbuf s = pre ++ F ++ [0%N] -> sofs s = length pre ->
  parser_read true (parse_fuel (sbuf s)) s vs =
  SOk (None, vs') (mkScanner (sbuf s) (length (pre ++ F)) (sline s + nlz F)).
Proof. exact eof_roundtrip_total. Qed.
Print Assumptions C10_eof_roundtrip_total.

(* a whole file: the loader's sequence of Parser::read calls ([read_all], ParseSpell.v) returns the
   declared statements, in order, and the final file-level variables *)
Theorem C10_file_roundtrip : forall sts vs' text,
  spells_file 1 [] sts vs' text -> ~ In 13%N text ->
  exists sts', read_all (S (length (text ++ [0%N]))) (parse_fuel (text ++ [0%N]))
                        (mkScanner (text ++ [0%N]) 0 1) [] =
               SOk (sts', vs') (mkScanner (text ++ [0%N]) (length text) (1 + nlz text)) /\
               map norm_stmt sts' = map norm_stmt sts.
Proof. exact file_roundtrip. Qed.
Print Assumptions C10_file_roundtrip.

(* the relations are inhabited: an eval string with every kind of piece; one build statement with
   every section and a binding, spelled in two ways; filler with a comment, a blank line and a
   file-level binding (ParseRoundEx.v also runs the parser model on these texts) *)
Theorem C10_example_eval : spells_eval false ex1_eval ex1_text.
Proof. exact ex1_spells. Qed.
Print Assumptions C10_example_eval.

Theorem C10_example_build :
  spells_stmt 1 ex_build ex_text_a /\ spells_stmt 1 ex_build ex_text_b /\
  spells_pre [] [(bs "x", bs "1")] ex_filler.
Proof. exact (conj ex_spells_a (conj ex_spells_b ex_filler_spells)). Qed.
Print Assumptions C10_example_build.

Theorem C10_example_file : spells_file 1 [] ex_stmts [(bs "x", bs "1")] ex_file.
Proof. exact ex_file_spells. Qed.
Print Assumptions C10_example_file.
