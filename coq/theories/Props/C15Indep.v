(* C15 - depfiles are read as the compiler wrote them: statements against an INDEPENDENT
   specification (audit finding M14: C15_roundtrip says what the parser should return with the
   parser's own merge helper).  Statements only.

   Vocabulary (Proofs/DepfileIndep.v, definitions only, no function of Model/Depfile.v):
     dep_entries     the `target: prerequisites` entries as written, top to bottom
     targets es      the distinct targets in order of first appearance
     entries_of t es the entries written for target t, top to bottom  (a [filter])
     prereqs_of t es their prerequisites, concatenated in textual order
     grouped es      [(t, prereqs_of t es) | t <- targets es]        -- what a depfile means
     all_deps es     concat (map snd (grouped es))                   -- the discovered dependencies
     regroup es      [e | t <- targets es, e <- entries_of t es]     -- whole entries, stably regrouped
     tagged es       every prerequisite occurrence paired with the target it was written under
     before l x y    some occurrence of x stands before some occurrence of y in l
     first_before ts t1 t2   t1 occurs in ts at a place before which t2 has not occurred
     clustered es    no target is interrupted by another one
   Text side (unchanged, Proofs/DepfileSpec.v): [spells_d es text]. *)
From Coq Require Import String.
From N2 Require Import Model.All Proofs.DepfileSpec.
From N2 Require Import Proofs.DepfileIndep Proofs.DepfileIndepFacts Proofs.DepfileIndepMerge Proofs.DepfileIndepEx.

(* ---- 1. what the specification says (no parser involved) ---- *)

Theorem C15_spec_grouped : forall es t ps,
  (In (t, ps) (grouped es) <-> In t (map fst es) /\ ps = prereqs_of t es) /\ NoDup (map fst (grouped es)).
Proof. intros es t ps. split; [apply grouped_in | apply grouped_nodup]. Qed.
Print Assumptions C15_spec_grouped.

Theorem C15_spec_membership : forall es d,
  In d (all_deps es) <-> exists t ps, In (t, ps) es /\ In d ps.
Proof. exact all_deps_in. Qed.
Print Assumptions C15_spec_membership.

Theorem C15_spec_multiplicity : forall es d,
  count_occ bytes_dec (all_deps es) d = count_occ bytes_dec (concat (map snd es)) d.
Proof. exact all_deps_count. Qed.
Print Assumptions C15_spec_multiplicity.

Theorem C15_spec_distinct_targets : forall es,
  NoDup (map fst es) -> grouped es = es /\ all_deps es = concat (map snd es).
Proof. intros es H. split; [now apply grouped_distinct | now apply all_deps_distinct]. Qed.
Print Assumptions C15_spec_distinct_targets.

(* ---- 2. the parser's merge is [grouped]; the round trip ---- *)

Theorem C15_merge_is_grouped : forall es,
  fold_left (fun acc e => smallmap_extend (fst e) (snd e) acc) es [] = grouped es /\
  merge_targets es = grouped es.
Proof. intro es. split; exact (merge_is_grouped es). Qed.
Print Assumptions C15_merge_is_grouped.

Theorem C15_roundtrip_indep : forall es text,
  spells_d es text ->
  depfile_parse text = Ok (grouped es) /\ depfile_deps text = Ok (all_deps es).
Proof. exact depfile_roundtrip_indep. Qed.
Print Assumptions C15_roundtrip_indep.

(* every well-formed abstract depfile has a text, so the premise above is never vacuous *)
Theorem C15_render_roundtrip : forall es,
  Forall (fun e => good_target (fst e) /\ Forall good_path (snd e)) es ->
  spells_d es (render es) /\
  depfile_parse (render es) = Ok (grouped es) /\ depfile_deps (render es) = Ok (all_deps es).
Proof. intros es H. split; [exact (render_spells es H) | exact (render_roundtrip es H)]. Qed.
Print Assumptions C15_render_roundtrip.

(* ---- 3. exactly the listed prerequisites; their order ---- *)

Theorem C15_deps_exactly_listed : forall es text,
  spells_d es text ->
  exists l, depfile_deps text = Ok l /\
    (forall d, In d l <-> exists t ps, In (t, ps) es /\ In d ps) /\
    (forall d, count_occ bytes_dec l d = count_occ bytes_dec (concat (map snd es)) d).
Proof. exact depfile_deps_exactly_listed. Qed.
Print Assumptions C15_deps_exactly_listed.

(* "In order", precisely.  The result is the list of second components of a list [occ] of
   (target, prerequisite) occurrences such that
   - [occ] has exactly the occurrences written in the file;
   - for every target, the occurrences written under it form, in [occ], exactly the same list as in
     the text (same elements, same multiplicities, same order);
   - an occurrence under t1 stands before an occurrence under another target t2 iff t1's first
     appearance in the file precedes t2's.
   So two prerequisites change their relative order only if they belong to different targets whose
   first appearances are in the opposite order, i.e. only through the regrouping by target. *)
Theorem C15_deps_order : forall es text,
  spells_d es text ->
  exists occ : list (bytes * bytes),
    depfile_deps text = Ok (map snd occ) /\
    (forall t d, In (t, d) occ <-> exists ps, In (t, ps) es /\ In d ps) /\
    (forall t, filter (is_for t) occ = filter (is_for t) (tagged es)) /\
    (forall t1 d1 t2 d2, before occ (t1, d1) (t2, d2) <->
       (t1 = t2 /\ before (tagged es) (t1, d1) (t2, d2)) \/
       (t1 <> t2 /\ first_before (map fst es) t1 t2 /\
        In (t1, d1) (tagged es) /\ In (t2, d2) (tagged es))).
Proof. exact depfile_deps_order. Qed.
Print Assumptions C15_deps_order.

(* the same with whole entries: the result is the plain textual reading of [regroup es] ... *)
Theorem C15_deps_regrouped : forall es text,
  spells_d es text -> depfile_deps text = Ok (concat (map snd (regroup es))).
Proof. exact depfile_deps_regrouped. Qed.
Print Assumptions C15_deps_regrouped.

(* ... where [regroup] only moves whole entries: it is a permutation that keeps the entries of each
   target in their order, puts different targets in first-appearance order, and is the identity
   exactly when no target is interrupted by another one *)
Theorem C15_regroup_spec : forall es,
  Permutation (regroup es) es /\
  (forall t, entries_of t (regroup es) = entries_of t es) /\
  (forall e1 e2, before (regroup es) e1 e2 <->
     (fst e1 = fst e2 /\ before es e1 e2) \/
     (fst e1 <> fst e2 /\ first_before (map fst es) (fst e1) (fst e2) /\ In e1 es /\ In e2 es)) /\
  (regroup es = es <-> clustered es).
Proof. exact regroup_spec. Qed.
Print Assumptions C15_regroup_spec.

Theorem C15_deps_textual_when_clustered : forall es text,
  spells_d es text -> clustered es -> depfile_deps text = Ok (concat (map snd es)).
Proof. exact depfile_deps_textual_when_clustered. Qed.
Print Assumptions C15_deps_textual_when_clustered.

(* the smallest deviation:  a: x / b: y / a: z  is read as x z y; with at most two entries the
   result is always the textual order *)
Theorem C15_order_deviation_smallest :
  spells_d dev_es dev_text /\
  dev_es = [(bs "a", [bs "x"]); (bs "b", [bs "y"]); (bs "a", [bs "z"])] /\
  depfile_deps dev_text = Ok [bs "x"; bs "z"; bs "y"] /\
  concat (map snd dev_es) = [bs "x"; bs "y"; bs "z"] /\
  (forall es text, (length es <= 2)%nat -> spells_d es text ->
                   depfile_deps text = Ok (concat (map snd es))).
Proof.
  split; [exact dev_spells|]. split; [reflexivity|].
  split; [vm_compute; reflexivity|]. split; [vm_compute; reflexivity | exact short_textual].
Qed.
Print Assumptions C15_order_deviation_smallest.

(* ---- 4. non-vacuity: repeated target, a target without prerequisites between others, a blank
   line, a continuation, Windows-style paths, no final newline (text: Proofs/DepfileIndepEx.v) ---- *)
Theorem C15_indep_example :
  spells_d ex3_es ex3_text /\
  ex3_es = [(bs "c:\out\a.o", [bs "src/a.c"; bs "C:\inc\a.h"]); (bs "out/gen.h", []);
            (bs "out/b.o", [bs "src/b.c"]); (bs "c:\out\a.o", [bs "C:\inc\b.h"; bs "src/a.c"])] /\
  depfile_parse ex3_text =
    Ok [(bs "c:\out\a.o", [bs "src/a.c"; bs "C:\inc\a.h"; bs "C:\inc\b.h"; bs "src/a.c"]);
        (bs "out/gen.h", []); (bs "out/b.o", [bs "src/b.c"])] /\
  depfile_parse ex3_text = Ok (grouped ex3_es) /\
  depfile_deps ex3_text = Ok [bs "src/a.c"; bs "C:\inc\a.h"; bs "C:\inc\b.h"; bs "src/a.c"; bs "src/b.c"] /\
  depfile_deps ex3_text = Ok (all_deps ex3_es) /\
  ~ clustered ex3_es.
Proof.
  split; [exact ex3_spells|]. split; [reflexivity|].
  split; [vm_compute; reflexivity|]. split; [exact ex3_parse|].
  split; [exact ex3_deps|]. split; [apply ex3_theorem_applies | apply ex3_theorem_applies].
Qed.
Print Assumptions C15_indep_example.
