(* C08 - the build log round trip of src/db.rs: statements only; proofs in Proofs/Db*.v *)
From N2 Require Import Model.All Proofs.DbSpec.
From N2 Require Import Proofs.DbCodec Proofs.DbWriter Proofs.DbReader Proofs.DbMain Proofs.DbRenumber.

Theorem C08_roundtrip : forall producer ws log, Forall in_bounds ws -> table_small ws -> log_of ws = Ok log -> exists st, db_open true producer log = OpenOk st log /\ forall b, loaded_for st b = last_applicable producer ws b None.
Proof. exact db_roundtrip. Qed.
Print Assumptions C08_roundtrip.

Theorem C08_writer_total : forall ws, Forall in_bounds ws -> table_small ws -> exists log, log_of ws = Ok log.
Proof. exact db_writer_total. Qed.
Print Assumptions C08_writer_total.

Theorem C08_applied_only_if_all_outputs_match : forall producer ws log st b deps h, Forall in_bounds ws -> table_small ws -> log_of ws = Ok log -> db_open true producer log = OpenOk st log -> loaded_for st b = Some (deps, h) -> exists w, In w ws /\ w_deps w = deps /\ w_hash w = h /\ w_outs w <> [] /\ forall o, In o (w_outs w) -> producer o = Some b.
Proof. exact db_applied_only_if_all_outputs_match. Qed.
Print Assumptions C08_applied_only_if_all_outputs_match.

Theorem C08_renumbering_invariant : forall producer sigma log st1 st2, (forall x y : nat, sigma x = sigma y -> x = y) -> db_open true producer log = OpenOk st1 log -> db_open true (fun n => option_map sigma (producer n)) log = OpenOk st2 log -> forall b, loaded_for st2 (sigma b) = loaded_for st1 b.
Proof. exact db_renumbering_invariant_same_file. Qed.
Print Assumptions C08_renumbering_invariant.

Theorem C08_renumbering_opens : forall producer sigma log st1 f, (forall x y : nat, sigma x = sigma y -> x = y) -> db_open true producer log = OpenOk st1 f -> exists st2, db_open true (fun n => option_map sigma (producer n)) log = OpenOk st2 f /\ ld_tbl st2 = ld_tbl st1 /\ forall b, loaded_for st2 (sigma b) = loaded_for st1 b.
Proof. exact db_renumbering_opens. Qed.
Print Assumptions C08_renumbering_opens.

Theorem C08_pinned_attribution_refuted : exists producer ws log st b, log_of ws = Ok log /\ db_open false producer log = OpenOk st log /\ loaded_for st b <> None /\ last_applicable producer ws b None = None.
Proof. exact db_pinned_attribution_refuted. Qed.
Print Assumptions C08_pinned_attribution_refuted.
