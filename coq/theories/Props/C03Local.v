(* C02 / C03, composed with the joint invariants (audit findings A6, A7 of Proofs/AuditFindings.v).
   A6: C02_never_skips_changed_tree, C03_clean_after_record and C03_adopt_counts_as_up_to_date
       assume [cache_consistent w2] for the WHOLE stat cache; J3 says that this is false whenever
       another step is running (or has failed) and has written an output, and such a state with a
       verdict being computed in it is reachable as soon as parallelism is 2.  Here the premise is
       consistency on the names the check reads (dirtying inputs, discovered dependencies, outputs
       of that step); the joint invariants deliver exactly that at every verdict, for discovered
       dependencies that are not outputs of a running or failed step, so for a jointly accepted
       trace whose discovered dependencies are source files the premise (and [stated_generated])
       disappears.
   A7: the [_reachable] forms of J1 / J3 start from "nothing is Done and the cache is empty", which
       for a Work reused after the manifest-regeneration phase forces that phase to have examined
       nothing.  Here the start condition is the invariant itself, which the theorems establish -
       so both phases of every invocation are covered.
   Statements only; proofs in Proofs/AuditFindings.v, Proofs/FixJoint.v, Proofs/FixJointEx.v. *)
From Coq Require Import String.
From N2 Require Import Model.All Proofs.SchedSpec Proofs.DbSpec Proofs.WorldSpec Proofs.JointSpec.
From N2 Require Import Proofs.AuditFindings Proofs.FixJoint Proofs.FixJointEx.

(* ---- A6, World side: the local premise ---- *)

Theorem C03_clean_after_record_local : forall g w b bd reported w1 h w2, record_finished w b bd reported = Ok (w1, Some h) -> wb_cmdline bd <> None -> ws_fs w2 = ws_fs w1 -> (forall n, In n (wb_dirtying bd ++ disc_of w2 b ++ wb_outs bd) -> forall v, cache_get (ws_cache w2) n = Some v -> v = fs_get (ws_fs w2) n) -> assoc_nat b (ws_hashes w2) = Some h -> disc_of w2 b = disc_of w1 b -> stated_generated g w2 (wb_dirtying bd ++ disc_of w1 b) -> snd (check_build_dirty g w2 b bd) = DClean.
Proof. exact A6_clean_after_record_local. Qed.
Print Assumptions C03_clean_after_record_local.

Example C03_clean_after_record_local_example : exists g w b bd reported w1 h w2, record_finished w b bd reported = Ok (w1, Some h) /\ wb_cmdline bd <> None /\ ws_fs w2 = ws_fs w1 /\ (forall n, In n (wb_dirtying bd ++ disc_of w2 b ++ wb_outs bd) -> forall v, cache_get (ws_cache w2) n = Some v -> v = fs_get (ws_fs w2) n) /\ assoc_nat b (ws_hashes w2) = Some h /\ disc_of w2 b = disc_of w1 b /\ stated_generated g w2 (wb_dirtying bd ++ disc_of w1 b) /\ ~ cache_consistent w2 /\ disc_of w1 b = [bs "h"].
Proof. exact clean_after_record_local_example. Qed.

Theorem C03_adopt_counts_as_up_to_date_local : forall g w b bd w1 h w2, record_finished w b bd None = Ok (w1, Some h) -> wb_cmdline bd <> None -> ws_fs w2 = ws_fs w1 -> (forall n, In n (wb_dirtying bd ++ disc_of w2 b ++ wb_outs bd) -> forall v, cache_get (ws_cache w2) n = Some v -> v = fs_get (ws_fs w2) n) -> assoc_nat b (ws_hashes w2) = Some h -> disc_of w2 b = disc_of w1 b -> stated_generated g w2 (wb_dirtying bd ++ disc_of w1 b) -> snd (check_build_dirty g w2 b bd) = DClean /\ disc_of w1 b = [].
Proof. exact adopt_counts_as_up_to_date_local. Qed.
Print Assumptions C03_adopt_counts_as_up_to_date_local.

Example C03_adopt_counts_as_up_to_date_local_example : exists g w b bd w1 h w2, record_finished w b bd None = Ok (w1, Some h) /\ wb_cmdline bd <> None /\ ws_fs w2 = ws_fs w1 /\ (forall n, In n (wb_dirtying bd ++ disc_of w2 b ++ wb_outs bd) -> forall v, cache_get (ws_cache w2) n = Some v -> v = fs_get (ws_fs w2) n) /\ assoc_nat b (ws_hashes w2) = Some h /\ disc_of w2 b = disc_of w1 b /\ stated_generated g w2 (wb_dirtying bd ++ disc_of w1 b) /\ ~ cache_consistent w2 /\ disc_of w b = [bs "old"].
Proof. exact adopt_counts_as_up_to_date_local_example. Qed.

Theorem C02_never_skips_changed_tree_local : forall g w b bd reported w1 h bd' w2 w2' r m0 n t0, record_finished w b bd reported = Ok (w1, Some h) -> manifest_of w1 bd (disc_of w1 b) = Some m0 -> wf_manifest m0 = true -> check_build_dirty g w2 b bd' = (w2', r) -> wb_cmdline bd' <> None -> assoc_nat b (ws_hashes w2) = Some h -> wb_rsp bd' = wb_rsp bd -> (forall m, manifest_of w2' bd' (disc_of w2 b) = Some m -> wf_manifest m = true /\ no_collision m m0) -> (forall n, In n (wb_dirtying bd' ++ disc_of w2 b ++ wb_outs bd') -> forall v, cache_get (ws_cache w2) n = Some v -> v = fs_get (ws_fs w2) n) -> In (n, t0) (mf_ins m0 ++ mf_discovered m0 ++ mf_outs m0) -> fs_get (ws_fs w2) n <> Some t0 -> r <> DClean.
Proof. exact never_skips_changed_tree_local. Qed.
Print Assumptions C02_never_skips_changed_tree_local.

Example C02_never_skips_changed_tree_local_example : exists g w b bd reported w1 h bd' w2 w2' r m0 n t0, record_finished w b bd reported = Ok (w1, Some h) /\ manifest_of w1 bd (disc_of w1 b) = Some m0 /\ wf_manifest m0 = true /\ check_build_dirty g w2 b bd' = (w2', r) /\ wb_cmdline bd' <> None /\ assoc_nat b (ws_hashes w2) = Some h /\ wb_rsp bd' = wb_rsp bd /\ (forall m, manifest_of w2' bd' (disc_of w2 b) = Some m -> wf_manifest m = true /\ no_collision m m0) /\ (forall n, In n (wb_dirtying bd' ++ disc_of w2 b ++ wb_outs bd') -> forall v, cache_get (ws_cache w2) n = Some v -> v = fs_get (ws_fs w2) n) /\ In (n, t0) (mf_ins m0 ++ mf_discovered m0 ++ mf_outs m0) /\ fs_get (ws_fs w2) n <> Some t0 /\ ~ cache_consistent w2 /\ r = DDirty 3.
Proof. exact never_skips_changed_tree_local_example. Qed.

(* ---- A6, joint side: the local premise is what the invariants give at a verdict ---- *)

(* J3 at a verdict, extended to the discovered dependencies: everything the check of step b reads
   agrees with the tree, provided no discovered dependency of b is an output of a step that is
   running or has failed (undeclared generated inputs impose no order - C01 - so without that
   proviso a discovered dependency may be stale) *)
Theorem joint_local_consistent_for_checked : forall (cf : config) (decls : list (bytes * nat)) (wg : wgraph), graph_wf (cf_graph cf) -> graphs_agree (cf_graph cf) wg -> forall (s : bstates) (fl : option nat) (w0 : wstate) (tr : list jitem) (r : rstate) (w : wstate) (b : nat), wanted (cf_graph cf) (bs_new (length (g_builds (cf_graph cf))) decls) s -> ws_cache w0 = [] -> jaccepted cf wg (run_init s fl) w0 tr r w -> writes_ok wg [] tr -> rs_ctl r = CChecking b -> (forall d p, In d (disc_of w b) -> producer_of wg d = Some p -> get_state (rs_bs r) p <> Running /\ get_state (rs_bs r) p <> Failed) -> forall n, In n (wb_dirtying (get_wbuild wg b) ++ disc_of w b ++ wb_outs (get_wbuild wg b)) -> forall v, cache_get (ws_cache w) n = Some v -> v = fs_get (ws_fs w) n.
Proof. exact local_consistent_for_checked_wanted. Qed.
Print Assumptions joint_local_consistent_for_checked.

(* the state of the audit: step 0 is running and has written its output, the verdict of step 1 is
   being computed; the global premise fails, the local one holds *)
Example joint_local_consistent_for_checked_example : exists r w, wanted k_g (bs_new 2 []) k_s /\ jaccepted k_cf k_wg (run_init k_s None) k_w0 k_tr r w /\ writes_ok k_wg [] k_tr /\ rs_ctl r = CChecking 1 /\ ~ cache_consistent w /\ (forall n, In n (wb_dirtying (get_wbuild k_wg 1) ++ disc_of w 1 ++ wb_outs (get_wbuild k_wg 1)) -> forall v, cache_get (ws_cache w) n = Some v -> v = fs_get (ws_fs w) n).
Proof. exact A6_global_cache_consistency_fails_at_a_verdict. Qed.

(* the three World theorems at a verdict of a jointly accepted trace: no premise about the cache,
   none about stat()ed generated inputs *)
Theorem C03_clean_after_record_joint : forall (cf : config) (decls : list (bytes * nat)) (wg : wgraph), graph_wf (cf_graph cf) -> graphs_agree (cf_graph cf) wg -> forall s fl w0 tr r w2 b wpre reported w1 h, wanted (cf_graph cf) (bs_new (length (g_builds (cf_graph cf))) decls) s -> ws_cache w0 = [] -> jaccepted cf wg (run_init s fl) w0 tr r w2 -> writes_ok wg [] tr -> rs_ctl r = CChecking b -> (forall d, In d (disc_of w2 b) -> producer_of wg d = None) -> record_finished wpre b (get_wbuild wg b) reported = Ok (w1, Some h) -> wb_cmdline (get_wbuild wg b) <> None -> ws_fs w2 = ws_fs w1 -> assoc_nat b (ws_hashes w2) = Some h -> disc_of w2 b = disc_of w1 b -> snd (check_build_dirty wg w2 b (get_wbuild wg b)) = DClean.
Proof. exact clean_after_record_joint. Qed.
Print Assumptions C03_clean_after_record_joint.

Theorem C03_adopt_counts_as_up_to_date_joint : forall (cf : config) (decls : list (bytes * nat)) (wg : wgraph), graph_wf (cf_graph cf) -> graphs_agree (cf_graph cf) wg -> forall s fl w0 tr r w2 b wpre w1 h, wanted (cf_graph cf) (bs_new (length (g_builds (cf_graph cf))) decls) s -> ws_cache w0 = [] -> jaccepted cf wg (run_init s fl) w0 tr r w2 -> writes_ok wg [] tr -> rs_ctl r = CChecking b -> (forall d, In d (disc_of w2 b) -> producer_of wg d = None) -> record_finished wpre b (get_wbuild wg b) None = Ok (w1, Some h) -> wb_cmdline (get_wbuild wg b) <> None -> ws_fs w2 = ws_fs w1 -> assoc_nat b (ws_hashes w2) = Some h -> disc_of w2 b = disc_of w1 b -> snd (check_build_dirty wg w2 b (get_wbuild wg b)) = DClean /\ disc_of w1 b = [].
Proof. exact adopt_counts_as_up_to_date_joint. Qed.
Print Assumptions C03_adopt_counts_as_up_to_date_joint.

Theorem C02_never_skips_changed_tree_joint : forall (cf : config) (decls : list (bytes * nat)) (wg : wgraph), graph_wf (cf_graph cf) -> graphs_agree (cf_graph cf) wg -> forall s fl w0 tr r w2 b wpre bd reported w1 h w2' res m0 n t0, wanted (cf_graph cf) (bs_new (length (g_builds (cf_graph cf))) decls) s -> ws_cache w0 = [] -> jaccepted cf wg (run_init s fl) w0 tr r w2 -> writes_ok wg [] tr -> rs_ctl r = CChecking b -> (forall d, In d (disc_of w2 b) -> producer_of wg d = None) -> record_finished wpre b bd reported = Ok (w1, Some h) -> manifest_of w1 bd (disc_of w1 b) = Some m0 -> wf_manifest m0 = true -> check_build_dirty wg w2 b (get_wbuild wg b) = (w2', res) -> wb_cmdline (get_wbuild wg b) <> None -> assoc_nat b (ws_hashes w2) = Some h -> wb_rsp (get_wbuild wg b) = wb_rsp bd -> (forall m, manifest_of w2' (get_wbuild wg b) (disc_of w2 b) = Some m -> wf_manifest m = true /\ no_collision m m0) -> In (n, t0) (mf_ins m0 ++ mf_discovered m0 ++ mf_outs m0) -> fs_get (ws_fs w2) n <> Some t0 -> res <> DClean.
Proof. exact never_skips_changed_tree_joint. Qed.
Print Assumptions C02_never_skips_changed_tree_joint.

(* ---- A7: J1 and J3 from a start that has them ---- *)

Theorem joint_invariants_kept_reachable : forall (cf : config) (decls : list (bytes * nat)) (wg : wgraph), graph_wf (cf_graph cf) -> graphs_agree (cf_graph cf) wg -> forall (r0 : rstate) (w0 : wstate) (tr : list jitem) (r : rstate) (w : wstate), reachable cf decls r0 -> rs_ctl r0 = CIdle -> (forall b o, get_state (rs_bs r0) b = Done -> In o (wb_outs (get_wbuild wg b)) -> cache_get (ws_cache w0) o = Some (fs_get (ws_fs w0) o)) -> (forall n v, cache_get (ws_cache w0) n = Some v -> v = fs_get (ws_fs w0) n \/ exists p, producer_of wg n = Some p /\ In n (wb_outs (get_wbuild wg p)) /\ (get_state (rs_bs r0) p = Running \/ get_state (rs_bs r0) p = Failed)) -> jaccepted cf wg r0 w0 tr r w -> writes_ok wg [] tr -> (forall b o, get_state (rs_bs r) b = Done -> In o (wb_outs (get_wbuild wg b)) -> cache_get (ws_cache w) o = Some (fs_get (ws_fs w) o)) /\ (forall n v, cache_get (ws_cache w) n = Some v -> v = fs_get (ws_fs w) n \/ exists p, producer_of wg n = Some p /\ In n (wb_outs (get_wbuild wg p)) /\ (get_state (rs_bs r) p = Running \/ get_state (rs_bs r) p = Failed)).
Proof. exact invariant_kept_reachable. Qed.
Print Assumptions joint_invariants_kept_reachable.

(* both phases of an invocation that reuses its Work: the regeneration phase runs from (r0, w0) to
   a successful return (r1, w1); the main phase wants more targets in the state vector of r1 -
   steps the first phase completed stay Done - and continues with the same World state w1 *)
Theorem joint_invariants_kept_two_phases : forall (cf : config) (decls : list (bytes * nat)) (wg : wgraph), graph_wf (cf_graph cf) -> graphs_agree (cf_graph cf) wg -> forall (r0 : rstate) (w0 : wstate) (tr1 : list jitem) (r1 : rstate) (w1 : wstate) (s : bstates) (fl : option nat) (tr2 : list jitem) (r2 : rstate) (w2 : wstate), reachable cf decls r0 -> rs_ctl r0 = CIdle -> (forall b o, get_state (rs_bs r0) b = Done -> In o (wb_outs (get_wbuild wg b)) -> cache_get (ws_cache w0) o = Some (fs_get (ws_fs w0) o)) -> (forall n v, cache_get (ws_cache w0) n = Some v -> v = fs_get (ws_fs w0) n \/ exists p, producer_of wg n = Some p /\ In n (wb_outs (get_wbuild wg p)) /\ (get_state (rs_bs r0) p = Running \/ get_state (rs_bs r0) p = Failed)) -> jaccepted cf wg r0 w0 tr1 r1 w1 -> writes_ok wg [] tr1 -> rs_ctl r1 = CReturned (Some true) -> wanted (cf_graph cf) (rs_bs r1) s -> jaccepted cf wg (run_init s fl) w1 tr2 r2 w2 -> writes_ok wg [] tr2 -> (forall b, get_state (rs_bs r1) b = Done -> get_state (rs_bs (run_init s fl)) b = Done) /\ (forall b o, get_state (rs_bs r2) b = Done -> In o (wb_outs (get_wbuild wg b)) -> cache_get (ws_cache w2) o = Some (fs_get (ws_fs w2) o)) /\ (forall n v, cache_get (ws_cache w2) n = Some v -> v = fs_get (ws_fs w2) n \/ exists p, producer_of wg n = Some p /\ In n (wb_outs (get_wbuild wg p)) /\ (get_state (rs_bs r2) p = Running \/ get_state (rs_bs r2) p = Failed)).
Proof. exact invariant_kept_two_phases. Qed.
Print Assumptions joint_invariants_kept_two_phases.

(* a first phase that ran two commands and completed both steps, then the same Work reused: the
   second phase starts with both steps Done and a non-empty stat cache *)
Example joint_invariants_kept_two_phases_example : exists cf decls wg r0 w0 tr1 r1 w1 s fl tr2 r2 w2, graph_wf (cf_graph cf) /\ graphs_agree (cf_graph cf) wg /\ reachable cf decls r0 /\ rs_ctl r0 = CIdle /\ (forall b o, get_state (rs_bs r0) b = Done -> In o (wb_outs (get_wbuild wg b)) -> cache_get (ws_cache w0) o = Some (fs_get (ws_fs w0) o)) /\ (forall n v, cache_get (ws_cache w0) n = Some v -> v = fs_get (ws_fs w0) n \/ exists p, producer_of wg n = Some p /\ In n (wb_outs (get_wbuild wg p)) /\ (get_state (rs_bs r0) p = Running \/ get_state (rs_bs r0) p = Failed)) /\ jaccepted cf wg r0 w0 tr1 r1 w1 /\ writes_ok wg [] tr1 /\ rs_ctl r1 = CReturned (Some true) /\ wanted (cf_graph cf) (rs_bs r1) s /\ jaccepted cf wg (run_init s fl) w1 tr2 r2 w2 /\ writes_ok wg [] tr2 /\ get_state (rs_bs (run_init s fl)) 0 = Done /\ get_state (rs_bs (run_init s fl)) 1 = Done /\ rs_tasks_run r1 = 2 /\ ws_cache w1 <> [].
Proof. exact two_phases_example. Qed.
