(* C13 — statements only. *)
From N2 Require Import Model.All.
From N2 Require Import Proofs.CanonBase Proofs.CanonProps Proofs.CanonRefine Proofs.CanonSame.

Theorem C13_refines : forall p, canon_impl p = canon p.
Proof. exact canon_refines. Qed.
Print Assumptions C13_refines.

Theorem C13_total : forall p, p <> [] -> (length (comps p) <= 60)%nat -> exists q, canon p = Ok q.
Proof. exact canon_total. Qed.
Print Assumptions C13_total.

Theorem C13_outcomes : forall p, (exists q, canon p = Ok q) \/ canon p = Panic 0%N \/ canon p = Panic 1%N.
Proof. exact canon_outcomes. Qed.
Print Assumptions C13_outcomes.

Theorem C13_idempotent : forall p q, canon p = Ok q -> canon q = Ok q.
Proof. exact canon_idempotent. Qed.
Print Assumptions C13_idempotent.

Theorem C13_never_longer : forall p q, canon p = Ok q -> (length q <= length p)%nat.
Proof. exact canon_never_longer. Qed.
Print Assumptions C13_never_longer.

Theorem C13_sem_preserved : forall p q, canon p = Ok q -> sem q = sem p.
Proof. exact canon_sem_preserved. Qed.
Print Assumptions C13_sem_preserved.

Theorem C13_normal_form : forall p q, canon p = Ok q -> normal_form q = true.
Proof. exact canon_normal_form. Qed.
Print Assumptions C13_normal_form.

Theorem C13_same_node_partial : forall s p q p' q', uses_only s p = true -> uses_only s q = true -> canon p = Ok p' -> canon q = Ok q' -> sem p = sem q -> ends_dirlike p = ends_dirlike q -> f17_class p = false -> p' = q'.
Proof. exact canon_same_node_partial. Qed.
Print Assumptions C13_same_node_partial.

Theorem C13_same_node_refuted :
  exists s p q p' q', uses_only s p = true /\ uses_only s q = true /\ canon p = Ok p' /\ canon q = Ok q' /\
    sem p = sem q /\ ends_dirlike p = ends_dirlike q /\ p' <> q'.
Proof.
  exists 47%N, [46;46;47;97;47;46;46]%N, [46;46]%N, [46;46;47]%N, [46;46]%N.
  vm_compute. repeat split; discriminate.
Qed.
Print Assumptions C13_same_node_refuted.
