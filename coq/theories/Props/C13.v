(* C13 — statements only. *)
From N2 Require Import Model.All.

Theorem C13_same_node_refuted :
  exists s p q p' q', uses_only s p = true /\ uses_only s q = true /\ canon p = Ok p' /\ canon q = Ok q' /\
    sem p = sem q /\ ends_dirlike p = ends_dirlike q /\ p' <> q'.
Proof.
  exists 47%N, [46;46;47;97;47;46;46]%N, [46;46]%N, [46;46;47]%N, [46;46]%N.
  vm_compute. repeat split; discriminate.
Qed.
