(* C19 - the progress counters are a census of the step states.  Statements only; proofs in
   Proofs/SchedRun*.v, Proofs/SchedLive.v. *)
From N2 Require Import Model.All Proofs.SchedSpec.
From N2 Require Import Proofs.SchedRunThms Proofs.SchedRunFinal Proofs.SchedLive.

Theorem C19_update_is_census : forall cf decls, graph_wf (cf_graph cf) -> forall r c r', reachable cf decls r -> accept1 cf r (EUpdate c) = Some r' -> c = census (cf_graph cf) (rs_bs r).
Proof. exact C19_update_is_census_closed. Qed.
Print Assumptions C19_update_is_census.

Theorem C19_running : forall cf decls, graph_wf (cf_graph cf) -> forall r, reachable cf decls r -> rs_ctl r = CIdle -> k_running (bs_counts (rs_bs r)) = Z.of_nat (rs_running r).
Proof. exact C19_running_closed. Qed.
Print Assumptions C19_running.

Theorem C19_finished_monotone : forall cf decls, graph_wf (cf_graph cf) -> forall r e r', reachable cf decls r -> accept1 cf r e = Some r' -> (k_done (census (cf_graph cf) (rs_bs r)) + k_failed (census (cf_graph cf) (rs_bs r)) <= k_done (census (cf_graph cf) (rs_bs r')) + k_failed (census (cf_graph cf) (rs_bs r')))%Z.
Proof. exact C19_finished_monotone_closed. Qed.
Print Assumptions C19_finished_monotone.

Theorem C19_tasks_run : forall cf s fl tr r, accepts cf (run_init s fl) tr = Some r -> (rs_tasks_run r + pending_success (rs_ctl r))%nat = succ_finishes tr.
Proof. exact SchedRunThms.C19_tasks_run. Qed.
Print Assumptions C19_tasks_run.

Theorem C19_tasks_run_eq : forall cf s fl tr r, accepts cf (run_init s fl) tr = Some r -> (forall b x, rs_ctl r <> CFinished b TSuccess x) -> rs_tasks_run r = succ_finishes tr.
Proof. exact SchedRunThms.C19_tasks_run_eq. Qed.
Print Assumptions C19_tasks_run_eq.

Theorem C19_total : forall cf decls, graph_wf (cf_graph cf) -> forall r, reachable cf decls r -> (k_want (bs_counts (rs_bs r)) + k_ready (bs_counts (rs_bs r)) + k_queued (bs_counts (rs_bs r)) + k_running (bs_counts (rs_bs r)) + k_done (bs_counts (rs_bs r)) + k_failed (bs_counts (rs_bs r)))%Z = Z.of_nat (count_wanted_nonphony (cf_graph cf) (rs_bs r)).
Proof. exact SchedLive.C19_total. Qed.
Print Assumptions C19_total.
