(* C18 - exactly the steps needed by the requested targets get a state, and only those run.
   Statements only; proofs in Proofs/SchedWant*.v, Proofs/SchedLive.v. *)
From N2 Require Import Model.All Proofs.SchedSpec Proofs.SchedInv.
From N2 Require Import Proofs.SchedWantSpec Proofs.SchedLive.

Theorem C18_wanted_is_closure : forall g decls s l ts s' l', graph_wf g -> BInv g decls s -> want_targets g (s, l) ts = Ok (s', l') -> forall b, (b < length (g_builds g))%nat -> (get_state s' b <> Unknown <-> (get_state s b <> Unknown \/ needed g ts b)).
Proof. exact SchedWantSpec.C18_wanted_is_closure. Qed.
Print Assumptions C18_wanted_is_closure.

Theorem C18_want_named_is_closure : forall g decls manifest adopt names s l s' l', graph_wf g -> BInv g decls s -> want_named g manifest adopt names (s, l) = Ok (s', l') -> exists ts, select_named g manifest adopt names = Ok ts /\ forall b, (b < length (g_builds g))%nat -> (get_state s' b <> Unknown <-> (get_state s b <> Unknown \/ needed g ts b)).
Proof. exact SchedWantSpec.C18_want_named_is_closure. Qed.
Print Assumptions C18_want_named_is_closure.

Theorem C18_want_main_is_closure : forall g decls defaults manifest adopt names s l s' l', graph_wf g -> BInv g decls s -> want_main g defaults manifest adopt names (s, l) = Ok (s', l') -> exists ts, select_targets g defaults manifest adopt names = Ok ts /\ forall b, (b < length (g_builds g))%nat -> (get_state s' b <> Unknown <-> (get_state s b <> Unknown \/ needed g ts b)).
Proof. exact SchedWantSpec.C18_want_main_is_closure. Qed.
Print Assumptions C18_want_main_is_closure.

Theorem C18_nothing_outside_runs : forall cf decls, graph_wf (cf_graph cf) -> forall s fl tr r b, wanted (cf_graph cf) (bs_new (length (g_builds (cf_graph cf))) decls) s -> accepts cf (run_init s fl) tr = Some r -> (0 < starts_of b tr)%nat -> get_state s b <> Unknown.
Proof. exact SchedLive.C18_nothing_outside_runs. Qed.
Print Assumptions C18_nothing_outside_runs.

Theorem C18_nothing_outside_runs_reachable : forall cf decls, graph_wf (cf_graph cf) -> forall r tr r' b, reachable cf decls r -> accepts cf r tr = Some r' -> (0 < starts_of b tr)%nat -> get_state (rs_bs r) b <> Unknown.
Proof. exact SchedLive.C18_nothing_outside_runs_reachable. Qed.
Print Assumptions C18_nothing_outside_runs_reachable.

Theorem C18_wanted_set_fixed : forall cf decls, graph_wf (cf_graph cf) -> forall r tr r' b, reachable cf decls r -> accepts cf r tr = Some r' -> (get_state (rs_bs r') b <> Unknown <-> get_state (rs_bs r) b <> Unknown).
Proof. exact SchedLive.C18_wanted_set_fixed. Qed.
Print Assumptions C18_wanted_set_fixed.

Theorem C18_unknown_target_rejected : forall g manifest names ts, select_named g manifest false names = Ok ts -> forall n, In n names -> exists f, resolve_target g n = Ok (Some f).
Proof. exact SchedLive.C18_unknown_target_rejected. Qed.
Print Assumptions C18_unknown_target_rejected.

Theorem C18_unknown_target_rejected_want : forall g manifest names w w', want_named g manifest false names w = Ok w' -> forall n, In n names -> exists f, resolve_target g n = Ok (Some f).
Proof. exact SchedLive.C18_unknown_target_rejected_want. Qed.
Print Assumptions C18_unknown_target_rejected_want.
