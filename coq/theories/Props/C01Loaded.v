(* C01 ... C19, connected to the loader (audit finding A8).
   [graph_wf (cf_graph cf)] is a premise of nearly every scheduler theorem and [graphs_agree g wg]
   of every joint theorem, but neither was established for what load_manifest returns: there was
   no function from a loader to the scheduler's [graph] or the World model's [wgraph].  Here:
   [sched_graph_of] (Proofs/AuditFindings.v) and [world_graph_of] (Proofs/FixLoadSpec.v) are those
   views, and for EVERY manifest n2 accepts the first is well formed and the two agree.
   Statements only; proofs in Proofs/AuditFindings.v, Proofs/FixLoadGraph.v, Proofs/FixLoadEx.v. *)
From Coq Require Import String.
From N2 Require Import Model.All Proofs.SchedSpec Proofs.DbSpec Proofs.WorldSpec Proofs.JointSpec.
From N2 Require Import Proofs.GraphAddBuild Proofs.LoadGraphNames Proofs.FixLoadSpec.
From N2 Require Import Proofs.AuditFindings Proofs.FixLoadGraph Proofs.FixLoadEx.

Theorem C01_loaded_graph_is_wf : forall l, LInv l -> graph_wf (sched_graph_of l).
Proof. exact A8_loaded_graph_is_wf. Qed.
Print Assumptions C01_loaded_graph_is_wf.

Theorem C01_every_loaded_manifest_has_a_wf_graph : forall depth fs name text l, load_manifest true depth fs name text = Ok l -> graph_wf (sched_graph_of l).
Proof. exact A8_every_loaded_manifest_has_a_wf_graph. Qed.
Print Assumptions C01_every_loaded_manifest_has_a_wf_graph.

Theorem C01_loaded_graphs_agree : forall l, LInv l -> NamesUnique l -> graphs_agree (sched_graph_of l) (world_graph_of l).
Proof. exact loaded_graphs_agree. Qed.
Print Assumptions C01_loaded_graphs_agree.

Theorem C01_every_loaded_manifest_has_agreeing_graphs : forall depth fs name text l, load_manifest true depth fs name text = Ok l -> graph_wf (sched_graph_of l) /\ graphs_agree (sched_graph_of l) (world_graph_of l).
Proof. exact loaded_graph_ok. Qed.
Print Assumptions C01_every_loaded_manifest_has_agreeing_graphs.

(* the consumer edges in the scheduler's view are those of C14_loaded_dependents *)
Theorem C01_loaded_graph_dependents : forall depth fs name text l, load_manifest true depth fs name text = Ok l -> forall i, i < length (g_files (sched_graph_of l)) -> file_dependents (sched_graph_of l) i = dependents_from (l_builds l) 0 i.
Proof. exact loaded_graph_dependents. Qed.
Print Assumptions C01_loaded_graph_dependents.

(* how the link is used: C01_at_most_once_reachable for every manifest n2 accepts, without a
   premise about the graph *)
Theorem C01_at_most_once_loaded : forall depth fs name text l, load_manifest true depth fs name text = Ok l -> forall cf decls, cf_graph cf = sched_graph_of l -> forall r tr r' b, reachable cf decls r -> accepts cf r tr = Some r' -> (starts_of b tr <= 1)%nat.
Proof. exact at_most_once_loaded. Qed.
Print Assumptions C01_at_most_once_loaded.

Example C01_loaded_graph_example : exists l, load_manifest true 1 [] (bs "build.ninja") dx_text = Ok l /\ sched_graph_of l = mkGraph [mkBuild [1; 1; 2] 2 1 0 [3] false None; mkBuild [3; 1; 4; 3] 2 0 1 [5] false None] [mkFile (bs "build.ninja") None []; mkFile (bs "x") None [0; 0; 1]; mkFile (bs "y") None [0]; mkFile (bs "a") (Some 0) [1; 1]; mkFile (bs "z") None [1]; mkFile (bs "b") (Some 1) []] /\ world_graph_of l = mkWGraph [mkWBuild [bs "x"; bs "x"; bs "y"] 2 1 0 [bs "a"] (Some (bs "c")) None; mkWBuild [bs "a"; bs "x"; bs "z"; bs "a"] 2 0 1 [bs "b"] (Some (bs "c")) None] [(bs "a", 0); (bs "b", 1)].
Proof. exact loaded_graph_example. Qed.
