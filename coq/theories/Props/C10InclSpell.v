(* C10 for manifests WITH `include` / `subninja`: the loaded graph does not depend on the spelling
   of the manifest or of any file it reads.  Statements only.
   (Props/C10.v: one statement, parser half.  Props/C10Load.v: one file, C10_graph_spelling_independent.
    Props/C10Incl.v: the declarative semantics [run_stmts_files] / [run_file] / [run_flat] of a manifest
    with children, equal to the loader.)

   With several files the loader a file starts from is no longer a fixed one, so the result is a
   SIMULATION: related statements take related loaders to related outcomes.

   Vocabulary (Proofs/LoadInclSpellSpec.v)
     strict : bool            true: the two spellings put every `build` on the same line;
                              false: the lines of `build` statements may differ
     stmt_sim strict a b      the statements agree up to norm_eval of their eval strings (strict = false:
                              and up to pb_line);  stmts_sim: lists, the file-level variables equal;
                              strict = true: exactly [stmts_norm_eq] of the one-file proof
     graph_sim strict l1 l2   the same graph: the same file table (same ids, names, producers, dependents),
                              the same steps in order (strict = false: up to lb_line), the same defaults,
                              pools, builddir, the rule tables up to norm_eval; strict: the same warnings
     outcome_sim strict R     both Ok and related by R / both Err (strict: the same text) / both Panic,
                              OutOfBounds at the same site / both OutOfFuel
     same_decl strict a b     a = b (strict) / equal up to the lines of `build` statements
     spells_files strict fs1 fs2 reading inherited t1 t2
                              t1 and t2 spell ([spells_file_v]) abstract files that are [same_decl]; for
                              every include/subninja line that names a file not being read, the file is in
                              neither file map, or in both and the contents are again such a pair (read
                              with the variables of the line)
     child_sim                what an include line needs of two arbitrary file maps (used in _sim2)
     unline_lb / unline_view  a step / a step by name with its line set to 0 *)
From Coq Require Import String.
From N2 Require Import Model.All Proofs.EvalFiles.
From N2 Require Import Proofs.ParseSpell.
From N2 Require Import Proofs.LoadGraphSpec Proofs.LoadGraphRun Proofs.LoadGraphNorm Proofs.LoadGraphFile
     Proofs.LoadGraphNames.
From N2 Require Import Proofs.LoadInclSpec Proofs.LoadInclFlat.
From N2 Require Import Proofs.LoadInclSpellSpec Proofs.LoadInclSpellStep Proofs.LoadInclSpellRun
     Proofs.LoadInclSpellFiles Proofs.LoadInclSpellEx Proofs.LoadInclSpellEx2 Proofs.LoadInclSpellEx3.

(* ------------------------------------------------------------------------------------ *)
(* 0. the relations *)

(* strict: the relation of the one-file proof (LoadGraphNorm.v) *)
Theorem C10_stmt_sim_strict : forall a b, stmt_sim true a b <-> norm_stmt a = norm_stmt b.
Proof. exact stmt_sim_strict_iff. Qed.
Print Assumptions C10_stmt_sim_strict.

Theorem C10_stmts_norm_eq_sim : forall strict a b, stmts_norm_eq a b -> stmts_sim strict a b.
Proof. exact stmts_norm_eq_sim. Qed.
Print Assumptions C10_stmts_norm_eq_sim.

Theorem C10_stmts_sim_equiv : forall strict,
  (forall a, stmts_sim strict a a) /\
  (forall a b, stmts_sim strict a b -> stmts_sim strict b a) /\
  (forall a b c, stmts_sim strict a b -> stmts_sim strict b c -> stmts_sim strict a c).
Proof. exact stmts_sim_equiv. Qed.
Print Assumptions C10_stmts_sim_equiv.

(* related loaders are the same graph by name (the conclusion of C10_graph_spelling_independent),
   up to the lines *)
Theorem C10_graph_sim_view : forall strict l1 l2, graph_sim strict l1 l2 ->
  map (fun b => unline_view (view l1 b)) (l_builds l1) = map (fun b => unline_view (view l2 b)) (l_builds l2) /\
  l_pools l1 = l_pools l2 /\
  map (file_nm l1) (l_defaults l1) = map (file_nm l2) (l_defaults l2) /\
  l_builddir l1 = l_builddir l2.
Proof. exact graph_sim_view. Qed.
Print Assumptions C10_graph_sim_view.

Theorem C10_graph_sim_strict_view : forall l1 l2, graph_sim true l1 l2 ->
  l_builds l1 = l_builds l2 /\ l_warnings l1 = l_warnings l2 /\
  map (view l1) (l_builds l1) = map (view l2) (l_builds l2).
Proof. exact graph_sim_strict_view. Qed.
Print Assumptions C10_graph_sim_strict_view.

Theorem C10_outcome_sim_kind : forall strict (R : loader -> loader -> Prop) o1 o2,
  outcome_sim strict R o1 o2 -> outcome_kind o1 = outcome_kind o2.
Proof. exact (@outcome_sim_kind loader). Qed.
Print Assumptions C10_outcome_sim_kind.

Theorem C10_outcome_sim_strict_fail : forall (R : loader -> loader -> Prop) o1 o2,
  outcome_sim true R o1 o2 -> (forall a, o1 <> Ok a) -> o1 = o2.
Proof. exact (@outcome_sim_strict_fail loader). Qed.
Print Assumptions C10_outcome_sim_strict_fail.

(* ------------------------------------------------------------------------------------ *)
(* 1. the declarative semantics is invariant under the statement equivalence *)

(* one statement that is not an include line *)
Theorem C10_stmt_step_sim : forall strict l1 l2 filename st1 st2 vs,
  graph_sim strict l1 l2 -> stmt_sim strict st1 st2 ->
  outcome_sim strict (graph_sim strict) (stmt_step l1 filename st1 vs) (stmt_step l2 filename st2 vs).
Proof. exact stmt_step_sim. Qed.
Print Assumptions C10_stmt_step_sim.

(* an include line names the same canonical file in both *)
Theorem C10_include_path_sim : forall p1 p2 vs,
  norm_eval p1 = norm_eval p2 -> include_path p1 vs = include_path p2 vs.
Proof. exact include_path_sim. Qed.
Print Assumptions C10_include_path_sim.

(* a statement sequence with include lines, one file map: in the vocabulary of the one-file proof *)
Theorem C10_run_stmts_files_norm : forall depth fs reading filename sts1 sts2 l1 l2,
  stmts_norm_eq sts1 sts2 -> graph_sim true l1 l2 ->
  outcome_sim true (graph_sim true) (run_stmts_files depth fs reading l1 filename sts1)
                                     (run_stmts_files depth fs reading l2 filename sts2).
Proof. exact run_stmts_files_norm. Qed.
Print Assumptions C10_run_stmts_files_norm.

(* ... and up to the lines of `build` statements *)
Theorem C10_run_stmts_files_sim : forall strict depth fs reading filename sts1 sts2 l1 l2,
  stmts_sim strict sts1 sts2 -> graph_sim strict l1 l2 ->
  outcome_sim strict (graph_sim strict) (run_stmts_files depth fs reading l1 filename sts1)
                                         (run_stmts_files depth fs reading l2 filename sts2).
Proof. exact run_stmts_files_sim. Qed.
Print Assumptions C10_run_stmts_files_sim.

(* two file maps: every include line finds children that load alike *)
Theorem C10_run_stmts_files_sim2 : forall strict depth fs1 fs2 reading filename sts1 sts2 l1 l2,
  stmts_sim strict sts1 sts2 ->
  Forall (fun sv => child_sim strict (run_file depth fs1) (run_file depth fs2) fs1 fs2 reading (fst sv) (snd sv)) sts1 ->
  graph_sim strict l1 l2 ->
  outcome_sim strict (graph_sim strict) (run_stmts_files depth fs1 reading l1 filename sts1)
                                         (run_stmts_files depth fs2 reading l2 filename sts2).
Proof. exact run_stmts_files_sim2. Qed.
Print Assumptions C10_run_stmts_files_sim2.

(* a whole file, from related loaders *)
Theorem C10_run_file_graph_sim : forall strict fs depth reading l1 l2 filename text inherited,
  graph_sim strict l1 l2 ->
  outcome_sim strict (graph_sim strict) (run_file depth fs reading l1 filename text inherited)
                                         (run_file depth fs reading l2 filename text inherited).
Proof. exact run_file_graph_sim. Qed.
Print Assumptions C10_run_file_graph_sim.

(* the flat sequence *)
Theorem C10_run_flat_sim : forall strict items1 items2 l1 l2,
  Forall2 (fitem_sim strict) items1 items2 -> graph_sim strict l1 l2 ->
  outcome_sim strict (graph_sim strict) (run_flat l1 items1) (run_flat l2 items2).
Proof. exact run_flat_sim. Qed.
Print Assumptions C10_run_flat_sim.

(* ------------------------------------------------------------------------------------ *)
(* 2. two file maps that spell the same files *)

(* the parser on a spelled file read with inherited variables (C10_file_reads with [inherited]) *)
Theorem C10_spelled_file_stmts : forall inherited svs vs' text,
  spells_file_v 1 inherited svs vs' text -> ~ In 13%N text ->
  exists svs' z, file_stmts text inherited = (svs', SOk (None, vs') z) /\ stmts_norm_eq svs' svs.
Proof. exact spelled_file_stmts. Qed.
Print Assumptions C10_spelled_file_stmts.

Theorem C10_run_file_spells : forall strict fs1 fs2 depth reading inherited t1 t2 filename l1 l2,
  spells_files strict fs1 fs2 reading inherited t1 t2 -> graph_sim strict l1 l2 ->
  outcome_sim strict (graph_sim strict) (run_file depth fs1 reading l1 filename t1 inherited)
                                         (run_file depth fs2 reading l2 filename t2 inherited).
Proof. exact run_file_spells. Qed.
Print Assumptions C10_run_file_spells.

Theorem C10_load_manifest_spells : forall strict depth fs1 fs2 name t1 t2,
  spells_files strict fs1 fs2 [] [] t1 t2 ->
  outcome_sim strict (graph_sim strict) (load_manifest true depth fs1 name t1)
                                         (load_manifest true depth fs2 name t2).
Proof. exact load_manifest_spells. Qed.
Print Assumptions C10_load_manifest_spells.

(* the same abstract files, every `build` on the same line: both loads give the same graph - the
   same file table, steps, defaults, pools, builddir, warnings, hence the same steps and defaults by
   name - or both fail with the same error *)
Theorem C10_files_graph_spelling_independent : forall depth fs1 fs2 name t1 t2,
  spells_files true fs1 fs2 [] [] t1 t2 ->
  (exists l1 l2,
     load_manifest true depth fs1 name t1 = Ok l1 /\ load_manifest true depth fs2 name t2 = Ok l2 /\
     l_files l1 = l_files l2 /\ l_builds l1 = l_builds l2 /\ l_defaults l1 = l_defaults l2 /\
     norm_rules (l_rules l1) = norm_rules (l_rules l2) /\ l_pools l1 = l_pools l2 /\
     l_builddir l1 = l_builddir l2 /\ l_warnings l1 = l_warnings l2 /\
     map (view l1) (l_builds l1) = map (view l2) (l_builds l2) /\
     map (file_nm l1) (l_defaults l1) = map (file_nm l2) (l_defaults l2))
  \/
  ((forall l, load_manifest true depth fs1 name t1 <> Ok l) /\
   load_manifest true depth fs2 name t2 = load_manifest true depth fs1 name t1).
Proof. exact files_graph_spelling_independent. Qed.
Print Assumptions C10_files_graph_spelling_independent.

(* the same up to the lines of `build` statements: the same graph up to [lb_line] (and the warnings,
   which quote lines), or failures of the same kind (an error text may quote other lines) *)
Theorem C10_files_graph_spelling_independent_lines : forall depth fs1 fs2 name t1 t2,
  spells_files false fs1 fs2 [] [] t1 t2 ->
  (exists l1 l2,
     load_manifest true depth fs1 name t1 = Ok l1 /\ load_manifest true depth fs2 name t2 = Ok l2 /\
     l_files l1 = l_files l2 /\ map unline_lb (l_builds l1) = map unline_lb (l_builds l2) /\
     l_defaults l1 = l_defaults l2 /\
     norm_rules (l_rules l1) = norm_rules (l_rules l2) /\ l_pools l1 = l_pools l2 /\
     l_builddir l1 = l_builddir l2 /\
     map (fun b => unline_view (view l1 b)) (l_builds l1) = map (fun b => unline_view (view l2 b)) (l_builds l2) /\
     map (file_nm l1) (l_defaults l1) = map (file_nm l2) (l_defaults l2))
  \/
  ((forall l, load_manifest true depth fs1 name t1 <> Ok l) /\
   outcome_kind (load_manifest true depth fs2 name t2) = outcome_kind (load_manifest true depth fs1 name t1)).
Proof. exact files_graph_spelling_independent_lines. Qed.
Print Assumptions C10_files_graph_spelling_independent_lines.

(* in the form of C10_graph_spelling_independent *)
Theorem C10_files_graph_spelling_independent_ok : forall depth fs1 fs2 name t1 t2 l1 l2,
  spells_files true fs1 fs2 [] [] t1 t2 ->
  load_manifest true depth fs1 name t1 = Ok l1 -> load_manifest true depth fs2 name t2 = Ok l2 ->
  map (view l1) (l_builds l1) = map (view l2) (l_builds l2) /\
  l_pools l1 = l_pools l2 /\
  map (file_nm l1) (l_defaults l1) = map (file_nm l2) (l_defaults l2) /\
  l_builddir l1 = l_builddir l2.
Proof. exact files_graph_spelling_independent_ok. Qed.
Print Assumptions C10_files_graph_spelling_independent_ok.

Theorem C10_files_load_ok_iff : forall strict depth fs1 fs2 name t1 t2,
  spells_files strict fs1 fs2 [] [] t1 t2 ->
  ((exists l1, load_manifest true depth fs1 name t1 = Ok l1) <->
   (exists l2, load_manifest true depth fs2 name t2 = Ok l2)).
Proof. exact files_load_ok_iff. Qed.
Print Assumptions C10_files_load_ok_iff.

(* the hypothesis of C10_graph_spelling_independent is the case without include lines *)
Theorem C10_spells_files_one_file : forall strict fs1 fs2 reading inherited svs vs' t1 t2,
  spells_file_v 1 inherited svs vs' t1 -> spells_file_v 1 inherited svs vs' t2 ->
  ~ In 13%N t1 -> ~ In 13%N t2 -> no_include svs ->
  spells_files strict fs1 fs2 reading inherited t1 t2.
Proof. exact spells_files_one_file. Qed.
Print Assumptions C10_spells_files_one_file.

(* [spells_files], unfolded once *)
Theorem C10_spells_files_meaning : forall strict fs1 fs2 reading inherited t1 t2,
  spells_files strict fs1 fs2 reading inherited t1 t2 <->
  exists svs1 svs2 vs',
    spells_file_v 1 inherited svs1 vs' t1 /\ spells_file_v 1 inherited svs2 vs' t2 /\
    ~ In 13%N t1 /\ ~ In 13%N t2 /\ same_decl strict svs1 svs2 /\
    (forall st vs p path,
       In (st, vs) svs1 -> is_child_line st p -> include_path p vs = Ok path ->
       existsb (bytes_eqb path) reading = false ->
       (assoc_b path fs1 = None /\ assoc_b path fs2 = None) \/
       (exists c1 c2, assoc_b path fs1 = Some c1 /\ assoc_b path fs2 = Some c2 /\
                      spells_files strict fs1 fs2 (reading ++ [path]) vs c1 c2)).
Proof. exact spells_files_meaning. Qed.
Print Assumptions C10_spells_files_meaning.

(* ------------------------------------------------------------------------------------ *)
(* 3. three files in three spellings (LoadInclSpellEx.v, Ex2, Ex3): build.ninja includes a.ninja,
      which subninjas b.ninja.  Spelling 2: comments, blank lines, continuations, `${v}`, other
      spacing, every `build` on another line.  Spelling 3: other spacing, `${v}`, a continuation,
      every `build` on its line of spelling 1. *)

Theorem C10_example_spellings :
  ex_main1 =
    ln "rule r" (ln "  command = c.$v.$w" (ln "v = top" (ln "include a.ninja"
    (ln "build o1: r2" (ln "build o2: r" (ln "default o1" [])))))) /\
  ex_main2 =
    ln "# main manifest" (ln "" (ln "rule   r" (ln "    command = c.${v}.$" (ln "        $w"
    (ln "v = $" (ln "  top" (ln "include $" (ln "   a.ninja" (ln ""
    (ln "build o1 : r2" (ln "build $" (ln "  o2: r" (ln "# trailing comment"
    (ln "default $" (ln "  o1" (ln "" [])))))))))))))))) /\
  ex_main3 =
    ln "rule r" (ln " command=c.${v}.${w}" (ln "v=top" (ln "include   a.ninja"
    (ln "build o1 :r2" (ln "build o2:  r" (ln "default $" (ln "    o1" []))))))) /\
  ex_a1 =
    ln "v = child" (ln "w = cw" (ln "rule r2" (ln "  command = d.$v.$w" (ln "pool pl" (ln "  depth = 2"
    (ln "build p: r" (ln "subninja b.ninja" []))))))) /\
  ex_a2 =
    ln "v=child" (ln "# comment" (ln "w = c$" (ln "w" (ln "rule r2" (ln " command=d.${v}.${w}" (ln ""
    (ln "pool pl" (ln "  depth=2" (ln "build p :r" (ln "subninja  b.ninja" [])))))))))) /\
  ex_a3 =
    ln "v  =  child" (ln "w=cw" (ln "rule   r2" (ln "    command = d.${v}.${w}" (ln "pool  pl" (ln " depth=2"
    (ln "build p : r" (ln "subninja b.ninja" []))))))) /\
  ex_b1 = ln "build q: r2" [] /\
  ex_b2 = ln "" (ln "# b" (ln "build q: $" (ln " r2" []))) /\
  ex_b3 = ln "build q  :  r2" [] /\
  ex_fs1 = [(bs "a.ninja", ex_a1); (bs "b.ninja", ex_b1)] /\
  ex_fs2 = [(bs "b.ninja", ex_b2); (bs "a.ninja", ex_a2)] /\
  ex_fs3 = [(bs "a.ninja", ex_a3); (bs "b.ninja", ex_b3)].
Proof. exact ex_spellings. Qed.
Print Assumptions C10_example_spellings.

(* each text spells its abstract file; those of spelling 2 differ in the lines of `build` only *)
Theorem C10_example_spells :
  spells_file_v 1 [] (main_svs 5 6) vs_top ex_main1 /\ spells_file_v 1 [] (main_svs 11 13) vs_top ex_main2 /\
  spells_file_v 1 [] (main_svs 5 6) vs_top ex_main3 /\
  spells_file_v 1 vs_top (a_svs 7) vs_child ex_a1 /\ spells_file_v 1 vs_top (a_svs 10) vs_child ex_a2 /\
  spells_file_v 1 vs_top (a_svs 7) vs_child ex_a3 /\
  spells_file_v 1 vs_child (b_svs (bs "q") 1) vs_child ex_b1 /\
  spells_file_v 1 vs_child (b_svs (bs "q") 3) vs_child ex_b2 /\
  spells_file_v 1 vs_child (b_svs (bs "q") 1) vs_child ex_b3.
Proof. exact ex_spells_all. Qed.
Print Assumptions C10_example_spells.

(* spellings 1 and 2: the hypothesis of C10_files_graph_spelling_independent_lines *)
Theorem C10_example_spells_files : spells_files false ex_fs1 ex_fs2 [] [] ex_main1 ex_main2.
Proof. exact ex_spells_files. Qed.
Print Assumptions C10_example_spells_files.

(* its conclusion, by the theorem *)
Theorem C10_example_files_same_graph :
  exists l1 l2,
    load_manifest true 5 ex_fs1 (bs "build.ninja") ex_main1 = Ok l1 /\
    load_manifest true 5 ex_fs2 (bs "build.ninja") ex_main2 = Ok l2 /\
    l_files l1 = l_files l2 /\ map unline_lb (l_builds l1) = map unline_lb (l_builds l2) /\
    l_defaults l1 = l_defaults l2 /\ l_pools l1 = l_pools l2 /\ l_builddir l1 = l_builddir l2 /\
    map (fun b => unline_view (view l1 b)) (l_builds l1) = map (fun b => unline_view (view l2 b)) (l_builds l2).
Proof. exact ex_files_same_graph. Qed.
Print Assumptions C10_example_files_same_graph.

(* ... and by running the two loads *)
Theorem C10_example_files_run :
  exists l1 l2,
    load_manifest true 5 ex_fs1 (bs "build.ninja") ex_main1 = Ok l1 /\
    load_manifest true 5 ex_fs2 (bs "build.ninja") ex_main2 = Ok l2 /\
    map lf_name (l_files l1) = [bs "build.ninja"; bs "a.ninja"; bs "p"; bs "b.ninja"; bs "q"; bs "o1"; bs "o2"] /\
    l_files l1 = l_files l2 /\
    map (fun b => (lb_file b, lb_line b, lb_cmdline b)) (l_builds l1) =
      [ (bs "a.ninja", 7%Z, Some (bs "c.child.cw")); (bs "b.ninja", 1%Z, Some (bs "d.child.cw"));
        (bs "build.ninja", 5%Z, Some (bs "d.top.")); (bs "build.ninja", 6%Z, Some (bs "c.top.")) ] /\
    map (fun b => (lb_file b, lb_line b, lb_cmdline b)) (l_builds l2) =
      [ (bs "a.ninja", 10%Z, Some (bs "c.child.cw")); (bs "b.ninja", 3%Z, Some (bs "d.child.cw"));
        (bs "build.ninja", 11%Z, Some (bs "d.top.")); (bs "build.ninja", 13%Z, Some (bs "c.top.")) ] /\
    map unline_lb (l_builds l1) = map unline_lb (l_builds l2) /\
    map (fun b => unline_view (view l1 b)) (l_builds l1) = map (fun b => unline_view (view l2 b)) (l_builds l2) /\
    l_pools l1 = [(bs "pl", 2%N)] /\ l_pools l2 = l_pools l1 /\
    map (file_nm l1) (l_defaults l1) = [bs "o1"] /\ l_defaults l2 = l_defaults l1 /\
    l_builddir l1 = l_builddir l2 /\
    l_rules l1 <> l_rules l2 /\ norm_rules (l_rules l1) = norm_rules (l_rules l2).
Proof. exact ex_files_run. Qed.
Print Assumptions C10_example_files_run.

(* the failure leg: b.ninja missing from both file maps *)
Theorem C10_example_fail_missing :
  spells_files false [(bs "a.ninja", ex_a1)] [(bs "a.ninja", ex_a2)] [] [] ex_main1 ex_main2 /\
  load_manifest true 5 [(bs "a.ninja", ex_a1)] (bs "build.ninja") ex_main1 =
    Err (bs "read b.ninja: No such file or directory (os error 2)") /\
  load_manifest true 5 [(bs "a.ninja", ex_a2)] (bs "build.ninja") ex_main2 =
    Err (bs "read b.ninja: No such file or directory (os error 2)").
Proof. exact ex_fail_missing. Qed.
Print Assumptions C10_example_fail_missing.

(* a failure whose text quotes lines (b.ninja declares the output p of a.ninja again): spellings 1
   and 2 fail alike with another text - why the _lines theorem only gives the kind *)
Theorem C10_example_fail_lines :
  spells_files false [(bs "a.ninja", ex_a1); (bs "b.ninja", b1_of (bs "p"))]
                     [(bs "a.ninja", ex_a2); (bs "b.ninja", b2_of (bs "p"))] [] [] ex_main1 ex_main2 /\
  load_manifest true 5 [(bs "a.ninja", ex_a1); (bs "b.ninja", b1_of (bs "p"))] (bs "build.ninja") ex_main1 =
    Err (bs "b.ninja:1: ""p"" is already an output at a.ninja:7") /\
  load_manifest true 5 [(bs "a.ninja", ex_a2); (bs "b.ninja", b2_of (bs "p"))] (bs "build.ninja") ex_main2 =
    Err (bs "b.ninja:3: ""p"" is already an output at a.ninja:10").
Proof. exact ex_fail_lines. Qed.
Print Assumptions C10_example_fail_lines.

(* spellings 1 and 3: the hypothesis of C10_files_graph_spelling_independent, and its conclusion *)
Theorem C10_example_strict_spells_files : spells_files true ex_fs1 ex_fs3 [] [] ex_main1 ex_main3.
Proof. exact ex3_spells_files. Qed.
Print Assumptions C10_example_strict_spells_files.

Theorem C10_example_strict_same_graph :
  exists l1 l3,
    load_manifest true 5 ex_fs1 (bs "build.ninja") ex_main1 = Ok l1 /\
    load_manifest true 5 ex_fs3 (bs "build.ninja") ex_main3 = Ok l3 /\
    l_files l1 = l_files l3 /\ l_builds l1 = l_builds l3 /\ l_defaults l1 = l_defaults l3 /\
    l_pools l1 = l_pools l3 /\ l_builddir l1 = l_builddir l3 /\ l_warnings l1 = l_warnings l3 /\
    map (view l1) (l_builds l1) = map (view l3) (l_builds l3).
Proof. exact ex3_files_same_graph. Qed.
Print Assumptions C10_example_strict_same_graph.

(* ... the failure that quotes lines, spellings 1 and 3: the same text *)
Theorem C10_example_strict_fail_lines :
  spells_files true [(bs "a.ninja", ex_a1); (bs "b.ninja", b1_of (bs "p"))]
                    [(bs "a.ninja", ex_a3); (bs "b.ninja", b3_of (bs "p"))] [] [] ex_main1 ex_main3 /\
  load_manifest true 5 [(bs "a.ninja", ex_a3); (bs "b.ninja", b3_of (bs "p"))] (bs "build.ninja") ex_main3 =
  load_manifest true 5 [(bs "a.ninja", ex_a1); (bs "b.ninja", b1_of (bs "p"))] (bs "build.ninja") ex_main1 /\
  load_manifest true 5 [(bs "a.ninja", ex_a3); (bs "b.ninja", b3_of (bs "p"))] (bs "build.ninja") ex_main3 =
    Err (bs "b.ninja:1: ""p"" is already an output at a.ninja:7").
Proof. exact ex3_fail_lines. Qed.
Print Assumptions C10_example_strict_fail_lines.
