(* C06 - the want traversal terminates, reports only real cycles, and the run loop never
   deadlocks.  Statements only; proofs in Proofs/SchedWant*.v, Proofs/SchedLive.v. *)
From N2 Require Import Model.All Proofs.SchedSpec Proofs.SchedInv.
From N2 Require Import Proofs.SchedWantFuel Proofs.SchedWantCycle Proofs.SchedRunFinal Proofs.SchedLive.

Theorem C06_want_terminates : forall g decls s, graph_wf g -> BInv g decls s -> forall f l, want_file (want_fuel g) g (s, l) [] f <> OutOfFuel.
Proof. exact SchedWantFuel.C06_want_terminates. Qed.
Print Assumptions C06_want_terminates.

Theorem C06_want_main_terminates : forall g decls s, graph_wf g -> BInv g decls s -> forall defaults manifest adopt names l, want_main g defaults manifest adopt names (s, l) <> OutOfFuel.
Proof. exact SchedWantFuel.C06_want_main_terminates. Qed.
Print Assumptions C06_want_main_terminates.

Theorem C06_cycle_message_is_cycle : forall g decls s l f m, graph_wf g -> BInv g decls s -> want_file (want_fuel g) g (s, l) [] f = Err m -> exists cyc x, m = cycle_message g cyc x /\ cyc <> [] /\ hd x cyc = x /\ ord_chain g (cyc ++ [x]).
Proof. exact SchedWantCycle.C06_cycle_message_is_cycle. Qed.
Print Assumptions C06_cycle_message_is_cycle.

Theorem C06_ok_acyclic : forall g decls s s', graph_wf g -> BInv g decls s -> acyclic_wanted g s -> wanted g s s' -> acyclic_wanted g s'.
Proof. exact SchedWantCycle.C06_ok_acyclic. Qed.
Print Assumptions C06_ok_acyclic.

Theorem C06_all_done_on_success : forall cf decls, graph_wf (cf_graph cf) -> forall r r', reachable cf decls r -> accept1 cf r (EReturn (Some true)) = Some r' -> forall b, get_state (rs_bs r) b <> Unknown -> (b < length (g_builds (cf_graph cf)))%nat -> get_state (rs_bs r) b = Done.
Proof. exact C05_exit_status_closed. Qed.
Print Assumptions C06_all_done_on_success.

Theorem C06_reachable_acyclic : forall cf decls, graph_wf (cf_graph cf) -> forall r, reachable cf decls r -> acyclic_wanted (cf_graph cf) (rs_bs r).
Proof. exact reachable_acyclic. Qed.
Print Assumptions C06_reachable_acyclic.

Theorem C06_progress : forall cf decls, graph_wf (cf_graph cf) -> forall r, (1 <= cf_parallelism cf)%nat -> reachable cf decls r -> rs_ctl r = CIdle -> (0 < bs_pending (rs_bs r))%Z -> rs_running r = 0%nat -> rs_failed r = 0%nat -> bs_ready (rs_bs r) <> [] \/ some_startable (rs_bs r) = true \/ some_promotable (cf_graph cf) (rs_bs r) = true.
Proof. exact SchedLive.C06_progress. Qed.
Print Assumptions C06_progress.

Theorem C06_no_deadlock : forall cf decls r n, (1 <= cf_parallelism cf)%nat -> reachable cf decls r -> rs_ctl r = CIdle -> (0 < bs_pending (rs_bs r))%Z -> rs_running r = 0%nat -> rs_failed r = 0%nat -> accept1 cf r (EQuiesce n) = None.
Proof. exact SchedLive.C06_no_deadlock. Qed.
Print Assumptions C06_no_deadlock.

Theorem C06_no_bug_panic : forall cf decls, graph_wf (cf_graph cf) -> forall r, (1 <= cf_parallelism cf)%nat -> reachable cf decls r -> rs_ctl r = CIdle -> (0 < bs_pending (rs_bs r))%Z -> rs_running r = 0%nat -> rs_failed r = 0%nat -> exists e r', accept1 cf r e = Some r' /\ exists b, e = EPopReady b \/ e = ESet b Queued Running \/ e = ESet b Want Ready.
Proof. exact SchedLive.C06_no_bug_panic. Qed.
Print Assumptions C06_no_bug_panic.

(* In the witness, step b has a validation input f produced by step v; b runs to completion while
   v is still Ready and has never been started. *)
Theorem C06_never_waits_for_validation : exists cf decls s log tr r b v f, graph_wf (cf_graph cf) /\ want_targets (cf_graph cf) (bs_new (length (g_builds (cf_graph cf))) decls, []) [1%nat] = Ok (s, log) /\ accepts cf (run_init s None) tr = Some r /\ In f (validation_ins (get_build (cf_graph cf) b)) /\ file_input (cf_graph cf) f = Some v /\ get_state (rs_bs r) b = Done /\ get_state (rs_bs r) v = Ready /\ starts_of v tr = 0%nat.
Proof. exact validation_imposes_no_order_done. Qed.
Print Assumptions C06_never_waits_for_validation.
