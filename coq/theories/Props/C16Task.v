(* C16 / C09 / C15, the composition around one command execution: task::run_task and
   task::read_depfile (Model/Task.v).  The command is an oracle (the pieces in which its output
   was read from the pipe, and how it ended); what n2 makes of it is proved for every such run:
   - every byte of the output is kept, in order, whatever the chunking (C16);
   - with `deps = msvc` the notes are taken out of the output and become the discovered
     dependencies whether the command succeeded or not (C09);
   - a depfile is read only after success, a missing one counts as empty, a malformed one fails
     the step with a parse error naming that depfile, and what is read does not depend on the
     file's name (C15);
   - the "last line" shown under a running command is find_last_line of what was read so far and
     never contains a line break (C20);
   - run_task itself never panics.
   Statements only; proofs in Proofs/TaskProofs.v. *)
From Coq Require Import String.
From N2 Require Import Model.All Model.Task.
From N2 Require Import Proofs.ParseSpec Proofs.TaskProofs.

Theorem C16_run_task_total : forall showinc depfile run, (exists r, run_task showinc depfile run = Ok r) \/ (exists txt, run_task showinc depfile run = Err txt).
Proof. exact run_task_total. Qed.
Print Assumptions C16_run_task_total.

Theorem C16_run_task_failure : forall showinc depfile run, cr_term run <> 0%N -> run_task showinc depfile run = Ok (mkTR (cr_term run) (if showinc then snd (extract_showincludes (concat (cr_chunks run))) else concat (cr_chunks run)) (if showinc then Some (fst (extract_showincludes (concat (cr_chunks run)))) else None), last_lines [] (cr_chunks run)).
Proof. exact run_task_failure. Qed.
Print Assumptions C16_run_task_failure.

Theorem C16_run_task_success_no_depfile : forall showinc run, cr_term run = 0%N -> run_task showinc None run = Ok (mkTR 0%N (if showinc then snd (extract_showincludes (concat (cr_chunks run))) else concat (cr_chunks run)) (if showinc then Some (fst (extract_showincludes (concat (cr_chunks run)))) else None), last_lines [] (cr_chunks run)).
Proof. exact run_task_success_nodepfile. Qed.
Print Assumptions C16_run_task_success_no_depfile.

Theorem C15_run_task_success_depfile : forall showinc path file run, cr_term run = 0%N -> run_task showinc (Some (path, file)) run = match read_depfile path file with Ok d => Ok (mkTR 0%N (if showinc then snd (extract_showincludes (concat (cr_chunks run))) else concat (cr_chunks run)) (Some d), last_lines [] (cr_chunks run)) | Err e => Err e | Panic s => Panic s | OutOfBounds s => OutOfBounds s | OutOfFuel => OutOfFuel end.
Proof. exact run_task_success_depfile. Qed.
Print Assumptions C15_run_task_success_depfile.

Theorem C15_read_depfile_missing_is_empty : forall path, read_depfile path None = Ok [].
Proof. exact read_depfile_missing. Qed.
Print Assumptions C15_read_depfile_missing_is_empty.

Theorem C15_read_depfile_name_independent : forall path t deps, read_depfile path (Some t) = Ok deps <-> depfile_deps t = Ok deps.
Proof. exact read_depfile_ok_iff. Qed.
Print Assumptions C15_read_depfile_name_independent.

Theorem C15_run_task_error_names_depfile : forall showinc depfile run txt, run_task showinc depfile run = Err txt -> cr_term run = 0%N /\ exists path t msg lno ctx pad, depfile = Some (path, Some t) /\ 1 <= lno /\ txt = error_text path msg lno ctx pad /\ exists e, depfile_parse t = Err e.
Proof. exact run_task_error_text. Qed.
Print Assumptions C15_run_task_error_names_depfile.

Theorem C20_last_line_callbacks : forall chunks i, i < length chunks -> nth_error (last_lines [] chunks) i = Some (find_last_line (concat (firstn (S i) chunks))).
Proof. intros chunks i H. exact (last_lines_nth chunks [] i H). Qed.
Print Assumptions C20_last_line_callbacks.

Theorem C20_last_line_has_no_line_break : forall buf, forallb (fun c => negb (is_nl c)) (find_last_line buf) = true.
Proof. exact find_last_line_no_nl. Qed.
Print Assumptions C20_last_line_has_no_line_break.

(* the worker thread's glue (task::Runner::start): "malformed content fails that step with a parse
   error naming the depfile" - the successful command becomes a failed task whose output is that
   error, with nothing reported as discovered *)
Theorem C15_malformed_depfile_fails_the_step : forall showinc path t run e, cr_term run = 0%N -> depfile_parse t = Err e -> exists msg lno ctx pad, 1 <= lno /\ worker_result showinc (Some (path, Some t)) run = Ok (mkTR 1%N (error_text path msg lno ctx pad ++ [10%N]) None).
Proof. exact worker_malformed_depfile_fails_step. Qed.
Print Assumptions C15_malformed_depfile_fails_the_step.

Theorem C16_worker_result_total : forall showinc depfile run, exists r, worker_result showinc depfile run = Ok r.
Proof. exact worker_result_total. Qed.
Print Assumptions C16_worker_result_total.

(* a run that exercises every clause at once: notes in two chunks torn inside a line, a failing
   command (the depfile is ignored), then the same output from a successful command with a depfile *)
Example C16_run_task_example : let chunks := [bs "Note: including f"; bs "ile: a.h" ++ [10%N] ++ bs "warn"; bs "ing" ++ [10%N]] in run_task true (Some (bs "o.d", Some (bs "o: b.h c.h"))) (mkRun chunks 1%N) = Ok (mkTR 1%N (bs "warning" ++ [10%N]) (Some [bs "a.h"]), [bs "Note: including f"; bs "warn"; bs "warning"]) /\ run_task true (Some (bs "o.d", Some (bs "o: b.h c.h"))) (mkRun chunks 0%N) = Ok (mkTR 0%N (bs "warning" ++ [10%N]) (Some [bs "b.h"; bs "c.h"]), [bs "Note: including f"; bs "warn"; bs "warning"]) /\ run_task false (Some (bs "o.d", None)) (mkRun chunks 0%N) = Ok (mkTR 0%N (concat chunks) (Some []), [bs "Note: including f"; bs "warn"; bs "warning"]) /\ exists txt, run_task false (Some (bs "o.d", Some (bs "o b.h"))) (mkRun chunks 0%N) = Err txt.
Proof. cbv zeta. repeat split; try (vm_compute; reflexivity). eexists. vm_compute. reflexivity. Qed.
