(* C03 - statements only (proofs pending). *)
From N2 Require Import Model.All.
