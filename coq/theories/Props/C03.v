(* C03 - unchanged steps are not re-run: statements only; proofs in Proofs/World*.v *)
From Coq Require Import String.
From N2 Require Import Model.All Proofs.DbSpec Proofs.WorldSpec.
From N2 Require Import Proofs.WorldBase Proofs.WorldDeps Proofs.WorldDirty Proofs.WorldLocal Proofs.WorldLog.

Theorem C03_runs_only_if_changed : forall g w b bd w' why, check_build_dirty g w b bd = (w', DDirty why) -> (why = 1%N /\ exists n, In n (wb_dirtying bd ++ disc_of w b ++ wb_outs bd) /\ cache_get (ws_cache w') n = Some None /\ (cache_get (ws_cache w) n = Some None \/ fs_get (ws_fs w) n = None)) \/ (why = 2%N /\ assoc_nat b (ws_hashes w) = None) \/ (why = 3%N /\ exists m prev, manifest_of w' bd (disc_of w b) = Some m /\ assoc_nat b (ws_hashes w) = Some prev /\ hash_build m <> prev).
Proof. exact runs_only_if_changed. Qed.
Print Assumptions C03_runs_only_if_changed.

Theorem C03_phony_never_dirty : forall g w b bd, wb_cmdline bd = None -> snd (check_build_dirty g w b bd) = DClean.
Proof. exact phony_never_dirty. Qed.
Print Assumptions C03_phony_never_dirty.

Theorem C03_manifest_ignores_order_only : forall g w b bd bd', same_manifest_parts bd bd' -> check_build_dirty g w b bd = check_build_dirty g w b bd' /\ forall w0 d, manifest_of w0 bd d = manifest_of w0 bd' d.
Proof. exact verdict_ignores_order_only. Qed.
Print Assumptions C03_manifest_ignores_order_only.

Theorem C03_verdict_graph_local : forall g1 g2 w b bd, (forall n, In n (wb_dirtying bd ++ disc_of w b) -> (producer_of g1 n = None <-> producer_of g2 n = None)) -> check_build_dirty g1 w b bd = check_build_dirty g2 w b bd.
Proof. exact verdict_graph_local. Qed.
Print Assumptions C03_verdict_graph_local.

Theorem C03_clean_after_record : forall g w b bd reported w1 h w2, record_finished w b bd reported = Ok (w1, Some h) -> wb_cmdline bd <> None -> ws_fs w2 = ws_fs w1 -> cache_consistent w2 -> assoc_nat b (ws_hashes w2) = Some h -> disc_of w2 b = disc_of w1 b -> stated_generated g w2 (wb_dirtying bd ++ disc_of w1 b) -> snd (check_build_dirty g w2 b bd) = DClean.
Proof. exact clean_after_record. Qed.
Print Assumptions C03_clean_after_record.

Theorem C03_adopt_counts_as_up_to_date : forall g w b bd w1 h w2, record_finished w b bd None = Ok (w1, Some h) -> wb_cmdline bd <> None -> ws_fs w2 = ws_fs w1 -> cache_consistent w2 -> assoc_nat b (ws_hashes w2) = Some h -> disc_of w2 b = disc_of w1 b -> stated_generated g w2 (wb_dirtying bd ++ disc_of w1 b) -> snd (check_build_dirty g w2 b bd) = DClean /\ disc_of w1 b = [].
Proof. exact adopt_counts_as_up_to_date. Qed.
Print Assumptions C03_adopt_counts_as_up_to_date.

Theorem C03_unchanged_upstream_output : forall g w w' b bd, disc_of w b = disc_of w' b -> assoc_nat b (ws_hashes w) = assoc_nat b (ws_hashes w') -> (forall n, In n (wb_dirtying bd ++ disc_of w b ++ wb_outs bd) -> cache_get (ws_cache w) n = cache_get (ws_cache w') n /\ fs_get (ws_fs w) n = fs_get (ws_fs w') n) -> snd (check_build_dirty g w b bd) = snd (check_build_dirty g w' b bd).
Proof. exact unchanged_upstream_output. Qed.
Print Assumptions C03_unchanged_upstream_output.

Theorem C03_unchanged_upstream_output_fresh : forall g w w' b bd, ws_cache w = [] -> ws_cache w' = [] -> disc_of w b = disc_of w' b -> assoc_nat b (ws_hashes w) = assoc_nat b (ws_hashes w') -> (forall n, In n (wb_dirtying bd ++ disc_of w b ++ wb_outs bd) -> fs_get (ws_fs w) n = fs_get (ws_fs w') n) -> snd (check_build_dirty g w b bd) = snd (check_build_dirty g w' b bd).
Proof. exact unchanged_upstream_output_fresh. Qed.
Print Assumptions C03_unchanged_upstream_output_fresh.

Theorem C03_null_build_after_reload : forall g w ws b bd reported w1 h, log_is w ws -> record_finished w b bd reported = Ok (w1, Some h) -> Forall in_bounds (ws ++ [wr_of bd (disc_of w1 b) h]) -> table_small (ws ++ [wr_of bd (disc_of w1 b) h]) -> wb_cmdline bd <> None -> wb_outs bd <> [] -> (forall o, In o (wb_outs bd) -> producer_of g o = Some b) -> (forall n, In n (wb_dirtying bd ++ disc_of w1 b) -> producer_of g n = None) -> exists wL, load_state g (ws_fs w1) (ws_log w1) = Ok wL /\ snd (check_build_dirty g wL b bd) = DClean.
Proof. exact null_build_after_reload. Qed.
Print Assumptions C03_null_build_after_reload.
