(* C10, LOADER half (statements -> graph): every one-file manifest loads into a graph with exactly
   the declared steps, each path in its declared role and order, and the declared command,
   description, depfile, deps, rspfile and pool of each step.  Statements only; to be merged into
   Props/C10.v.  (include/subninja are outside: every theorem assumes [no_include].)

   Vocabulary
     LoadGraphSpec.v   stmt_step / run_stmts l filename sts    the declarative semantics of a sequence of
                                          (statement, file-level variables in force) pairs
                       reads_to buf s vs sts r   the loader's Parser::read calls from scanner s return the
                                          statements sts (each with the variables that came back with
                                          it), then the result r that is not a statement
                       reads buf s vs sts vs'    ... and r is the end of the file with variables vs'
                       finish buf filename l r   what the loader does with r (builddir / parse error)
                       builds_wf sts             explicit_outs <= |outs| in every build (true of parser output)
     LoadGraphBuild.v  NamesExt l l'             l' has the files of l, same ids same names, then more
                       names_at l envs p id      canon (evaluate envs p) = Ok (file_nm l id)
                       ids_in l ids              the ids are files of l
                       build_ok l filename pb vs rules b     step b is what `build` pb declares (see there)
     LoadGraphRun.v    rules_of / pools_of / build_items / default_items / count_builds / last_rule
                       item_ok l filename (pb, vs, rules) b := build_ok ...;  default_ok l (p, vs) id
     LoadGraphNorm.v   stmts_norm_eq, norm_rules: statements / rule tables up to norm_eval (ParseSpell.v)
     LoadGraphFile.v   loader_start c (the loader load_manifest starts from), spells_file_v (spells_file
                       with the variables in force written next to every statement)
     LoadGraphNames.v  NamesUnique l, step_view / view l b (a step by NAME), decl_view filename pb vs rules
                       (the view a `build` statement declares - a function of the declaration alone)
     LoadGraphView.v   item_view, default_name *)
From Coq Require Import String.
From N2 Require Import Model.All Proofs.EvalScope Proofs.GraphDedup Proofs.GraphAddBuild Proofs.GraphLoad.
From N2 Require Import Proofs.ParseSpell.
From N2 Require Import Proofs.LoadGraphSpec Proofs.LoadGraphBuild Proofs.LoadGraphRun Proofs.LoadGraphNorm
     Proofs.LoadGraphFile Proofs.LoadGraphNames Proofs.LoadGraphView Proofs.LoadGraphEx.

(* ------------------------------------------------------------------------------------ *)
(* L1: the imperative loader is a fold of the per-statement semantics *)

(* every text has its reads; they are unique *)
Theorem C10_reads_exist : forall text vs,
  exists sts r, reads_to (text ++ [0%N]) (mkScanner (text ++ [0%N]) 0 1) vs sts r.
Proof. exact reads_exist. Qed.
Print Assumptions C10_reads_exist.

Theorem C10_reads_deterministic : forall buf s vs sts r, reads_to buf s vs sts r ->
  forall sts' r', reads_to buf s vs sts' r' -> sts' = sts /\ r' = r.
Proof. exact reads_to_fun. Qed.
Print Assumptions C10_reads_deterministic.

Theorem C10_reads_builds_wf : forall buf s vs sts r, reads_to buf s vs sts r -> builds_wf sts.
Proof. exact reads_to_builds_wf. Qed.
Print Assumptions C10_reads_builds_wf.

(* whatever the reads end with (end of file, parse error): errors propagate identically *)
Theorem C10_parse_file_is_run_stmts_gen : forall depth fs l filename text inherited sts r,
  reads_to (text ++ [0%N]) (mkScanner (text ++ [0%N]) 0 1) inherited sts r -> no_include sts ->
  parse_file true (S depth) fs l filename text inherited =
  do l' <- run_stmts l filename sts; finish (text ++ [0%N]) filename l' r.
Proof. exact parse_file_is_run_stmts_gen. Qed.
Print Assumptions C10_parse_file_is_run_stmts_gen.

Theorem C10_parse_file_is_run_stmts : forall depth fs l filename text inherited sts vs_final,
  reads (text ++ [0%N]) (mkScanner (text ++ [0%N]) 0 1) inherited sts vs_final -> no_include sts ->
  parse_file true (S depth) fs l filename text inherited =
  do l' <- run_stmts l filename sts; Ok (with_builddir l' (assoc_b (bs "builddir") vs_final)).
Proof. exact parse_file_is_run_stmts. Qed.
Print Assumptions C10_parse_file_is_run_stmts.

Theorem C10_load_manifest_reads : forall depth fs name text sts r,
  reads_to (text ++ [0%N]) (mkScanner (text ++ [0%N]) 0 1) [] sts r -> no_include sts ->
  load_manifest true (S depth) fs name text =
  do c <- canon name;
  do l' <- run_stmts (loader_start c) name sts;
  finish (text ++ [0%N]) name l' r.
Proof. exact load_manifest_reads. Qed.
Print Assumptions C10_load_manifest_reads.

(* ------------------------------------------------------------------------------------ *)
(* L2 for one statement: Loader::add_build *)

Theorem C10_add_build_spec : forall l filename vs pb l',
  LInv l -> pb_explicit_outs pb <= length (pb_outs pb) ->
  loader_add_build true l filename vs pb = Ok l' ->
  LInv l' /\ NamesExt l l' /\
  l_rules l' = l_rules l /\ l_pools l' = l_pools l /\ l_defaults l' = l_defaults l /\
  l_builddir l' = l_builddir l /\
  exists b, l_builds l' = l_builds l ++ [b] /\ build_ok l' filename pb vs (l_rules l) b.
Proof. exact add_build_spec. Qed.
Print Assumptions C10_add_build_spec.

(* [build_ok], spelled out *)
Theorem C10_build_ok_meaning : forall l filename pb vs rules b,
  build_ok l filename pb vs rules b <->
  (lb_file b = filename /\ lb_line b = pb_line pb /\
   lb_explicit_ins b = pb_explicit_ins pb /\ lb_implicit_ins b = pb_implicit_ins pb /\
   lb_order_only_ins b = pb_order_only_ins pb /\
   Forall2 (fun p id => canon (evaluate [pb_vars pb; vars_env vs] p) = Ok (file_nm l id)) (pb_ins pb) (lb_ins b) /\
   Forall (fun id => id < length (l_files l)) (lb_ins b) /\
   exists outs rule,
     Forall2 (fun p id => canon (evaluate [pb_vars pb; vars_env vs] p) = Ok (file_nm l id)) (pb_outs pb) outs /\
     Forall (fun id => id < length (l_files l)) outs /\
     lb_outs b = dedup outs /\
     lb_explicit_outs b = length (dedup (firstn (pb_explicit_outs pb) outs)) /\
     assoc_b (pb_rule pb) rules = Some rule /\
     lb_cmdline b = attr_lookup (pb_vars pb) rule (implicit_env l pb (lb_ins b) outs) (vars_env vs) (bs "command") /\
     lb_desc b = attr_lookup (pb_vars pb) rule (implicit_env l pb (lb_ins b) outs) (vars_env vs) (bs "description") /\
     lb_depfile b = attr_lookup (pb_vars pb) rule (implicit_env l pb (lb_ins b) outs) (vars_env vs) (bs "depfile") /\
     lb_pool b = attr_lookup (pb_vars pb) rule (implicit_env l pb (lb_ins b) outs) (vars_env vs) (bs "pool") /\
     lb_rspfile b =
       match attr_lookup (pb_vars pb) rule (implicit_env l pb (lb_ins b) outs) (vars_env vs) (bs "rspfile"),
             attr_lookup (pb_vars pb) rule (implicit_env l pb (lb_ins b) outs) (vars_env vs) (bs "rspfile_content") with
       | Some p, Some c => Some (p, c)
       | _, _ => None
       end /\
     lb_showincludes b =
       match attr_lookup (pb_vars pb) rule (implicit_env l pb (lb_ins b) outs) (vars_env vs) (bs "deps") with
       | Some d => bytes_eqb d (bs "msvc")
       | None => false
       end /\
     lb_hide_success b =
       is_some (attr_lookup (pb_vars pb) rule (implicit_env l pb (lb_ins b) outs) (vars_env vs) (bs "hide_success")) /\
     lb_hide_progress b =
       is_some (attr_lookup (pb_vars pb) rule (implicit_env l pb (lb_ins b) outs) (vars_env vs) (bs "hide_progress"))).
Proof. exact build_ok_meaning. Qed.
Print Assumptions C10_build_ok_meaning.

(* file ids keep their names, so a step's description stays true in every later loader *)
Theorem C10_build_ok_stable : forall l l' filename pb vs rules b,
  NamesExt l l' -> build_ok l filename pb vs rules b -> build_ok l' filename pb vs rules b.
Proof. exact build_ok_mono. Qed.
Print Assumptions C10_build_ok_stable.

Theorem C10_names_stable : forall l l' j, NamesExt l l' -> j < length (l_files l) -> file_nm l' j = file_nm l j.
Proof. exact NamesExt_file_nm. Qed.
Print Assumptions C10_names_stable.

(* ------------------------------------------------------------------------------------ *)
(* L2 + L3 for a statement sequence *)

Theorem C10_run_stmts_spec : forall filename sts l0 l,
  LInv l0 -> builds_wf sts -> run_stmts l0 filename sts = Ok l ->
  LInv l /\ NamesExt l0 l /\
  (exists bs, l_builds l = l_builds l0 ++ bs /\
              Forall2 (item_ok l filename) (build_items (l_rules l0) sts) bs) /\
  l_rules l = rules_of (l_rules l0) sts /\
  l_pools l = pools_of (l_pools l0) sts /\
  (exists ids, l_defaults l = l_defaults l0 ++ ids /\
               Forall2 (default_ok l) (default_items sts) ids /\ ids_in l ids) /\
  l_builddir l = l_builddir l0.
Proof. exact run_stmts_spec. Qed.
Print Assumptions C10_run_stmts_spec.

Theorem C10_one_build_per_statement : forall filename sts l0 l,
  LInv l0 -> builds_wf sts -> run_stmts l0 filename sts = Ok l ->
  exists bs, l_builds l = l_builds l0 ++ bs /\ length bs = count_builds sts /\
             Forall2 (item_ok l filename) (build_items (l_rules l0) sts) bs.
Proof. exact one_build_per_statement. Qed.
Print Assumptions C10_one_build_per_statement.

Theorem C10_pools_defaults : forall filename sts l0 l,
  LInv l0 -> builds_wf sts -> run_stmts l0 filename sts = Ok l ->
  l_pools l = pools_of (l_pools l0) sts /\ l_rules l = rules_of (l_rules l0) sts /\
  exists ids, l_defaults l = l_defaults l0 ++ ids /\ Forall2 (default_ok l) (default_items sts) ids.
Proof. exact pools_defaults. Qed.
Print Assumptions C10_pools_defaults.

(* the k-th item is the k-th `build` statement with the rules declared in front of it; a rule
   name stands for the latest `rule` statement of that name *)
Theorem C10_build_items_nth : forall sts rules k pb vs rules',
  nth_error (build_items rules sts) k = Some (pb, vs, rules') ->
  exists pre post, sts = pre ++ (SBuild pb, vs) :: post /\ count_builds pre = k /\
                   rules' = rules_of rules pre.
Proof. exact build_items_nth. Qed.
Print Assumptions C10_build_items_nth.

Theorem C10_latest_rule : forall name sts rules,
  assoc_b name (rules_of rules sts) =
  match last_rule name sts with Some rv => Some rv | None => assoc_b name rules end.
Proof. exact assoc_rules_of. Qed.
Print Assumptions C10_latest_rule.

(* ------------------------------------------------------------------------------------ *)
(* by name: the view of a step is a function of the declaration *)

Theorem C10_build_ok_view : forall l filename pb vs rules b,
  NamesUnique l -> build_ok l filename pb vs rules b ->
  decl_view filename pb vs rules = Some (view l b).
Proof. exact build_ok_view. Qed.
Print Assumptions C10_build_ok_view.

Theorem C10_run_stmts_names_unique : forall filename sts l0 l,
  LInv l0 -> builds_wf sts -> NamesUnique l0 -> run_stmts l0 filename sts = Ok l -> NamesUnique l.
Proof. exact run_stmts_unique. Qed.
Print Assumptions C10_run_stmts_names_unique.

(* the characterisation only depends on the statements up to norm_eval *)
Theorem C10_build_ok_norm : forall l filename pb pb' vs rules rules' b,
  norm_build pb' = norm_build pb -> norm_rules rules' = norm_rules rules ->
  build_ok l filename pb' vs rules' b -> build_ok l filename pb vs rules b.
Proof. exact build_ok_norm. Qed.
Print Assumptions C10_build_ok_norm.

(* ------------------------------------------------------------------------------------ *)
(* L4: whole one-file manifests *)

(* any text, in terms of the statements the parser returned *)
Theorem C10_graph_of_reads : forall depth fs name text sts r l,
  reads_to (text ++ [0%N]) (mkScanner (text ++ [0%N]) 0 1) [] sts r -> no_include sts ->
  load_manifest true (S depth) fs name text = Ok l ->
  exists vs' s',
    r = SOk (None, vs') s' /\
    length (l_builds l) = count_builds sts /\
    Forall2 (item_ok l name) (build_items [(bs "phony", [])] sts) (l_builds l) /\
    l_rules l = rules_of [(bs "phony", [])] sts /\
    l_pools l = pools_of [] sts /\
    Forall2 (default_ok l) (default_items sts) (l_defaults l) /\
    l_builddir l = assoc_b (bs "builddir") vs' /\
    canon name = Ok (file_nm l 0).
Proof. exact graph_of_reads. Qed.
Print Assumptions C10_graph_of_reads.

Theorem C10_graph_view_of_reads : forall depth fs name text sts r l,
  reads_to (text ++ [0%N]) (mkScanner (text ++ [0%N]) 0 1) [] sts r -> no_include sts ->
  load_manifest true (S depth) fs name text = Ok l ->
  map (item_view name) (build_items [(bs "phony", [])] sts) = map (fun b => Some (view l b)) (l_builds l) /\
  l_pools l = pools_of [] sts /\
  Forall2 default_name (default_items sts) (map (file_nm l) (l_defaults l)).
Proof. exact graph_view_of_reads. Qed.
Print Assumptions C10_graph_view_of_reads.

(* spelled files (parser half, ParseSpell.v), with the variables in force at every statement *)
Theorem C10_spells_file_v_iff : forall ln vs sts vs' text,
  spells_file ln vs sts vs' text <-> exists svs, map fst svs = sts /\ spells_file_v ln vs svs vs' text.
Proof. exact spells_file_v_iff. Qed.
Print Assumptions C10_spells_file_v_iff.

Theorem C10_file_reads : forall svs vs' text,
  spells_file_v 1 [] svs vs' text -> ~ In 13%N text ->
  exists svs', reads (text ++ [0%N]) (mkScanner (text ++ [0%N]) 0 1) [] svs' vs' /\ stmts_norm_eq svs' svs.
Proof. exact file_reads. Qed.
Print Assumptions C10_file_reads.

Theorem C10_load_manifest_is_run_stmts : forall depth fs name text svs vs',
  spells_file_v 1 [] svs vs' text -> ~ In 13%N text -> no_include svs ->
  exists svs', stmts_norm_eq svs' svs /\
    reads (text ++ [0%N]) (mkScanner (text ++ [0%N]) 0 1) [] svs' vs' /\
    load_manifest true (S depth) fs name text =
    do c <- canon name;
    do l' <- run_stmts (loader_start c) name svs';
    Ok (with_builddir l' (assoc_b (bs "builddir") vs')).
Proof. exact load_manifest_is_run_stmts. Qed.
Print Assumptions C10_load_manifest_is_run_stmts.

(* the graph of a manifest that spells [svs], in terms of the DECLARED statements *)
Theorem C10_graph : forall depth fs name text svs vs' l,
  spells_file_v 1 [] svs vs' text -> ~ In 13%N text -> no_include svs ->
  load_manifest true (S depth) fs name text = Ok l ->
  length (l_builds l) = count_builds svs /\
  Forall2 (item_ok l name) (build_items [(bs "phony", [])] svs) (l_builds l) /\
  norm_rules (l_rules l) = norm_rules (rules_of [(bs "phony", [])] svs) /\
  l_pools l = pools_of [] svs /\
  Forall2 (default_ok l) (default_items svs) (l_defaults l) /\
  l_builddir l = assoc_b (bs "builddir") vs' /\
  canon name = Ok (file_nm l 0).
Proof. exact graph_of_spelled_file. Qed.
Print Assumptions C10_graph.

(* by name: exactly the declared views, in order *)
Theorem C10_graph_view : forall depth fs name text svs vs' l,
  spells_file_v 1 [] svs vs' text -> ~ In 13%N text -> no_include svs ->
  load_manifest true (S depth) fs name text = Ok l ->
  map (item_view name) (build_items [(bs "phony", [])] svs) = map (fun b => Some (view l b)) (l_builds l) /\
  l_pools l = pools_of [] svs /\
  Forall2 default_name (default_items svs) (map (file_nm l) (l_defaults l)) /\
  l_builddir l = assoc_b (bs "builddir") vs'.
Proof. exact graph_view_of_spelled_file. Qed.
Print Assumptions C10_graph_view.

(* the graph does not depend on the spelling *)
Theorem C10_graph_spelling_independent : forall depth fs name t1 t2 svs vs' l1 l2,
  spells_file_v 1 [] svs vs' t1 -> spells_file_v 1 [] svs vs' t2 ->
  ~ In 13%N t1 -> ~ In 13%N t2 -> no_include svs ->
  load_manifest true (S depth) fs name t1 = Ok l1 -> load_manifest true (S depth) fs name t2 = Ok l2 ->
  map (view l1) (l_builds l1) = map (view l2) (l_builds l2) /\
  l_pools l1 = l_pools l2 /\
  map (file_nm l1) (l_defaults l1) = map (file_nm l2) (l_defaults l2) /\
  l_builddir l1 = l_builddir l2.
Proof. exact graph_spelling_independent_view. Qed.
Print Assumptions C10_graph_spelling_independent.

(* ------------------------------------------------------------------------------------ *)
(* a concrete manifest (LoadGraphEx.v): pool, two rules, all four input kinds, implicit output,
   response file, default *)

Theorem C10_example_graph :
  exists l b0 b1,
    load_manifest true 5 [] (bs "build.ninja") ex_manifest = Ok l /\
    l_builds l = [b0; b1] /\
    lb_line b0 = 15%Z /\ lb_file b0 = bs "build.ninja" /\
    map (file_nm l) (lb_ins b0) = [bs "src/a.c"; bs "inc/a.h"; bs "inc/b.h"; bs "gen/stamp"; bs "check/a"] /\
    lb_explicit_ins b0 = 1 /\ lb_implicit_ins b0 = 2 /\ lb_order_only_ins b0 = 1 /\
    map (file_nm l) (lb_outs b0) = [bs "out/a.o"; bs "out/a.lst"] /\ lb_explicit_outs b0 = 1 /\
    lb_cmdline b0 = Some (bs "gcc -O0 -c src/a.c -o out/a.o") /\
    lb_desc b0 = Some (bs "CC out/a.o") /\ lb_depfile b0 = Some (bs "out/a.o.d") /\
    lb_showincludes b0 = false /\ lb_rspfile b0 = None /\ lb_pool b0 = None /\
    lb_line b1 = 17%Z /\
    map (file_nm l) (lb_ins b1) = [bs "out/a.o"; bs "lib/z.a"] /\
    lb_explicit_ins b1 = 2 /\ lb_implicit_ins b1 = 0 /\ lb_order_only_ins b1 = 0 /\
    map (file_nm l) (lb_outs b1) = [bs "out/app"] /\ lb_explicit_outs b1 = 1 /\
    lb_cmdline b1 = Some (bs "ld @out/app.rsp -o out/app") /\
    lb_rspfile b1 = Some (bs "out/app.rsp", bs "out/a.o" ++ [10%N] ++ bs "lib/z.a") /\
    lb_pool b1 = Some (bs "link_pool") /\ lb_desc b1 = None /\ lb_depfile b1 = None /\
    l_pools l = [(bs "link_pool", 2%N)] /\
    map (file_nm l) (l_defaults l) = [bs "out/app"] /\
    l_builddir l = Some (bs "out") /\ l_warnings l = [].
Proof. exact ex_manifest_graph. Qed.
Print Assumptions C10_example_graph.

Theorem C10_example_decl_view :
  decl_view (bs "build.ninja") ex_cc_build [(bs "builddir", bs "out"); (bs "cflags", bs "-O2")]
            [(bs "phony", []); (bs "cc", ex_cc_rule)] =
  Some (mkView (bs "build.ninja") 15
               [bs "src/a.c"; bs "inc/a.h"; bs "inc/b.h"; bs "gen/stamp"; bs "check/a"] 1 2 1
               [bs "out/a.o"; bs "out/a.lst"] 1
               (Some (bs "gcc -O0 -c src/a.c -o out/a.o")) (Some (bs "CC out/a.o")) (Some (bs "out/a.o.d"))
               false None None false false).
Proof. exact ex_decl_view. Qed.
Print Assumptions C10_example_decl_view.
