(* C01 - a step runs only after everything it depends on, and at most once.  Statements only;
   proofs in Proofs/SchedRun*.v, Proofs/SchedWant*.v. *)
From N2 Require Import Model.All Proofs.SchedSpec.
From N2 Require Import Proofs.SchedRunThms Proofs.SchedRunFinal Proofs.SchedLive.

Theorem C01_started_after_producers : forall cf decls, graph_wf (cf_graph cf) -> forall r b r', reachable cf decls r -> accept1 cf r (EStart b) = Some r' -> forall p, ord_reach (cf_graph cf) b p -> get_state (rs_bs r') p = Done.
Proof. exact C01_started_after_producers_closed. Qed.
Print Assumptions C01_started_after_producers.

Theorem C01_done_is_final : forall cf decls, graph_wf (cf_graph cf) -> forall r tr r' p, reachable cf decls r -> accepts cf r tr = Some r' -> get_state (rs_bs r) p = Done -> get_state (rs_bs r') p = Done.
Proof. exact C01_done_is_final_closed. Qed.
Print Assumptions C01_done_is_final.

Theorem C01_at_most_once : forall cf decls, graph_wf (cf_graph cf) -> forall s fl tr r b, wanted (cf_graph cf) (bs_new (length (g_builds (cf_graph cf))) decls) s -> accepts cf (run_init s fl) tr = Some r -> (starts_of b tr <= 1)%nat.
Proof. exact C01_at_most_once_closed. Qed.
Print Assumptions C01_at_most_once.

Theorem C01_at_most_once_reachable : forall cf decls, graph_wf (cf_graph cf) -> forall r tr r' b, reachable cf decls r -> accepts cf r tr = Some r' -> (starts_of b tr <= 1)%nat.
Proof. exact C01_at_most_once_reachable_closed. Qed.
Print Assumptions C01_at_most_once_reachable.

(* Validation inputs impose no order: in the witness, step b has a validation input f produced by
   step v; both are wanted; b is started while v is still Ready.  Dependencies discovered from
   depfiles do not occur in [graph] / [accept1] at all, so the scheduler never waits for them. *)
Theorem C01_validation_and_discovered_impose_no_order : exists cf decls s log tr r b v f, graph_wf (cf_graph cf) /\ want_targets (cf_graph cf) (bs_new (length (g_builds (cf_graph cf))) decls, []) [1%nat] = Ok (s, log) /\ accepts cf (run_init s None) tr = Some r /\ In f (validation_ins (get_build (cf_graph cf) b)) /\ file_input (cf_graph cf) f = Some v /\ starts_of b tr = 1%nat /\ get_state (rs_bs r) b = Running /\ get_state (rs_bs r) v = Ready.
Proof. exact validation_imposes_no_order_started. Qed.
Print Assumptions C01_validation_and_discovered_impose_no_order.
