(* C15 - depfiles are read as the compiler wrote them.  Statements only. *)
From N2 Require Import Model.All Proofs.DepfileSpec.
From N2 Require Import Proofs.DepfileExamples Proofs.DepfileSafe Proofs.DepfileRound Proofs.DepfileMerge.

Theorem C15_roundtrip : forall d t, spells_d d t -> depfile_parse t = Ok (merge_targets d).
Proof. exact depfile_roundtrip. Qed.
Print Assumptions C15_roundtrip.

Theorem C15_deps_all_listed : forall d t, spells_d d t -> exists l, depfile_deps t = Ok l /\ Permutation l (concat (map snd d)).
Proof. exact depfile_deps_all_listed. Qed.
Print Assumptions C15_deps_all_listed.

Theorem C15_deps_in_order : forall d t, spells_d d t -> NoDup (map fst d) -> depfile_deps t = Ok (concat (map snd d)).
Proof. exact depfile_deps_in_order. Qed.
Print Assumptions C15_deps_in_order.

Theorem C15_total : forall t, (exists m, depfile_parse t = Ok m) \/ (exists e, depfile_parse t = Err e).
Proof. exact depfile_total. Qed.
Print Assumptions C15_total.

Theorem C15_pinned_refuted : exists d t, spells_d d t /\ depfile_deps_pinned t <> Ok (concat (map snd d)) /\ exists l, depfile_deps_pinned t = Ok l /\ ~ Permutation l (concat (map snd d)).
Proof. exact pinned_refuted. Qed.
Print Assumptions C15_pinned_refuted.
