(* C20, "terminal width n2 accepts (>= 10 columns)": src/terminal.rs get_cols and its use in
   FancyState::print_progress (Model/Terminal.v).  [io] is what ioctl(0, TIOCGWINSZ) gives:
   None = the call failed, Some c = the ws_col it reported.
   Statements only; proofs in Proofs/TerminalProofs.v. *)
From Coq Require Import String.
From N2 Require Import Model.All Model.Fancy Model.Terminal.
From N2 Require Import Proofs.FancyFrame Proofs.TerminalProofs.

(* whatever the terminal reports, the width used for rendering is at least 10 *)
Theorem C20_width_used_at_least_10 : forall io, (10 <= max_cols io)%N.
Proof. exact max_cols_ge_10. Qed.
Print Assumptions C20_width_used_at_least_10.

(* a width of 10 or more is used as reported *)
Theorem C20_width_is_terminal_width : forall c, (10 <= c)%N -> max_cols (Some c) = c.
Proof. exact max_cols_is_width. Qed.
Print Assumptions C20_width_is_terminal_width.

(* a failing call or fewer than 10 columns: 80 columns are assumed *)
Theorem C20_width_fallback : forall io, (forall c, io = Some c -> (c < 10)%N) -> max_cols io = 80%N.
Proof. exact max_cols_fallback. Qed.
Print Assumptions C20_width_fallback.

(* hence the frame theorem holds for every terminal, with no premise on the width left *)
Theorem C20_frame_any_terminal : forall st now io, let cols := N.to_nat (max_cols io) in exists body, f_print st now cols = Ok (frame_of st (body ++ more_line (length (fs_tasks st))), mkFState clear_seq (fs_counts st) (fs_tasks st) (fs_verbose st)) /\ Forall (fun l => (length l <= cols)%nat) body /\ (Nat.min max_tasks (length (fs_tasks st)) <= length body <= 2 * max_tasks)%nat /\ (Forall task_valid (fs_tasks st) -> Forall (fun l => utf8_ok l = true) body).
Proof. exact frame_any_terminal. Qed.
Print Assumptions C20_frame_any_terminal.
