(* C04 - parallelism and pool depths are respected.  Statements only; proofs in
   Proofs/SchedRun*.v. *)
From Coq Require Import String.
From N2 Require Import Model.All Proofs.SchedSpec.
From N2 Require Import Proofs.SchedRunCore Proofs.SchedRunRInv Proofs.SchedRunThms Proofs.SchedRunFinal Proofs.SchedLive.

Theorem C04_parallelism : forall cf decls, graph_wf (cf_graph cf) -> forall r, reachable cf decls r -> (rs_running r <= cf_parallelism cf)%nat.
Proof. exact C04_parallelism_closed. Qed.
Print Assumptions C04_parallelism.

Theorem C04_running_census_idle : forall cf decls, graph_wf (cf_graph cf) -> forall r, reachable cf decls r -> (rs_ctl r = CIdle \/ (exists b, rs_ctl r = CChecking b) \/ (exists b v x, rs_ctl r = CVerdict b v x)) -> Z.of_nat (rs_running r) = count_state (cf_graph cf) (rs_bs r) Running false.
Proof. exact C04_running_census_idle_closed. Qed.
Print Assumptions C04_running_census_idle.

Theorem C04_pool_depth : forall cf decls, graph_wf (cf_graph cf) -> forall r, reachable cf decls r -> forall p, In p (bs_pools (rs_bs r)) -> (0 < p_depth p)%nat -> (running_in_pool (cf_graph cf) (rs_bs r) (p_name p) <= Z.of_nat (p_depth p))%Z.
Proof. exact C04_pool_depth_closed. Qed.
Print Assumptions C04_pool_depth.

Theorem C04_console_depth : forall decls, ~ In (bs "console"%string) (map fst decls) -> exists p, pool_find (init_pools decls) (bs "console"%string) = Some p /\ p_depth p = 1%nat.
Proof. exact SchedRunCore.C04_console_depth. Qed.
Print Assumptions C04_console_depth.

Theorem C04_unknown_pool_is_error : forall cf r b r', accept1 cf r (ESet b Ready Queued) = Some r' -> pool_find (bs_pools (rs_bs r)) (pool_name (get_build (cf_graph cf) b)) = None -> rs_ctl r' = CVerdict b VError false /\ forall e r'', accept1 cf r' e = Some r'' -> e = EReturn None.
Proof. exact SchedLive.C04_unknown_pool_is_error. Qed.
Print Assumptions C04_unknown_pool_is_error.

Theorem C04_unknown_pool_never_starts : forall cf r b r', accept1 cf r (ESet b Ready Queued) = Some r' -> pool_find (bs_pools (rs_bs r)) (pool_name (get_build (cf_graph cf) b)) = None -> forall tr r'', accepts cf r' tr = Some r'' -> forall x, starts_of x tr = 0%nat.
Proof. exact SchedLive.C04_unknown_pool_never_starts. Qed.
Print Assumptions C04_unknown_pool_never_starts.
