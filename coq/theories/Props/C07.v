(* C07 - every byte prefix of every build log (src/db.rs): statements only; proofs in Proofs/Db*.v *)
From N2 Require Import Model.All Proofs.DbSpec.
From N2 Require Import Proofs.DbCodec Proofs.DbWriter Proofs.DbReader Proofs.DbMain.

Theorem C07_prefix_opens : forall producer ws log k, Forall in_bounds ws -> table_small ws -> log_of ws = Ok log -> exists st f, db_open true producer (firstn k log) = OpenOk st f /\ is_prefix f log /\ (length f <= Nat.max k 8)%nat /\ db_open true producer f = OpenOk st f.
Proof. exact db_prefix_opens. Qed.
Print Assumptions C07_prefix_opens.

Theorem C07_survivors_are_written_records : forall producer ws log k st f, Forall in_bounds ws -> table_small ws -> log_of ws = Ok log -> db_open true producer (firstn k log) = OpenOk st f -> forall b deps h, loaded_for st b = Some (deps, h) -> exists w, In w ws /\ w_deps w = deps /\ w_hash w = h /\ applicable producer w b = true.
Proof. exact db_survivors_are_written_records. Qed.
Print Assumptions C07_survivors_are_written_records.

Theorem C07_whole_records_survive : forall producer ws1 ws2 log1 log k, Forall in_bounds (ws1 ++ ws2) -> table_small (ws1 ++ ws2) -> log_of ws1 = Ok log1 -> log_of (ws1 ++ ws2) = Ok log -> (length log1 <= k)%nat -> exists st f, db_open true producer (firstn k log) = OpenOk st f /\ is_prefix log1 f /\ forall b, last_applicable producer ws1 b None <> None -> loaded_for st b <> None.
Proof. exact db_whole_records_survive. Qed.
Print Assumptions C07_whole_records_survive.

Theorem C07_append_after_recovery : forall producer ws log k st f w bytes tbl', Forall in_bounds ws -> table_small ws -> log_of ws = Ok log -> db_open true producer (firstn k log) = OpenOk st f -> in_bounds w -> (N.of_nat (length (ld_tbl st) + length (w_outs w) + length (w_deps w)) < 16777216)%N -> write_build (ld_tbl st) (w_outs w) (w_deps w) (w_hash w) = Ok (bytes, tbl') -> exists st', db_open true producer (f ++ bytes) = OpenOk st' (f ++ bytes) /\ ld_tbl st' = tbl' /\ forall b, applicable producer w b = true -> loaded_for st' b = Some (w_deps w, w_hash w).
Proof. exact db_append_after_recovery. Qed.
Print Assumptions C07_append_after_recovery.

Theorem C07_append_after_recovery_exact : forall producer ws log k st f w bytes tbl', Forall in_bounds ws -> table_small ws -> log_of ws = Ok log -> db_open true producer (firstn k log) = OpenOk st f -> in_bounds w -> (N.of_nat (length (ld_tbl st) + length (w_outs w) + length (w_deps w)) < 16777216)%N -> write_build (ld_tbl st) (w_outs w) (w_deps w) (w_hash w) = Ok (bytes, tbl') -> exists st', db_open true producer (f ++ bytes) = OpenOk st' (f ++ bytes) /\ ld_tbl st' = tbl' /\ forall b, loaded_for st' b = if applicable producer w b then Some (w_deps w, w_hash w) else loaded_for st b.
Proof. exact db_append_after_recovery_exact. Qed.
Print Assumptions C07_append_after_recovery_exact.

Theorem C07_append_total : forall producer ws log k st f w, Forall in_bounds ws -> table_small ws -> log_of ws = Ok log -> db_open true producer (firstn k log) = OpenOk st f -> in_bounds w -> (N.of_nat (length (ld_tbl st) + length (w_outs w) + length (w_deps w)) < 16777216)%N -> exists bytes tbl', write_build (ld_tbl st) (w_outs w) (w_deps w) (w_hash w) = Ok (bytes, tbl').
Proof. exact db_append_total. Qed.
Print Assumptions C07_append_total.

Theorem C07_pinned_refuted : exists producer ws log k, log_of ws = Ok log /\ (exists m, db_open false producer (firstn k log) = OpenErr m).
Proof. exact db_pinned_refuted. Qed.
Print Assumptions C07_pinned_refuted.
