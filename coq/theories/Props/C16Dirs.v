(* C16, "its output directories created and its response file written with exactly the evaluated
   content beforehand": Work::create_parent_dirs (src/work.rs) and task::write_rspfile
   (src/task.rs) over Model/Fs.v - std::path::Path (components, parent, ==), std::fs::create_dir_all,
   std::fs::write and mkdir/stat/open on a tree of directories and regular files ([cwd] = where n2
   runs).  A result is (error or None, the tree afterwards).
   Statements only; proofs in Proofs/FsProofs.v. *)
From N2 Require Import Base.Base Model.Fs.
From N2 Require Import Proofs.FsProofs Proofs.FsWf.

(* when it reports success, the parent of every output - whatever the spelling: nested, shared
   between outputs, through "..", absolute - is a directory *)
Theorem C16_output_dirs_created : forall fs cwd outs fs', create_parent_dirs fs cwd outs = (None, fs') -> forall o d, In o outs -> lp_parent (path_new o) = Some d -> is_dir_l fs' cwd d = true.
Proof. exact create_parent_dirs_creates. Qed.
Print Assumptions C16_output_dirs_created.

(* success or failure: nothing that existed is changed or removed (file contents included), and
   whatever is new is a directory *)
Theorem C16_output_dirs_frame : forall fs cwd outs e fs', create_parent_dirs fs cwd outs = (e, fs') -> (forall q k, lookup fs q = Some k -> lookup fs' q = Some k) /\ (forall q k, lookup fs q = None -> lookup fs' q = Some k -> k = KDir).
Proof. exact create_parent_dirs_frame. Qed.
Print Assumptions C16_output_dirs_frame.

(* doing it again (the next step, the next invocation) changes nothing *)
Theorem C16_output_dirs_idempotent : forall fs cwd outs fs', create_parent_dirs fs cwd outs = (None, fs') -> create_parent_dirs fs' cwd outs = (None, fs').
Proof. exact create_parent_dirs_idempotent. Qed.
Print Assumptions C16_output_dirs_idempotent.

(* the list of directories already handled within one call is an optimisation only *)
Theorem C16_output_dirs_cache_transparent : forall fs cwd outs, create_parent_dirs fs cwd outs = cpd_plain fs cwd outs.
Proof. exact create_parent_dirs_cache_is_transparent. Qed.
Print Assumptions C16_output_dirs_cache_transparent.

(* create_dir_all itself *)
Theorem C16_create_dir_all_creates : forall fs cwd p fs', create_dir_all fs cwd p = (None, fs') -> is_dir_l fs' cwd p = true.
Proof. exact cda_creates. Qed.
Print Assumptions C16_create_dir_all_creates.

Theorem C16_create_dir_all_noop_on_dir : forall fs cwd p, is_dir_l fs cwd p = true -> create_dir_all fs cwd p = (None, fs).
Proof. exact cda_noop. Qed.
Print Assumptions C16_create_dir_all_noop_on_dir.

(* the response file: afterwards a reader of that name finds exactly the content; every other
   location is as before or a new directory *)
Theorem C16_rspfile_written : forall fs cwd name content fs', write_rspfile fs cwd name content = (None, fs') -> read_l fs' cwd (path_new name) = Some (KFile content) /\ exists loc, lookup fs' loc = Some (KFile content) /\ forall q, q <> loc -> (forall k, lookup fs q = Some k -> lookup fs' q = Some k) /\ (forall k, lookup fs q = None -> lookup fs' q = Some k -> k = KDir).
Proof. exact write_rspfile_writes. Qed.
Print Assumptions C16_rspfile_written.

Theorem C16_rspfile_failure_frame : forall fs cwd name content e fs', write_rspfile fs cwd name content = (Some e, fs') -> (forall q k, lookup fs q = Some k -> lookup fs' q = Some k) /\ (forall q k, lookup fs q = None -> lookup fs' q = Some k -> k = KDir).
Proof. exact write_rspfile_failure_frame. Qed.
Print Assumptions C16_rspfile_failure_frame.

(* the premises are met: outputs a/b/o1 a/b/o2 ../x/o3 top from w/c in a tree with a file f *)
Theorem C16_output_dirs_example : fst (create_parent_dirs ex_fs ex_cwd ex_outs) = None /\ fs_listing (snd (create_parent_dirs ex_fs ex_cwd ex_outs)) = [ ([s [119]; s [120]], KDir); ([s [119]; s [99]; s [97]; s [98]], KDir); ([s [119]; s [99]; s [97]], KDir); ([s [119]], KDir); ([s [119]; s [99]], KDir); ([s [102]], KFile (s [1;2])) ].
Proof. exact ex_create_ok. Qed.
Print Assumptions C16_output_dirs_example.

(* an output below a regular file is an error (ENOTDIR) and nothing is created *)
Theorem C16_output_dirs_blocked_example : create_parent_dirs ex_fs ex_cwd [ s [47;102;47;100;47;111] ] = (Some ENOTDIR, ex_fs).
Proof. exact ex_create_blocked. Qed.
Print Assumptions C16_output_dirs_blocked_example.

(* when it succeeds and when not (Proofs/FsWf.v): on a well-formed tree (every entry has a directory
   above it), from a working directory that exists, for output names without "." / ".." components
   left in their directory part, create_parent_dirs succeeds unless a regular file sits where one of
   the directories has to be - [clear_path fs cwd d]: no "."/".." in d and no regular file at any
   prefix of d's location *)
Theorem C16_output_dirs_succeed_unless_blocked : forall fs cwd outs, fs_wf fs -> node_at fs cwd = Some KDir -> (forall o d, In o outs -> lp_parent (path_new o) = Some d -> clear_path fs cwd d) -> exists fs', create_parent_dirs fs cwd outs = (None, fs').
Proof. exact create_parent_dirs_succeeds. Qed.
Print Assumptions C16_output_dirs_succeed_unless_blocked.

Theorem C16_output_dirs_failure_means_blocked : forall fs cwd outs e fs', fs_wf fs -> node_at fs cwd = Some KDir -> create_parent_dirs fs cwd outs = (Some e, fs') -> ~ (forall o d, In o outs -> lp_parent (path_new o) = Some d -> clear_path fs cwd d).
Proof. exact create_parent_dirs_failure_means_blocked. Qed.
Print Assumptions C16_output_dirs_failure_means_blocked.

Theorem C16_create_dir_all_succeeds_unless_blocked : forall fs cwd d, fs_wf fs -> node_at fs cwd = Some KDir -> clear_path fs cwd d -> exists fs', create_dir_all fs cwd d = (None, fs').
Proof. exact create_dir_all_succeeds. Qed.
Print Assumptions C16_create_dir_all_succeeds_unless_blocked.

(* well-formedness is kept, so the premise holds again for the next step *)
Theorem C16_create_dir_all_keeps_wf : forall fs cwd p e fs', fs_wf fs -> node_at fs cwd = Some KDir -> create_dir_all fs cwd p = (e, fs') -> fs_wf fs'.
Proof. exact cda_wf. Qed.
Print Assumptions C16_create_dir_all_keeps_wf.

(* the premises are met by the example tree and the directory a/b of the example outputs *)
Theorem C16_output_dirs_premises_example : fs_wf ex_fs /\ clear_path ex_fs ex_cwd (mkL false [s [97]; s [98]]).
Proof. exact (conj ex_wf ex_clear). Qed.
Print Assumptions C16_output_dirs_premises_example.

(* the clause in one statement.  [prepare_step] = what happens between a step leaving the queue and
   its command being spawned: create_parent_dirs for its outputs (Work::run), then write_rspfile
   (the worker thread, before process::run_command).  When both succeed: the directory of every
   output exists, a reader of the response file's name finds exactly the evaluated content, and
   everything that was there is unchanged - except a regular file at the response file's own location,
   which now holds the content *)
Theorem C16_step_prepared : forall fs cwd outs rsp fs', prepare_step fs cwd outs rsp = (None, fs') -> (forall o d, In o outs -> lp_parent (path_new o) = Some d -> is_dir_l fs' cwd d = true) /\ (forall n c, rsp = Some (n, c) -> read_l fs' cwd (path_new n) = Some (KFile c)) /\ (forall q k, lookup fs q = Some k -> lookup fs' q = Some k \/ exists n c, rsp = Some (n, c) /\ k <> KDir /\ lookup fs' q = Some (KFile c)).
Proof. exact prepare_step_ready. Qed.
Print Assumptions C16_step_prepared.

(* several steps: preparing a later step (successfully or not) leaves the directories of an earlier
   one in place *)
Theorem C16_steps_prepared_stay_prepared : forall fs cwd outs1 rsp1 fs1 outs2 rsp2 e fs2, prepare_step fs cwd outs1 rsp1 = (None, fs1) -> prepare_step fs1 cwd outs2 rsp2 = (e, fs2) -> forall o d, In o outs1 -> lp_parent (path_new o) = Some d -> is_dir_l fs2 cwd d = true.
Proof. exact prepare_steps_all_ready. Qed.
Print Assumptions C16_steps_prepared_stay_prepared.

(* from the audit of these statements (Proofs/AuditR6.v): the third part of C16_step_prepared does not
   say *where* a regular file may change (W_C16_step_prepared_frame_allows_clobbering_every_file).
   Exactly: without a response file nothing that existed changes and what is new is a directory;
   with one, the same holds everywhere except at one location, which was not a directory and now
   holds the content *)
Theorem C16_step_prepared_exact : forall fs cwd outs rsp fs', prepare_step fs cwd outs rsp = (None, fs') -> match rsp with | None => (forall q k, lookup fs q = Some k -> lookup fs' q = Some k) /\ (forall q k, lookup fs q = None -> lookup fs' q = Some k -> k = KDir) | Some (n, c) => exists loc, lookup fs' loc = Some (KFile c) /\ lookup fs loc <> Some KDir /\ forall q, q <> loc -> (forall k, lookup fs q = Some k -> lookup fs' q = Some k) /\ (forall k, lookup fs q = None -> lookup fs' q = Some k -> k = KDir) end.
Proof. exact prepare_step_exact. Qed.
Print Assumptions C16_step_prepared_exact.

(* and well-formedness (with the working directory) survives a whole preparation, successful or not:
   the premises of C16_output_dirs_succeed_unless_blocked hold again for the next step *)
Theorem C16_prepare_step_keeps_wf : forall fs cwd outs rsp e fs', fs_wf fs -> node_at fs cwd = Some KDir -> prepare_step fs cwd outs rsp = (e, fs') -> fs_wf fs' /\ node_at fs' cwd = Some KDir.
Proof. exact prepare_step_wf. Qed.
Print Assumptions C16_prepare_step_keeps_wf.

(* a failure names its cause (audit W2: the contrapositive above names nothing): on a well-formed tree,
   for outputs whose directory parts have no "." / ".." left, a failing create_parent_dirs means that a
   regular file sits at a prefix of the directory of one of the outputs *)
Theorem C16_output_dirs_failure_names_a_file : forall fs cwd outs e fs', fs_wf fs -> node_at fs cwd = Some KDir -> (forall o d, In o outs -> lp_parent (path_new o) = Some d -> nodots (lp_comps d)) -> create_parent_dirs fs cwd outs = (Some e, fs') -> exists o d i c, In o outs /\ lp_parent (path_new o) = Some d /\ i <= length (lp_comps d) /\ node_at fs (loc_prefix cwd d i) = Some (KFile c).
Proof. exact create_parent_dirs_failure_names_a_file. Qed.
Print Assumptions C16_output_dirs_failure_names_a_file.
