(* C16 - statements only.  The decision logic around process execution; that /bin/sh receives the
   string, that no descriptor leaks and that the kernel delivers every byte are run-time facts
   exercised by the black-box leg of the check. *)
From N2 Require Import Model.All Proofs.ProcProps.

Theorem C16_output_is_concat : forall chunks, accumulate chunks = concat chunks.
Proof. exact accumulate_is_concat. Qed.
Print Assumptions C16_output_is_concat.

Theorem C16_output_chunking_independent : forall c1 c2, concat c1 = concat c2 -> accumulate c1 = accumulate c2.
Proof. exact accumulate_chunking. Qed.
Print Assumptions C16_output_chunking_independent.

Theorem C16_status_range : forall st, decode_status st = 0%N \/ decode_status st = 1%N \/ decode_status st = 2%N.
Proof. exact decode_status_range. Qed.
Print Assumptions C16_status_range.

Theorem C16_status_success : forall st, decode_status st = 0%N <-> ((st mod 128 = 0)%N /\ ((st / 256) mod 256 = 0)%N).
Proof. exact decode_status_success. Qed.
Print Assumptions C16_status_success.

Theorem C16_status_interrupted : forall st, decode_status st = 2%N <-> (st mod 128 = 2)%N.
Proof. exact decode_status_interrupted. Qed.
Print Assumptions C16_status_interrupted.

Theorem C16_status_exit_code : forall code, (code < 256)%N -> decode_status (code * 256) = (if (code =? 0)%N then 0 else 1)%N.
Proof. exact decode_status_exit_code. Qed.
Print Assumptions C16_status_exit_code.
