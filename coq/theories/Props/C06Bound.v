(* C06, second half - the run loop terminates: every accepted event except the two stuttering
   ones (EUpdate, EQuiesce) is paid for out of a potential of the run state, so a trace accepted
   from a reachable state has at most nine such events per unfinished step, plus the return;
   the stuttering events can repeat without bound but change nothing; and no reachable state
   is a dead end: whatever the verdicts and terminations, the loop can run to its return.
   Statements only; proofs in Proofs/SchedBound*.v, vocabulary in Proofs/SchedBoundSpec.v. *)
From N2 Require Import Model.All Proofs.SchedSpec Proofs.SchedBoundSpec.
From N2 Require Import Proofs.SchedBound Proofs.SchedBoundStutter Proofs.SchedBoundComplete Proofs.SchedBoundAny Proofs.SchedBoundEx.

(* ---- the ESet events: the potential run_potential = sum of sets_left over the steps ---- *)

Theorem C06_bounded_sets : forall cf decls, graph_wf (cf_graph cf) -> forall r evs r', reachable cf decls r -> accepts cf r evs = Some r' -> (count_ev is_set evs <= 4 * length (g_builds (cf_graph cf)))%nat.
Proof. exact SchedBound.C06_bounded_sets. Qed.
Print Assumptions C06_bounded_sets.

Theorem C06_bounded_sets_potential : forall cf decls, graph_wf (cf_graph cf) -> forall r evs r', reachable cf decls r -> accepts cf r evs = Some r' -> (count_ev is_set evs + run_potential (cf_graph cf) (rs_bs r') <= run_potential (cf_graph cf) (rs_bs r))%nat /\ (run_potential (cf_graph cf) (rs_bs r) <= 4 * unfinished (cf_graph cf) (rs_bs r))%nat /\ (unfinished (cf_graph cf) (rs_bs r) <= length (g_builds (cf_graph cf)))%nat.
Proof. exact SchedBound.C06_bounded_sets_potential. Qed.
Print Assumptions C06_bounded_sets_potential.

Example C06_bounded_sets_example : exists cf decls r evs r', graph_wf (cf_graph cf) /\ reachable cf decls r /\ accepts cf r evs = Some r' /\ count_ev is_set evs = run_potential (cf_graph cf) (rs_bs r) /\ run_potential (cf_graph cf) (rs_bs r') = 0%nat /\ count_ev is_set evs = 11%nat /\ (4 * length (g_builds (cf_graph cf)) = 12)%nat.
Proof. exact ex_bounded_sets. Qed.

(* ---- the other event classes: at most one of each per unfinished step ---- *)

Theorem C06_bounded_pops : forall cf decls, graph_wf (cf_graph cf) -> forall r evs r', reachable cf decls r -> accepts cf r evs = Some r' -> (count_ev is_pop evs <= unfinished (cf_graph cf) (rs_bs r))%nat /\ (unfinished (cf_graph cf) (rs_bs r) <= length (g_builds (cf_graph cf)))%nat.
Proof. exact SchedBound.C06_bounded_pops. Qed.
Print Assumptions C06_bounded_pops.

Theorem C06_bounded_verdicts : forall cf decls, graph_wf (cf_graph cf) -> forall r evs r', reachable cf decls r -> accepts cf r evs = Some r' -> (count_ev is_verdict evs <= unfinished (cf_graph cf) (rs_bs r))%nat /\ (unfinished (cf_graph cf) (rs_bs r) <= length (g_builds (cf_graph cf)))%nat.
Proof. exact SchedBound.C06_bounded_verdicts. Qed.
Print Assumptions C06_bounded_verdicts.

Theorem C06_bounded_starts : forall cf decls, graph_wf (cf_graph cf) -> forall r evs r', reachable cf decls r -> accepts cf r evs = Some r' -> (count_ev is_start evs <= unfinished (cf_graph cf) (rs_bs r))%nat /\ (unfinished (cf_graph cf) (rs_bs r) <= length (g_builds (cf_graph cf)))%nat.
Proof. exact SchedBound.C06_bounded_starts. Qed.
Print Assumptions C06_bounded_starts.

Theorem C06_bounded_finishes : forall cf decls, graph_wf (cf_graph cf) -> forall r evs r', reachable cf decls r -> accepts cf r evs = Some r' -> (count_ev is_finish evs <= unfinished (cf_graph cf) (rs_bs r))%nat /\ (unfinished (cf_graph cf) (rs_bs r) <= length (g_builds (cf_graph cf)))%nat.
Proof. exact SchedBound.C06_bounded_finishes. Qed.
Print Assumptions C06_bounded_finishes.

Theorem C06_bounded_records : forall cf decls, graph_wf (cf_graph cf) -> forall r evs r', reachable cf decls r -> accepts cf r evs = Some r' -> (count_ev is_record evs <= unfinished (cf_graph cf) (rs_bs r))%nat /\ (unfinished (cf_graph cf) (rs_bs r) <= length (g_builds (cf_graph cf)))%nat.
Proof. exact SchedBound.C06_bounded_records. Qed.
Print Assumptions C06_bounded_records.

Theorem C06_bounded_returns : forall cf decls, graph_wf (cf_graph cf) -> forall r evs r', reachable cf decls r -> accepts cf r evs = Some r' -> (count_ev is_return evs <= 1)%nat.
Proof. exact SchedBound.C06_bounded_returns. Qed.
Print Assumptions C06_bounded_returns.

Example C06_bounded_events_example : exists cf decls r evs r', graph_wf (cf_graph cf) /\ reachable cf decls r /\ accepts cf r evs = Some r' /\ unfinished (cf_graph cf) (rs_bs r) = 3%nat /\ length (g_builds (cf_graph cf)) = 3%nat /\ count_ev is_pop evs = 3%nat /\ count_ev is_verdict evs = 3%nat /\ count_ev is_start evs = 3%nat /\ count_ev is_finish evs = 3%nat /\ count_ev is_record evs = 3%nat /\ count_ev is_return evs = 1%nat.
Proof. exact ex_bounded_events. Qed.

(* ---- the length of a trace, EUpdate and EQuiesce apart ---- *)

Theorem C06_trace_length_partial : forall cf decls, graph_wf (cf_graph cf) -> forall r evs r', reachable cf decls r -> accepts cf r evs = Some r' -> (count_ev (fun e => negb (is_stutter e)) evs <= 9 * unfinished (cf_graph cf) (rs_bs r) + 1)%nat /\ (unfinished (cf_graph cf) (rs_bs r) <= length (g_builds (cf_graph cf)))%nat.
Proof. exact SchedBound.C06_trace_length_partial. Qed.
Print Assumptions C06_trace_length_partial.

Example C06_trace_length_partial_example : exists cf decls r evs r', graph_wf (cf_graph cf) /\ reachable cf decls r /\ accepts cf r evs = Some r' /\ count_ev (fun e => negb (is_stutter e)) evs = 27%nat /\ (9 * unfinished (cf_graph cf) (rs_bs r) + 1 = 28)%nat.
Proof. exact ex_trace_length_partial. Qed.

(* ---- EUpdate and EQuiesce: unbounded, but pure stuttering ---- *)

(* in the witness state a command is running and nothing else can progress: EUpdate c and
   EQuiesce n are accepted any number of times, leave the state as it is, and the run can
   still be completed afterwards *)
Theorem C06_trace_length_refuted : exists cf decls r c n, graph_wf (cf_graph cf) /\ reachable cf decls r /\ forall k, accepts cf r (repeat (EUpdate c) k) = Some r /\ accepts cf r (repeat (EQuiesce n) k) = Some r /\ accepts cf r (repeat (EUpdate c) k ++ repeat (EQuiesce n) k ++ finish_evs 0 ++ [EReturn (Some true)]) <> None.
Proof. exact trace_length_refuted. Qed.
Print Assumptions C06_trace_length_refuted.

Theorem C06_trace_length_unbounded : ~ bounded_by_graph (@length event).
Proof. exact trace_length_unbounded. Qed.
Print Assumptions C06_trace_length_unbounded.

Theorem C06_update_count_refuted : ~ bounded_by_graph (count_ev is_update).
Proof. exact update_count_refuted. Qed.
Print Assumptions C06_update_count_refuted.

Theorem C06_quiesce_count_refuted : ~ bounded_by_graph (count_ev is_quiesce).
Proof. exact quiesce_count_refuted. Qed.
Print Assumptions C06_quiesce_count_refuted.

Theorem C06_stutter_is_identity : forall cf r e r', accept1 cf r e = Some r' -> is_stutter e = true -> r' = r.
Proof. exact SchedBoundStutter.C06_stutter_is_identity. Qed.
Print Assumptions C06_stutter_is_identity.

Theorem C06_terminates_modulo_stutter : forall cf decls, graph_wf (cf_graph cf) -> forall r evs r', reachable cf decls r -> accepts cf r evs = Some r' -> accepts cf r (filter (fun e => negb (is_stutter e)) evs) = Some r' /\ (length (filter (fun e => negb (is_stutter e)) evs) <= 9 * unfinished (cf_graph cf) (rs_bs r) + 1)%nat /\ (unfinished (cf_graph cf) (rs_bs r) <= length (g_builds (cf_graph cf)))%nat.
Proof. exact SchedBoundStutter.C06_terminates_modulo_stutter. Qed.
Print Assumptions C06_terminates_modulo_stutter.

Example C06_terminates_modulo_stutter_example : exists cf decls r evs r', graph_wf (cf_graph cf) /\ reachable cf decls r /\ accepts cf r evs = Some r' /\ length evs = 8%nat /\ filter (fun e => negb (is_stutter e)) evs = finish_evs 0 ++ [EReturn (Some true)] /\ (9 * unfinished (cf_graph cf) (rs_bs r) + 1 = 10)%nat.
Proof. exact ex_destutter. Qed.

(* after EQuiesce nothing but more stuttering, the completion of a running command, or (when
   nothing runs and something has failed) the final return is accepted *)
Theorem C06_after_quiesce : forall cf decls, graph_wf (cf_graph cf) -> forall r n r1 e r2, reachable cf decls r -> accept1 cf r (EQuiesce n) = Some r1 -> accept1 cf r1 e = Some r2 -> (exists c, e = EUpdate c) \/ (exists m, e = EQuiesce m) \/ (exists b t, e = EFinish b t) \/ (e = EReturn (Some false) /\ rs_running r = 0%nat /\ (0 < rs_failed r)%nat).
Proof. exact SchedBoundStutter.C06_after_quiesce. Qed.
Print Assumptions C06_after_quiesce.

Example C06_after_quiesce_example : exists cf decls r n r1 e r2, graph_wf (cf_graph cf) /\ reachable cf decls r /\ accept1 cf r (EQuiesce n) = Some r1 /\ accept1 cf r1 e = Some r2 /\ e = EFinish 0%nat TSuccess.
Proof. exact ex_after_quiesce. Qed.

(* ---- the loop can always run to completion ---- *)

(* every command succeeds, every examined step is clean: the run returns true unless something
   had failed before *)
Theorem C06_can_complete : forall cf decls, graph_wf (cf_graph cf) -> (1 <= cf_parallelism cf)%nat -> forall r, reachable cf decls r -> rs_ctl r = CIdle -> exists evs r', accepts cf r (evs ++ [EReturn (Some (rs_failed r =? 0)%nat)]) = Some r' /\ rs_ctl r' = CReturned (Some (rs_failed r =? 0)%nat) /\ count_ev is_stutter evs = 0%nat /\ (length evs <= 3 * run_potential (cf_graph cf) (rs_bs r))%nat /\ (run_potential (cf_graph cf) (rs_bs r) <= 4 * length (g_builds (cf_graph cf)))%nat.
Proof. exact SchedBoundComplete.C06_can_complete. Qed.
Print Assumptions C06_can_complete.

Example C06_can_complete_example : exists cf decls r evs r', graph_wf (cf_graph cf) /\ (1 <= cf_parallelism cf)%nat /\ reachable cf decls r /\ rs_ctl r = CIdle /\ accepts cf r (evs ++ [EReturn (Some (rs_failed r =? 0)%nat)]) = Some r' /\ count_ev is_stutter evs = 0%nat /\ length evs = 11%nat /\ (3 * run_potential (cf_graph cf) (rs_bs r) = 33)%nat.
Proof. exact ex_can_complete. Qed.

(* whatever verdict each step gets and however each command terminates *)
Theorem C06_can_complete_any : forall cf decls, graph_wf (cf_graph cf) -> (1 <= cf_parallelism cf)%nat -> forall vd tm, (forall b, b_phony (get_build (cf_graph cf) b) = true -> vd b <> VDirty) -> forall r, reachable cf decls r -> rs_ctl r = CIdle -> exists evs ok r', accepts cf r (evs ++ [EReturn ok]) = Some r' /\ rs_ctl r' = CReturned ok /\ Forall (obeys vd tm) evs /\ count_ev is_stutter evs = 0%nat /\ (length evs <= 4 * run_potential (cf_graph cf) (rs_bs r) + 4)%nat /\ (run_potential (cf_graph cf) (rs_bs r) <= 4 * length (g_builds (cf_graph cf)))%nat.
Proof. exact SchedBoundAny.C06_can_complete_any. Qed.
Print Assumptions C06_can_complete_any.

Example C06_can_complete_any_example : exists cf decls vd tm r evs ok r', graph_wf (cf_graph cf) /\ (1 <= cf_parallelism cf)%nat /\ (forall b, b_phony (get_build (cf_graph cf) b) = true -> vd b <> VDirty) /\ reachable cf decls r /\ rs_ctl r = CIdle /\ accepts cf r (evs ++ [EReturn ok]) = Some r' /\ Forall (obeys vd tm) evs /\ ok = Some false /\ length evs = 16%nat /\ (4 * run_potential (cf_graph cf) (rs_bs r) + 4 = 48)%nat.
Proof. exact ex_can_complete_any. Qed.

(* and from the middle of an iteration too: no reachable state that has not returned is a dead end *)
Theorem C06_no_dead_end : forall cf decls, graph_wf (cf_graph cf) -> (1 <= cf_parallelism cf)%nat -> forall vd tm, (forall b, b_phony (get_build (cf_graph cf) b) = true -> vd b <> VDirty) -> forall r, reachable cf decls r -> (forall ok, rs_ctl r <> CReturned ok) -> exists evs ok r', accepts cf r (evs ++ [EReturn ok]) = Some r' /\ rs_ctl r' = CReturned ok /\ Forall (obeys vd tm) evs /\ count_ev is_stutter evs = 0%nat /\ (length evs <= 4 * run_potential (cf_graph cf) (rs_bs r) + 7)%nat /\ (run_potential (cf_graph cf) (rs_bs r) <= 4 * length (g_builds (cf_graph cf)))%nat.
Proof. exact SchedBoundAny.C06_no_dead_end. Qed.
Print Assumptions C06_no_dead_end.

Example C06_no_dead_end_example : exists cf decls vd tm r evs ok r', graph_wf (cf_graph cf) /\ (1 <= cf_parallelism cf)%nat /\ (forall b, b_phony (get_build (cf_graph cf) b) = true -> vd b <> VDirty) /\ reachable cf decls r /\ rs_ctl r = CFinished 1%nat TSuccess false /\ accepts cf r (evs ++ [EReturn ok]) = Some r' /\ Forall (obeys vd tm) evs /\ ok = Some true /\ length evs = 20%nat /\ (4 * run_potential (cf_graph cf) (rs_bs r) + 7 = 43)%nat.
Proof. exact ex_no_dead_end. Qed.
