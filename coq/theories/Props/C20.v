(* C20 - rendering helpers of src/progress_fancy.rs: statements only; proofs in Proofs/Render*.v *)
From N2 Require Import Model.All.
From N2 Require Import Proofs.RenderTrunc Proofs.RenderBar Proofs.RenderMsg.

Theorem C20_truncate_safe : forall s max, (length (truncate s max) <= max)%nat /\ (exists t, s = truncate s max ++ t) /\ is_char_boundary s (length (truncate s max)) = true.
Proof. exact truncate_safe. Qed.
Print Assumptions C20_truncate_safe.

Theorem C20_truncate_utf8 : forall s max, utf8_ok s = true -> utf8_ok (truncate s max) = true.
Proof. exact truncate_utf8. Qed.
Print Assumptions C20_truncate_utf8.

Theorem C20_truncate_fits : forall s max, (length s <= max)%nat -> truncate s max = s.
Proof. exact truncate_fits. Qed.
Print Assumptions C20_truncate_fits.

Theorem C20_bar_width : forall c n, length (progress_bar c n) = N.to_nat n.
Proof. exact progress_bar_width. Qed.
Print Assumptions C20_bar_width.

Theorem C20_task_message : forall m secs cols, exists r, task_message m secs cols = Ok r /\ (length r <= cols)%nat /\ (utf8_ok m = true -> utf8_ok r = true).
Proof. exact task_message_ok. Qed.
Print Assumptions C20_task_message.

Theorem C20_task_message_fits : forall m secs cols, (length m + length (time_note secs) < cols)%nat -> task_message m secs cols = Ok (m ++ time_note secs).
Proof. exact task_message_fits. Qed.
Print Assumptions C20_task_message_fits.

Theorem C20_task_message_pinned_refuted : (exists m secs cols, (10 <= cols)%nat /\ utf8_ok m = true /\ (secs <= 1000000)%N /\ task_message_pinned m secs cols = Panic 30%N) /\ (exists m secs cols, (10 <= cols)%nat /\ utf8_ok m = true /\ (secs <= 1000000)%N /\ task_message_pinned m secs cols = Panic 31%N).
Proof. exact task_message_pinned_refuted. Qed.
Print Assumptions C20_task_message_pinned_refuted.
