(* C07, repaired (audit findings M2, M3) - the build log under crashes (src/db.rs).
   M2: C07_whole_records_survive only said that SOMETHING stays loaded for a step; the exact
       statement says which record: the latest one among the writes that survived, never a stale one.
   M3: the C07 statements quantify over byte prefixes of CRASH-FREE logs only; a file obtained by
       crash, recovery and append is in general not of that form, so a second crash was outside
       every theorem.  Here the files are the inductive set [crash_reach] (Proofs/FixDbCrashSpec.v):
       any alternation of  append one record with the writer model / crash to an arbitrary byte
       prefix / recovery by db_open.  Each file carries its [history]: the records it still holds
       with the byte offset where each ends; a record survives a crash at byte k iff it ends at or
       before k ([survivors k h]).
   Statements only; proofs in Proofs/FixDbCrash.v, Proofs/FixDbCrashEx.v. *)
From Coq Require Import String.
From N2 Require Import Model.All Proofs.DbSpec Proofs.FixDbCrashSpec.
From N2 Require Import Proofs.AuditNonVacuousDb Proofs.FixDbCrash Proofs.FixDbCrashEx.

(* ---- M2: the exact survival statement, over crash-free logs ---- *)

Theorem C07_whole_records_survive_exact : forall producer ws1 ws2 log1 log k, Forall in_bounds (ws1 ++ ws2) -> table_small (ws1 ++ ws2) -> log_of ws1 = Ok log1 -> log_of (ws1 ++ ws2) = Ok log -> (length log1 <= k)%nat -> exists st f j, db_open true producer (firstn k log) = OpenOk st f /\ is_prefix log1 f /\ is_prefix f log /\ db_open true producer f = OpenOk st f /\ forall b, loaded_for st b = last_applicable producer (ws1 ++ firstn j ws2) b None.
Proof. exact whole_records_survive_exact. Qed.
Print Assumptions C07_whole_records_survive_exact.

(* ws1 = two records of step 0 (the first superseded), the cut is inside the third write: step 0
   holds its LATEST record, not the stale one *)
Example C07_whole_records_survive_exact_example : exists producer ws1 ws2 log1 log k, Forall in_bounds (ws1 ++ ws2) /\ table_small (ws1 ++ ws2) /\ log_of ws1 = Ok log1 /\ log_of (ws1 ++ ws2) = Ok log /\ (length log1 <= k)%nat /\ (k < length log)%nat /\ last_applicable producer (ws1 ++ firstn 0 ws2) 0 None = Some ([bs "y"], 22%N) /\ exists st f, db_open true producer (firstn k log) = OpenOk st f /\ loaded_for st 0 = Some ([bs "y"], 22%N) /\ loaded_for st 0 <> Some ([bs "x"], 11%N).
Proof.
  exists nv_prod, (firstn 2 nv_ws), (skipn 2 nv_ws), nv_log1, nv_log, 60.
  split; [exact nv_ws_in_bounds|]. split; [exact nv_ws_small|]. split; [vm_compute; reflexivity|].
  split; [exact nv_log_ok|]. split; [vm_compute; repeat constructor|]. split; [vm_compute; repeat constructor|].
  split; [vm_compute; reflexivity|].
  exists (open_st (db_open true nv_prod (firstn 60 nv_log))), (open_file (db_open true nv_prod (firstn 60 nv_log))).
  split; [vm_compute; reflexivity|]. split; [vm_compute; reflexivity | vm_compute; discriminate].
Qed.

(* ---- M3: the inductive crash model ---- *)

(* a reachable file opens, unchanged, and what is loaded is exactly its history *)
Theorem C07_reachable_opens_exact : forall producer f h, crash_reach producer f h -> exists st, db_open true producer f = OpenOk st f /\ forall b, loaded_for st b = last_applicable producer (records h) b None.
Proof. exact reachable_opens_exact. Qed.
Print Assumptions C07_reachable_opens_exact.

(* every byte prefix of every reachable file opens, to a prefix of it ending at a record boundary,
   idempotently; the result is reachable again, and what is loaded is exactly the whole records
   that survived: the entries of the history that end at or before the cut - a prefix of the
   history, all of them inside the recovered file *)
Theorem C07_every_reachable_prefix_opens : forall producer f h k, crash_reach producer f h -> exists st f', db_open true producer (firstn k f) = OpenOk st f' /\ is_prefix f' f /\ (length f' <= Nat.max k 8)%nat /\ db_open true producer f' = OpenOk st f' /\ crash_reach producer f' (survivors k h) /\ (forall b, loaded_for st b = last_applicable producer (records (survivors k h)) b None) /\ (exists j, survivors k h = firstn j h) /\ (forall e, In e (survivors k h) -> (snd e <= length f')%nat).
Proof. exact every_reachable_prefix_opens. Qed.
Print Assumptions C07_every_reachable_prefix_opens.

(* the writer cannot fail on a reachable file (within the limits of the format), and appending
   extends the history by the record written *)
Theorem C07_reachable_append : forall producer f h w, crash_reach producer f h -> exists st, db_open true producer f = OpenOk st f /\ (in_bounds w -> (N.of_nat (length (ld_tbl st) + length (w_outs w) + length (w_deps w)) < 16777216)%N -> exists b t, write_build (ld_tbl st) (w_outs w) (w_deps w) (w_hash w) = Ok (b, t) /\ crash_reach producer (f ++ b) (h ++ [(w, length (f ++ b))])).
Proof. exact reachable_append. Qed.
Print Assumptions C07_reachable_append.

(* the model contains everything the old statements quantify over ... *)
Theorem C07_crash_free_logs_are_reachable : forall producer ws log, Forall in_bounds ws -> table_small ws -> log_of ws = Ok log -> exists h, crash_reach producer log h /\ records h = ws.
Proof. exact crash_free_logs_are_reachable. Qed.
Print Assumptions C07_crash_free_logs_are_reachable.

(* ... and strictly more: the file reached by  write, write, crash at byte 40, recovery, append
   is not a byte prefix of ANY crash-free log (the recovery keeps the path record "y" of the torn
   write, so the path records of the appended write come in an order no crash-free write produces) *)
Theorem C07_reachable_not_only_prefixes : exists producer f h, crash_reach producer f h /\ records h = [mkWr [bs "a"] [bs "x"] 11%N; mkWr [bs "b"] [bs "y"; bs "z"] 77%N] /\ forall ws log, Forall in_bounds ws -> table_small ws -> log_of ws = Ok log -> ~ is_prefix f log.
Proof. exists nv_prod, ex_f4, ex_h4. split; [exact ex_f4_reach|]. split; [reflexivity | exact ex_f4_not_a_prefix]. Qed.
Print Assumptions C07_reachable_not_only_prefixes.

(* that file crashes a second time (byte 50, inside the appended build record): the record that
   survived the first crash survives again, the appended one is gone, the file is cut to 41 bytes *)
Example C07_every_reachable_prefix_opens_example : exists producer f h k, crash_reach producer f h /\ (forall ws log, Forall in_bounds ws -> table_small ws -> log_of ws = Ok log -> ~ is_prefix f log) /\ length h = 2%nat /\ (k < length f)%nat /\ records (survivors k h) = [mkWr [bs "a"] [bs "x"] 11%N] /\ exists st f', db_open true producer (firstn k f) = OpenOk st f' /\ length f' = 41%nat /\ loaded_for st 0 = Some ([bs "x"], 11%N) /\ loaded_for st 1 = None.
Proof.
  exists nv_prod, ex_f4, ex_h4, 50. split; [exact ex_f4_reach|]. split; [exact ex_f4_not_a_prefix|].
  split; [reflexivity|]. split; [vm_compute; repeat constructor|]. split; [vm_compute; reflexivity|].
  destruct ex_second_crash as (_ & st & f' & H1 & H2 & H3 & H4 & _). exists st, f'. repeat split; assumption.
Qed.
