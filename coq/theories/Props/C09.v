(* C09 - discovered dependencies: statements only; proofs in Proofs/World*.v *)
From Coq Require Import String.
From N2 Require Import Model.All Proofs.DbSpec Proofs.WorldSpec.
From N2 Require Import Proofs.WorldBase Proofs.WorldInc Proofs.WorldDeps Proofs.WorldDirty Proofs.WorldLog.

(* --- the /showIncludes filter ------------------------------------------------------- *)

Theorem C09_showincludes_filter : forall o, snd (extract_showincludes o) = join_nl (filter (fun l => negb (is_note l)) (lines o)) /\ (forall l, In l (lines (snd (extract_showincludes o))) -> strip_prefix note_prefix l = None) /\ fst (extract_showincludes o) = map include_payload (note_payloads (lines o)).
Proof. exact showincludes_filter. Qed.
Print Assumptions C09_showincludes_filter.

Theorem C09_strip_prefix_spec : forall pre l p, strip_prefix pre l = Some p <-> l = pre ++ p.
Proof. exact strip_prefix_spec. Qed.
Print Assumptions C09_strip_prefix_spec.

Theorem C09_note_payloads_spec : forall ls p, In p (note_payloads ls) <-> exists l, In l ls /\ l = note_prefix ++ p.
Proof. exact note_payloads_spec. Qed.
Print Assumptions C09_note_payloads_spec.

Theorem C09_lines_join : forall ls, ls <> [] -> Forall (fun x => ~ In 10%N x) ls -> lines (join_nl ls) = ls.
Proof. exact lines_join. Qed.
Print Assumptions C09_lines_join.

Theorem C09_lines_no_newline : forall o, Forall (fun x => ~ In 10%N x) (lines o).
Proof. exact lines_nosep. Qed.
Print Assumptions C09_lines_no_newline.

Theorem C09_include_payload_spec : forall inc, (drop_spaces inc = [] -> include_payload inc = inc) /\ (drop_spaces inc <> [] -> include_payload inc = strip_cr (drop_spaces inc)).
Proof. exact include_payload_spec. Qed.
Print Assumptions C09_include_payload_spec.

Theorem C09_drop_spaces_spec : forall l, exists n, l = repeat 32%N n ++ drop_spaces l /\ (forall c r, drop_spaces l = c :: r -> c <> 32%N).
Proof. exact drop_spaces_spec. Qed.
Print Assumptions C09_drop_spaces_spec.

Theorem C09_strip_cr_spec : forall l, (exists r, l = r ++ [13%N] /\ strip_cr l = r) \/ ((forall r, l <> r ++ [13%N]) /\ strip_cr l = l).
Proof. exact strip_cr_spec. Qed.
Print Assumptions C09_strip_cr_spec.

Theorem C09_showincludes_pinned_refuted : extract_showincludes_pinned [10%N] = ([], []) /\ lines [10%N] = [[]; []] /\ extract_showincludes [10%N] = ([], [10%N]).
Proof. exact showincludes_pinned_refuted. Qed.
Print Assumptions C09_showincludes_pinned_refuted.

(* --- the kept list ------------------------------------------------------------------ *)

Theorem C09_keep_deps_eq : forall dirtying names, keep_deps dirtying names [] = do cs <- canon_names names; Ok (kept_deps dirtying cs).
Proof. exact keep_deps_eq. Qed.
Print Assumptions C09_keep_deps_eq.

Theorem C09_keep_deps_spec : forall dirtying names l, keep_deps dirtying names [] = Ok l -> NoDup l /\ (forall d, In d l <-> exists n, In n names /\ n <> [] /\ canon n = Ok d /\ ~ In d dirtying) /\ exists cs, canon_names names = Ok cs /\ l = kept_deps dirtying cs.
Proof. exact keep_deps_spec. Qed.
Print Assumptions C09_keep_deps_spec.

Theorem C09_spellings_collapse : forall dirtying names l n1 n2 d, keep_deps dirtying names [] = Ok l -> In n1 names -> In n2 names -> n1 <> [] -> n2 <> [] -> canon n1 = Ok d -> canon n2 = Ok d -> ~ In d dirtying -> exists l1 l2, l = l1 ++ d :: l2 /\ ~ In d l1 /\ ~ In d l2.
Proof. exact spellings_collapse. Qed.
Print Assumptions C09_spellings_collapse.

Theorem C09_replace_wholesale : forall w b bd reported w1 r, record_finished w b bd reported = Ok (w1, r) -> keep_deps (wb_dirtying bd) (reported_names reported) [] = Ok (disc_of w1 b) /\ forall b', b' <> b -> disc_of w1 b' = disc_of w b'.
Proof. exact replace_wholesale. Qed.
Print Assumptions C09_replace_wholesale.

(* --- a missing discovered dependency ------------------------------------------------- *)

Theorem C09_missing_dep_is_dirty_not_error : forall g w b bd d, wb_cmdline bd <> None -> (forall n, In n (wb_dirtying bd) -> (exists t, cache_get (ws_cache w) n = Some (Some t)) \/ (cache_get (ws_cache w) n = None /\ producer_of g n = None /\ fs_get (ws_fs w) n <> None)) -> stated_generated g w (disc_of w b) -> In d (disc_of w b) -> fs_get (ws_fs w) d = None -> cache_get (ws_cache w) d = None \/ cache_get (ws_cache w) d = Some None -> snd (check_build_dirty g w b bd) = DDirty 1.
Proof. exact missing_dep_is_dirty_not_error. Qed.
Print Assumptions C09_missing_dep_is_dirty_not_error.

(* --- through the log ------------------------------------------------------------------ *)

Theorem C09_record_extends_log : forall w b bd reported w1 h, record_finished w b bd reported = Ok (w1, Some h) -> exists bytes, ws_log w1 = ws_log w ++ bytes /\ write_build (ws_tbl w) (wb_outs bd) (disc_of w1 b) h = Ok (bytes, ws_tbl w1).
Proof. exact record_extends_log. Qed.
Print Assumptions C09_record_extends_log.

Theorem C09_log_is_record : forall w ws b bd reported w1 h, log_is w ws -> record_finished w b bd reported = Ok (w1, Some h) -> log_is w1 (ws ++ [wr_of bd (disc_of w1 b) h]).
Proof. exact log_is_record. Qed.
Print Assumptions C09_log_is_record.

Theorem C09_log_is_no_record : forall w ws b bd reported w1, log_is w ws -> record_finished w b bd reported = Ok (w1, None) -> log_is w1 ws.
Proof. exact log_is_no_record. Qed.
Print Assumptions C09_log_is_no_record.

Theorem C09_log_is_fresh : forall g fs wL, load_state g fs [] = Ok wL -> log_is wL [].
Proof. exact log_is_fresh. Qed.
Print Assumptions C09_log_is_fresh.

Theorem C09_load_log_is : forall g fs w ws, log_is w ws -> Forall in_bounds ws -> table_small ws -> exists wL, load_state g fs (ws_log w) = Ok wL /\ ws_fs wL = fs /\ ws_cache wL = [] /\ ws_log wL = ws_log w /\ ws_tbl wL = ws_tbl w /\ log_is wL ws /\ forall b, assoc_nat b (ws_disc wL) = option_map fst (last_applicable (producer_of g) ws b None) /\ assoc_nat b (ws_hashes wL) = option_map snd (last_applicable (producer_of g) ws b None).
Proof. exact load_log_is. Qed.
Print Assumptions C09_load_log_is.

Theorem C09_persist_through_log : forall g fs w ws b bd reported w1 h, log_is w ws -> record_finished w b bd reported = Ok (w1, Some h) -> Forall in_bounds (ws ++ [wr_of bd (disc_of w1 b) h]) -> table_small (ws ++ [wr_of bd (disc_of w1 b) h]) -> exists wL, load_state g fs (ws_log w1) = Ok wL /\ ws_fs wL = fs /\ ws_cache wL = [] /\ ws_log wL = ws_log w1 /\ log_is wL (ws ++ [wr_of bd (disc_of w1 b) h]) /\ forall b', if applicable (producer_of g) (wr_of bd (disc_of w1 b) h) b' then disc_of wL b' = disc_of w1 b /\ assoc_nat b' (ws_hashes wL) = Some h else assoc_nat b' (ws_disc wL) = option_map fst (last_applicable (producer_of g) ws b' None) /\ assoc_nat b' (ws_hashes wL) = option_map snd (last_applicable (producer_of g) ws b' None).
Proof. exact persist_through_log. Qed.
Print Assumptions C09_persist_through_log.

Theorem C09_persist_own_step : forall g fs w ws b bd reported w1 h, log_is w ws -> record_finished w b bd reported = Ok (w1, Some h) -> Forall in_bounds (ws ++ [wr_of bd (disc_of w1 b) h]) -> table_small (ws ++ [wr_of bd (disc_of w1 b) h]) -> wb_outs bd <> [] -> (forall o, In o (wb_outs bd) -> producer_of g o = Some b) -> exists wL, load_state g fs (ws_log w1) = Ok wL /\ ws_fs wL = fs /\ ws_cache wL = [] /\ disc_of wL b = disc_of w1 b /\ assoc_nat b (ws_hashes wL) = Some h.
Proof. exact persist_own_step. Qed.
Print Assumptions C09_persist_own_step.
