(* C17 - statements only.  The orchestration model is thin; the weight of this property is on the
   acceptance of the real traces (regeneration phase, reload, reuse) by the Sched and World models. *)
From N2 Require Import Model.All Model.Build Proofs.BuildProps.

Theorem C17_failure_stops : forall (W G : Type) (load : W -> outcome G) (regen : G -> W -> W * option bool * nat) (main : G -> bool -> W -> W * option bool * nat) w0 g0 w1 r1 t1, load w0 = Ok g0 -> regen g0 w0 = (w1, r1, t1) -> r1 <> Some true -> bt_main_on (build load regen main w0) = None /\ bt_world (build load regen main w0) = w1 /\ (forall n, bt_result (build load regen main w0) <> BOk n).
Proof. exact (@regen_failure_stops). Qed.
Print Assumptions C17_failure_stops.

Theorem C17_reload_uses_new_text : forall (W G : Type) (load : W -> outcome G) (regen : G -> W -> W * option bool * nat) (main : G -> bool -> W -> W * option bool * nat) w0 g0 w1 t1 gm reuse, load w0 = Ok g0 -> regen g0 w0 = (w1, Some true, S t1) -> bt_main_on (build load regen main w0) = Some (gm, reuse) -> load w1 = Ok gm /\ reuse = false.
Proof. exact (@reload_uses_new_world). Qed.
Print Assumptions C17_reload_uses_new_text.

Theorem C17_reload_error_stops : forall (W G : Type) (load : W -> outcome G) (regen : G -> W -> W * option bool * nat) (main : G -> bool -> W -> W * option bool * nat) w0 g0 w1 t1, load w0 = Ok g0 -> regen g0 w0 = (w1, Some true, S t1) -> (forall g, load w1 <> Ok g) -> bt_result (build load regen main w0) = BError /\ bt_main_on (build load regen main w0) = None.
Proof. exact (@reload_error_stops). Qed.
Print Assumptions C17_reload_error_stops.

Theorem C17_no_regen_when_clean : forall (W G : Type) (load : W -> outcome G) (regen : G -> W -> W * option bool * nat) (main : G -> bool -> W -> W * option bool * nat) w0 g0 w1, load w0 = Ok g0 -> regen g0 w0 = (w1, Some true, 0) -> bt_main_on (build load regen main w0) = Some (g0, true).
Proof. exact (@no_regen_reuses). Qed.
Print Assumptions C17_no_regen_when_clean.

Theorem C17_tasks_sum : forall (W G : Type) (load : W -> outcome G) (regen : G -> W -> W * option bool * nat) (main : G -> bool -> W -> W * option bool * nat) w0 n, bt_result (build load regen main w0) = BOk n -> exists g0 w1 t1 gm reuse w2 t2, load w0 = Ok g0 /\ regen g0 w0 = (w1, Some true, t1) /\ bt_main_on (build load regen main w0) = Some (gm, reuse) /\ main gm reuse w1 = (w2, Some true, t2) /\ n = t1 + t2.
Proof. exact (@tasks_sum). Qed.
Print Assumptions C17_tasks_sum.
