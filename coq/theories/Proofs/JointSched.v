(* What one accepted scheduler event does to the control state and the state vector, in the form
   the joint proofs use (one lemma, [ev_sum_holds], instead of 19 cases of [step]). *)
From Coq Require Import Lia ZArith List Bool Arith.
From N2 Require Import Model.All Proofs.SchedSpec Proofs.SchedInv Proofs.SchedRunBase
     Proofs.SchedRunStep Proofs.SchedRunCore Proofs.SchedRunAux Proofs.SchedRunRInv Proofs.SchedRunThms.
Import ListNotations.

Definition same_states (r r' : rstate) : Prop :=
  forall x, get_state (rs_bs r') x = get_state (rs_bs r) x.

Section Sum.
Variable cf : config.
Variable decls : list (bytes * nat).
Notation g := (cf_graph cf).
Notation nb := (length (g_builds (cf_graph cf))).

Definition set_sum (r : rstate) (b : nat) (p n : bstate) (r' : rstate) : Prop :=
  b < nb /\ get_state (rs_bs r) b = p /\ get_state (rs_bs r') b = n /\ upd_at (rs_bs r) (rs_bs r') b /\
  match p, n with
  | Queued, Running => rs_ctl r = CIdle /\ rs_ctl r' = CStarting b
  | Ready, Done =>
    (exists v rec, rs_ctl r = CVerdict b v rec /\
                   ((v = VClean /\ rec = false) \/ (v = VDirty /\ cf_adopt cf = true))) /\
    rs_ctl r' = CIdle
  | Ready, Queued =>
    rs_ctl r = CVerdict b VDirty false /\ cf_adopt cf = false /\
    (rs_ctl r' = CIdle \/ rs_ctl r' = CVerdict b VError false)
  | Want, Ready => rs_ctl r = CIdle /\ rs_ctl r' = CIdle
  | Running, Done => (exists rec, rs_ctl r = CFinished b TSuccess rec) /\ rs_ctl r' = CIdle
  | Running, Failed => (exists rec, rs_ctl r = CFinished b TFailure rec) /\ rs_ctl r' = CIdle
  | _, _ => False
  end.

Definition ev_sum (r : rstate) (e : event) (r' : rstate) : Prop :=
  match e with
  | EUpdate _ | EQuiesce _ => r' = r /\ rs_ctl r = CIdle
  | EPopReady b =>
    same_states r r' /\ rs_ctl r = CIdle /\ rs_ctl r' = CChecking b /\
    b < nb /\ get_state (rs_bs r) b = Ready
  | EVerdict b v =>
    same_states r r' /\ rs_ctl r = CChecking b /\ rs_ctl r' = CVerdict b v false /\
    b < nb /\ get_state (rs_bs r) b = Ready /\ (v = VDirty -> b_phony (get_build g b) = false)
  | ERecord b =>
    same_states r r' /\
    ((rs_ctl r = CVerdict b VDirty false /\ cf_adopt cf = true /\ rs_ctl r' = CVerdict b VDirty true /\
      b < nb /\ get_state (rs_bs r) b = Ready) \/
     (rs_ctl r = CFinished b TSuccess false /\ rs_ctl r' = CFinished b TSuccess true /\
      b < nb /\ get_state (rs_bs r) b = Running))
  | ESet b p n => set_sum r b p n r'
  | EStart b =>
    same_states r r' /\ rs_ctl r = CStarting b /\ rs_ctl r' = CIdle /\
    b < nb /\ get_state (rs_bs r) b = Running
  | EFinish b t =>
    same_states r r' /\ rs_ctl r = CIdle /\ rs_ctl r' = CFinished b t false /\
    b < nb /\ get_state (rs_bs r) b = Running
  | EReturn ok =>
    same_states r r' /\ rs_ctl r' = CReturned ok /\
    (rs_ctl r = CIdle \/ (exists b rec, rs_ctl r = CVerdict b VError rec) \/
     (exists b t rec, rs_ctl r = CFinished b t rec /\ t <> TSuccess))
  end.

Local Ltac use_set r b E Hl :=
  match goal with Hs : bs_set ?s0 b _ ?st = Ok ?s' |- _ =>
    let Hne := fresh "Hne" in
    assert (Hne : get_state s0 b <> Unknown)
      by (change (get_state s0 b) with (get_state (rs_bs r) b); rewrite E; discriminate);
    let L := fresh "L" in let Gb := fresh "Gb" in let U := fresh "U" in
    destruct (set_shape cf s0 b st s' Hl Hne Hs) as (L & Gb & U);
    change (upd_at s0 s' b) with (upd_at (rs_bs r) s' b) in U
  end.

Local Ltac ss := try (unfold same_states; intro; reflexivity).

Lemma ev_sum_holds r e r' : RInv cf decls r -> step cf r e r' -> ev_sum r e r'.
Proof.
  intros Hinv Hstep. pose proof (ri_core _ _ _ Hinv) as C. pose proof (ri_ctl _ _ _ Hinv) as K.
  pose proof (bc_len _ _ _ C) as Hl.
  destruct Hstep; cbn [ev_sum set_sum same_states with_bs with_ctl rs_bs rs_ctl rs_tasks_run];
    match goal with Hc : rs_ctl _ = _ |- _ => pose proof K as K0; rewrite Hc in K; cbn [ctl_ok] in K end.
  - (* update *) auto.
  - (* run *)
    match goal with E0 : get_state _ b = _ |- _ => rename E0 into E end.
    use_set r b E Hl. repeat split; auto; ss.
  - (* start *) destruct K as (_ & _ & L & E). repeat split; auto; ss.
  - (* pop *)
    match goal with E0 : get_state _ b = _ |- _ => rename E0 into E end.
    repeat split; auto; ss. apply (BCore_range g decls _ b C). rewrite E. discriminate.
  - (* verdict *) destruct K as (_ & _ & L & E). repeat split; auto; ss.
  - (* adopt record *)
    destruct K as (L & _ & [(E & _)|(Ev & _)]); [|discriminate].
    split; [ss|]. left. repeat split; auto; ss.
  - (* ready done *)
    destruct K as (L & _ & [(E & _)|(Ev & _)]);
      [|subst v; match goal with Hv : _ \/ _ |- _ => destruct Hv as [[? _]|[? _]]; discriminate end].
    use_set r b E Hl. repeat split; auto; ss. exists v, rec. auto.
  - (* enqueue *)
    destruct K as (L & _ & [(E & _)|(Ev & _)]); [|discriminate].
    use_set r b E Hl. repeat split; auto; ss.
  - (* enqueue fail *)
    destruct K as (L & _ & [(E & _)|(Ev & _)]); [|discriminate].
    use_set r b E Hl. repeat split; auto; ss.
  - (* error return *) split; [ss|]. split; [auto|]. right. left. eauto.
  - (* promote *)
    match goal with E0 : get_state _ d = _ |- _ => rename E0 into E end.
    use_set r d E Hl. repeat split; auto; ss.
  - (* quiesce *) auto.
  - (* finish *)
    match goal with E0 : get_state _ b = _ |- _ => rename E0 into E end.
    repeat split; auto; ss. apply (BCore_range g decls _ b C). rewrite E. discriminate.
  - (* record *)
    destruct K as (_ & _ & L & E). split; [ss|]. right. repeat split; auto; ss.
  - (* done *)
    destruct K as (_ & _ & L & E). use_set r b E Hl. repeat split; auto; ss. exists rec. auto.
  - (* failed *)
    destruct K as (_ & _ & L & E). use_set r b E Hl. repeat split; auto; ss. exists rec. auto.
  - (* budget *) split; [ss|]. split; [auto|]. right. right. exists b, TFailure, rec. split; [auto|discriminate].
  - (* interrupted *) split; [ss|]. split; [auto|]. right. right. exists b, TInterrupted, rec. split; [auto|discriminate].
  - (* return *) split; [ss|]. split; [auto|]. left. auto.
Qed.

Lemma accept_sum r e r' : RInv cf decls r -> accept1 cf r e = Some r' -> ev_sum r e r' /\ RInv cf decls r'.
Proof.
  intros Hinv H. pose proof (accept1_step cf r e r' H) as Hs.
  split; [now apply ev_sum_holds|exact (step_RInv cf decls r e r' Hinv Hs)].
Qed.

End Sum.
