(* C10, spelling independence with include/subninja (2): statement sequences, whole files, flat
   sequences.  [run_stmts_files], [run_file] and [run_flat] take related statements and related
   loaders to related outcomes. *)
From Coq Require Import String.
From N2 Require Import Model.All Proofs.EvalScope Proofs.GraphDedup Proofs.GraphAddBuild Proofs.GraphLoad.
From N2 Require Import Proofs.ParseSpell Proofs.ParseRound1.
From N2 Require Import Proofs.LoadGraphSpec Proofs.LoadGraphBuild Proofs.LoadGraphRun Proofs.LoadGraphNorm
     Proofs.LoadGraphFile Proofs.LoadGraphNames.
From N2 Require Import Proofs.LoadInclSpec Proofs.LoadInclRun Proofs.LoadInclFlat.
From N2 Require Import Proofs.LoadInclSpellSpec Proofs.LoadInclSpellStep.

(* ------------------------------------------------------------------------------------ *)
(* an include/subninja line *)

Lemma child_step_sim strict rec1 rec2 fs1 fs2 reading l1 l2 filename st p1 p2 vs :
  graph_sim strict l1 l2 -> norm_eval p1 = norm_eval p2 -> is_child_line st p1 ->
  child_sim strict rec1 rec2 fs1 fs2 reading st vs ->
  outcome_sim strict (graph_sim strict) (child_step rec1 fs1 reading l1 filename p1 vs)
                                         (child_step rec2 fs2 reading l2 filename p2 vs).
Proof.
  intros S N CL CS. unfold child_step. rewrite <- (include_path_sim p1 p2 vs N).
  destruct (include_path p1 vs) as [path|m|x|x|] eqn:P; cbn [bind outcome_sim]; auto.
  destruct (existsb (bytes_eqb path) reading) eqn:X; [cbn [outcome_sim]; intros _; reflexivity|].
  specialize (CS p1 path CL P X).
  destruct (assoc_b path fs1) as [c1|], (assoc_b path fs2) as [c2|]; try contradiction.
  - apply CS. apply intern_sim. exact S.
  - cbn [outcome_sim]. intros _. reflexivity.
Qed.

Lemma stmt_step_files_sim strict rec1 rec2 fs1 fs2 reading l1 l2 filename st1 st2 vs :
  graph_sim strict l1 l2 -> stmt_sim strict st1 st2 ->
  child_sim strict rec1 rec2 fs1 fs2 reading st1 vs ->
  outcome_sim strict (graph_sim strict) (stmt_step_files rec1 fs1 reading l1 filename st1 vs)
                                         (stmt_step_files rec2 fs2 reading l2 filename st2 vs).
Proof.
  intros S H CS. pose proof (stmt_sim_shape _ _ _ H) as Sh.
  destruct st1 as [n1 r1|b1|d1|p1|p1|n1 k1], st2 as [n2 r2|b2|d2|p2|p2|n2 k2]; try contradiction;
    cbn [stmt_step_files];
    try exact (stmt_step_sim strict l1 l2 filename _ _ vs S H).
  - eapply child_step_sim; [exact S | exact Sh | left; reflexivity | exact CS].
  - eapply child_step_sim; [exact S | exact Sh | right; reflexivity | exact CS].
Qed.

(* a statement sequence, the children loaded by [rec1] / [rec2] from the file maps [fs1] / [fs2] *)
Lemma run_stmts_rec_sim strict rec1 rec2 fs1 fs2 reading filename : forall sts1 sts2 l1 l2,
  stmts_sim strict sts1 sts2 ->
  Forall (fun sv => child_sim strict rec1 rec2 fs1 fs2 reading (fst sv) (snd sv)) sts1 ->
  graph_sim strict l1 l2 ->
  outcome_sim strict (graph_sim strict) (run_stmts_rec rec1 fs1 reading l1 filename sts1)
                                         (run_stmts_rec rec2 fs2 reading l2 filename sts2).
Proof.
  intros sts1 sts2 l1 l2 H. revert l1 l2.
  induction H as [|[st1 vs1] [st2 vs2] a b [H1 H2] H IH]; intros l1 l2 C S.
  - cbn [run_stmts_rec outcome_sim]. exact S.
  - cbn [fst snd] in H1, H2. subst vs2. inversion C as [|? ? C1 C2]; subst. cbn [fst snd] in C1.
    cbn [run_stmts_rec].
    apply (outcome_sim_bind strict (graph_sim strict)).
    + apply stmt_step_files_sim; assumption.
    + intros la lb Sa. apply IH; assumption.
Qed.

(* ------------------------------------------------------------------------------------ *)
(* the end of a file *)

Lemma finish_sim_same strict buf filename l1 l2 r :
  graph_sim strict l1 l2 ->
  outcome_sim strict (graph_sim strict) (finish buf filename l1 r) (finish buf filename l2 r).
Proof.
  intro S. destruct r as [[[st|] vs] z|m o|x|x|]; cbn [finish outcome_sim]; auto.
  - apply graph_sim_with_builddir. exact S.
  - destruct (format_parse_error buf filename m o); cbn [bind outcome_sim]; auto.
Qed.

(* ------------------------------------------------------------------------------------ *)
(* one file map: the children are the same texts, read with the same variables *)

Lemma run_file_graph_sim strict fs : forall depth reading l1 l2 filename text inherited,
  graph_sim strict l1 l2 ->
  outcome_sim strict (graph_sim strict) (run_file depth fs reading l1 filename text inherited)
                                         (run_file depth fs reading l2 filename text inherited).
Proof.
  induction depth as [|depth IH]; intros reading l1 l2 filename text inherited S.
  - cbn [run_file outcome_sim]. reflexivity.
  - cbn [run_file].
    apply (outcome_sim_bind strict (graph_sim strict)).
    + apply run_stmts_rec_sim; [apply stmts_sim_refl | | exact S].
      apply Forall_forall. intros [st vs] _. cbn [fst snd]. intros p path CL P X.
      destruct (assoc_b path fs) as [c|]; [|exact I].
      intros la lb Sa. apply IH. exact Sa.
    + intros la lb Sa. apply finish_sim_same. exact Sa.
Qed.

Lemma child_sim_same strict depth fs reading st vs :
  child_sim strict (run_file depth fs) (run_file depth fs) fs fs reading st vs.
Proof.
  intros p path CL P X. destruct (assoc_b path fs) as [c|]; [|exact I].
  intros la lb Sa. apply run_file_graph_sim. exact Sa.
Qed.

(* deliverable 1: [run_stmts_files] is invariant under the statement equivalence *)
Theorem run_stmts_files_sim strict depth fs reading filename sts1 sts2 l1 l2 :
  stmts_sim strict sts1 sts2 -> graph_sim strict l1 l2 ->
  outcome_sim strict (graph_sim strict) (run_stmts_files depth fs reading l1 filename sts1)
                                         (run_stmts_files depth fs reading l2 filename sts2).
Proof.
  intros H S. unfold run_stmts_files. apply run_stmts_rec_sim; [exact H | | exact S].
  apply Forall_forall. intros [st vs] _. apply child_sim_same.
Qed.

(* in the vocabulary of the one-file proof *)
Theorem run_stmts_files_norm depth fs reading filename sts1 sts2 l1 l2 :
  stmts_norm_eq sts1 sts2 -> graph_sim true l1 l2 ->
  outcome_sim true (graph_sim true) (run_stmts_files depth fs reading l1 filename sts1)
                                     (run_stmts_files depth fs reading l2 filename sts2).
Proof. intros H S. apply run_stmts_files_sim; [apply stmts_norm_eq_sim; exact H | exact S]. Qed.

(* two file maps: every include line of the sequence finds related children *)
Theorem run_stmts_files_sim2 strict depth fs1 fs2 reading filename sts1 sts2 l1 l2 :
  stmts_sim strict sts1 sts2 ->
  Forall (fun sv => child_sim strict (run_file depth fs1) (run_file depth fs2) fs1 fs2 reading (fst sv) (snd sv)) sts1 ->
  graph_sim strict l1 l2 ->
  outcome_sim strict (graph_sim strict) (run_stmts_files depth fs1 reading l1 filename sts1)
                                         (run_stmts_files depth fs2 reading l2 filename sts2).
Proof. intros H C S. unfold run_stmts_files. apply run_stmts_rec_sim; assumption. Qed.

(* ------------------------------------------------------------------------------------ *)
(* flat sequences *)

Lemma fitem_step_sim strict l1 l2 it1 it2 :
  graph_sim strict l1 l2 -> fitem_sim strict it1 it2 ->
  outcome_sim strict (graph_sim strict) (fitem_step l1 it1) (fitem_step l2 it2).
Proof.
  intros S H. destruct it1 as [f1 st1 vs1|vs1], it2 as [f2 st2 vs2|vs2]; cbn [fitem_sim] in H; try contradiction.
  - destruct H as (-> & H & ->). pose proof (stmt_sim_shape _ _ _ H) as Sh.
    destruct st1 as [n1 r1|b1|d1|p1|p1|n1 k1], st2 as [n2 r2|b2|d2|p2|p2|n2 k2]; try contradiction;
      cbn [fitem_step];
      try exact (stmt_step_sim strict l1 l2 f2 _ _ vs2 S H).
    + rewrite (include_path_sim p1 p2 vs2 Sh).
      destruct (include_path p2 vs2); cbn [bind outcome_sim]; auto. apply intern_sim. exact S.
    + rewrite (include_path_sim p1 p2 vs2 Sh).
      destruct (include_path p2 vs2); cbn [bind outcome_sim]; auto. apply intern_sim. exact S.
  - subst vs2. cbn [fitem_step outcome_sim]. apply graph_sim_with_builddir. exact S.
Qed.

Theorem run_flat_sim strict : forall items1 items2 l1 l2,
  Forall2 (fitem_sim strict) items1 items2 -> graph_sim strict l1 l2 ->
  outcome_sim strict (graph_sim strict) (run_flat l1 items1) (run_flat l2 items2).
Proof.
  intros items1 items2 l1 l2 H. revert l1 l2.
  induction H as [|it1 it2 a b H1 H IH]; intros l1 l2 S.
  - cbn [run_flat outcome_sim]. exact S.
  - cbn [run_flat]. apply (outcome_sim_bind strict (graph_sim strict)).
    + apply fitem_step_sim; assumption.
    + intros la lb Sa. apply IH. exact Sa.
Qed.

(* ------------------------------------------------------------------------------------ *)
(* what [graph_sim] says by name (the form of C10_graph_spelling_independent) *)

Lemma view_files l1 l2 b : l_files l1 = l_files l2 -> view l1 b = view l2 b.
Proof.
  intro F. unfold view. f_equal; apply map_ext; intro id; apply file_nm_files; exact F.
Qed.

Lemma unline_view_view l b : unline_view (view l b) = view l (unline_lb b).
Proof. reflexivity. Qed.

Lemma build_sim_strict b1 b2 : build_sim true b1 b2 -> b1 = b2.
Proof.
  intros [H L]. specialize (L eq_refl).
  destruct b1 as [f1 n1 i1 a1 c1 d1 o1 e1 g1 h1 j1 k1 m1 p1 q1 r1], b2 as [f2 n2 i2 a2 c2 d2 o2 e2 g2 h2 j2 k2 m2 p2 q2 r2].
  unfold unline_lb in H.
  cbn [lb_file lb_line lb_ins lb_explicit_ins lb_implicit_ins lb_order_only_ins
    lb_outs lb_explicit_outs lb_cmdline lb_desc lb_depfile lb_showincludes lb_rspfile lb_pool lb_hide_success
    lb_hide_progress] in *. inversion H. subst. reflexivity.
Qed.

Lemma builds_sim_strict bs1 bs2 : Forall2 (build_sim true) bs1 bs2 -> bs1 = bs2.
Proof. induction 1 as [|x y a b H1 H IH]; [reflexivity|]. rewrite (build_sim_strict _ _ H1), IH. reflexivity. Qed.

Lemma builds_sim_unline strict bs1 bs2 : Forall2 (build_sim strict) bs1 bs2 -> map unline_lb bs1 = map unline_lb bs2.
Proof. induction 1 as [|x y a b [H1 _] H IH]; [reflexivity|]. cbn [map]. rewrite H1, IH. reflexivity. Qed.

Theorem graph_sim_view strict l1 l2 : graph_sim strict l1 l2 ->
  map (fun b => unline_view (view l1 b)) (l_builds l1) = map (fun b => unline_view (view l2 b)) (l_builds l2) /\
  l_pools l1 = l_pools l2 /\
  map (file_nm l1) (l_defaults l1) = map (file_nm l2) (l_defaults l2) /\
  l_builddir l1 = l_builddir l2.
Proof.
  intros [F B D R P BD W]. split; [|split; [exact P|split; [|exact BD]]].
  - pose proof (builds_sim_unline _ _ _ B) as U.
    transitivity (map (view l1) (map unline_lb (l_builds l1))); [rewrite map_map; reflexivity|].
    rewrite U, map_map. apply map_ext. intro b. rewrite unline_view_view. apply view_files. exact F.
  - rewrite D. apply map_ext. intro id. apply file_nm_files. exact F.
Qed.

Theorem graph_sim_strict_view l1 l2 : graph_sim true l1 l2 ->
  l_builds l1 = l_builds l2 /\ l_warnings l1 = l_warnings l2 /\
  map (view l1) (l_builds l1) = map (view l2) (l_builds l2).
Proof.
  intros [F B D R P BD W]. pose proof (builds_sim_strict _ _ B) as E.
  split; [exact E|]. split; [exact (W eq_refl)|]. rewrite E. apply map_ext. intro b. apply view_files. exact F.
Qed.
