(* Db log: loading does not depend on how the steps are numbered (any file bytes). *)
From N2 Require Import Model.All Proofs.DbSpec.
From Coq Require Import Lia.

Section Renumber.
  Variable sigma : nat -> nat.
  Hypothesis sigma_inj : forall x y, sigma x = sigma y -> x = y.
  Variable producer : bytes -> option nat.

  Definition producer' : bytes -> option nat := fun n => option_map sigma (producer n).

  Definition map_st (st : loaded) : loaded :=
    mkLoaded (ld_tbl st) (map (fun e : nat * (list bytes * N) => (sigma (fst e), snd e)) (ld_builds st)).

  Definition map_out {A B} (f : A -> B) (o : outcome A) : outcome B :=
    match o with
    | Ok a => Ok (f a)
    | Err m => Err m
    | Panic s => Panic s
    | OutOfBounds s => OutOfBounds s
    | OutOfFuel => OutOfFuel
    end.

  Lemma sigma_eqb x y : (sigma x =? sigma y) = (x =? y).
  Proof.
    destruct (Nat.eqb_spec x y) as [->|Hne]; [apply Nat.eqb_refl|].
    apply Nat.eqb_neq. intros H. apply Hne, sigma_inj, H.
  Qed.

  Lemma unique_build_renumber fixed tbl : forall outs u obs,
    unique_build fixed producer' tbl outs (option_map sigma u) obs =
    map_out (option_map sigma) (unique_build fixed producer tbl outs u obs).
  Proof.
    induction outs as [|id outs IH]; intros u obs; [reflexivity|].
    cbn [unique_build]. destruct obs; [apply IH|].
    destruct (nth_error tbl (N.to_nat id)) as [name|]; [|reflexivity].
    unfold producer' at 1. destruct (producer name) as [b|]; cbn [option_map].
    - destruct u as [u'|]; cbn [option_map].
      + rewrite sigma_eqb. destruct (u' =? b).
        * apply (IH (Some u')).
        * apply (IH None).
      + apply (IH (Some b)).
    - destruct fixed.
      + apply (IH None).
      + apply IH.
  Qed.

  Lemma apply_records_renumber fixed : forall rs st,
    apply_records fixed producer' rs (map_st st) = map_out map_st (apply_records fixed producer rs st).
  Proof.
    induction rs as [|r rs IH]; intros st; [reflexivity|].
    destruct r as [name|outs deps hash]; cbn [apply_records].
    - apply (IH (mkLoaded (ld_tbl st ++ [name]) (ld_builds st))).
    - change (ld_tbl (map_st st)) with (ld_tbl st).
      pose proof (unique_build_renumber fixed (ld_tbl st) outs None false) as Hu.
      cbn [option_map] in Hu. rewrite Hu. clear Hu.
      destruct (unique_build fixed producer (ld_tbl st) outs None false) as [u| | | |]; try reflexivity.
      cbn [map_out bind].
      destruct (names_of (ld_tbl st) deps) as [dn| | | |]; try reflexivity.
      cbn [bind]. destruct u as [b|]; cbn [option_map].
      + apply (IH (mkLoaded (ld_tbl st) ((b, (dn, hash)) :: ld_builds st))).
      + apply IH.
  Qed.

  Lemma db_open_renumber fixed log st f :
    db_open fixed producer log = OpenOk st f -> db_open fixed producer' log = OpenOk (map_st st) f.
  Proof.
    unfold db_open.
    destruct (fixed && (length log <? 8)); [intros [= <- <-]; reflexivity|].
    destruct (take 4 log) as [[sig r]|]; [|discriminate].
    destruct (negb (bytes_eqb sig _)); [discriminate|].
    destruct (take 4 r) as [[v body]|]; [|discriminate].
    destruct (negb (of_le v =? 1)%N); [discriminate|].
    destruct (parse_records (S (length body)) body) as [rs tail].
    change (mkLoaded [] []) with (map_st (mkLoaded [] [])) at 2.
    rewrite apply_records_renumber.
    destruct (apply_records fixed producer rs (mkLoaded [] [])) as [st0| | | |]; try discriminate.
    cbn [map_out]. destruct fixed.
    - intros [= <- <-]. reflexivity.
    - destruct (length tail <=? 1); [|discriminate]. intros [= <- <-]. reflexivity.
  Qed.

  Lemma assoc_renumber {V} b : forall l : list (nat * V),
    assoc_nat (sigma b) (map (fun e => (sigma (fst e), snd e)) l) = assoc_nat b l.
  Proof.
    induction l as [|[k v] l IH]; [reflexivity|].
    cbn [map assoc_nat fst snd]. rewrite sigma_eqb, IH. reflexivity.
  Qed.

  Lemma loaded_for_renumber st b : loaded_for (map_st st) (sigma b) = loaded_for st b.
  Proof. unfold loaded_for, map_st. cbn [ld_builds]. apply assoc_renumber. Qed.
End Renumber.

Lemma db_renumbering_invariant : forall producer sigma log st1 st2 f1 f2,
  (forall x y : nat, sigma x = sigma y -> x = y) ->
  db_open true producer log = OpenOk st1 f1 ->
  db_open true (fun n => option_map sigma (producer n)) log = OpenOk st2 f2 ->
  f2 = f1 /\ ld_tbl st2 = ld_tbl st1 /\ forall b, loaded_for st2 (sigma b) = loaded_for st1 b.
Proof.
  intros producer sigma log st1 st2 f1 f2 Hinj H1 H2.
  apply (db_open_renumber sigma Hinj) in H1. unfold producer' in H1.
  rewrite H1 in H2. injection H2 as <- <-.
  split; [reflexivity|]. split; [reflexivity|]. intros b. now apply loaded_for_renumber.
Qed.

(* the form pinned in Props/C08.v *)
Lemma db_renumbering_invariant_same_file : forall producer sigma log st1 st2,
  (forall x y : nat, sigma x = sigma y -> x = y) ->
  db_open true producer log = OpenOk st1 log ->
  db_open true (fun n => option_map sigma (producer n)) log = OpenOk st2 log ->
  forall b, loaded_for st2 (sigma b) = loaded_for st1 b.
Proof.
  intros producer sigma log st1 st2 Hinj H1 H2.
  apply (db_renumbering_invariant producer sigma log st1 st2 log log Hinj H1 H2).
Qed.

(* whatever one numbering loads (from any bytes, torn or not), the other loads too *)
Lemma db_renumbering_opens : forall producer sigma log st1 f,
  (forall x y : nat, sigma x = sigma y -> x = y) ->
  db_open true producer log = OpenOk st1 f ->
  exists st2, db_open true (fun n => option_map sigma (producer n)) log = OpenOk st2 f /\
    ld_tbl st2 = ld_tbl st1 /\ forall b, loaded_for st2 (sigma b) = loaded_for st1 b.
Proof.
  intros producer sigma log st1 f Hinj H1.
  exists (map_st sigma st1). split; [exact (db_open_renumber sigma Hinj producer true log st1 f H1)|].
  split; [reflexivity|]. intros b. now apply loaded_for_renumber.
Qed.
