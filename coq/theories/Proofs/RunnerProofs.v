(* Proofs about Model/Runner.v: the worker threads and the channel of task::Runner.

   - every worker sends zero or more Output messages and then exactly one result
     ([worker_msgs_wf], [worker_msgs_total]);
   - under the invariant [WInv] (every queue is a suffix-closed "outputs then one result" or has been
     drained; [rn_running] = the number of workers whose result has not been received), a receive
     always succeeds when something is pending and what it delivers belongs to a pending worker
     ([rn_recv_spec]);
   - Runner::wait returns, whatever order the channel delivers in ([rn_wait_returns]);
   - the -j test counts exactly the workers whose result has not been received
     ([rn_can_start_more_pending]);
   - both halves of the invariant are needed ([no_result_waits_forever], [running_underflow]). *)
From Coq Require Import List NArith Arith Lia Bool.
From N2 Require Import Base.Base Model.Scanner Model.Depfile Model.Proc Model.Task Model.Runner Proofs.TaskProofs.
Import ListNotations.

(* ---- well-formed queues and the invariant ---- *)

Definition wfq (id : nat) (q : list rmsg) : Prop :=
  q = [] \/ exists lines r, q = map (ROut id) lines ++ [RDone id r].

Definition WInv (rn : runner) : Prop :=
  (forall id q, In (id, q) (rn_chan rn) -> wfq id q) /\ rn_running rn = length (pending rn).

Definition nonempty (w : nat * list rmsg) : bool := match snd w with [] => false | _ => true end.

Lemma pending_filter rn : pending rn = filter nonempty (rn_chan rn).
Proof. reflexivity. Qed.

Lemma WInv_new p : WInv (rn_new p).
Proof.
  split.
  - intros id q H. destruct H.
  - reflexivity.
Qed.

Lemma worker_msgs_wf id hide showinc depfile run msgs :
  worker_msgs id hide showinc depfile run = Ok msgs -> wfq id msgs /\ msgs <> [].
Proof.
  unfold worker_msgs. intros H.
  destruct (worker_result showinc depfile run) as [r| | | |]; cbn [bind] in H; try discriminate.
  injection H as H. subst msgs. split.
  - right. eauto.
  - intros E. apply app_eq_nil in E. destruct E as [_ E]. discriminate.
Qed.

Lemma worker_msgs_total id hide showinc depfile run :
  exists msgs, worker_msgs id hide showinc depfile run = Ok msgs.
Proof.
  unfold worker_msgs. destruct (worker_result_total showinc depfile run) as [r E]. rewrite E.
  cbn [bind]. eauto.
Qed.

(* what a worker sends ends with its result, and nothing follows it *)
Lemma worker_msgs_shape id hide showinc depfile run msgs :
  worker_msgs id hide showinc depfile run = Ok msgs ->
  exists r, worker_result showinc depfile run = Ok r /\
            msgs = map (ROut id) (worker_outputs hide run) ++ [RDone id r].
Proof.
  unfold worker_msgs. intros H.
  destruct (worker_result showinc depfile run) as [r| | | |]; cbn [bind] in H; try discriminate.
  injection H as H. eauto.
Qed.

Lemma pending_start rn id msgs :
  msgs <> [] -> pending (rn_start rn id msgs) = pending rn ++ [(id, msgs)].
Proof.
  intros Hne. rewrite !pending_filter. unfold rn_start. cbn [rn_chan].
  rewrite filter_app. cbn [filter]. unfold nonempty at 2. cbn [snd].
  destruct msgs; [congruence | reflexivity].
Qed.

Lemma WInv_start rn id msgs :
  WInv rn -> wfq id msgs -> msgs <> [] -> WInv (rn_start rn id msgs).
Proof.
  intros [Hq Hr] Hwf Hne. split.
  - intros i q H. unfold rn_start in H. cbn [rn_chan] in H. apply in_app_or in H.
    destruct H as [H|[H|[]]].
    + apply Hq, H.
    + injection H as <- <-. exact Hwf.
  - rewrite pending_start by exact Hne. rewrite app_length. cbn [length].
    unfold rn_start. cbn [rn_running]. lia.
Qed.

Lemma rn_start_running rn id msgs : rn_running (rn_start rn id msgs) = S (rn_running rn).
Proof. reflexivity. Qed.

Corollary WInv_start_worker rn id hide showinc depfile run msgs :
  WInv rn -> worker_msgs id hide showinc depfile run = Ok msgs -> WInv (rn_start rn id msgs).
Proof.
  intros HI H. apply worker_msgs_wf in H. destruct H. apply WInv_start; assumption.
Qed.

(* ---- receiving ---- *)

Lemma wfq_cons id m q :
  wfq id (m :: q) ->
  (exists line, m = ROut id line /\ q <> [] /\ wfq id q) \/ (exists r, m = RDone id r /\ q = []).
Proof.
  intros [H|(lines & r & H)]; [discriminate|].
  destruct lines as [|l lines]; cbn [map app] in H; injection H as -> ->.
  - right. eauto.
  - left. exists l. split; [reflexivity|]. split.
    + intros E. apply app_eq_nil in E. destruct E as [_ E]. discriminate.
    + right. eauto.
Qed.

Lemma take_from_spec : forall ch k,
  k < length (filter nonempty ch) ->
  exists a id m q b,
    take_from ch k = Some (m, a ++ (id, q) :: b) /\ ch = a ++ (id, m :: q) :: b.
Proof.
  induction ch as [|[id q] ch IH]; intros k Hk.
  - cbn in Hk. lia.
  - destruct q as [|m q].
    + cbn [filter nonempty snd] in Hk.
      destruct (IH k Hk) as (a & id' & m' & q' & b & E & Hch).
      exists ((id, []) :: a), id', m', q', b. cbn [take_from]. rewrite E. split.
      * reflexivity.
      * rewrite Hch. reflexivity.
    + destruct k as [|k].
      * exists [], id, m, q, ch. split; reflexivity.
      * cbn [filter nonempty snd length] in Hk.
        destruct (IH k) as (a & id' & m' & q' & b & E & Hch); [lia|].
        exists ((id, m :: q) :: a), id', m', q', b. cbn [take_from]. rewrite E. split.
        -- reflexivity.
        -- rewrite Hch. reflexivity.
Qed.

Lemma rn_recv_shape rn k :
  pending rn <> [] ->
  exists m a id q b,
    rn_recv rn k = Some (m, mkRunner (rn_running rn) (rn_par rn) (a ++ (id, q) :: b)) /\
    rn_chan rn = a ++ (id, m :: q) :: b.
Proof.
  intros Hne. unfold rn_recv.
  destruct (length (pending rn)) as [|n] eqn:El.
  - destruct (pending rn); [congruence | discriminate].
  - destruct (take_from_spec (rn_chan rn) (k mod S n)) as (a & id & m & q & b & E & Hch).
    + rewrite <- pending_filter, El. apply Nat.mod_upper_bound. discriminate.
    + exists m, a, id, q, b. rewrite E. split; [reflexivity | exact Hch].
Qed.

Lemma chan_size_mid rp rr a id m q b :
  chan_size (mkRunner rp rr (a ++ (id, q) :: b)) + 1 = chan_size (mkRunner rp rr (a ++ (id, m :: q) :: b)).
Proof.
  unfold chan_size. cbn [rn_chan]. rewrite !map_app, !concat_app. cbn [map concat snd].
  rewrite !app_length. cbn [length app]. lia.
Qed.

Lemma filter_mid_cons (a b : list (nat * list rmsg)) id m q :
  filter nonempty (a ++ (id, m :: q) :: b) = filter nonempty a ++ (id, m :: q) :: filter nonempty b.
Proof. rewrite filter_app. reflexivity. Qed.

Lemma filter_mid_nil (a b : list (nat * list rmsg)) id :
  filter nonempty (a ++ (id, []) :: b) = filter nonempty a ++ filter nonempty b.
Proof. rewrite filter_app. reflexivity. Qed.

Theorem rn_recv_spec rn k :
  WInv rn -> pending rn <> [] ->
  exists m rn',
    rn_recv rn k = Some (m, rn') /\
    chan_size rn' + 1 = chan_size rn /\
    rn_running rn' = rn_running rn /\
    rn_par rn' = rn_par rn /\
    (forall id line, m = ROut id line ->
       In id (map fst (pending rn)) /\
       map fst (pending rn') = map fst (pending rn) /\
       WInv rn') /\
    (forall id r, m = RDone id r ->
       In id (map fst (pending rn)) /\
       length (pending rn') + 1 = length (pending rn) /\
       (forall i q, In (i, q) (rn_chan rn') -> wfq i q) /\
       (exists a b, rn_chan rn = a ++ (id, [RDone id r]) :: b /\ rn_chan rn' = a ++ (id, []) :: b)).
Proof.
  intros [Hq Hr] Hne.
  destruct (rn_recv_shape rn k Hne) as (m & a & id & q & b & E & Hch).
  exists m, (mkRunner (rn_running rn) (rn_par rn) (a ++ (id, q) :: b)).
  split; [exact E|].
  split.
  { destruct rn as [rr rp ch]. cbn [rn_running rn_par rn_chan] in *. subst ch. apply chan_size_mid. }
  split; [reflexivity|]. split; [reflexivity|].
  assert (Hwf : wfq id (m :: q)).
  { apply Hq. rewrite Hch. apply in_or_app. right. left. reflexivity. }
  assert (Hin : In id (map fst (pending rn))).
  { rewrite pending_filter, Hch, filter_mid_cons, map_app. apply in_or_app. right. left. reflexivity. }
  assert (Hq' : wfq id q -> forall i q0, In (i, q0) (a ++ (id, q) :: b) -> wfq i q0).
  { intros Hwq i q0 H. apply in_app_or in H. destruct H as [H|[H|H]].
    - apply Hq. rewrite Hch. apply in_or_app. left. exact H.
    - injection H as <- <-. exact Hwq.
    - apply Hq. rewrite Hch. apply in_or_app. right. right. exact H. }
  apply wfq_cons in Hwf. split.
  - intros id0 line ->. destruct Hwf as [(line' & Em & Hqne & Hwq)|(r & Em & _)]; [|discriminate].
    injection Em as -> ->.
    assert (Ep : map fst (pending (mkRunner (rn_running rn) (rn_par rn) (a ++ (id, q) :: b)))
                 = map fst (pending rn)).
    { rewrite !pending_filter, Hch. cbn [rn_chan]. destruct q as [|m' q]; [congruence|].
      rewrite !filter_mid_cons, !map_app. reflexivity. }
    split; [exact Hin|]. split; [exact Ep|]. split.
    + cbn [rn_chan]. apply Hq'. exact Hwq.
    + cbn [rn_running]. rewrite Hr. rewrite <- (map_length fst (pending rn)), <- Ep, map_length.
      reflexivity.
  - intros id0 r ->. destruct Hwf as [(line' & Em & _)|(r' & Em & Eq)]; [discriminate|].
    injection Em as -> ->. subst q.
    split; [exact Hin|]. split; [|split].
    + rewrite !pending_filter, Hch. cbn [rn_chan]. rewrite filter_mid_nil, filter_mid_cons.
      rewrite !app_length. cbn [length]. lia.
    + cbn [rn_chan]. apply Hq'. left. reflexivity.
    + exists a, b. split; [exact Hch | reflexivity].
Qed.

(* ---- Runner::wait returns ---- *)

Theorem rn_wait_returns : forall rn choices outs0,
  WInv rn -> 0 < rn_running rn ->
  forall fuel, wait_fuel rn <= fuel ->
  exists outs id r rn',
    rn_wait fuel rn choices outs0 = Ok (outs0 ++ outs, (id, r), rn') /\
    WInv rn' /\
    rn_running rn' + 1 = rn_running rn /\
    rn_par rn' = rn_par rn /\
    In id (map fst (pending rn)) /\
    (forall i l, In (i, l) outs -> In i (map fst (pending rn))) /\
    chan_size rn' < chan_size rn.
Proof.
  intros rn choices outs0 HI Hrun fuel. revert rn outs0 HI Hrun.
  induction fuel as [|fuel IH]; intros rn outs0 HI Hrun Hfuel.
  - unfold wait_fuel in Hfuel. lia.
  - assert (Hne : pending rn <> []).
    { destruct HI as [_ Hr]. intros E. rewrite E in Hr. cbn [length] in Hr. lia. }
    destruct (rn_recv_spec rn (choices fuel) HI Hne) as (m & rn1 & E & Hsz & Hrr & Hpar & HOut & HDone).
    cbn [rn_wait]. rewrite E. destruct m as [id line | id r].
    + destruct (HOut id line eq_refl) as (Hin & Ep & HI1).
      destruct (IH rn1 (outs0 ++ [(id, line)]) HI1) as (outs & id' & r' & rn' & Ew & HI' & Hrun' & Hpar' & Hin' & Houts & Hsz').
      * lia.
      * unfold wait_fuel in *. lia.
      * exists ((id, line) :: outs), id', r', rn'. rewrite Ew, <- app_assoc. cbn [app].
        split; [reflexivity|]. split; [exact HI'|]. split; [lia|]. split; [congruence|].
        split; [rewrite <- Ep; exact Hin'|]. split; [|lia].
        intros i l [H|H].
        -- injection H as <- <-. exact Hin.
        -- rewrite <- Ep. eapply Houts, H.
    + destruct (HDone id r eq_refl) as (Hin & Hlen & Hq1 & _).
      destruct (rn_running rn1) as [|n] eqn:En; [lia|].
      exists [], id, r, (mkRunner n (rn_par rn1) (rn_chan rn1)). rewrite app_nil_r.
      split; [reflexivity|]. split.
      { split.
        - exact Hq1.
        - cbn [rn_running]. destruct HI as [_ Hr]. change (pending (mkRunner n (rn_par rn1) (rn_chan rn1))) with (pending rn1). lia. }
      cbn [rn_running rn_par]. split; [lia|]. split; [exact Hpar|]. split; [exact Hin|].
      split; [intros i l []|].
      change (chan_size (mkRunner n (rn_par rn1) (rn_chan rn1))) with (chan_size rn1). lia.
Qed.

(* with the recommended fuel *)
Corollary rn_wait_returns_fuel rn choices :
  WInv rn -> 0 < rn_running rn ->
  exists outs id r rn',
    rn_wait (wait_fuel rn) rn choices [] = Ok (outs, (id, r), rn') /\
    WInv rn' /\ rn_running rn' + 1 = rn_running rn /\ rn_par rn' = rn_par rn /\
    In id (map fst (pending rn)) /\
    (forall i l, In (i, l) outs -> In i (map fst (pending rn))) /\
    chan_size rn' < chan_size rn.
Proof.
  intros HI Hrun.
  destruct (rn_wait_returns rn choices [] HI Hrun (wait_fuel rn) (le_n _))
    as (outs & id & r & rn' & H). exists outs, id, r, rn'. exact H.
Qed.

(* the -j test counts exactly the workers whose result has not been received *)
Corollary rn_can_start_more_pending rn :
  WInv rn -> rn_can_start_more rn = (length (pending rn) <? rn_par rn).
Proof. intros [_ Hr]. unfold rn_can_start_more. rewrite Hr. reflexivity. Qed.

Corollary rn_is_running_pending rn :
  WInv rn -> rn_is_running rn = (0 <? length (pending rn)).
Proof. intros [_ Hr]. unfold rn_is_running. rewrite Hr. reflexivity. Qed.

(* ---- both halves of the invariant are needed ---- *)

Definition tr0 : task_result := mkTR 0%N [] None.

(* a worker that never sends its result: the wait never ends (site 81) *)
Example no_result_waits_forever : forall choices,
  rn_wait 5 (mkRunner 1 1 [(1, [ROut 1 []])]) choices [] = Panic 81%N.
Proof. intros choices. reflexivity. Qed.

(* a result arrives though nothing is counted as running: the subtraction underflows (site 80) *)
Example running_underflow : forall choices,
  rn_wait 5 (mkRunner 0 1 [(1, [RDone 1 tr0])]) choices [] = Panic 80%N.
Proof. intros choices. reflexivity. Qed.

(* two workers, messages interleaved: the first result wins, the outputs arrive in channel order *)
Definition ex_run1 : cmd_run := mkRun [[97%N; 10%N]] 0%N.
Definition ex_run2 : cmd_run := mkRun [[98%N; 10%N]] 1%N.

Definition ex_choices (f : nat) : nat :=
  match f with 4 => 1 | 3 => 0 | 2 => 1 | _ => 0 end.

Definition ex_r1 : task_result := mkTR 0%N [97%N; 10%N] None.
Definition ex_r2 : task_result := mkTR 1%N [98%N; 10%N] None.

Example two_workers_msgs :
  worker_msgs 1 false false None ex_run1 = Ok [ROut 1 [97%N]; RDone 1 ex_r1] /\
  worker_msgs 2 false false None ex_run2 = Ok [ROut 2 [98%N]; RDone 2 ex_r2].
Proof. split; vm_compute; reflexivity. Qed.

Definition ex_rn : runner :=
  rn_start (rn_start (rn_new 2) 1 [ROut 1 [97%N]; RDone 1 ex_r1]) 2 [ROut 2 [98%N]; RDone 2 ex_r2].

Example two_workers_interleaved :
  rn_can_start_more ex_rn = false /\
  rn_wait (wait_fuel ex_rn) ex_rn ex_choices [] =
    Ok ([(2, [98%N]); (1, [97%N])], (2, ex_r2), mkRunner 1 2 [(1, [RDone 1 ex_r1]); (2, [])]) /\
  rn_can_start_more (mkRunner 1 2 [(1, [RDone 1 ex_r1]); (2, [])]) = true.
Proof. repeat split; vm_compute; reflexivity. Qed.

Example two_workers_inv : WInv ex_rn.
Proof.
  unfold ex_rn. apply WInv_start; [apply WInv_start; [apply WInv_new| |]| |]; try discriminate.
  - right. exists [[97%N]], ex_r1. reflexivity.
  - right. exists [[98%N]], ex_r2. reflexivity.
Qed.

Print Assumptions rn_wait_returns.
Print Assumptions worker_msgs_total.
