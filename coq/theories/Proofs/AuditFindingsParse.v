(* audit file: AuditFindingsParse

   Machine-checked demonstrations for the audit of the STATEMENTS of Props/C10.v, C10Load.v,
   C10Incl.v, C11.v, C12.v, C14.v.

   Summary.  No theorem of these six files was found vacuous (non-vacuity examples:
   AuditNonVacuousParse.v, AuditNonVacuousLoad.v).  What is recorded here:

     1. statements that are DEFINITIONAL: the two sides are the same definition, unfolded
        (proof: [reflexivity]) - they document the vocabulary, they are not properties;
     2. C12_manifest_safe allows [Panic 60] for EVERY depth, and at depth 0 every load is Panic 60:
        the headline "loaded or rejected with a diagnostic" is met by the model's own fuel artefact.
        REPAIR (proved here, [load_manifest_no_panic60]): with [length fs < depth] Panic 60 is
        impossible, so the depth fuel is then only a technicality;
     3. C12_error_format constrains neither the line number nor the context line;
     4. positive checks asked for by the audit brief: fuel exhaustion is honest (never disguised as
        Ok/Err), [view] / [norm_stmt] do not collapse distinct things. *)
From Coq Require Import String Lia.
From N2 Require Import Model.All.
From N2 Require Import Proofs.CanonProps Proofs.DepfileSafe.
From N2 Require Import Proofs.ParseSpell Proofs.ParseSpec Proofs.ParseSafeStmt.
From N2 Require Import Proofs.EvalScope Proofs.EvalFiles Proofs.GraphDedup Proofs.GraphAddBuild Proofs.GraphLoad.
From N2 Require Import Proofs.LoadGraphSpec Proofs.LoadGraphBuild Proofs.LoadGraphRun Proofs.LoadGraphFile
     Proofs.LoadGraphNames.
From N2 Require Import Proofs.LoadInclSpec Proofs.LoadInclRun Proofs.LoadInclFlat.
From N2 Require Proofs.LoadGraphView Proofs.ParseSafeLoad Proofs.ParseSafeScan Proofs.ParseRound1 Proofs.ParseRoundMain Proofs.ParseRoundTotal.

(* ==================================================================================== *)
(* 1. definitional statements                                                            *)
(* ==================================================================================== *)

(* C11_parse_file_unfold: [stmts_loop] (Proofs/GraphLoad.v) is a verbatim copy of the anonymous
   [fix stmts] inside Model/Load.v's [parse_file_r]; the equation holds by conversion.  It names the
   loop, it says nothing about "file boundaries".
   Proposed: present it as a definition-unfolding lemma (keep in Proofs/), and let section 9 of C11
   rest on C11_subninja_copy / C11_include_extends_refuted / C10_parse_file_r_is_run_file. *)
Lemma C11_parse_file_unfold_is_definitional fixed depth fs l filename text inherited :
  parse_file fixed (S depth) fs l filename text inherited =
  (do s0 <- sc_new (text ++ [0%N]);
   stmts_loop fixed (parse_file_r fixed depth fs) fs [] (text ++ [0%N]) filename
              (S (length (text ++ [0%N]))) l s0 inherited).
Proof. reflexivity. Qed.

(* C11_evaluate_path_uses: the right-hand side IS the body of [evaluate_path].  The comment
   "paths on a build line see the build block's bindings, then file scope" is not what it says:
   [envs] is universally quantified.  The real content is in C11_paths_scope (envs =
   [pb_vars pb; vars_env fvars]) and C10_build_ok_meaning.
   Proposed: drop it, or state
     loader_add_build fixed l f fvars pb = Ok l' ->
     Forall2 (fun p id => canon (evaluate [pb_vars pb; vars_env fvars] p) = Ok (file_nm l' id)) (pb_ins pb) (lb_ins b)
   (which is C10_add_build_spec). *)
Lemma C11_evaluate_path_uses_is_definitional l p envs :
  evaluate_path l p envs =
  match evaluate envs p with [] => Err (bs "empty path") | path => load_path l path end.
Proof. reflexivity. Qed.

(* C11_top_down, first conjunct: the definition of [bind_step] *)
Lemma C11_top_down_first_is_definitional vs x v :
  bind_step vs x v = insert_b x (evaluate [vars_env vs] v) vs.
Proof. reflexivity. Qed.

(* C10_run_file_unfold, C10_run_stmts_files_nil, C10_run_stmts_files_cons: the defining equations
   of [run_file] / [run_stmts_files] (LoadInclSpec.v).  Honest ("the semantics, equation by
   equation"), but definitional. *)
Lemma C10_run_file_unfold_is_definitional depth fs reading l filename text inherited :
  run_file (S depth) fs reading l filename text inherited =
  do l' <- run_stmts_files depth fs reading l filename (fst (file_stmts text inherited));
  finish (text ++ [0%N]) filename l' (snd (file_stmts text inherited)).
Proof. reflexivity. Qed.

Lemma C10_run_stmts_files_cons_is_definitional depth fs reading l filename st vs r :
  run_stmts_files depth fs reading l filename ((st, vs) :: r) =
  do l1 <- stmt_step_files (run_file depth fs) fs reading l filename st vs;
  run_stmts_files depth fs reading l1 filename r.
Proof. reflexivity. Qed.

Lemma C10_run_stmts_files_nil_is_definitional depth fs reading l filename :
  run_stmts_files depth fs reading l filename [] = Ok l.
Proof. reflexivity. Qed.

(* C10_build_ok_meaning: [build_ok] with its notations unfolded; both directions are the identity *)
Lemma C10_build_ok_meaning_is_definitional l filename pb vs rules b (P : Prop) :
  (build_ok l filename pb vs rules b -> P) ->
  (lb_file b = filename /\ lb_line b = pb_line pb /\
   lb_explicit_ins b = pb_explicit_ins pb /\ lb_implicit_ins b = pb_implicit_ins pb /\
   lb_order_only_ins b = pb_order_only_ins pb /\
   Forall2 (names_at l [pb_vars pb; vars_env vs]) (pb_ins pb) (lb_ins b) /\ ids_in l (lb_ins b) /\
   exists outs rule,
     Forall2 (names_at l [pb_vars pb; vars_env vs]) (pb_outs pb) outs /\ ids_in l outs /\
     lb_outs b = dedup outs /\
     lb_explicit_outs b = length (dedup (firstn (pb_explicit_outs pb) outs)) /\
     assoc_b (pb_rule pb) rules = Some rule /\
     let look := attr_lookup (pb_vars pb) rule (implicit_env l pb (lb_ins b) outs) (vars_env vs) in
     lb_cmdline b = look (bs "command") /\ lb_desc b = look (bs "description") /\
     lb_depfile b = look (bs "depfile") /\ lb_pool b = look (bs "pool") /\
     lb_rspfile b = match look (bs "rspfile"), look (bs "rspfile_content") with
                    | Some p, Some c => Some (p, c) | _, _ => None end /\
     lb_showincludes b = match look (bs "deps") with Some d => bytes_eqb d (bs "msvc") | None => false end /\
     lb_hide_success b = is_some (look (bs "hide_success")) /\
     lb_hide_progress b = is_some (look (bs "hide_progress"))) -> P.
Proof. intros H X. exact (H X). Qed.

(* C10_load_manifest_is_run_file is C10_parse_file_r_is_run_file plus this definitional step *)
Lemma load_manifest_start_is_definitional fixed depth fs name text :
  load_manifest fixed depth fs name text =
  do c <- canon name; parse_file_r fixed depth fs [] (loader_start c) name text [].
Proof. reflexivity. Qed.

(* C11_child_scope_step and C14_build_error_aborts_load are ONE-STEP unfoldings of [stmts_loop] for
   an arbitrary [rec]: after rewriting with their premises both sides are syntactically equal.
   (They are true and useful as rewriting lemmas; the properties proper are C11_subninja_copy,
   C11_child_scope_isolated and C14_second_producer_*_example.) *)
Lemma C14_build_error_aborts_load_is_one_unfolding fixed rec fs reading buf filename n l s vs :
  stmts_loop fixed rec fs reading buf filename (S n) l s vs =
  match parser_read fixed (parse_fuel buf) s vs with
  | SOk (Some (SBuild pb), vs1) s1 =>
    do l1 <- loader_add_build fixed l filename vs1 pb; stmts_loop fixed rec fs reading buf filename n l1 s1 vs1
  | _ => stmts_loop fixed rec fs reading buf filename (S n) l s vs
  end.
Proof.
  cbn [stmts_loop].
  destruct (parser_read fixed (parse_fuel buf) s vs) as [[[st|] vs1] s1|m o|x|x|]; try reflexivity.
  destruct st; reflexivity.
Qed.

(* C14_LInv_meaning: [LInv] is a Record of five universally quantified fields; the right-hand
   side is the same five fields regrouped (plus the range of the outputs, a consequence of the
   second field).  Fine as documentation of the invariant; it is not a property of the loader. *)
Lemma C14_LInv_meaning_is_regrouping l :
  LInv l <->
  ((forall i f p, nth_error (l_files l) i = Some f -> lf_input f = Some p ->
      exists b, nth_error (l_builds l) p = Some b /\ In i (lb_outs b)) /\
   (forall p b o, nth_error (l_builds l) p = Some b -> In o (lb_outs b) ->
      exists f, nth_error (l_files l) o = Some f /\ lf_input f = Some p) /\
   (forall p b, nth_error (l_builds l) p = Some b -> NoDup (lb_outs b)) /\
   (forall p b, nth_error (l_builds l) p = Some b -> lb_explicit_outs b <= length (lb_outs b)) /\
   (forall p b i, nth_error (l_builds l) p = Some b -> In i (lb_ins b) -> i < length (l_files l))).
Proof.
  split.
  - intros [A B C D E]. repeat split; assumption.
  - intros (A & B & C & D & E). constructor; assumption.
Qed.

(* By contrast these ARE theorems between independently defined objects (checked by reading the
   definitions): C10_parse_file_r_is_run_file ([run_file] is its own Fixpoint over [file_stmts] /
   [run_stmts_rec] / [finish], not defined through [parse_file_r]); C10_file_stmts_reads /
   C10_reads_file_stmts ([reads_to] is an inductive relation over [parser_read], [file_stmts] a
   fuelled function); C10_parse_file_is_run_stmts; C10_flat_file_run; C10_load_manifest_flat. *)

(* ==================================================================================== *)
(* 2. C12_manifest_safe and the depth fuel                                               *)
(* ==================================================================================== *)

(* DEFECT (weak statement): [depth] is universally quantified in C12_manifest_safe and [Panic 60] is
   an allowed outcome.  Panic 60 is not a behaviour of n2: it is the model's own bound on include
   nesting (Load.v, "F20").  At depth 0 the theorem is true for the wrong reason: *)
Lemma manifest_safe_trivial_at_depth_0 fs name text c :
  canon name = Ok c ->
  load_manifest true 0 fs name text = Panic 60%N /\
  match load_manifest true 0 fs name text with
  | Ok _ | Err _ => True
  | Panic s => s = 0%N \/ s = 1%N \/ s = 60%N
  | OutOfBounds _ => False
  | OutOfFuel => False
  end.
Proof.
  intro C. assert (E : load_manifest true 0 fs name text = Panic 60%N).
  { unfold load_manifest. rewrite C. reflexivity. }
  split; [exact E|]. rewrite E. right. right. reflexivity.
Qed.

(* ... and so is any statement of the form "load_manifest true depth ... = Ok l -> P l" at depth 0
   (e.g. C14_unique_producer, C10_include_order): harmless there, because [depth] large gives real
   instances, but it shows why the bound must be discharged somewhere. *)
Lemma no_load_at_depth_0 fs name text l : load_manifest true 0 fs name text <> Ok l.
Proof.
  unfold load_manifest. destruct (canon name) as [c|m|x|x|]; cbn [bind]; discriminate.
Qed.

(* REPAIR: since the fix for F20 rejects a file that is already being read, the nesting is bounded
   by the number of files in the file map; with more depth than files Panic 60 cannot happen.
   Proposed addition to Props/C12.v:

     Theorem C12_manifest_depth_sufficient : forall depth fs name text,
       length fs < depth -> load_manifest true depth fs name text <> Panic 60%N.

   (then C12_manifest_safe + this give: Ok, Err, or the two canon panics 0/1.)  Proof below. *)

Definition np60 {A} (o : outcome A) : Prop := o <> Panic 60%N.

Lemma np60_bind {A B} (o : outcome A) (f : A -> outcome B) :
  np60 o -> (forall a, o = Ok a -> np60 (f a)) -> np60 (bind o f).
Proof.
  unfold np60. intros Ho Hf. destruct o as [a|m|x|x|]; cbn [bind]; try discriminate.
  - apply Hf. reflexivity.
  - intro E. apply Ho. inversion E. reflexivity.
Qed.

Lemma np60_canon p : np60 (canon p).
Proof.
  unfold np60. destruct (canon_outcomes p) as [[q E]|[E|E]]; rewrite E; discriminate.
Qed.

Lemma np60_evaluate_path l p envs : np60 (evaluate_path l p envs).
Proof.
  unfold evaluate_path. destruct (evaluate envs p) as [|c r]; [discriminate|].
  unfold load_path. apply np60_bind; [apply np60_canon|]. intros a _. discriminate.
Qed.

Lemma np60_evaluate_paths envs : forall ps l, np60 (evaluate_paths l ps envs).
Proof.
  induction ps as [|p ps IH]; intro l; cbn [evaluate_paths]; [discriminate|].
  apply np60_bind; [apply np60_evaluate_path|]. intros [l1 id] _.
  apply np60_bind; [apply IH|]. intros [l2 ids] _. discriminate.
Qed.

Lemma np60_gab_step l b st id : np60 st -> np60 (gab_step l b st id).
Proof.
  intro H. unfold gab_step. apply np60_bind; [exact H|]. intros [[fs d] w] _. unfold gab_step1.
  destruct (nth_error fs id) as [f|]; [|discriminate].
  destruct (lf_input f) as [prev|]; [|discriminate].
  destruct (prev =? length (l_builds l))%nat; discriminate.
Qed.

Lemma np60_gab_fold l b : forall ids st, np60 st -> np60 (fold_left (gab_step l b) ids st).
Proof.
  induction ids as [|id ids IH]; intros st H; cbn [fold_left]; [exact H|].
  apply IH. apply np60_gab_step. exact H.
Qed.

Lemma np60_graph_add_build fixed l b : np60 (graph_add_build fixed l b).
Proof.
  rewrite gab_unfold. apply np60_bind; [apply np60_gab_fold; discriminate|].
  intros [[files dups] warns] _.
  destruct dups; [destruct (remove_duplicates fixed (lb_outs b) (lb_explicit_outs b))|]; discriminate.
Qed.

Lemma np60_loader_add_build fixed l filename fvars pb : np60 (loader_add_build fixed l filename fvars pb).
Proof.
  unfold loader_add_build. cbv zeta.
  apply np60_bind; [apply np60_evaluate_paths|]. intros [l1 ins] _.
  apply np60_bind; [apply np60_evaluate_paths|]. intros [l2 outs] _.
  destruct (assoc_b (pb_rule pb) (l_rules l2)) as [rule|]; [|discriminate].
  apply np60_bind.
  { destruct (attr_lookup _ _ _ _ (bs "deps")) as [d|]; [|discriminate].
    destruct (bytes_eqb d (bs "gcc")); [discriminate|].
    destruct (bytes_eqb d (bs "msvc")); discriminate. }
  intros showinc _. apply np60_bind.
  { destruct (attr_lookup _ _ _ _ (bs "rspfile")); destruct (attr_lookup _ _ _ _ (bs "rspfile_content"));
      discriminate. }
  intros rsp _. apply np60_graph_add_build.
Qed.

(* the files being read: distinct names of the file map *)
Definition ReadingOk (fs : list (bytes * bytes)) (reading : list bytes) : Prop :=
  NoDup reading /\ incl reading (map fst fs).

Lemma assoc_b_in {V} k (l : list (bytes * V)) v : assoc_b k l = Some v -> In k (map fst l).
Proof.
  induction l as [|[k' v'] r IH]; [discriminate|]. cbn [assoc_b map fst].
  destruct (bytes_eqb k' k) eqn:E.
  - intros _. left. apply bytes_eqb_spec. exact E.
  - intro H. right. apply IH. exact H.
Qed.

Lemma existsb_bytes_false x l : existsb (bytes_eqb x) l = false -> ~ In x l.
Proof.
  intros H I. assert (T : existsb (bytes_eqb x) l = true).
  { apply existsb_exists. exists x. split; [exact I | apply bytes_eqb_refl]. }
  rewrite T in H. discriminate H.
Qed.

Lemma ReadingOk_snoc fs reading path content :
  ReadingOk fs reading -> existsb (bytes_eqb path) reading = false -> assoc_b path fs = Some content ->
  ReadingOk fs (reading ++ [path]).
Proof.
  intros [N I] X A. split.
  - apply NoDup_snoc; [exact N | apply existsb_bytes_false; exact X].
  - intros y Hy. apply in_app_or in Hy as [Hy|[<-|[]]]; [apply I; exact Hy | eapply assoc_b_in; exact A].
Qed.

Lemma ReadingOk_length fs reading : ReadingOk fs reading -> length reading <= length fs.
Proof.
  intros [N I]. rewrite <- (map_length fst fs). apply NoDup_incl_length; assumption.
Qed.

Lemma np60_stmts_loop text filename fs reading rec :
  ReadingOk fs reading ->
  (forall rd l p c vs, ReadingOk fs rd -> length rd = S (length reading) -> np60 (rec rd l p c vs)) ->
  forall n l s vs, good_scanner text s ->
    np60 (stmts_loop true rec fs reading (text ++ [0%N]) filename n l s vs).
Proof.
  intros RO Hrec. induction n as [|n IH]; intros l s vs Hg; [discriminate|].
  cbn [stmts_loop]. fold (stmts_loop true rec fs reading (text ++ [0%N]) filename).
  pose proof (parser_read_safe_gen text s vs Hg) as H. unfold parser_read_ok in H.
  destruct (parser_read true (parse_fuel (text ++ [0%N])) s vs) as [[[stm|] vs'] s'|m o|x|x|];
    try contradiction.
  - destruct H as (Hg' & _).
    assert (CHILD : forall p, np60 (do r <- evaluate_path l p [vars_env vs'];
              let '(l0, id) := r in
              let path := file_nm l0 id in
              if existsb (bytes_eqb path) reading
              then Err (filename ++ bs ": " ++ path ++ bs " includes itself")
              else match assoc_b path fs with
                   | None => Err (bs "read " ++ path ++ bs ": No such file or directory (os error 2)")
                   | Some content =>
                     do l1 <- rec (reading ++ [path]) l0 path content vs';
                     stmts_loop true rec fs reading (text ++ [0%N]) filename n l1 s' vs'
                   end)).
    { intro p. apply np60_bind; [apply np60_evaluate_path|]. intros [l1 id] _. cbv zeta.
      destruct (existsb (bytes_eqb (file_nm l1 id)) reading) eqn:X; [discriminate|].
      destruct (assoc_b (file_nm l1 id) fs) as [content|] eqn:A; [|discriminate].
      apply np60_bind; [|intros l2 _; apply IH; exact Hg'].
      apply Hrec.
      - eapply ReadingOk_snoc; eassumption.
      - rewrite app_length. cbn [length]. lia. }
    destruct stm as [name rv|pb|ds|p|p|name d].
    + apply IH. exact Hg'.
    + apply np60_bind; [apply np60_loader_add_build|]. intros l1 _. apply IH. exact Hg'.
    + apply np60_bind; [apply np60_evaluate_paths|]. intros [l1 ids] _. apply IH. exact Hg'.
    + apply CHILD.
    + apply CHILD.
    + apply IH. exact Hg'.
  - discriminate.
  - destruct (format_parse_error_ok (text ++ [0%N]) filename m o H) as (txt & E).
    rewrite E. discriminate.
Qed.

Lemma np60_parse_file_r fs : forall depth reading l filename text inherited,
  ReadingOk fs reading -> length fs < depth + length reading ->
  np60 (parse_file_r true depth fs reading l filename text inherited).
Proof.
  induction depth as [|depth IH]; intros reading l filename text inherited RO D.
  - exfalso. pose proof (ReadingOk_length fs reading RO). lia.
  - rewrite parse_file_r_unfold, sc_new_text. cbn [bind].
    apply np60_stmts_loop; [exact RO | | apply good_scanner_initial].
    intros rd l' p c vs RO' L. apply IH; [exact RO' | lia].
Qed.

Theorem load_manifest_no_panic60 depth fs name text :
  length fs < depth -> load_manifest true depth fs name text <> Panic 60%N.
Proof.
  intro D. change (np60 (load_manifest true depth fs name text)). unfold load_manifest.
  apply np60_bind; [apply np60_canon|]. intros c _.
  destruct (id_from_canonical loader_new c) as [l0 i]. unfold parse_file.
  apply np60_parse_file_r.
  - split; [constructor | intros y []].
  - cbn [length]. lia.
Qed.

(* the corrected C12 headline: with enough depth, every input is loaded, rejected with a
   diagnostic, or hits one of the two documented panics of canonicalize_path *)
Theorem manifest_safe_enough_depth depth fs name text :
  length fs < depth ->
  match load_manifest true depth fs name text with
  | Ok _ | Err _ => True
  | Panic s => s = 0%N \/ s = 1%N
  | OutOfBounds _ => False
  | OutOfFuel => False
  end.
Proof.
  intro D. pose proof (N2.Proofs.ParseSafeLoad.manifest_safe depth fs name text) as S.
  pose proof (load_manifest_no_panic60 depth fs name text D) as N.
  destruct (load_manifest true depth fs name text) as [a|m|x|x|]; try exact S.
  destruct S as [S|[S|S]]; [left; exact S | right; exact S | exfalso; apply N; rewrite S; reflexivity].
Qed.

(* ==================================================================================== *)
(* 3. C12_error_format: the conclusion does not pin the line number or the context       *)
(* ==================================================================================== *)

(* WEAK STATEMENT.  [exists lno ctx pad, 1 <= lno /\ length (error_prefix filename lno) <= pad /\ ...]
   is satisfied by a formatter that always reports line 1 with an empty context: *)
Definition bogus_format (filename m : bytes) : outcome bytes :=
  Ok (error_text filename m 1 [] (length (error_prefix filename 1))).

Lemma error_format_conclusion_met_by_bogus filename m :
  exists lno ctx pad, 1 <= lno /\ length (error_prefix filename lno) <= pad /\
                      bogus_format filename m = Ok (error_text filename m lno ctx pad).
Proof. exists 1, [], (length (error_prefix filename 1)). repeat split; constructor. Qed.

(* What C12_error_format does establish: format_parse_error returns Ok (no Panic 23/24/25) and the
   text has the four-part shape.  Proposed strengthening of the conclusion:
     lno = 1 + (number of 10s in firstn o (text ++ [0])) /\
     pad = length (error_prefix filename lno) + <column, or 23 when trimmed> /\
     ctx is a window (with "..." marks) of the lno-th line of the text.
   AuditNonVacuousParse.C12_error_format_nonvacuous checks one instance completely (line 2). *)

(* ==================================================================================== *)
(* 4. positive checks                                                                    *)
(* ==================================================================================== *)

(* 4a. fuel exhaustion is reported as SFuel / OutOfFuel, never as Ok, Err or a truncated result;
       depth exhaustion is Panic 60 (see 2.) *)
Lemma parser_read_no_fuel fixed s vs : parser_read fixed 0 s vs = SFuel.
Proof. reflexivity. Qed.
Lemma spell_read_all_no_fuel fuel s vs : ParseSpell.read_all 0 fuel s vs = SFuel.
Proof. reflexivity. Qed.
Lemma stmts_loop_no_fuel fixed rec fs reading buf filename l s vs :
  stmts_loop fixed rec fs reading buf filename 0 l s vs = OutOfFuel.
Proof. reflexivity. Qed.
Lemma incl_read_all_no_fuel buf s vs : LoadInclSpec.read_all buf 0 s vs = ([], SFuel).
Proof. reflexivity. Qed.
Lemma finish_fuel buf filename l : finish buf filename l SFuel = OutOfFuel.
Proof. reflexivity. Qed.
Lemma parse_file_r_no_depth fixed fs reading l filename text inherited :
  parse_file_r fixed 0 fs reading l filename text inherited = Panic 60%N.
Proof. reflexivity. Qed.
(* a statement loop that stops early because its counter [n] ran out does so with OutOfFuel even
   when statements were already loaded (no Ok with a truncated graph): *)
Lemma stmts_loop_counter_exhausted :
  stmts_loop true (fun _ l _ _ _ => Ok l) [] [] (ln "pool a" (ln "pool b" []) ++ [0%N]) (bs "f") 2 loader_new
             (mkScanner (ln "pool a" (ln "pool b" []) ++ [0%N]) 0 1) [] = OutOfFuel.
Proof. vm_compute. reflexivity. Qed.
(* C12_manifest_safe's [OutOfFuel => False] therefore really says that the counter S (length buf)
   and parse_fuel suffice for every text (each Parser::read that returns a statement consumes at
   least one byte: C12_parser_read_safe_gen, sofs s < sofs s'). *)

(* 4b. [view] forgets only the numbering of files: every other field of a step is kept *)
Lemma view_keeps_everything_but_ids l b b' :
  view l b = view l b' ->
  lb_file b = lb_file b' /\ lb_line b = lb_line b' /\
  map (file_nm l) (lb_ins b) = map (file_nm l) (lb_ins b') /\
  lb_explicit_ins b = lb_explicit_ins b' /\ lb_implicit_ins b = lb_implicit_ins b' /\
  lb_order_only_ins b = lb_order_only_ins b' /\
  map (file_nm l) (lb_outs b) = map (file_nm l) (lb_outs b') /\
  lb_explicit_outs b = lb_explicit_outs b' /\
  lb_cmdline b = lb_cmdline b' /\ lb_desc b = lb_desc b' /\ lb_depfile b = lb_depfile b' /\
  lb_showincludes b = lb_showincludes b' /\ lb_rspfile b = lb_rspfile b' /\ lb_pool b = lb_pool b' /\
  lb_hide_success b = lb_hide_success b' /\ lb_hide_progress b = lb_hide_progress b'.
Proof. unfold view. intro H. inversion H. repeat split; assumption. Qed.

(* NOTE: the number of validation inputs (pb_validation_ins) is copied to no [lbuild] field, hence
   it is in no view and in no C10 loader theorem; in a step the validation inputs are the inputs
   behind the explicit + implicit + order-only ones.  This is the model's representation of n2's
   Build struct, not a defect of the statements. *)

(* 4c. [norm_stmt] only merges literal pieces: it keeps the kind, names, line, counts, depth *)
Lemma norm_stmt_distinguishes :
  norm_stmt (SPool (bs "a") 1) <> norm_stmt (SPool (bs "a") 2) /\
  norm_stmt (SInclude [Lit (bs "a")]) <> norm_stmt (SSubninja [Lit (bs "a")]) /\
  norm_stmt (SDefault [[Lit (bs "a")]; [Lit (bs "b")]]) <> norm_stmt (SDefault [[Lit (bs "a"); Lit (bs "b")]]) /\
  norm_stmt (SDefault [[Lit (bs "a"); Lit []; Lit (bs "b")]]) = norm_stmt (SDefault [[Lit (bs "ab")]]) /\
  norm_stmt (SRule (bs "r") [(bs "command", [Var (bs "in")])]) <> norm_stmt (SRule (bs "r") [(bs "command", [Lit (bs "in")])]).
Proof. repeat split; try discriminate. Qed.

Lemma norm_build_keeps_line_and_counts b b' :
  norm_build b = norm_build b' ->
  pb_rule b = pb_rule b' /\ pb_line b = pb_line b' /\ pb_explicit_outs b = pb_explicit_outs b' /\
  pb_explicit_ins b = pb_explicit_ins b' /\ pb_implicit_ins b = pb_implicit_ins b' /\
  pb_order_only_ins b = pb_order_only_ins b' /\ pb_validation_ins b = pb_validation_ins b' /\
  length (pb_outs b) = length (pb_outs b') /\ length (pb_ins b) = length (pb_ins b').
Proof.
  unfold norm_build. intro H. inversion H as [[R L O EO I EI II OI VI V]].
  repeat split; try assumption.
  - rewrite <- (map_length norm_eval (pb_outs b)), O, map_length. reflexivity.
  - rewrite <- (map_length norm_eval (pb_ins b)), I, map_length. reflexivity.
Qed.

(* 4d. file_nm of an id outside the table is the empty name (totalised).  [names_at l envs p id]
       (the atom of build_ok / default_ok) says "canon (...) = Ok (file_nm l id)", which on its own
       does not put [id] in range; the theorems carry [ids_in] / [Forall (fun id => id < length ...)]
       next to it (C10_build_ok_meaning, C10_run_stmts_spec).  C10_graph / C10_graph_of_reads state
       [default_ok] WITHOUT the range of the default ids (C10_run_stmts_spec has it).  Minor: on all
       probes canon returns "." where one might fear the empty name ("a/..", "./", "."). *)
Lemma file_nm_out_of_range l id : length (l_files l) <= id -> file_nm l id = [].
Proof.
  intro H. unfold file_nm. destruct (nth_error (l_files l) id) eqn:E; [|reflexivity].
  assert (id < length (l_files l)) by (apply nth_error_Some; congruence). lia.
Qed.

(* ==================================================================================== *)
(* 5. the stage-1/2 roundtrips have no total variant                                     *)
(* ==================================================================================== *)

(* WEAK STATEMENT.  C10_eval_roundtrip and C10_build_roundtrip conclude
   [... = SFuel \/ exists ..., ...] for ANY fuel, and - unlike C10_statement_roundtrip /
   C10_eof_roundtrip - Props/C10.v has no [_total] companion for them.  Read alone they are met by
   the first branch, whatever the premises: *)
Lemma eval_roundtrip_first_branch_for_free path s : read_eval 0 path s = SFuel.
Proof. reflexivity. Qed.
Lemma build_roundtrip_first_branch_for_free fixed s : read_build fixed 0 s = SFuel.
Proof. reflexivity. Qed.

(* REPAIR (proved): with fuel for the rest of the buffer the second branch holds.  Proposed
   additions to Props/C10.v: [C10_eval_roundtrip_total], [C10_build_roundtrip_total] as stated here. *)
Lemma nul_last text : nth_error (text ++ [0%N]) (Nat.pred (length (text ++ [0%N]))) = Some 0%N.
Proof.
  rewrite app_length. cbn [length]. replace (Nat.pred (length text + 1)) with (length text) by lia.
  rewrite nth_error_app2 by lia. rewrite Nat.sub_diag. reflexivity.
Qed.

Theorem eval_roundtrip_total path es txt pre rest s fuel :
  spells_eval path es txt -> txt <> [] -> eval_stop path (rest ++ [0%N]) ->
  ~ In 13%N (pre ++ rest) ->
  sbuf s = pre ++ txt ++ rest ++ [0%N] -> sofs s = length pre ->
  length (sbuf s) <= fuel + sofs s ->
  exists es', read_eval fuel path s =
              SOk es' (mkScanner (sbuf s) (length (pre ++ txt)) (sline s + nlz txt)) /\
              norm_eval es' = norm_eval es /\ es' <> [].
Proof.
  intros Hes Hne HX H13 Hb Ho Hf.
  destruct (ParseRound1.eval_roundtrip path es txt pre rest s fuel Hes Hne HX H13 Hb Ho) as [E|H]; [|exact H].
  exfalso.
  assert (Hb' : sbuf s = (pre ++ txt ++ rest) ++ [0%N]) by (rewrite Hb, <- !app_assoc; reflexivity).
  assert (Hno13 : ~ In 13%N (sbuf s)).
  { rewrite Hb. intro I. apply in_app_or in I as [I|I]; [apply H13, in_or_app; left; exact I|].
    apply in_app_or in I as [I|I]; [exact (ParseRound1.spells_eval_no13 _ _ _ Hes I)|].
    apply in_app_or in I as [I|I]; [apply H13, in_or_app; right; exact I|].
    destruct I as [I|[]]. discriminate I. }
  assert (Hg : good_scanner (pre ++ txt ++ rest) s).
  { apply ParseRoundTotal.good_scanner_no13; [exact Hb' | rewrite Ho, app_length; lia | exact Hno13]. }
  apply good_scanner_st in Hg.
  pose proof (ParseSafeScan.read_eval_safe _ (nul_last (pre ++ txt ++ rest)) fuel path s Hg) as S.
  rewrite <- Hb' in S. specialize (S Hf). rewrite E in S. exact S.
Qed.

Theorem build_roundtrip_total pre L Bt rest d bl s fuel :
  spells_build_line d L -> spells_block (fun _ => true) bl Bt ->
  (exists c r, rest ++ [0%N] = c :: r /\ c <> 32%N) ->
  ~ In 13%N (sbuf s) ->
  sbuf s = pre ++ L ++ Bt ++ rest ++ [0%N] -> sofs s = length pre ->
  length (sbuf s) + 1 <= fuel + sofs s ->
  exists b, read_build true fuel s =
            SOk (SBuild b) (mkScanner (sbuf s) (length (pre ++ L ++ Bt)) (sline s + nlz (L ++ Bt))) /\
            norm_build b = norm_build (decl_build d (sline s) (block_vars bl)).
Proof.
  intros HL HB HX H13 Hb Ho Hf.
  destruct (ParseRoundMain.build_roundtrip true pre L Bt rest d bl s fuel HL HB HX H13 Hb Ho) as [E|H]; [|exact H].
  exfalso.
  assert (Hb' : sbuf s = (pre ++ L ++ Bt ++ rest) ++ [0%N]) by (rewrite Hb, <- !app_assoc; reflexivity).
  assert (Hg : good_scanner (pre ++ L ++ Bt ++ rest) s).
  { apply ParseRoundTotal.good_scanner_no13; [exact Hb' | rewrite Ho, app_length; lia | exact H13]. }
  apply good_scanner_st in Hg.
  pose proof (ParseSafeStmt.read_build_safe _ (nul_last (pre ++ L ++ Bt ++ rest)) fuel s Hg) as S.
  rewrite <- Hb' in S. specialize (S Hf). rewrite E in S. exact S.
Qed.

(* ==================================================================================== *)
(* 6. premises about the start loader are only discharged in Proofs/, not in Props/      *)
(* ==================================================================================== *)

(* C10_run_stmts_spec, C10_one_build_per_statement, C10_pools_defaults, C10_run_stmts_names_unique,
   C10_run_flat_spec, C10_run_flat_names_unique and C11_child_scope_isolated assume [LInv l0] and
   / or [NamesUnique l0].  They hold of the loader load_manifest starts from ([LInv_start],
   [NamesUnique_start] in Proofs/), but no theorem of Props/ says so, and no theorem of Props/ says
   that a loaded graph has unique names when the manifest has include lines.  A reader of Props/
   alone cannot tell that these premises are not vacuous.  Proposed additions (proved here): *)
Theorem loader_start_ok c : LInv (loader_start c) /\ NamesUnique (loader_start c).
Proof. split; [apply LInv_start | apply LoadGraphView.NamesUnique_start]. Qed.

Theorem load_manifest_names_unique_incl depth fs name text l :
  load_manifest true depth fs name text = Ok l -> NamesUnique l.
Proof.
  intro H. apply load_manifest_flat in H as (c & items & C & F & R).
  eapply run_flat_unique; [apply LInv_start | eapply flat_file_wf; exact F | | exact R].
  apply LoadGraphView.NamesUnique_start.
Qed.

(* ==================================================================================== *)
(* 7. nothing in C10 / C14 speaks about [lf_dependents]                                  *)
(* ==================================================================================== *)

(* SPEC GAP.  Graph::add_build also records, for every input file, the step that uses it
   ([lf_dependents], the edges the scheduler follows when a file becomes ready).  No statement of
   Props/C10*.v or C14.v mentions that field: LInv, build_ok, view, NamesUnique and file_nm are all
   blind to it, so every conclusion of these files holds just as well of a loader whose dependents
   lists have been emptied.  "The graph has exactly the declared steps" is therefore established
   for the steps and the producer edges, not for the consumer edges. *)
Definition clear_deps (l : loader) : loader :=
  mkLoader (map (fun f => mkLFile (lf_name f) (lf_input f) []) (l_files l)) (l_builds l) (l_defaults l)
           (l_rules l) (l_pools l) (l_builddir l) (l_warnings l).

Lemma file_nm_clear_deps l i : file_nm (clear_deps l) i = file_nm l i.
Proof.
  unfold file_nm, clear_deps. cbn [l_files]. rewrite nth_error_map.
  destruct (nth_error (l_files l) i); reflexivity.
Qed.

Lemma view_clear_deps l b : view (clear_deps l) b = view l b.
Proof.
  unfold view. f_equal; apply map_ext; intro i; apply file_nm_clear_deps.
Qed.

Lemma NamesUnique_clear_deps l : NamesUnique l -> NamesUnique (clear_deps l).
Proof. unfold NamesUnique, clear_deps. cbn [l_files]. rewrite map_map. cbn [lf_name]. exact (fun H => H). Qed.

Lemma LInv_clear_deps l : LInv l -> LInv (clear_deps l).
Proof.
  intros [A B C D E]. constructor; cbn [clear_deps l_files l_builds]; rewrite ?map_length.
  - intros i f p Hf Hp. rewrite nth_error_map in Hf.
    destruct (nth_error (l_files l) i) as [f0|] eqn:F; [|discriminate Hf].
    cbn [option_map] in Hf. inversion Hf; subst f. cbn [lf_input] in Hp. eapply A; eassumption.
  - intros p b o Hb Ho. destruct (B p b o Hb Ho) as (f & Hf & Hp).
    exists (mkLFile (lf_name f) (lf_input f) []). split; [|exact Hp].
    rewrite nth_error_map, Hf. reflexivity.
  - exact C.
  - exact D.
  - exact E.
Qed.

(* Proposed addition to Props/C14.v (an invariant in the style of LInv; not proved here):
     load_manifest true depth fs name text = Ok l ->
     forall i f, nth_error (l_files l) i = Some f ->
       forall p, In p (lf_dependents f) <-> exists b, nth_error (l_builds l) p = Some b /\ In i (lb_ins b)
   (with multiplicity: one entry per occurrence of i in lb_ins b). *)

Print Assumptions load_manifest_no_panic60.
Print Assumptions manifest_safe_enough_depth.
Print Assumptions eval_roundtrip_total.
Print Assumptions build_roundtrip_total.
Print Assumptions load_manifest_names_unique_incl.
