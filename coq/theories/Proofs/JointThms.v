(* J1-J3: facts about the stat cache that hold in every state reached by a jointly accepted
   trace; they discharge the premises [stated_generated] / [cache_consistent] of the World
   theorems for declared inputs. *)
From Coq Require Import Lia ZArith List Bool Arith.
From N2 Require Import Model.All Proofs.SchedSpec Proofs.SchedInv Proofs.SchedRunBase
     Proofs.SchedRunStep Proofs.SchedRunCore Proofs.SchedRunAux Proofs.SchedRunRInv Proofs.SchedRunThms
     Proofs.SchedWantInv Proofs.SchedRunFinal.
From N2 Require Import Proofs.DbSpec Proofs.WorldSpec Proofs.WorldBase Proofs.WorldDeps Proofs.WorldDirty
     Proofs.JointSpec Proofs.JointBase Proofs.JointSched Proofs.JointInv.
Import ListNotations.

Section JThms.
Variable cf : config.
Variable decls : list (bytes * nat).
Variable wg : wgraph.
Notation g := (cf_graph cf).
Notation nb := (length (g_builds (cf_graph cf))).
Hypothesis Hwf : graph_wf g.
Hypothesis Hag : graphs_agree g wg.

(* the end state of a joint run is a reached joint state *)
Lemma jrun_end a tr r w : jrun cf wg a tr r w -> exists b, jreach cf wg a tr b /\ j_r b = r /\ j_w b = w.
Proof.
  intro H. rewrite <- (app_nil_r tr) in H. apply jrun_split in H. destruct H as (b & Hr & H).
  apply jrun_nil in H. destruct H as [-> ->]. exists b. auto.
Qed.

(* start of a Work whose run state satisfies the scheduler invariant, with no step Done *)
Definition fresh_start (r0 : rstate) (w0 : wstate) : Prop :=
  RInv cf decls r0 /\ rs_ctl r0 = CIdle /\ (forall b, get_state (rs_bs r0) b <> Done) /\ ws_cache w0 = [].

Lemma fresh_start_wanted s fl w0 :
  wanted g (bs_new nb decls) s -> ws_cache w0 = [] -> fresh_start (run_init s fl) w0.
Proof.
  intros W Hc. split; [|split; [reflexivity|split; [|exact Hc]]].
  - apply (reachable_RInv_closed cf decls Hwf). now constructor.
  - intros b. cbn [run_init rs_bs].
    destruct (wanted_frame_holds g Hwf _ _ b W) as [E|(_ & [E|E])]; rewrite E; try discriminate.
    rewrite get_state_bs_new. discriminate.
Qed.

Lemma jaccepted_JInv r0 w0 tr r w :
  fresh_start r0 w0 -> jaccepted cf wg r0 w0 tr r w -> writes_ok wg [] tr ->
  exists b, JInv cf decls wg b /\ j_r b = r /\ j_w b = w.
Proof.
  intros (R & Hc & Hd & Hca) Ha Ho.
  apply jaccepted_jrun in Ha; [|exact Ho]. apply jrun_end in Ha. destruct Ha as (b & Hr & Er & Ew).
  exists b. split; [|auto].
  apply (JInv_reach cf decls wg Hag _ _ _ (JInv_init cf decls wg r0 w0 R Hc Hd Hca) Hr).
Qed.

(* J1 *)
Lemma done_outputs_cached r0 w0 tr r w :
  fresh_start r0 w0 -> jaccepted cf wg r0 w0 tr r w -> writes_ok wg [] tr ->
  forall b, get_state (rs_bs r) b = Done ->
  forall o, In o (wb_outs (get_wbuild wg b)) -> cache_get (ws_cache w) o = Some (fs_get (ws_fs w) o).
Proof.
  intros Hf Ha Ho b Eb o Io. destruct (jaccepted_JInv _ _ _ _ _ Hf Ha Ho) as (a & Hinv & <- & <-).
  exact (ji_done _ _ _ _ Hinv b Eb o Io).
Qed.

(* the state in which EVerdict b is accepted *)
Lemma checking_facts r b :
  RInv cf decls r -> rs_ctl r = CChecking b ->
  b < nb /\ forall p, ordering_producer g b p -> get_state (rs_bs r) p = Done.
Proof.
  intros R Hc. pose proof (ri_ctl _ _ _ R) as K. rewrite Hc in K. cbn [ctl_ok] in K.
  destruct K as (_ & _ & L & E). split; [exact L|]. intros p Hp.
  apply (bc_prod _ _ _ (ri_core _ _ _ R) b p); [rewrite E; cbn; tauto|exact Hp].
Qed.

(* J2 *)
Lemma checked_stated_generated r0 w0 tr r w b :
  fresh_start r0 w0 -> jaccepted cf wg r0 w0 tr r w -> writes_ok wg [] tr ->
  rs_ctl r = CChecking b ->
  stated_generated wg w (wb_dirtying (get_wbuild wg b)).
Proof.
  intros Hf Ha Ho Hc n In_ Hp. destruct (jaccepted_JInv _ _ _ _ _ Hf Ha Ho) as (a & Hinv & <- & <-).
  destruct (checking_facts _ b (ji_r _ _ _ _ Hinv) Hc) as (L & Hprod).
  destruct (producer_of wg n) as [p|] eqn:Ep; [|congruence].
  destruct (dirtying_producer g wg Hwf Hag b n p L In_ Ep) as (Hop & Lp & Iop).
  rewrite (ji_done _ _ _ _ Hinv p (Hprod p Hop) n Iop). discriminate.
Qed.

(* J3, the invariant: a cache entry that disagrees with the tree belongs to an output of a step
   that is running or has failed *)
Lemma cache_stale_only_running_failed r0 w0 tr r w :
  fresh_start r0 w0 -> jaccepted cf wg r0 w0 tr r w -> writes_ok wg [] tr ->
  forall n v, cache_get (ws_cache w) n = Some v ->
    v = fs_get (ws_fs w) n \/
    exists p, producer_of wg n = Some p /\ In n (wb_outs (get_wbuild wg p)) /\
              (get_state (rs_bs r) p = Running \/ get_state (rs_bs r) p = Failed).
Proof.
  intros Hf Ha Ho n v Hv. destruct (jaccepted_JInv _ _ _ _ _ Hf Ha Ho) as (a & Hinv & <- & <-).
  destruct (ji_cache _ _ _ _ Hinv n v Hv) as [E|(p & Lp & Ip & Sp)]; [now left|right].
  exists p. split; [exact (outs_producer g wg Hag p n Lp Ip)|]. split; [exact Ip|].
  destruct Sp as [[E _]|E]; auto.
Qed.

(* J3 at a verdict: the entries of the declared dirtying inputs of the step being checked agree
   with the tree *)
Lemma checked_cache_consistent r0 w0 tr r w b :
  fresh_start r0 w0 -> jaccepted cf wg r0 w0 tr r w -> writes_ok wg [] tr ->
  rs_ctl r = CChecking b ->
  forall n, In n (wb_dirtying (get_wbuild wg b)) ->
  forall v, cache_get (ws_cache w) n = Some v -> v = fs_get (ws_fs w) n.
Proof.
  intros Hf Ha Ho Hc n In_ v Hv. destruct (jaccepted_JInv _ _ _ _ _ Hf Ha Ho) as (a & Hinv & <- & <-).
  destruct (checking_facts _ b (ji_r _ _ _ _ Hinv) Hc) as (L & Hprod).
  destruct (ji_cache _ _ _ _ Hinv n v Hv) as [E|(p & Lp & Ip & Sp)]; [exact E|exfalso].
  pose proof (Hprod p (dirtying_out_producer g wg Hwf Hag b n p L Lp In_ Ip)) as Ed.
  destruct Sp as [[E _]|E]; congruence.
Qed.

(* the outputs of the step being checked are consistent too (it is Ready: it has not run) *)
Lemma checked_outs_consistent r0 w0 tr r w b :
  fresh_start r0 w0 -> jaccepted cf wg r0 w0 tr r w -> writes_ok wg [] tr ->
  rs_ctl r = CChecking b ->
  forall n, In n (wb_outs (get_wbuild wg b)) ->
  forall v, cache_get (ws_cache w) n = Some v -> v = fs_get (ws_fs w) n.
Proof.
  intros Hf Ha Ho Hc n In_ v Hv. destruct (jaccepted_JInv _ _ _ _ _ Hf Ha Ho) as (a & Hinv & <- & <-).
  pose proof (ri_ctl _ _ _ (ji_r _ _ _ _ Hinv)) as K. rewrite Hc in K. cbn [ctl_ok] in K.
  destruct K as (_ & _ & L & E).
  destruct (ji_cache _ _ _ _ Hinv n v Hv) as [E'|(p & Lp & Ip & Sp)]; [exact E'|exfalso].
  assert (p = b) by exact (outs_disjoint g wg Hag p b n Lp L Ip In_). subst p.
  destruct Sp as [[E' _]|E']; congruence.
Qed.

(* trace form: the state in which the item [JVerdict b v] of a jointly accepted trace is
   processed is the state reached by the prefix; the scheduler is in CChecking b there, the
   World evaluates check_build_dirty there, and J2 / J3 hold there *)
Lemma joint_at_verdict_gen r0 w0 pre b v post r w :
  fresh_start r0 w0 ->
  jaccepted cf wg r0 w0 (pre ++ JVerdict b v :: post) r w -> writes_ok wg [] (pre ++ JVerdict b v :: post) ->
  exists rp wp,
    jaccepted cf wg r0 w0 pre rp wp /\ writes_ok wg [] pre /\ rs_ctl rp = CChecking b /\
    (exists wc res, check_build_dirty wg wp b (get_wbuild wg b) = (wc, res) /\ dr_code res = verdict_code v) /\
    stated_generated wg wp (wb_dirtying (get_wbuild wg b)) /\
    (forall n, In n (wb_dirtying (get_wbuild wg b) ++ wb_outs (get_wbuild wg b)) ->
       forall x, cache_get (ws_cache wp) n = Some x -> x = fs_get (ws_fs wp) n).
Proof.
  intros Hf Ha Ho. pose proof (jaccepted_jrun _ _ _ _ _ _ _ Ha Ho) as H.
  apply jrun_prefix in H. destruct H as (c & Hr & Hp & H).
  apply jrun_jaccepted in Hp. destruct Hp as (Hpa & Hpo).
  apply jrun_cons in H. destruct H as (d & (Hs & Hw & _) & _).
  cbn [proj_s1] in Hs. apply accepts_one in Hs. cbn [wstepP] in Hw. destruct Hw as (res & Ec & Hcode & _).
  destruct Hf as (R & Hc0 & Hd & Hca).
  pose proof (JInv_reach cf decls wg Hag _ _ _ (JInv_init cf decls wg r0 w0 R Hc0 Hd Hca) Hr) as J.
  destruct (accept_sum cf decls _ _ _ (ji_r _ _ _ _ J) Hs) as [S _]. cbn [ev_sum] in S.
  destruct S as (_ & Hc & _).
  assert (Hf : fresh_start r0 w0) by exact (conj R (conj Hc0 (conj Hd Hca))).
  exists (j_r c), (j_w c). split; [exact Hpa|]. split; [exact Hpo|]. split; [exact Hc|].
  split; [exists (j_w d), res; auto|]. split.
  - exact (checked_stated_generated _ _ _ _ _ b Hf Hpa Hpo Hc).
  - intros n Hn x Hx. apply in_app_or in Hn. destruct Hn as [Hn|Hn].
    + exact (checked_cache_consistent _ _ _ _ _ b Hf Hpa Hpo Hc n Hn x Hx).
    + exact (checked_outs_consistent _ _ _ _ _ b Hf Hpa Hpo Hc n Hn x Hx).
Qed.

End JThms.
