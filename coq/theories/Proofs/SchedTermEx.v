(* Concrete instances of the universal termination theorems (Props/C06Term.v) on the graphs of
   SchedWantSpec.v / SchedLive.v: maximal traces and their length against the bound, the move
   that is accepted at different control states, a state in which the scheduler has no move
   of its own, and a fair trace with stuttering events. *)
From Coq Require Import Lia ZArith List Bool Arith.
From N2 Require Import Model.All Proofs.SchedSpec Proofs.SchedInv Proofs.SchedRunBase Proofs.SchedRunStep
     Proofs.SchedRunThms Proofs.SchedWantSpec Proofs.SchedLive
     Proofs.SchedBoundSpec Proofs.SchedBound Proofs.SchedBoundStutter Proofs.SchedBoundComplete
     Proofs.SchedBoundAny Proofs.SchedBoundEx Proofs.SchedTermSpec Proofs.SchedTerm Proofs.SchedTermFair
     Proofs.SchedTermFinal.
Import ListNotations.

(* the state after the first k events of the all-dirty, all-successful run of the double-visit graph *)
Definition dv_at (k : nat) : rstate :=
  match accepts dv_cf dv_r0 (firstn k dv_run) with Some r => r | None => dv_r0 end.

Lemma dv_at_reachable k : k <= 27 -> reachable dv_cf [] (dv_at k).
Proof.
  intro Hk. apply (reach_accepts dv_cf [] (firstn k dv_run) dv_r0); [exact dv_reachable|].
  do 28 (destruct k as [|k]; [vm_compute; reflexivity|]). lia.
Qed.

(* ------------------------------------------------------------------------------------ *)
(* maximal traces *)

(* every step dirty, every command succeeds: 27 moves against the bound 28, Ok(true) *)
Example ex_maximal_success :
  exists cf decls r evs r',
    graph_wf (cf_graph cf) /\ 1 <= cf_parallelism cf /\ reachable cf decls r /\ rs_ctl r = CIdle /\
    maximal cf r evs r' /\ rs_ctl r' = CReturned (Some true) /\
    count_ev (fun e => negb (is_stutter e)) evs = 27 /\ 9 * unfinished (cf_graph cf) (rs_bs r) + 1 = 28 /\
    bs_states (rs_bs r') = [Done; Done; Done].
Proof.
  exists dv_cf, [], dv_r0, dv_run. eexists.
  split; [exact dv_graph_wf|]. split; [cbn; lia|]. split; [exact dv_reachable|]. split; [reflexivity|].
  split; [apply (returned_maximal dv_cf dv_r0 dv_run _ (Some true)); vm_compute; reflexivity|].
  vm_compute. repeat split.
Qed.

(* step 0's command fails: step 1 is Done, step 0 Failed, step 2 still waits for it; 17 moves, Ok(false) *)
Example ex_maximal_failure :
  exists cf decls r evs r',
    graph_wf (cf_graph cf) /\ 1 <= cf_parallelism cf /\ reachable cf decls r /\ rs_ctl r = CIdle /\
    maximal cf r evs r' /\ rs_ctl r' = CReturned (Some false) /\
    count_ev (fun e => negb (is_stutter e)) evs = 17 /\ 9 * unfinished (cf_graph cf) (rs_bs r) + 1 = 28 /\
    bs_states (rs_bs r') = [Failed; Done; Want].
Proof.
  exists dv_cf, [], dv_r0, (dv_fail_run ++ [EReturn (Some false)]). eexists.
  split; [exact dv_graph_wf|]. split; [cbn; lia|]. split; [exact dv_reachable|]. split; [reflexivity|].
  split; [apply (returned_maximal dv_cf dv_r0 _ _ (Some false)); vm_compute; reflexivity|].
  vm_compute. repeat split.
Qed.

(* an accepted trace that is not maximal: the run stopped after the first command was started *)
Example ex_not_maximal :
  exists cf decls r evs r' e,
    graph_wf (cf_graph cf) /\ reachable cf decls r /\ accepts cf r evs = Some r' /\
    ~ maximal cf r evs r' /\ is_stutter e = false /\ accept1 cf r' e <> None.
Proof.
  exists dv_cf, [], dv_r0, (firstn 5 dv_run), (dv_at 5), (EFinish 1 TInterrupted).
  split; [exact dv_graph_wf|]. split; [exact dv_reachable|]. split; [vm_compute; reflexivity|].
  split; [|split; [reflexivity|vm_compute; discriminate]].
  intros [_ Hmax]. specialize (Hmax (EFinish 1 TInterrupted) eq_refl). vm_compute in Hmax. discriminate Hmax.
Qed.

(* ------------------------------------------------------------------------------------ *)
(* the move accepted at different control states *)

(* at the top of the loop, nothing running: the scheduler examines the ready step *)
Example ex_never_stuck_idle :
  exists cf decls r e r',
    graph_wf (cf_graph cf) /\ 1 <= cf_parallelism cf /\ reachable cf decls r /\
    rs_ctl r = CIdle /\ rs_running r = 0 /\
    e = EPopReady 1 /\ sched_move e = true /\ accept1 cf r e = Some r'.
Proof.
  exists dv_cf, [], (dv_at 0), (EPopReady 1), (dv_at 1).
  split; [exact dv_graph_wf|]. split; [cbn; lia|]. split; [apply dv_at_reachable; lia|].
  vm_compute. repeat split.
Qed.

(* the step is being examined: the environment's verdict is accepted, and nothing else is *)
Example ex_never_stuck_checking :
  exists cf decls r e r',
    graph_wf (cf_graph cf) /\ 1 <= cf_parallelism cf /\ reachable cf decls r /\
    rs_ctl r = CChecking 1 /\
    e = EVerdict 1 VDirty /\ env_move e = true /\ accept1 cf r e = Some r' /\
    forall e2 r2, accept1 cf r e2 = Some r2 -> sched_move e2 = false.
Proof.
  exists dv_cf, [], (dv_at 1), (EVerdict 1 VDirty), (dv_at 2).
  split; [exact dv_graph_wf|]. split; [cbn; lia|]. split; [apply dv_at_reachable; lia|].
  split; [reflexivity|]. split; [reflexivity|]. split; [reflexivity|]. split; [vm_compute; reflexivity|].
  intros e2 r2 H.
  destruct (checking_only_verdict dv_cf (dv_at 1) 1 e2 r2 eq_refl H) as [v ->]. reflexivity.
Qed.

(* the verdict is in: the scheduler queues the step *)
Example ex_never_stuck_verdict :
  exists cf decls r e r',
    graph_wf (cf_graph cf) /\ 1 <= cf_parallelism cf /\ reachable cf decls r /\
    rs_ctl r = CVerdict 1 VDirty false /\
    e = ESet 1 Ready Queued /\ sched_move e = true /\ accept1 cf r e = Some r'.
Proof.
  exists dv_cf, [], (dv_at 2), (ESet 1 Ready Queued), (dv_at 3).
  split; [exact dv_graph_wf|]. split; [cbn; lia|]. split; [apply dv_at_reachable; lia|].
  vm_compute. repeat split.
Qed.

(* the step has been set Running: the scheduler hands its command to the runner *)
Example ex_never_stuck_starting :
  exists cf decls r e r',
    graph_wf (cf_graph cf) /\ 1 <= cf_parallelism cf /\ reachable cf decls r /\
    rs_ctl r = CStarting 1 /\
    e = EStart 1 /\ sched_move e = true /\ accept1 cf r e = Some r'.
Proof.
  exists dv_cf, [], (dv_at 4), (EStart 1), (dv_at 5).
  split; [exact dv_graph_wf|]. split; [cbn; lia|]. split; [apply dv_at_reachable; lia|].
  vm_compute. repeat split.
Qed.

(* the command has finished: the scheduler writes the log record *)
Example ex_never_stuck_finished :
  exists cf decls r e r',
    graph_wf (cf_graph cf) /\ 1 <= cf_parallelism cf /\ reachable cf decls r /\
    rs_ctl r = CFinished 1 TSuccess false /\
    e = ERecord 1 /\ sched_move e = true /\ accept1 cf r e = Some r'.
Proof.
  exists dv_cf, [], (dv_at 6), (ERecord 1), (dv_at 7).
  split; [exact dv_graph_wf|]. split; [cbn; lia|]. split; [apply dv_at_reachable; lia|].
  vm_compute. repeat split.
Qed.

(* at the top of the loop while the only unfinished step runs: every termination of its command
   is accepted, and the scheduler has no move of its own - the premise "nothing is running" of
   the sharper form cannot be dropped *)
Lemma noval_waiting_no_sched_move e r' :
  accept1 noval_cf noval_waiting e = Some r' -> sched_move e = false.
Proof.
  intro H. destruct (sched_move e) eqn:He; [exfalso|reflexivity].
  destruct (idle_sched_moves noval_cf noval_waiting e r' eq_refl H He) as (b & [-> | [-> | [-> | ->]]]).
  - destruct b as [|[|[|b]]]; vm_compute in H; discriminate H.
  - destruct b as [|[|[|b]]]; vm_compute in H; discriminate H.
  - destruct b as [|[|[|b]]]; vm_compute in H; discriminate H.
  - vm_compute in H. discriminate H.
Qed.

Example ex_scheduler_waits :
  exists cf decls r,
    graph_wf (cf_graph cf) /\ 1 <= cf_parallelism cf /\ reachable cf decls r /\
    rs_ctl r = CIdle /\ rs_running r = 1 /\
    (forall t, exists r', env_move (EFinish 0 t) = true /\ accept1 cf r (EFinish 0 t) = Some r') /\
    forall e r', accept1 cf r e = Some r' -> sched_move e = false.
Proof.
  exists noval_cf, [], noval_waiting.
  split; [exact noval_graph_wf|]. split; [cbn; lia|]. split; [exact noval_waiting_reachable|].
  split; [reflexivity|]. split; [reflexivity|]. split.
  - intro t. eexists. split; [reflexivity|]. destruct t; vm_compute; reflexivity.
  - exact noval_waiting_no_sched_move.
Qed.

(* ------------------------------------------------------------------------------------ *)
(* a fair trace with stuttering events: the display is refreshed, the runner waits, the command
   finishes; 6 events against the bound 20 * 1 + 5 *)

Example ex_fair_run :
  exists cf decls r evs r',
    graph_wf (cf_graph cf) /\ reachable cf decls r /\ maximal cf r evs r' /\
    quiesce_fair evs /\ update_fair evs /\ count_ev is_stutter evs = 2 /\
    length evs = 6 /\ 20 * unfinished (cf_graph cf) (rs_bs r) + 5 = 25.
Proof.
  exists noval_cf, [], noval_waiting,
    ([EUpdate (mkC6 0 0 0 1 1 0); EQuiesce 1] ++ finish_evs 0 ++ [EReturn (Some true)]).
  eexists.
  split; [exact noval_graph_wf|]. split; [exact noval_waiting_reachable|].
  split; [apply (returned_maximal noval_cf noval_waiting _ _ (Some true)); vm_compute; reflexivity|].
  split; [apply separated_iff; vm_compute; reflexivity|].
  split; [apply separated_iff; vm_compute; reflexivity|].
  vm_compute. repeat split.
Qed.

(* the returned state of the failing run, read through the characterisation *)
Example ex_final_states :
  exists cf decls r evs r' ok,
    graph_wf (cf_graph cf) /\ reachable cf decls r /\ (forall o, rs_ctl r <> CReturned o) /\
    accepts cf r evs = Some r' /\ rs_ctl r' = CReturned ok /\ ok = Some false /\
    get_state (rs_bs r') 0 = Failed /\ get_state (rs_bs r') 1 = Done /\
    blocked (cf_graph cf) (rs_bs r') 2.
Proof.
  exists dv_cf, [], dv_r0, (dv_fail_run ++ [EReturn (Some false)]). eexists. exists (Some false).
  split; [exact dv_graph_wf|]. split; [exact dv_reachable|]. split; [intros o E; discriminate E|].
  split; [vm_compute; reflexivity|].
  split; [reflexivity|]. split; [reflexivity|]. split; [reflexivity|]. split; [reflexivity|].
  split; [reflexivity|]. exists 0. split; [reflexivity|].
  apply or_step. exists 0. split; [now left|reflexivity].
Qed.
