(* Interface between the run-loop proofs (SchedRun*.v) and the want-traversal proofs.
   Definitions only. *)
From N2 Require Import Model.All Proofs.SchedSpec.

(* invariant of BuildStates between events, w.r.t. graph g and pool declarations decls *)
Record BInv (g : graph) (decls : list (bytes * nat)) (s : bstates) : Prop := {
  bi_len : length (bs_states s) = length (g_builds g);
  (* a step past Want has all its ordering producers Done *)
  bi_prod : forall b p, In (get_state s b) [Ready; Queued; Running; Done] -> ordering_producer g b p -> get_state s p = Done;
  (* the wanted set is closed under producers of any input *)
  bi_closed : forall b p, get_state s b <> Unknown -> any_producer g b p -> get_state s p <> Unknown;
  (* counters *)
  bi_counts : bs_counts s = census g s;
  bi_pending : bs_pending s = (count_state g s Want false + count_state g s Ready false + count_state g s Queued false + count_state g s Running false)%Z;
  (* ready queue = the Ready steps, no duplicates *)
  bi_ready : NoDup (bs_ready s) /\ (forall b, In b (bs_ready s) <-> (b < length (g_builds g) /\ get_state s b = Ready));
  (* pools: names are those of init_pools decls, in order, with the declared depths; running = census;
     every queued entry is a Queued step of that pool, no duplicates, and every Queued step is queued in its pool *)
  bi_pool_names : map (fun p => (p_name p, p_depth p)) (bs_pools s) = map (fun p => (p_name p, p_depth p)) (init_pools decls);
  bi_pool_names_nodup : NoDup (map p_name (bs_pools s));
  bi_pool_running : forall p, In p (bs_pools s) -> p_running p = running_in_pool g s (p_name p);
  bi_pool_queued : forall p b, In p (bs_pools s) -> In b (p_queued p) -> (get_state s b = Queued /\ pool_name (get_build g b) = p_name p);
  bi_pool_queued_nodup : forall p, In p (bs_pools s) -> NoDup (p_queued p);
  bi_queued_in_pool : forall b, b < length (g_builds g) -> get_state s b = Queued -> exists p, In p (bs_pools s) /\ p_name p = pool_name (get_build g b) /\ In b (p_queued p);
  (* a step that is Queued or Running names a declared pool (Queued->Running never hits the unwrap) *)
  bi_running_pool : forall b, b < length (g_builds g) -> In (get_state s b) [Queued; Running] -> pool_find (bs_pools s) (pool_name (get_build g b)) <> None;
  (* ADDED (needed for C19_running): phony steps are never Queued or Running *)
  bi_nonphony : forall b, In (get_state s b) [Queued; Running] -> b_phony (get_build g b) = false;
}.

(* The two facts about the want traversal that the run-loop proofs take as premises. *)

(* (1) the traversal preserves BInv *)
Definition wanted_preserves_BInv_stmt (g : graph) (decls : list (bytes * nat)) : Prop :=
  forall s s', BInv g decls s -> wanted g s s' -> BInv g decls s'.

(* (2) frame: the traversal only moves Unknown steps, and only to Want or Ready.  (BInv alone
   cannot give "a fresh Work has no Running/Failed step", which the run-state invariant
   rs_running = #Running, rs_failed = #Failed needs at run_init.) *)
Definition wanted_frame_stmt (g : graph) : Prop :=
  forall s s' b, wanted g s s' ->
    get_state s' b = get_state s b \/
    (get_state s b = Unknown /\ (get_state s' b = Want \/ get_state s' b = Ready)).
