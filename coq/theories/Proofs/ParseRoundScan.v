(* C10 round trip, scanner level: positions in a buffer, the primitive scanner operations and the
   small loops of parse.rs (skip_spaces, read_ident) on texts of a known shape.

   [at_ buf L0 s pre suf]: the scanner [s] is over [buf = pre ++ suf], at offset [length pre], and
   its line counter is [L0] plus the number of newlines in [pre].  The buffer contains no '\r', so
   [sc_back] always steps back exactly one byte.

   Partial-correctness style ([pc]): "with whatever fuel, the function either runs out of fuel or
   returns a value and a state satisfying Q". *)
From Coq Require Import String.
From N2 Require Import Model.All Proofs.ParseSpell.

Ltac norm_app := repeat (progress (rewrite <- ?app_assoc; cbn [app])); rewrite ?app_nil_r.

Lemma match13 (x : option N) (a b : nat) :
  x <> Some 13%N -> match x with Some 13%N => a | _ => b end = b.
Proof.
  intro H.
  destruct x as [[|p]|]; try reflexivity.
  do 4 (try destruct p as [p|p|]; try reflexivity).
  exfalso; apply H; reflexivity.
Qed.

Lemma nlz_app a b : nlz (a ++ b) = (nlz a + nlz b)%Z.
Proof. induction a as [|c a IH]; cbn [app nlz]; [reflexivity | rewrite IH; lia]. Qed.

Lemma nlz_repeat32 n : nlz (repeat 32%N n) = 0%Z.
Proof. induction n as [|n IH]; cbn [repeat nlz]; [reflexivity | rewrite IH; reflexivity]. Qed.

Lemma notin_app (x : N) a b : ~ In x a -> ~ In x b -> ~ In x (a ++ b).
Proof. intros Ha Hb Hin. apply in_app_or in Hin as [?|?]; auto. Qed.

Definition pc {A} (Q : A -> scanner -> Prop) (r : sres A) : Prop :=
  r = SFuel \/ exists v s', r = SOk v s' /\ Q v s'.

Lemma pc_bind {A B} (P : sres B -> Prop) (r : sres A) (k : A -> scanner -> sres B) Q :
  pc Q r -> P SFuel -> (forall v s', Q v s' -> P (k v s')) -> P (sbind r k).
Proof. intros [->|(v & s' & -> & HQ)] HF HK; cbn [sbind]; auto. Qed.

Lemma pc_mono {A} (Q Q' : A -> scanner -> Prop) r :
  pc Q r -> (forall v s, Q v s -> Q' v s) -> pc Q' r.
Proof. intros [->|(v & s' & -> & HQ)] H; [now left | right; eauto]. Qed.

Lemma pc_fuel {A} (Q : A -> scanner -> Prop) : pc Q SFuel.
Proof. now left. Qed.

Lemma pc_ok {A} (Q : A -> scanner -> Prop) v s : Q v s -> pc Q (SOk v s).
Proof. right; eauto. Qed.

Definition at_ (buf : bytes) (L0 : Z) (s : scanner) (pre suf : bytes) : Prop :=
  sbuf s = buf /\ pre ++ suf = buf /\ sofs s = length pre /\ sline s = (L0 + nlz pre)%Z.

Section Scan.
  Variable buf : bytes.
  Variable L0 : Z.
  Hypothesis Hno13 : ~ In 13%N buf.

  Notation at_ := (at_ buf L0).

  Lemma at_eq s pre suf pre' suf' : at_ s pre suf -> pre = pre' -> suf = suf' -> at_ s pre' suf'.
  Proof. intros H -> ->. exact H. Qed.

  Lemma at_nth s pre c suf : at_ s pre (c :: suf) -> nth_error buf (length pre) = Some c.
  Proof.
    intros (_ & He & _). rewrite <- He, nth_error_app2, Nat.sub_diag by lia. reflexivity.
  Qed.

  Lemma read_at s pre c suf :
    at_ s pre (c :: suf) -> exists s', sc_read s = SOk c s' /\ at_ s' (pre ++ [c]) suf.
  Proof.
    intros Hat. pose proof (at_nth _ _ _ _ Hat) as En. destruct Hat as (Hb & He & Ho & Hl).
    unfold sc_read, sc_get. rewrite Hb, Ho, En. cbn [sbind]. rewrite Hb, Ho.
    destruct (Nat.eqb_spec (length pre) (length buf)) as [Heq|_].
    - rewrite <- He, app_length in Heq. cbn in Heq. lia.
    - eexists. split; [reflexivity|]. split; [reflexivity|]. split; [|split].
      + rewrite <- app_assoc. exact He.
      + cbn [sofs]. rewrite app_length. cbn. lia.
      + cbn [sline]. rewrite nlz_app, Hl. cbn [nlz]. destruct (c =? 10)%N; lia.
  Qed.

  Lemma peek_at s pre c suf : at_ s pre (c :: suf) -> sc_peek s = SOk c s.
  Proof.
    intros Hat. pose proof (at_nth _ _ _ _ Hat) as En. destruct Hat as (Hb & He & Ho & _).
    unfold sc_peek, sc_get. rewrite Hb, Ho, En. reflexivity.
  Qed.

  Lemma back_at s pre c suf :
    at_ s (pre ++ [c]) suf -> exists s', sc_back s = SOk tt s' /\ at_ s' pre (c :: suf).
  Proof.
    intros (Hb & He & Ho & Hl). rewrite <- app_assoc in He. cbn [app] in He.
    assert (En : nth_error buf (length pre) = Some c).
    { rewrite <- He, nth_error_app2, Nat.sub_diag by lia. reflexivity. }
    rewrite app_length in Ho. cbn [length] in Ho. rewrite Nat.add_1_r in Ho.
    rewrite nlz_app in Hl. cbn [nlz] in Hl.
    unfold sc_back. rewrite Ho, Hb, En. cbv zeta.
    destruct (c =? 10)%N.
    - destruct (length pre) as [|o1] eqn:El.
      + eexists. split; [reflexivity|]. split; [reflexivity|]. split; [exact He|].
        split; [cbn; congruence | cbn [sline]; lia].
      + rewrite match13.
        * eexists. split; [reflexivity|]. split; [reflexivity|]. split; [exact He|].
          split; [cbn; congruence | cbn [sline]; lia].
        * intro E13. apply nth_error_In in E13. contradiction.
    - eexists. split; [reflexivity|]. split; [reflexivity|]. split; [exact He|].
      split; [reflexivity | cbn [sline]; lia].
  Qed.

  (* read a byte and un-read it *)
  Lemma read_back_at s pre c suf :
    at_ s pre (c :: suf) ->
    exists s1 s2, sc_read s = SOk c s1 /\ sc_back s1 = SOk tt s2 /\ at_ s2 pre (c :: suf).
  Proof.
    intro Hat. destruct (read_at _ _ _ _ Hat) as (s1 & E1 & H1).
    destruct (back_at _ _ _ _ H1) as (s2 & E2 & H2). eauto.
  Qed.

  Lemma slice_at s pre P suf :
    at_ s (pre ++ P) suf -> sc_slice s (length pre) (length (pre ++ P)) = SOk P s.
  Proof.
    intros (Hb & He & Ho & _). unfold sc_slice. rewrite Hb.
    assert (E1 : (length pre <=? length (pre ++ P)) = true) by (apply Nat.leb_le; rewrite app_length; lia).
    assert (E2 : (length (pre ++ P) <=? length buf) = true)
      by (apply Nat.leb_le; rewrite <- He, !app_length; lia).
    rewrite E1, E2. cbn [andb]. f_equal.
    rewrite <- He, <- app_assoc, skipn_app, skipn_all, Nat.sub_diag. cbn [app skipn].
    replace (length (pre ++ P) - length pre) with (length P) by (rewrite app_length; lia).
    rewrite firstn_app, firstn_all, Nat.sub_diag. cbn. now rewrite app_nil_r.
  Qed.

  (* a slice anywhere behind or ahead of the current position *)
  Lemma slice_gen s pre P suf :
    sbuf s = buf -> pre ++ P ++ suf = buf -> sc_slice s (length pre) (length (pre ++ P)) = SOk P s.
  Proof.
    intros Hb He. unfold sc_slice. rewrite Hb.
    assert (E1 : (length pre <=? length (pre ++ P)) = true) by (apply Nat.leb_le; rewrite app_length; lia).
    assert (E2 : (length (pre ++ P) <=? length buf) = true)
      by (apply Nat.leb_le; rewrite <- He, !app_length; lia).
    rewrite E1, E2. cbn [andb]. f_equal.
    rewrite <- He, skipn_app, skipn_all, Nat.sub_diag. cbn [app skipn].
    replace (length (pre ++ P) - length pre) with (length P) by (rewrite app_length; lia).
    rewrite firstn_app, firstn_all, Nat.sub_diag. cbn. now rewrite app_nil_r.
  Qed.

  Lemma skip_hit s pre c suf :
    at_ s pre (c :: suf) -> exists s', sc_skip c s = SOk true s' /\ at_ s' (pre ++ [c]) suf.
  Proof.
    intro Hat. destruct (read_at _ _ _ _ Hat) as (s1 & E1 & H1).
    unfold sc_skip. rewrite E1. cbn [sbind]. rewrite N.eqb_refl. eauto.
  Qed.

  Lemma skip_miss s pre c ch suf :
    at_ s pre (c :: suf) -> c <> ch -> exists s', sc_skip ch s = SOk false s' /\ at_ s' pre (c :: suf).
  Proof.
    intros Hat Hne. destruct (read_back_at _ _ _ _ Hat) as (s1 & s2 & E1 & E2 & H2).
    unfold sc_skip. rewrite E1. cbn [sbind]. apply N.eqb_neq in Hne. rewrite Hne, E2. cbn [sbind]. eauto.
  Qed.

  Lemma expect_at s pre c suf :
    at_ s pre (c :: suf) -> exists s', sc_expect c s = SOk tt s' /\ at_ s' (pre ++ [c]) suf.
  Proof.
    intro Hat. destruct (read_at _ _ _ _ Hat) as (s1 & E1 & H1).
    unfold sc_expect. rewrite E1. cbn [sbind]. rewrite N.eqb_refl. eauto.
  Qed.

  (* Scanner::skip_spaces: spaces only *)
  Lemma sc_skip_spaces_at n : forall pre c suf s f,
    at_ s pre (repeat 32%N n ++ c :: suf) -> c <> 32%N ->
    pc (fun _ s' => at_ s' (pre ++ repeat 32%N n) (c :: suf)) (sc_skip_spaces f s).
  Proof.
    induction n as [|n IH]; intros pre c suf s f Hat Hc;
      (destruct f as [|f]; [apply pc_fuel|]); cbn [sc_skip_spaces repeat app] in *.
    - destruct (skip_miss _ _ _ 32%N _ Hat Hc) as (s1 & E1 & H1). rewrite E1. cbn [sbind].
      apply pc_ok. now rewrite app_nil_r.
    - destruct (skip_hit _ _ _ _ Hat) as (s1 & E1 & H1). rewrite E1. cbn [sbind].
      eapply pc_mono; [apply (IH (pre ++ [32%N]) c suf s1 f H1 Hc)|].
      intros ? s' Hs'. eapply at_eq; [exact Hs' | now norm_app | reflexivity].
  Qed.

  (* where Parser::skip_spaces stops: not at a space and not at "$\n" *)
  Definition ws_stop (X : bytes) : Prop :=
    exists c r, X = c :: r /\ c <> 32%N /\ (c = 36%N -> exists d r', r = d :: r' /\ d <> 10%N).

  (* Parser::skip_spaces: spaces and "$\n" *)
  Lemma p_skip_spaces_at w : ws w -> forall pre X s f,
    at_ s pre (w ++ X) -> ws_stop X ->
    pc (fun _ s' => at_ s' (pre ++ w) X) (p_skip_spaces f s).
  Proof.
    induction 1 as [|w Hw IH|w Hw IH]; intros pre X s f Hat HX;
      (destruct f as [|f]; [apply pc_fuel|]); cbn [p_skip_spaces app] in *.
    - destruct HX as (c & r & -> & Hc32 & Hc36).
      destruct (read_at _ _ _ _ Hat) as (s1 & E1 & H1). rewrite E1. cbn [sbind].
      destruct (back_at _ _ _ _ H1) as (s2 & E2 & H2).
      assert (Hback : pc (fun _ s' => at_ s' (pre ++ []) (c :: r)) (sc_back s1)).
      { rewrite E2. apply pc_ok. now rewrite app_nil_r. }
      apply N.eqb_neq in Hc32. rewrite Hc32.
      destruct (N.eqb_spec c 36) as [E36|_]; [|exact Hback].
      destruct (Hc36 E36) as (d & r' & -> & Hd).
      rewrite (peek_at _ _ _ _ H1). cbn [sbind]. apply N.eqb_neq in Hd. rewrite Hd. exact Hback.
    - destruct (read_at _ _ _ _ Hat) as (s1 & E1 & H1). rewrite E1. cbn [sbind].
      change (32 =? 32)%N with true. cbv iota.
      eapply pc_mono; [apply (IH (pre ++ [32%N]) X s1 f H1 HX)|].
      intros ? s' Hs'. eapply at_eq; [exact Hs' | now norm_app | reflexivity].
    - destruct (read_at _ _ _ _ Hat) as (s1 & E1 & H1). rewrite E1. cbn [sbind].
      change (36 =? 32)%N with false. change (36 =? 36)%N with true. cbv iota.
      rewrite (peek_at _ _ _ _ H1). cbn [sbind]. change (negb (10 =? 10)%N) with false. cbv iota.
      destruct (skip_hit _ _ _ _ H1) as (s2 & E2 & H2). rewrite E2. cbn [sbind].
      eapply pc_mono; [apply (IH ((pre ++ [36%N]) ++ [10%N]) X s2 f H2 HX)|].
      intros ? s' Hs'. eapply at_eq; [exact Hs' | now norm_app | reflexivity].
  Qed.

  Lemma read_while_at ok l : forallb ok l = true -> forall pre c suf s f,
    at_ s pre (l ++ c :: suf) -> ok c = false ->
    pc (fun _ s' => at_ s' (pre ++ l) (c :: suf)) (read_while f ok s).
  Proof.
    induction l as [|x l IH]; intros Hall pre c suf s f Hat Hc;
      (destruct f as [|f]; [apply pc_fuel|]); cbn [read_while app] in *.
    - destruct (read_back_at _ _ _ _ Hat) as (s1 & s2 & E1 & E2 & H2). rewrite E1. cbn [sbind].
      rewrite Hc, E2. apply pc_ok. now rewrite app_nil_r.
    - cbn [forallb] in Hall. apply andb_true_iff in Hall as [Hx Hall].
      destruct (read_at _ _ _ _ Hat) as (s1 & E1 & H1). rewrite E1. cbn [sbind]. rewrite Hx.
      eapply pc_mono; [apply (IH Hall (pre ++ [x]) c suf s1 f H1 Hc)|].
      intros ? s' Hs'. eapply at_eq; [exact Hs' | now norm_app | reflexivity].
  Qed.

  Lemma read_ident_gen_at ok msg l pre c suf s f :
    l <> [] -> forallb ok l = true -> at_ s pre (l ++ c :: suf) -> ok c = false ->
    pc (fun v s' => v = l /\ at_ s' (pre ++ l) (c :: suf)) (read_ident_gen f ok msg s).
  Proof.
    intros Hne Hall Hat Hc. unfold read_ident_gen.
    eapply pc_bind; [apply (read_while_at ok l Hall pre c suf s f Hat Hc) | apply pc_fuel|].
    intros ? s1 H1. cbv beta.
    destruct Hat as (_ & _ & Ho & _). pose proof H1 as (_ & _ & Ho1 & _). rewrite Ho, Ho1.
    destruct (Nat.eqb_spec (length (pre ++ l)) (length pre)) as [Heq|_].
    - rewrite app_length in Heq. destruct l; [contradiction | cbn in Heq; lia].
    - rewrite (slice_at _ _ _ _ H1). apply pc_ok. auto.
  Qed.
End Scan.
