(* Db log: what the writer emits, as a list of well-formed records ([wrecs]). *)
From N2 Require Import Model.All Proofs.DbSpec Proofs.DbCodec.
From Coq Require Import Lia.

(* db id [i] names [nm] in table [tbl] *)
Definition id_name (tbl : list bytes) (i : N) (nm : bytes) : Prop := nth_error tbl (N.to_nat i) = Some nm.

Lemma id_name_lt tbl i nm : id_name tbl i nm -> (i < N.of_nat (length tbl))%N.
Proof.
  unfold id_name. intros H.
  assert (L : N.to_nat i < length tbl) by (apply nth_error_Some; congruence). lia.
Qed.

Lemma id_name_app tbl x i nm : id_name tbl i nm -> id_name (tbl ++ x) i nm.
Proof.
  unfold id_name. intros H. rewrite nth_error_app1; [exact H|]. apply nth_error_Some. congruence.
Qed.

Lemma Forall2_id_name_app tbl x ids names :
  Forall2 (id_name tbl) ids names -> Forall2 (id_name (tbl ++ x)) ids names.
Proof. induction 1; constructor; [now apply id_name_app | assumption]. Qed.

Lemma index_of_some : forall tbl nm i j, index_of nm tbl i = Some j ->
  exists k, j = (i + N.of_nat k)%N /\ nth_error tbl k = Some nm.
Proof.
  induction tbl as [|n tbl IH]; intros nm i j H; cbn [index_of] in H; [discriminate|].
  destruct (bytes_eqb n nm) eqn:E.
  - injection H as <-. exists 0. split; [lia|]. apply bytes_eqb_spec in E. now subst.
  - apply IH in H as (k & -> & Hk). exists (S k). split; [lia | exact Hk].
Qed.

Definition name_ok (nm : bytes) : Prop := (N.of_nat (length nm) < 32768)%N.

Lemma ensure_ids_ok : forall names tbl, Forall name_ok names ->
  exists news ids,
    ensure_ids names tbl (N.of_nat (length tbl)) =
      Ok (ids, encs (map DPath news), tbl ++ news, N.of_nat (length (tbl ++ news))) /\
    length news <= length names /\ Forall2 (id_name (tbl ++ news)) ids names /\ Forall name_ok news.
Proof.
  induction names as [|nm names IH]; intros tbl Hok.
  - exists [], []. rewrite app_nil_r. repeat split; constructor.
  - inversion Hok as [|? ? Hnm Hrest]; subst. cbn [ensure_ids].
    destruct (index_of nm tbl 0) as [i|] eqn:E.
    + destruct (IH tbl Hrest) as (news & ids & E1 & Hl & Hids & Hnews).
      exists news, (i :: ids). rewrite E1. cbn [bind]. repeat split; try assumption.
      * cbn [length]. lia.
      * constructor; [|exact Hids].
        apply index_of_some in E as (k & -> & Hk). apply id_name_app.
        unfold id_name. now rewrite N.add_0_l, Nat2N.id.
    + assert (Ep : enc_path nm = Ok (u16le (N.of_nat (length nm)) ++ nm)).
      { unfold enc_path. unfold name_ok in Hnm.
        destruct (N.leb_spec 32768 (N.of_nat (length nm))) as [L|_]; [lia | reflexivity]. }
      rewrite Ep. cbn [bind].
      replace (N.of_nat (length tbl) + 1)%N with (N.of_nat (length (tbl ++ [nm])))
        by (rewrite app_length; cbn [length]; lia).
      destruct (IH (tbl ++ [nm]) Hrest) as (news & ids & E1 & Hl & Hids & Hnews).
      rewrite <- app_assoc in E1, Hids. cbn [app] in E1, Hids.
      exists (nm :: news), (N.of_nat (length tbl) :: ids). rewrite E1. cbn [bind].
      repeat split.
      * cbn [length]. lia.
      * constructor; [|exact Hids].
        unfold id_name. rewrite Nat2N.id, nth_error_app2, Nat.sub_diag by lia. reflexivity.
      * constructor; assumption.
Qed.

Lemma enc_ids_ok ids : Forall id_ok ids -> enc_ids ids = Ok (enc_idl ids).
Proof.
  induction 1 as [|i ids Hi _ IH]; [reflexivity|].
  cbn [enc_ids]. unfold enc_id, id_ok in *.
  destruct (N.ltb_spec 16777216 i) as [L|_]; [lia|].
  cbn [bind]. rewrite IH. reflexivity.
Qed.

Lemma enc_build_ok outs deps hash : rec_ok (DBuild outs deps hash) ->
  enc_build outs deps hash = Ok (enc_rec (DBuild outs deps hash)).
Proof.
  intros (Ho & Hd & Hio & Hid & Hh). unfold enc_build.
  rewrite (enc_ids_ok _ Hio), (enc_ids_ok _ Hid). cbn [bind].
  rewrite !N.mod_small by lia. rewrite lor_mark by exact Ho. reflexivity.
Qed.

Lemma Forall2_id_ok tbl ids names :
  (N.of_nat (length tbl) <= 16777216)%N -> Forall2 (id_name tbl) ids names -> Forall id_ok ids.
Proof.
  intros Hl. induction 1 as [|i nm ids names H _ IH]; constructor; [|exact IH].
  apply id_name_lt in H. unfold id_ok. lia.
Qed.

Lemma Forall2_len {A B} (R : A -> B -> Prop) l1 l2 : Forall2 R l1 l2 -> length l1 = length l2.
Proof. induction 1; cbn [length]; congruence. Qed.

Lemma in_bounds_names w : in_bounds w -> Forall name_ok (w_outs w) /\ Forall name_ok (w_deps w).
Proof.
  intros (_ & _ & H & _). split; apply Forall_forall; intros n Hn; apply H; apply in_or_app; tauto.
Qed.

Lemma write_build_ok tbl w : in_bounds w ->
  (N.of_nat (length tbl + length (w_outs w) + length (w_deps w)) < 16777216)%N ->
  exists news oids dids,
    write_build tbl (w_outs w) (w_deps w) (w_hash w) =
      Ok (encs (map DPath news ++ [DBuild oids dids (w_hash w)]), tbl ++ news) /\
    length news <= length (w_outs w) + length (w_deps w) /\
    Forall2 (id_name (tbl ++ news)) oids (w_outs w) /\ Forall2 (id_name (tbl ++ news)) dids (w_deps w) /\
    Forall rec_ok (map DPath news ++ [DBuild oids dids (w_hash w)]).
Proof.
  intros Hb Hsz. destruct (in_bounds_names w Hb) as (Hno & Hnd).
  destruct Hb as (Ho & Hd & _ & Hh).
  destruct (ensure_ids_ok (w_outs w) tbl Hno) as (news1 & oids & E1 & Hl1 & Hio & Hn1).
  destruct (ensure_ids_ok (w_deps w) (tbl ++ news1) Hnd) as (news2 & dids & E2 & Hl2 & Hid & Hn2).
  rewrite <- app_assoc in E2, Hid.
  apply (Forall2_id_name_app _ news2) in Hio. rewrite <- app_assoc in Hio.
  assert (Hlen : (N.of_nat (length (tbl ++ news1 ++ news2)) <= 16777216)%N)
    by (rewrite !app_length; lia).
  assert (Hrec : rec_ok (DBuild oids dids (w_hash w))).
  { cbn [rec_ok]. rewrite (Forall2_len _ _ _ Hio), (Forall2_len _ _ _ Hid).
    repeat split; try assumption; eapply Forall2_id_ok; eassumption. }
  exists (news1 ++ news2), oids, dids. repeat split; try assumption.
  - unfold write_build. rewrite E1. cbn [bind]. rewrite E2. cbn [bind].
    rewrite (enc_build_ok _ _ _ Hrec). cbn [bind].
    rewrite map_app, !encs_app. cbn [encs map concat]. now rewrite app_nil_r, <- app_assoc.
  - rewrite app_length. lia.
  - apply Forall_app. split.
    + apply Forall_forall. intros r Hr. apply in_map_iff in Hr as (nm & <- & Hin).
      cbn [rec_ok]. assert (F : Forall name_ok (news1 ++ news2)) by (apply Forall_app; now split).
      rewrite Forall_forall in F. now apply F.
    + constructor; [exact Hrec | constructor].
Qed.

(* the records written for a sequence of completions, with the id <-> name correspondence *)
Inductive wrecs : list bytes -> list wr -> list dbrec -> list bytes -> Prop :=
| wrecs_nil tbl : wrecs tbl [] [] tbl
| wrecs_cons tbl w ws news oids dids recs tbl' :
    Forall2 (id_name (tbl ++ news)) oids (w_outs w) ->
    Forall2 (id_name (tbl ++ news)) dids (w_deps w) ->
    wrecs (tbl ++ news) ws recs tbl' ->
    wrecs tbl (w :: ws) (map DPath news ++ DBuild oids dids (w_hash w) :: recs) tbl'.

Definition nnames (ws : list wr) : nat := length (concat (map (fun w => w_outs w ++ w_deps w) ws)).

Lemma nnames_cons w ws : nnames (w :: ws) = length (w_outs w) + length (w_deps w) + nnames ws.
Proof. unfold nnames. cbn [map concat]. rewrite !app_length. lia. Qed.

Lemma nnames_app a b : nnames (a ++ b) = nnames a + nnames b.
Proof. unfold nnames. now rewrite map_app, concat_app, app_length. Qed.

Lemma log_from_ok : forall ws tbl, Forall in_bounds ws -> (N.of_nat (length tbl + nnames ws) < 16777216)%N ->
  exists recs tbl', log_from tbl ws = Ok (encs recs, tbl') /\ Forall rec_ok recs /\ wrecs tbl ws recs tbl' /\
    length tbl' <= length tbl + nnames ws.
Proof.
  induction ws as [|w ws IH]; intros tbl Hb Hsz.
  - exists [], tbl. repeat split; [constructor | constructor | lia].
  - inversion Hb as [|? ? Hw Hws]; subst. rewrite nnames_cons in Hsz.
    destruct (write_build_ok tbl w Hw) as (news & oids & dids & E & Hl & Hio & Hid & Hrec); [lia|].
    destruct (IH (tbl ++ news) Hws) as (recs & tbl' & E2 & Hrecs & Hwr & Hl2); [rewrite app_length; lia|].
    exists (map DPath news ++ DBuild oids dids (w_hash w) :: recs), tbl'.
    cbn [log_from]. rewrite E. cbn [bind]. rewrite E2. cbn [bind].
    repeat split.
    + rewrite <- encs_app, <- app_assoc. reflexivity.
    + replace (map DPath news ++ DBuild oids dids (w_hash w) :: recs)
        with ((map DPath news ++ [DBuild oids dids (w_hash w)]) ++ recs)
        by (now rewrite <- app_assoc).
      apply Forall_app. now split.
    + now constructor.
    + rewrite app_length in Hl2. rewrite nnames_cons. lia.
Qed.

Lemma log_from_app : forall ws1 ws2 tbl b1 t1 b2 t2,
  log_from tbl ws1 = Ok (b1, t1) -> log_from t1 ws2 = Ok (b2, t2) ->
  log_from tbl (ws1 ++ ws2) = Ok (b1 ++ b2, t2).
Proof.
  induction ws1 as [|w ws1 IH]; intros ws2 tbl b1 t1 b2 t2 H1 H2.
  - cbn in H1. injection H1 as <- <-. exact H2.
  - cbn [log_from app] in *.
    destruct (write_build tbl (w_outs w) (w_deps w) (w_hash w)) as [[b t]| | | |]; try discriminate.
    cbn [bind] in *.
    destruct (log_from t ws1) as [[b1' t1']| | | |] eqn:E; try discriminate.
    cbn [bind] in H1. injection H1 as <- <-.
    rewrite (IH ws2 t b1' t1' b2 t2 E H2). cbn [bind]. now rewrite app_assoc.
Qed.
