(* C10, loader half, manifests WITH include/subninja: the imperative loader (parse_file_r,
   load_manifest) IS the declarative semantics [run_file] / [run_stmts_files] of LoadInclSpec.v -
   every outcome alike: loaded graph, loader errors, parse errors, missing files, include cycles,
   exhausted include depth. *)
From Coq Require Import String.
From N2 Require Import Model.All Proofs.EvalScope Proofs.GraphDedup Proofs.GraphAddBuild Proofs.GraphLoad.
From N2 Require Import Proofs.ParseSpec Proofs.ParseSafeStmt.
From N2 Require Import Proofs.LoadGraphSpec Proofs.LoadGraphBuild Proofs.LoadGraphRun Proofs.LoadGraphFile
     Proofs.LoadGraphNames.
From N2 Require Import Proofs.LoadInclSpec.

(* ------------------------------------------------------------------------------------ *)
(* [file_stmts] computes the reads *)

Lemma read_all_reads text : forall n s vs,
  good_scanner text s -> length text + 2 <= n + sofs s ->
  reads_to (text ++ [0%N]) s vs (fst (read_all (text ++ [0%N]) n s vs))
           (snd (read_all (text ++ [0%N]) n s vs)).
Proof.
  induction n as [|n IH]; intros s vs G F; [destruct G as (_ & Ho & _); lia|].
  cbn [read_all].
  destruct (parser_read true (parse_fuel (text ++ [0%N])) s vs) as [[[st|] vs1] s1|m o|x|x|] eqn:E.
  - pose proof (parser_read_safe_gen text s vs G) as P. rewrite E in P. destruct P as [G1 LT].
    assert (F1 : length text + 2 <= n + sofs s1) by lia.
    specialize (IH s1 vs1 G1 F1).
    destruct (read_all (text ++ [0%N]) n s1 vs1) as [sts r]. cbn [fst snd] in *.
    eapply rt_stmt; eassumption.
  - cbn [fst snd]. apply rt_last; [exact E|]. intros (st & v & z & X). discriminate.
  - cbn [fst snd]. apply rt_last; [exact E|]. intros (st & v & z & X). discriminate.
  - cbn [fst snd]. apply rt_last; [exact E|]. intros (st & v & z & X). discriminate.
  - cbn [fst snd]. apply rt_last; [exact E|]. intros (st & v & z & X). discriminate.
  - cbn [fst snd]. apply rt_last; [exact E|]. intros (st & v & z & X). discriminate.
Qed.

Theorem file_stmts_reads text vs :
  reads_to (text ++ [0%N]) (mkScanner (text ++ [0%N]) 0 1) vs
           (fst (file_stmts text vs)) (snd (file_stmts text vs)).
Proof.
  unfold file_stmts. apply read_all_reads.
  - apply good_scanner_initial.
  - cbn [sofs]. rewrite app_length. cbn [length]. lia.
Qed.

(* ... and nothing else does *)
Theorem reads_file_stmts text vs sts r :
  reads_to (text ++ [0%N]) (mkScanner (text ++ [0%N]) 0 1) vs sts r ->
  file_stmts text vs = (sts, r).
Proof.
  intro R. destruct (reads_to_fun _ _ _ _ _ R _ _ (file_stmts_reads text vs)) as [A B].
  destruct (file_stmts text vs) as [a b]. cbn [fst snd] in *. subst. reflexivity.
Qed.

Lemma file_stmts_wf text vs : builds_wf (fst (file_stmts text vs)).
Proof. eapply reads_to_builds_wf. apply file_stmts_reads. Qed.

(* ------------------------------------------------------------------------------------ *)
(* the include line: Loader::evaluate_path, by name *)

Lemma evaluate_path_include l p vs :
  evaluate_path l p [vars_env vs] = do c <- include_path p vs; Ok (id_from_canonical l c).
Proof. unfold evaluate_path, include_path, load_path. destruct (evaluate [vars_env vs] p); reflexivity. Qed.

Lemma id_from_canonical_intern l c : exists id, id_from_canonical l c = (intern l c, id) /\ file_nm (intern l c) id = c.
Proof.
  unfold intern. destruct (id_from_canonical l c) as [l1 id] eqn:E. exists id. split; [reflexivity|].
  cbn [fst]. destruct (id_from_canonical_spec _ _ _ _ E) as (_ & _ & N). exact N.
Qed.

Lemma intern_Ext l c : Ext l (intern l c).
Proof.
  destruct (id_from_canonical_intern l c) as (id & E & _).
  destruct (id_from_canonical_spec _ _ _ _ E) as (X & _). exact X.
Qed.

(* the include case of the statement loop *)
Lemma include_case rec fs reading l filename p vs (k : loader -> outcome loader) :
  (do r <- evaluate_path l p [vars_env vs];
   let '(l1, id) := r in
   if existsb (bytes_eqb (file_nm l1 id)) reading
   then Err (filename ++ bs ": " ++ file_nm l1 id ++ bs " includes itself")
   else match assoc_b (file_nm l1 id) fs with
        | None => Err (bs "read " ++ file_nm l1 id ++ bs ": No such file or directory (os error 2)")
        | Some content => do l2 <- rec (reading ++ [file_nm l1 id]) l1 (file_nm l1 id) content vs; k l2
        end) =
  do l2 <- child_step rec fs reading l filename p vs; k l2.
Proof.
  rewrite evaluate_path_include. unfold child_step.
  destruct (include_path p vs) as [c|m|x|x|]; try reflexivity. cbn [bind].
  destruct (id_from_canonical_intern l c) as (id & E & N). rewrite E, N.
  unfold cycle_text, missing_text.
  destruct (existsb (bytes_eqb c) reading); [reflexivity|].
  destruct (assoc_b c fs) as [content|]; reflexivity.
Qed.

(* ------------------------------------------------------------------------------------ *)
(* the statement loop is run_stmts_rec over the reads *)

Lemma stmts_loop_is_run_stmts_rec rec fs reading text filename s vs sts r :
  reads_to (text ++ [0%N]) s vs sts r ->
  forall n l, good_scanner text s -> length text + 2 <= n + sofs s ->
  stmts_loop true rec fs reading (text ++ [0%N]) filename n l s vs =
  do l' <- run_stmts_rec rec fs reading l filename sts; finish (text ++ [0%N]) filename l' r.
Proof.
  induction 1 as [s vs r E N|s vs st vs1 s1 sts r E H IH]; intros n l G F.
  - destruct n as [|n]; [destruct G as (_ & Ho & _); lia|].
    cbn [stmts_loop run_stmts_rec bind]. rewrite E.
    destruct r as [[[st|] vs1] s1|m o|x|x|]; try reflexivity.
    exfalso. apply N. exists st, vs1, s1. reflexivity.
  - destruct n as [|n]; [destruct G as (_ & Ho & _); lia|].
    pose proof (parser_read_safe_gen text s vs G) as P. rewrite E in P. destruct P as [G1 LT].
    assert (F1 : length text + 2 <= n + sofs s1) by lia.
    cbn [stmts_loop]. fold (stmts_loop true rec fs reading (text ++ [0%N]) filename). rewrite E.
    cbn [run_stmts_rec]. rewrite bind_assoc.
    destruct st as [name rv|pb|ds|p|p|name d]; cbn [stmt_step_files stmt_step bind].
    + apply IH; assumption.
    + destruct (loader_add_build true l filename vs1 pb) as [l1|m|x|x|]; cbn [bind]; try reflexivity.
      apply IH; assumption.
    + destruct (evaluate_paths l ds [vars_env vs1]) as [[l1 ids]|m|x|x|]; cbn [bind]; try reflexivity.
      apply IH; assumption.
    + rewrite (include_case rec fs reading l filename p vs1
                 (fun l2 => stmts_loop true rec fs reading (text ++ [0%N]) filename n l2 s1 vs1)).
      destruct (child_step rec fs reading l filename p vs1) as [l1|m|x|x|]; cbn [bind]; try reflexivity.
      apply IH; assumption.
    + rewrite (include_case rec fs reading l filename p vs1
                 (fun l2 => stmts_loop true rec fs reading (text ++ [0%N]) filename n l2 s1 vs1)).
      destruct (child_step rec fs reading l filename p vs1) as [l1|m|x|x|]; cbn [bind]; try reflexivity.
      apply IH; assumption.
    + apply IH; assumption.
Qed.

Lemma run_stmts_rec_ext rec1 rec2 fs reading filename :
  (forall rd l path content vs, rec1 rd l path content vs = rec2 rd l path content vs) ->
  forall sts l, run_stmts_rec rec1 fs reading l filename sts = run_stmts_rec rec2 fs reading l filename sts.
Proof.
  intro X. induction sts as [|[st vs] r IH]; intro l; [reflexivity|].
  cbn [run_stmts_rec].
  assert (S1 : stmt_step_files rec1 fs reading l filename st vs = stmt_step_files rec2 fs reading l filename st vs).
  { destruct st as [name rv|pb|ds|p|p|name d]; try reflexivity; cbn [stmt_step_files]; unfold child_step;
      destruct (include_path p vs) as [c|m|x|x|]; try reflexivity; cbn [bind];
      destruct (existsb (bytes_eqb c) reading); try reflexivity;
      destruct (assoc_b c fs); try reflexivity; apply X. }
  rewrite S1. destruct (stmt_step_files rec2 fs reading l filename st vs); try reflexivity.
  cbn [bind]. apply IH.
Qed.

Lemma run_file_unfold depth fs reading l filename text inherited :
  run_file (S depth) fs reading l filename text inherited =
  do l' <- run_stmts_files depth fs reading l filename (fst (file_stmts text inherited));
  finish (text ++ [0%N]) filename l' (snd (file_stmts text inherited)).
Proof. reflexivity. Qed.

(* ------------------------------------------------------------------------------------ *)
(* the loader is the declarative semantics *)

Theorem parse_file_r_is_run_file fs : forall depth reading l filename text inherited,
  parse_file_r true depth fs reading l filename text inherited =
  run_file depth fs reading l filename text inherited.
Proof.
  induction depth as [|depth IH]; intros reading l filename text inherited; [reflexivity|].
  rewrite parse_file_r_unfold, sc_new_text. cbn [bind].
  rewrite (stmts_loop_is_run_stmts_rec _ fs reading text filename _ _ _ _ (file_stmts_reads text inherited)).
  - rewrite run_file_unfold. unfold run_stmts_files.
    rewrite (run_stmts_rec_ext _ (run_file depth fs) fs reading filename IH). reflexivity.
  - apply good_scanner_initial.
  - cbn [sofs]. rewrite app_length. cbn [length]. lia.
Qed.

Theorem load_manifest_is_run_file depth fs name text :
  load_manifest true depth fs name text =
  do c <- canon name; run_file depth fs [] (loader_start c) name text [].
Proof.
  rewrite load_manifest_start. destruct (canon name) as [c|m|x|x|]; try reflexivity.
  cbn [bind]. unfold parse_file. apply parse_file_r_is_run_file.
Qed.

(* in the style of C10_parse_file_is_run_stmts_gen / C10_load_manifest_reads, without [no_include] *)
Theorem parse_file_r_is_run_stmts_files depth fs reading l filename text inherited sts r :
  reads_to (text ++ [0%N]) (mkScanner (text ++ [0%N]) 0 1) inherited sts r ->
  parse_file_r true (S depth) fs reading l filename text inherited =
  do l' <- run_stmts_files depth fs reading l filename sts; finish (text ++ [0%N]) filename l' r.
Proof.
  intro R. rewrite parse_file_r_is_run_file, run_file_unfold, (reads_file_stmts _ _ _ _ R). reflexivity.
Qed.

Theorem load_is_run_stmts_files depth fs name text sts r :
  reads_to (text ++ [0%N]) (mkScanner (text ++ [0%N]) 0 1) [] sts r ->
  load_manifest true (S depth) fs name text =
  do c <- canon name;
  do l' <- run_stmts_files depth fs [] (loader_start c) name sts;
  finish (text ++ [0%N]) name l' r.
Proof.
  intro R. rewrite load_manifest_start. destruct (canon name) as [c|m|x|x|]; try reflexivity.
  cbn [bind]. unfold parse_file. apply parse_file_r_is_run_stmts_files. exact R.
Qed.

Theorem load_depth_exhausted fs name text c :
  canon name = Ok c -> load_manifest true 0 fs name text = Panic 60%N.
Proof. intro C. rewrite load_manifest_is_run_file, C. reflexivity. Qed.

(* the semantics of a sequence, statement by statement *)
Lemma run_stmts_files_nil depth fs reading l filename : run_stmts_files depth fs reading l filename [] = Ok l.
Proof. reflexivity. Qed.

Lemma run_stmts_files_cons depth fs reading l filename st vs r :
  run_stmts_files depth fs reading l filename ((st, vs) :: r) =
  do l1 <- stmt_step_files (run_file depth fs) fs reading l filename st vs;
  run_stmts_files depth fs reading l1 filename r.
Proof. reflexivity. Qed.

Lemma run_stmts_rec_app rec fs reading filename a : forall b l,
  run_stmts_rec rec fs reading l filename (a ++ b) =
  do l1 <- run_stmts_rec rec fs reading l filename a; run_stmts_rec rec fs reading l1 filename b.
Proof.
  induction a as [|[st vs] r IH]; intros b l; [reflexivity|].
  cbn [app run_stmts_rec]. rewrite bind_assoc.
  destruct (stmt_step_files rec fs reading l filename st vs); try reflexivity. cbn [bind]. apply IH.
Qed.

(* on include-free sequences this is [run_stmts] *)
Lemma run_stmts_files_no_include depth fs reading filename : forall sts l,
  no_include sts -> run_stmts_files depth fs reading l filename sts = run_stmts l filename sts.
Proof.
  unfold run_stmts_files. induction sts as [|[st vs] r IH]; intros l NI; [reflexivity|].
  inversion NI as [|? ? N1 N2]; subst. cbn [fst] in N1.
  cbn [run_stmts_rec run_stmts].
  assert (S1 : stmt_step_files (run_file depth fs) fs reading l filename st vs = stmt_step l filename st vs)
    by (destruct st; try reflexivity; discriminate N1).
  rewrite S1. destruct (stmt_step l filename st vs); try reflexivity. cbn [bind]. apply IH. exact N2.
Qed.

(* an include/subninja line: the child is loaded with the variables of the line, into the same
   loader; the rest of the parent goes on with the loader the child left *)
Lemma child_step_ok depth fs reading l filename p vs l2 :
  child_step (run_file depth fs) fs reading l filename p vs = Ok l2 <->
  exists path content,
    include_path p vs = Ok path /\ existsb (bytes_eqb path) reading = false /\
    assoc_b path fs = Some content /\
    run_file depth fs (reading ++ [path]) (intern l path) path content vs = Ok l2.
Proof.
  unfold child_step. split.
  - intro H. apply bind_ok in H as [path [P H]].
    destruct (existsb (bytes_eqb path) reading) eqn:X; [discriminate|].
    destruct (assoc_b path fs) as [content|] eqn:A; [|discriminate].
    exists path, content. repeat split; assumption.
  - intros (path & content & P & X & A & H). rewrite P. cbn [bind]. rewrite X, A. exact H.
Qed.
