(* AUDIT - non-vacuity of the World theorems (Props/C02 C03 C09).
   One step  o <- cc a  (graph ex_wg of JointExample.v).  The command has written o; the finish
   reports the dependencies a (declared) and x/../h (kept as "h"); record_finished writes the
   record; a second Work loads the log.  Every Example instantiates ALL hypotheses of the named
   theorem and adds a fact showing that the instance is not degenerate. *)
From Coq Require Import String List NArith ZArith Lia.
From N2 Require Import Model.All Proofs.DbSpec Proofs.WorldSpec Proofs.WorldLog Proofs.JointSpec Proofs.JointExample.
Import ListNotations.
Local Open Scope string_scope.

Definition bd0 : wbuild := mkWBuild [bs "a"] 1 0 0 [bs "o"] (Some (bs "cc")) None.
(* the same step declared with an additional order-only input: not part of the manifest *)
Definition bd0' : wbuild := mkWBuild [bs "a"; bs "z"] 1 0 1 [bs "o"] (Some (bs "cc")) None.

Definition fsA : fsmap := [(bs "h", (1%N, 1%N)); (bs "a", (1%N, 0%N)); (bs "o", (2%N, 0%N))].
(* Work 1 just before the record: two older discovered lists are in memory *)
Definition wA : wstate := mkW fsA [] [(0, [bs "old"]); (1, [bs "keep"])] [] [] signature.
Definition rep1 : option (list bytes) := Some [bs "a"; bs "x/../h"].

Definition rec1 := record_finished wA 0 bd0 rep1.
Definition w1 : wstate := match rec1 with Ok (w, _) => w | _ => wA end.
Definition h1 : N := match rec1 with Ok (_, Some h) => h | _ => 0%N end.

Lemma rec1_eq : record_finished wA 0 bd0 rep1 = Ok (w1, Some h1).
Proof. vm_compute. reflexivity. Qed.

Lemma wA_log : log_is wA [].
Proof. exists []. split; reflexivity. Qed.

Definition m0 : manifest :=
  match manifest_of w1 bd0 (disc_of w1 0) with Some m => m | None => mkManifest [] [] [] None [] end.
Lemma m0_eq : manifest_of w1 bd0 (disc_of w1 0) = Some m0.
Proof. vm_compute. reflexivity. Qed.

(* Work 2: loaded from the tree and log Work 1 left *)
Definition load_from (fs : fsmap) : wstate :=
  match load_state ex_wg fs (ws_log w1) with Ok w => w | _ => wA end.
Definition wL : wstate := load_from (ws_fs w1).
Lemma wL_eq : load_state ex_wg (ws_fs w1) (ws_log w1) = Ok wL.
Proof. vm_compute. reflexivity. Qed.

(* the tree with a touched (a), resp. without h *)
Definition fsB : fsmap := [(bs "h", (1%N, 1%N)); (bs "a", (5%N, 0%N)); (bs "o", (2%N, 0%N))].
Definition fsNoH : fsmap := [(bs "a", (1%N, 0%N)); (bs "o", (2%N, 0%N))].
Definition wB : wstate := load_from fsB.
Definition wM : wstate := load_from fsNoH.

Lemma cache_nil_consistent w : ws_cache w = [] -> cache_consistent w.
Proof. intros H n v E. rewrite H in E. discriminate E. Qed.

Lemma rec1_bounds : Forall in_bounds ([] ++ [wr_of bd0 (disc_of w1 0) h1]).
Proof.
  constructor; [|constructor]. unfold in_bounds.
  split; [vm_compute; reflexivity|]. split; [vm_compute; reflexivity|].
  split; [|vm_compute; reflexivity].
  intros n Hin. vm_compute in Hin. destruct Hin as [<-|[<-|[]]]; vm_compute; reflexivity.
Qed.

Lemma rec1_small : table_small ([] ++ [wr_of bd0 (disc_of w1 0) h1]).
Proof. vm_compute. reflexivity. Qed.

(* ------------------------------------------------------------------------------------ *)
(* C02 *)

Example C02_record_manifest_exists_nonvacuous :
  exists w b bd reported w1 h,
    record_finished w b bd reported = Ok (w1, Some h) /\ disc_of w1 b = [bs "h"] /\ (0 < h)%N.
Proof.
  exists wA, 0, bd0, rep1, w1, h1. split; [exact rec1_eq|]. split; vm_compute; reflexivity.
Qed.

Example C02_clean_same_hash_nonvacuous :
  exists g w b bd reported w1 h bd' w2 w2',
    record_finished w b bd reported = Ok (w1, Some h) /\
    check_build_dirty g w2 b bd' = (w2', DClean) /\ wb_cmdline bd' <> None /\
    assoc_nat b (ws_hashes w2) = Some h /\
    (* the step is declared differently, and the verdict is computed by a different Work *)
    bd' <> bd /\ ws_cache w2 = [].
Proof.
  exists ex_wg, wA, 0, bd0, rep1, w1, h1, bd0', wL. eexists.
  split; [exact rec1_eq|]. split; [vm_compute; reflexivity|]. split; [discriminate|].
  split; [vm_compute; reflexivity|]. split; [discriminate|reflexivity].
Qed.

Example C02_clean_means_identical_nonvacuous :
  exists g w b bd reported w1 h bd' w2 w2' m0,
    record_finished w b bd reported = Ok (w1, Some h) /\
    manifest_of w1 bd (disc_of w1 b) = Some m0 /\ wf_manifest m0 = true /\
    check_build_dirty g w2 b bd' = (w2', DClean) /\ wb_cmdline bd' <> None /\
    assoc_nat b (ws_hashes w2) = Some h /\ wb_rsp bd' = wb_rsp bd /\
    (forall m, manifest_of w2' bd' (disc_of w2 b) = Some m -> wf_manifest m = true /\ no_collision m m0) /\
    (* the manifest has an input, a discovered dependency and an output *)
    map fst (mf_ins m0) = [bs "a"] /\ map fst (mf_discovered m0) = [bs "h"] /\ map fst (mf_outs m0) = [bs "o"] /\
    bd' <> bd.
Proof.
  exists ex_wg, wA, 0, bd0, rep1, w1, h1, bd0', wL. eexists. exists m0.
  split; [exact rec1_eq|]. split; [exact m0_eq|]. split; [vm_compute; reflexivity|].
  split; [vm_compute; reflexivity|]. split; [discriminate|]. split; [vm_compute; reflexivity|].
  split; [reflexivity|].
  split.
  - intros m H. vm_compute in H. injection H as <-. split; [vm_compute; reflexivity|].
    intros _. vm_compute. reflexivity.
  - repeat split; try (vm_compute; reflexivity). discriminate.
Qed.

Example C02_never_skips_changed_tree_nonvacuous :
  exists g w b bd reported w1 h bd' w2 w2' r m0 n t0,
    record_finished w b bd reported = Ok (w1, Some h) /\
    manifest_of w1 bd (disc_of w1 b) = Some m0 /\ wf_manifest m0 = true /\
    check_build_dirty g w2 b bd' = (w2', r) /\ wb_cmdline bd' <> None /\
    assoc_nat b (ws_hashes w2) = Some h /\ wb_rsp bd' = wb_rsp bd /\
    (forall m, manifest_of w2' bd' (disc_of w2 b) = Some m -> wf_manifest m = true /\ no_collision m m0) /\
    cache_consistent w2 /\ In (n, t0) (mf_ins m0 ++ mf_discovered m0 ++ mf_outs m0) /\
    fs_get (ws_fs w2) n <> Some t0 /\
    (* the declared input a was touched: the verdict is "manifest changed" *)
    r = DDirty 3.
Proof.
  exists ex_wg, wA, 0, bd0, rep1, w1, h1, bd0, wB. do 2 eexists. exists m0, (bs "a"), (1%N, 0%N).
  split; [exact rec1_eq|]. split; [exact m0_eq|]. split; [vm_compute; reflexivity|].
  split; [vm_compute; reflexivity|]. split; [discriminate|]. split; [vm_compute; reflexivity|].
  split; [reflexivity|].
  split.
  - intros m H. vm_compute in H. injection H as <-. split; [vm_compute; reflexivity|].
    intros Hh. exfalso. vm_compute in Hh. discriminate Hh.
  - split; [apply cache_nil_consistent; reflexivity|].
    split; [vm_compute; tauto|]. split; [vm_compute; discriminate|reflexivity].
Qed.

Example C02_never_skips_changed_nonvacuous :
  exists g w b bd reported w1 h bd' w2 w2' r m0,
    record_finished w b bd reported = Ok (w1, Some h) /\
    manifest_of w1 bd (disc_of w1 b) = Some m0 /\ wf_manifest m0 = true /\
    check_build_dirty g w2 b bd' = (w2', r) /\ wb_cmdline bd' <> None /\
    assoc_nat b (ws_hashes w2) = Some h /\ wb_rsp bd' = wb_rsp bd /\
    (forall m, manifest_of w2' bd' (disc_of w2 b) = Some m -> wf_manifest m = true /\ no_collision m m0) /\
    (* the command line changed *)
    match wb_cmdline bd' with Some c => c | None => [] end <> mf_cmdline m0 /\ r = DDirty 3.
Proof.
  exists ex_wg, wA, 0, bd0, rep1, w1, h1, (mkWBuild [bs "a"] 1 0 0 [bs "o"] (Some (bs "cc -O2")) None), wL.
  do 2 eexists. exists m0.
  split; [exact rec1_eq|]. split; [exact m0_eq|]. split; [vm_compute; reflexivity|].
  split; [vm_compute; reflexivity|]. split; [discriminate|]. split; [vm_compute; reflexivity|].
  split; [reflexivity|].
  split.
  - intros m H. vm_compute in H. injection H as <-. split; [vm_compute; reflexivity|].
    intros Hh. exfalso. vm_compute in Hh. discriminate Hh.
  - split; [vm_compute; discriminate|reflexivity].
Qed.

(* ------------------------------------------------------------------------------------ *)
(* C03 *)

Example C03_runs_only_if_changed_nonvacuous :
  (* each of the three reasons occurs *)
  (exists g w b bd w', check_build_dirty g w b bd = (w', DDirty 1)) /\
  (exists g w b bd w', check_build_dirty g w b bd = (w', DDirty 2)) /\
  (exists g w b bd w', check_build_dirty g w b bd = (w', DDirty 3)).
Proof.
  split; [|split].
  - exists ex_wg, wM, 0, bd0. eexists. vm_compute. reflexivity.
  - exists ex_wg, (mkW fsA [] [] [] [] signature), 0, bd0. eexists. vm_compute. reflexivity.
  - exists ex_wg, wB, 0, bd0. eexists. vm_compute. reflexivity.
Qed.

Lemma sources_stated w : stated_generated ex_wg w (wb_dirtying bd0 ++ disc_of w1 0).
Proof.
  intros n Hin Hp. exfalso. apply Hp. vm_compute in Hin.
  destruct Hin as [<-|[<-|[]]]; reflexivity.
Qed.

Example C03_clean_after_record_nonvacuous :
  exists g w b bd reported w1 h w2,
    record_finished w b bd reported = Ok (w1, Some h) /\ wb_cmdline bd <> None /\
    ws_fs w2 = ws_fs w1 /\ cache_consistent w2 /\ assoc_nat b (ws_hashes w2) = Some h /\
    disc_of w2 b = disc_of w1 b /\ stated_generated g w2 (wb_dirtying bd ++ disc_of w1 b) /\
    (* a different Work, with a discovered dependency *) w2 <> w1 /\ disc_of w1 b = [bs "h"].
Proof.
  exists ex_wg, wA, 0, bd0, rep1, w1, h1, wL.
  split; [exact rec1_eq|]. split; [discriminate|]. split; [vm_compute; reflexivity|].
  split; [apply cache_nil_consistent; reflexivity|]. split; [vm_compute; reflexivity|].
  split; [vm_compute; reflexivity|]. split; [exact (sources_stated wL)|].
  split; [vm_compute; discriminate|vm_compute; reflexivity].
Qed.

(* a finish that reported nothing *)
Definition recN := record_finished wA 0 bd0 None.
Definition wN : wstate := match recN with Ok (w, _) => w | _ => wA end.
Definition hN : N := match recN with Ok (_, Some h) => h | _ => 0%N end.
Definition wNL : wstate := match load_state ex_wg (ws_fs wN) (ws_log wN) with Ok w => w | _ => wA end.

Example C03_adopt_counts_as_up_to_date_nonvacuous :
  exists g w b bd w1 h w2,
    record_finished w b bd None = Ok (w1, Some h) /\ wb_cmdline bd <> None /\
    ws_fs w2 = ws_fs w1 /\ cache_consistent w2 /\ assoc_nat b (ws_hashes w2) = Some h /\
    disc_of w2 b = disc_of w1 b /\ stated_generated g w2 (wb_dirtying bd ++ disc_of w1 b) /\
    (* the step HAD a discovered dependency before: it is dropped (finding F10) *)
    disc_of w b = [bs "old"].
Proof.
  exists ex_wg, wA, 0, bd0, wN, hN, wNL.
  split; [vm_compute; reflexivity|]. split; [discriminate|]. split; [vm_compute; reflexivity|].
  split; [apply cache_nil_consistent; reflexivity|]. split; [vm_compute; reflexivity|].
  split; [vm_compute; reflexivity|].
  split; [|vm_compute; reflexivity].
  intros n Hin Hp. exfalso. apply Hp. vm_compute in Hin. destruct Hin as [<-|[]]; reflexivity.
Qed.

Example C03_null_build_after_reload_nonvacuous :
  exists g w ws b bd reported w1 h,
    log_is w ws /\ record_finished w b bd reported = Ok (w1, Some h) /\
    Forall in_bounds (ws ++ [wr_of bd (disc_of w1 b) h]) /\ table_small (ws ++ [wr_of bd (disc_of w1 b) h]) /\
    wb_cmdline bd <> None /\ wb_outs bd <> [] /\ (forall o, In o (wb_outs bd) -> producer_of g o = Some b) /\
    (forall n, In n (wb_dirtying bd ++ disc_of w1 b) -> producer_of g n = None) /\
    disc_of w1 b = [bs "h"].
Proof.
  exists ex_wg, wA, [], 0, bd0, rep1, w1, h1.
  split; [exact wA_log|]. split; [exact rec1_eq|]. split; [exact rec1_bounds|]. split; [exact rec1_small|].
  split; [discriminate|]. split; [discriminate|].
  split; [intros o [<-|[]]; reflexivity|].
  split; [|vm_compute; reflexivity].
  intros n Hin. vm_compute in Hin. destruct Hin as [<-|[<-|[]]]; reflexivity.
Qed.

Example C03_unchanged_upstream_output_nonvacuous :
  exists g w w' b bd,
    disc_of w b = disc_of w' b /\ assoc_nat b (ws_hashes w) = assoc_nat b (ws_hashes w') /\
    (forall n, In n (wb_dirtying bd ++ disc_of w b ++ wb_outs bd) ->
       cache_get (ws_cache w) n = cache_get (ws_cache w') n /\ fs_get (ws_fs w) n = fs_get (ws_fs w') n) /\
    (* an unrelated file changed *) ws_fs w <> ws_fs w' /\ snd (check_build_dirty g w b bd) = DClean.
Proof.
  exists ex_wg, wL, (load_from ((bs "unrelated", (9%N, 9%N)) :: ws_fs w1)), 0, bd0.
  split; [vm_compute; reflexivity|]. split; [vm_compute; reflexivity|].
  split; [|split; [vm_compute; discriminate|vm_compute; reflexivity]].
  intros n Hin. vm_compute in Hin. destruct Hin as [<-|[<-|[<-|[]]]]; split; vm_compute; reflexivity.
Qed.

(* ------------------------------------------------------------------------------------ *)
(* C09 *)

Example C09_replace_wholesale_nonvacuous :
  exists w b bd reported w1 r,
    record_finished w b bd reported = Ok (w1, r) /\
    (* the old list of step 0 is replaced, that of step 1 kept *)
    disc_of w b = [bs "old"] /\ disc_of w1 b = [bs "h"] /\ disc_of w1 1 = [bs "keep"].
Proof.
  exists wA, 0, bd0, rep1, w1, (Some h1).
  split; [exact rec1_eq|]. repeat split; vm_compute; reflexivity.
Qed.

Example C09_missing_dep_is_dirty_not_error_nonvacuous :
  exists g w b bd d,
    wb_cmdline bd <> None /\
    (forall n, In n (wb_dirtying bd) ->
       (exists t, cache_get (ws_cache w) n = Some (Some t)) \/
       (cache_get (ws_cache w) n = None /\ producer_of g n = None /\ fs_get (ws_fs w) n <> None)) /\
    stated_generated g w (disc_of w b) /\ In d (disc_of w b) /\ fs_get (ws_fs w) d = None /\
    (cache_get (ws_cache w) d = None \/ cache_get (ws_cache w) d = Some None) /\
    (* the dependency list was loaded from the log *) disc_of w b = [bs "h"] /\ ws_hashes w <> [].
Proof.
  exists ex_wg, wM, 0, bd0, (bs "h").
  split; [discriminate|].
  split; [intros n [<-|[]]; right; repeat split; vm_compute; try reflexivity; discriminate|].
  split; [intros n Hin Hp; exfalso; apply Hp; vm_compute in Hin; destruct Hin as [<-|[]]; reflexivity|].
  split; [vm_compute; tauto|]. split; [vm_compute; reflexivity|]. split; [left; reflexivity|].
  split; [vm_compute; reflexivity|vm_compute; discriminate].
Qed.

Example C09_persist_through_log_nonvacuous :
  exists g fs w ws b bd reported w1 h,
    log_is w ws /\ record_finished w b bd reported = Ok (w1, Some h) /\
    Forall in_bounds (ws ++ [wr_of bd (disc_of w1 b) h]) /\ table_small (ws ++ [wr_of bd (disc_of w1 b) h]) /\
    applicable (producer_of g) (wr_of bd (disc_of w1 b) h) b = true /\ disc_of w1 b = [bs "h"] /\ fs = fsB.
Proof.
  exists ex_wg, fsB, wA, [], 0, bd0, rep1, w1, h1.
  split; [exact wA_log|]. split; [exact rec1_eq|]. split; [exact rec1_bounds|]. split; [exact rec1_small|].
  repeat split; vm_compute; reflexivity.
Qed.

Example C09_persist_own_step_nonvacuous :
  exists g fs w ws b bd reported w1 h,
    log_is w ws /\ record_finished w b bd reported = Ok (w1, Some h) /\
    Forall in_bounds (ws ++ [wr_of bd (disc_of w1 b) h]) /\ table_small (ws ++ [wr_of bd (disc_of w1 b) h]) /\
    wb_outs bd <> [] /\ (forall o, In o (wb_outs bd) -> producer_of g o = Some b) /\ disc_of w1 b = [bs "h"] /\ fs = fsB.
Proof.
  exists ex_wg, fsB, wA, [], 0, bd0, rep1, w1, h1.
  split; [exact wA_log|]. split; [exact rec1_eq|]. split; [exact rec1_bounds|]. split; [exact rec1_small|].
  split; [discriminate|]. split; [intros o [<-|[]]; reflexivity|]. split; vm_compute; reflexivity.
Qed.

(* [log_is] with a non-empty record list *)
Lemma w1_log : log_is w1 ([] ++ [wr_of bd0 (disc_of w1 0) h1]).
Proof. exact (log_is_record wA [] 0 bd0 rep1 w1 h1 wA_log rec1_eq). Qed.

Example C09_load_log_is_nonvacuous :
  exists (g : wgraph) (fs : fsmap) w ws,
    log_is w ws /\ Forall in_bounds ws /\ table_small ws /\ length ws = 1 /\ fs = fsB.
Proof.
  exists ex_wg, fsB, w1, ([] ++ [wr_of bd0 (disc_of w1 0) h1])%list.
  split; [exact w1_log|]. split; [exact rec1_bounds|]. split; [exact rec1_small|]. split; reflexivity.
Qed.

Example C09_log_is_record_nonvacuous :
  exists w ws b bd reported w1 h,
    log_is w ws /\ record_finished w b bd reported = Ok (w1, Some h) /\ ws_log w1 <> ws_log w.
Proof.
  exists wA, [], 0, bd0, rep1, w1, h1.
  split; [exact wA_log|]. split; [exact rec1_eq|]. vm_compute. discriminate.
Qed.

Example C09_spellings_collapse_nonvacuous :
  exists dirtying names l n1 n2 d,
    keep_deps dirtying names [] = Ok l /\ In n1 names /\ In n2 names /\ n1 <> [] /\ n2 <> [] /\
    canon n1 = Ok d /\ canon n2 = Ok d /\ ~ In d dirtying /\
    (* two different spellings, one entry *) n1 <> n2 /\ l = [bs "h"; bs "k"].
Proof.
  exists [bs "a"], [bs "a"; bs "x/../h"; bs "k"; bs "./h"; []], [bs "h"; bs "k"], (bs "x/../h"), (bs "./h"), (bs "h").
  split; [vm_compute; reflexivity|]. split; [vm_compute; tauto|]. split; [vm_compute; tauto|].
  split; [discriminate|]. split; [discriminate|]. split; [vm_compute; reflexivity|].
  split; [vm_compute; reflexivity|]. split; [intros [H|[]]; discriminate H|].
  split; [discriminate|reflexivity].
Qed.

Example C09_keep_deps_spec_nonvacuous :
  exists dirtying names l,
    keep_deps dirtying names [] = Ok l /\ length names = 5 /\ length l = 2.
Proof.
  exists [bs "a"], [bs "a"; bs "x/../h"; bs "k"; bs "./h"; []], [bs "h"; bs "k"].
  split; [vm_compute; reflexivity|]. split; reflexivity.
Qed.
