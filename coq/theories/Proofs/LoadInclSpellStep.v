(* C10, spelling independence with include/subninja (1): one statement.  Related statements
   ([stmt_sim]) take related loaders ([graph_sim]) to related outcomes ([outcome_sim]):
   Loader::evaluate_paths, Graph::add_build, Loader::add_build, [stmt_step]. *)
From Coq Require Import String.
From N2 Require Import Model.All Proofs.EvalScope Proofs.GraphDedup Proofs.GraphAddBuild Proofs.GraphLoad.
From N2 Require Import Proofs.ParseSpell Proofs.ParseRound1.
From N2 Require Import Proofs.LoadGraphSpec Proofs.LoadGraphBuild Proofs.LoadGraphRun Proofs.LoadGraphNorm
     Proofs.LoadGraphFile Proofs.LoadGraphNames.
From N2 Require Import Proofs.LoadInclSpec Proofs.LoadInclSpellSpec.

(* ------------------------------------------------------------------------------------ *)
(* outcomes *)

Lemma outcome_sim_bind {A B} strict (R : A -> A -> Prop) (Q : B -> B -> Prop) o1 o2 f1 f2 :
  outcome_sim strict R o1 o2 -> (forall a b, R a b -> outcome_sim strict Q (f1 a) (f2 b)) ->
  outcome_sim strict Q (bind o1 f1) (bind o2 f2).
Proof.
  intros H K. destruct o1, o2; cbn [outcome_sim bind] in *; try contradiction; try assumption.
  apply K. exact H.
Qed.

Lemma outcome_sim_eq {A} strict (o : outcome A) : outcome_sim strict eq o o.
Proof. destruct o; cbn [outcome_sim]; auto. Qed.

Lemma outcome_sim_impl {A} strict (R Q : A -> A -> Prop) o1 o2 :
  (forall a b, R a b -> Q a b) -> outcome_sim strict R o1 o2 -> outcome_sim strict Q o1 o2.
Proof. intros K H. destruct o1, o2; cbn [outcome_sim] in *; auto. Qed.

Lemma outcome_sim_kind {A} strict (R : A -> A -> Prop) o1 o2 :
  outcome_sim strict R o1 o2 -> outcome_kind o1 = outcome_kind o2.
Proof. destruct o1, o2; cbn [outcome_sim outcome_kind]; intro H; try contradiction; reflexivity. Qed.

(* strict: a failure is the same failure *)
Lemma outcome_sim_strict_fail {A} (R : A -> A -> Prop) o1 o2 :
  outcome_sim true R o1 o2 -> (forall a, o1 <> Ok a) -> o1 = o2.
Proof.
  destruct o1, o2; cbn [outcome_sim]; intros H N; try contradiction; try (subst; reflexivity).
  - exfalso. eapply N. reflexivity.
  - rewrite (H eq_refl). reflexivity.
Qed.

(* ------------------------------------------------------------------------------------ *)
(* statements *)

Lemma stmt_sim_refl strict st : stmt_sim strict st st.
Proof. split; [reflexivity | intros _; reflexivity]. Qed.

Lemma stmt_sim_sym strict a b : stmt_sim strict a b -> stmt_sim strict b a.
Proof. intros [H1 H2]. split; [symmetry; exact H1 | intro S; symmetry; exact (H2 S)]. Qed.

Lemma stmt_sim_trans strict a b c : stmt_sim strict a b -> stmt_sim strict b c -> stmt_sim strict a c.
Proof.
  intros [H1 H2] [K1 K2]. split; [congruence | intro S; rewrite (H2 S); exact (K2 S)].
Qed.

Lemma norm_unline_stmt st : norm_stmt (unline_stmt st) = unline_stmt (norm_stmt st).
Proof. destruct st; reflexivity. Qed.

Lemma stmt_line_norm st : stmt_line (norm_stmt st) = stmt_line st.
Proof. destruct st; reflexivity. Qed.

(* the relation of the one-file proof is the strict one *)
Lemma norm_stmt_sim strict a b : norm_stmt a = norm_stmt b -> stmt_sim strict a b.
Proof.
  intro H. split.
  - rewrite !norm_unline_stmt, H. reflexivity.
  - intros _. rewrite <- (stmt_line_norm a), <- (stmt_line_norm b), H. reflexivity.
Qed.

Lemma unline_stmt_sim a b : unline_stmt a = unline_stmt b -> stmt_sim false a b.
Proof. intro H. split; [rewrite H; reflexivity | discriminate]. Qed.

Lemma stmt_sim_strict_norm a b : stmt_sim true a b -> norm_stmt a = norm_stmt b.
Proof.
  intros [H L]. specialize (L eq_refl).
  destruct a as [n1 r1|b1|d1|p1|p1|n1 k1], b as [n2 r2|b2|d2|p2|p2|n2 k2];
    cbn [unline_stmt norm_stmt stmt_line] in *; try discriminate; try exact H.
  unfold norm_build, unline_build in *. cbn [pb_rule pb_line pb_outs pb_explicit_outs pb_ins pb_explicit_ins
    pb_implicit_ins pb_order_only_ins pb_validation_ins pb_vars] in H.
  inversion H. rewrite L. reflexivity.
Qed.

Lemma stmts_sim_refl strict a : stmts_sim strict a a.
Proof. induction a; constructor; [split; [apply stmt_sim_refl | reflexivity] | assumption]. Qed.

Lemma stmts_sim_sym strict a b : stmts_sim strict a b -> stmts_sim strict b a.
Proof.
  induction 1 as [|x y a b [H1 H2] H IH]; constructor; [|exact IH].
  split; [apply stmt_sim_sym; exact H1 | symmetry; exact H2].
Qed.

Lemma stmts_sim_trans strict a b : stmts_sim strict a b -> forall c, stmts_sim strict b c -> stmts_sim strict a c.
Proof.
  induction 1 as [|x y a b [H1 H2] H IH]; intros c K; inversion K as [|? z ? c' [K1 K2] K']; subst; constructor.
  - split; [eapply stmt_sim_trans; eassumption | congruence].
  - apply IH. exact K'.
Qed.

Lemma stmts_norm_eq_sim strict a b : stmts_norm_eq a b -> stmts_sim strict a b.
Proof.
  induction 1 as [|x y a b [H1 H2] H IH]; constructor; [|exact IH].
  split; [apply norm_stmt_sim; exact H1 | exact H2].
Qed.

Lemma same_decl_sim strict a b : same_decl strict a b -> stmts_sim strict a b.
Proof.
  destruct strict; cbn [same_decl].
  - intros ->. apply stmts_sim_refl.
  - induction 1 as [|x y a b [H1 H2] H IH]; constructor; [|exact IH].
    split; [apply unline_stmt_sim; exact H1 | exact H2].
Qed.

(* what [stmt_sim] says, constructor by constructor *)
Definition build_decl_sim (strict : bool) (b1 b2 : pbuild) : Prop :=
  pb_rule b1 = pb_rule b2 /\ map norm_eval (pb_outs b1) = map norm_eval (pb_outs b2) /\
  pb_explicit_outs b1 = pb_explicit_outs b2 /\ map norm_eval (pb_ins b1) = map norm_eval (pb_ins b2) /\
  pb_explicit_ins b1 = pb_explicit_ins b2 /\ pb_implicit_ins b1 = pb_implicit_ins b2 /\
  pb_order_only_ins b1 = pb_order_only_ins b2 /\ pb_validation_ins b1 = pb_validation_ins b2 /\
  norm_vars (pb_vars b1) = norm_vars (pb_vars b2) /\ (strict = true -> pb_line b1 = pb_line b2).

Lemma stmt_sim_shape strict a b : stmt_sim strict a b ->
  match a, b with
  | SRule n1 r1, SRule n2 r2 => n1 = n2 /\ norm_vars r1 = norm_vars r2
  | SBuild b1, SBuild b2 => build_decl_sim strict b1 b2
  | SDefault d1, SDefault d2 => map norm_eval d1 = map norm_eval d2
  | SInclude p1, SInclude p2 => norm_eval p1 = norm_eval p2
  | SSubninja p1, SSubninja p2 => norm_eval p1 = norm_eval p2
  | SPool n1 k1, SPool n2 k2 => n1 = n2 /\ k1 = k2
  | _, _ => False
  end.
Proof.
  intros [H L].
  destruct a as [n1 r1|b1|d1|p1|p1|n1 k1], b as [n2 r2|b2|d2|p2|p2|n2 k2];
    cbn [unline_stmt norm_stmt stmt_line] in *; try discriminate; try (inversion H; split; congruence);
    try (inversion H; congruence).
  unfold norm_build, unline_build in H. cbn [pb_rule pb_line pb_outs pb_explicit_outs pb_ins pb_explicit_ins
    pb_implicit_ins pb_order_only_ins pb_validation_ins pb_vars] in H.
  inversion H. unfold build_decl_sim. repeat (split; [assumption|]). exact L.
Qed.

(* ------------------------------------------------------------------------------------ *)
(* loaders *)

Lemma build_sim_refl strict b : build_sim strict b b.
Proof. split; [reflexivity | intros _; reflexivity]. Qed.

Lemma builds_sim_refl strict bs : Forall2 (build_sim strict) bs bs.
Proof. induction bs; constructor; [apply build_sim_refl | assumption]. Qed.

Lemma graph_sim_refl strict l : graph_sim strict l l.
Proof. constructor; try reflexivity. apply builds_sim_refl. Qed.

Lemma graph_sim_with_rules strict l1 l2 r1 r2 :
  graph_sim strict l1 l2 -> norm_rules r1 = norm_rules r2 ->
  graph_sim strict (with_rules l1 r1) (with_rules l2 r2).
Proof. intros [A B C D E F G] H. constructor; cbn [with_rules l_files l_builds l_defaults l_rules l_pools l_builddir l_warnings]; assumption. Qed.

Lemma graph_sim_with_pools strict l1 l2 p :
  graph_sim strict l1 l2 -> graph_sim strict (with_pools l1 (insert_b (fst p) (snd p) (l_pools l1)))
                                              (with_pools l2 (insert_b (fst p) (snd p) (l_pools l2))).
Proof.
  intros [A B C D E F G]. constructor; cbn [with_pools l_files l_builds l_defaults l_rules l_pools l_builddir l_warnings];
    try assumption. rewrite E. reflexivity.
Qed.

Lemma graph_sim_with_defaults strict l1 l2 ids :
  graph_sim strict l1 l2 ->
  graph_sim strict (with_defaults l1 (l_defaults l1 ++ ids)) (with_defaults l2 (l_defaults l2 ++ ids)).
Proof.
  intros [A B C D E F G]. constructor; cbn [with_defaults l_files l_builds l_defaults l_rules l_pools l_builddir l_warnings];
    try assumption. rewrite C. reflexivity.
Qed.

Lemma graph_sim_with_builddir strict l1 l2 d :
  graph_sim strict l1 l2 -> graph_sim strict (with_builddir l1 d) (with_builddir l2 d).
Proof.
  intros [A B C D E F G]. constructor; cbn [with_builddir l_files l_builds l_defaults l_rules l_pools l_builddir l_warnings];
    try assumption. reflexivity.
Qed.

Lemma id_from_canonical_sim strict l1 l2 c :
  graph_sim strict l1 l2 ->
  graph_sim strict (fst (id_from_canonical l1 c)) (fst (id_from_canonical l2 c)) /\
  snd (id_from_canonical l1 c) = snd (id_from_canonical l2 c).
Proof.
  intros S. pose proof S as [A B C D E F G]. unfold id_from_canonical. rewrite A.
  destruct (find_file (l_files l2) c 0); cbn [fst snd]; [split; [exact S | reflexivity]|].
  split; [|reflexivity].
  constructor; cbn [l_files l_builds l_defaults l_rules l_pools l_builddir l_warnings]; try assumption.
  reflexivity.
Qed.

Lemma intern_sim strict l1 l2 c : graph_sim strict l1 l2 -> graph_sim strict (intern l1 c) (intern l2 c).
Proof. intro S. unfold intern. apply id_from_canonical_sim. exact S. Qed.

Definition pair_sim {B} (strict : bool) (r1 r2 : loader * B) : Prop :=
  graph_sim strict (fst r1) (fst r2) /\ snd r1 = snd r2.

Lemma evaluate_path_sim strict l1 l2 p1 p2 envs1 envs2 :
  graph_sim strict l1 l2 -> evaluate envs1 p1 = evaluate envs2 p2 ->
  outcome_sim strict (pair_sim strict) (evaluate_path l1 p1 envs1) (evaluate_path l2 p2 envs2).
Proof.
  intros S E. unfold evaluate_path. rewrite E.
  destruct (evaluate envs2 p2) as [|c r]; [cbn [outcome_sim]; intros _; reflexivity|].
  unfold load_path. destruct (canon (c :: r)) as [cn|m|x|x|]; cbn [bind outcome_sim]; auto.
  apply id_from_canonical_sim. exact S.
Qed.

Lemma evaluate_paths_sim strict envs1 envs2 : forall ps1 ps2 l1 l2,
  Forall2 (fun p1 p2 => evaluate envs1 p1 = evaluate envs2 p2) ps1 ps2 ->
  graph_sim strict l1 l2 ->
  outcome_sim strict (pair_sim strict) (evaluate_paths l1 ps1 envs1) (evaluate_paths l2 ps2 envs2).
Proof.
  intros ps1 ps2 l1 l2 H. revert l1 l2.
  induction H as [|p1 p2 ps1 ps2 E H IH]; intros l1 l2 S.
  - cbn [evaluate_paths outcome_sim]. split; [exact S | reflexivity].
  - cbn [evaluate_paths].
    apply (outcome_sim_bind strict (pair_sim strict)); [apply evaluate_path_sim; assumption|].
    intros [la ia] [lb ib] [Sa Ia]. cbn [fst snd] in Sa, Ia. subst ib.
    apply (outcome_sim_bind strict (pair_sim strict)); [apply IH; exact Sa|].
    intros [lc ic] [ld id] [Sc Ic]. cbn [fst snd] in Sc, Ic. subst id.
    cbn [outcome_sim]. split; [exact Sc | reflexivity].
Qed.

Lemma Forall2_evaluate_norm envs1 envs2 : forall ps1 ps2,
  map norm_vars envs1 = map norm_vars envs2 -> map norm_eval ps1 = map norm_eval ps2 ->
  Forall2 (fun p1 p2 => evaluate envs1 p1 = evaluate envs2 p2) ps1 ps2.
Proof.
  intros ps1 ps2 He. revert ps2. induction ps1 as [|p1 r1 IH]; intros [|p2 r2] H; try discriminate; constructor.
  - cbn [map] in H. inversion H as [[H1 H2]]. apply evaluate_norm_eq; assumption.
  - cbn [map] in H. inversion H. apply IH. assumption.
Qed.

(* ------------------------------------------------------------------------------------ *)
(* Graph::add_build *)

Lemma build_sim_fields strict b1 b2 : build_sim strict b1 b2 ->
  lb_file b1 = lb_file b2 /\ lb_ins b1 = lb_ins b2 /\ lb_outs b1 = lb_outs b2 /\
  lb_explicit_outs b1 = lb_explicit_outs b2.
Proof.
  intros [H _]. unfold unline_lb in H. inversion H. repeat split; assumption.
Qed.

Lemma builds_sim_nth strict : forall bs1 bs2 k d1 d2,
  Forall2 (build_sim strict) bs1 bs2 -> build_sim strict d1 d2 ->
  build_sim strict (nth k bs1 d1) (nth k bs2 d2).
Proof.
  intros bs1 bs2 k d1 d2 H D. revert k. induction H as [|x y a b H1 H IH]; intros [|k]; cbn [nth]; auto.
Qed.

Lemma warn_text_sim b1 b2 name : build_sim true b1 b2 -> warn_text b1 name = warn_text b2 name.
Proof.
  intros S. destruct (build_sim_fields _ _ _ S) as (F & _). destruct S as [_ L].
  unfold warn_text. rewrite F, (L eq_refl). reflexivity.
Qed.

Lemma conflict_text_sim b1 b2 c1 c2 name :
  build_sim true b1 b2 -> build_sim true c1 c2 -> conflict_text b1 c1 name = conflict_text b2 c2 name.
Proof.
  intros S T. destruct (build_sim_fields _ _ _ S) as (F & _). destruct (build_sim_fields _ _ _ T) as (F' & _).
  destruct S as [_ L]. destruct T as [_ L'].
  unfold conflict_text. rewrite F, F', (L eq_refl), (L' eq_refl). reflexivity.
Qed.

(* the state of the output loop: files and the flag alike, the warnings alike when strict *)
Definition gab_state_sim (strict : bool) (s1 s2 : list lfile * bool * list bytes) : Prop :=
  fst s1 = fst s2 /\ (strict = true -> snd s1 = snd s2).

Lemma gab_step1_sim strict l1 l2 b1 b2 fs dups w1 w2 id :
  graph_sim strict l1 l2 -> build_sim strict b1 b2 -> (strict = true -> w1 = w2) ->
  outcome_sim strict (gab_state_sim strict) (gab_step1 l1 b1 fs dups w1 id) (gab_step1 l2 b2 fs dups w2 id).
Proof.
  intros S B W. unfold gab_step1.
  pose proof (Forall2_length_eq _ _ _ (gs_builds _ _ _ S)) as Len. rewrite Len.
  destruct (nth_error fs id) as [f|]; [|cbn [outcome_sim]; reflexivity].
  destruct (lf_input f) as [prev|].
  - destruct (prev =? length (l_builds l2))%nat; cbn [outcome_sim].
    + split; [reflexivity|]. cbn [snd]. intro T. rewrite (W T). subst strict.
      rewrite (warn_text_sim _ _ _ B). reflexivity.
    + intro T. subst strict. apply conflict_text_sim; [exact B|].
      apply builds_sim_nth; [apply (gs_builds _ _ _ S) | exact B].
  - cbn [outcome_sim]. split; [reflexivity | exact W].
Qed.

Lemma gab_fold_sim strict l1 l2 b1 b2 :
  graph_sim strict l1 l2 -> build_sim strict b1 b2 -> forall ids st1 st2,
  outcome_sim strict (gab_state_sim strict) st1 st2 ->
  outcome_sim strict (gab_state_sim strict) (fold_left (gab_step l1 b1) ids st1) (fold_left (gab_step l2 b2) ids st2).
Proof.
  intros S B. induction ids as [|id r IH]; intros st1 st2 H; [exact H|].
  cbn [fold_left]. apply IH. unfold gab_step.
  apply (outcome_sim_bind strict (gab_state_sim strict)); [exact H|].
  intros [[fs1 d1] w1] [[fs2 d2] w2] [E W]. cbn [fst snd] in E, W. inversion E; subst fs2 d2.
  apply gab_step1_sim; assumption.
Qed.

Lemma gab_files0_sim strict l1 l2 b1 b2 :
  graph_sim strict l1 l2 -> build_sim strict b1 b2 -> gab_files0 l1 b1 = gab_files0 l2 b2.
Proof.
  intros S B. unfold gab_files0. destruct (build_sim_fields _ _ _ B) as (_ & I & _).
  rewrite (gs_files _ _ _ S), I, (Forall2_length_eq _ _ _ (gs_builds _ _ _ S)). reflexivity.
Qed.

Lemma set_outs_sim strict b1 b2 outs eo :
  build_sim strict b1 b2 -> build_sim strict (set_outs b1 outs eo) (set_outs b2 outs eo).
Proof.
  intros [H L]. split; [|exact L].
  change (set_outs (unline_lb b1) outs eo = set_outs (unline_lb b2) outs eo). rewrite H. reflexivity.
Qed.

Lemma graph_add_build_sim strict l1 l2 b1 b2 :
  graph_sim strict l1 l2 -> build_sim strict b1 b2 ->
  outcome_sim strict (graph_sim strict) (graph_add_build true l1 b1) (graph_add_build true l2 b2).
Proof.
  intros S B. rewrite !gab_unfold.
  destruct (build_sim_fields _ _ _ B) as (_ & _ & O & EO).
  apply (outcome_sim_bind strict (gab_state_sim strict)).
  - rewrite O. apply gab_fold_sim; [exact S | exact B|].
    cbn [outcome_sim]. split; [cbn [fst]; rewrite (gab_files0_sim _ _ _ _ _ S B); reflexivity | intros _; reflexivity].
  - intros [[fs1 d1] w1] [[fs2 d2] w2] [E W]. cbn [fst snd] in E, W. inversion E; subst fs2 d2.
    rewrite O, EO.
    destruct (if d1 then remove_duplicates true (lb_outs b2) (lb_explicit_outs b2)
              else (lb_outs b2, lb_explicit_outs b2)) as [outs eo].
    cbn [outcome_sim]. pose proof S as [A Bs C D P F G].
    constructor; cbn [l_files l_builds l_defaults l_rules l_pools l_builddir l_warnings]; try assumption.
    + reflexivity.
    + apply Forall2_app; [exact Bs|]. constructor; [apply set_outs_sim; exact B | constructor].
    + intro T. rewrite (G T), (W T). reflexivity.
Qed.

(* ------------------------------------------------------------------------------------ *)
(* Loader::add_build *)

Lemma file_nm_files l1 l2 id : l_files l1 = l_files l2 -> file_nm l1 id = file_nm l2 id.
Proof. intro H. unfold file_nm. rewrite H. reflexivity. Qed.

Lemma join_names_files l1 l2 sep : l_files l1 = l_files l2 -> forall ids,
  join_names l1 ids sep = join_names l2 ids sep.
Proof.
  intros H ids. rewrite !join_names_map. f_equal. apply map_ext. intro id. apply file_nm_files. exact H.
Qed.

Lemma implicit_env_sim l1 l2 pb1 pb2 ins outs :
  l_files l1 = l_files l2 -> pb_explicit_ins pb1 = pb_explicit_ins pb2 ->
  pb_explicit_outs pb1 = pb_explicit_outs pb2 ->
  implicit_env l1 pb1 ins outs = implicit_env l2 pb2 ins outs.
Proof.
  intros F I O. unfold implicit_env. rewrite I, O, !(join_names_files l1 l2 _ F). reflexivity.
Qed.

Lemma assoc_rules_sim k (r1 r2 : list (bytes * varlist)) :
  norm_rules r1 = norm_rules r2 ->
  match assoc_b k r1, assoc_b k r2 with
  | Some a, Some b => norm_vars a = norm_vars b
  | None, None => True
  | _, _ => False
  end.
Proof.
  intro H. pose proof (assoc_norm_rules k r1) as A. rewrite H, assoc_norm_rules in A.
  destruct (assoc_b k r1), (assoc_b k r2); cbn [option_map] in A; try discriminate; [|exact I].
  inversion A. reflexivity.
Qed.

Lemma loader_add_build_sim strict l1 l2 filename vs pb1 pb2 :
  graph_sim strict l1 l2 -> build_decl_sim strict pb1 pb2 ->
  outcome_sim strict (graph_sim strict) (loader_add_build true l1 filename vs pb1)
                                         (loader_add_build true l2 filename vs pb2).
Proof.
  intros S (Er & Eo & Eeo & Ei & Eei & Eii & Eoi & Evi & Ev & Ln).
  unfold loader_add_build. cbv zeta.
  assert (He : map norm_vars [pb_vars pb1; vars_env vs] = map norm_vars [pb_vars pb2; vars_env vs])
    by (cbn [map]; rewrite Ev; reflexivity).
  apply (outcome_sim_bind strict (pair_sim strict)).
  { apply evaluate_paths_sim; [apply Forall2_evaluate_norm; assumption | exact S]. }
  intros [la ins] [lb ins'] [Sa Ia]. cbn [fst snd] in Sa, Ia. subst ins'.
  apply (outcome_sim_bind strict (pair_sim strict)).
  { apply evaluate_paths_sim; [apply Forall2_evaluate_norm; assumption | exact Sa]. }
  intros [lc outs] [ld outs'] [Sc Ic]. cbn [fst snd] in Sc, Ic. subst outs'.
  rewrite Er. pose proof (assoc_rules_sim (pb_rule pb2) _ _ (gs_rules _ _ _ Sc)) as R.
  destruct (assoc_b (pb_rule pb2) (l_rules lc)) as [rule1|], (assoc_b (pb_rule pb2) (l_rules ld)) as [rule2|];
    try contradiction; [|cbn [outcome_sim]; intros _; reflexivity].
  rewrite (implicit_env_sim lc ld pb1 pb2 ins outs (gs_files _ _ _ Sc) Eei Eeo).
  rewrite !(attr_lookup_norm (pb_vars pb2) (pb_vars pb1) rule2 rule1 _ _ _ Ev R).
  apply (outcome_sim_bind strict eq); [apply outcome_sim_eq|]. intros showinc ? <-.
  apply (outcome_sim_bind strict eq); [apply outcome_sim_eq|]. intros rsp ? <-.
  apply graph_add_build_sim; [exact Sc|].
  split.
  - unfold unline_lb. cbn [lb_file lb_line lb_ins lb_explicit_ins lb_implicit_ins lb_order_only_ins
      lb_outs lb_explicit_outs lb_cmdline lb_desc lb_depfile lb_showincludes lb_rspfile lb_pool lb_hide_success
      lb_hide_progress]. rewrite Eei, Eii, Eoi, Eeo. reflexivity.
  - cbn [lb_line]. exact Ln.
Qed.

(* ------------------------------------------------------------------------------------ *)
(* one statement that is not an include line *)

Lemma stmt_step_sim strict l1 l2 filename st1 st2 vs :
  graph_sim strict l1 l2 -> stmt_sim strict st1 st2 ->
  outcome_sim strict (graph_sim strict) (stmt_step l1 filename st1 vs) (stmt_step l2 filename st2 vs).
Proof.
  intros S H. apply stmt_sim_shape in H.
  destruct st1 as [n1 r1|b1|d1|p1|p1|n1 k1], st2 as [n2 r2|b2|d2|p2|p2|n2 k2]; try contradiction;
    cbn [stmt_step].
  - destruct H as [-> Hr]. cbn [outcome_sim]. apply graph_sim_with_rules; [exact S|].
    rewrite !norm_rules_insert, Hr, (gs_rules _ _ _ S). reflexivity.
  - apply loader_add_build_sim; assumption.
  - apply (outcome_sim_bind strict (pair_sim strict)).
    { apply evaluate_paths_sim; [apply Forall2_evaluate_norm; [reflexivity | exact H] | exact S]. }
    intros [la ids] [lb ids'] [Sa Ia]. cbn [fst snd] in Sa, Ia. subst ids'.
    cbn [outcome_sim]. apply graph_sim_with_defaults. exact Sa.
  - cbn [outcome_sim]. intros _. reflexivity.
  - cbn [outcome_sim]. intros _. reflexivity.
  - destruct H as [-> ->]. cbn [outcome_sim]. apply (graph_sim_with_pools strict l1 l2 (n2, k2)). exact S.
Qed.

(* an include line names the same file in both *)
Lemma include_path_sim p1 p2 vs : norm_eval p1 = norm_eval p2 -> include_path p1 vs = include_path p2 vs.
Proof.
  intro H. unfold include_path. rewrite (evaluate_norm_eq [vars_env vs] [vars_env vs] p2 p1 eq_refl H). reflexivity.
Qed.
