(* The joint invariant of a Work observed through both models, and its preservation by every
   item of a jointly accepted trace. *)
From Coq Require Import Lia ZArith List Bool Arith.
From N2 Require Import Model.All Proofs.SchedSpec Proofs.SchedInv Proofs.SchedRunBase
     Proofs.SchedRunStep Proofs.SchedRunCore Proofs.SchedRunAux Proofs.SchedRunRInv Proofs.SchedRunThms.
From N2 Require Import Proofs.DbSpec Proofs.WorldSpec Proofs.WorldBase Proofs.WorldDeps Proofs.WorldDirty
     Proofs.JointSpec Proofs.JointBase Proofs.JointSched.
Import ListNotations.

(* [w'] is [w] after some stat() calls (the part of [cache_ext] the joint invariant needs) *)
Definition wext (w w' : wstate) : Prop :=
  ws_fs w' = ws_fs w /\
  forall n, cache_get (ws_cache w') n = cache_get (ws_cache w) n \/
            cache_get (ws_cache w') n = Some (fs_get (ws_fs w) n).

Lemma wext_refl w : wext w w.
Proof. split; [reflexivity|]. intro n. now left. Qed.

Lemma cache_ext_wext w w' : cache_ext w w' -> wext w w'.
Proof. intros (F & _ & _ & _ & _ & C). split; assumption. Qed.

Lemma record_wext w b bd rep w1 r : record_finished w b bd rep = Ok (w1, r) -> wext w w1.
Proof. intro E. destruct (record_ext _ _ _ _ _ _ E) as (F & _ & C & _). split; assumption. Qed.

Lemma accepts_one cf r e r' : accepts cf r [e] = Some r' -> accept1 cf r e = Some r'.
Proof. cbn [accepts]. destruct (accept1 cf r e); [auto|discriminate]. Qed.

Section JInv.
Variable cf : config.
Variable decls : list (bytes * nat).
Variable wg : wgraph.
Notation g := (cf_graph cf).
Notation nb := (length (g_builds (cf_graph cf))).
Hypothesis Hwf : graph_wf g.
Hypothesis Hag : graphs_agree g wg.

(* every output of step b has a cache entry that agrees with the tree *)
Definition fresh_outs (w : wstate) (b : nat) : Prop :=
  forall o, In o (wb_outs (get_wbuild wg b)) -> cache_get (ws_cache w) o = Some (fs_get (ws_fs w) o).

(* the steps whose outputs may have stale cache entries: they are running (and have not just
   been re-stat()ed by record_finished), or they failed *)
Definition stale_ok (r : rstate) (p : nat) : Prop :=
  (get_state (rs_bs r) p = Running /\ rs_ctl r <> CFinished p TSuccess true) \/
  get_state (rs_bs r) p = Failed.

Definition cache_ok (r : rstate) (w : wstate) : Prop :=
  forall n v, cache_get (ws_cache w) n = Some v ->
    v = fs_get (ws_fs w) n \/
    exists p, p < nb /\ In n (wb_outs (get_wbuild wg p)) /\ stale_ok r p.

(* [awaiting] of proj_w against the control state *)
Definition aw_ok (ad : bool) (c : ctl) (aw : option nat) : Prop :=
  match c with
  | CFinished b TSuccess false => aw = Some b
  | CVerdict b VDirty false => if ad then aw = Some b else aw = None
  | _ => aw = None
  end.

(* the running set of writes_ok against the state vector *)
Definition run_ok (r : rstate) (run : list nat) : Prop :=
  forall x, In x run ->
    x < nb /\ get_state (rs_bs r) x = Running /\ forall t rec, rs_ctl r <> CFinished x t rec.

(* the step whose completion is being processed has fresh outputs *)
Definition focus_ok (r : rstate) (w : wstate) : Prop :=
  match rs_ctl r with
  | CVerdict b VClean _ => fresh_outs w b
  | CVerdict b VDirty true => fresh_outs w b
  | CFinished b TSuccess true => fresh_outs w b
  | _ => True
  end.

Record JInv (a : jst) : Prop := {
  ji_r : RInv cf decls (j_r a);
  ji_aw : aw_ok (cf_adopt cf) (rs_ctl (j_r a)) (j_aw a);
  ji_run : run_ok (j_r a) (j_run a);
  ji_cache : cache_ok (j_r a) (j_w a);
  ji_done : forall b, get_state (rs_bs (j_r a)) b = Done -> fresh_outs (j_w a) b;
  ji_focus : focus_ok (j_r a) (j_w a);
}.

(* ---- small facts ---- *)

Lemma fresh_outs_ext w w' b : wext w w' -> fresh_outs w b -> fresh_outs w' b.
Proof.
  intros (F & C) H o Ho. rewrite F. destruct (C o) as [E|E]; rewrite E; [now apply H|reflexivity].
Qed.

Lemma fresh_outs_write w b n t :
  ~ In n (wb_outs (get_wbuild wg b)) -> fresh_outs w b -> fresh_outs (set_fs w n t) b.
Proof.
  intros Hn H o Ho. cbn [set_fs ws_cache ws_fs]. rewrite fs_get_set_other; [now apply H|].
  intros ->. contradiction.
Qed.

Lemma fresh_of_record w b rep w1 r :
  record_finished w b (get_wbuild wg b) rep = Ok (w1, r) -> fresh_outs w1 b.
Proof. intro E. destruct (record_ext _ _ _ _ _ _ E) as (F & _ & _ & S). intros o Ho. rewrite F. now apply S. Qed.

Lemma fresh_of_clean w b w1 :
  check_build_dirty wg w b (get_wbuild wg b) = (w1, DClean) -> fresh_outs w1 b.
Proof.
  intro E. pose proof (check_ext _ _ _ _ _ _ E) as X. assert (F : ws_fs w1 = ws_fs w) by apply X.
  intros o Ho. rewrite F. exact (check_clean_outs _ _ _ _ _ E o Ho).
Qed.

Lemma stale_same r r' p :
  same_states r r' -> rs_ctl r' <> CFinished p TSuccess true -> stale_ok r p -> stale_ok r' p.
Proof. intros S Hc [[E _]|E]; [left|right]; rewrite S; auto. Qed.

Lemma stale_upd r r' b p :
  upd_at (rs_bs r) (rs_bs r') b -> p <> b -> rs_ctl r' <> CFinished p TSuccess true ->
  stale_ok r p -> stale_ok r' p.
Proof. intros U Hne Hc [[E _]|E]; [left|right]; rewrite (U p Hne); auto. Qed.

Lemma cache_ok_gen r w r' w' :
  cache_ok r w -> wext w w' ->
  (forall p, stale_ok r p -> stale_ok r' p \/ fresh_outs w' p) ->
  cache_ok r' w'.
Proof.
  intros H (F & C) Hst n v Hv. destruct (C n) as [E|E]; rewrite E in Hv.
  - destruct (H n v Hv) as [Hf|(p & Lp & Ip & Sp)].
    + left. now rewrite F.
    + destruct (Hst p Sp) as [Sp'|Fp].
      * right. exists p. auto.
      * left. rewrite <- E, (Fp n Ip) in Hv. now injection Hv.
  - left. rewrite F. now injection Hv.
Qed.

Lemma cache_ok_write r w x n t :
  cache_ok r w -> x < nb -> In n (wb_outs (get_wbuild wg x)) -> stale_ok r x ->
  cache_ok r (set_fs w n t).
Proof.
  intros H Lx Ix Sx n' v Hv. cbn [set_fs ws_cache ws_fs] in *.
  destruct (bytes_eq_dec n' n) as [->|Hne].
  - right. exists x. auto.
  - rewrite fs_get_set_other by exact Hne. now apply H.
Qed.

(* the general preservation lemma: the scheduler moved to r', the World only stat()ed *)
Lemma JInv_gen r w aw pend run r' w' aw' pend' run' :
  JInv (mkJ r w aw pend run) ->
  RInv cf decls r' -> wext w w' ->
  (forall p, stale_ok r p -> stale_ok r' p \/ fresh_outs w' p) ->
  (forall x, get_state (rs_bs r') x = Done -> get_state (rs_bs r) x = Done \/ fresh_outs w' x) ->
  aw_ok (cf_adopt cf) (rs_ctl r') aw' -> run_ok r' run' -> focus_ok r' w' ->
  JInv (mkJ r' w' aw' pend' run').
Proof.
  intros [R A RO CO DO FO] R' X Hst Hd A' RO' FO'. cbn [j_r j_w j_aw j_run] in *.
  constructor; cbn [j_r j_w j_aw j_run]; auto.
  - eapply cache_ok_gen; eassumption.
  - intros x Hx. destruct (Hd x Hx) as [Ex|Fx]; [|exact Fx].
    apply (fresh_outs_ext w w' x X). now apply DO.
Qed.

Lemma ctl_focus_range r b :
  RInv cf decls r ->
  (exists v rec, rs_ctl r = CVerdict b v rec /\ v <> VError) \/ (exists t rec, rs_ctl r = CFinished b t rec) ->
  b < nb /\ (get_state (rs_bs r) b = Ready \/ exists t rec, rs_ctl r = CFinished b t rec).
Proof.
  intros R H. pose proof (ri_ctl _ _ _ R) as K.
  destruct H as [(v & rec & Hc & Hv)|(t & rec & Hc)]; rewrite Hc in K; cbn [ctl_ok] in K.
  - destruct K as (L & _ & [(E & _)|(Ev & _)]); [auto|contradiction].
  - destruct K as (_ & _ & L & _). split; [exact L|]. right. eauto.
Qed.

(* ---- preservation ---- *)

Lemma JInv_step a j b : JInv a -> jstep cf wg a j b -> JInv b.
Proof.
  intros Hinv (Hs & Hw & Hwr & Hrun).
  destruct a as [r w aw pend run], b as [r' w' aw' pend' run'].
  cbn [j_r j_w j_aw j_pend j_run] in Hs, Hw, Hwr, Hrun. subst run'.
  pose proof (ji_r _ Hinv) as R. pose proof (ji_aw _ Hinv) as A. pose proof (ji_run _ Hinv) as RO.
  pose proof (ji_cache _ Hinv) as CO. pose proof (ji_done _ Hinv) as DO. pose proof (ji_focus _ Hinv) as FO.
  cbn [j_r j_w j_aw j_run] in R, A, RO, CO, DO, FO.
  destruct j as [c|b|b v|b p n|b|n|n t|b t rep|b h|ok]; cbn [proj_s1] in Hs; cbn [run_after write_ok] in *;
    try (apply accepts_one in Hs; destruct (accept_sum cf decls _ _ _ R Hs) as [S R']; cbn [ev_sum] in S).
  - (* update *)
    destruct S as [-> _]. destruct Hw as (-> & -> & ->). exact Hinv.
  - (* pop *)
    destruct S as (SS & Hc & Hc' & L & E). destruct Hw as (-> & -> & ->).
    rewrite Hc in A. cbn [aw_ok] in A.
    apply (JInv_gen _ _ _ _ _ _ _ _ _ _ Hinv R' (wext_refl _)).
    + intros p Sp. left. apply (stale_same r r' p SS); [rewrite Hc'; discriminate|exact Sp].
    + intros x Hx. left. now rewrite <- SS.
    + rewrite Hc'. exact A.
    + intros x Hx. destruct (RO x Hx) as (Lx & Ex & _). rewrite SS, Hc'. repeat split; auto; discriminate.
    + unfold focus_ok. rewrite Hc'. exact I.
  - (* verdict *)
    destruct S as (SS & Hc & Hc' & L & E & Hph). destruct Hw as (res & Ec & Hcode & Haw).
    rewrite Hc in A. cbn [aw_ok] in A.
    pose proof (cache_ext_wext _ _ (check_ext _ _ _ _ _ _ Ec)) as X.
    apply (JInv_gen _ _ _ _ _ _ _ _ _ _ Hinv R' X).
    + intros q Sq. left. apply (stale_same r r' q SS); [rewrite Hc'; discriminate|exact Sq].
    + intros x Hx. left. now rewrite <- SS.
    + rewrite Hc'. destruct v; cbn [aw_ok].
      * destruct Haw as [-> _]. exact A.
      * destruct (cf_adopt cf); destruct Haw as [-> _]; [reflexivity|exact A].
      * destruct Haw as [-> _]. exact A.
    + intros x Hx. destruct (RO x Hx) as (Lx & Ex & _). rewrite SS, Hc'. repeat split; auto; discriminate.
    + unfold focus_ok. rewrite Hc'. destruct v; try exact I.
      destruct res; try discriminate Hcode. now apply (fresh_of_clean w).
  - (* set *)
    destruct S as (L & Ep & En & U & S).
    assert (Hrun_other : forall x, In x run -> x <> b -> rs_ctl r' = CIdle \/ (exists q, rs_ctl r' = CStarting q) \/ (exists q v, rs_ctl r' = CVerdict q v false) ->
                         x < nb /\ get_state (rs_bs r') x = Running /\ forall t rec, rs_ctl r' <> CFinished x t rec).
    { intros x Hx Hne Hc'. destruct (RO x Hx) as (Lx & Ex & _). rewrite (U x Hne).
      repeat split; auto. intros t rec.
      destruct Hc' as [Hc'|[(q & Hc')|(q & v & Hc')]]; rewrite Hc'; discriminate. }
    destruct p, n; try contradiction.
    + (* Want -> Ready *)
      destruct S as (Hc & Hc'). destruct Hw as (-> & -> & ->). rewrite Hc in A. cbn [aw_ok] in A.
      apply (JInv_gen _ _ _ _ _ _ _ _ _ _ Hinv R' (wext_refl _)).
      * intros q Sq. left. destruct (Nat.eq_dec q b) as [->|Hne].
        -- destruct Sq as [[Eq _]|Eq]; congruence.
        -- apply (stale_upd r r' b q U Hne); [rewrite Hc'; discriminate|exact Sq].
      * intros x Hx. left. destruct (Nat.eq_dec x b) as [->|Hne]; [congruence|]. now rewrite <- (U x Hne).
      * rewrite Hc'. exact A.
      * intros x Hx. apply Hrun_other; auto.
        intros ->. destruct (RO b Hx) as (_ & Eb & _). congruence.
      * unfold focus_ok. rewrite Hc'. exact I.
    + (* Ready -> Queued *)
      destruct S as (Hc & Had & Hc'). destruct Hw as (-> & -> & ->). rewrite Hc, Had in A. cbn [aw_ok] in A.
      apply (JInv_gen _ _ _ _ _ _ _ _ _ _ Hinv R' (wext_refl _)).
      * intros q Sq. left. destruct (Nat.eq_dec q b) as [->|Hne].
        -- destruct Sq as [[Eq _]|Eq]; congruence.
        -- apply (stale_upd r r' b q U Hne); [destruct Hc' as [Hc'|Hc']; rewrite Hc'; discriminate|exact Sq].
      * intros x Hx. left. destruct (Nat.eq_dec x b) as [->|Hne]; [congruence|]. now rewrite <- (U x Hne).
      * destruct Hc' as [Hc'|Hc']; rewrite Hc'; exact A.
      * intros x Hx. apply Hrun_other; auto.
        -- intros ->. destruct (RO b Hx) as (_ & Eb & _). congruence.
        -- destruct Hc' as [Hc'|Hc']; [now left|right; right; eauto].
      * unfold focus_ok. destruct Hc' as [Hc'|Hc']; rewrite Hc'; exact I.
    + (* Ready -> Done *)
      destruct S as ((v & rec & Hc & Hv) & Hc').
      rewrite Hc in A. unfold focus_ok in FO. rewrite Hc in FO.
      assert (HW : wext w w' /\ fresh_outs w' b /\ aw' = None).
      { cbn [wstepP] in Hw.
        destruct Hv as [[-> ->]|[-> Had]]; [|destruct rec]; cbn [aw_ok] in A; try rewrite Had in A; subst aw;
          cbn [aw_is] in Hw; try rewrite Nat.eqb_refl in Hw.
        - destruct Hw as (-> & -> & ->). split; [apply wext_refl|]. auto.
        - destruct Hw as (-> & -> & ->). split; [apply wext_refl|]. auto.
        - destruct Hw as (rp & _ & Er & -> & _). split; [exact (record_wext _ _ _ _ _ _ Er)|].
          split; [exact (fresh_of_record _ _ _ _ _ Er)|reflexivity]. }
      destruct HW as (X & Fb & ->).
      apply (JInv_gen _ _ _ _ _ _ _ _ _ _ Hinv R' X).
      * intros q Sq. left. destruct (Nat.eq_dec q b) as [->|Hne].
        -- destruct Sq as [[Eq _]|Eq]; congruence.
        -- apply (stale_upd r r' b q U Hne); [rewrite Hc'; discriminate|exact Sq].
      * intros x Hx. destruct (Nat.eq_dec x b) as [->|Hne]; [now right|]. left. now rewrite <- (U x Hne).
      * rewrite Hc'. reflexivity.
      * intros x Hx. apply Hrun_other; auto.
        intros ->. destruct (RO b Hx) as (_ & Eb & _). congruence.
      * unfold focus_ok. rewrite Hc'. exact I.
    + (* Queued -> Running *)
      destruct S as (Hc & Hc'). destruct Hw as (-> & -> & ->). rewrite Hc in A. cbn [aw_ok] in A.
      apply (JInv_gen _ _ _ _ _ _ _ _ _ _ Hinv R' (wext_refl _)).
      * intros q Sq. left. destruct (Nat.eq_dec q b) as [->|Hne].
        -- destruct Sq as [[Eq _]|Eq]; congruence.
        -- apply (stale_upd r r' b q U Hne); [rewrite Hc'; discriminate|exact Sq].
      * intros x Hx. left. destruct (Nat.eq_dec x b) as [->|Hne]; [congruence|]. now rewrite <- (U x Hne).
      * rewrite Hc'. exact A.
      * intros x Hx. apply Hrun_other; eauto.
        intros ->. destruct (RO b Hx) as (_ & Eb & _). congruence.
      * unfold focus_ok. rewrite Hc'. exact I.
    + (* Running -> Done *)
      destruct S as ((rec & Hc) & Hc').
      rewrite Hc in A. unfold focus_ok in FO. rewrite Hc in FO.
      assert (HW : wext w w' /\ fresh_outs w' b /\ aw' = None).
      { cbn [wstepP] in Hw. destruct rec; cbn [aw_ok] in A; subst aw;
          cbn [aw_is] in Hw; try rewrite Nat.eqb_refl in Hw.
        - destruct Hw as (-> & -> & ->). split; [apply wext_refl|]. auto.
        - destruct Hw as (rp & _ & Er & -> & _). split; [exact (record_wext _ _ _ _ _ _ Er)|].
          split; [exact (fresh_of_record _ _ _ _ _ Er)|reflexivity]. }
      destruct HW as (X & Fb & ->).
      apply (JInv_gen _ _ _ _ _ _ _ _ _ _ Hinv R' X).
      * intros q Sq. destruct (Nat.eq_dec q b) as [->|Hne]; [now right|]. left.
        apply (stale_upd r r' b q U Hne); [rewrite Hc'; discriminate|exact Sq].
      * intros x Hx. destruct (Nat.eq_dec x b) as [->|Hne]; [now right|]. left. now rewrite <- (U x Hne).
      * rewrite Hc'. reflexivity.
      * intros x Hx. apply Hrun_other; auto.
        intros ->. destruct (RO b Hx) as (_ & _ & Nf). exact (Nf _ _ Hc).
      * unfold focus_ok. rewrite Hc'. exact I.
    + (* Running -> Failed *)
      destruct S as ((rec & Hc) & Hc'). destruct Hw as (-> & -> & ->). rewrite Hc in A. cbn [aw_ok] in A.
      apply (JInv_gen _ _ _ _ _ _ _ _ _ _ Hinv R' (wext_refl _)).
      * intros q Sq. left. destruct (Nat.eq_dec q b) as [->|Hne]; [now right|].
        apply (stale_upd r r' b q U Hne); [rewrite Hc'; discriminate|exact Sq].
      * intros x Hx. left. destruct (Nat.eq_dec x b) as [->|Hne]; [congruence|]. now rewrite <- (U x Hne).
      * rewrite Hc'. exact A.
      * intros x Hx. apply Hrun_other; auto.
        intros ->. destruct (RO b Hx) as (_ & _ & Nf). exact (Nf _ _ Hc).
      * unfold focus_ok. rewrite Hc'. exact I.
  - (* start *)
    destruct S as (SS & Hc & Hc' & L & E). destruct Hw as (-> & -> & ->).
    rewrite Hc in A. cbn [aw_ok] in A.
    apply (JInv_gen _ _ _ _ _ _ _ _ _ _ Hinv R' (wext_refl _)).
    + intros q Sq. left. apply (stale_same r r' q SS); [rewrite Hc'; discriminate|exact Sq].
    + intros x Hx. left. now rewrite <- SS.
    + rewrite Hc'. exact A.
    + intros x [<-|Hx].
      * rewrite SS, Hc'. repeat split; auto; discriminate.
      * destruct (RO x Hx) as (Lx & Ex & _). rewrite SS, Hc'. repeat split; auto; discriminate.
    + unfold focus_ok. rewrite Hc'. exact I.
  - (* quiesce *)
    destruct S as [-> _]. destruct Hw as (-> & -> & ->). exact Hinv.
  - (* write *)
    cbn [accepts] in Hs. injection Hs as <-. destruct Hw as (-> & -> & ->).
    destruct Hwr as (x & Hx & Ix). destruct (RO x Hx) as (Lx & Ex & Nf).
    assert (Sx : stale_ok r x) by (left; split; [exact Ex|apply Nf]).
    assert (Hnot : forall q, q < nb -> q <> x -> ~ In n (wb_outs (get_wbuild wg q))).
    { intros q Lq Hne Iq. apply Hne. exact (outs_disjoint g wg Hag q x n Lq Lx Iq Ix). }
    constructor; cbn [j_r j_w j_aw j_run]; auto.
    + now apply (cache_ok_write r w x n t).
    + intros q Eq. apply fresh_outs_write; [|now apply DO].
      apply Hnot; [|congruence].
      apply (BCore_range g decls _ q (ri_core _ _ _ R)). rewrite Eq. discriminate.
    + unfold focus_ok in *. pose proof (ri_ctl _ _ _ R) as K.
      destruct (rs_ctl r) as [|q|q v rec|q|q tm rec|o] eqn:Hc; try exact I; cbn [ctl_ok] in K.
      * destruct K as (Lq & _ & [(Eq & _)|(Ev & _)]).
        -- assert (q <> x) by congruence.
           destruct v; try exact I; [|destruct rec; try exact I]; apply fresh_outs_write; auto.
        -- subst v. exact I.
      * destruct K as (_ & _ & Lq & _).
        assert (q <> x) by (intros ->; exact (Nf tm rec eq_refl)).
        destruct tm; try exact I. destruct rec; try exact I. apply fresh_outs_write; auto.
  - (* finish *)
    destruct S as (SS & Hc & Hc' & L & E). destruct Hw as (-> & Haw).
    rewrite Hc in A. cbn [aw_ok] in A.
    apply (JInv_gen _ _ _ _ _ _ _ _ _ _ Hinv R' (wext_refl _)).
    + intros q Sq. left. apply (stale_same r r' q SS); [rewrite Hc'; discriminate|exact Sq].
    + intros x Hx. left. now rewrite <- SS.
    + rewrite Hc'. destruct t; destruct Haw as [-> _]; reflexivity.
    + intros x Hx. apply filter_In in Hx. destruct Hx as [Hx Hne].
      apply negb_true_iff, Nat.eqb_neq in Hne.
      destruct (RO x Hx) as (Lx & Ex & _). rewrite SS, Hc'. repeat split; auto. congruence.
    + unfold focus_ok. rewrite Hc'. destruct t; exact I.
  - (* record *)
    destruct S as (SS & S). destruct Hw as (rp & _ & Er & -> & _).
    pose proof (record_wext _ _ _ _ _ _ Er) as X. pose proof (fresh_of_record _ _ _ _ _ Er) as Fb.
    assert (Hc' : rs_ctl r' = CVerdict b VDirty true \/ rs_ctl r' = CFinished b TSuccess true)
      by (destruct S as [(_ & _ & Hc' & _)|(_ & Hc' & _)]; auto).
    apply (JInv_gen _ _ _ _ _ _ _ _ _ _ Hinv R' X).
    + intros q Sq. destruct (Nat.eq_dec q b) as [->|Hne]; [now right|]. left.
      apply (stale_same r r' q SS); [|exact Sq].
      destruct Hc' as [Hc'|Hc']; rewrite Hc'; congruence.
    + intros x Hx. left. now rewrite <- SS.
    + destruct Hc' as [Hc'|Hc']; rewrite Hc'; reflexivity.
    + intros x Hx. destruct (RO x Hx) as (Lx & Ex & Nf). rewrite SS. repeat split; auto.
      intros t rec. destruct S as [(_ & _ & Hc2 & _)|(Hc1 & Hc2 & _)]; rewrite Hc2; [discriminate|].
      intros [= -> _ _]. exact (Nf _ _ Hc1).
    + unfold focus_ok. destruct Hc' as [Hc'|Hc']; rewrite Hc'; exact Fb.
  - (* return *)
    destruct S as (SS & Hc' & Hc). destruct Hw as (-> & -> & ->).
    assert (A0 : aw = None).
    { destruct Hc as [Hc|[(q & rec & Hc)|(q & t & rec & Hc & Ht)]]; rewrite Hc in A; cbn [aw_ok] in A; auto.
      destruct t; auto. contradiction. }
    apply (JInv_gen _ _ _ _ _ _ _ _ _ _ Hinv R' (wext_refl _)).
    + intros q Sq. left. apply (stale_same r r' q SS); [rewrite Hc'; discriminate|exact Sq].
    + intros x Hx. left. now rewrite <- SS.
    + rewrite Hc'. exact A0.
    + intros x Hx. destruct (RO x Hx) as (Lx & Ex & _). rewrite SS, Hc'. repeat split; auto; discriminate.
    + unfold focus_ok. rewrite Hc'. exact I.
Qed.

Lemma JInv_reach a tr b : JInv a -> jreach cf wg a tr b -> JInv b.
Proof. intros Ha H. apply (jreach_inv cf wg JInv JInv_step a tr b Ha H). Qed.

(* the start of a Work: no step is Done yet, nothing has been stat()ed *)
Lemma JInv_init r0 w0 :
  RInv cf decls r0 -> rs_ctl r0 = CIdle -> (forall b, get_state (rs_bs r0) b <> Done) ->
  ws_cache w0 = [] -> JInv (jinit r0 w0).
Proof.
  intros R Hc Hd Hca. constructor; cbn [jinit j_r j_w j_aw j_run].
  - exact R.
  - rewrite Hc. reflexivity.
  - intros x [].
  - intros n v Hv. rewrite Hca in Hv. discriminate.
  - intros b Eb. destruct (Hd b Eb).
  - unfold focus_ok. rewrite Hc. exact I.
Qed.

End JInv.
