(* C03 / C09: the verdict of check_build_dirty. *)
From Coq Require Import String.
From N2 Require Import Model.All Proofs.DbSpec Proofs.WorldSpec Proofs.WorldBase Proofs.WorldDeps.
From Coq Require Import Lia.

(* ------------------------------------------------------------------------------------ *)
(* check_build_dirty, taken apart *)

Definition verdict_tail (w' : wstate) (b : nat) (bd : wbuild) : dirty_result :=
  match assoc_nat b (ws_hashes w') with
  | None => DDirty 2
  | Some prev =>
    match manifest_of w' bd (disc_of w' b) with
    | None => DError (bs "no state")
    | Some m => if (hash_build m =? prev)%N then DClean else DDirty 3
    end
  end.

Lemma check_inv g w b bd c w' r : wb_cmdline bd = Some c -> check_build_dirty g w b bd = (w', r) ->
  exists wa r1, ensure_inputs g w (wb_dirtying bd) = (wa, r1) /\
    match r1 with
    | inr n => w' = wa /\ r = DError (bs "used generated file " ++ n)
    | inl (Some n) => w' = wa /\
        r = match producer_of g n with
            | None => DError (bs "input " ++ n ++ bs " missing")
            | Some _ => DDirty 1
            end
    | inl None =>
      exists wb r2, ensure_inputs g wa (disc_of wa b) = (wb, r2) /\
        match r2 with
        | inr n => w' = wb /\ r = DError (bs "used generated file " ++ n)
        | inl (Some _) => w' = wb /\ r = DDirty 1
        | inl None =>
          exists mo, stat_all wb (wb_outs bd) false = (w', mo) /\
            r = if mo then DDirty 1 else verdict_tail w' b bd
        end
    end.
Proof.
  intros Hc. unfold check_build_dirty. rewrite Hc.
  destruct (ensure_inputs g w (wb_dirtying bd)) as [wa r1] eqn:E1.
  intros E. exists wa, r1. split; [reflexivity|].
  destruct r1 as [[n|]|n].
  - destruct (producer_of g n); injection E as <- <-; now split.
  - destruct (ensure_inputs g wa (disc_of wa b)) as [wb r2] eqn:E2.
    exists wb, r2. split; [reflexivity|].
    destruct r2 as [[n|]|n].
    + injection E as <- <-. now split.
    + destruct (stat_all wb (wb_outs bd) false) as [wc mo] eqn:E3.
      destruct mo.
      * injection E as <- <-. exists true. now split.
      * destruct (assoc_nat b (ws_hashes wc)) as [prev|] eqn:Ea.
        -- destruct (manifest_of wc bd (disc_of wc b)) as [m|] eqn:Em.
           ++ destruct (hash_build m =? prev)%N eqn:Eh; injection E as <- <-; exists false;
                (split; [reflexivity|]); unfold verdict_tail; now rewrite Ea, Em, Eh.
           ++ injection E as <- <-. exists false. split; [reflexivity|]. unfold verdict_tail. now rewrite Ea, Em.
        -- injection E as <- <-. exists false. split; [reflexivity|]. unfold verdict_tail. now rewrite Ea.
    + injection E as <- <-. now split.
  - injection E as <- <-. now split.
Qed.

(* ------------------------------------------------------------------------------------ *)
(* C03.1 *)

Lemma phony_never_dirty g w b bd : wb_cmdline bd = None -> snd (check_build_dirty g w b bd) = DClean.
Proof.
  intros Hc. unfold check_build_dirty. rewrite Hc.
  now destruct (stat_all w (wb_outs bd) false).
Qed.

Lemma runs_only_if_changed : forall g w b bd w' why,
  check_build_dirty g w b bd = (w', DDirty why) ->
  (why = 1%N /\ exists n, In n (wb_dirtying bd ++ disc_of w b ++ wb_outs bd) /\
      cache_get (ws_cache w') n = Some None /\
      (cache_get (ws_cache w) n = Some None \/ fs_get (ws_fs w) n = None)) \/
  (why = 2%N /\ assoc_nat b (ws_hashes w) = None) \/
  (why = 3%N /\ exists m prev, manifest_of w' bd (disc_of w b) = Some m /\
      assoc_nat b (ws_hashes w) = Some prev /\ hash_build m <> prev).
Proof.
  intros g w b bd w' why E.
  destruct (wb_cmdline bd) as [c|] eqn:Hc.
  2:{ pose proof (phony_never_dirty g w b bd Hc) as H. rewrite E in H. discriminate. }
  destruct (check_inv _ _ _ _ _ _ _ Hc E) as (wa & r1 & E1 & H1).
  apply ensure_inputs_spec in E1 as (X1 & _ & S1).
  destruct r1 as [[n|]|n].
  - destruct H1 as (-> & Hr). destruct (producer_of g n); [|discriminate]. injection Hr as <-.
    left. split; [reflexivity|]. exists n. destruct S1 as (Hin & Hm).
    split; [apply in_or_app; now left|]. split; [assumption|]. eapply cache_ext_missing; eassumption.
  - destruct H1 as (wb & r2 & E2 & H2).
    apply ensure_inputs_spec in E2 as (X2 & _ & S2).
    pose proof (cache_ext_trans _ _ _ X1 X2) as X12.
    rewrite (cache_ext_disc_of _ _ b X1) in S2.
    destruct r2 as [[n|]|n].
    + destruct H2 as (-> & Hr). injection Hr as <-.
      left. split; [reflexivity|]. exists n. destruct S2 as (Hin & Hm).
      split; [apply in_or_app; right; apply in_or_app; now left|]. split; [assumption|].
      eapply cache_ext_missing; eassumption.
    + destruct H2 as (mo & E3 & Hr).
      apply stat_all_spec in E3 as (X3 & Hmo & S3).
      pose proof (cache_ext_trans _ _ _ X12 X3) as X.
      assert (F : ws_fs wb = ws_fs w) by apply X12.
      destruct mo.
      * injection Hr as <-. left. split; [reflexivity|].
        cbn [orb] in Hmo. symmetry in Hmo. apply existsb_fs_missing_true in Hmo as (n & Hin & Hn).
        exists n. split; [apply in_or_app; right; apply in_or_app; now right|].
        split; [rewrite (S3 n Hin), Hn; reflexivity|]. right. now rewrite <- F.
      * unfold verdict_tail in Hr.
        assert (Hh : ws_hashes w' = ws_hashes w) by apply X. rewrite Hh in Hr.
        rewrite (cache_ext_disc_of _ _ b X) in Hr.
        destruct (assoc_nat b (ws_hashes w)) as [prev|].
        -- destruct (manifest_of w' bd (disc_of w b)) as [m|]; [|discriminate].
           destruct (hash_build m =? prev)%N eqn:Eh; [discriminate|]. injection Hr as <-.
           right. right. split; [reflexivity|]. exists m, prev. repeat split. now apply N.eqb_neq.
        -- injection Hr as <-. right. left. now split.
    + destruct H2 as (_ & Hr). discriminate.
  - destruct H1 as (_ & Hr). discriminate.
Qed.

(* ------------------------------------------------------------------------------------ *)
(* C03.2 *)

Lemma manifest_ignores_order_only w bd bd' d : same_manifest_parts bd bd' ->
  manifest_of w bd d = manifest_of w bd' d.
Proof. intros (H1 & H2 & H3 & H4). unfold manifest_of. now rewrite H1, H2, H3, H4. Qed.

Definition cbd_core (g : wgraph) (w : wstate) (b : nat)
           (cmd : option bytes) (dirtying outs : list bytes) (rsp : option (bytes * bytes))
  : wstate * dirty_result :=
  match cmd with
  | None => let '(w, _) := stat_all w outs false in (w, DClean)
  | Some _ =>
    let '(w, r1) := ensure_inputs g w dirtying in
    match r1 with
    | inr n => (w, DError (bs "used generated file " ++ n))
    | inl (Some n) =>
      match producer_of g n with
      | None => (w, DError (bs "input " ++ n ++ bs " missing"))
      | Some _ => (w, DDirty 1)
      end
    | inl None =>
      let '(w, r2) := ensure_inputs g w (disc_of w b) in
      match r2 with
      | inr n => (w, DError (bs "used generated file " ++ n))
      | inl (Some _) => (w, DDirty 1)
      | inl None =>
        let '(w, missing) := stat_all w outs false in
        if missing then (w, DDirty 1) else
        match assoc_nat b (ws_hashes w) with
        | None => (w, DDirty 2)
        | Some prev =>
          match (match with_mtimes (ws_cache w) dirtying, with_mtimes (ws_cache w) (disc_of w b),
                       with_mtimes (ws_cache w) outs with
                 | Some i, Some d, Some o =>
                   Some (mkManifest i d (match cmd with Some c => c | None => [] end) rsp o)
                 | _, _, _ => None
                 end) with
          | None => (w, DError (bs "no state"))
          | Some m => if (hash_build m =? prev)%N then (w, DClean) else (w, DDirty 3)
          end
        end
      end
    end
  end.

Lemma check_build_dirty_core g w b bd :
  check_build_dirty g w b bd = cbd_core g w b (wb_cmdline bd) (wb_dirtying bd) (wb_outs bd) (wb_rsp bd).
Proof. unfold check_build_dirty, cbd_core, manifest_of. destruct (wb_cmdline bd); reflexivity. Qed.

Lemma verdict_ignores_order_only : forall g w b bd bd', same_manifest_parts bd bd' ->
  check_build_dirty g w b bd = check_build_dirty g w b bd' /\
  forall w0 d, manifest_of w0 bd d = manifest_of w0 bd' d.
Proof.
  intros g w b bd bd' H. split; [|intros; now apply manifest_ignores_order_only].
  destruct H as (H1 & H2 & H3 & H4). rewrite !check_build_dirty_core. now rewrite H1, H2, H3, H4.
Qed.

Lemma verdict_graph_local : forall g1 g2 w b bd,
  (forall n, In n (wb_dirtying bd ++ disc_of w b) -> (producer_of g1 n = None <-> producer_of g2 n = None)) ->
  check_build_dirty g1 w b bd = check_build_dirty g2 w b bd.
Proof.
  intros g1 g2 w b bd H. unfold check_build_dirty.
  destruct (wb_cmdline bd) as [c|]; [|reflexivity].
  rewrite (ensure_inputs_graph g1 g2 (wb_dirtying bd)) by (intros n Hn; apply H, in_or_app; now left).
  destruct (ensure_inputs g2 w (wb_dirtying bd)) as [wa r1] eqn:E1.
  apply ensure_inputs_spec in E1 as (X1 & _ & S1).
  destruct r1 as [[n|]|n]; [| |reflexivity].
  - destruct S1 as (Hin & _). specialize (H n (in_or_app _ _ _ (or_introl Hin))).
    destruct (producer_of g1 n) as [p1|], (producer_of g2 n) as [p2|]; try reflexivity.
    + destruct H as [_ H]. specialize (H eq_refl). discriminate.
    + destruct H as [H _]. specialize (H eq_refl). discriminate.
  - rewrite (ensure_inputs_graph g1 g2 (disc_of wa b)); [reflexivity|].
    intros n Hn. apply H, in_or_app. right. now rewrite <- (cache_ext_disc_of _ _ b X1).
Qed.

(* ------------------------------------------------------------------------------------ *)
(* C09.10: a missing discovered dependency makes the step dirty, it is not an error *)

Definition input_ready (g : wgraph) (w : wstate) (n : bytes) : Prop :=
  (exists t, cache_get (ws_cache w) n = Some (Some t)) \/
  (cache_get (ws_cache w) n = None /\ producer_of g n = None /\ fs_get (ws_fs w) n <> None).

Lemma ensure_inputs_ready g : forall names w, (forall n, In n names -> input_ready g w n) ->
  exists w', ensure_inputs g w names = (w', inl None).
Proof.
  induction names as [|n names IH]; intros w H; cbn [ensure_inputs]; [now exists w|].
  assert (H' : forall k, In k names -> input_ready g w k) by (intros k Hk; apply H; now right).
  destruct (H n (or_introl eq_refl)) as [(t & Ec)|(Ec & Ep & Hf)]; rewrite Ec.
  - now apply IH.
  - rewrite Ep. destruct (stat w n) as [w1 v] eqn:Es.
    assert (Hw1 : w1 = fst (stat w n)) by now rewrite Es.
    assert (Hv : v = fs_get (ws_fs w) n) by (change v with (snd (w1, v)); now rewrite <- Es).
    destruct v as [t|]; [|congruence].
    apply IH. intros k Hk. destruct (H' k Hk) as [(t' & Ek)|(Ek & Epk & Hfk)].
    + left. exists t'. rewrite Hw1. now apply stat_grow.
    + destruct (bytes_eq_dec k n) as [->|Hne].
      * left. exists t. rewrite Hw1, stat_cached. now rewrite <- Hv.
      * right. rewrite Hw1. unfold stat. cbn [fst ws_cache ws_fs].
        rewrite cache_get_set_other by assumption. now repeat split.
Qed.

Lemma ensure_inputs_no_error g names w w' r : stated_generated g w names ->
  ensure_inputs g w names = (w', r) -> forall n, r <> inr n.
Proof.
  intros Hs E n ->. apply ensure_inputs_spec in E as (X & G & Hin & Hc & Hp).
  apply (cache_ext_stated g w w' names X Hs n Hin Hp Hc).
Qed.

Lemma ensure_inputs_missing g names w w' r d : stated_generated g w names ->
  In d names -> fs_get (ws_fs w) d = None ->
  cache_get (ws_cache w) d = None \/ cache_get (ws_cache w) d = Some None ->
  ensure_inputs g w names = (w', r) -> exists n, r = inl (Some n).
Proof.
  intros Hs Hin Hf Hc E. pose proof (ensure_inputs_no_error _ _ _ _ _ Hs E) as Hne.
  destruct r as [[n|]|n]; [now exists n | | now destruct (Hne n)].
  exfalso. apply ensure_inputs_spec in E as (X & _ & S). destruct (S d Hin) as (t & Ht).
  destruct X as (_ & _ & _ & _ & _ & C). destruct (C d) as [Ed|Ed]; rewrite Ed in Ht.
  - destruct Hc as [Hc|Hc]; rewrite Hc in Ht; discriminate.
  - rewrite Hf in Ht. discriminate.
Qed.

Lemma missing_dep_is_dirty_not_error : forall g w b bd d,
  wb_cmdline bd <> None ->
  (forall n, In n (wb_dirtying bd) -> input_ready g w n) ->
  stated_generated g w (disc_of w b) ->
  In d (disc_of w b) -> fs_get (ws_fs w) d = None ->
  cache_get (ws_cache w) d = None \/ cache_get (ws_cache w) d = Some None ->
  snd (check_build_dirty g w b bd) = DDirty 1.
Proof.
  intros g w b bd d Hc Hin Hs Hd Hf Hcd.
  destruct (wb_cmdline bd) as [c|] eqn:Ec; [|congruence].
  destruct (check_build_dirty g w b bd) as [w' r] eqn:E. cbn [snd].
  destruct (check_inv _ _ _ _ _ _ _ Ec E) as (wa & r1 & E1 & H1).
  destruct (ensure_inputs_ready g _ w Hin) as (wa' & E1'). rewrite E1' in E1. injection E1 as -> <-.
  destruct H1 as (wb & r2 & E2 & H2).
  apply ensure_inputs_spec in E1' as (X1 & _ & _).
  rewrite (cache_ext_disc_of _ _ b X1) in E2.
  assert (F1 : ws_fs wa = ws_fs w) by apply X1.
  assert (Hcd' : cache_get (ws_cache wa) d = None \/ cache_get (ws_cache wa) d = Some None).
  { destruct X1 as (_ & _ & _ & _ & _ & C). destruct (C d) as [Ed|Ed]; rewrite Ed; [assumption|].
    right. now rewrite Hf. }
  destruct (ensure_inputs_missing g _ wa wb r2 d (cache_ext_stated _ _ _ _ X1 Hs) Hd) as (n & ->);
    [now rewrite F1 | assumption | assumption |].
  now destruct H2.
Qed.

(* ------------------------------------------------------------------------------------ *)
(* the manifest read from the tree *)

Definition fs_manifest (fs : fsmap) (bd : wbuild) (disc : list bytes) : option manifest :=
  match fs_mtimes fs (wb_dirtying bd), fs_mtimes fs disc, fs_mtimes fs (wb_outs bd) with
  | Some i, Some d, Some o =>
    Some (mkManifest i d (match wb_cmdline bd with Some c => c | None => [] end) (wb_rsp bd) o)
  | _, _, _ => None
  end.

Lemma manifest_of_fs w fs bd disc :
  (forall n, In n (wb_dirtying bd ++ disc ++ wb_outs bd) -> cache_get (ws_cache w) n = Some (fs_get fs n)) ->
  manifest_of w bd disc = fs_manifest fs bd disc.
Proof.
  intros H. unfold manifest_of, fs_manifest.
  rewrite (with_mtimes_fs _ fs (wb_dirtying bd)) by (intros n Hn; apply H, in_or_app; now left).
  rewrite (with_mtimes_fs _ fs disc) by (intros n Hn; apply H, in_or_app; right; apply in_or_app; now left).
  rewrite (with_mtimes_fs _ fs (wb_outs bd)) by (intros n Hn; apply H, in_or_app; right; apply in_or_app; now right).
  reflexivity.
Qed.

(* what a successful record looked at *)
Lemma record_some_inv w b bd reported w1 h : record_finished w b bd reported = Ok (w1, Some h) ->
  exists deps m,
    disc_of w1 b = deps /\ ws_fs w1 = ws_fs w /\ ws_hashes w1 = ws_hashes w /\
    (forall n, In n (wb_dirtying bd ++ deps ++ wb_outs bd) -> fs_get (ws_fs w) n <> None) /\
    (forall n, In n (wb_dirtying bd ++ deps ++ wb_outs bd) ->
       cache_get (ws_cache w1) n = Some (fs_get (ws_fs w) n)) /\
    manifest_of w1 bd deps = Some m /\ hash_build m = h /\ fs_manifest (ws_fs w) bd deps = Some m.
Proof.
  intros E. pose proof (replace_wholesale _ _ _ _ _ _ E) as (Hk & _).
  destruct (record_finished_inv _ _ _ _ _ _ E) as (deps & wa & mi & wb & mo & Hk' & Ea & Eb & Hr).
  rewrite Hk in Hk'. injection Hk' as Hdeps.
  destruct Hr as [(_ & _ & ?)|(Hm & m & bytes & tbl & Hmf & Hwb & Hw1 & Hh)]; [discriminate|].
  injection Hh as ->.
  apply stat_all_spec in Ea as (Xa & Hmi & Sa). apply stat_all_spec in Eb as (Xb & Hmo & Sb).
  apply orb_false_elim in Hm as (-> & ->). cbn [orb] in Hmi, Hmo. symmetry in Hmi, Hmo.
  rewrite existsb_fs_missing_false in Hmi, Hmo.
  pose proof (cache_ext_trans _ _ _ Xa Xb) as X.
  assert (Fa : ws_fs wa = ws_fs w) by apply Xa.
  assert (Fb : ws_fs wb = ws_fs w) by apply X.
  assert (Hb : ws_hashes wb = ws_hashes w) by apply X.
  cbn [ws_fs with_disc] in Sa, Hmi. rewrite Fa in Sb, Hmo.
  assert (Hc : forall n, In n (wb_dirtying bd ++ deps ++ wb_outs bd) ->
               cache_get (ws_cache wb) n = Some (fs_get (ws_fs w) n)).
  { intros n Hn. rewrite app_assoc in Hn. apply in_app_or in Hn as [Hn|Hn]; [|now apply Sb].
    destruct Xb as (_ & _ & _ & _ & _ & C). destruct (C n) as [En|En]; rewrite En.
    - now apply Sa.
    - now rewrite Fa. }
  assert (Hc1 : ws_cache w1 = ws_cache wb) by now rewrite Hw1.
  exists deps, m. split; [assumption|]. split; [now rewrite Hw1|]. split; [now rewrite Hw1|].
  split; [|split; [|split; [|split]]].
  - intros n Hn. rewrite app_assoc in Hn. apply in_app_or in Hn as [Hn|Hn]; [now apply Hmi | now apply Hmo].
  - now rewrite Hc1.
  - unfold manifest_of in *. now rewrite Hc1.
  - reflexivity.
  - rewrite <- Hmf. symmetry. now apply manifest_of_fs.
Qed.

(* ------------------------------------------------------------------------------------ *)
(* the verdict computed from the tree, for a Work whose cache is consistent *)

Lemma present_app_l w a b : present w (a ++ b) -> present w a.
Proof. intros H n Hn. apply H, in_or_app. now left. Qed.
Lemma present_app_r w a b : present w (a ++ b) -> present w b.
Proof. intros H n Hn. apply H, in_or_app. now right. Qed.
Lemma stated_app_l g w a b : stated_generated g w (a ++ b) -> stated_generated g w a.
Proof. intros H n Hn. apply H, in_or_app. now left. Qed.
Lemma stated_app_r g w a b : stated_generated g w (a ++ b) -> stated_generated g w b.
Proof. intros H n Hn. apply H, in_or_app. now right. Qed.

Lemma check_from_fs g w b bd c : wb_cmdline bd = Some c -> cache_consistent w ->
  present w (wb_dirtying bd ++ disc_of w b ++ wb_outs bd) ->
  stated_generated g w (wb_dirtying bd ++ disc_of w b) ->
  exists m, fs_manifest (ws_fs w) bd (disc_of w b) = Some m /\
    forall w' r, check_build_dirty g w b bd = (w', r) ->
      cache_ext w w' /\ manifest_of w' bd (disc_of w b) = Some m /\
      r = match assoc_nat b (ws_hashes w) with
          | None => DDirty 2
          | Some prev => if (hash_build m =? prev)%N then DClean else DDirty 3
          end.
Proof.
  intros Hc Hcons Hp Hs.
  assert (Hm : exists m, fs_manifest (ws_fs w) bd (disc_of w b) = Some m).
  { unfold fs_manifest.
    destruct (fs_mtimes_some (ws_fs w) (wb_dirtying bd)) as (i & ->); [apply (present_app_l _ _ _ Hp)|].
    destruct (fs_mtimes_some (ws_fs w) (disc_of w b)) as (d & ->);
      [apply (present_app_l _ _ _ (present_app_r _ _ _ Hp))|].
    destruct (fs_mtimes_some (ws_fs w) (wb_outs bd)) as (o & ->);
      [apply (present_app_r _ _ _ (present_app_r _ _ _ Hp))|].
    now eexists. }
  destruct Hm as (m & Hm). exists m. split; [assumption|]. intros w' r E.
  destruct (check_inv _ _ _ _ _ _ _ Hc E) as (wa & r1 & E1 & H1).
  destruct (ensure_inputs_ok g (wb_dirtying bd) w Hcons (present_app_l _ _ _ Hp) (stated_app_l _ _ _ _ Hs))
    as (wa' & E1'). rewrite E1' in E1. injection E1 as -> <-.
  apply ensure_inputs_spec in E1' as (X1 & _ & S1).
  destruct H1 as (wb & r2 & E2 & H2).
  rewrite (cache_ext_disc_of _ _ b X1) in E2.
  destruct (ensure_inputs_ok g (disc_of w b) wa) as (wb' & E2').
  { eapply cache_ext_consistent; eassumption. }
  { eapply cache_ext_present; [eassumption|]. apply (present_app_l _ _ _ (present_app_r _ _ _ Hp)). }
  { eapply cache_ext_stated; [eassumption|]. apply (stated_app_r _ _ _ _ Hs). }
  rewrite E2' in E2. injection E2 as -> <-.
  apply ensure_inputs_spec in E2' as (X2 & _ & S2).
  destruct H2 as (mo & E3 & Hr).
  apply stat_all_spec in E3 as (X3 & Hmo & S3).
  pose proof (cache_ext_trans _ _ _ X1 X2) as X12.
  pose proof (cache_ext_trans _ _ _ X12 X3) as X.
  assert (F12 : ws_fs wb = ws_fs w) by apply X12.
  assert (Hmo' : mo = false).
  { rewrite Hmo. cbn [orb]. apply existsb_fs_missing_false. rewrite F12.
    apply (present_app_r _ _ _ (present_app_r _ _ _ Hp)). }
  rewrite Hmo' in Hr.
  pose proof (cache_ext_consistent _ _ X Hcons) as Hcons'.
  assert (F : ws_fs w' = ws_fs w) by apply X.
  assert (Hcached : forall n, In n (wb_dirtying bd ++ disc_of w b ++ wb_outs bd) ->
                    cache_get (ws_cache w') n = Some (fs_get (ws_fs w) n)).
  { intros n Hn.
    assert (Hne : cache_get (ws_cache w') n <> None).
    { apply in_app_or in Hn as [Hn|Hn]; [|apply in_app_or in Hn as [Hn|Hn]].
      - apply (cache_ext_cached wa w' n (cache_ext_trans _ _ _ X2 X3)).
        destruct (S1 n Hn) as (t & ->). discriminate.
      - apply (cache_ext_cached wb w' n X3). destruct (S2 n Hn) as (t & ->). discriminate.
      - rewrite (S3 n Hn). discriminate. }
    destruct (cache_get (ws_cache w') n) as [v|] eqn:Ev; [|congruence].
    apply Hcons' in Ev. now rewrite Ev, F. }
  assert (Hmf : manifest_of w' bd (disc_of w b) = Some m)
    by (rewrite <- Hm; now apply manifest_of_fs).
  split; [assumption|]. split; [assumption|].
  unfold verdict_tail in Hr. rewrite (cache_ext_disc_of _ _ b X) in Hr. rewrite Hmf in Hr.
  assert (Hh : ws_hashes w' = ws_hashes w) by apply X. rewrite Hh in Hr. exact Hr.
Qed.

(* C03.3 *)
Lemma clean_after_record : forall g w b bd reported w1 h w2,
  record_finished w b bd reported = Ok (w1, Some h) -> wb_cmdline bd <> None ->
  ws_fs w2 = ws_fs w1 -> cache_consistent w2 -> assoc_nat b (ws_hashes w2) = Some h ->
  disc_of w2 b = disc_of w1 b -> stated_generated g w2 (wb_dirtying bd ++ disc_of w1 b) ->
  snd (check_build_dirty g w2 b bd) = DClean.
Proof.
  intros g w b bd reported w1 h w2 E Hc Hf Hcons Hh Hd Hs.
  destruct (wb_cmdline bd) as [c|] eqn:Ec; [|congruence].
  destruct (record_some_inv _ _ _ _ _ _ E) as (deps & m & Hdeps & F1 & _ & Hp & _ & _ & Hhm & Hfm).
  rewrite Hdeps in Hd, Hs.
  destruct (check_from_fs g w2 b bd c Ec Hcons) as (m' & Hm' & Hv).
  - rewrite Hd. intros n Hn. rewrite Hf, F1. now apply Hp.
  - now rewrite Hd.
  - rewrite Hd, Hf, F1, Hfm in Hm'. injection Hm' as <-.
    destruct (check_build_dirty g w2 b bd) as [w' r] eqn:Ecb. cbn [snd].
    destruct (Hv w' r eq_refl) as (_ & _ & ->). rewrite Hh, Hhm. now rewrite N.eqb_refl.
Qed.

Lemma adopt_counts_as_up_to_date : forall g w b bd w1 h w2,
  record_finished w b bd None = Ok (w1, Some h) -> wb_cmdline bd <> None ->
  ws_fs w2 = ws_fs w1 -> cache_consistent w2 -> assoc_nat b (ws_hashes w2) = Some h ->
  disc_of w2 b = disc_of w1 b -> stated_generated g w2 (wb_dirtying bd ++ disc_of w1 b) ->
  snd (check_build_dirty g w2 b bd) = DClean /\ disc_of w1 b = [].
Proof.
  intros g w b bd w1 h w2 E Hc Hf Hcons Hh Hd Hs. split.
  - eapply clean_after_record; eassumption.
  - pose proof (replace_wholesale _ _ _ _ _ _ E) as (Hk & _). cbn in Hk. now injection Hk.
Qed.
