(* Instances for Props/C03Local.v: the premises of the local World theorems hold in states whose
   cache is NOT globally consistent (an unrelated stale entry), on the data of
   AuditNonVacuousWorld.v. *)
From Coq Require Import String.
From N2 Require Import Model.All Proofs.DbSpec Proofs.WorldSpec.
From N2 Require Import Proofs.JointSpec Proofs.JointExample Proofs.AuditNonVacuousWorld.

Definition with_stale (w : wstate) : wstate :=
  mkW (ws_fs w) ((bs "unrelated", Some (9%N, 9%N)) :: ws_cache w) (ws_disc w) (ws_hashes w) (ws_tbl w) (ws_log w).

Lemma with_stale_inconsistent w : fs_get (ws_fs w) (bs "unrelated") = None -> ~ cache_consistent (with_stale w).
Proof.
  intros F C. specialize (C (bs "unrelated") (Some (9%N, 9%N))). cbn [with_stale ws_cache ws_fs] in C.
  rewrite F in C. assert (E : cache_get ((bs "unrelated", Some (9%N, 9%N)) :: ws_cache w) (bs "unrelated") = Some (Some (9%N, 9%N)))
    by (vm_compute; reflexivity).
  specialize (C E). discriminate C.
Qed.

Ltac names3 Hn Hv :=
  vm_compute in Hn; repeat (destruct Hn as [<-|Hn]; [vm_compute in Hv; discriminate Hv|]); contradiction.

Example clean_after_record_local_example :
  exists g w b bd reported w1 h w2,
    record_finished w b bd reported = Ok (w1, Some h) /\ wb_cmdline bd <> None /\
    ws_fs w2 = ws_fs w1 /\
    (forall n, In n (wb_dirtying bd ++ disc_of w2 b ++ wb_outs bd) ->
       forall v, cache_get (ws_cache w2) n = Some v -> v = fs_get (ws_fs w2) n) /\
    assoc_nat b (ws_hashes w2) = Some h /\
    disc_of w2 b = disc_of w1 b /\ stated_generated g w2 (wb_dirtying bd ++ disc_of w1 b) /\
    ~ cache_consistent w2 /\ disc_of w1 b = [bs "h"].
Proof.
  exists ex_wg, wA, 0, bd0, rep1, w1, h1, (with_stale wL).
  split; [exact rec1_eq|]. split; [discriminate|]. split; [vm_compute; reflexivity|].
  split; [intros n Hn v Hv; names3 Hn Hv|]. split; [vm_compute; reflexivity|].
  split; [vm_compute; reflexivity|]. split.
  - intros n Hin Hp. exfalso. apply Hp. vm_compute in Hin. destruct Hin as [<-|[<-|[]]]; reflexivity.
  - split; [apply with_stale_inconsistent; vm_compute; reflexivity | vm_compute; reflexivity].
Qed.

Example adopt_counts_as_up_to_date_local_example :
  exists g w b bd w1 h w2,
    record_finished w b bd None = Ok (w1, Some h) /\ wb_cmdline bd <> None /\
    ws_fs w2 = ws_fs w1 /\
    (forall n, In n (wb_dirtying bd ++ disc_of w2 b ++ wb_outs bd) ->
       forall v, cache_get (ws_cache w2) n = Some v -> v = fs_get (ws_fs w2) n) /\
    assoc_nat b (ws_hashes w2) = Some h /\
    disc_of w2 b = disc_of w1 b /\ stated_generated g w2 (wb_dirtying bd ++ disc_of w1 b) /\
    ~ cache_consistent w2 /\ disc_of w b = [bs "old"].
Proof.
  exists ex_wg, wA, 0, bd0, wN, hN, (with_stale wNL).
  split; [vm_compute; reflexivity|]. split; [discriminate|]. split; [vm_compute; reflexivity|].
  split; [intros n Hn v Hv; names3 Hn Hv|]. split; [vm_compute; reflexivity|].
  split; [vm_compute; reflexivity|]. split.
  - intros n Hin Hp. exfalso. apply Hp. vm_compute in Hin. destruct Hin as [<-|[]]; reflexivity.
  - split; [apply with_stale_inconsistent; vm_compute; reflexivity | vm_compute; reflexivity].
Qed.

Example never_skips_changed_tree_local_example :
  exists g w b bd reported w1 h bd' w2 w2' r m0 n t0,
    record_finished w b bd reported = Ok (w1, Some h) /\
    manifest_of w1 bd (disc_of w1 b) = Some m0 /\ wf_manifest m0 = true /\
    check_build_dirty g w2 b bd' = (w2', r) /\ wb_cmdline bd' <> None /\
    assoc_nat b (ws_hashes w2) = Some h /\ wb_rsp bd' = wb_rsp bd /\
    (forall m, manifest_of w2' bd' (disc_of w2 b) = Some m -> wf_manifest m = true /\ no_collision m m0) /\
    (forall n, In n (wb_dirtying bd' ++ disc_of w2 b ++ wb_outs bd') ->
       forall v, cache_get (ws_cache w2) n = Some v -> v = fs_get (ws_fs w2) n) /\
    In (n, t0) (mf_ins m0 ++ mf_discovered m0 ++ mf_outs m0) /\
    fs_get (ws_fs w2) n <> Some t0 /\
    ~ cache_consistent w2 /\ r = DDirty 3.
Proof.
  exists ex_wg, wA, 0, bd0, rep1, w1, h1, bd0, (with_stale wB). do 2 eexists. exists m0, (bs "a"), (1%N, 0%N).
  split; [exact rec1_eq|]. split; [exact m0_eq|]. split; [vm_compute; reflexivity|].
  split; [vm_compute; reflexivity|]. split; [discriminate|]. split; [vm_compute; reflexivity|].
  split; [reflexivity|].
  split.
  - intros m H. vm_compute in H. injection H as <-. split; [vm_compute; reflexivity|].
    intros Hh. exfalso. vm_compute in Hh. discriminate Hh.
  - split; [intros n Hn v Hv; names3 Hn Hv|].
    split; [vm_compute; tauto|]. split; [vm_compute; discriminate|].
    split; [apply with_stale_inconsistent; vm_compute; reflexivity | reflexivity].
Qed.

(* the hypotheses of the two-phase theorem on a first phase that ran and completed two steps: the
   second phase starts with both steps Done - a start the old [_reachable] statements exclude *)
From N2 Require Import Proofs.SchedSpec Proofs.AuditNonVacuousJoint.

Example two_phases_example :
  exists cf decls wg r0 w0 tr1 r1 w1 s fl tr2 r2 w2,
    graph_wf (cf_graph cf) /\ graphs_agree (cf_graph cf) wg /\
    reachable cf decls r0 /\ rs_ctl r0 = CIdle /\
    (forall b o, get_state (rs_bs r0) b = Done -> In o (wb_outs (get_wbuild wg b)) ->
                 cache_get (ws_cache w0) o = Some (fs_get (ws_fs w0) o)) /\
    (forall n v, cache_get (ws_cache w0) n = Some v -> v = fs_get (ws_fs w0) n \/
       exists p, producer_of wg n = Some p /\ In n (wb_outs (get_wbuild wg p)) /\
                 (get_state (rs_bs r0) p = Running \/ get_state (rs_bs r0) p = Failed)) /\
    jaccepted cf wg r0 w0 tr1 r1 w1 /\ writes_ok wg [] tr1 /\
    rs_ctl r1 = CReturned (Some true) /\ wanted (cf_graph cf) (rs_bs r1) s /\
    jaccepted cf wg (run_init s fl) w1 tr2 r2 w2 /\ writes_ok wg [] tr2 /\
    get_state (rs_bs (run_init s fl)) 0 = Done /\ get_state (rs_bs (run_init s fl)) 1 = Done /\
    rs_tasks_run r1 = 2 /\ ws_cache w1 <> [].
Proof.
  exists j_cf, [], j_wg, (run_init j_s None), j_w0, t_c, (jr t_c), (jw t_c), (rs_bs (jr t_c)), None, [],
         (run_init (rs_bs (jr t_c)) None), (jw t_c).
  split; [exact j_graph_wf|]. split; [exact j_agree|]. split; [exact j_r0_reachable|]. split; [reflexivity|].
  split; [intros b o Eb; destruct (j_r0_no_done b Eb)|].
  split; [intros n v Hv; vm_compute in Hv; discriminate Hv|].
  split; [exact j_acc_c|]. split; [exact t_c_writes|]. split; [exact (proj1 j_run_complete)|].
  split; [apply w_refl|]. split; [split; reflexivity|]. split; [exact I|].
  split; [vm_compute; reflexivity|]. split; [vm_compute; reflexivity|].
  split; [exact (proj2 j_run_complete) | vm_compute; discriminate].
Qed.
