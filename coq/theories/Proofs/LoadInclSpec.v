(* C10, loader half, manifests WITH include/subninja: vocabulary (definitions only).

   1. [file_stmts text vs]      the loader's Parser::read calls on a text, as a function: the
                                statements (each with the file-level variables that came back with
                                it) and the first result that is not a statement.
   2. [run_stmts_files]         the declarative semantics of a statement sequence, given the file
                                map: [run_stmts] extended to include/subninja.  A child file is
                                read with the variables in force at the include line (for `include`
                                and `subninja` alike: finding F11), its steps, rules, pools and
                                defaults go to the SAME loader, in order; the statements that follow
                                the line in the parent keep the variables the PARSER attached to
                                them, which are a function of the parent's text alone.
   3. [flat_file] / [run_flat]  the same manifest as ONE flat sequence of items: every statement
                                tagged with its file, a child's items spliced in right behind the
                                include line; [flat_file] does not look at the loader at all. *)
From Coq Require Import String.
From N2 Require Import Model.All Proofs.EvalScope Proofs.GraphDedup Proofs.GraphAddBuild Proofs.GraphLoad.
From N2 Require Import Proofs.LoadGraphSpec Proofs.LoadGraphBuild Proofs.LoadGraphRun Proofs.LoadGraphNames.

(* ------------------------------------------------------------------------------------ *)
(* 1. the reads of a text, as a function *)

Fixpoint read_all (buf : bytes) (n : nat) (s : scanner) (vs : vars)
  : list (statement * vars) * sres (option statement * vars) :=
  match n with
  | O => ([], SFuel)
  | S n =>
    match parser_read true (parse_fuel buf) s vs with
    | SOk (Some st, vs1) s1 => let '(sts, r) := read_all buf n s1 vs1 in ((st, vs1) :: sts, r)
    | SOk (None, vs1) s1 => ([], SOk (None, vs1) s1)
    | SErr m o => ([], SErr m o)
    | SPanic x => ([], SPanic x)
    | SOob x => ([], SOob x)
    | SFuel => ([], SFuel)
    end
  end.

Definition file_stmts (text : bytes) (inherited : vars)
  : list (statement * vars) * sres (option statement * vars) :=
  read_all (text ++ [0%N]) (S (length (text ++ [0%N]))) (mkScanner (text ++ [0%N]) 0 1) inherited.

(* ------------------------------------------------------------------------------------ *)
(* 2. include / subninja *)

(* the file an include line names: its path expanded in file scope, canonicalised *)
Definition include_path (p : evalstring) (vs : vars) : outcome bytes :=
  match evaluate [vars_env vs] p with
  | [] => Err (bs "empty path")
  | raw => canon raw
  end.

(* the file is given an id (Loader::path) *)
Definition intern (l : loader) (c : bytes) : loader := fst (id_from_canonical l c).

Definition cycle_text (filename path : bytes) : bytes := filename ++ bs ": " ++ path ++ bs " includes itself".
Definition missing_text (path : bytes) : bytes := bs "read " ++ path ++ bs ": No such file or directory (os error 2)".

(* an include/subninja line read in [filename] while the variables were [vs]; [rec] loads a file:
   files being read, loader, name, content, inherited variables *)
Definition child_step (rec : list bytes -> loader -> bytes -> bytes -> vars -> outcome loader)
           (fs : list (bytes * bytes)) (reading : list bytes) (l : loader) (filename : bytes)
           (p : evalstring) (vs : vars) : outcome loader :=
  do path <- include_path p vs;
  if existsb (bytes_eqb path) reading then Err (cycle_text filename path)
  else match assoc_b path fs with
       | None => Err (missing_text path)
       | Some content => rec (reading ++ [path]) (intern l path) path content vs
       end.

Definition stmt_step_files (rec : list bytes -> loader -> bytes -> bytes -> vars -> outcome loader)
           (fs : list (bytes * bytes)) (reading : list bytes) (l : loader) (filename : bytes)
           (st : statement) (vs : vars) : outcome loader :=
  match st with
  | SInclude p | SSubninja p => child_step rec fs reading l filename p vs
  | _ => stmt_step l filename st vs
  end.

Fixpoint run_stmts_rec (rec : list bytes -> loader -> bytes -> bytes -> vars -> outcome loader)
         (fs : list (bytes * bytes)) (reading : list bytes) (l : loader) (filename : bytes)
         (sts : list (statement * vars)) : outcome loader :=
  match sts with
  | [] => Ok l
  | (st, vs) :: r =>
    do l1 <- stmt_step_files rec fs reading l filename st vs;
    run_stmts_rec rec fs reading l1 filename r
  end.

(* a whole file; [depth] bounds the nesting as in the model (0: Panic 60) *)
Fixpoint run_file (depth : nat) (fs : list (bytes * bytes)) (reading : list bytes) (l : loader)
         (filename text : bytes) (inherited : vars) : outcome loader :=
  match depth with
  | O => Panic 60%N
  | S depth =>
    do l' <- run_stmts_rec (run_file depth fs) fs reading l filename (fst (file_stmts text inherited));
    finish (text ++ [0%N]) filename l' (snd (file_stmts text inherited))
  end.

(* the statements of a file whose children may nest [depth] deep *)
Definition run_stmts_files (depth : nat) (fs : list (bytes * bytes)) (reading : list bytes) (l : loader)
           (filename : bytes) (sts : list (statement * vars)) : outcome loader :=
  run_stmts_rec (run_file depth fs) fs reading l filename sts.

(* ------------------------------------------------------------------------------------ *)
(* 3. the flat view *)

Inductive fitem :=
| FStmt (file : bytes) (st : statement) (vs : vars)   (* a statement of [file]; include lines too *)
| FEnd (vs : vars).                                   (* the end of a file, final variables *)

(* what one item does to the loader: an include line only gives the child file an id *)
Definition fitem_step (l : loader) (it : fitem) : outcome loader :=
  match it with
  | FStmt file st vs =>
    match st with
    | SInclude p | SSubninja p => do c <- include_path p vs; Ok (intern l c)
    | _ => stmt_step l file st vs
    end
  | FEnd vs => Ok (with_builddir l (assoc_b (bs "builddir") vs))
  end.

Fixpoint run_flat (l : loader) (items : list fitem) : outcome loader :=
  match items with
  | [] => Ok l
  | it :: r => do l1 <- fitem_step l it; run_flat l1 r
  end.

(* the items of a statement sequence of [filename]: [None] when an include line names no file, a
   missing file, a file being read, a file that does not parse, or nests too deep *)
Fixpoint flat_stmts_rec (rec : list bytes -> bytes -> bytes -> vars -> option (list fitem))
         (fs : list (bytes * bytes)) (reading : list bytes) (filename : bytes)
         (sts : list (statement * vars)) : option (list fitem) :=
  match sts with
  | [] => Some []
  | (st, vs) :: r =>
    match st with
    | SInclude p | SSubninja p =>
      match include_path p vs with
      | Ok path =>
        if existsb (bytes_eqb path) reading then None
        else match assoc_b path fs with
             | None => None
             | Some content =>
               match rec (reading ++ [path]) path content vs, flat_stmts_rec rec fs reading filename r with
               | Some child, Some tl => Some (FStmt filename st vs :: child ++ tl)
               | _, _ => None
               end
             end
      | _ => None
      end
    | _ => match flat_stmts_rec rec fs reading filename r with
           | Some tl => Some (FStmt filename st vs :: tl)
           | None => None
           end
    end
  end.

Fixpoint flat_file (depth : nat) (fs : list (bytes * bytes)) (reading : list bytes)
         (filename text : bytes) (inherited : vars) : option (list fitem) :=
  match depth with
  | O => None
  | S depth =>
    match snd (file_stmts text inherited) with
    | SOk (None, vs') _ =>
      match flat_stmts_rec (flat_file depth fs) fs reading filename (fst (file_stmts text inherited)) with
      | Some items => Some (items ++ [FEnd vs'])
      | None => None
      end
    | _ => None
    end
  end.

Definition flat_stmts (depth : nat) (fs : list (bytes * bytes)) (reading : list bytes) (filename : bytes)
           (sts : list (statement * vars)) : option (list fitem) :=
  flat_stmts_rec (flat_file depth fs) fs reading filename sts.

(* the statements of a flat sequence, forgetting the files: [rules_of], [pools_of],
   [default_items], [count_builds], [last_rule] (LoadGraphRun.v) apply to them *)
Fixpoint stmts_of (items : list fitem) : list (statement * vars) :=
  match items with
  | [] => []
  | FStmt _ st vs :: r => (st, vs) :: stmts_of r
  | FEnd _ :: r => stmts_of r
  end.

(* the `build` statements in order, each with its file, the file-level variables and the rule
   table in force where it stands *)
Fixpoint fbuild_items (rules : list (bytes * varlist)) (items : list fitem)
  : list (bytes * (pbuild * vars * list (bytes * varlist))) :=
  match items with
  | [] => []
  | FStmt file st vs :: r =>
    match st with
    | SRule n rv => fbuild_items (insert_b n rv rules) r
    | SBuild pb => (file, (pb, vs, rules)) :: fbuild_items rules r
    | _ => fbuild_items rules r
    end
  | FEnd _ :: r => fbuild_items rules r
  end.

Definition fitem_ok (l : loader) (it : bytes * (pbuild * vars * list (bytes * varlist))) (b : lbuild) : Prop :=
  item_ok l (fst it) (snd it) b.

Definition fitem_view (it : bytes * (pbuild * vars * list (bytes * varlist))) : option step_view :=
  decl_view (fst it) (fst (fst (snd it))) (snd (fst (snd it))) (snd (snd it)).

Definition fitems_wf (items : list fitem) : Prop :=
  Forall (fun it => match it with FStmt _ st _ => stmt_wf st | FEnd _ => True end) items.

(* the variables at the end of the last file that ended *)
Fixpoint last_end (items : list fitem) : option vars :=
  match items with
  | [] => None
  | it :: r => match last_end r with
               | Some vs => Some vs
               | None => match it with FEnd vs => Some vs | _ => None end
               end
  end.
