(* Specification vocabulary for C15: abstract depfiles and the relation "text [t] is a
   formatting of depfile [d]".  Definitions only (no proofs), used by Props/C15.v. *)
From Coq Require Export Permutation.
From N2 Require Import Model.All.

(* a path token: non-empty; no NUL, space, newline, CR; does not begin or end with a backslash
   (an initial backslash is an escape error in depfile.rs, a final one would swallow a
   following newline) *)
Definition path_char (c : N) : bool := negb ((c =? 0) || (c =? 32) || (c =? 10) || (c =? 13))%N.
Definition good_path (p : bytes) : Prop :=
  p <> [] /\ forallb path_char p = true /\ hd 0%N p <> 92%N /\ last p 0%N <> 92%N.
(* a target additionally does not end in ':' (the colon that follows it is the separator) *)
Definition good_target (p : bytes) : Prop := good_path p /\ last p 0%N <> 58%N.

(* one separator: a space or a backslash-newline *)
Inductive sep1 : bytes -> Prop :=
| sep_space : sep1 [32%N]
| sep_cont : sep1 [92%N; 10%N].
(* a possibly empty run of separators *)
Inductive seps : bytes -> Prop :=
| seps_nil : seps []
| seps_cons a b : sep1 a -> seps b -> seps (a ++ b).
Definition seps1 (s : bytes) : Prop := exists a b, sep1 a /\ seps b /\ s = a ++ b.

Definition spaces (s : bytes) : Prop := forall c, In c s -> c = 32%N.
Definition blank (s : bytes) : Prop := forall c, In c s -> c = 32%N \/ c = 10%N.

(* prerequisites after the first one: each preceded by at least one separator *)
Inductive deps_text : list bytes -> bytes -> Prop :=
| dt_nil : deps_text [] []
| dt_cons d ds s t : seps1 s -> good_path d -> deps_text ds t -> deps_text (d :: ds) (s ++ d ++ t).

(* all prerequisites; the first separator may be empty iff [tight] *)
Inductive deps_text0 (tight : bool) : list bytes -> bytes -> Prop :=
| dt0_nil : deps_text0 tight [] []
| dt0_cons d ds s t : seps s -> (tight = false -> s <> []) -> good_path d -> deps_text ds t ->
                      deps_text0 tight (d :: ds) (s ++ d ++ t).

(* one "target: prerequisites" entry up to (not including) its end of line *)
Inductive entry_text : bytes * list bytes -> bytes -> Prop :=
| et_attached t ds body tail :      (* "t:" then prerequisites, each after a separator *)
    good_target t -> deps_text0 false ds body -> seps tail ->
    entry_text (t, ds) (t ++ [58%N] ++ body ++ tail)
| et_detached t ds sp body tail :   (* "t   :" spaces before the colon; "t :x" is legal *)
    good_target t -> spaces sp -> sp <> [] -> deps_text0 true ds body -> seps tail ->
    entry_text (t, ds) (t ++ sp ++ [58%N] ++ body ++ tail).

(* what may stand before a target or before the end of the file: blank lines/spaces, then
   separators *)
Definition filler (f : bytes) : Prop := exists b s, blank b /\ seps s /\ f = b ++ s.

Inductive spells_d : list (bytes * list bytes) -> bytes -> Prop :=
| sd_nil f : filler f -> spells_d [] f
| sd_last e f et : filler f -> entry_text e et -> spells_d [e] (f ++ et)     (* no final newline *)
| sd_cons e es f et rest :
    filler f -> entry_text e et -> spells_d es rest -> spells_d (e :: es) (f ++ et ++ [10%N] ++ rest).

(* what the parser returns: entries grouped by target, first occurrence order *)
Definition merge_targets (d : list (bytes * list bytes)) : list (bytes * list bytes) :=
  fold_left (fun acc e => smallmap_extend (fst e) (snd e) acc) d [].
