(* Work 1 of the null-build theorem: along a jointly accepted trace (not in adopt mode) every
   step that has been settled - checked clean, or recorded, or Done - either has a log record
   whose hash is the hash of the manifest read from the present tree, or has a missing file. *)
From Coq Require Import Lia ZArith List Bool Arith.
From N2 Require Import Model.All Proofs.SchedSpec Proofs.SchedInv Proofs.SchedRunBase
     Proofs.SchedRunStep Proofs.SchedRunCore Proofs.SchedRunAux Proofs.SchedRunRInv Proofs.SchedRunThms.
From N2 Require Import Proofs.DbSpec Proofs.WorldSpec Proofs.WorldBase Proofs.WorldDeps Proofs.WorldDirty
     Proofs.WorldLog Proofs.JointSpec Proofs.JointBase Proofs.JointSched Proofs.JointInv.
Import ListNotations.

(* ------------------------------------------------------------------------------------ *)
(* manifests from the cache and from the tree *)

Lemma with_mtimes_all c : forall names l, with_mtimes c names = Some l ->
  forall n, In n names -> exists t, cache_get c n = Some (Some t).
Proof.
  induction names as [|k names IH]; intros l E n Hn; [destruct Hn|].
  cbn [with_mtimes] in E.
  destruct (cache_get c k) as [[t|]|] eqn:Ec; try discriminate.
  destruct (with_mtimes c names) as [l'|] eqn:El; try discriminate.
  destruct Hn as [<-|Hn]; [now exists t|]. now apply (IH l').
Qed.

Lemma manifest_of_all w bd d m : manifest_of w bd d = Some m ->
  forall n, In n (wb_dirtying bd ++ d ++ wb_outs bd) -> exists t, cache_get (ws_cache w) n = Some (Some t).
Proof.
  unfold manifest_of. intros E n Hn.
  destruct (with_mtimes (ws_cache w) (wb_dirtying bd)) as [i|] eqn:Ei; [|discriminate].
  destruct (with_mtimes (ws_cache w) d) as [dd|] eqn:Ed; [|discriminate].
  destruct (with_mtimes (ws_cache w) (wb_outs bd)) as [o|] eqn:Eo; [|discriminate].
  apply in_app_or in Hn as [Hn|Hn]; [exact (with_mtimes_all _ _ _ Ei n Hn)|].
  apply in_app_or in Hn as [Hn|Hn]; [exact (with_mtimes_all _ _ _ Ed n Hn)|exact (with_mtimes_all _ _ _ Eo n Hn)].
Qed.

Lemma manifest_of_fresh w bd d m : manifest_of w bd d = Some m ->
  (forall n, In n (wb_dirtying bd ++ d ++ wb_outs bd) ->
             forall v, cache_get (ws_cache w) n = Some v -> v = fs_get (ws_fs w) n) ->
  fs_manifest (ws_fs w) bd d = Some m.
Proof.
  intros E H. rewrite <- E. symmetry. apply manifest_of_fs. intros n Hn.
  destruct (manifest_of_all _ _ _ _ E n Hn) as (t & Ht). rewrite Ht. f_equal. now apply H.
Qed.

Lemma fs_mtimes_ext fs fs' : forall names,
  (forall n, In n names -> fs_get fs' n = fs_get fs n) -> fs_mtimes fs' names = fs_mtimes fs names.
Proof.
  induction names as [|k names IH]; intros H; cbn [fs_mtimes]; [reflexivity|].
  rewrite (H k (or_introl eq_refl)), IH by (intros n Hn; apply H; now right). reflexivity.
Qed.

Lemma fs_manifest_ext fs fs' bd d :
  (forall n, In n (wb_dirtying bd ++ d ++ wb_outs bd) -> fs_get fs' n = fs_get fs n) ->
  fs_manifest fs' bd d = fs_manifest fs bd d.
Proof.
  intros H. unfold fs_manifest.
  rewrite (fs_mtimes_ext fs fs' (wb_dirtying bd)) by (intros n Hn; apply H, in_or_app; now left).
  rewrite (fs_mtimes_ext fs fs' d) by (intros n Hn; apply H, in_or_app; right; apply in_or_app; now left).
  rewrite (fs_mtimes_ext fs fs' (wb_outs bd)) by (intros n Hn; apply H, in_or_app; right; apply in_or_app; now right).
  reflexivity.
Qed.

Lemma fs_mtimes_present fs : forall names l, fs_mtimes fs names = Some l ->
  forall n, In n names -> fs_get fs n <> None.
Proof.
  induction names as [|k names IH]; intros l E n Hn; [destruct Hn|]. cbn [fs_mtimes] in E.
  destruct (fs_get fs k) as [t|] eqn:Ek; [|discriminate].
  destruct (fs_mtimes fs names) as [l'|] eqn:El; [|discriminate].
  destruct Hn as [<-|Hn]; [congruence|]. now apply (IH l').
Qed.

Lemma fs_manifest_present fs bd d m : fs_manifest fs bd d = Some m ->
  forall n, In n (wb_dirtying bd ++ d ++ wb_outs bd) -> fs_get fs n <> None.
Proof.
  unfold fs_manifest. intros E n Hn.
  destruct (fs_mtimes fs (wb_dirtying bd)) as [i|] eqn:Ei; [|discriminate].
  destruct (fs_mtimes fs d) as [dd|] eqn:Ed; [|discriminate].
  destruct (fs_mtimes fs (wb_outs bd)) as [o|] eqn:Eo; [|discriminate].
  apply in_app_or in Hn as [Hn|Hn]; [exact (fs_mtimes_present _ _ _ Ei n Hn)|].
  apply in_app_or in Hn as [Hn|Hn]; [exact (fs_mtimes_present _ _ _ Ed n Hn)|exact (fs_mtimes_present _ _ _ Eo n Hn)].
Qed.

(* what a clean verdict of a step with a command compared *)
Lemma clean_inv2 g w b bd c w' : wb_cmdline bd = Some c -> check_build_dirty g w b bd = (w', DClean) ->
  exists prev m, assoc_nat b (ws_hashes w) = Some prev /\
                 manifest_of w' bd (disc_of w b) = Some m /\ hash_build m = prev.
Proof.
  intros Hc E. destruct (check_inv _ _ _ _ _ _ _ Hc E) as (wa & r1 & E1 & H1).
  apply ensure_inputs_spec in E1 as (X1 & _ & _).
  destruct r1 as [[n|]|n].
  - destruct H1 as (_ & Hr). destruct (producer_of g n); discriminate.
  - destruct H1 as (wb & r2 & E2 & H2). apply ensure_inputs_spec in E2 as (X2 & _ & _).
    destruct r2 as [[n|]|n]; [destruct H2; discriminate | | destruct H2; discriminate].
    destruct H2 as (mo & E3 & Hr). apply stat_all_spec in E3 as (X3 & _ & _).
    pose proof (cache_ext_trans _ _ _ (cache_ext_trans _ _ _ X1 X2) X3) as X.
    destruct mo; [discriminate|]. unfold verdict_tail in Hr.
    assert (Hh' : ws_hashes w' = ws_hashes w) by apply X.
    rewrite Hh', (cache_ext_disc_of _ _ b X) in Hr.
    destruct (assoc_nat b (ws_hashes w)) as [prev|]; [|discriminate].
    destruct (manifest_of w' bd (disc_of w b)) as [m|]; [|discriminate].
    destruct (hash_build m =? prev)%N eqn:Eh; [|discriminate]. apply N.eqb_eq in Eh.
    exists prev, m. auto.
  - destruct H1 as (_ & Hr). discriminate.
Qed.

(* no record: some declared input, kept dependency or output was missing *)
Lemma record_none_missing w b bd rep w1 : record_finished w b bd rep = Ok (w1, None) ->
  exists n, In n (wb_dirtying bd ++ disc_of w1 b ++ wb_outs bd) /\ fs_get (ws_fs w) n = None.
Proof.
  intro E. pose proof (replace_wholesale _ _ _ _ _ _ E) as (Hk & _).
  destruct (record_finished_inv _ _ _ _ _ _ E) as (deps & wa & mi & wb & mo & Hk' & Ea & Eb & Hr).
  rewrite Hk in Hk'. injection Hk' as Hdeps. rewrite Hdeps.
  destruct Hr as [(Hm & _ & _)|(_ & m & bytes & tbl & _ & _ & _ & ?)]; [|discriminate].
  apply stat_all_spec in Ea as (Xa & Hmi & _). apply stat_all_spec in Eb as (_ & Hmo & _).
  assert (Fa : ws_fs wa = ws_fs w) by apply Xa. rewrite Fa in Hmo. cbn [with_disc ws_fs orb] in Hmi, Hmo.
  subst mi mo. apply orb_true_iff in Hm.
  destruct Hm as [Hm|Hm]; apply existsb_fs_missing_true in Hm; destruct Hm as (n & Hn & Hf);
    exists n; (split; [|exact Hf]).
  - rewrite app_assoc. apply in_or_app. now left.
  - apply in_or_app. right. apply in_or_app. now right.
Qed.

Lemma record_deps_from w b bd rep w1 r : record_finished w b bd rep = Ok (w1, r) ->
  forall d, In d (disc_of w1 b) -> exists n, In n (reported_names rep) /\ n <> [] /\ canon n = Ok d.
Proof.
  intros E d Hd. pose proof (replace_wholesale _ _ _ _ _ _ E) as (Hk & _).
  destruct (keep_deps_spec _ _ _ Hk) as (_ & Hin & _). apply Hin in Hd.
  destruct Hd as (n & ? & ? & ? & _). eauto.
Qed.

Lemma applicable_other (P : bytes -> option nat) bd deps h b x :
  wb_outs bd <> [] -> (forall o, In o (wb_outs bd) -> P o = Some b) -> x <> b ->
  applicable P (wr_of bd deps h) x = false.
Proof.
  intros Hne Hp Hx. unfold applicable, wr_of. cbn [w_outs].
  destruct (wb_outs bd) as [|o outs] eqn:Eo; [congruence|].
  cbn [forallb]. rewrite (Hp o (or_introl eq_refl)).
  assert (E : (b =? x)%nat = false) by (apply Nat.eqb_neq; congruence). rewrite E. reflexivity.
Qed.

(* the run loop never gives a state to a step without one *)
Lemma step_known_back cf decls r e r' x :
  RInv cf decls r -> step cf r e r' ->
  get_state (rs_bs r') x <> Unknown -> get_state (rs_bs r) x <> Unknown.
Proof.
  intros Hinv Hs.
  destruct (step_shape cf decls r e r' Hinv Hs) as [Same|(b & st & L & T & Gb & U & _)];
    [rewrite Same; tauto|].
  destruct (Nat.eq_dec x b) as [->|Ne]; [|rewrite (U x Ne); tauto].
  intros _. unfold trans_ok in T.
  destruct T as [[E _]|[[E _]|[[E _]|[[E _]|[[E _]|[E _]]]]]]; rewrite E; discriminate.
Qed.

(* ------------------------------------------------------------------------------------ *)

Section Work1.
Variable cf : config.
Variable decls : list (bytes * nat).
Variable wg : wgraph.
Notation g := (cf_graph cf).
Notation nb := (length (g_builds (cf_graph cf))).
Notation P := (producer_of wg).
Hypothesis Hwf : graph_wf g.
Hypothesis Hag : graphs_agree g wg.
Hypothesis Had : cf_adopt cf = false.
Hypothesis Houts : forall b, b < nb -> wb_outs (get_wbuild wg b) <> [].

(* the state this Work was loaded into, the records of the log it was loaded from, and the
   steps it wants *)
Variable w0 : wstate.
Variable ws0 : list wr.
Variable W0 : nat -> Prop.
Hypothesis Hload : forall b,
  assoc_nat b (ws_disc w0) = option_map fst (last_applicable P ws0 b None) /\
  assoc_nat b (ws_hashes w0) = option_map snd (last_applicable P ws0 b None).
Hypothesis Hdisc0 : forall b d, W0 b -> In d (disc_of w0 b) -> P d = None.

(* every (canonical form of a) reported dependency is a source file *)
Definition rep_src (rep : option (list bytes)) : Prop :=
  forall n d, In n (reported_names rep) -> n <> [] -> canon n = Ok d -> P d = None.

Definition item_src (j : jitem) : Prop :=
  match j with JFinish _ _ rep => rep_src rep | _ => True end.

(* no record_finished for b has happened in this Work *)
Definition unrec (r : rstate) (b : nat) : Prop :=
  get_state (rs_bs r) b <> Done /\ rs_ctl r <> CFinished b TSuccess true.

(* b has been found clean, or has just been recorded, or is Done *)
Definition settled (r : rstate) (b : nat) : Prop :=
  get_state (rs_bs r) b = Done \/ rs_ctl r = CVerdict b VClean false \/ rs_ctl r = CFinished b TSuccess true.

Definition files (w : wstate) (b : nat) : list bytes :=
  wb_dirtying (get_wbuild wg b) ++ disc_of w b ++ wb_outs (get_wbuild wg b).

(* the latest record applicable to b carries b's present dependency list and the hash of the
   manifest read from the present tree *)
Definition Hrec (w : wstate) (ws : list wr) (b : nat) : Prop :=
  exists h m, last_applicable P ws b None = Some (disc_of w b, h) /\
              fs_manifest (ws_fs w) (get_wbuild wg b) (disc_of w b) = Some m /\ hash_build m = h.

Definition Mrec (w : wstate) (b : nat) : Prop :=
  exists n, In n (files w b) /\ fs_get (ws_fs w) n = None.

Definition HM (w : wstate) (ws : list wr) (b : nat) : Prop :=
  (forall d, In d (disc_of w b) -> P d = None) /\ (Hrec w ws b \/ Mrec w b).

Record LInv (a : jst) (ws : list wr) : Prop := {
  li_known : forall b, get_state (rs_bs (j_r a)) b <> Unknown -> W0 b;
  li_log : log_is (j_w a) ws;
  li_hashes : ws_hashes (j_w a) = ws_hashes w0;
  li_unrec : forall b, unrec (j_r a) b ->
     disc_of (j_w a) b = disc_of w0 b /\ last_applicable P ws b None = last_applicable P ws0 b None;
  li_settled : forall b, b < nb -> wb_cmdline (get_wbuild wg b) <> None -> settled (j_r a) b ->
     HM (j_w a) ws b;
  li_pend : forall b rep, j_pend a = Some (b, rep) -> rep_src rep;
}.

(* what one item of the trace does to the record list: a JRecord item appends the record of its
   step; and the dependency list of a step that has been recorded in this Work does not change
   any more (nor does the step become un-recorded) *)
Definition Stab (a b : jst) : Prop :=
  forall x, ~ unrec (j_r a) x -> disc_of (j_w b) x = disc_of (j_w a) x /\ ~ unrec (j_r b) x.

Definition LStep (a : jst) (ws : list wr) (j : jitem) (b : jst) : Prop :=
  LInv b (ws ++ map (rec_of wg (j_w b)) (rec_item j)) /\ Stab a b /\
  (forall p, In p (rec_item j) -> ~ unrec (j_r b) (fst p)).

Lemma HM_frame w ws w' ws' b :
  disc_of w' b = disc_of w b ->
  (forall n, In n (files w b) -> fs_get (ws_fs w') n = fs_get (ws_fs w) n) ->
  last_applicable P ws' b None = last_applicable P ws b None ->
  HM w ws b -> HM w' ws' b.
Proof.
  intros Hd Hf Hl (Hs & H). unfold HM, Hrec, Mrec, files in *. rewrite Hd, Hl. split; [exact Hs|].
  destruct H as [(h & m & H1 & H2 & H3)|(n & Hn & Hm)]; [left|right].
  - exists h, m. split; [exact H1|]. split; [|exact H3]. rewrite <- H2. now apply fs_manifest_ext.
  - exists n. split; [exact Hn|]. rewrite <- Hm. now apply Hf.
Qed.

Lemma log_is_ext w w' ws : ws_tbl w' = ws_tbl w -> ws_log w' = ws_log w -> log_is w ws -> log_is w' ws.
Proof. intros Ht Hl (body & H1 & H2). exists body. now rewrite Ht, Hl. Qed.

(* the World only stat()ed; no record_finished; no write *)
Lemma LInv_gen a ws r' w' aw' pend' run' :
  LInv a ws ->
  (forall b, get_state (rs_bs r') b <> Unknown -> get_state (rs_bs (j_r a)) b <> Unknown) ->
  cache_ext (j_w a) w' ->
  (forall b, unrec r' b -> unrec (j_r a) b) ->
  (forall b, b < nb -> wb_cmdline (get_wbuild wg b) <> None -> settled r' b ->
             settled (j_r a) b \/ HM w' ws b) ->
  (forall b rep, pend' = Some (b, rep) -> rep_src rep) ->
  LInv (mkJ r' w' aw' pend' run') ws.
Proof.
  intros [K Lg Hh U S Pd] Hk X Hu Hs Hp. pose proof X as (F & D & H & T & L & _).
  constructor; cbn [j_r j_w j_pend].
  - intros b Hb. apply K, Hk, Hb.
  - exact (log_is_ext _ _ _ T L Lg).
  - congruence.
  - intros b Hb. rewrite (cache_ext_disc_of _ _ b X). apply U, Hu, Hb.
  - intros b Lb Hc Hb. destruct (Hs b Lb Hc Hb) as [Hb'|Hb']; [|exact Hb'].
    apply (HM_frame (j_w a) ws w' ws b); auto.
    + apply (cache_ext_disc_of _ _ b X).
    + intros n _. now rewrite F.
  - exact Hp.
Qed.

Lemma LStep_gen a ws j r' w' aw' pend' run' :
  LInv a ws ->
  (forall b, get_state (rs_bs r') b <> Unknown -> get_state (rs_bs (j_r a)) b <> Unknown) ->
  cache_ext (j_w a) w' ->
  rec_item j = [] ->
  (forall b, unrec r' b -> unrec (j_r a) b) ->
  (forall b, b < nb -> wb_cmdline (get_wbuild wg b) <> None -> settled r' b ->
             settled (j_r a) b \/ HM w' ws b) ->
  (forall b rep, pend' = Some (b, rep) -> rep_src rep) ->
  LStep a ws j (mkJ r' w' aw' pend' run').
Proof.
  intros L Hk X Ej Hu Hs Hp. unfold LStep. rewrite Ej. cbn [map]. rewrite app_nil_r.
  split; [exact (LInv_gen a ws r' w' aw' pend' run' L Hk X Hu Hs Hp)|].
  split; [|intros p []]. intros x Hx. cbn [j_r j_w].
  split; [exact (cache_ext_disc_of _ _ x X)|]. intro H. apply Hx, Hu, H.
Qed.

Lemma LStep_same a ws j : LInv a ws -> rec_item j = [] -> LStep a ws j a.
Proof.
  intros L Ej. unfold LStep. rewrite Ej. cbn [map]. rewrite app_nil_r.
  split; [exact L|]. split; [|intros p []]. intros x Hx. now split.
Qed.

(* a write by a running command does not touch the files of a settled step *)
Lemma LInv_write a ws n t :
  JInv cf decls wg a -> LInv a ws -> write_ok wg (j_run a) (JWrite n t) ->
  LInv (mkJ (j_r a) (set_fs (j_w a) n t) (j_aw a) (j_pend a) (j_run a)) ws.
Proof.
  intros J [K Lg Hh U S Pd] (x & Hx & Ix). cbn [write_ok] in *.
  destruct (ji_run _ _ _ _ J x Hx) as (Lx & Ex & Nf). pose proof (ji_r _ _ _ _ J) as R.
  constructor; cbn [j_r j_w j_pend set_fs ws_log ws_tbl ws_hashes]; auto.
  intros b Lb Hc Hb. apply (HM_frame (j_w a) ws _ ws b); auto.
  intros n' Hn'. cbn [ws_fs]. apply fs_get_set_other. intros ->.
  destruct (S b Lb Hc Hb) as (Hsrc & _).
  (* the state of b lets bc_prod apply, and b is not the writer *)
  assert (Hst : In (get_state (rs_bs (j_r a)) b) [Ready; Queued; Running; Done] /\ b <> x).
  { pose proof (ri_ctl _ _ _ R) as Kc.
    destruct Hb as [Eb|[Hcb|Hcb]].
    - rewrite Eb. split; [cbn; tauto|congruence].
    - rewrite Hcb in Kc. cbn [ctl_ok] in Kc. destruct Kc as (_ & _ & [(Eb & _)|(Ev & _)]); [|discriminate].
      rewrite Eb. split; [cbn; tauto|congruence].
    - rewrite Hcb in Kc. cbn [ctl_ok] in Kc. destruct Kc as (_ & _ & _ & Eb).
      rewrite Eb. split; [cbn; tauto|]. intros ->. exact (Nf _ _ Hcb). }
  destruct Hst as (Hst & Hbx).
  unfold files in Hn'. apply in_app_or in Hn'. destruct Hn' as [Hn'|Hn'].
  - pose proof (dirtying_out_producer g wg Hwf Hag b n x Lb Lx Hn' Ix) as Hop.
    pose proof (bc_prod _ _ _ (ri_core _ _ _ R) b x Hst Hop). congruence.
  - apply in_app_or in Hn'. destruct Hn' as [Hn'|Hn'].
    + pose proof (Hsrc n Hn'). pose proof (outs_producer g wg Hag x n Lx Ix). congruence.
    + apply Hbx. exact (outs_disjoint g wg Hag b x n Lb Lx Hn' Ix).
Qed.

Lemma LStep_write a ws n t :
  JInv cf decls wg a -> LInv a ws -> write_ok wg (j_run a) (JWrite n t) ->
  LStep a ws (JWrite n t) (mkJ (j_r a) (set_fs (j_w a) n t) (j_aw a) (j_pend a) (j_run a)).
Proof.
  intros J L Hw. unfold LStep. cbn [rec_item map]. rewrite app_nil_r.
  split; [exact (LInv_write a ws n t J L Hw)|]. split; [|intros p []].
  intros x Hx. cbn [j_r j_w]. split; [reflexivity|exact Hx].
Qed.

(* record_finished for step b (with or without a record) *)
Lemma LInv_record a ws b rep w' ro r' aw' run' j :
  rec_item j = match ro with Some h => [(b, h)] | None => [] end ->
  LInv a ws -> b < nb ->
  record_finished (j_w a) b (get_wbuild wg b) rep = Ok (w', ro) -> j_pend a = Some (b, rep) ->
  unrec (j_r a) b ->
  (forall x, get_state (rs_bs r') x <> Unknown -> get_state (rs_bs (j_r a)) x <> Unknown) ->
  (forall x, unrec r' x -> x <> b /\ unrec (j_r a) x) ->
  (forall x, x <> b -> settled r' x -> settled (j_r a) x) ->
  LStep a ws j (mkJ r' w' aw' None run').
Proof.
  intros Ej [K Lg Hh U S Pd] Lb Er Hp Un Hk Hu Hs.
  set (bd := get_wbuild wg b) in *.
  set (ws' := match ro with Some h => ws ++ [wr_of bd (disc_of w' b) h] | None => ws end).
  assert (Ews : ws ++ map (rec_of wg w') (rec_item j) = ws').
  { rewrite Ej. unfold ws'. destruct ro as [h|]; cbn [map rec_of fst snd]; [reflexivity|apply app_nil_r]. }
  destruct (record_ext _ _ _ _ _ _ Er) as (F & Hhs & _ & _).
  pose proof (replace_wholesale _ _ _ _ _ _ Er) as (_ & Hother).
  assert (Hown : forall o, In o (wb_outs bd) -> P o = Some b)
    by (intros o Ho; exact (outs_producer g wg Hag b o Lb Ho)).
  assert (Hla : forall x, x <> b -> last_applicable P ws' x None = last_applicable P ws x None).
  { intros x Hx. unfold ws'. destruct ro as [h|]; [|reflexivity].
    rewrite last_applicable_snoc, (applicable_other P bd _ h b x (Houts b Lb) Hown Hx). reflexivity. }
  assert (Hsrc : forall d, In d (disc_of w' b) -> P d = None).
  { intros d Hd. destruct (record_deps_from _ _ _ _ _ _ Er d Hd) as (n & Hn & Hne & Hc).
    exact (Pd b rep Hp n d Hn Hne Hc). }
  unfold LStep. cbn [j_r j_w]. rewrite Ews. split; [|split].
  2:{ intros x Hx. assert (Hne : x <> b) by (intros ->; exact (Hx Un)).
      split; [exact (Hother x Hne)|]. intro H. exact (Hx (proj2 (Hu x H))). }
  2:{ intros p Hin H. rewrite Ej in Hin. destruct ro as [h|]; [|destruct Hin].
      destruct Hin as [<-|[]]. cbn [fst] in H. exact (proj1 (Hu b H) eq_refl). }
  constructor; cbn [j_r j_w j_pend].
  - intros x Hx. apply K, Hk, Hx.
  - unfold ws'. destruct ro as [h|].
    + exact (log_is_record _ _ _ _ _ _ _ Lg Er).
    + exact (log_is_no_record _ _ _ _ _ _ Lg Er).
  - congruence.
  - intros x Hx. destruct (Hu x Hx) as (Hne & Hx'). rewrite (Hother x Hne), (Hla x Hne). now apply U.
  - intros x Lx Hc Hx. destruct (Nat.eq_dec x b) as [->|Hne].
    + split; [exact Hsrc|]. unfold ws'. destruct ro as [h|].
      * left. destruct (record_some_inv _ _ _ _ _ _ Er) as (deps & m & Hd & F1 & _ & _ & _ & _ & Hhm & Hfm).
        exists h, m. rewrite last_applicable_snoc, (applicable_own wg bd _ h b (Houts b Lb) Hown).
        cbn [wr_of w_deps w_hash]. rewrite F1, Hd. auto.
      * right. destruct (record_none_missing _ _ _ _ _ Er) as (n & Hn & Hf).
        exists n. split; [exact Hn|]. now rewrite F.
    + apply (HM_frame (j_w a) ws w' ws' x (Hother x Hne)); auto.
      intros n _. now rewrite F.
  - discriminate.
Qed.

(* a clean verdict for a step with a command *)
Lemma HM_clean a ws b w' c :
  JInv cf decls wg a -> LInv a ws -> rs_ctl (j_r a) = CChecking b ->
  wb_cmdline (get_wbuild wg b) = Some c ->
  check_build_dirty wg (j_w a) b (get_wbuild wg b) = (w', DClean) ->
  HM w' ws b.
Proof.
  intros J [K Lg Hh U S Pd] Hc Hcmd Ec. pose proof (ji_r _ _ _ _ J) as R.
  pose proof (ri_ctl _ _ _ R) as Kc. rewrite Hc in Kc. cbn [ctl_ok] in Kc. destruct Kc as (_ & _ & Lb & Eb).
  pose proof (check_ext _ _ _ _ _ _ Ec) as X.
  assert (Hun : unrec (j_r a) b) by (split; [rewrite Eb|rewrite Hc]; discriminate).
  destruct (U b Hun) as (Hd0 & Hl0).
  assert (Hd' : disc_of w' b = disc_of (j_w a) b) by apply (cache_ext_disc_of _ _ b X).
  assert (Hsrc : forall d, In d (disc_of (j_w a) b) -> P d = None).
  { intros d Hd. rewrite Hd0 in Hd. apply (Hdisc0 b d); [|exact Hd]. apply K. rewrite Eb. discriminate. }
  split; [now rewrite Hd'|]. left.
  destruct (clean_inv2 _ _ _ _ _ _ Hcmd Ec) as (prev & m & Hprev & Hm & Hhm).
  exists prev, m. rewrite Hd'. split; [|split; [|exact Hhm]].
  - (* the loaded hash and dependency list come from the latest applicable record *)
    rewrite Hh in Hprev. destruct (Hload b) as (Ld & Lh). rewrite Hprev in Lh.
    rewrite Hl0. destruct (last_applicable P ws0 b None) as [[d0 h0]|]; [|discriminate].
    cbn [option_map fst snd] in Ld, Lh. injection Lh as ->.
    rewrite Hd0. unfold disc_of. rewrite Ld. reflexivity.
  - (* the manifest from the cache is the manifest of the tree *)
    apply manifest_of_fresh; [exact Hm|]. intros n Hn v Hv.
    assert (CO : cache_ok cf wg (j_r a) w').
    { apply (cache_ok_gen cf wg (j_r a) (j_w a) (j_r a) w' (ji_cache _ _ _ _ J) (cache_ext_wext _ _ X)).
      intros p Sp. now left. }
    destruct (CO n v Hv) as [E|(p & Lp & Ip & Sp)]; [exact E|exfalso].
    assert (Hp : get_state (rs_bs (j_r a)) p <> Done /\ get_state (rs_bs (j_r a)) p <> Ready).
    { destruct Sp as [[E _]|E]; rewrite E; split; discriminate. }
    apply in_app_or in Hn. destruct Hn as [Hn|Hn].
    + pose proof (dirtying_out_producer g wg Hwf Hag b n p Lb Lp Hn Ip) as Hop.
      apply (proj1 Hp). apply (bc_prod _ _ _ (ri_core _ _ _ R) b p); [rewrite Eb; cbn; tauto|exact Hop].
    + apply in_app_or in Hn. destruct Hn as [Hn|Hn].
      * pose proof (Hsrc n Hn). pose proof (outs_producer g wg Hag p n Lp Ip). congruence.
      * assert (p = b) by exact (outs_disjoint g wg Hag p b n Lp Lb Ip Hn). subst p. apply (proj2 Hp), Eb.
Qed.

(* ---- preservation ---- *)

Lemma LInv_step a ws j b :
  JInv cf decls wg a -> LInv a ws -> item_src j -> jstep cf wg a j b -> LStep a ws j b.
Proof.
  intros J L Hj Hstep. pose proof Hstep as (Hs & Hw & Hwr & Hrun).
  destruct a as [r w aw pend run], b as [r' w' aw' pend' run'].
  cbn [j_r j_w j_aw j_pend j_run] in Hs, Hw, Hwr, Hrun. subst run'.
  pose proof (ji_r _ _ _ _ J) as R. pose proof (ji_aw _ _ _ _ J) as A.
  cbn [j_r j_aw] in R, A. rewrite Had in A, Hw.
  destruct j as [c|b0|b0 v|b0 p n|b0|n|n t|b0 t rep|b0 h|ok]; cbn [proj_s1] in Hs; cbn [run_after] in *.
  7:{ (* write *)
    cbn [accepts] in Hs. injection Hs as <-. destruct Hw as (-> & -> & ->).
    exact (LStep_write _ ws n t J L Hwr). }
  all: apply accepts_one in Hs; pose proof (accept1_step cf _ _ _ Hs) as Hst;
    assert (Hk : forall x, get_state (rs_bs r') x <> Unknown -> get_state (rs_bs r) x <> Unknown)
      by (intro x; exact (step_known_back cf decls r _ r' x R Hst));
    assert (Hfin : forall x, get_state (rs_bs r) x = Done -> get_state (rs_bs r') x = Done)
      by (intros x Ex; rewrite (step_final cf decls r _ r' x R Hst); [exact Ex|rewrite Ex; cbn; tauto]);
    destruct (accept_sum cf decls _ _ _ R Hs) as [S R']; cbn [ev_sum] in S.
  - (* update *)
    destruct S as [-> _]. destruct Hw as (-> & -> & ->). apply LStep_same; [exact L|reflexivity].
  - (* pop *)
    destruct S as (SS & Hc & Hc' & Lb & E). destruct Hw as (-> & -> & ->).     apply (LStep_gen _ ws _ _ _ _ _ _ L Hk (cache_ext_refl _)); [reflexivity|..]; cbn [j_r j_w j_pend].
    + intros x (H1 & _). split; [intro Ex; apply H1, Hfin, Ex|rewrite Hc; discriminate].
    + intros x _ _ [Ex|[Ex|Ex]]; [left; left; now rewrite <- SS|rewrite Hc' in Ex; discriminate ..].
    + exact (li_pend _ _ L).
  - (* verdict *)
    destruct S as (SS & Hc & Hc' & Lb & E & Hph). destruct Hw as (res & Ec & Hcode & Haw).
    assert (Hp' : pend' = pend) by (destruct v; destruct Haw; auto). subst pend'.
    apply (LStep_gen _ ws _ _ _ _ _ _ L Hk (check_ext _ _ _ _ _ _ Ec)); [reflexivity|..]; cbn [j_r j_w j_pend].
    + intros x (H1 & _). split; [intro Ex; apply H1, Hfin, Ex|rewrite Hc; discriminate].
    + intros x Lx Hcx [Ex|[Ex|Ex]]; [left; left; now rewrite <- SS| |rewrite Hc' in Ex; discriminate].
      rewrite Hc' in Ex. injection Ex as -> ->. right.
      destruct res; try discriminate Hcode.
      destruct (wb_cmdline (get_wbuild wg x)) as [c|] eqn:Hcmd; [|congruence].
      exact (HM_clean _ ws x w' c J L Hc Hcmd Ec).
    + exact (li_pend _ _ L).
  - (* set *)
    destruct S as (Lb & Ep & En & U & S).
    destruct p, n; try contradiction.
    + (* Want -> Ready *)
      destruct S as (Hc & Hc'). destruct Hw as (-> & -> & ->).       apply (LStep_gen _ ws _ _ _ _ _ _ L Hk (cache_ext_refl _)); [reflexivity|..]; cbn [j_r j_w j_pend].
      * intros x (H1 & _). split; [intro Ex; apply H1, Hfin, Ex|rewrite Hc; discriminate].
      * intros x _ _ [Ex|[Ex|Ex]]; [|rewrite Hc' in Ex; discriminate ..].
        left. left. destruct (Nat.eq_dec x b0) as [->|Hne]; [congruence|]. now rewrite <- (U x Hne).
      * exact (li_pend _ _ L).
    + (* Ready -> Queued *)
      destruct S as (Hc & _ & Hc'). destruct Hw as (-> & -> & ->).       apply (LStep_gen _ ws _ _ _ _ _ _ L Hk (cache_ext_refl _)); [reflexivity|..]; cbn [j_r j_w j_pend].
      * intros x (H1 & _). split; [intro Ex; apply H1, Hfin, Ex|rewrite Hc; discriminate].
      * intros x _ _ [Ex|[Ex|Ex]]; [|destruct Hc' as [Hc'|Hc']; rewrite Hc' in Ex; discriminate ..].
        left. left. destruct (Nat.eq_dec x b0) as [->|Hne]; [congruence|]. now rewrite <- (U x Hne).
      * exact (li_pend _ _ L).
    + (* Ready -> Done *)
      destruct S as ((v & rec & Hc & Hv) & Hc').
      destruct Hv as [[-> ->]|[_ Hv]]; [|congruence].
      rewrite Hc in A. cbn [aw_ok] in A. subst aw. cbn [wstepP aw_is] in Hw. destruct Hw as (-> & -> & ->).
      apply (LStep_gen _ ws _ _ _ _ _ _ L Hk (cache_ext_refl _)); [reflexivity|..]; cbn [j_r j_w j_pend].
      * intros x (H1 & _). split; [intro Ex; apply H1, Hfin, Ex|rewrite Hc; discriminate].
      * intros x _ _ [Ex|[Ex|Ex]]; [|rewrite Hc' in Ex; discriminate ..].
        left. destruct (Nat.eq_dec x b0) as [->|Hne]; [right; left; exact Hc|].
        left. now rewrite <- (U x Hne).
      * exact (li_pend _ _ L).
    + (* Queued -> Running *)
      destruct S as (Hc & Hc'). destruct Hw as (-> & -> & ->).       apply (LStep_gen _ ws _ _ _ _ _ _ L Hk (cache_ext_refl _)); [reflexivity|..]; cbn [j_r j_w j_pend].
      * intros x (H1 & _). split; [intro Ex; apply H1, Hfin, Ex|rewrite Hc; discriminate].
      * intros x _ _ [Ex|[Ex|Ex]]; [|rewrite Hc' in Ex; discriminate ..].
        left. left. destruct (Nat.eq_dec x b0) as [->|Hne]; [congruence|]. now rewrite <- (U x Hne).
      * exact (li_pend _ _ L).
    + (* Running -> Done *)
      destruct S as ((rec & Hc) & Hc'). rewrite Hc in A. destruct rec; cbn [aw_ok] in A; subst aw;
        cbn [wstepP aw_is] in Hw; try rewrite Nat.eqb_refl in Hw.
      * (* recorded before *)
        destruct Hw as (-> & -> & ->).         apply (LStep_gen _ ws _ _ _ _ _ _ L Hk (cache_ext_refl _)); [reflexivity|..]; cbn [j_r j_w j_pend].
        -- intros x (H1 & _). split; [intro Ex; apply H1, Hfin, Ex|].
           rewrite Hc. intros [= ->]. apply H1, En.
        -- intros x _ _ [Ex|[Ex|Ex]]; [|rewrite Hc' in Ex; discriminate ..].
           left. destruct (Nat.eq_dec x b0) as [->|Hne]; [right; right; exact Hc|].
           left. now rewrite <- (U x Hne).
        -- exact (li_pend _ _ L).
      * (* no record *)
        destruct Hw as (rp & Hp & Er & -> & ->).
        assert (Un : unrec r b0) by (split; [rewrite Ep|rewrite Hc]; discriminate).
        apply (LInv_record _ ws b0 rp w' None r' None run (JSet b0 Running Done) eq_refl L Lb Er Hp Un Hk); cbn [j_r].
        -- intros x (H1 & _). assert (x <> b0) by congruence. split; [auto|].
           split; [intro Ex; apply H1, Hfin, Ex|rewrite Hc; discriminate].
        -- intros x Hne [Ex|[Ex|Ex]]; [|rewrite Hc' in Ex; discriminate ..].
           left. now rewrite <- (U x Hne).
    + (* Running -> Failed *)
      destruct S as ((rec & Hc) & Hc'). destruct Hw as (-> & -> & ->).       apply (LStep_gen _ ws _ _ _ _ _ _ L Hk (cache_ext_refl _)); [reflexivity|..]; cbn [j_r j_w j_pend].
      * intros x (H1 & _). split; [intro Ex; apply H1, Hfin, Ex|rewrite Hc; discriminate].
      * intros x _ _ [Ex|[Ex|Ex]]; [|rewrite Hc' in Ex; discriminate ..].
        left. left. destruct (Nat.eq_dec x b0) as [->|Hne]; [congruence|]. now rewrite <- (U x Hne).
      * exact (li_pend _ _ L).
  - (* start *)
    destruct S as (SS & Hc & Hc' & Lb & E). destruct Hw as (-> & -> & ->).     apply (LStep_gen _ ws _ _ _ _ _ _ L Hk (cache_ext_refl _)); [reflexivity|..]; cbn [j_r j_w j_pend].
    + intros x (H1 & _). split; [intro Ex; apply H1, Hfin, Ex|rewrite Hc; discriminate].
    + intros x _ _ [Ex|[Ex|Ex]]; [left; left; now rewrite <- SS|rewrite Hc' in Ex; discriminate ..].
    + exact (li_pend _ _ L).
  - (* quiesce *)
    destruct S as [-> _]. destruct Hw as (-> & -> & ->). apply LStep_same; [exact L|reflexivity].
  - (* finish *)
    destruct S as (SS & Hc & Hc' & Lb & E). destruct Hw as (-> & Haw).     apply (LStep_gen _ ws _ _ _ _ _ _ L Hk (cache_ext_refl _)); [reflexivity|..]; cbn [j_r j_w j_pend].
    + intros x (H1 & _). split; [intro Ex; apply H1, Hfin, Ex|rewrite Hc; discriminate].
    + intros x _ _ [Ex|[Ex|Ex]]; [left; left; now rewrite <- SS|rewrite Hc' in Ex; discriminate ..].
    + cbn [item_src] in Hj. intros x rp Hx. destruct t; destruct Haw as [_ ->]; try discriminate.
      injection Hx as _ <-. exact Hj.
  - (* record *)
    destruct S as (SS & [(_ & Hadt & _)|(Hc & Hc' & Lb & E)]); [congruence|].
    destruct Hw as (rp & Hp & Er & -> & ->).
    assert (Un : unrec r b0) by (split; [rewrite E|rewrite Hc]; discriminate).
    apply (LInv_record _ ws b0 rp w' (Some h) r' None run (JRecord b0 h) eq_refl L Lb Er Hp Un Hk); cbn [j_r].
    + intros x (H1 & H2). assert (x <> b0) by (intros ->; apply H2, Hc'). split; [auto|].
      split; [intro Ex; apply H1, Hfin, Ex|rewrite Hc; discriminate].
    + intros x Hne [Ex|[Ex|Ex]]; [left; now rewrite <- SS|rewrite Hc' in Ex; discriminate|].
      rewrite Hc' in Ex. congruence.
  - (* return *)
    destruct S as (SS & Hc' & Hc). destruct Hw as (-> & -> & ->).     apply (LStep_gen _ ws _ _ _ _ _ _ L Hk (cache_ext_refl _)); [reflexivity|..]; cbn [j_r j_w j_pend].
    + intros x (H1 & _). split; [intro Ex; apply H1, Hfin, Ex|].
      destruct Hc as [Hc|[(q & rec & Hc)|(q & t & rec & Hc & Ht)]]; rewrite Hc; try discriminate.
      intros [= _ -> _]. now apply Ht.
    + intros x _ _ [Ex|[Ex|Ex]]; [left; left; now rewrite <- SS|rewrite Hc' in Ex; discriminate ..].
    + exact (li_pend _ _ L).
Qed.

(* the start of the Work *)
Lemma LInv_init r0 :
  log_is w0 ws0 -> rs_ctl r0 = CIdle -> (forall b, get_state (rs_bs r0) b <> Done) ->
  (forall b, get_state (rs_bs r0) b <> Unknown -> W0 b) ->
  LInv (jinit r0 w0) ws0.
Proof.
  intros Lg Hc Hd K. constructor; cbn [jinit j_r j_w j_pend].
  - exact K.
  - exact Lg.
  - reflexivity.
  - intros b _. split; reflexivity.
  - intros b _ _ [E|[E|E]]; [destruct (Hd b E)|rewrite Hc in E; discriminate ..].
  - discriminate.
Qed.

Lemma trace_records_snoc tr j : trace_records (tr ++ [j]) = trace_records tr ++ rec_item j.
Proof. unfold trace_records. rewrite flat_map_app. cbn [flat_map]. now rewrite app_nil_r. Qed.

(* the record list after a trace is the one the Work started with, then the records of the
   trace's JRecord items *)
Lemma Work1_reach_gen a add tr b :
  JInv cf decls wg a -> LInv a (ws0 ++ map (rec_of wg (j_w a)) add) ->
  (forall p, In p add -> ~ unrec (j_r a) (fst p)) ->
  Forall item_src tr -> jreach cf wg a tr b ->
  JInv cf decls wg b /\ LInv b (ws0 ++ map (rec_of wg (j_w b)) (add ++ trace_records tr)) /\
  (forall p, In p (add ++ trace_records tr) -> ~ unrec (j_r b) (fst p)).
Proof.
  intros J L Hu Hf H. revert Hf. induction H as [|tr b j c H IH Hs]; intro Hf.
  - cbn [trace_records flat_map]. rewrite app_nil_r. auto.
  - apply Forall_app in Hf. destruct Hf as [Hf Hj]. inversion Hj as [|? ? Hj1 _]; subst.
    destruct (IH Hf) as (Jb & Lb & Ub).
    destruct (LInv_step _ _ _ _ Jb Lb Hj1 Hs) as (Lc & St & Nu).
    split; [exact (JInv_step cf decls wg Hag _ _ _ Jb Hs)|].
    rewrite trace_records_snoc, app_assoc. split.
    + rewrite map_app, app_assoc.
      rewrite (map_ext_in (rec_of wg (j_w c)) (rec_of wg (j_w b))); [exact Lc|].
      intros p Hp. unfold rec_of. now rewrite (proj1 (St _ (Ub p Hp))).
    + intros p Hp. apply in_app_or in Hp. destruct Hp as [Hp|Hp].
      * exact (proj2 (St _ (Ub p Hp))).
      * exact (Nu p Hp).
Qed.

Lemma Work1_reach a tr b :
  JInv cf decls wg a -> LInv a ws0 -> Forall item_src tr -> jreach cf wg a tr b ->
  JInv cf decls wg b /\ LInv b (ws0 ++ work_records wg (j_w b) tr).
Proof.
  intros J L Hf H.
  assert (L0 : LInv a (ws0 ++ map (rec_of wg (j_w a)) [])) by (cbn [map]; now rewrite app_nil_r).
  destruct (Work1_reach_gen a [] tr b J L0 (fun p (F : In p []) => match F with end) Hf H) as (Jb & Lb & _).
  split; [exact Jb|exact Lb].
Qed.

End Work1.
