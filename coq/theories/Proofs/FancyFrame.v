(* Proofs about Model/Fancy.v, part 2: the frame print_progress paints, and the protocol under
   which no operation of the display state can panic. *)
From Coq Require Import String.
From Coq Require Import List NArith Arith Lia Bool.
From N2 Require Import Base.Base Model.Scanner Model.Render Model.Fancy.
From N2 Require Import Proofs.RenderTrunc Proofs.RenderMsg Proofs.RenderBar Proofs.FancyLossy.
Import ListNotations.

Definition task_valid (t : ftask) : Prop :=
  utf8_ok (ft_msg t) = true /\ forall l, ft_last t = Some l -> utf8_ok l = true.

Lemma task_lines_spec now cols t :
  (2 <= cols)%nat ->
  exists ls, task_lines now cols t = Ok ls /\
             Forall (fun l => (length l <= cols)%nat) ls /\
             (1 <= length ls <= 2)%nat /\
             (task_valid t -> Forall (fun l => utf8_ok l = true) ls).
Proof.
  intros Hc. unfold task_lines. cbv zeta.
  destruct (task_message_ok (ft_msg t) ((now - ft_start t) / 1000)%N cols) as [m [Em [Hm Hu]]].
  rewrite Em. cbn [bind].
  destruct (ft_last t) as [l|] eqn:El.
  - assert (E2 : (cols <? 2)%nat = false) by (apply Nat.ltb_ge; exact Hc).
    rewrite E2. eexists. split; [reflexivity|]. split; [|split].
    + constructor; [exact Hm|]. constructor; [|constructor].
      rewrite app_length. pose proof (truncate_length_le l (cols - 2)). cbn [length bs] in *.
      change (length (bs "  ")) with 2%nat. lia.
    + cbn [length]. lia.
    + intros [V1 V2]. constructor; [apply Hu, V1|]. constructor; [|constructor].
      apply utf8_app; [reflexivity|]. apply truncate_utf8. apply V2. exact El.
  - eexists. split; [reflexivity|]. split; [|split].
    + constructor; [exact Hm | constructor].
    + cbn [length]. lia.
    + intros [V1 _]. constructor; [apply Hu, V1 | constructor].
Qed.

Lemma body_lines_spec now cols : forall ts,
  (2 <= cols)%nat ->
  exists ls, body_lines now cols ts = Ok ls /\
             Forall (fun l => (length l <= cols)%nat) ls /\
             (length ts <= length ls <= 2 * length ts)%nat /\
             (Forall task_valid ts -> Forall (fun l => utf8_ok l = true) ls).
Proof.
  induction ts as [|t r IH]; intros Hc.
  - exists []. cbn. repeat split; auto.
  - destruct (task_lines_spec now cols t Hc) as [a [Ea [Ha [La Ua]]]].
    destruct (IH Hc) as [b [Eb [Hb [Lb Ub]]]].
    exists (a ++ b). cbn [body_lines]. rewrite Ea. cbn [bind]. rewrite Eb. cbn [bind].
    split; [reflexivity|]. split; [apply Forall_app; split; assumption|]. split.
    + rewrite app_length. cbn [length]. lia.
    + intros V. inversion V as [|? ? V1 V2]; subst. apply Forall_app. split; [apply Ua, V1 | apply Ub, V2].
Qed.

Definition frame_of (st : fstate) (lines : list bytes) : bytes :=
  fs_pending st ++ status_line (fs_counts st) (length (fs_tasks st)) ++ concat (map with_nl lines)
    ++ cursor_up (1 + length lines).

Lemma firstn_Forall {A} (P : A -> Prop) n (l : list A) : Forall P l -> Forall P (firstn n l).
Proof.
  revert l; induction n as [|n IH]; intros l H; [constructor|].
  destruct l as [|x r]; [constructor|]. inversion H; subst. cbn [firstn]. constructor; auto.
Qed.

(* the frame: what was pending, the status line, at most two lines per displayed command for the
   eight oldest commands, each at most [cols] bytes and cut at a character boundary, the
   "...and N more" line when there are more than eight, and a cursor-up by exactly the number of
   lines; the display state afterwards differs from before only in the pending text *)
Theorem frame_spec st now cols :
  (2 <= cols)%nat ->
  exists body,
    f_print st now cols =
      Ok (frame_of st (body ++ more_line (length (fs_tasks st))),
          mkFState clear_seq (fs_counts st) (fs_tasks st) (fs_verbose st)) /\
    Forall (fun l => (length l <= cols)%nat) body /\
    (Nat.min max_tasks (length (fs_tasks st)) <= length body <= 2 * max_tasks)%nat /\
    (Forall task_valid (fs_tasks st) -> Forall (fun l => utf8_ok l = true) body).
Proof.
  intros Hc. unfold f_print. cbv zeta.
  destruct (body_lines_spec now cols (firstn max_tasks (fs_tasks st)) Hc) as [b [Eb [Hb [Lb Ub]]]].
  rewrite Eb. cbn [bind]. exists b. split; [reflexivity|]. split; [exact Hb|]. split.
  - rewrite firstn_length in Lb. pose proof (Nat.le_min_l max_tasks (length (fs_tasks st))). lia.
  - intros V. apply Ub. apply firstn_Forall. exact V.
Qed.

Lemma status_line_bar c n :
  exists rest, status_line c n = 91%N :: progress_bar c 40%N ++ 93%N :: rest /\
               length (progress_bar c 40%N) = 40%nat.
Proof.
  unfold status_line. cbv zeta. eexists. split; [|apply progress_bar_width].
  change (bs "[") with [91%N]. change (bs "] ") with [93%N; 32%N]. cbn [app]. reflexivity.
Qed.

(* ---- the protocol of the display state ---- *)

Fixpoint remove_one (id : N) (ids : list N) : list N :=
  match ids with
  | [] => []
  | x :: r => if (x =? id)%N then r else x :: remove_one id r
  end.

(* the ids displayed after a list of operations *)
Fixpoint track (ids : list N) (ops : list fop) : list N :=
  match ops with
  | [] => ids
  | FStart id _ _ _ :: r => track (ids ++ [id]) r
  | FFinish id _ _ _ _ _ :: r => track (remove_one id ids) r
  | _ :: r => track ids r
  end.

(* what the callers of the display guarantee: every step that is started has a command line,
   output and completion are reported only for a command being displayed, and the terminal is at
   least two columns wide (terminal::get_cols yields >= 10, the fallback is 80) *)
Fixpoint proto_ok (ids : list N) (ops : list fop) : Prop :=
  match ops with
  | [] => True
  | FStart id _ _ c :: r => c <> None /\ proto_ok (ids ++ [id]) r
  | FOutput id _ :: r => In id ids /\ proto_ok ids r
  | FFinish id _ c _ _ _ :: r => In id ids /\ c <> None /\ proto_ok (remove_one id ids) r
  | FPrint _ cols :: r => (2 <= cols)%nat /\ proto_ok ids r
  | _ :: r => proto_ok ids r
  end.

Definition nprints (ops : list fop) : nat :=
  length (filter (fun o => match o with FPrint _ _ => true | _ => false end) ops).

Definition lasts_valid (st : fstate) : Prop :=
  Forall (fun t => forall l, ft_last t = Some l -> utf8_strict l = true) (fs_tasks st).

Lemma set_last_spec : forall ts id line,
  In id (map ft_id ts) ->
  exists ts', set_last ts id line = Some ts' /\ map ft_id ts' = map ft_id ts /\
              (utf8_strict line = true ->
               Forall (fun t => forall l, ft_last t = Some l -> utf8_strict l = true) ts ->
               Forall (fun t => forall l, ft_last t = Some l -> utf8_strict l = true) ts').
Proof.
  induction ts as [|t r IH]; intros id line Hin; [destruct Hin|].
  cbn [set_last]. destruct (ft_id t =? id)%N eqn:E.
  - eexists. split; [reflexivity|]. split; [reflexivity|].
    intros Hl V. inversion V; subst. constructor; [|assumption].
    cbn [ft_last]. intros l El. inversion El; subst. exact Hl.
  - cbn [map] in Hin. destruct Hin as [Hin|Hin]; [apply N.eqb_neq in E; contradiction|].
    destruct (IH id line Hin) as [r' [Er [Em Hv]]]. rewrite Er.
    eexists. split; [reflexivity|]. split; [cbn [map]; now rewrite Em|].
    intros Hl V. inversion V; subst. constructor; [assumption | apply Hv; assumption].
Qed.

Lemma remove_task_spec : forall ts id,
  In id (map ft_id ts) ->
  exists ts', remove_task ts id = Some ts' /\ map ft_id ts' = remove_one id (map ft_id ts) /\
              (forall P : ftask -> Prop, Forall P ts -> Forall P ts').
Proof.
  induction ts as [|t r IH]; intros id Hin; [destruct Hin|].
  cbn [remove_task map remove_one]. destruct (ft_id t =? id)%N eqn:E.
  - eexists. split; [reflexivity|]. split; [reflexivity|]. intros P V. now inversion V.
  - cbn [map] in Hin. destruct Hin as [Hin|Hin]; [apply N.eqb_neq in E; contradiction|].
    destruct (IH id Hin) as [r' [Er [Em Hv]]]. rewrite Er.
    eexists. split; [reflexivity|]. split; [cbn [map]; now rewrite Em|].
    intros P V. inversion V; subst. constructor; [assumption | apply Hv; assumption].
Qed.

Lemma build_message_some d c : c <> None -> exists m, build_message d c = Ok m.
Proof.
  intros Hc. unfold build_message. destruct d as [[|x d]|]; destruct c as [c|]; try contradiction; eauto.
Qed.

Lemma f_step_ok frames st o :
  proto_ok (map ft_id (fs_tasks st)) [o] -> lasts_valid st ->
  exists frames' st', f_step (frames, st) o = Ok (frames', st') /\
    map ft_id (fs_tasks st') = track (map ft_id (fs_tasks st)) [o] /\
    length frames' = (length frames + nprints [o])%nat /\
    lasts_valid st'.
Proof.
  intros Hp Hv. destruct o as [c|id now d c|id l|id d c h t out|m|now cols]; cbn [f_step proto_ok track] in *.
  - do 2 eexists. split; [reflexivity|]. cbn. repeat split; auto; lia.
  - destruct Hp as [Hc _]. unfold f_task_started.
    destruct (build_message_some d c Hc) as [m Em]. rewrite Em.
    destruct c as [c|]; [|contradiction].
    destruct (fs_verbose st); cbn [bind]; do 2 eexists; (split; [reflexivity|]); cbn [fs_tasks];
      rewrite map_app; cbn [map ft_id nprints filter length]; (split; [reflexivity|]); (split; [lia|]);
      unfold lasts_valid; cbn [fs_tasks]; apply Forall_app; (split; [exact Hv|]);
      constructor; [cbn [ft_last]; discriminate | constructor | cbn [ft_last]; discriminate | constructor].
  - destruct Hp as [Hin _]. unfold f_task_output.
    destruct (set_last_spec (fs_tasks st) id (lossy l) Hin) as [ts' [Es [Em Hl]]]. rewrite Es. cbn [bind].
    do 2 eexists. split; [reflexivity|]. cbn [fs_tasks]. split; [exact Em|]. split; [cbn; lia|].
    unfold lasts_valid. cbn [fs_tasks]. apply Hl; [apply lossy_strict | exact Hv].
  - destruct Hp as [Hin [Hc _]]. unfold f_task_finished.
    destruct (remove_task_spec (fs_tasks st) id Hin) as [ts' [Es [Em Hl]]]. rewrite Es.
    destruct (build_message_some d c Hc) as [m Emsg]. rewrite Emsg.
    match goal with |- context [if ?q then _ else _] => destruct q end; cbn [bind];
      do 2 eexists; (split; [reflexivity|]); cbn [fs_tasks]; (split; [exact Em|]); (split; [cbn; lia|]);
      unfold lasts_valid; cbn [fs_tasks]; apply Hl; exact Hv.
  - do 2 eexists. split; [reflexivity|]. cbn. repeat split; auto; lia.
  - destruct Hp as [Hc _]. destruct (frame_spec st now cols Hc) as [b [Eb _]]. rewrite Eb. cbn [bind fst snd].
    do 2 eexists. split; [reflexivity|]. cbn [fs_tasks]. split; [reflexivity|].
    split; [rewrite app_length; cbn; lia | exact Hv].
Qed.

Lemma proto_ok_cons ids o r : proto_ok ids (o :: r) <-> proto_ok ids [o] /\ proto_ok (track ids [o]) r.
Proof. destruct o; cbn [proto_ok track]; tauto. Qed.

Lemma track_cons ids o r : track ids (o :: r) = track (track ids [o]) r.
Proof. destruct o; reflexivity. Qed.

Lemma f_run_ok : forall ops frames st,
  proto_ok (map ft_id (fs_tasks st)) ops -> lasts_valid st ->
  exists frames' st', f_run (frames, st) ops = Ok (frames', st') /\
    map ft_id (fs_tasks st') = track (map ft_id (fs_tasks st)) ops /\
    length frames' = (length frames + nprints ops)%nat /\
    lasts_valid st'.
Proof.
  induction ops as [|o r IH]; intros frames st Hp Hv.
  - do 2 eexists. split; [reflexivity|]. cbn. repeat split; auto.
  - apply proto_ok_cons in Hp as [H1 H2].
    destruct (f_step_ok frames st o H1 Hv) as [f1 [s1 [E1 [M1 [L1 V1]]]]].
    cbn [f_run]. rewrite E1. cbn [bind]. rewrite <- M1 in H2.
    destruct (IH f1 s1 H2 V1) as [f2 [s2 [E2 [M2 [L2 V2]]]]].
    exists f2, s2. split; [exact E2|]. split; [rewrite M2, M1; symmetry; apply track_cons|]. split; [|exact V2].
    rewrite L2, L1. unfold nprints. cbn [filter]. destruct o; cbn [length]; lia.
Qed.

(* under the protocol nothing panics, one frame is painted per print_progress, the commands on
   display are exactly those started and not finished, oldest first, and every last-output line
   held by the state is well-formed UTF-8 whatever bytes the commands wrote *)
Theorem protocol_total verbose ops :
  proto_ok [] ops ->
  exists frames st, f_run0 verbose ops = Ok (frames, st) /\
    map ft_id (fs_tasks st) = track [] ops /\ length frames = nprints ops /\ lasts_valid st.
Proof.
  intros Hp. unfold f_run0.
  destruct (f_run_ok ops [] (f_new verbose) Hp ltac:(constructor)) as [f [s [E [M [L V]]]]].
  exists f, s. repeat split; assumption.
Qed.

(* outside the protocol the code does panic: the display is not defensive *)
Example protocol_is_needed :
  f_run0 false [FOutput 1 []] = Panic 33%N /\
  f_run0 false [FFinish 1 None (Some [99%N]) false 0%N []] = Panic 34%N /\
  f_run0 false [FStart 1 0 None None] = Panic 32%N /\
  f_run0 false [FStart 1 0 None (Some [99%N]); FOutput 1 [120%N]; FPrint 0 1] = Panic 31%N.
Proof. repeat split. Qed.

(* a concrete run meeting the protocol, with a raw byte in the output and a narrow terminal *)
Example protocol_example :
  let ops := [FUpdate (mkCounts 1 0 0 2 3 0);
              FStart 7 0 (Some (bs "CC foo.o")) (Some (bs "cc -c foo.c"));
              FStart 9 100 None (Some (bs "ld -o prog foo.o bar.o baz.o"));
              FOutput 9 [119; 255; 33]%N; FPrint 3500 12;
              FFinish 7 (Some (bs "CC foo.o")) (Some (bs "cc -c foo.c")) false 2%N (bs "boom"); FPrint 4000 12] in
  proto_ok [] ops /\
  exists f1 f2 st, f_run0 false ops = Ok ([f1; f2], st) /\ map ft_id (fs_tasks st) = [9%N] /\
    f1 = status_line (mkCounts 1 0 0 2 3 0) 2 ++ bs "CC f... (3s)" ++ [10%N] ++ bs "ld -... (3s)" ++ [10%N]
         ++ bs "  w" ++ u_repl ++ bs "!" ++ [10%N] ++ cursor_up 4.
Proof.
  cbv zeta. split.
  - cbn. repeat split; try discriminate; auto; lia.
  - do 3 eexists. split; [vm_compute; reflexivity|]. split; vm_compute; reflexivity.
Qed.
