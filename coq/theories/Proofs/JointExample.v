(* A concrete instance (non-vacuity of the joint hypotheses, and the null build computed):
   one step  o <- cc a  that reports the dependencies a (declared) and x/../h (kept as "h").
   Work 1 runs it and records; Work 2 on the resulting tree and log accepts the clean trace and
   rejects a dirty verdict. *)
From Coq Require Import String List NArith ZArith.
From N2 Require Import Model.All Proofs.SchedSpec Proofs.JointSpec Proofs.WorldSpec.
Import ListNotations.
Local Open Scope string_scope.

Definition ex_g : graph :=
  mkGraph [mkBuild [0] 1 0 0 [1] false None] [mkFile (bs "a") None [0]; mkFile (bs "o") (Some 0) []].
Definition ex_wg : wgraph := mkWGraph [mkWBuild [bs "a"] 1 0 0 [bs "o"] (Some (bs "cc")) None] [(bs "o", 0)].
Definition ex_cf := mkConfig ex_g 1 false.
Definition ex_s : bstates :=
  match want_targets ex_g (bs_new 1 [], []) [1] with Ok w => fst w | _ => bs_new 1 [] end.
Definition ex_fs0 : fsmap := [(bs "h", (1%N, 1%N)); (bs "a", (1%N, 0%N))].
Definition ex_w0 : wstate :=
  match load_state ex_wg ex_fs0 signature with Ok w => w | _ => mkW [] [] [] [] [] [] end.
Definition ex_h : N := 8172001350084429517%N.
Definition ex_tr1 : list jitem :=
  [JUpdate (bs_counts ex_s); JPop 0; JVerdict 0 VDirty; JSet 0 Ready Queued; JSet 0 Queued Running;
   JStart 0; JWrite (bs "o") (Some (2%N, 0%N)); JFinish 0 TSuccess (Some [bs "a"; bs "x/../h"]);
   JRecord 0 ex_h; JSet 0 Running Done; JReturn (Some true)].
Definition ex_w1 : wstate :=
  match replay ex_wg ex_w0 None (proj_w false None ex_tr1) 0 with WOk w => w | _ => ex_w0 end.
Definition ex_w20 : wstate :=
  match load_state ex_wg (ws_fs ex_w1) (ws_log ex_w1) with Ok w => w | _ => ex_w0 end.
Definition ex_tr2 : list jitem :=
  [JUpdate (bs_counts ex_s); JPop 0; JVerdict 0 VClean; JSet 0 Ready Done; JReturn (Some true)].
Definition ex_tr2_dirty : list jitem := [JUpdate (bs_counts ex_s); JPop 0; JVerdict 0 VDirty].

Definition is_ok (c : wcheck) : bool := match c with WOk _ => true | _ => false end.
Definition returned (o : option rstate) : option (ctl * nat) :=
  match o with Some r => Some (rs_ctl r, rs_tasks_run r) | None => None end.

Lemma ex_wanted : wanted ex_g (bs_new 1 []) ex_s.
Proof.
  apply (w_step ex_g (bs_new 1 []) (bs_new 1 []) ex_s [] [(0, Ready)] 1 false); [constructor|].
  vm_compute. reflexivity.
Qed.

Lemma ex_work1 :
  returned (accepts ex_cf (run_init ex_s None) (proj_s ex_tr1)) = Some (CReturned (Some true), 1) /\
  is_ok (replay ex_wg ex_w0 None (proj_w false None ex_tr1) 0) = true /\
  disc_of ex_w1 0 = [bs "h"] /\ load_state ex_wg ex_fs0 signature = Ok ex_w0 /\
  load_state ex_wg (ws_fs ex_w1) (ws_log ex_w1) = Ok ex_w20.
Proof. vm_compute. repeat split; reflexivity. Qed.

Lemma ex_writes_ok : writes_ok ex_wg [] ex_tr1.
Proof. cbn. split; [|exact I]. exists 0. split; [now left|now left]. Qed.

Lemma ex_work2 :
  returned (accepts ex_cf (run_init ex_s None) (proj_s ex_tr2)) = Some (CReturned (Some true), 0) /\
  is_ok (replay ex_wg ex_w20 None (proj_w false None ex_tr2) 0) = true /\
  is_ok (replay ex_wg ex_w20 None (proj_w false None ex_tr2_dirty) 0) = false.
Proof. vm_compute. repeat split; reflexivity. Qed.
