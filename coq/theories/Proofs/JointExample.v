(* A concrete instance (non-vacuity of the joint hypotheses, and the null build computed):
   one step  o <- cc a  that reports the dependencies a (declared) and x/../h (kept as "h").
   Work 1 runs it and records; Work 2 on the resulting tree and log accepts the clean trace and
   rejects a dirty verdict. *)
From Coq Require Import String List NArith ZArith Lia.
From N2 Require Import Model.All Proofs.SchedSpec Proofs.DbSpec Proofs.JointSpec Proofs.WorldSpec.
From N2 Require Import Proofs.JointMain Proofs.JointVacuity.
Import ListNotations.
Local Open Scope string_scope.

Definition ex_g : graph :=
  mkGraph [mkBuild [0] 1 0 0 [1] false None] [mkFile (bs "a") None [0]; mkFile (bs "o") (Some 0) []].
Definition ex_wg : wgraph := mkWGraph [mkWBuild [bs "a"] 1 0 0 [bs "o"] (Some (bs "cc")) None] [(bs "o", 0)].
Definition ex_cf := mkConfig ex_g 1 false.
Definition ex_s : bstates :=
  match want_targets ex_g (bs_new 1 [], []) [1] with Ok w => fst w | _ => bs_new 1 [] end.
Definition ex_fs0 : fsmap := [(bs "h", (1%N, 1%N)); (bs "a", (1%N, 0%N))].
Definition ex_w0 : wstate :=
  match load_state ex_wg ex_fs0 signature with Ok w => w | _ => mkW [] [] [] [] [] [] end.
Definition ex_h : N := 8172001350084429517%N.
Definition ex_tr1 : list jitem :=
  [JUpdate (bs_counts ex_s); JPop 0; JVerdict 0 VDirty; JSet 0 Ready Queued; JSet 0 Queued Running;
   JStart 0; JWrite (bs "o") (Some (2%N, 0%N)); JFinish 0 TSuccess (Some [bs "a"; bs "x/../h"]);
   JRecord 0 ex_h; JSet 0 Running Done; JReturn (Some true)].
Definition ex_w1 : wstate :=
  match replay ex_wg ex_w0 None (proj_w false None ex_tr1) 0 with WOk w => w | _ => ex_w0 end.
Definition ex_w20 : wstate :=
  match load_state ex_wg (ws_fs ex_w1) (ws_log ex_w1) with Ok w => w | _ => ex_w0 end.
Definition ex_tr2 : list jitem :=
  [JUpdate (bs_counts ex_s); JPop 0; JVerdict 0 VClean; JSet 0 Ready Done; JReturn (Some true)].
Definition ex_tr2_dirty : list jitem := [JUpdate (bs_counts ex_s); JPop 0; JVerdict 0 VDirty].

Definition is_ok (c : wcheck) : bool := match c with WOk _ => true | _ => false end.
Definition returned (o : option rstate) : option (ctl * nat) :=
  match o with Some r => Some (rs_ctl r, rs_tasks_run r) | None => None end.

Lemma ex_wanted : wanted ex_g (bs_new 1 []) ex_s.
Proof.
  apply (w_step ex_g (bs_new 1 []) (bs_new 1 []) ex_s [] [(0, Ready)] 1 false); [constructor|].
  vm_compute. reflexivity.
Qed.

Lemma ex_work1 :
  returned (accepts ex_cf (run_init ex_s None) (proj_s ex_tr1)) = Some (CReturned (Some true), 1) /\
  is_ok (replay ex_wg ex_w0 None (proj_w false None ex_tr1) 0) = true /\
  disc_of ex_w1 0 = [bs "h"] /\ load_state ex_wg ex_fs0 signature = Ok ex_w0 /\
  load_state ex_wg (ws_fs ex_w1) (ws_log ex_w1) = Ok ex_w20.
Proof. vm_compute. repeat split; reflexivity. Qed.

Lemma ex_writes_ok : writes_ok ex_wg [] ex_tr1.
Proof. cbn. split; [|exact I]. exists 0. split; [now left|now left]. Qed.

Lemma ex_work2 :
  returned (accepts ex_cf (run_init ex_s None) (proj_s ex_tr2)) = Some (CReturned (Some true), 0) /\
  is_ok (replay ex_wg ex_w20 None (proj_w false None ex_tr2) 0) = true /\
  is_ok (replay ex_wg ex_w20 None (proj_w false None ex_tr2_dirty) 0) = false.
Proof. vm_compute. repeat split; reflexivity. Qed.

(* ------------------------------------------------------------------------------------ *)
(* Non-vacuity of C03_null_build_invocation: a project with two chained steps

     o <- cc a      (reports a, which is declared, and x/../h, kept as "h")
     p <- ld o      (reports nothing)

   Work 1 starts from an empty log, runs and records both steps and returns success; Work 2
   on the tree and the log Work 1 left finds both clean.  Every hypothesis of the theorem holds
   for these values ([nv_hyps]); the log after Work 1 holds two build records, so the premise
   the theorem used to carry fails here ([nv_old_premise_fails]). *)

Definition nv_g : graph :=
  mkGraph [mkBuild [0] 1 0 0 [1] false None; mkBuild [1] 1 0 0 [2] false None]
          [mkFile (bs "a") None [0]; mkFile (bs "o") (Some 0) [1]; mkFile (bs "p") (Some 1) []].
Definition nv_wg : wgraph :=
  mkWGraph [mkWBuild [bs "a"] 1 0 0 [bs "o"] (Some (bs "cc")) None;
            mkWBuild [bs "o"] 1 0 0 [bs "p"] (Some (bs "ld")) None] [(bs "o", 0); (bs "p", 1)].
Definition nv_cf := mkConfig nv_g 1 false.
Definition nv_s : bstates :=
  match want_targets nv_g (bs_new 2 [], []) [2] with Ok w => fst w | _ => bs_new 2 [] end.
Definition nv_fs0 : fsmap := [(bs "h", (1%N, 1%N)); (bs "a", (1%N, 0%N))].
Definition nv_wp : wstate := mkW [] [] [] [] [] signature.
Definition nv_w0 : wstate :=
  match load_state nv_wg nv_fs0 (ws_log nv_wp) with Ok w => w | _ => nv_wp end.
Definition nv_h0 : N := 8172001350084429517%N.
Definition nv_h1 : N := 17431866117220885716%N.
Definition nv_pre1 : list jitem :=
  [JUpdate (bs_counts nv_s); JPop 0; JVerdict 0 VDirty; JSet 0 Ready Queued; JSet 0 Queued Running;
   JStart 0; JWrite (bs "o") (Some (2%N, 0%N)); JFinish 0 TSuccess (Some [bs "a"; bs "x/../h"]);
   JRecord 0 nv_h0; JSet 0 Running Done; JSet 1 Want Ready; JUpdate (mkC6 0 1 0 0 1 0); JPop 1;
   JVerdict 1 VDirty; JSet 1 Ready Queued; JSet 1 Queued Running;
   JStart 1; JWrite (bs "p") (Some (3%N, 0%N)); JFinish 1 TSuccess None;
   JRecord 1 nv_h1; JSet 1 Running Done].
Definition nv_tr1 : list jitem := nv_pre1 ++ [JReturn (Some true)].
Definition nv_r1 : rstate :=
  match accepts nv_cf (run_init nv_s None) (proj_s nv_tr1) with Some r => r | None => run_init nv_s None end.
Definition nv_w1 : wstate :=
  match replay nv_wg nv_w0 None (proj_w false None nv_tr1) 0 with WOk w => w | _ => nv_w0 end.
Definition nv_w20 : wstate :=
  match load_state nv_wg (ws_fs nv_w1) (ws_log nv_w1) with Ok w => w | _ => nv_w0 end.
Definition nv_tr2 : list jitem :=
  [JUpdate (bs_counts nv_s); JPop 0; JVerdict 0 VClean; JSet 0 Ready Done; JSet 1 Want Ready;
   JUpdate (mkC6 0 1 0 0 1 0); JPop 1; JVerdict 1 VClean; JSet 1 Ready Done; JReturn (Some true)].
Definition nv_r2 : rstate :=
  match accepts nv_cf (run_init nv_s None) (proj_s nv_tr2) with Some r => r | None => run_init nv_s None end.
Definition nv_w2 : wstate :=
  match replay nv_wg nv_w20 None (proj_w false None nv_tr2) 0 with WOk w => w | _ => nv_w20 end.

Lemma nv_graph_wf : graph_wf nv_g.
Proof.
  split.
  - intros f b H. destruct f as [|[|[|[|f]]]]; vm_compute in H; try discriminate H; injection H as <-;
      cbn; lia.
  - intros b f Lb H. cbn in Lb. destruct b as [|[|b]]; [| |lia]; cbn in H; destruct H as [<-|[]]; cbn; lia.
Qed.

Lemma nv_graphs_agree : graphs_agree nv_g nv_wg.
Proof.
  constructor.
  - reflexivity.
  - intros i Li. cbn in Li. destruct i as [|[|i]]; [| |lia]; cbn; repeat split; intro H; discriminate H.
  - intros f1 f2 L1 L2 H. cbn in L1, L2.
    destruct f1 as [|[|[|f1]]]; [| | |lia]; (destruct f2 as [|[|[|f2]]]; [| | |lia]);
      try reflexivity; vm_compute in H; discriminate H.
  - intros f Lf. cbn in Lf. destruct f as [|[|[|f]]]; [| | |lia]; vm_compute; reflexivity.
  - intros f b. split.
    + intro H. destruct f as [|[|[|[|f]]]]; vm_compute in H; try discriminate H; injection H as <-;
        (split; [cbn; lia|cbn; now left]).
    + intros (Lb & H). cbn in Lb. destruct b as [|[|b]]; [| |lia]; cbn in H; destruct H as [<-|[]];
        reflexivity.
Qed.

Lemma nv_wanted : wanted nv_g (bs_new 2 []) nv_s.
Proof.
  apply (w_step nv_g (bs_new 2 []) (bs_new 2 []) nv_s [] [(0, Ready); (1, Want)] 2 false); [constructor|].
  vm_compute. reflexivity.
Qed.

Lemma nv_records : work_records nv_wg nv_w1 nv_pre1 = [mkWr [bs "o"] [bs "h"] nv_h0; mkWr [bs "p"] [] nv_h1].
Proof. vm_compute. reflexivity. Qed.

Lemma nv_in_bounds : Forall in_bounds (work_records nv_wg nv_w1 nv_pre1).
Proof.
  rewrite nv_records.
  repeat constructor; cbn [w_outs w_deps w_hash app In];
    try (vm_compute; reflexivity);
    intros n Hn; repeat (destruct Hn as [<-|Hn]; [vm_compute; reflexivity|]); destruct Hn.
Qed.

Lemma nv_table_small : table_small ([] ++ work_records nv_wg nv_w1 nv_pre1).
Proof. cbn [app]. rewrite nv_records. vm_compute. reflexivity. Qed.

Lemma nv_log_is1 : log_is nv_w1 ([mkWr [bs "o"] [bs "h"] nv_h0] ++ [mkWr [bs "p"] [] nv_h1]).
Proof.
  eexists. split; [vm_compute; reflexivity|]. vm_compute. reflexivity.
Qed.

(* the premise the theorem used to carry does not hold in this instance *)
Lemma nv_old_premise_fails :
  ~ (forall ws1, log_is nv_w1 ws1 -> Forall in_bounds ws1 /\ table_small ws1).
Proof. exact (old_log_premise_unsatisfiable nv_w1 _ _ nv_log_is1). Qed.

(* the hypotheses of C03_null_build_invocation, followed by [X] *)
Definition null_build_hyps_and (X : Prop)
         (cf cf2 : config) (decls decls2 : list (bytes * nat)) (wg : wgraph) (wp : wstate) (ws0 : list wr)
         (fs0 : fsmap) (w0 : wstate) (s1 : bstates) (fl1 : option nat) (pre1 : list jitem) (r1 : rstate)
         (w1 : wstate) (w20 : wstate) (s2 : bstates) (fl2 : option nat) (tr2 : list jitem) (r2 : rstate)
         (w2 : wstate) : Prop :=
  graph_wf (cf_graph cf) /\ graphs_agree (cf_graph cf) wg /\ cf_graph cf2 = cf_graph cf /\
  cf_adopt cf = false /\
  (forall b, b < length (g_builds (cf_graph cf)) -> wb_outs (get_wbuild wg b) <> []) /\
  log_is wp ws0 /\ Forall in_bounds ws0 /\ table_small ws0 /\ load_state wg fs0 (ws_log wp) = Ok w0 /\
  wanted (cf_graph cf) (bs_new (length (g_builds (cf_graph cf))) decls) s1 /\
  jaccepted cf wg (run_init s1 fl1) w0 (pre1 ++ [JReturn (Some true)]) r1 w1 /\
  writes_ok wg [] (pre1 ++ [JReturn (Some true)]) /\
  (forall b d, get_state s1 b <> Unknown -> In d (disc_of w0 b) -> producer_of wg d = None) /\
  (forall b t rep n d, In (JFinish b t rep) pre1 -> In n (reported_names rep) -> n <> [] ->
                       canon n = Ok d -> producer_of wg d = None) /\
  (forall b n, b < length (g_builds (cf_graph cf)) -> wb_cmdline (get_wbuild wg b) <> None ->
               get_state s1 b <> Unknown ->
               In n (wb_dirtying (get_wbuild wg b) ++ disc_of w1 b ++ wb_outs (get_wbuild wg b)) ->
               fs_get (ws_fs w1) n <> None) /\
  Forall in_bounds (work_records wg w1 pre1) /\ table_small (ws0 ++ work_records wg w1 pre1) /\
  load_state wg (ws_fs w1) (ws_log w1) = Ok w20 /\
  wanted (cf_graph cf) (bs_new (length (g_builds (cf_graph cf))) decls2) s2 /\
  (forall b, get_state s2 b <> Unknown -> get_state s1 b <> Unknown) /\
  jaccepted cf2 wg (run_init s2 fl2) w20 tr2 r2 w2 /\ writes_ok wg [] tr2 /\
  X.

(* ... they are the hypotheses of the theorem *)
Lemma null_build_hyps_use X
         (cf cf2 : config) (decls decls2 : list (bytes * nat)) (wg : wgraph) (wp : wstate) (ws0 : list wr)
         (fs0 : fsmap) (w0 : wstate) (s1 : bstates) (fl1 : option nat) (pre1 : list jitem) (r1 : rstate)
         (w1 : wstate) (w20 : wstate) (s2 : bstates) (fl2 : option nat) (tr2 : list jitem) (r2 : rstate)
         (w2 : wstate) :
  null_build_hyps_and X cf cf2 decls decls2 wg wp ws0 fs0 w0 s1 fl1 pre1 r1 w1 w20 s2 fl2 tr2 r2 w2 ->
  ((forall b, ~ In (JStart b) tr2) /\ (forall b v, In (JVerdict b v) tr2 -> v = VClean) /\
   (forall n t, ~ In (JWrite n t) tr2) /\ (forall b h, ~ In (JRecord b h) tr2) /\
   (forall ok, In (JReturn ok) tr2 -> ok = Some true) /\ rs_tasks_run r2 = 0) /\ X.
Proof.
  intros (H1 & H2 & H3 & H4 & H5 & H6 & H7 & H8 & H9 & H10 & H11 & H12 & H13 & H14 & H15 & H16 & H17 &
          H18 & H19 & H20 & H21 & H22 & HX).
  split; [|exact HX].
  exact (null_build_invocation_trace cf cf2 decls decls2 wg wp ws0 fs0 w0 s1 fl1 pre1 r1 w1 w20 s2 fl2
           tr2 r2 w2
           H1 H2 H3 H4 H5 H6 H7 H8 H9 H10 H11 H12 H13 H14 H15 H16 H17 H18 H19 H20 H21 H22).
Qed.

Lemma nv_hyps_hold :
  null_build_hyps_and
    ((* Work 1 recorded two steps, one of them with a discovered dependency; Work 2 is not empty *)
    In (JRecord 0 8172001350084429517%N) nv_pre1 /\ In (JRecord 1 17431866117220885716%N) nv_pre1 /\
    length (work_records nv_wg nv_w1 nv_pre1) = 2 /\ disc_of nv_w1 0 <> [] /\
    In (JVerdict 0 VClean) nv_tr2 /\ In (JVerdict 1 VClean) nv_tr2 /\ In (JReturn (Some true)) nv_tr2 /\
    (* and the premise the theorem used to carry is false here *)
    ~ (forall ws1, log_is nv_w1 ws1 -> Forall in_bounds ws1 /\ table_small ws1))
    nv_cf nv_cf [] [] nv_wg nv_wp [] nv_fs0 nv_w0 nv_s None nv_pre1 nv_r1 nv_w1 nv_w20 nv_s None nv_tr2
    nv_r2 nv_w2.
Proof.
  unfold null_build_hyps_and.
  split; [exact nv_graph_wf|]. split; [exact nv_graphs_agree|]. split; [reflexivity|]. split; [reflexivity|].
  split. { intros b Lb. cbn in Lb. destruct b as [|[|b]]; [| |lia]; cbn; discriminate. }
  split. { exists []. split; reflexivity. }
  split; [constructor|]. split; [vm_compute; reflexivity|]. split; [vm_compute; reflexivity|].
  split; [exact nv_wanted|].
  split. { split; vm_compute; reflexivity. }
  split. { cbn. split; [exists 0; split; now left|]. split; [exists 1; split; now left|exact I]. }
  split. { intros b d _ Hd. assert (E : ws_disc nv_w0 = []) by (vm_compute; reflexivity).
           unfold disc_of in Hd. rewrite E in Hd. destruct Hd. }
  split. { intros b t rep n d Hin Hn Hne Hc. cbn [nv_pre1 In] in Hin.
           repeat (destruct Hin as [Hin|Hin]; [try discriminate Hin|]); [| |destruct Hin].
           - injection Hin as <- <- <-. cbn [reported_names In] in Hn.
             destruct Hn as [<-|[<-|[]]]; vm_compute in Hc; injection Hc as <-; vm_compute; reflexivity.
           - injection Hin as <- <- <-. destruct Hn. }
  split. { intros b n Lb _ _ Hn X. cbn in Lb. destruct b as [|[|b]]; [| |lia]; vm_compute in Hn;
           repeat (destruct Hn as [<-|Hn]; [vm_compute in X; discriminate X|]); destruct Hn. }
  split; [exact nv_in_bounds|]. split; [exact nv_table_small|]. split; [vm_compute; reflexivity|].
  split; [exact nv_wanted|]. split; [tauto|].
  split. { split; vm_compute; reflexivity. }
  split; [exact I|].
  split; [cbn; tauto|]. split; [cbn; tauto|]. split; [now rewrite nv_records|].
  split. { intro H. vm_compute in H. discriminate H. }
  split; [cbn; tauto|]. split; [cbn; tauto|]. split; [cbn; tauto|].
  exact nv_old_premise_fails.
Qed.

Lemma nv_hyps :
  exists (cf cf2 : config) (decls decls2 : list (bytes * nat)) (wg : wgraph) (wp : wstate) (ws0 : list wr)
         (fs0 : fsmap) (w0 : wstate) (s1 : bstates) (fl1 : option nat) (pre1 : list jitem) (r1 : rstate)
         (w1 : wstate) (w20 : wstate) (s2 : bstates) (fl2 : option nat) (tr2 : list jitem) (r2 : rstate)
         (w2 : wstate),
  graph_wf (cf_graph cf) /\ graphs_agree (cf_graph cf) wg /\ cf_graph cf2 = cf_graph cf /\
  cf_adopt cf = false /\
  (forall b, b < length (g_builds (cf_graph cf)) -> wb_outs (get_wbuild wg b) <> []) /\
  log_is wp ws0 /\ Forall in_bounds ws0 /\ table_small ws0 /\ load_state wg fs0 (ws_log wp) = Ok w0 /\
  wanted (cf_graph cf) (bs_new (length (g_builds (cf_graph cf))) decls) s1 /\
  jaccepted cf wg (run_init s1 fl1) w0 (pre1 ++ [JReturn (Some true)]) r1 w1 /\
  writes_ok wg [] (pre1 ++ [JReturn (Some true)]) /\
  (forall b d, get_state s1 b <> Unknown -> In d (disc_of w0 b) -> producer_of wg d = None) /\
  (forall b t rep n d, In (JFinish b t rep) pre1 -> In n (reported_names rep) -> n <> [] ->
                       canon n = Ok d -> producer_of wg d = None) /\
  (forall b n, b < length (g_builds (cf_graph cf)) -> wb_cmdline (get_wbuild wg b) <> None ->
               get_state s1 b <> Unknown ->
               In n (wb_dirtying (get_wbuild wg b) ++ disc_of w1 b ++ wb_outs (get_wbuild wg b)) ->
               fs_get (ws_fs w1) n <> None) /\
  Forall in_bounds (work_records wg w1 pre1) /\ table_small (ws0 ++ work_records wg w1 pre1) /\
  load_state wg (ws_fs w1) (ws_log w1) = Ok w20 /\
  wanted (cf_graph cf) (bs_new (length (g_builds (cf_graph cf))) decls2) s2 /\
  (forall b, get_state s2 b <> Unknown -> get_state s1 b <> Unknown) /\
  jaccepted cf2 wg (run_init s2 fl2) w20 tr2 r2 w2 /\ writes_ok wg [] tr2 /\
  (* Work 1 recorded two steps, one of them with a discovered dependency; Work 2 is not empty *)
  In (JRecord 0 8172001350084429517%N) pre1 /\ In (JRecord 1 17431866117220885716%N) pre1 /\
  length (work_records wg w1 pre1) = 2 /\ disc_of w1 0 <> [] /\
  In (JVerdict 0 VClean) tr2 /\ In (JVerdict 1 VClean) tr2 /\ In (JReturn (Some true)) tr2 /\
  (* and the premise the theorem used to carry is false here *)
  ~ (forall ws1, log_is w1 ws1 -> Forall in_bounds ws1 /\ table_small ws1).
Proof.
  exists nv_cf, nv_cf, [], [], nv_wg, nv_wp, [], nv_fs0, nv_w0, nv_s, None, nv_pre1, nv_r1, nv_w1, nv_w20,
         nv_s, None, nv_tr2, nv_r2, nv_w2.
  exact nv_hyps_hold.
Qed.

(* the theorem applied to the instance *)
Lemma nv_conclusion :
  (forall b, ~ In (JStart b) nv_tr2) /\ (forall b v, In (JVerdict b v) nv_tr2 -> v = VClean) /\
  (forall n t, ~ In (JWrite n t) nv_tr2) /\ (forall b h, ~ In (JRecord b h) nv_tr2) /\
  (forall ok, In (JReturn ok) nv_tr2 -> ok = Some true) /\ rs_tasks_run nv_r2 = 0.
Proof. exact (proj1 (null_build_hyps_use _ _ _ _ _ _ _ _ _ _ _ _ _ _ _ _ _ _ _ _ _ nv_hyps_hold)). Qed.
