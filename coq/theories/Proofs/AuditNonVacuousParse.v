(* audit file: AuditNonVacuousParse

   Machine-checked NON-VACUITY examples for the theorems of Props/C10.v (parser half) and
   Props/C12.v.  Every example has the shape

     exists <the universally quantified variables of the theorem>,
       <ALL premises of the theorem> /\ <a fact showing that the instance is not degenerate>

   with concrete witnesses (the texts of Proofs/ParseRoundEx.v).  For the roundtrip theorems whose
   conclusion is [... = SFuel \/ ...] the extra fact is that the model, run with a realistic fuel,
   does NOT return SFuel on the instance (so the second, interesting branch is the one that holds). *)
From Coq Require Import String.
From N2 Require Import Model.All.
From N2 Require Import Proofs.ParseSpell Proofs.ParseRoundEx Proofs.ParseSpec Proofs.ParseSafeStmt.
From N2 Require Import Proofs.EvalFiles Proofs.LoadGraphEx Proofs.LoadInclEx.
From N2 Require Props.C10 Props.C12.

(* ------------------------------------------------------------------------------------ *)
(* helpers *)

Lemma notin13 (l : bytes) : forallb (fun c => negb (c =? 13)%N) l = true -> ~ In 13%N l.
Proof.
  intros H I. rewrite forallb_forall in H. specialize (H _ I). discriminate H.
Qed.

Ltac no13 := apply notin13; vm_compute; reflexivity.

(* the build line and the block of ParseRoundEx.ex_text_a, named *)
Definition exL_a : bytes :=
  (bs "a.o" ++ sp1 ++ []) ++ (124%N :: sp1 ++ bs "a.map" ++ [] ++ []) ++ [58%N] ++ sp1 ++ bs "cc" ++
  (sp1 ++ bs "a.c" ++ sp1 ++ []) ++
  (124%N :: (sp1 ++ bs "h.h" ++ sp1 ++ []) ++
   (124%N :: 124%N :: (sp1 ++ bs "gen" ++ sp1 ++ []) ++
    (124%N :: 64%N :: (sp1 ++ bs "val" ++ [] ++ []) ++ [10%N]))).
Definition exBt_a : bytes :=
  repeat 32%N 2 ++ bs "cflags" ++ sp1 ++ [61%N] ++ sp1 ++ bs "-O2" ++ [10%N] ++ [].

Lemma exL_a_spells : spells_build_line ex_decl exL_a.
Proof. exact ex_line_a. Qed.
Lemma exBt_a_spells : spells_block (fun _ => true) ex_block exBt_a.
Proof. exact ex_block_a. Qed.

(* the build statement of the examples, on line 4 (behind ex_filler, which has three newlines) *)
Definition ex_build4 : statement := SBuild (decl_build ex_decl 4 (block_vars ex_block)).

Lemma ex_spells_a4 : spells_stmt (1 + nlz ex_filler) ex_build4 ex_text_a.
Proof.
  exact (ss_build (1 + nlz ex_filler) sp1 ex_decl _ ex_block _ ltac:(repeat constructor)
                  ex_line_a eq_refl ex_block_a).
Qed.
Lemma ex_spells_b4 : spells_stmt (1 + nlz ex_filler) ex_build4 ex_text_b.
Proof.
  exact (ss_build (1 + nlz ex_filler) sp1 ex_decl _ ex_block _ ltac:(repeat constructor)
                  ex_line_b eq_refl ex_block_b).
Qed.

(* a second filler with the same effect and the same number of newlines: binding without optional
   spaces, blank line, comment *)
Definition ex_filler2 : bytes := bs "x=1" ++ nl ++ nl ++ bs "# other" ++ nl.

Lemma ex_filler2_spells : spells_pre [] [(bs "x", bs "1")] ex_filler2.
Proof.
  change ex_filler2 with (bs "x" ++ [] ++ [61%N] ++ [] ++ bs "1" ++ [10%N] ++
                          (10%N :: 35%N :: bs " other" ++ 10%N :: [])).
  apply (pr_bind (bs "x") [] [] (p "1") (bs "1") [] _ _);
    [split; [discriminate | reflexivity] | reflexivity | constructor | constructor
     | apply plain_value_text; [discriminate | reflexivity | discriminate] | ].
  apply pr_blank. apply pr_comment; [reflexivity | constructor].
Qed.

(* ------------------------------------------------------------------------------------ *)
(* C10_eval_roundtrip *)

Example C10_eval_roundtrip_nonvacuous :
  exists path es txt pre rest s fuel,
    spells_eval path es txt /\ txt <> [] /\ eval_stop path (rest ++ [0%N]) /\
    ~ In 13%N (pre ++ rest) /\
    sbuf s = pre ++ txt ++ rest ++ [0%N] /\ sofs s = length pre /\
    (* not degenerate: a value with every kind of piece, text in front of it, and the model does
       not run out of fuel *)
    length es = 4 /\ pre <> [] /\ read_eval fuel path s <> SFuel /\ fuel = parse_fuel (sbuf s).
Proof.
  exists false, ex1_eval, ex1_text, (bs "v = "), nl,
         (mkScanner (bs "v = " ++ ex1_text ++ nl ++ [0%N]) 4 1),
         (parse_fuel (bs "v = " ++ ex1_text ++ nl ++ [0%N])).
  split; [exact ex1_spells|]. split; [vm_compute; discriminate|].
  split; [exists 10%N, [0%N]; split; [reflexivity | left; reflexivity]|].
  split; [no13|]. split; [reflexivity|]. split; [reflexivity|].
  split; [reflexivity|]. split; [vm_compute; discriminate|].
  split; [vm_compute; discriminate | reflexivity].
Qed.

(* a path (path = true) with an escaped space, stopping at ':' *)
Example C10_eval_roundtrip_nonvacuous_path :
  exists es txt pre rest s fuel,
    spells_eval true es txt /\ txt <> [] /\ eval_stop true (rest ++ [0%N]) /\
    ~ In 13%N (pre ++ rest) /\
    sbuf s = pre ++ txt ++ rest ++ [0%N] /\ sofs s = length pre /\
    read_eval fuel true s =
      SOk [Lit (bs "a"); Lit (bs " "); Lit (bs "b.o")] (mkScanner (sbuf s) (length (pre ++ txt)) (sline s)).
Proof.
  exists [Lit (bs "a b.o")], (bs "a$ b.o"), (bs "build "), (bs ": cc" ++ nl),
         (mkScanner (bs "build " ++ bs "a$ b.o" ++ (bs ": cc" ++ nl) ++ [0%N]) 6 1), 100.
  split.
  { exists [Lit (bs "a"); Lit (bs " "); Lit (bs "b.o")]. split; [|reflexivity].
    vm_compute.
    refine (se_lit true [97%N] _ _ _ _ _); [discriminate | reflexivity|].
    refine (se_esc true 32%N _ _ _ _); [now left|].
    refine (se_lit true [98; 46; 111]%N _ [] _ _ _); [discriminate | reflexivity | constructor]. }
  split; [discriminate|].
  split; [exists 58%N, (bs " cc" ++ nl ++ [0%N]); split; [reflexivity | right; split; [reflexivity | right; left; reflexivity]]|].
  split; [no13|]. split; [reflexivity|]. split; [reflexivity|].
  vm_compute. reflexivity.
Qed.

(* ------------------------------------------------------------------------------------ *)
(* C10_build_roundtrip: entered behind "build " *)

Example C10_build_roundtrip_nonvacuous :
  exists fixed pre L Bt rest d bl s fuel,
    spells_build_line d L /\ spells_block (fun _ => true) bl Bt /\
    (exists c r, rest ++ [0%N] = c :: r /\ c <> 32%N) /\
    ~ In 13%N (sbuf s) /\
    sbuf s = pre ++ L ++ Bt ++ rest ++ [0%N] /\ sofs s = length pre /\
    (* every section of the build line is non-empty, there is a binding, something follows, and
       the model returns the build *)
    (d_outs d <> [] /\ d_iouts d <> [] /\ d_ins d <> [] /\ d_iins d <> [] /\ d_oins d <> [] /\ d_vins d <> []) /\
    bl <> [] /\ rest <> [] /\
    match read_build fixed fuel s with
    | SOk (SBuild b) s' => pb_rule b = bs "cc" /\ length (pb_ins b) = 4 /\ length (pb_outs b) = 2 /\
                           sofs s' = length (pre ++ L ++ Bt)
    | _ => False
    end.
Proof.
  exists true, (bs "build "), exL_a, exBt_a, (bs "default a.o" ++ nl), ex_decl, ex_block,
         (mkScanner (bs "build " ++ exL_a ++ exBt_a ++ (bs "default a.o" ++ nl) ++ [0%N]) 6 1), 400.
  split; [exact exL_a_spells|]. split; [exact exBt_a_spells|].
  split; [exists 100%N, (bs "efault a.o" ++ nl ++ [0%N]); split; [reflexivity | discriminate]|].
  split; [no13|]. split; [reflexivity|]. split; [reflexivity|].
  split; [repeat split; discriminate|]. split; [discriminate|]. split; [vm_compute; discriminate|].
  vm_compute. repeat split.
Qed.

(* ------------------------------------------------------------------------------------ *)
(* C10_statement_roundtrip / _total *)

Definition st_scanner_a : scanner := mkScanner (ex_filler ++ ex_text_a ++ [] ++ [0%N]) 0 1.

Example C10_statement_roundtrip_nonvacuous :
  exists fixed pre F txt rest vs vs' st s fuel,
    spells_pre vs vs' F /\ spells_stmt (sline s + nlz F) st txt /\ follow_ok st (rest ++ [0%N]) /\
    ~ In 13%N (sbuf s) /\
    sbuf s = pre ++ F ++ txt ++ rest ++ [0%N] /\ sofs s = length pre /\
    (* non-trivial filler (comment, blank line, binding), a build statement, no SFuel *)
    F <> [] /\ vs' <> vs /\
    match parser_read fixed fuel s vs with
    | SOk (Some st', vs1) s' => norm_stmt st' = norm_stmt st /\ vs1 = vs' /\ sofs s' = length (pre ++ F ++ txt)
    | _ => False
    end.
Proof.
  exists true, [], ex_filler, ex_text_a, [], [], [(bs "x", bs "1")], ex_build4, st_scanner_a, 1000.
  split; [exact ex_filler_spells|]. split; [exact ex_spells_a4|].
  split; [exists 0%N, []; split; [reflexivity | discriminate]|].
  split; [no13|]. split; [reflexivity|]. split; [reflexivity|].
  split; [vm_compute; discriminate|]. split; [discriminate|].
  vm_compute. repeat split.
Qed.

(* the other branch of [follow_ok]: an include line, followed by its newline *)
Example C10_statement_roundtrip_nonvacuous_include :
  exists fixed pre F txt rest vs vs' st s fuel,
    spells_pre vs vs' F /\ spells_stmt (sline s + nlz F) st txt /\ follow_ok st (rest ++ [0%N]) /\
    ~ In 13%N (sbuf s) /\
    sbuf s = pre ++ F ++ txt ++ rest ++ [0%N] /\ sofs s = length pre /\
    parser_read fixed fuel s vs =
      SOk (Some (SInclude [Lit (bs "a.ninja")]), vs') (mkScanner (sbuf s) (length (pre ++ F ++ txt)) (sline s + nlz (F ++ txt))).
Proof.
  exists true, [], nl, (bs "include" ++ sp1 ++ bs "a.ninja"), (nl ++ bs "build o: r" ++ nl), [], [],
         (SInclude [Lit (bs "a.ninja")]),
         (mkScanner (nl ++ (bs "include" ++ sp1 ++ bs "a.ninja") ++ (nl ++ bs "build o: r" ++ nl) ++ [0%N]) 0 1), 200.
  split; [apply pr_blank; constructor|].
  split.
  { apply ss_include; [repeat constructor | | discriminate | reflexivity].
    apply plain_value_text; [discriminate | reflexivity | discriminate]. }
  split; [exists 10%N, (bs "build o: r" ++ nl ++ [0%N]); split; reflexivity|].
  split; [no13|]. split; [reflexivity|]. split; [reflexivity|].
  vm_compute. reflexivity.
Qed.

Example C10_statement_roundtrip_total_nonvacuous :
  exists pre F txt rest vs vs' st s,
    spells_pre vs vs' F /\ spells_stmt (sline s + nlz F) st txt /\ follow_ok st (rest ++ [0%N]) /\
    ~ In 13%N (sbuf s) /\
    sbuf s = pre ++ F ++ txt ++ rest ++ [0%N] /\ sofs s = length pre /\
    F <> [] /\
    match parser_read true (parse_fuel (sbuf s)) s vs with
    | SOk (Some (SBuild b), vs1) s' => pb_line b = 4%Z /\ vs1 = vs' /\ sofs s' = length (pre ++ F ++ txt)
    | _ => False
    end.
Proof.
  exists [], ex_filler, ex_text_a, [], [], [(bs "x", bs "1")], ex_build4, st_scanner_a.
  split; [exact ex_filler_spells|]. split; [exact ex_spells_a4|].
  split; [exists 0%N, []; split; [reflexivity | discriminate]|].
  split; [no13|]. split; [reflexivity|]. split; [reflexivity|].
  split; [vm_compute; discriminate|].
  vm_compute. repeat split.
Qed.

(* the theorem applied to the instance (a check that the premises above are the theorem's) *)
Example C10_statement_roundtrip_total_applied :
  exists st', parser_read true (parse_fuel (sbuf st_scanner_a)) st_scanner_a [] =
              SOk (Some st', [(bs "x", bs "1")])
                  (mkScanner (sbuf st_scanner_a) (length ([] ++ ex_filler ++ ex_text_a))
                             (sline st_scanner_a + nlz (ex_filler ++ ex_text_a))) /\
              norm_stmt st' = norm_stmt ex_build4.
Proof.
  apply (Props.C10.C10_statement_roundtrip_total [] ex_filler ex_text_a [] [] [(bs "x", bs "1")] ex_build4 st_scanner_a).
  - exact ex_filler_spells.
  - exact ex_spells_a4.
  - exists 0%N, []. split; [reflexivity | discriminate].
  - no13.
  - reflexivity.
  - reflexivity.
Qed.

(* ------------------------------------------------------------------------------------ *)
(* C10_eof_roundtrip / _total *)

Example C10_eof_roundtrip_nonvacuous :
  exists fixed pre F vs vs' s fuel,
    spells_pre vs vs' F /\ ~ In 13%N (sbuf s) /\
    sbuf s = pre ++ F ++ [0%N] /\ sofs s = length pre /\
    F <> [] /\ vs' <> vs /\ parser_read fixed fuel s vs <> SFuel /\ fuel = parse_fuel (sbuf s).
Proof.
  exists true, [], ex_filler, [], [(bs "x", bs "1")], (mkScanner (ex_filler ++ [0%N]) 0 1),
         (parse_fuel (ex_filler ++ [0%N])).
  split; [exact ex_filler_spells|]. split; [no13|]. split; [reflexivity|]. split; [reflexivity|].
  split; [vm_compute; discriminate|]. split; [discriminate|].
  split; [vm_compute; discriminate | reflexivity].
Qed.

(* ------------------------------------------------------------------------------------ *)
(* C10_spelling_independent: two genuinely different spellings (different filler, different
   spacing, a line continuation in the second) of the same statement *)

Example C10_spelling_independent_nonvacuous :
  exists fixed st vs vs' pre1 F1 t1 rest1 s1 fuel1 r1 z1 pre2 F2 t2 rest2 s2 fuel2 r2 z2,
    spells_pre vs vs' F1 /\ spells_stmt (sline s1 + nlz F1) st t1 /\ follow_ok st (rest1 ++ [0%N]) /\
    ~ In 13%N (sbuf s1) /\ sbuf s1 = pre1 ++ F1 ++ t1 ++ rest1 ++ [0%N] /\ sofs s1 = length pre1 /\
    spells_pre vs vs' F2 /\ spells_stmt (sline s2 + nlz F2) st t2 /\ follow_ok st (rest2 ++ [0%N]) /\
    ~ In 13%N (sbuf s2) /\ sbuf s2 = pre2 ++ F2 ++ t2 ++ rest2 ++ [0%N] /\ sofs s2 = length pre2 /\
    parser_read fixed fuel1 s1 vs = SOk r1 z1 /\ parser_read fixed fuel2 s2 vs = SOk r2 z2 /\
    (* the spellings differ, in the filler and in the statement, and so do the raw results' scanners *)
    t1 <> t2 /\ F1 <> F2 /\ length t1 <> length t2 /\ z1 <> z2.
Proof.
  exists true, ex_build4, [], [(bs "x", bs "1")].
  exists [], ex_filler, ex_text_a, [], (mkScanner (ex_filler ++ ex_text_a ++ [] ++ [0%N]) 0 1), 1000.
  eexists. eexists.
  exists [], ex_filler2, ex_text_b, (bs "default a.o" ++ nl),
         (mkScanner (ex_filler2 ++ ex_text_b ++ (bs "default a.o" ++ nl) ++ [0%N]) 0 1), 1000.
  eexists. eexists.
  split; [exact ex_filler_spells|]. split; [exact ex_spells_a4|].
  split; [exists 0%N, []; split; [reflexivity | discriminate]|].
  split; [no13|]. split; [reflexivity|]. split; [reflexivity|].
  split; [exact ex_filler2_spells|]. split; [exact ex_spells_b4|].
  split; [exists 100%N, (bs "efault a.o" ++ nl ++ [0%N]); split; [reflexivity | discriminate]|].
  split; [no13|]. split; [reflexivity|]. split; [reflexivity|].
  split; [vm_compute; reflexivity|]. split; [vm_compute; reflexivity|].
  split; [vm_compute; discriminate|]. split; [vm_compute; discriminate|].
  split; [vm_compute; discriminate|]. vm_compute; discriminate.
Qed.

(* ------------------------------------------------------------------------------------ *)
(* C10_file_roundtrip: Props/C10.v's own C10_example_file gives the first premise; here with
   the second one and the run of the model *)

Example C10_file_roundtrip_nonvacuous :
  exists sts vs' text,
    spells_file 1 [] sts vs' text /\ ~ In 13%N text /\
    length sts = 2 /\ vs' <> [] /\
    match read_all (S (length (text ++ [0%N]))) (parse_fuel (text ++ [0%N])) (mkScanner (text ++ [0%N]) 0 1) [] with
    | SOk (sts', vs1) s' => map norm_stmt sts' = map norm_stmt sts /\ vs1 = vs' /\ sofs s' = length text
    | _ => False
    end.
Proof.
  exists ex_stmts, [(bs "x", bs "1")], ex_file.
  split; [exact ex_file_spells|]. split; [no13|]. split; [reflexivity|]. split; [discriminate|].
  vm_compute. repeat split.
Qed.

(* ------------------------------------------------------------------------------------ *)
(* C12_parser_read_safe (no premises): instances of the three interesting branches *)

Example C12_parser_read_safe_branches :
  (exists text vs st vs' s',
     parser_read true (parse_fuel (text ++ [0%N])) (mkScanner (text ++ [0%N]) 0 1) vs = SOk (Some st, vs') s' /\
     sbuf s' = text ++ [0%N] /\ 0 < sofs s' <= length text /\ sofs s' < length text) /\
  (exists text vs vs' s',
     parser_read true (parse_fuel (text ++ [0%N])) (mkScanner (text ++ [0%N]) 0 1) vs = SOk (None, vs') s' /\
     text <> [] /\ vs' <> vs) /\
  (exists text vs m o,
     parser_read true (parse_fuel (text ++ [0%N])) (mkScanner (text ++ [0%N]) 0 1) vs = SErr m o /\
     o <= length (text ++ [0%N]) /\ 0 < o).
Proof.
  split; [|split].
  - exists (ln "build a: phony b" (ln "default a" [])), []. eexists. eexists. eexists.
    split; [vm_compute; reflexivity|]. vm_compute. repeat split; repeat constructor.
  - exists ex_filler, []. eexists. eexists. split; [vm_compute; reflexivity|].
    split; [vm_compute; discriminate | discriminate].
  - exists (ln "# c" (bs "build a b")), []. eexists. eexists. split; [vm_compute; reflexivity|].
    vm_compute. split; repeat constructor.
Qed.

(* ------------------------------------------------------------------------------------ *)
(* C12_parser_read_fuel: a scanner in the middle of the text and the SMALLEST fuel the premise
   allows (far below parse_fuel) *)

Example C12_parser_read_fuel_nonvacuous :
  exists text f s vs,
    good_scanner text s /\ length (text ++ [0%N]) + 2 <= f + sofs s /\
    0 < sofs s /\ length (text ++ [0%N]) + 2 = f + sofs s /\ f < length text /\
    match parser_read true f s vs with
    | SOk (Some (SBuild b), _) s' => pb_line b = 3%Z /\ sofs s < sofs s'
    | _ => False
    end.
Proof.
  exists (ln "x = 1" (ln "" (ln "build a: phony b" (ln "default a" [])))), 31,
         (mkScanner (ln "x = 1" (ln "" (ln "build a: phony b" (ln "default a" []))) ++ [0%N]) 6 2),
         [(bs "x", bs "1")].
  split.
  { split; [reflexivity|]. split; [vm_compute; repeat constructor|].
    intros o1 E _. cbn [sofs] in E. injection E as <-. vm_compute. discriminate. }
  split; [vm_compute; repeat constructor|]. split; [vm_compute; repeat constructor|].
  split; [reflexivity|]. split; [vm_compute; repeat constructor|].
  vm_compute. split; [reflexivity | repeat constructor].
Qed.

(* ------------------------------------------------------------------------------------ *)
(* C12_manifest_safe (no premises): every allowed outcome is reached *)

(* a path of 62 components *)
Definition deep_path : bytes := concat (repeat (bs "a/") 61) ++ bs "a".

Example C12_manifest_safe_branches :
  (exists l, load_manifest true 5 [] (bs "build.ninja") ex_manifest = Ok l /\ length (l_builds l) = 2) /\
  (exists m, load_manifest true 5 [] (bs "build.ninja")
               (ln "rule r" (ln "  command = c" (ln "build o: r" (ln "build p ./o: r" [])))) = Err m) /\
  (* a parse error is an Err too *)
  (exists m, load_manifest true 5 [] (bs "build.ninja") (bs "build a b") = Err m) /\
  (* Panic 60: nesting deeper than the depth fuel; with depth 0 EVERY load is Panic 60 *)
  load_manifest true 2 ex_fs (bs "build.ninja") ex_main = Panic 60%N /\
  load_manifest true 0 [] (bs "build.ninja") [] = Panic 60%N /\
  (* Panic 0: the empty manifest name *)
  load_manifest true 5 [] [] [] = Panic 0%N /\
  (* Panic 1 ("too many path components") is reachable from the manifest TEXT and from the name *)
  load_manifest true 5 [] (bs "build.ninja") (ln "build x: phony" (bs "default " ++ deep_path ++ nl)) = Panic 1%N /\
  load_manifest true 5 [] deep_path [] = Panic 1%N.
Proof.
  split; [eexists; split; vm_compute; reflexivity|].
  split; [eexists; vm_compute; reflexivity|].
  split; [eexists; vm_compute; reflexivity|].
  repeat split; vm_compute; reflexivity.
Qed.

(* ------------------------------------------------------------------------------------ *)
(* C12_error_format *)

Example C12_error_format_nonvacuous :
  exists text filename s vs m o,
    good_scanner text s /\ parser_read true (parse_fuel (text ++ [0%N])) s vs = SErr m o /\
    (* the error is on line 2, column 8 of the text; the formatted text is what n2 prints *)
    m = bs "expected ':', got '\n'" /\ o = 13 /\
    format_parse_error (text ++ [0%N]) filename m o =
      Ok (bs "parse error: expected ':', got '\n'" ++ nl ++ bs "build.ninja:2: build a b" ++ nl ++
          bs "                        ^" ++ nl).
Proof.
  exists (ln "# c" (ln "build a b" [])), (bs "build.ninja"),
         (mkScanner (ln "# c" (ln "build a b" []) ++ [0%N]) 0 1), [].
  eexists. eexists.
  split; [apply good_scanner_initial|].
  split; [vm_compute; reflexivity|].
  split; [vm_compute; reflexivity|]. split; [reflexivity|].
  vm_compute. reflexivity.
Qed.

(* ------------------------------------------------------------------------------------ *)
(* C10_eval_spelling_independent: "$in.o" and "${in}.o" *)

Example C10_eval_spelling_independent_nonvacuous :
  exists path es t1 t2 pre1 rest1 pre2 rest2 s1 s2 fuel1 fuel2 es1 es2 z1 z2,
    spells_eval path es t1 /\ spells_eval path es t2 /\ t1 <> [] /\ t2 <> [] /\
    eval_stop path (rest1 ++ [0%N]) /\ eval_stop path (rest2 ++ [0%N]) /\
    ~ In 13%N (pre1 ++ rest1) /\ ~ In 13%N (pre2 ++ rest2) /\
    sbuf s1 = pre1 ++ t1 ++ rest1 ++ [0%N] /\ sofs s1 = length pre1 /\
    sbuf s2 = pre2 ++ t2 ++ rest2 ++ [0%N] /\ sofs s2 = length pre2 /\
    read_eval fuel1 path s1 = SOk es1 z1 /\ read_eval fuel2 path s2 = SOk es2 z2 /\
    t1 <> t2 /\ es1 <> es2.
Proof.
  exists false, [Lit (bs "a "); Var (bs "in"); Lit (bs ".o")], (bs "a $in.o"), (bs "a$ ${in}.o"),
         [], nl, (bs "x = "), nl,
         (mkScanner ([] ++ bs "a $in.o" ++ nl ++ [0%N]) 0 1),
         (mkScanner (bs "x = " ++ bs "a$ ${in}.o" ++ nl ++ [0%N]) 4 7), 50, 60.
  eexists. eexists. eexists. eexists.
  split.
  { exists [Lit (bs "a "); Var (bs "in"); Lit (bs ".o")]. split; [|reflexivity]. vm_compute.
    refine (se_lit false [97; 32]%N _ _ _ _ _); [discriminate | reflexivity|].
    refine (se_var false [105; 110]%N _ _ _ _ _ _); [discriminate | reflexivity | | reflexivity].
    refine (se_lit false [46; 111]%N _ [] _ _ _); [discriminate | reflexivity | constructor]. }
  split.
  { exists [Lit (bs "a"); Lit (bs " "); Var (bs "in"); Lit (bs ".o")]. split; [|reflexivity]. vm_compute.
    refine (se_lit false [97]%N _ _ _ _ _); [discriminate | reflexivity|].
    refine (se_esc false 32%N _ _ _ _); [now left|].
    refine (se_bvar false [105; 110]%N _ _ _ _ _); [discriminate | reflexivity|].
    refine (se_lit false [46; 111]%N _ [] _ _ _); [discriminate | reflexivity | constructor]. }
  split; [discriminate|]. split; [discriminate|].
  split; [exists 10%N, [0%N]; split; [reflexivity | left; reflexivity]|].
  split; [exists 10%N, [0%N]; split; [reflexivity | left; reflexivity]|].
  split; [no13|]. split; [no13|].
  split; [reflexivity|]. split; [reflexivity|]. split; [reflexivity|]. split; [reflexivity|].
  split; [vm_compute; reflexivity|]. split; [vm_compute; reflexivity|].
  split; [discriminate|]. vm_compute. discriminate.
Qed.

(* ------------------------------------------------------------------------------------ *)
(* the remaining constructors of [spells_stmt] are inhabited too: pool (with and without depth),
   rule, default, subninja - each run through the total roundtrip theorem premises *)

Definition pool_block : bytes := repeat 32%N 2 ++ bs "depth" ++ sp1 ++ [61%N] ++ sp1 ++ bs "4" ++ [10%N] ++ [].

Example spells_pool_depth : spells_stmt 1 (SPool (bs "link") 4) (bs "pool" ++ sp1 ++ bs "link" ++ [10%N] ++ pool_block).
Proof.
  apply (ss_pool 1 sp1 (bs "link") (p "4") 4%N pool_block);
    [repeat constructor | discriminate | split; [discriminate | reflexivity] | | reflexivity].
  apply sb_cons;
    [split; [discriminate | reflexivity] | reflexivity | repeat constructor | repeat constructor
     | apply plain_value_text; [discriminate | reflexivity | discriminate] | constructor].
Qed.

Example spells_pool0 : spells_stmt 1 (SPool (bs "link") 0) (bs "pool" ++ sp1 ++ bs "link" ++ [10%N]).
Proof.
  apply ss_pool0; [repeat constructor | discriminate | split; [discriminate | reflexivity]].
Qed.

Example spells_subninja : spells_stmt 1 (SSubninja [Lit (bs "d/b.ninja")]) (bs "subninja" ++ sp1 ++ bs "d/b.ninja").
Proof.
  apply ss_subninja; [repeat constructor | | discriminate | reflexivity].
  apply plain_value_text; [discriminate | reflexivity | discriminate].
Qed.

Example C10_statement_roundtrip_total_nonvacuous_pool :
  exists pre F txt rest vs vs' st s,
    spells_pre vs vs' F /\ spells_stmt (sline s + nlz F) st txt /\ follow_ok st (rest ++ [0%N]) /\
    ~ In 13%N (sbuf s) /\
    sbuf s = pre ++ F ++ txt ++ rest ++ [0%N] /\ sofs s = length pre /\
    st = SPool (bs "link") 4 /\
    match parser_read true (parse_fuel (sbuf s)) s vs with
    | SOk (Some st', _) s' => st' = st /\ sofs s' = length (pre ++ F ++ txt)
    | _ => False
    end.
Proof.
  exists [], [], (bs "pool" ++ sp1 ++ bs "link" ++ [10%N] ++ pool_block), (bs "rule r" ++ nl), [], [],
         (SPool (bs "link") 4),
         (mkScanner ([] ++ [] ++ (bs "pool" ++ sp1 ++ bs "link" ++ [10%N] ++ pool_block) ++ (bs "rule r" ++ nl) ++ [0%N]) 0 1).
  split; [constructor|]. split; [exact spells_pool_depth|].
  split; [exists 114%N, (bs "ule r" ++ nl ++ [0%N]); split; [reflexivity | discriminate]|].
  split; [no13|]. split; [reflexivity|]. split; [reflexivity|]. split; [reflexivity|].
  vm_compute. split; reflexivity.
Qed.

(* ------------------------------------------------------------------------------------ *)
(* CHECKS: every example above really is an instance of the theorem it is named after - the
   theorem of Props/ applies to the witnesses with the example's conjuncts as its premises *)

Lemma check_parse_examples_match_theorems : True.
Proof.
  destruct C10_eval_roundtrip_nonvacuous as (path & es & txt & pre & rest & s & fuel & H1 & H2 & H3 & H4 & H5 & H6 & _).
  pose proof (Props.C10.C10_eval_roundtrip path es txt pre rest s fuel H1 H2 H3 H4 H5 H6) as _.
  clear.
  destruct C10_build_roundtrip_nonvacuous as (fixed & pre & L & Bt & rest & d & bl & s & fuel & H1 & H2 & H3 & H4 & H5 & H6 & _).
  pose proof (Props.C10.C10_build_roundtrip fixed pre L Bt rest d bl s fuel H1 H2 H3 H4 H5 H6) as _.
  clear.
  destruct C10_statement_roundtrip_nonvacuous as (fixed & pre & F & txt & rest & vs & vs' & st & s & fuel & H1 & H2 & H3 & H4 & H5 & H6 & _).
  pose proof (Props.C10.C10_statement_roundtrip fixed pre F txt rest vs vs' st s fuel H1 H2 H3 H4 H5 H6) as _.
  clear.
  destruct C10_statement_roundtrip_nonvacuous_include as (fixed & pre & F & txt & rest & vs & vs' & st & s & fuel & H1 & H2 & H3 & H4 & H5 & H6 & _).
  pose proof (Props.C10.C10_statement_roundtrip fixed pre F txt rest vs vs' st s fuel H1 H2 H3 H4 H5 H6) as _.
  clear.
  destruct C10_statement_roundtrip_total_nonvacuous as (pre & F & txt & rest & vs & vs' & st & s & H1 & H2 & H3 & H4 & H5 & H6 & _).
  pose proof (Props.C10.C10_statement_roundtrip_total pre F txt rest vs vs' st s H1 H2 H3 H4 H5 H6) as _.
  clear.
  destruct C10_statement_roundtrip_total_nonvacuous_pool as (pre & F & txt & rest & vs & vs' & st & s & H1 & H2 & H3 & H4 & H5 & H6 & _).
  pose proof (Props.C10.C10_statement_roundtrip_total pre F txt rest vs vs' st s H1 H2 H3 H4 H5 H6) as _.
  clear.
  destruct C10_eof_roundtrip_nonvacuous as (fixed & pre & F & vs & vs' & s & fuel & H1 & H2 & H3 & H4 & _).
  pose proof (Props.C10.C10_eof_roundtrip fixed pre F vs vs' s fuel H1 H2 H3 H4) as _.
  clear.
  destruct C10_spelling_independent_nonvacuous
    as (fixed & st & vs & vs' & pre1 & F1 & t1 & rest1 & s1 & fuel1 & r1 & z1 & pre2 & F2 & t2 & rest2 & s2 & fuel2 & r2 & z2 &
        H1 & H2 & H3 & H4 & H5 & H6 & H7 & H8 & H9 & H10 & H11 & H12 & H13 & H14 & _).
  pose proof (Props.C10.C10_spelling_independent fixed st vs vs' pre1 F1 t1 rest1 s1 fuel1 r1 z1 pre2 F2 t2 rest2 s2 fuel2 r2 z2
                H1 H2 H3 H4 H5 H6 H7 H8 H9 H10 H11 H12 H13 H14) as _.
  clear.
  destruct C10_eval_spelling_independent_nonvacuous
    as (path & es & t1 & t2 & pre1 & rest1 & pre2 & rest2 & s1 & s2 & fuel1 & fuel2 & es1 & es2 & z1 & z2 &
        H1 & H2 & H3 & H4 & H5 & H6 & H7 & H8 & H9 & H10 & H11 & H12 & H13 & H14 & _).
  pose proof (Props.C10.C10_eval_spelling_independent path es t1 t2 pre1 rest1 pre2 rest2 s1 s2 fuel1 fuel2 es1 es2 z1 z2
                H1 H2 H3 H4 H5 H6 H7 H8 H9 H10 H11 H12 H13 H14) as _.
  clear.
  destruct C10_file_roundtrip_nonvacuous as (sts & vs' & text & H1 & H2 & _).
  pose proof (Props.C10.C10_file_roundtrip sts vs' text H1 H2) as _.
  clear.
  destruct C12_parser_read_fuel_nonvacuous as (text & f & s & vs & H1 & H2 & _).
  pose proof (Props.C12.C12_parser_read_fuel text f s vs H1 H2) as _.
  clear.
  destruct C12_error_format_nonvacuous as (text & filename & s & vs & m & o & H1 & H2 & _).
  pose proof (Props.C12.C12_error_format text filename s vs m o H1 H2) as _.
  exact I.
Qed.
