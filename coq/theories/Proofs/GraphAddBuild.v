(* C14: Graph::add_build keeps "every file has at most one producing step". *)
From Coq Require Import String.
From N2 Require Import Model.All Proofs.EvalScope Proofs.GraphDedup.

(* ------------------------------------------------------------------------------------ *)
(* the invariant *)

Record LInv (l : loader) : Prop := mkLInv {
  (* a file's recorded producer is a build that lists the file among its outputs *)
  LI_producer_listed : forall i f p, nth_error (l_files l) i = Some f -> lf_input f = Some p ->
      exists b, nth_error (l_builds l) p = Some b /\ In i (lb_outs b);
  (* every output of every build is a file whose recorded producer is that build *)
  LI_outs_produced : forall p b o, nth_error (l_builds l) p = Some b -> In o (lb_outs b) ->
      exists f, nth_error (l_files l) o = Some f /\ lf_input f = Some p;
  LI_outs_nodup : forall p b, nth_error (l_builds l) p = Some b -> NoDup (lb_outs b);
  LI_explicit_le : forall p b, nth_error (l_builds l) p = Some b ->
      lb_explicit_outs b <= length (lb_outs b);
  LI_ins_range : forall p b i, nth_error (l_builds l) p = Some b -> In i (lb_ins b) ->
      i < length (l_files l);
}.

Lemma LInv_outs_range l : LInv l ->
  forall p b o, nth_error (l_builds l) p = Some b -> In o (lb_outs b) -> o < length (l_files l).
Proof.
  intros I p b o Hb Ho. destruct (LI_outs_produced l I p b o Hb Ho) as [f [Hf _]].
  apply nth_error_Some. congruence.
Qed.

(* the headline: two builds never share an output, and no build lists one twice *)
Lemma LInv_unique_producer l : LInv l ->
  forall p1 b1 p2 b2 o,
    nth_error (l_builds l) p1 = Some b1 -> nth_error (l_builds l) p2 = Some b2 ->
    In o (lb_outs b1) -> In o (lb_outs b2) -> p1 = p2.
Proof.
  intros I p1 b1 p2 b2 o H1 H2 O1 O2.
  destruct (LI_outs_produced l I p1 b1 o H1 O1) as [f1 [F1 P1]].
  destruct (LI_outs_produced l I p2 b2 o H2 O2) as [f2 [F2 P2]].
  congruence.
Qed.

Lemma LInv_meaning l :
  LInv l <->
  (forall i f p, nth_error (l_files l) i = Some f -> lf_input f = Some p ->
      exists b, nth_error (l_builds l) p = Some b /\ In i (lb_outs b)) /\
  (forall p b o, nth_error (l_builds l) p = Some b -> In o (lb_outs b) ->
      exists f, nth_error (l_files l) o = Some f /\ lf_input f = Some p) /\
  (forall p b, nth_error (l_builds l) p = Some b ->
      NoDup (lb_outs b) /\ lb_explicit_outs b <= length (lb_outs b) /\
      (forall i, In i (lb_ins b) -> i < length (l_files l)) /\
      (forall o, In o (lb_outs b) -> o < length (l_files l))).
Proof.
  split.
  - intro I. split; [apply I|]. split; [apply I|]. intros p b Hb.
    split; [eapply LI_outs_nodup; eassumption|].
    split; [eapply LI_explicit_le; eassumption|].
    split; [intros i Hi; eapply LI_ins_range; eassumption|].
    intros o Ho. eapply LInv_outs_range; eassumption.
  - intros [A [B C]]. constructor; [exact A | exact B | | | ].
    + intros p b Hb. apply (C p b Hb).
    + intros p b Hb. apply (C p b Hb).
    + intros p b i Hb. apply (C p b Hb).
Qed.

(* ------------------------------------------------------------------------------------ *)
(* files: names and producers *)

Definition inp (fs : list lfile) (j : nat) : option nat :=
  match nth_error fs j with Some f => lf_input f | None => None end.
Definition nm (fs : list lfile) (j : nat) : bytes :=
  match nth_error fs j with Some f => lf_name f | None => [] end.

Lemma file_nm_nm l j : file_nm l j = nm (l_files l) j.
Proof. reflexivity. Qed.

Lemma inp_of_map fs fs' j : map lf_input fs = map lf_input fs' -> inp fs j = inp fs' j.
Proof.
  intro H. unfold inp.
  assert (E : nth_error (map lf_input fs) j = nth_error (map lf_input fs') j) by (rewrite H; reflexivity).
  rewrite !nth_error_map in E.
  destruct (nth_error fs j), (nth_error fs' j); cbn [option_map] in E; congruence.
Qed.

Lemma nm_of_map fs fs' j : map lf_name fs = map lf_name fs' -> nm fs j = nm fs' j.
Proof.
  intro H. unfold nm.
  assert (E : nth_error (map lf_name fs) j = nth_error (map lf_name fs') j) by (rewrite H; reflexivity).
  rewrite !nth_error_map in E.
  destruct (nth_error fs j), (nth_error fs' j); cbn [option_map] in E; congruence.
Qed.

Lemma length_of_names fs fs' : map lf_name fs = map lf_name fs' -> length fs = length fs'.
Proof. intro H. rewrite <- (map_length lf_name fs), H. apply map_length. Qed.

Lemma update_file_length fs i g : length (update_file fs i g) = length fs.
Proof.
  revert i. induction fs as [|x r IH]; intro i; [reflexivity|].
  destruct i; cbn [update_file length]; [reflexivity | rewrite IH; reflexivity].
Qed.

Lemma update_file_map {B} (h : lfile -> B) fs i g :
  (forall f, h (g f) = h f) -> map h (update_file fs i g) = map h fs.
Proof.
  intro H. revert i. induction fs as [|x r IH]; intro i; [reflexivity|].
  destruct i; cbn [update_file map]; [rewrite H; reflexivity | rewrite IH; reflexivity].
Qed.

Lemma update_file_nth fs i g j :
  nth_error (update_file fs i g) j =
  if (j =? i)%nat then option_map g (nth_error fs j) else nth_error fs j.
Proof.
  revert i j. induction fs as [|x r IH]; intros i j.
  - cbn [update_file]. destruct (j =? i)%nat; destruct j; reflexivity.
  - destruct i as [|i]; destruct j as [|j]; cbn [update_file nth_error]; try reflexivity.
    rewrite IH. reflexivity.
Qed.

Lemma inp_update fs i g j f :
  nth_error fs i = Some f ->
  inp (update_file fs i g) j = if (j =? i)%nat then lf_input (g f) else inp fs j.
Proof.
  intro H. unfold inp. rewrite update_file_nth. destruct (j =? i)%nat eqn:E; [|reflexivity].
  apply Nat.eqb_eq in E. subst j. rewrite H. reflexivity.
Qed.

(* ------------------------------------------------------------------------------------ *)
(* Graph::add_build, taken apart *)

Definition gab_files0 (l : loader) (b : lbuild) : list lfile :=
  fold_left (fun fs id => update_file fs id
               (fun f => mkLFile (lf_name f) (lf_input f) (lf_dependents f ++ [length (l_builds l)])))
            (lb_ins b) (l_files l).

Definition warn_text (b : lbuild) (name : bytes) : bytes :=
  bs "n2: warn: " ++ loc_text (lb_file b) (lb_line b) ++ bs ": " ++ str_debug name ++
  bs " is repeated in output list".

Definition conflict_text (b pb : lbuild) (name : bytes) : bytes :=
  loc_text (lb_file b) (lb_line b) ++ bs ": " ++ str_debug name ++
  bs " is already an output at " ++ loc_text (lb_file pb) (lb_line pb).

Definition gab_step1 (l : loader) (b : lbuild) (fs : list lfile) (dups : bool) (warns : list bytes) (id : nat)
  : outcome (list lfile * bool * list bytes) :=
  match nth_error fs id with
  | None => Panic 61%N
  | Some f =>
    match lf_input f with
    | Some prev =>
      if (prev =? length (l_builds l))%nat then Ok (fs, true, warns ++ [warn_text b (lf_name f)])
      else Err (conflict_text b (nth prev (l_builds l) b) (lf_name f))
    | None => Ok (update_file fs id (fun f => mkLFile (lf_name f) (Some (length (l_builds l))) (lf_dependents f)),
                  dups, warns)
    end
  end.

Definition gab_step (l : loader) (b : lbuild) (st : outcome (list lfile * bool * list bytes)) (id : nat) :=
  do s <- st; let '(fs, dups, warns) := s in gab_step1 l b fs dups warns id.

Definition set_outs (b : lbuild) (outs : list nat) (eo : nat) : lbuild :=
  mkLBuild (lb_file b) (lb_line b) (lb_ins b) (lb_explicit_ins b) (lb_implicit_ins b)
           (lb_order_only_ins b) outs eo (lb_cmdline b) (lb_desc b) (lb_depfile b)
           (lb_showincludes b) (lb_rspfile b) (lb_pool b) (lb_hide_success b) (lb_hide_progress b).

Lemma gab_unfold fixed l b :
  graph_add_build fixed l b =
  do r <- fold_left (gab_step l b) (lb_outs b) (Ok (gab_files0 l b, false, []));
  let '(files, dups, warns) := r in
  let '(outs, eo) := if dups then remove_duplicates fixed (lb_outs b) (lb_explicit_outs b)
                     else (lb_outs b, lb_explicit_outs b) in
  Ok (mkLoader files (l_builds l ++ [set_outs b outs eo]) (l_defaults l) (l_rules l) (l_pools l)
               (l_builddir l) (l_warnings l ++ warns)).
Proof. reflexivity. Qed.

Lemma gab_files0_names l b : map lf_name (gab_files0 l b) = map lf_name (l_files l).
Proof.
  unfold gab_files0. generalize (l_files l) as fs. induction (lb_ins b) as [|i r IH]; intro fs; [reflexivity|].
  cbn [fold_left]. rewrite IH. apply update_file_map. reflexivity.
Qed.

Lemma gab_files0_inputs l b : map lf_input (gab_files0 l b) = map lf_input (l_files l).
Proof.
  unfold gab_files0. generalize (l_files l) as fs. induction (lb_ins b) as [|i r IH]; intro fs; [reflexivity|].
  cbn [fold_left]. rewrite IH. apply update_file_map. reflexivity.
Qed.

Lemma fold_gab_step_stuck l b rest st :
  (forall s, st <> Ok s) -> fold_left (gab_step l b) rest st = st.
Proof.
  revert st. induction rest as [|id r IH]; intros st H; [reflexivity|].
  cbn [fold_left]. assert (E : gab_step l b st id = st).
  { destruct st; try reflexivity. exfalso. eapply H. reflexivity. }
  rewrite E. apply IH. exact H.
Qed.

(* state of the output loop after the outputs [done] *)
Record St (l : loader) (b : lbuild) (done : list nat) (fs : list lfile) (dups : bool) (warns : list bytes)
  : Prop := mkSt {
  St_names : map lf_name fs = map lf_name (l_files l);
  St_inp : forall j, inp fs j = if mem_nat j done then Some (length (l_builds l)) else inp (l_files l) j;
  St_dups : dups = false -> NoDup done;
  St_warns : warns = map (fun o => warn_text b (nm (l_files l) o)) (repeats done);
}.

Definition NoDangling (l : loader) : Prop :=
  forall j, inp (l_files l) j <> Some (length (l_builds l)).

Lemma LInv_NoDangling l : LInv l -> NoDangling l.
Proof.
  intros I j H. unfold inp in H. destruct (nth_error (l_files l) j) as [f|] eqn:F; [|discriminate].
  destruct (LI_producer_listed l I j f _ F H) as [b' [Hb _]].
  assert (length (l_builds l) < length (l_builds l)); [|lia].
  apply nth_error_Some. congruence.
Qed.

Lemma St_init l b : St l b [] (gab_files0 l b) false [].
Proof.
  constructor.
  - apply gab_files0_names.
  - intro j. cbn [mem_nat]. apply inp_of_map. apply gab_files0_inputs.
  - intros _. constructor.
  - reflexivity.
Qed.

Lemma mem_nat_snoc j done id : mem_nat j (done ++ [id]) = mem_nat j done || (j =? id)%nat.
Proof. rewrite mem_nat_app. cbn [mem_nat]. rewrite orb_false_r. reflexivity. Qed.

Lemma step1_ok l b done fs dups warns id fs' dups' warns' :
  NoDangling l -> St l b done fs dups warns ->
  gab_step1 l b fs dups warns id = Ok (fs', dups', warns') ->
  St l b (done ++ [id]) fs' dups' warns' /\ id < length (l_files l) /\
  (In id done \/ inp (l_files l) id = None).
Proof.
  intros ND S H. unfold gab_step1 in H.
  destruct (nth_error fs id) as [f|] eqn:F; [|discriminate].
  assert (R : id < length (l_files l)).
  { rewrite <- (length_of_names _ _ (St_names _ _ _ _ _ _ S)). apply nth_error_Some. congruence. }
  assert (NM : lf_name f = nm (l_files l) id).
  { rewrite <- (nm_of_map _ _ id (St_names _ _ _ _ _ _ S)). unfold nm. rewrite F. reflexivity. }
  pose proof (St_inp _ _ _ _ _ _ S id) as Iid. unfold inp at 1 in Iid. rewrite F in Iid.
  destruct (lf_input f) as [prev|] eqn:LI.
  - destruct (prev =? length (l_builds l))%nat eqn:E; [|discriminate].
    apply Nat.eqb_eq in E. subst prev. inversion H; subst fs' dups' warns'; clear H.
    destruct (mem_nat id done) eqn:M.
    2:{ exfalso. apply (ND id). symmetry. exact Iid. }
    split; [|split; [exact R | left; apply mem_nat_In; exact M]].
    constructor.
    + apply (St_names _ _ _ _ _ _ S).
    + intro j. rewrite (St_inp _ _ _ _ _ _ S j), mem_nat_snoc.
      destruct (j =? id)%nat eqn:E; [|rewrite orb_false_r; reflexivity].
      apply Nat.eqb_eq in E. subst j. rewrite M. reflexivity.
    + discriminate.
    + rewrite repeats_snoc, M, map_app. cbn [map]. rewrite (St_warns _ _ _ _ _ _ S), NM. reflexivity.
  - inversion H; subst fs' dups' warns'; clear H.
    destruct (mem_nat id done) eqn:M; [discriminate|].
    split; [|split; [exact R | right; symmetry; exact Iid]].
    constructor.
    + rewrite update_file_map by reflexivity. apply (St_names _ _ _ _ _ _ S).
    + intro j. rewrite (inp_update _ _ _ _ _ F). cbn [lf_input]. rewrite mem_nat_snoc.
      destruct (j =? id)%nat eqn:E.
      * rewrite orb_true_r. reflexivity.
      * rewrite orb_false_r. apply (St_inp _ _ _ _ _ _ S).
    + intro D. apply (proj1 (mem_nat_false _ _)) in M.
      pose proof (St_dups _ _ _ _ _ _ S D) as N.
      apply NoDup_rev in N. rewrite <- (rev_involutive (done ++ [id])). apply NoDup_rev.
      rewrite rev_app_distr. cbn [rev app]. constructor; [|exact N].
      rewrite <- in_rev. exact M.
    + rewrite repeats_snoc, M. apply (St_warns _ _ _ _ _ _ S).
Qed.

Lemma fold_ok l b : NoDangling l -> forall rest done fs dups warns fs' dups' warns',
  St l b done fs dups warns ->
  fold_left (gab_step l b) rest (Ok (fs, dups, warns)) = Ok (fs', dups', warns') ->
  St l b (done ++ rest) fs' dups' warns' /\
  (forall o, In o rest -> o < length (l_files l) /\ (In o done \/ inp (l_files l) o = None)).
Proof.
  intro ND. induction rest as [|id r IH]; intros done fs dups warns fs' dups' warns' S H.
  - cbn [fold_left] in H. inversion H; subst. rewrite app_nil_r. split; [exact S | intros o []].
  - cbn [fold_left] in H. cbn [gab_step bind] in H.
    destruct (gab_step1 l b fs dups warns id) as [[[fs1 d1] w1]| | | |] eqn:E;
      try (rewrite fold_gab_step_stuck in H by (intros s; discriminate); discriminate).
    destruct (step1_ok _ _ _ _ _ _ _ _ _ _ ND S E) as [S1 [R1 O1]].
    destruct (IH _ _ _ _ _ _ _ S1 H) as [S2 O2].
    rewrite <- app_assoc in S2. cbn [app] in S2. split; [exact S2|].
    intros o [<-|I]; [split; assumption|].
    destruct (O2 o I) as [R2 [D|N]]; split; try assumption; [|right; exact N].
    apply in_app_iff in D as [D|[<-|[]]]; [left; exact D | exact O1].
Qed.

(* the loop goes through when no output already has another producer *)
Lemma fold_total l b : NoDangling l -> forall rest done fs dups warns,
  St l b done fs dups warns ->
  (forall o, In o rest -> o < length (l_files l) /\ inp (l_files l) o = None) ->
  exists r, fold_left (gab_step l b) rest (Ok (fs, dups, warns)) = Ok r.
Proof.
  intro ND. induction rest as [|id r IH]; intros done fs dups warns S H.
  - eexists. reflexivity.
  - cbn [fold_left]. cbn [gab_step bind].
    assert (E : exists fs1 d1 w1, gab_step1 l b fs dups warns id = Ok (fs1, d1, w1)).
    { unfold gab_step1. destruct (H id (or_introl eq_refl)) as [R N].
      destruct (nth_error fs id) as [f|] eqn:F.
      2:{ exfalso. apply nth_error_None in F.
          rewrite (length_of_names _ _ (St_names _ _ _ _ _ _ S)) in F. lia. }
      pose proof (St_inp _ _ _ _ _ _ S id) as Iid. unfold inp at 1 in Iid. rewrite F, N in Iid.
      destruct (lf_input f) as [prev|].
      - destruct (mem_nat id done); [|discriminate]. inversion Iid; subst prev.
        rewrite Nat.eqb_refl. eauto.
      - eauto. }
    destruct E as [fs1 [d1 [w1 E]]]. rewrite E.
    destruct (step1_ok _ _ _ _ _ _ _ _ _ _ ND S E) as [S1 _].
    apply (IH _ _ _ _ S1). intros o I. apply H. right. exact I.
Qed.

(* the first output that already has another producer stops the loop, with both locations *)
Lemma fold_conflict l b : NoDangling l -> forall pre done fs dups warns o post f prev,
  St l b done fs dups warns ->
  (forall o', In o' pre -> o' < length (l_files l) /\ inp (l_files l) o' = None) ->
  ~ In o done ->
  nth_error (l_files l) o = Some f -> lf_input f = Some prev ->
  fold_left (gab_step l b) (pre ++ o :: post) (Ok (fs, dups, warns)) =
  Err (conflict_text b (nth prev (l_builds l) b) (lf_name f)).
Proof.
  intro ND. induction pre as [|id r IH]; intros done fs dups warns o post f prev S H NI F LI.
  - cbn [app fold_left]. cbn [gab_step bind].
    assert (E : gab_step1 l b fs dups warns o = Err (conflict_text b (nth prev (l_builds l) b) (lf_name f))).
    { unfold gab_step1.
      pose proof (St_inp _ _ _ _ _ _ S o) as Io.
      pose proof (nm_of_map _ _ o (St_names _ _ _ _ _ _ S)) as No.
      unfold inp in Io. unfold nm in No. rewrite F in Io, No.
      apply (proj2 (mem_nat_false _ _)) in NI. rewrite NI, LI in Io.
      destruct (nth_error fs o) as [f'|]; [|discriminate]. rewrite Io, No.
      destruct (prev =? length (l_builds l))%nat eqn:E; [|reflexivity].
      apply Nat.eqb_eq in E. exfalso. apply (ND o). unfold inp. rewrite F, LI, E. reflexivity. }
    rewrite E. apply fold_gab_step_stuck. intro s. discriminate.
  - cbn [app fold_left]. cbn [gab_step bind].
    destruct (fold_total l b ND [id] done fs dups warns S) as [[[fs1 d1] w1] E].
    { intros o' [<-|[]]. apply H. left. reflexivity. }
    cbn [fold_left gab_step bind] in E. rewrite E.
    destruct (step1_ok _ _ _ _ _ _ _ _ _ _ ND S E) as [S1 _].
    apply (IH _ _ _ _ _ _ _ _ S1); try assumption.
    + intros o' I. apply H. right. exact I.
    + rewrite in_app_iff. intros [D|[<-|[]]]; [contradiction|].
      destruct (H id (or_introl eq_refl)) as [_ N]. unfold inp in N. rewrite F, LI in N. discriminate.
Qed.

(* ------------------------------------------------------------------------------------ *)
(* Ok case: what the new loader looks like *)

Definition new_build (b : lbuild) : lbuild :=
  set_outs b (dedup (lb_outs b)) (length (dedup (firstn (lb_explicit_outs b) (lb_outs b)))).

Lemma gab_ok l b l' :
  NoDangling l -> lb_explicit_outs b <= length (lb_outs b) ->
  graph_add_build true l b = Ok l' ->
  map lf_name (l_files l') = map lf_name (l_files l) /\
  (forall j, inp (l_files l') j =
             if mem_nat j (lb_outs b) then Some (length (l_builds l)) else inp (l_files l) j) /\
  (forall o, In o (lb_outs b) -> o < length (l_files l) /\ inp (l_files l) o = None) /\
  l_builds l' = l_builds l ++ [new_build b] /\
  l_warnings l' = l_warnings l ++ map (fun o => warn_text b (nm (l_files l) o)) (repeats (lb_outs b)) /\
  l_defaults l' = l_defaults l /\ l_rules l' = l_rules l /\ l_pools l' = l_pools l /\
  l_builddir l' = l_builddir l.
Proof.
  intros ND EL H. rewrite gab_unfold in H.
  apply bind_ok in H as [[[fs' dups'] warns'] [F H]].
  destruct (fold_ok l b ND _ _ _ _ _ _ _ _ (St_init l b) F) as [S O]. cbn [app] in S.
  assert (B : (if dups' then remove_duplicates true (lb_outs b) (lb_explicit_outs b)
               else (lb_outs b, lb_explicit_outs b)) =
              (dedup (lb_outs b), length (dedup (firstn (lb_explicit_outs b) (lb_outs b))))).
  { destruct dups'; [apply remove_duplicates_spec; exact EL|].
    pose proof (St_dups _ _ _ _ _ _ S eq_refl) as N.
    rewrite dedup_id by exact N. f_equal.
    rewrite dedup_id.
    - rewrite firstn_length_le by exact EL. reflexivity.
    - rewrite <- (firstn_skipn (lb_explicit_outs b) (lb_outs b)) in N.
      apply NoDup_app_l in N. exact N. }
  rewrite B in H. inversion H; subst l'; clear H. cbn [l_files l_builds l_warnings l_defaults l_rules l_pools l_builddir].
  split; [apply (St_names _ _ _ _ _ _ S)|].
  split; [apply (St_inp _ _ _ _ _ _ S)|].
  split.
  { intros o I. destruct (O o I) as [R [[]|N]]. split; assumption. }
  split; [reflexivity|].
  split; [rewrite (St_warns _ _ _ _ _ _ S); reflexivity|].
  repeat split.
Qed.

Lemma inp_Some fs o p : inp fs o = Some p <-> exists f, nth_error fs o = Some f /\ lf_input f = Some p.
Proof.
  unfold inp. destruct (nth_error fs o) as [f|]; split.
  - intro H. exists f. split; [reflexivity | exact H].
  - intros [f' [E H]]. inversion E; subst. exact H.
  - discriminate.
  - intros [f' [E _]]. discriminate.
Qed.

Theorem graph_add_build_LInv l b l' :
  LInv l ->
  (forall i, In i (lb_ins b) -> i < length (l_files l)) ->
  lb_explicit_outs b <= length (lb_outs b) ->
  graph_add_build true l b = Ok l' -> LInv l'.
Proof.
  intros I RI EL H.
  destruct (gab_ok l b l' (LInv_NoDangling l I) EL H) as [NM [IN [OUT [BS _]]]].
  pose proof (length_of_names _ _ NM) as LEN.
  assert (NB : forall p b0, nth_error (l_builds l') p = Some b0 ->
               (p < length (l_builds l) /\ nth_error (l_builds l) p = Some b0) \/
               (p = length (l_builds l) /\ b0 = new_build b)).
  { intros p b0 Hb. rewrite BS in Hb. destruct (Nat.lt_ge_cases p (length (l_builds l))) as [L|G].
    - left. rewrite nth_error_app1 in Hb by exact L. split; assumption.
    - right. rewrite nth_error_app2 in Hb by exact G.
      destruct (p - length (l_builds l)) as [|k] eqn:K.
      + cbn in Hb. inversion Hb. split; [lia | reflexivity].
      + cbn in Hb. destruct k; discriminate. }
  constructor.
  - intros i f p F LI.
    assert (Ii : inp (l_files l') i = Some p) by (apply inp_Some; eauto).
    rewrite IN in Ii. destruct (mem_nat i (lb_outs b)) eqn:M.
    + inversion Ii; subst p. exists (new_build b). rewrite BS. split.
      * rewrite nth_error_app2 by lia. rewrite Nat.sub_diag. reflexivity.
      * cbn [new_build set_outs lb_outs]. apply dedup_In. apply mem_nat_In. exact M.
    + apply (proj1 (inp_Some _ _ _)) in Ii as [f0 [F0 L0]].
      destruct (LI_producer_listed l I i f0 p F0 L0) as [b0 [Hb Hi]].
      exists b0. split; [|exact Hi]. rewrite BS. rewrite nth_error_app1; [exact Hb|].
      apply nth_error_Some. congruence.
  - intros p b0 o Hb Ho. apply inp_Some. rewrite IN.
    destruct (NB p b0 Hb) as [[L Hb0]|[E ->]].
    + destruct (LI_outs_produced l I p b0 o Hb0 Ho) as [f0 [F0 L0]].
      assert (Io : inp (l_files l) o = Some p) by (apply inp_Some; eauto).
      destruct (mem_nat o (lb_outs b)) eqn:M; [|exact Io].
      apply (proj1 (mem_nat_In _ _)) in M. destruct (OUT o M) as [_ N]. congruence.
    + cbn [new_build set_outs lb_outs] in Ho. apply (proj1 (dedup_In _ _)) in Ho.
      apply (proj2 (mem_nat_In _ _)) in Ho. rewrite Ho, E. reflexivity.
  - intros p b0 Hb. destruct (NB p b0 Hb) as [[L Hb0]|[E ->]].
    + eapply LI_outs_nodup; eassumption.
    + cbn [new_build set_outs lb_outs]. apply dedup_NoDup.
  - intros p b0 Hb. destruct (NB p b0 Hb) as [[L Hb0]|[E ->]].
    + eapply LI_explicit_le; eassumption.
    + cbn [new_build set_outs lb_outs lb_explicit_outs]. apply dedup_from_firstn_le.
  - intros p b0 i Hb Hi. rewrite LEN. destruct (NB p b0 Hb) as [[L Hb0]|[E ->]].
    + eapply LI_ins_range; eassumption.
    + cbn [new_build set_outs lb_ins] in Hi. apply RI. exact Hi.
Qed.

(* ------------------------------------------------------------------------------------ *)
(* a second producer is rejected *)

Theorem second_producer_rejected fixed l b pre o post f prev :
  LInv l -> lb_outs b = pre ++ o :: post ->
  (forall o', In o' pre -> exists f', nth_error (l_files l) o' = Some f' /\ lf_input f' = None) ->
  nth_error (l_files l) o = Some f -> lf_input f = Some prev ->
  exists pb, nth_error (l_builds l) prev = Some pb /\ In o (lb_outs pb) /\
    graph_add_build fixed l b =
    Err (loc_text (lb_file b) (lb_line b) ++ bs ": " ++ str_debug (lf_name f) ++
         bs " is already an output at " ++ loc_text (lb_file pb) (lb_line pb)).
Proof.
  intros I E PRE F LI.
  destruct (LI_producer_listed l I o f prev F LI) as [pb [Hpb Ho]].
  exists pb. split; [exact Hpb|]. split; [exact Ho|].
  rewrite gab_unfold, E.
  rewrite (fold_conflict l b (LInv_NoDangling l I) pre [] _ _ _ o post f prev (St_init l b)); try assumption.
  - cbn [bind]. rewrite (nth_error_nth _ _ _ Hpb). reflexivity.
  - intros o' Io'. destruct (PRE o' Io') as [f' [F' L']]. split.
    + apply nth_error_Some. congruence.
    + unfold inp. rewrite F'. exact L'.
  - intros [].
Qed.

(* split a list at the first element with a producer *)
Lemma first_conflict l outs :
  (forall o, In o outs -> o < length (l_files l)) ->
  (exists o, In o outs /\ inp (l_files l) o <> None) ->
  exists pre o post f prev, outs = pre ++ o :: post /\
    (forall o', In o' pre -> exists f', nth_error (l_files l) o' = Some f' /\ lf_input f' = None) /\
    nth_error (l_files l) o = Some f /\ lf_input f = Some prev.
Proof.
  induction outs as [|x r IH]; intros R [o [Io C]]; [destruct Io|].
  destruct (nth_error (l_files l) x) as [fx|] eqn:Fx.
  2:{ exfalso. apply nth_error_None in Fx. specialize (R x (or_introl eq_refl)). lia. }
  destruct (lf_input fx) as [p|] eqn:Lx.
  - exists [], x, r, fx, p. repeat split; try assumption. intros o' [].
  - destruct IH as [pre [o1 [post [f [prev [E [P [F L]]]]]]]].
    + intros o' I'. apply R. right. exact I'.
    + exists o. split; [|exact C]. destruct Io as [<-|Io]; [|exact Io].
      exfalso. apply C. unfold inp. rewrite Fx. exact Lx.
    + exists (x :: pre), o1, post, f, prev. rewrite E. repeat split; try assumption.
      intros o' [<-|I']; [eauto | apply P; exact I'].
Qed.

Theorem any_second_producer_rejected fixed l b o f prev :
  LInv l -> (forall o', In o' (lb_outs b) -> o' < length (l_files l)) ->
  In o (lb_outs b) -> nth_error (l_files l) o = Some f -> lf_input f = Some prev ->
  exists m, graph_add_build fixed l b = Err m.
Proof.
  intros I R Io F LI.
  destruct (first_conflict l (lb_outs b) R) as [pre [o1 [post [f1 [prev1 [E [P [F1 L1]]]]]]]].
  { exists o. split; [exact Io|]. unfold inp. rewrite F, LI. discriminate. }
  destruct (second_producer_rejected fixed l b pre o1 post f1 prev1 I E P F1 L1) as [pb [_ [_ H]]].
  eexists. exact H.
Qed.

(* ------------------------------------------------------------------------------------ *)
(* an output repeated within one statement *)

Theorem repeat_within_statement l b :
  LInv l ->
  (forall i, In i (lb_ins b) -> i < length (l_files l)) ->
  (forall o, In o (lb_outs b) -> exists f, nth_error (l_files l) o = Some f /\ lf_input f = None) ->
  lb_explicit_outs b <= length (lb_outs b) ->
  exists l' b',
    graph_add_build true l b = Ok l' /\ LInv l' /\
    l_builds l' = l_builds l ++ [b'] /\
    lb_outs b' = dedup (lb_outs b) /\
    lb_explicit_outs b' = length (dedup (firstn (lb_explicit_outs b) (lb_outs b))) /\
    lb_ins b' = lb_ins b /\ lb_cmdline b' = lb_cmdline b /\ lb_file b' = lb_file b /\ lb_line b' = lb_line b /\
    l_warnings l' = l_warnings l ++
      map (fun o => bs "n2: warn: " ++ loc_text (lb_file b) (lb_line b) ++ bs ": " ++
                    str_debug (file_nm l o) ++ bs " is repeated in output list")
          (repeats (lb_outs b)).
Proof.
  intros I RI OUT EL.
  pose proof (LInv_NoDangling l I) as ND.
  destruct (fold_total l b ND (lb_outs b) [] _ _ _ (St_init l b)) as [r F].
  { intros o Io. destruct (OUT o Io) as [f [Ff Lf]]. split.
    - apply nth_error_Some. congruence.
    - unfold inp. rewrite Ff. exact Lf. }
  assert (H : exists l', graph_add_build true l b = Ok l').
  { rewrite gab_unfold, F. cbn [bind]. destruct r as [[fs d] w].
    destruct (if d then _ else _) as [outs eo]. eexists. reflexivity. }
  destruct H as [l' H]. exists l', (new_build b).
  destruct (gab_ok l b l' ND EL H) as [_ [_ [_ [BS [W _]]]]].
  split; [exact H|]. split; [eapply graph_add_build_LInv; eassumption|].
  split; [exact BS|]. repeat split. exact W.
Qed.
