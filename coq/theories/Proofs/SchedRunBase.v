(* Basic lemmas for the run-loop proofs: state vectors, counting, pools, bs_set. *)
From Coq Require Import Lia ZArith List Bool Arith.
From N2 Require Import Model.All Proofs.SchedSpec Proofs.SchedInv.
Import ListNotations.
Local Open Scope Z_scope.

(* ------------------------------------------------------------------------------------ *)
(* bstate equality *)

Lemma bstate_eqb_eq a b : bstate_eqb a b = true <-> a = b.
Proof. destruct a, b; cbn; split; intro H; try reflexivity; try discriminate. Qed.

Lemma bstate_eqb_refl a : bstate_eqb a a = true.
Proof. now apply bstate_eqb_eq. Qed.

Lemma bstate_eqb_neq a b : bstate_eqb a b = false <-> a <> b.
Proof.
  split.
  - intros H E. apply bstate_eqb_eq in E. congruence.
  - intro H. destruct (bstate_eqb a b) eqn:E; [|reflexivity]. apply bstate_eqb_eq in E. contradiction.
Qed.

Lemma bytes_eqb_refl a : bytes_eqb a a = true.
Proof. now apply bytes_eqb_spec. Qed.

Lemma bytes_eqb_false a b : bytes_eqb a b = false <-> a <> b.
Proof.
  split.
  - intros H E. apply bytes_eqb_spec in E. congruence.
  - intro H. destruct (bytes_eqb a b) eqn:E; [|reflexivity]. apply bytes_eqb_spec in E. contradiction.
Qed.

(* ------------------------------------------------------------------------------------ *)
(* set_nth_state *)

Lemma set_nth_state_length l : forall i v, length (set_nth_state l i v) = length l.
Proof.
  induction l as [|c l IH]; intros [|i] v; cbn; try reflexivity.
  now rewrite IH.
Qed.

Lemma nth_set_nth_state_same l : forall i v, (i < length l)%nat -> nth i (set_nth_state l i v) Unknown = v.
Proof.
  induction l as [|c l IH]; intros [|i] v H; cbn in *; try lia; try reflexivity.
  apply IH. lia.
Qed.

Lemma nth_set_nth_state_other l : forall i j v, j <> i -> nth j (set_nth_state l i v) Unknown = nth j l Unknown.
Proof.
  induction l as [|c l IH]; intros [|i] [|j] v H; cbn in *; try reflexivity; try congruence.
  apply IH. congruence.
Qed.

Lemma get_state_range s b : get_state s b <> Unknown -> (b < length (bs_states s))%nat.
Proof.
  unfold get_state. intro H.
  destruct (Nat.lt_ge_cases b (length (bs_states s))) as [L|L]; [exact L|].
  rewrite nth_overflow in H by exact L. congruence.
Qed.

(* [s'] differs from [s] only at index b *)
Definition upd_at (s s' : bstates) (b : nat) : Prop :=
  forall x, x <> b -> get_state s' x = get_state s x.

(* ------------------------------------------------------------------------------------ *)
(* counting *)

Lemma filter_seq_same (P Q : nat -> bool) : forall n a,
  (forall i, (a <= i < a + n)%nat -> P i = Q i) -> filter P (seq a n) = filter Q (seq a n).
Proof.
  intros n a H. apply filter_ext_in. intros i Hi. apply in_seq in Hi. apply H. lia.
Qed.

Lemma filter_seq_change (P Q : nat -> bool) b : forall n a,
  (forall i, i <> b -> P i = Q i) -> (a <= b < a + n)%nat ->
  Z.of_nat (length (filter Q (seq a n))) =
  Z.of_nat (length (filter P (seq a n))) - Z.b2z (P b) + Z.b2z (Q b).
Proof.
  induction n as [|n IH]; intros a H R; [lia|].
  cbn [seq filter].
  destruct (Nat.eq_dec a b) as [E|E].
  - subst a.
    rewrite (filter_seq_same P Q n (S b)) by (intros i Hi; apply H; lia).
    destruct (P b), (Q b); cbn [length Z.b2z]; lia.
  - rewrite (H a E).
    specialize (IH (S a) H ltac:(lia)).
    destruct (Q a); cbn [length]; lia.
Qed.

Lemma count_state_upd g s s' b st fl :
  (b < length (g_builds g))%nat -> upd_at s s' b ->
  count_state g s' st fl =
  count_state g s st fl
  - Z.b2z (bstate_eqb (get_state s b) st && (negb fl || negb (b_phony (get_build g b))))
  + Z.b2z (bstate_eqb (get_state s' b) st && (negb fl || negb (b_phony (get_build g b)))).
Proof.
  intros R U. unfold count_state, indices.
  rewrite (filter_seq_change
             (fun i => bstate_eqb (get_state s i) st && (negb fl || negb (b_phony (get_build g i))))
             (fun i => bstate_eqb (get_state s' i) st && (negb fl || negb (b_phony (get_build g i))))
             b (length (g_builds g)) 0).
  - reflexivity.
  - intros i Hi. cbn beta. now rewrite (U i Hi).
  - lia.
Qed.

Lemma running_in_pool_upd g s s' b name :
  (b < length (g_builds g))%nat -> upd_at s s' b ->
  running_in_pool g s' name =
  running_in_pool g s name
  - Z.b2z (bstate_eqb (get_state s b) Running && bytes_eqb (pool_name (get_build g b)) name)
  + Z.b2z (bstate_eqb (get_state s' b) Running && bytes_eqb (pool_name (get_build g b)) name).
Proof.
  intros R U. unfold running_in_pool, indices.
  rewrite (filter_seq_change
             (fun i => bstate_eqb (get_state s i) Running && bytes_eqb (pool_name (get_build g i)) name)
             (fun i => bstate_eqb (get_state s' i) Running && bytes_eqb (pool_name (get_build g i)) name)
             b (length (g_builds g)) 0).
  - reflexivity.
  - intros i Hi. cbn beta. now rewrite (U i Hi).
  - lia.
Qed.

Lemma count_state_same g s s' st fl :
  (forall x, get_state s' x = get_state s x) -> count_state g s' st fl = count_state g s st fl.
Proof.
  intro H. unfold count_state. f_equal. f_equal. apply filter_ext. intro i. now rewrite H.
Qed.

Lemma running_in_pool_same g s s' name :
  (forall x, get_state s' x = get_state s x) -> running_in_pool g s' name = running_in_pool g s name.
Proof.
  intro H. unfold running_in_pool. f_equal. f_equal. apply filter_ext. intro i. now rewrite H.
Qed.

Lemma census_same g s s' :
  (forall x, get_state s' x = get_state s x) -> census g s' = census g s.
Proof. intro H. unfold census. now rewrite !(count_state_same g s s' _ _ H). Qed.

Lemma count_state_nonneg g s st fl : 0 <= count_state g s st fl.
Proof. unfold count_state. lia. Qed.

Lemma running_in_pool_nonneg g s n : 0 <= running_in_pool g s n.
Proof. unfold running_in_pool. lia. Qed.

(* a zero count means no step in that state *)
Lemma count_state_zero g s st : count_state g s st false = 0 ->
  forall b, (b < length (g_builds g))%nat -> get_state s b <> st.
Proof.
  unfold count_state, indices. intros H b R E.
  assert (I : In b (filter (fun i => bstate_eqb (get_state s i) st && (negb false || negb (b_phony (get_build g i))))
                           (seq 0 (length (g_builds g))))).
  { apply filter_In. split; [apply in_seq; lia|]. rewrite E, bstate_eqb_refl. reflexivity. }
  destruct (filter _ _); [contradiction|]. cbn [length] in H. lia.
Qed.

Lemma count_state_zero_intro g s st fl :
  (forall b, (b < length (g_builds g))%nat -> get_state s b <> st) -> count_state g s st fl = 0.
Proof.
  intro H. unfold count_state, indices.
  rewrite (filter_seq_same _ (fun _ => false)).
  - clear. generalize 0%nat. induction (length (g_builds g)); intro a; cbn; [reflexivity|apply IHn].
  - intros i Hi. cbn beta. destruct (bstate_eqb (get_state s i) st) eqn:E; [|reflexivity].
    apply bstate_eqb_eq in E. exfalso. apply (H i); [lia|exact E].
Qed.

Lemma running_in_pool_zero_intro g s name :
  (forall b, (b < length (g_builds g))%nat -> get_state s b <> Running) -> running_in_pool g s name = 0.
Proof.
  intro H. unfold running_in_pool, indices.
  rewrite (filter_seq_same _ (fun _ => false)).
  - clear. generalize 0%nat. induction (length (g_builds g)); intro a; cbn; [reflexivity|apply IHn].
  - intros i Hi. cbn beta. destruct (bstate_eqb (get_state s i) Running) eqn:E; [|reflexivity].
    apply bstate_eqb_eq in E. exfalso. apply (H i); [lia|exact E].
Qed.

(* when no step in state st is phony, the two counts agree *)
Lemma count_state_nonphony g s st :
  (forall b, get_state s b = st -> b_phony (get_build g b) = false) ->
  count_state g s st true = count_state g s st false.
Proof.
  intro H. unfold count_state. f_equal. f_equal. apply filter_ext. intro i.
  destruct (bstate_eqb (get_state s i) st) eqn:E; [|reflexivity].
  apply bstate_eqb_eq in E. rewrite (H i E). reflexivity.
Qed.

Lemma running_in_pool_le_count g s name : running_in_pool g s name <= count_state g s Running false.
Proof.
  unfold running_in_pool, count_state.
  apply inj_le.
  generalize (indices (g_builds g)). intro l. induction l as [|a l IH]; cbn [filter length]; [lia|].
  destruct (bstate_eqb (get_state s a) Running); cbn [andb negb orb] in IH |- *.
  - destruct (bytes_eqb _ _); cbn [andb negb orb length] in IH |- *; lia.
  - exact IH.
Qed.

(* census after one entry changes *)
Lemma census_upd g s s' b :
  (b < length (g_builds g))%nat -> upd_at s s' b ->
  census g s' = if b_phony (get_build g b) then census g s
                else c6_add (c6_add (census g s) (get_state s b) (-1)) (get_state s' b) 1.
Proof.
  intros R U. unfold census.
  rewrite !(count_state_upd g s s' b _ true R U).
  destruct (b_phony (get_build g b)).
  - cbn [negb orb]. rewrite !andb_false_r. cbn [Z.b2z]. f_equal; lia.
  - cbn [negb orb]. rewrite !andb_true_r.
    destruct (get_state s b), (get_state s' b); cbn [bstate_eqb Z.b2z c6_add k_want k_ready k_queued k_running k_done k_failed];
      f_equal; lia.
Qed.

Lemma c6_eqb_eq a b : c6_eqb a b = true -> a = b.
Proof.
  unfold c6_eqb. intro H.
  repeat (apply andb_true_iff in H; destruct H as [H ?]).
  destruct a, b; cbn in *. f_equal; now apply Z.eqb_eq.
Qed.

(* ------------------------------------------------------------------------------------ *)
(* remove_first *)

Lemma remove_first_spec x l q : remove_first x l = Some q ->
  exists l1 l2, l = l1 ++ x :: l2 /\ q = l1 ++ l2.
Proof.
  revert q. induction l as [|y l IH]; intros q H; cbn in H; [discriminate|].
  destruct (Nat.eqb_spec x y) as [E|E].
  - inversion H; subst. exists [], q. split; reflexivity.
  - destruct (remove_first x l) as [q'|]; [|discriminate]. cbn in H. inversion H; subst.
    destruct (IH q' eq_refl) as (l1 & l2 & -> & ->).
    exists (y :: l1), l2. split; reflexivity.
Qed.

Lemma remove_first_NoDup x l q : NoDup l -> remove_first x l = Some q ->
  NoDup q /\ In x l /\ forall y, In y q <-> (In y l /\ y <> x).
Proof.
  intros N H. destruct (remove_first_spec x l q H) as (l1 & l2 & -> & ->).
  pose proof (NoDup_remove_1 _ _ _ N) as N1.
  pose proof (NoDup_remove_2 _ _ _ N) as N2.
  split; [exact N1|]. split; [apply in_or_app; right; left; reflexivity|].
  intro y. rewrite !in_app_iff. cbn [In]. split.
  - intros I. split; [tauto|]. intros ->. apply N2. apply in_or_app. exact I.
  - intros [[I|[I|I]] Ne]; [tauto|congruence|tauto].
Qed.

(* ------------------------------------------------------------------------------------ *)
(* pools *)

Lemma pool_find_In ps name p : pool_find ps name = Some p -> In p ps /\ p_name p = name.
Proof.
  induction ps as [|q ps IH]; cbn; [discriminate|].
  destruct (bytes_eqb (p_name q) name) eqn:E.
  - intro H. inversion H; subst. apply bytes_eqb_spec in E. auto.
  - intro H. destruct (IH H). auto.
Qed.

Lemma pool_find_of_In ps p : NoDup (map p_name ps) -> In p ps -> pool_find ps (p_name p) = Some p.
Proof.
  induction ps as [|q ps IH]; cbn; intros N I; [contradiction|].
  inversion N as [|? ? N1 N2]; subst.
  destruct I as [->|I].
  - now rewrite bytes_eqb_refl.
  - destruct (bytes_eqb (p_name q) (p_name p)) eqn:E.
    + apply bytes_eqb_spec in E. exfalso. apply N1. rewrite E. now apply in_map.
    + now apply IH.
Qed.

Lemma pool_find_none ps name : pool_find ps name = None <-> ~ In name (map p_name ps).
Proof.
  induction ps as [|q ps IH]; cbn; [tauto|].
  destruct (bytes_eqb (p_name q) name) eqn:E.
  - apply bytes_eqb_spec in E. split; [discriminate|]. intro H. exfalso. apply H. now left.
  - apply bytes_eqb_false in E. rewrite IH. tauto.
Qed.

Lemma pool_find_names ps ps' name : map p_name ps' = map p_name ps ->
  pool_find ps name <> None -> pool_find ps' name <> None.
Proof.
  intros M H C. apply H. apply pool_find_none. apply pool_find_none in C. now rewrite <- M.
Qed.

Lemma pool_update_spec ps name f ps' : pool_update ps name f = Some ps' ->
  exists l1 p l2, ps = l1 ++ p :: l2 /\ ps' = l1 ++ f p :: l2 /\ p_name p = name /\
                  pool_find ps name = Some p.
Proof.
  revert ps'. induction ps as [|q ps IH]; intros ps' H; cbn in H; [discriminate|].
  cbn [pool_find].
  destruct (bytes_eqb (p_name q) name) eqn:E.
  - inversion H; subst. exists [], q, ps. apply bytes_eqb_spec in E. repeat split; auto.
  - destruct (pool_update ps name f) as [r|]; [|discriminate]. cbn in H. inversion H; subst.
    destruct (IH r eq_refl) as (l1 & p & l2 & -> & -> & Hn & Hf).
    exists (q :: l1), p, l2. repeat split; auto.
Qed.

Lemma pool_update_some ps name f p : pool_find ps name = Some p -> exists ps', pool_update ps name f = Some ps'.
Proof.
  induction ps as [|q ps IH]; cbn; [discriminate|].
  destruct (bytes_eqb (p_name q) name).
  - intros _. eexists; reflexivity.
  - intro H. destruct (IH H) as [r ->]. eexists; reflexivity.
Qed.

(* the form used everywhere: f keeps the name *)
Lemma pool_update_In ps name f ps' :
  (forall p, p_name (f p) = p_name p) -> NoDup (map p_name ps) -> pool_update ps name f = Some ps' ->
  exists p, In p ps /\ p_name p = name /\ pool_find ps name = Some p /\
            map p_name ps' = map p_name ps /\
            (forall q, In q ps' <-> (q = f p \/ (In q ps /\ p_name q <> name))).
Proof.
  intros Hf N H. destruct (pool_update_spec _ _ _ _ H) as (l1 & p & l2 & -> & -> & Hn & Hfind).
  exists p. split; [apply in_or_app; right; left; reflexivity|].
  split; [exact Hn|]. split; [exact Hfind|].
  split; [rewrite !map_app; cbn [map]; now rewrite Hf|].
  rewrite map_app in N. cbn [map] in N.
  pose proof (NoDup_remove_2 _ _ _ N) as N2.
  intro q. rewrite !in_app_iff. cbn [In]. split.
  - intros [I|[I|I]].
    + right. split; [tauto|]. intro E. apply N2. apply in_or_app. left. rewrite Hn, <- E. now apply in_map.
    + left. auto.
    + right. split; [tauto|]. intro E. apply N2. apply in_or_app. right. rewrite Hn, <- E. now apply in_map.
  - intros [->|[[I|[I|I]] Ne]]; [tauto|tauto| |tauto].
    subst q. congruence.
Qed.

Lemma pool_update_map {A} (h : pool -> A) ps name f ps' :
  (forall p, h (f p) = h p) -> pool_update ps name f = Some ps' -> map h ps' = map h ps.
Proof.
  intros Hf H. destruct (pool_update_spec _ _ _ _ H) as (l1 & p & l2 & -> & -> & _).
  rewrite !map_app. cbn [map]. now rewrite Hf.
Qed.

(* ------------------------------------------------------------------------------------ *)
(* bs_set *)

Definition padd (d : Z) (p : pool) : pool := mkPool (p_name p) (p_queued p) (p_running p + d) (p_depth p).

Lemma bs_set_spec s b bd st s' :
  get_state s b <> Unknown -> bs_set s b bd st = Ok s' ->
  bs_states s' = set_nth_state (bs_states s) b st /\
  bs_counts s' = (if b_phony bd then bs_counts s
                  else c6_add (c6_add (bs_counts s) (get_state s b) (-1)) st 1) /\
  bs_pending s' = bs_pending s - (match st with Done | Failed => 1 | _ => 0 end) /\
  bs_ready s' = (match st with Ready => bs_ready s ++ [b] | _ => bs_ready s end) /\
  exists ps1,
    (if bstate_eqb (get_state s b) Running
     then pool_update (bs_pools s) (pool_name bd) (padd (-1)) = Some ps1
     else ps1 = bs_pools s) /\
    (match st with
     | Running => pool_update ps1 (pool_name bd) (padd 1) = Some (bs_pools s')
     | _ => bs_pools s' = ps1
     end).
Proof.
  intros Hne H. unfold bs_set in H.
  apply bstate_eqb_neq in Hne. rewrite Hne in H.
  change (fun p : pool => mkPool (p_name p) (p_queued p) (p_running p - 1) (p_depth p)) with (padd (-1)) in H.
  change (fun p : pool => mkPool (p_name p) (p_queued p) (p_running p + 1) (p_depth p)) with (padd 1) in H.
  destruct (bstate_eqb (get_state s b) Running) eqn:ER.
  - destruct (pool_update (bs_pools s) (pool_name bd) (padd (-1))) as [ps1|] eqn:EU; cbn [bind] in H; [|discriminate].
    destruct st; cbn [bind] in H;
      try (inversion H; subst s'; cbn [bs_states bs_counts bs_pending bs_ready bs_pools];
           repeat split; try reflexivity; try (destruct (b_phony bd); reflexivity);
           try lia; exists ps1; split; reflexivity).
    destruct (pool_update ps1 (pool_name bd) (padd 1)) as [ps2|] eqn:EU2; cbn [bind] in H; [|discriminate].
    inversion H; subst s'; cbn [bs_states bs_counts bs_pending bs_ready bs_pools].
    repeat split; try reflexivity; try (destruct (b_phony bd); reflexivity); try lia.
    exists ps1; split; [reflexivity|exact EU2].
  - cbn [bind] in H.
    destruct st; cbn [bind] in H;
      try (inversion H; subst s'; cbn [bs_states bs_counts bs_pending bs_ready bs_pools];
           repeat split; try reflexivity; try (destruct (b_phony bd); reflexivity);
           try lia; exists (bs_pools s); split; reflexivity).
    destruct (pool_update (bs_pools s) (pool_name bd) (padd 1)) as [ps2|] eqn:EU2; cbn [bind] in H; [|discriminate].
    inversion H; subst s'; cbn [bs_states bs_counts bs_pending bs_ready bs_pools].
    repeat split; try reflexivity; try (destruct (b_phony bd); reflexivity); try lia.
    exists (bs_pools s); split; [reflexivity|exact EU2].
Qed.

Lemma get_state_set s s' b st :
  bs_states s' = set_nth_state (bs_states s) b st -> (b < length (bs_states s))%nat ->
  get_state s' b = st /\ upd_at s s' b.
Proof.
  intros E R. unfold upd_at, get_state. rewrite E. split.
  - now apply nth_set_nth_state_same.
  - intros x Hx. now apply nth_set_nth_state_other.
Qed.
