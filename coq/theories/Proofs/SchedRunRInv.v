(* The run-state invariant RInv and its preservation by every accepted event. *)
From Coq Require Import Lia ZArith List Bool Arith.
From N2 Require Import Model.All Proofs.SchedSpec Proofs.SchedInv Proofs.SchedRunBase
     Proofs.SchedRunStep Proofs.SchedRunCore Proofs.SchedRunAux.
Import ListNotations.

Definition run_shift (c : ctl) : nat :=
  match c with CStarting _ | CFinished _ _ _ => 1 | _ => 0 end.

(* runner.running against the number of Running steps: between ESet Queued Running and EStart,
   and between EFinish and the ESet that leaves Running, the runner count is one behind *)
Definition run_count_ok (c : ctl) (n : nat) (cnt : Z) : Prop :=
  match c with
  | CReturned (Some false) => Z.of_nat n = cnt \/ (Z.of_nat n + 1 = cnt)%Z
  | _ => Z.of_nat (n + run_shift c) = cnt
  end.

Section RunInv.
Variable cf : config.
Variable decls : list (bytes * nat).
Notation g := (cf_graph cf).
Notation nb := (length (g_builds (cf_graph cf))).

Definition ctl_ok (s : bstates) (c : ctl) : Prop :=
  match c with
  | CIdle => ReadyOk g s None /\ QueueOk g s
  | CChecking b => ReadyOk g s (Some b) /\ QueueOk g s /\ b < nb /\ get_state s b = Ready
  | CVerdict b v _ =>
    b < nb /\ (v = VDirty -> b_phony (get_build g b) = false) /\
    ((get_state s b = Ready /\ ReadyOk g s (Some b) /\ QueueOk g s) \/
     (v = VError /\ get_state s b = Queued))
  | CStarting b => ReadyOk g s None /\ QueueOk g s /\ b < nb /\ get_state s b = Running
  | CFinished b _ _ => ReadyOk g s None /\ QueueOk g s /\ b < nb /\ get_state s b = Running
  | CReturned (Some true) =>
    ReadyOk g s None /\ QueueOk g s /\ forall b, get_state s b = Unknown \/ get_state s b = Done
  | CReturned (Some false) => ReadyOk g s None /\ QueueOk g s
  | CReturned None => True
  end.

Record RInv (r : rstate) : Prop := {
  ri_core : BCore g decls (rs_bs r);
  ri_ctl : ctl_ok (rs_bs r) (rs_ctl r);
  ri_running : run_count_ok (rs_ctl r) (rs_running r) (count_state g (rs_bs r) Running false);
  ri_failed : Z.of_nat (rs_failed r) = count_state g (rs_bs r) Failed false;
  ri_par : rs_running r + run_shift (rs_ctl r) <= cf_parallelism cf;
  ri_depth : depth_ok g (rs_bs r);
}.

Ltac inv_start Hinv Hc C K Rn Fl Par Dp :=
  destruct Hinv as [C K Rn Fl Par Dp]; rewrite Hc in K, Rn, Par;
  cbn [ctl_ok run_count_ok run_shift] in K, Rn, Par.

Ltac rinv_goal :=
  constructor;
  cbn [with_bs with_ctl rs_bs rs_ctl rs_running rs_failed rs_failures_left rs_tasks_run
       ctl_ok run_count_ok run_shift].

Ltac notin := cbn [In]; intuition discriminate.

Lemma depth_ok_nonrun s s' b :
  BCore g decls s -> BCore g decls s' -> b < nb -> upd_at s s' b ->
  get_state s' b <> Running -> depth_ok g s -> depth_ok g s'.
Proof.
  intros C C' L U Hb D. apply (depth_ok_mono g decls s s' C C'); [|exact D].
  intro n. rewrite (running_in_pool_upd g s s' b n L U).
  apply bstate_eqb_neq in Hb. rewrite Hb. cbn [andb Z.b2z].
  destruct (bstate_eqb (get_state s b) Running && bytes_eqb (pool_name (get_build g b)) n); cbn [Z.b2z]; lia.
Qed.

(* ---- the simple control moves ---- *)

Lemma RInv_start r b :
  RInv r -> rs_ctl r = CStarting b ->
  RInv (mkRS (rs_bs r) (S (rs_running r)) (rs_failed r) (rs_failures_left r) (rs_tasks_run r) CIdle).
Proof.
  intros Hinv Hc. inv_start Hinv Hc C K Rn Fl Par Dp. destruct K as (RO & QO & L & E).
  rinv_goal; auto; lia.
Qed.

Lemma RInv_pop r b q :
  RInv r -> rs_ctl r = CIdle -> get_state (rs_bs r) b = Ready ->
  remove_first b (bs_ready (rs_bs r)) = Some q ->
  RInv (with_bs r (set_ready (rs_bs r) q) (CChecking b)).
Proof.
  intros Hinv Hc E Hr. inv_start Hinv Hc C K Rn Fl Par Dp. destruct K as (RO & QO).
  rinv_goal.
  - now apply BCore_set_ready.
  - split; [now apply ReadyOk_pop|]. split; [exact QO|]. split; [|exact E].
    apply (BCore_range g decls _ b C). rewrite E. discriminate.
  - exact Rn.
  - exact Fl.
  - exact Par.
  - exact Dp.
Qed.

Lemma RInv_verdict r b v :
  RInv r -> rs_ctl r = CChecking b -> (v = VDirty -> b_phony (get_build g b) = false) ->
  RInv (with_ctl r (CVerdict b v false)).
Proof.
  intros Hinv Hc Hv. inv_start Hinv Hc C K Rn Fl Par Dp. destruct K as (RO & QO & L & E).
  rinv_goal; auto. split; [exact L|]. split; [exact Hv|]. left. auto.
Qed.

Lemma RInv_adopt_record r b :
  RInv r -> rs_ctl r = CVerdict b VDirty false -> RInv (with_ctl r (CVerdict b VDirty true)).
Proof.
  intros Hinv Hc. inv_start Hinv Hc C K Rn Fl Par Dp. rinv_goal; auto.
Qed.

Lemma RInv_error_return r b rec :
  RInv r -> rs_ctl r = CVerdict b VError rec -> RInv (with_ctl r (CReturned None)).
Proof.
  intros Hinv Hc. inv_start Hinv Hc C K Rn Fl Par Dp. rinv_goal; auto.
Qed.

Lemma RInv_finish r b t :
  RInv r -> rs_ctl r = CIdle -> get_state (rs_bs r) b = Running -> 0 < rs_running r ->
  RInv (mkRS (rs_bs r) (pred (rs_running r)) (rs_failed r) (rs_failures_left r) (rs_tasks_run r)
             (CFinished b t false)).
Proof.
  intros Hinv Hc E Hn. inv_start Hinv Hc C K Rn Fl Par Dp. destruct K as (RO & QO).
  rinv_goal; auto; try lia.
  split; [exact RO|]. split; [exact QO|]. split; [|exact E].
  apply (BCore_range g decls _ b C). rewrite E. discriminate.
Qed.

Lemma RInv_record r b :
  RInv r -> rs_ctl r = CFinished b TSuccess false -> RInv (with_ctl r (CFinished b TSuccess true)).
Proof.
  intros Hinv Hc. inv_start Hinv Hc C K Rn Fl Par Dp. rinv_goal; auto.
Qed.

Lemma RInv_return_false r b t rec :
  RInv r -> rs_ctl r = CFinished b t rec -> RInv (with_ctl r (CReturned (Some false))).
Proof.
  intros Hinv Hc. inv_start Hinv Hc C K Rn Fl Par Dp. destruct K as (RO & QO & L & E).
  rinv_goal; auto; try lia.
Qed.

Lemma RInv_return r ok :
  RInv r -> rs_ctl r = CIdle ->
  (bs_pending (rs_bs r) = 0%Z \/ stuck_b cf r = true) -> ok = (rs_failed r =? 0) ->
  RInv (with_ctl r (CReturned (Some ok))).
Proof.
  intros Hinv Hc Hp Hok. inv_start Hinv Hc C K Rn Fl Par Dp. destruct K as (RO & QO).
  destruct (Nat.eqb_spec (rs_failed r) 0) as [Ef|Ef]; subst ok.
  - assert (P0 : bs_pending (rs_bs r) = 0%Z).
    { destruct Hp as [P0|St]; [exact P0|]. unfold stuck_b in St.
      repeat (apply andb_true_iff in St; destruct St as [St ?]).
      match goal with H : (0 <? rs_failed r) = true |- _ => apply Nat.ltb_lt in H; lia end. }
    rinv_goal; auto; try lia.
    split; [exact RO|]. split; [exact QO|].
    apply (BCore_all_done g decls _ C P0). lia.
  - rinv_goal; auto; try lia.
Qed.

(* ---- moves through bs_set on the current states ---- *)

Lemma RInv_ready_done r b v rec s' :
  RInv r -> rs_ctl r = CVerdict b v rec ->
  ((v = VClean /\ rec = false) \/ (v = VDirty /\ cf_adopt cf = true)) ->
  bs_set (rs_bs r) b (get_build g b) Done = Ok s' ->
  RInv (with_bs r s' CIdle).
Proof.
  intros Hinv Hc Hv Hs. inv_start Hinv Hc C K Rn Fl Par Dp.
  destruct K as (L & Hph & [(E & RO & QO)|(Ev & _)]);
    [|subst v; destruct Hv as [[? _]|[? _]]; discriminate].
  assert (T : trans_ok (get_state (rs_bs r) b) Done) by (rewrite E; unfold trans_ok; tauto).
  assert (HP : In Done [Ready; Queued; Running; Done] ->
               forall p, ordering_producer g b p -> get_state (rs_bs r) p = Done).
  { intros _ p Hp. apply (bc_prod _ _ _ C b p); [rewrite E; cbn; tauto|exact Hp]. }
  assert (HQ : forall p, In p (bs_pools (rs_bs r)) -> ~ In b (p_queued p)).
  { apply (BCore_not_queued g decls _ b C). rewrite E. discriminate. }
  assert (HN : In Done [Queued; Running] -> b_phony (get_build g b) = false) by notin.
  destruct (bs_set_BCore g decls _ b Done s' C L T HP HQ HN Hs) as (C' & Gb & U & Er & SQ).
  rinv_goal.
  - exact C'.
  - split.
    + apply (ReadyOk_close g _ s' b RO U); [rewrite Gb; discriminate|exact Er].
    + apply (QueueOk_upd g _ s' b QO U (same_queues_sub b _ _ SQ)); rewrite Gb; [notin|discriminate].
  - rewrite (upd_counts g _ s' b Running L U), E, Gb. cbn [bstate_eqb Z.b2z]. lia.
  - rewrite (upd_counts g _ s' b Failed L U), E, Gb. cbn [bstate_eqb Z.b2z]. lia.
  - exact Par.
  - apply (depth_ok_nonrun _ s' b C C' L U); [rewrite Gb; discriminate|exact Dp].
Qed.

Lemma RInv_promote r d s' :
  RInv r -> rs_ctl r = CIdle -> get_state (rs_bs r) d = Want ->
  producers_done g (rs_bs r) (get_build g d) = true ->
  bs_set (rs_bs r) d (get_build g d) Ready = Ok s' ->
  RInv (with_bs r s' CIdle).
Proof.
  intros Hinv Hc E Hpd Hs. inv_start Hinv Hc C K Rn Fl Par Dp. destruct K as (RO & QO).
  assert (L : d < nb) by (apply (BCore_range g decls _ d C); rewrite E; discriminate).
  assert (T : trans_ok (get_state (rs_bs r) d) Ready) by (rewrite E; unfold trans_ok; tauto).
  assert (HP : In Ready [Ready; Queued; Running; Done] ->
               forall p, ordering_producer g d p -> get_state (rs_bs r) p = Done).
  { intros _. now apply producers_done_spec. }
  assert (HQ : forall p, In p (bs_pools (rs_bs r)) -> ~ In d (p_queued p)).
  { apply (BCore_not_queued g decls _ d C). rewrite E. discriminate. }
  assert (HN : In Ready [Queued; Running] -> b_phony (get_build g d) = false) by notin.
  destruct (bs_set_BCore g decls _ d Ready s' C L T HP HQ HN Hs) as (C' & Gb & U & Er & SQ).
  rinv_goal.
  - exact C'.
  - split.
    + apply (ReadyOk_push g _ s' d RO U L); [rewrite E; discriminate|exact Gb|exact Er].
    + apply (QueueOk_upd g _ s' d QO U (same_queues_sub d _ _ SQ)); rewrite Gb; [notin|discriminate].
  - rewrite (upd_counts g _ s' d Running L U), E, Gb. cbn [bstate_eqb Z.b2z]. lia.
  - rewrite (upd_counts g _ s' d Failed L U), E, Gb. cbn [bstate_eqb Z.b2z]. lia.
  - exact Par.
  - apply (depth_ok_nonrun _ s' d C C' L U); [rewrite Gb; discriminate|exact Dp].
Qed.

Lemma RInv_leave_running r b t rec st s' nf' fl' tr' :
  RInv r -> rs_ctl r = CFinished b t rec ->
  (st = Done /\ nf' = rs_failed r) \/ (st = Failed /\ nf' = S (rs_failed r)) ->
  bs_set (rs_bs r) b (get_build g b) st = Ok s' ->
  RInv (mkRS s' (rs_running r) nf' fl' tr' CIdle).
Proof.
  intros Hinv Hc Hst Hs. inv_start Hinv Hc C K Rn Fl Par Dp. destruct K as (RO & QO & L & E).
  assert (T : trans_ok (get_state (rs_bs r) b) st).
  { rewrite E. unfold trans_ok. destruct Hst as [[-> _]|[-> _]]; tauto. }
  assert (HP : In st [Ready; Queued; Running; Done] ->
               forall p, ordering_producer g b p -> get_state (rs_bs r) p = Done).
  { intros _ p Hp. apply (bc_prod _ _ _ C b p); [rewrite E; cbn; tauto|exact Hp]. }
  assert (HQ : forall p, In p (bs_pools (rs_bs r)) -> ~ In b (p_queued p)).
  { apply (BCore_not_queued g decls _ b C). rewrite E. discriminate. }
  assert (HN : In st [Queued; Running] -> b_phony (get_build g b) = false).
  { destruct Hst as [[-> _]|[-> _]]; notin. }
  destruct (bs_set_BCore g decls _ b st s' C L T HP HQ HN Hs) as (C' & Gb & U & Er & SQ).
  assert (Hst' : st <> Ready /\ st <> Queued /\ st <> Running).
  { destruct Hst as [[-> _]|[-> _]]; repeat split; discriminate. }
  destruct Hst' as (S1 & S2 & S3).
  rinv_goal.
  - exact C'.
  - split.
    + apply (ReadyOk_other g _ s' b None RO U); [rewrite E; discriminate|rewrite Gb; exact S1|].
      rewrite Er. destruct Hst as [[-> _]|[-> _]]; reflexivity.
    + apply (QueueOk_upd g _ s' b QO U (same_queues_sub b _ _ SQ)); rewrite Gb.
      * cbn [In]. intros [?|[?|[]]]; congruence.
      * intro; congruence.
  - rewrite (upd_counts g _ s' b Running L U), E, Gb.
    destruct Hst as [[-> _]|[-> _]]; cbn [bstate_eqb Z.b2z]; lia.
  - rewrite (upd_counts g _ s' b Failed L U), E, Gb.
    destruct Hst as [[-> ->]|[-> ->]]; cbn [bstate_eqb Z.b2z]; lia.
  - lia.
  - apply (depth_ok_nonrun _ s' b C C' L U); [rewrite Gb; exact S3|exact Dp].
Qed.

(* ---- enqueue ---- *)

Lemma RInv_enqueue_common r b s1 :
  RInv r -> rs_ctl r = CVerdict b VDirty false ->
  bs_set (rs_bs r) b (get_build g b) Queued = Ok s1 ->
  b < nb /\ get_state (rs_bs r) b = Ready /\ ReadyOk g (rs_bs r) (Some b) /\ QueueOk g (rs_bs r) /\
  BCore g decls s1 /\ get_state s1 b = Queued /\ upd_at (rs_bs r) s1 b /\
  bs_ready s1 = bs_ready (rs_bs r) /\ same_queues (bs_pools (rs_bs r)) (bs_pools s1) /\
  (forall p, In p (bs_pools (rs_bs r)) -> ~ In b (p_queued p)).
Proof.
  intros Hinv Hc Hs. inv_start Hinv Hc C K Rn Fl Par Dp.
  destruct K as (L & Hph & [(E & RO & QO)|(Ev & _)]); [|discriminate].
  assert (T : trans_ok (get_state (rs_bs r) b) Queued) by (rewrite E; unfold trans_ok; tauto).
  assert (HP : In Queued [Ready; Queued; Running; Done] ->
               forall p, ordering_producer g b p -> get_state (rs_bs r) p = Done).
  { intros _ p Hp. apply (bc_prod _ _ _ C b p); [rewrite E; cbn; tauto|exact Hp]. }
  assert (HQ : forall p, In p (bs_pools (rs_bs r)) -> ~ In b (p_queued p)).
  { apply (BCore_not_queued g decls _ b C). rewrite E. discriminate. }
  assert (HN : In Queued [Queued; Running] -> b_phony (get_build g b) = false).
  { intros _. now apply Hph. }
  destruct (bs_set_BCore g decls _ b Queued s1 C L T HP HQ HN Hs) as (C' & Gb & U & Er & SQ).
  exact (conj L (conj E (conj RO (conj QO (conj C' (conj Gb (conj U (conj Er (conj SQ HQ))))))))).
Qed.

Lemma RInv_enqueue_fail r b s1 :
  RInv r -> rs_ctl r = CVerdict b VDirty false ->
  bs_set (rs_bs r) b (get_build g b) Queued = Ok s1 ->
  RInv (with_bs r s1 (CVerdict b VError false)).
Proof.
  intros Hinv Hc Hs.
  destruct (RInv_enqueue_common r b s1 Hinv Hc Hs) as (L & E & RO & QO & C' & Gb & U & Er & SQ & HQ).
  inv_start Hinv Hc C K Rn Fl Par Dp.
  rinv_goal.
  - exact C'.
  - split; [exact L|]. split; [discriminate|]. right. auto.
  - rewrite (upd_counts g _ s1 b Running L U), E, Gb. cbn [bstate_eqb Z.b2z]. lia.
  - rewrite (upd_counts g _ s1 b Failed L U), E, Gb. cbn [bstate_eqb Z.b2z]. lia.
  - exact Par.
  - apply (depth_ok_nonrun _ s1 b C C' L U); [rewrite Gb; discriminate|exact Dp].
Qed.

Lemma RInv_enqueue r b s1 ps :
  RInv r -> rs_ctl r = CVerdict b VDirty false ->
  bs_set (rs_bs r) b (get_build g b) Queued = Ok s1 ->
  pool_update (bs_pools s1) (pool_name (get_build g b)) (ppush_q b) = Some ps ->
  RInv (with_bs r (set_pools s1 ps) CIdle).
Proof.
  intros Hinv Hc Hs Hu.
  destruct (RInv_enqueue_common r b s1 Hinv Hc Hs) as (L & E & RO & QO & C1 & Gb & U & Er & SQ & HQ).
  inv_start Hinv Hc C K Rn Fl Par Dp.
  set (nm := pool_name (get_build g b)) in *.
  (* b is in no queue of s1 *)
  assert (HQ1 : forall p, In p (bs_pools s1) -> ~ In b (p_queued p)).
  { intros p I. destruct SQ as (_ & _ & Back). destruct (Back p I) as (p0 & I0 & _ & Eqq).
    rewrite Eqq. now apply HQ. }
  destruct (set_queue_BCore g decls s1 nm (fun q => q ++ [b]) ps C1 Hu) as (C' & p0 & Ip0 & Np0 & Hf0 & Hps).
  { intros p I Hn. split.
    - apply NoDup_snoc; [exact (bc_pool_queued_nodup _ _ _ C1 p I)|now apply HQ1].
    - intros x Ix. apply in_app_iff in Ix. destruct Ix as [Ix|[<-|[]]].
      + destruct (bc_pool_queued _ _ _ C1 p x I Ix) as [Sx Px]. split; [exact Sx|congruence].
      + split; [exact Gb|reflexivity]. }
  set (s2 := set_pools s1 ps) in *.
  assert (U2 : upd_at (rs_bs r) s2 b) by exact U.
  assert (Gb2 : get_state s2 b = Queued) by exact Gb.
  rinv_goal.
  - exact C'.
  - split.
    + apply (ReadyOk_close g _ s2 b RO U2); [rewrite Gb2; discriminate|exact Er].
    + apply (QueueOk_upd g _ s2 b QO U2).
      * apply (queues_sub_trans b _ (bs_pools s1)); [now apply same_queues_sub|].
        apply (set_queue_sub b (bs_pools s1) nm (fun q => q ++ [b]) ps (bc_pool_names_nodup _ _ _ C1) Hu).
        intros p _ _ x _ Ix. apply in_or_app. now left.
      * intros _ Hn. apply pool_find_none in Hn. apply Hn.
        cbn [s2 set_pools bs_pools].
        apply in_map_iff. exists (mkPool (p_name p0) (p_queued p0 ++ [b]) (p_running p0) (p_depth p0)).
        split; [exact Np0|]. apply Hps. now left.
      * intros _. exists (mkPool (p_name p0) (p_queued p0 ++ [b]) (p_running p0) (p_depth p0)).
        split; [apply Hps; now left|]. split; [exact Np0|].
        cbn [p_queued]. apply in_or_app. right. now left.
  - change (count_state g s2 Running false) with (count_state g s1 Running false).
    rewrite (upd_counts g _ s1 b Running L U), E, Gb. cbn [bstate_eqb Z.b2z]. lia.
  - change (count_state g s2 Failed false) with (count_state g s1 Failed false).
    rewrite (upd_counts g _ s1 b Failed L U), E, Gb. cbn [bstate_eqb Z.b2z]. lia.
  - exact Par.
  - apply (depth_ok_nonrun _ s2 b C C' L U2); [rewrite Gb2; discriminate|exact Dp].
Qed.

(* ---- start of a queued step ---- *)

Lemma RInv_run r b p q ps s' :
  RInv r -> rs_ctl r = CIdle -> get_state (rs_bs r) b = Queued ->
  rs_running r < cf_parallelism cf ->
  pool_find (bs_pools (rs_bs r)) (pool_name (get_build g b)) = Some p ->
  pool_has_room p = true ->
  remove_first b (p_queued p) = Some q ->
  pool_update (bs_pools (rs_bs r)) (pool_name (get_build g b)) (pset_q q) = Some ps ->
  bs_set (set_pools (rs_bs r) ps) b (get_build g b) Running = Ok s' ->
  RInv (with_bs r s' (CStarting b)).
Proof.
  intros Hinv Hc E Hn Hf Hroom Hrem Hupd Hs.
  inv_start Hinv Hc C K Rn Fl Par Dp. destruct K as (RO & QO).
  set (s := rs_bs r) in *. set (nm := pool_name (get_build g b)) in *.
  destruct (pool_find_In _ _ _ Hf) as (Ip & Np).
  pose proof (bc_pool_names_nodup _ _ _ C) as ND.
  assert (L : b < nb) by (apply (BCore_range g decls s b C); rewrite E; discriminate).
  destruct (remove_first_NoDup b _ q (bc_pool_queued_nodup _ _ _ C p Ip) Hrem) as (Nq & Ibq & Hq).
  assert (Uniq : forall p1, In p1 (bs_pools s) -> p_name p1 = nm -> p1 = p).
  { intros p1 I1 N1. pose proof (pool_find_of_In _ p1 ND I1) as F1. rewrite N1 in F1. congruence. }
  destruct (set_queue_BCore g decls s nm (fun _ => q) ps C Hupd) as (C1 & p0 & Ip0 & Np0 & Hf0 & Hps).
  { intros p1 _ _. split; [exact Nq|]. intros x Ix. apply Hq in Ix. destruct Ix as [Ix _].
    destruct (bc_pool_queued _ _ _ C p x Ip Ix) as [Sx Px]. split; [exact Sx|congruence]. }
  assert (p0 = p) by congruence. subst p0.
  set (s1 := set_pools s ps) in *.
  assert (T : trans_ok (get_state s1 b) Running).
  { change (get_state s1 b) with (get_state s b). rewrite E. unfold trans_ok. tauto. }
  assert (HP : In Running [Ready; Queued; Running; Done] ->
               forall p', ordering_producer g b p' -> get_state s1 p' = Done).
  { intros _ p' Hp'. apply (bc_prod _ _ _ C b p'); [rewrite E; cbn; tauto|exact Hp']. }
  assert (HQ : forall p', In p' (bs_pools s1) -> ~ In b (p_queued p')).
  { intros p' I'. cbn [s1 set_pools bs_pools] in I'. apply Hps in I'. destruct I' as [->|[I' Ne]].
    - cbn [p_queued]. intro Ib. apply Hq in Ib. destruct Ib as [_ Ne]. congruence.
    - intro Ib. destruct (bc_pool_queued _ _ _ C p' b I' Ib) as [_ Pn]. apply Ne. symmetry. exact Pn. }
  assert (HN : In Running [Queued; Running] -> b_phony (get_build g b) = false).
  { intros _. apply (bc_nonphony _ _ _ C b). rewrite E. cbn. tauto. }
  destruct (bs_set_BCore g decls s1 b Running s' C1 L T HP HQ HN Hs) as (C' & Gb & U1 & Er & SQ).
  assert (U : upd_at s s' b) by exact U1.
  assert (QS : queues_sub_except b (bs_pools s) (bs_pools s')).
  { apply (queues_sub_trans b _ ps); [|now apply same_queues_sub].
    apply (set_queue_sub b (bs_pools s) nm (fun _ => q) ps ND Hupd).
    intros p1 I1 N1 x Nx Ix. rewrite (Uniq p1 I1 N1) in Ix. apply Hq. auto. }
  rinv_goal.
  - exact C'.
  - split.
    + apply (ReadyOk_other g s s' b None RO U); [rewrite E; discriminate|rewrite Gb; discriminate|exact Er].
    + split; [|split; [exact L|exact Gb]].
      apply (QueueOk_upd g s s' b QO U QS).
      * intros _. apply (pool_find_names (bs_pools s)); [apply QS|]. fold nm. rewrite Hf. discriminate.
      * rewrite Gb. discriminate.
  - rewrite (upd_counts g s s' b Running L U), E, Gb. cbn [bstate_eqb Z.b2z]. lia.
  - rewrite (upd_counts g s s' b Failed L U), E, Gb. cbn [bstate_eqb Z.b2z]. lia.
  - lia.
  - intros p' I' Hd.
    destruct (pool_nd_transfer g decls s s' p' C C' I') as (p1 & I1 & En & Ed).
    rewrite (running_in_pool_upd g s s' b (p_name p') L U), E, Gb.
    cbn [bstate_eqb andb Z.b2z]. fold nm.
    destruct (bytes_eqb nm (p_name p')) eqn:Eb; cbn [Z.b2z].
    + apply bytes_eqb_spec in Eb.
      assert (p1 = p) by (apply Uniq; [exact I1|congruence]). subst p1.
      unfold pool_has_room in Hroom. apply orb_true_iff in Hroom. destruct Hroom as [Hz|Hlt].
      * apply Nat.eqb_eq in Hz. lia.
      * apply Z.ltb_lt in Hlt. rewrite (bc_pool_running _ _ _ C p Ip) in Hlt.
        rewrite <- En, <- Ed. lia.
    + rewrite <- En, <- Ed. rewrite <- Ed in Hd. specialize (Dp p1 I1 Hd). lia.
Qed.

(* ---- every accepted event preserves the invariant ---- *)

Theorem step_RInv r e r' : RInv r -> step cf r e r' -> RInv r'.
Proof.
  intros Hinv Hstep. destruct Hstep.
  - exact Hinv.
  - eapply RInv_run; eauto.
  - eapply RInv_start; eauto.
  - eapply RInv_pop; eauto.
  - eapply RInv_verdict; eauto.
  - eapply RInv_adopt_record; eauto.
  - eapply RInv_ready_done; eauto.
  - eapply RInv_enqueue; eauto.
  - eapply RInv_enqueue_fail; eauto.
  - eapply RInv_error_return; eauto.
  - eapply RInv_promote; eauto.
  - exact Hinv.
  - eapply RInv_finish; eauto.
  - eapply RInv_record; eauto.
  - eapply (RInv_leave_running r b TSuccess rec Done); eauto.
  - eapply (RInv_leave_running r b TFailure rec Failed); eauto.
  - eapply RInv_return_false; eauto.
  - eapply RInv_return_false; eauto.
  - eapply RInv_return; eauto.
Qed.

Theorem accept1_RInv r e r' : RInv r -> accept1 cf r e = Some r' -> RInv r'.
Proof. intros Hinv H. apply accept1_step in H. exact (step_RInv r e r' Hinv H). Qed.

Theorem accepts_RInv tr : forall r r', RInv r -> accepts cf r tr = Some r' -> RInv r'.
Proof.
  induction tr as [|e tr IH]; intros r r' Hinv H; cbn in H.
  - inversion H; subst. exact Hinv.
  - destruct (accept1 cf r e) as [r1|] eqn:E; [|discriminate].
    apply (IH r1 r'); [|exact H]. exact (accept1_RInv r e r1 Hinv E).
Qed.

(* ---- the initial run state of a Work ---- *)

Lemma RInv_init s fl :
  BInv g decls s -> (forall b, In (get_state s b) [Unknown; Want; Ready; Done]) ->
  RInv (run_init s fl).
Proof.
  intros B H. apply BInv_split in B. destruct B as (C & RO & QO).
  assert (NR : forall b, b < nb -> get_state s b <> Running).
  { intros b _ E. specialize (H b). rewrite E in H. cbn in H. intuition discriminate. }
  assert (NF : forall b, b < nb -> get_state s b <> Failed).
  { intros b _ E. specialize (H b). rewrite E in H. cbn in H. intuition discriminate. }
  unfold run_init. rinv_goal.
  - exact C.
  - auto.
  - cbn. symmetry. now apply count_state_zero_intro.
  - cbn. symmetry. now apply count_state_zero_intro.
  - lia.
  - intros p I Hd. rewrite (running_in_pool_zero_intro g s (p_name p) NR). lia.
Qed.

End RunInv.
