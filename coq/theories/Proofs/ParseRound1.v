(* C10 round trip, stage 1: eval strings.  On a text that spells [es] (ParseSpec.spells_eval),
   followed by a byte at which an eval string stops, [read_eval] returns a part list with the same
   atoms as [es] and leaves the scanner just behind the text. *)
From Coq Require Import String.
From N2 Require Import Model.All Proofs.ParseSpell Proofs.ParseRoundScan.

(* ------------------------------------------------------------------------------------ *)
(* atoms, norm_eval, evaluate *)

Lemma atoms_app a b : atoms (a ++ b) = atoms a ++ atoms b.
Proof. unfold atoms. apply flat_map_app. Qed.

Lemma atoms_cons p es : atoms (p :: es) = part_atoms p ++ atoms es.
Proof. reflexivity. Qed.

Lemma atoms_of_atoms l : atoms (of_atoms l) = l.
Proof.
  induction l as [|a l IH]; [reflexivity|].
  destruct a as [c|v]; cbn [of_atoms].
  - destruct (of_atoms l) as [|[s|w] r'] eqn:E; rewrite <- IH; reflexivity.
  - rewrite atoms_cons, IH. reflexivity.
Qed.

Lemma norm_eval_iff es es' : norm_eval es = norm_eval es' <-> atoms es = atoms es'.
Proof.
  unfold norm_eval. split; intro H; [|now rewrite H].
  rewrite <- (atoms_of_atoms (atoms es)), <- (atoms_of_atoms (atoms es')). now rewrite H.
Qed.

Lemma norm_eval_idem es : norm_eval (norm_eval es) = norm_eval es.
Proof. unfold norm_eval. now rewrite atoms_of_atoms. Qed.

Lemma evaluate_atoms envs es : evaluate envs es = concat (map (atom_eval envs) (atoms es)).
Proof.
  unfold evaluate. induction es as [|p es IH]; [reflexivity|].
  rewrite atoms_cons, map_app, concat_app. cbn [map concat]. rewrite IH. f_equal.
  destruct p as [l|v]; cbn [part_atoms map concat atom_eval]; [|now rewrite app_nil_r].
  induction l as [|c l IHl]; [reflexivity|]. cbn [map concat atom_eval app]. now rewrite <- IHl.
Qed.

Lemma evaluate_atoms_eq envs es es' : atoms es = atoms es' -> evaluate envs es = evaluate envs es'.
Proof. intro H. now rewrite !evaluate_atoms, H. Qed.

Lemma evaluate_norm envs es : evaluate envs (norm_eval es) = evaluate envs es.
Proof. apply evaluate_atoms_eq. unfold norm_eval. apply atoms_of_atoms. Qed.

(* ------------------------------------------------------------------------------------ *)
(* character classes *)

Lemma plain_spec path c :
  plain_char path c = true ->
  (c =? 0)%N = false /\ (c =? 36)%N = false /\ c <> 13%N /\
  ((c =? 10) || (path && ((c =? 32) || (c =? 58) || (c =? 124))))%N = false.
Proof.
  unfold plain_char. intro H. apply negb_true_iff in H.
  apply orb_false_iff in H as [H Hp]. apply orb_false_iff in H as [H H36].
  apply orb_false_iff in H as [H H13]. apply orb_false_iff in H as [H0 H10].
  apply N.eqb_neq in H13. rewrite H10, Hp. auto.
Qed.

Lemma simple_not c :
  is_simple_var_char c = true ->
  c <> 0%N /\ c <> 10%N /\ c <> 13%N /\ c <> 32%N /\ c <> 36%N /\ c <> 58%N /\ c <> 123%N.
Proof. intro H. repeat split; intros ->; discriminate H. Qed.

Lemma brace_spec c : brace_char c = true -> (c =? 0)%N = false /\ (c =? 125)%N = false /\ c <> 13%N.
Proof.
  unfold brace_char. intro H. apply negb_true_iff in H.
  apply orb_false_iff in H as [H H125]. apply orb_false_iff in H as [H0 H13].
  apply N.eqb_neq in H13. auto.
Qed.

Definition push_lit (pend : bytes) (acc : list epart) : list epart :=
  match pend with [] => acc | _ => Lit pend :: acc end.

Lemma atoms_push pend acc : atoms (rev (push_lit pend acc)) = atoms (rev acc) ++ map AByte pend.
Proof.
  destruct pend as [|c r]; cbn [push_lit]; [now rewrite app_nil_r|].
  cbn [rev]. rewrite atoms_app, atoms_cons. cbn [part_atoms atoms flat_map]. now rewrite app_nil_r.
Qed.

Section R1.
  Variable buf : bytes.
  Variable L0 : Z.
  Hypothesis Hno13 : ~ In 13%N buf.

  Notation at_ := (at_ buf L0).

  (* -------------------------------------------------------------------------------- *)
  (* read_escape, entered just behind the '$' *)

  Lemma escape_char s pre c suf f :
    (c = 32 \/ c = 36 \/ c = 58)%N -> at_ s pre (c :: suf) ->
    exists s', read_escape f s = SOk (Lit [c]) s' /\ at_ s' (pre ++ [c]) suf.
  Proof.
    intros Hc Hat. destruct (read_at _ _ _ _ _ _ Hat) as (s1 & E1 & H1).
    unfold read_escape. rewrite E1. cbn [sbind].
    destruct Hc as [->|[->| ->]]; cbn; eauto.
  Qed.

  Lemma escape_cont s pre n c suf f :
    c <> 32%N -> at_ s pre (10%N :: repeat 32%N n ++ c :: suf) ->
    pc (fun v s' => v = Lit [] /\ at_ s' (pre ++ 10%N :: repeat 32%N n) (c :: suf)) (read_escape f s).
  Proof.
    intros Hc Hat. destruct (read_at _ _ _ _ _ _ Hat) as (s1 & E1 & H1).
    unfold read_escape. rewrite E1. cbn [sbind]. change (10 =? 10)%N with true. cbv iota.
    eapply pc_bind; [apply (sc_skip_spaces_at buf L0 Hno13 n _ c suf s1 f H1 Hc) | apply pc_fuel|].
    intros ? s2 H2. cbv beta. apply pc_ok. split; [reflexivity|].
    eapply at_eq; [exact H2 | now norm_app | reflexivity].
  Qed.

  Lemma until_rbrace_at v : forallb brace_char v = true -> forall pre suf s f,
    at_ s pre (v ++ 125%N :: suf) ->
    pc (fun _ s' => at_ s' (pre ++ v ++ [125%N]) suf) (read_until_rbrace f s).
  Proof.
    induction v as [|x v IH]; intros Hall pre suf s f Hat;
      (destruct f as [|f]; [apply pc_fuel|]); cbn [read_until_rbrace app] in *.
    - destruct (read_at _ _ _ _ _ _ Hat) as (s1 & E1 & H1). rewrite E1. cbn [sbind].
      change (125 =? 0)%N with false. change (125 =? 125)%N with true. cbv iota.
      apply pc_ok. exact H1.
    - cbn [forallb] in Hall. apply andb_true_iff in Hall as [Hx Hall].
      apply brace_spec in Hx as (Hx0 & Hx125 & _).
      destruct (read_at _ _ _ _ _ _ Hat) as (s1 & E1 & H1). rewrite E1. cbn [sbind].
      rewrite Hx0, Hx125.
      eapply pc_mono; [apply (IH Hall (pre ++ [x]) suf s1 f H1)|].
      intros ? s' Hs'. eapply at_eq; [exact Hs' | now norm_app | reflexivity].
  Qed.

  Lemma escape_brace s pre v suf f :
    forallb brace_char v = true -> at_ s pre (123%N :: v ++ 125%N :: suf) ->
    pc (fun p s' => p = Var v /\ at_ s' (pre ++ 123%N :: v ++ [125%N]) suf) (read_escape f s).
  Proof.
    intros Hall Hat. destruct (read_at _ _ _ _ _ _ Hat) as (s1 & E1 & H1).
    unfold read_escape. rewrite E1. cbn [sbind].
    change (123 =? 10)%N with false. change ((123 =? 32) || (123 =? 36) || (123 =? 58))%N with false.
    change (123 =? 123)%N with true. cbv iota.
    eapply pc_bind; [apply (until_rbrace_at v Hall _ suf s1 f H1) | apply pc_fuel|].
    intros ? s2 H2. cbv beta.
    pose proof H1 as (_ & _ & Ho1 & _). pose proof H2 as (Hb2 & He2 & Ho2 & _).
    rewrite Ho1, Ho2.
    replace (length ((pre ++ [123%N]) ++ v ++ [125%N]) - 1) with (length ((pre ++ [123%N]) ++ v))
      by (rewrite !app_length; cbn [length]; lia).
    rewrite (slice_gen buf s2 (pre ++ [123%N]) v (125%N :: suf) Hb2)
      by (rewrite <- He2; now norm_app).
    cbn [sbind]. apply pc_ok. split; [reflexivity|].
    eapply at_eq; [exact H2 | now norm_app | reflexivity].
  Qed.

  Lemma escape_simple s pre v c suf f :
    v <> [] -> forallb is_simple_var_char v = true -> is_simple_var_char c = false ->
    at_ s pre (v ++ c :: suf) ->
    pc (fun p s' => p = Var v /\ at_ s' (pre ++ v) (c :: suf)) (read_escape f s).
  Proof.
    intros Hne Hall Hc Hat. destruct v as [|x v]; [contradiction|].
    pose proof Hall as Hall'. cbn [forallb] in Hall'. apply andb_true_iff in Hall' as [Hx _].
    apply simple_not in Hx as (_ & H10 & _ & H32 & H36 & H58 & H123).
    cbn [app] in Hat.
    destruct (read_back_at _ _ Hno13 _ _ _ _ Hat) as (s1 & s2 & E1 & E2 & H2).
    unfold read_escape. rewrite E1. cbn [sbind].
    apply N.eqb_neq in H10, H32, H36, H58, H123. rewrite H10, H32, H36, H58, H123. cbn [orb].
    rewrite E2. cbn [sbind].
    eapply pc_bind.
    - apply (read_ident_gen_at buf L0 Hno13 is_simple_var_char (bs "failed to scan variable name")
               (x :: v) pre c suf s2 f); [discriminate | exact Hall | exact H2 | exact Hc].
    - apply pc_fuel.
    - intros w s3 (-> & H3). apply pc_ok. auto.
  Qed.

  (* -------------------------------------------------------------------------------- *)
  (* read_eval_loop *)

  (* a run of plain bytes only moves the scanner *)
  Lemma loop_plain path l : forallb (plain_char path) l = true -> forall pre suf s f ofs0 acc,
    at_ s pre (l ++ suf) ->
    read_eval_loop f path s ofs0 acc = SFuel \/
    exists f' s', at_ s' (pre ++ l) suf /\
                  read_eval_loop f path s ofs0 acc = read_eval_loop f' path s' ofs0 acc.
  Proof.
    induction l as [|x l IH]; intros Hall pre suf s f ofs0 acc Hat.
    - right. exists f, s. split; [now rewrite app_nil_r | reflexivity].
    - destruct f as [|f]; [now left|]. cbn [read_eval_loop app] in *.
      cbn [forallb] in Hall. apply andb_true_iff in Hall as [Hx Hall].
      apply plain_spec in Hx as (Hx0 & Hx36 & _ & Hxt).
      destruct (read_at _ _ _ _ _ _ Hat) as (s1 & E1 & H1). rewrite E1. cbn [sbind].
      rewrite Hx0, Hxt, Hx36.
      destruct (IH Hall (pre ++ [x]) suf s1 f ofs0 acc H1) as [E|(f' & s' & Hs' & E)]; [now left|].
      right. exists f', s'. split; [|exact E].
      eapply at_eq; [exact Hs' | now norm_app | reflexivity].
  Qed.

  (* the '$' step: flush the pending literal and hand over to read_escape *)
  Lemma loop_dollar path pre0 pend suf s f acc :
    at_ s (pre0 ++ pend) (36%N :: suf) ->
    exists s1, at_ s1 ((pre0 ++ pend) ++ [36%N]) suf /\
      read_eval_loop (S f) path s (length pre0) acc =
      sbind (read_escape f s1)
            (fun e s2 => read_eval_loop f path s2 (sofs s2) (e :: push_lit pend acc)).
  Proof.
    intro Hat. destruct (read_at _ _ _ _ _ _ Hat) as (s1 & E1 & H1). exists s1. split; [exact H1|].
    cbn [read_eval_loop]. rewrite E1. cbn [sbind].
    change (36 =? 0)%N with false.
    replace ((36 =? 10) || (path && ((36 =? 32) || (36 =? 58) || (36 =? 124))))%N with false
      by (destruct path; reflexivity).
    change (36 =? 36)%N with true. cbv iota.
    pose proof H1 as (Hb1 & He1 & Ho1 & _). rewrite Ho1.
    replace (length ((pre0 ++ pend) ++ [36%N]) - 1) with (length (pre0 ++ pend))
      by (rewrite (app_length (pre0 ++ pend)); cbn [length]; lia).
    destruct pend as [|p pend].
    - rewrite app_nil_r, Nat.ltb_irrefl. cbn [sbind push_lit]. reflexivity.
    - replace (length pre0 <? length (pre0 ++ p :: pend)) with true
        by (symmetry; apply Nat.ltb_lt; rewrite app_length; cbn [length]; lia).
      rewrite (slice_gen buf s1 pre0 (p :: pend) (36%N :: suf) Hb1)
        by (rewrite <- He1; now norm_app).
      cbn [sbind push_lit]. reflexivity.
  Qed.

  (* what the loop returns: the parts so far, and the pending literal [pend'] as two offsets *)
  Definition loop_post (X : bytes) (es : evalstring) pre0 pend t acc
             (r : list epart * nat * nat) (s' : scanner) : Prop :=
    exists acc' pre1 pend',
      r = (acc', length pre1, length (pre1 ++ pend')) /\
      pre1 ++ pend' = pre0 ++ pend ++ t /\ at_ s' (pre1 ++ pend') X /\
      atoms (rev acc') ++ map AByte pend' = atoms (rev acc) ++ map AByte pend ++ atoms es /\
      (acc <> [] \/ pend ++ t <> [] -> acc' <> [] \/ pend' <> []).

  Lemma loop_raw path es t : spells_eval_raw path es t -> forall pre0 pend X s f acc,
    eval_stop path X -> at_ s (pre0 ++ pend) (t ++ X) ->
    pc (loop_post X es pre0 pend t acc) (read_eval_loop f path s (length pre0) acc).
  Proof.
    induction 1 as [|l es t Hl Hplain Hes IH|c es t Hc Hes IH|n es t Hes IH Hnext
                    |v es t Hv Hsimple Hes IH Hnext|v es t Hv Hbrace Hes IH];
      intros pre0 pend X s f acc HX Hat.
    - (* end *)
      destruct f as [|f]; [apply pc_fuel|]. cbn [read_eval_loop app] in *.
      destruct HX as (c & r & -> & Hc).
      destruct (read_back_at _ _ Hno13 _ _ _ _ Hat) as (s1 & s2 & E1 & E2 & H2).
      rewrite E1. cbn [sbind].
      assert (Ec : (c =? 0)%N = false /\
                   ((c =? 10) || (path && ((c =? 32) || (c =? 58) || (c =? 124))))%N = true).
      { destruct Hc as [->|(-> & [->|[->| ->]])]; split; reflexivity. }
      destruct Ec as [Ec0 Ect]. rewrite Ec0, Ect, E2. cbn [sbind].
      apply pc_ok. exists acc, pre0, pend. pose proof H2 as (_ & _ & Ho2 & _). rewrite Ho2.
      split; [reflexivity|]. rewrite app_nil_r. split; [reflexivity|]. split; [exact H2|].
      split; [now rewrite app_nil_r | tauto].
    - (* plain run *)
      assert (Hat' : at_ s (pre0 ++ pend) (l ++ t ++ X)) by (eapply at_eq; [exact Hat | reflexivity | now norm_app]).
      destruct (loop_plain path l Hplain _ _ s f (length pre0) acc Hat') as [E|(f' & s' & Hs' & E)];
        rewrite E; [apply pc_fuel|].
      assert (Hs'' : at_ s' (pre0 ++ pend ++ l) (t ++ X)) by (eapply at_eq; [exact Hs' | now norm_app | reflexivity]).
      eapply pc_mono; [apply (IH pre0 (pend ++ l) X s' f' acc HX Hs'')|].
      intros r s2 (acc' & pre1 & pend' & -> & Epre & H2 & Hatoms & Hne).
      exists acc', pre1, pend'. split; [reflexivity|]. split; [rewrite Epre; now norm_app|].
      split; [exact H2|]. split.
      + rewrite Hatoms, atoms_cons, map_app. cbn [part_atoms]. now norm_app.
      + intro H. apply Hne. destruct H as [H|H]; [now left|right].
        intro E0. apply H. rewrite <- app_assoc in E0. exact E0.
    - (* "$ " "$$" "$:" *)
      destruct f as [|f]; [apply pc_fuel|].
      cbn [app] in Hat. destruct (loop_dollar path pre0 pend _ s f acc Hat) as (s1 & H1 & E). rewrite E.
      destruct (escape_char s1 _ c (t ++ X) f Hc H1) as (s2 & E2 & H2). rewrite E2. cbn [sbind].
      pose proof H2 as (_ & _ & Ho2 & _). rewrite Ho2.
      assert (H2' : at_ s2 ((((pre0 ++ pend) ++ [36%N]) ++ [c]) ++ []) (t ++ X)) by now rewrite app_nil_r.
      eapply pc_mono; [apply (IH _ [] X s2 f _ HX H2')|].
      intros r s3 (acc' & pre1 & pend' & -> & Epre & H3 & Hatoms & Hne).
      exists acc', pre1, pend'. split; [reflexivity|]. split; [rewrite Epre; now norm_app|].
      split; [exact H3|]. split.
      + rewrite Hatoms. cbn [rev]. rewrite atoms_app, atoms_push, !atoms_cons.
        cbn [part_atoms map atoms flat_map]. now norm_app.
      + intros _. apply Hne. left. discriminate.
    - (* continuation *)
      destruct f as [|f]; [apply pc_fuel|].
      cbn [app] in Hat. destruct (loop_dollar path pre0 pend _ s f acc Hat) as (s1 & H1 & E). rewrite E.
      assert (Hc : exists c r, t ++ X = c :: r /\ c <> 32%N).
      { destruct t as [|c r]; cbn [app].
        - destruct HX as (c & r & -> & [->|(Hp & _)]); [|congruence]. eexists _, _. split; [reflexivity | discriminate].
        - eauto. }
      destruct Hc as (c & r & EtX & Hc).
      assert (H1' : at_ s1 ((pre0 ++ pend) ++ [36%N]) (10%N :: repeat 32%N n ++ c :: r)).
      { eapply at_eq; [exact H1 | reflexivity|]. rewrite <- EtX. now norm_app. }
      eapply pc_bind; [apply (escape_cont s1 _ n c r f Hc H1') | apply pc_fuel|].
      intros p s2 (-> & H2). cbv beta.
      pose proof H2 as (_ & _ & Ho2 & _). rewrite Ho2.
      assert (H2' : at_ s2 ((((pre0 ++ pend) ++ [36%N]) ++ 10%N :: repeat 32%N n) ++ []) (t ++ X))
        by (rewrite app_nil_r, EtX; exact H2).
      eapply pc_mono; [apply (IH _ [] X s2 f _ HX H2')|].
      intros r' s3 (acc' & pre1 & pend' & -> & Epre & H3 & Hatoms & Hne).
      exists acc', pre1, pend'. split; [reflexivity|]. split; [rewrite Epre; now norm_app|].
      split; [exact H3|]. split.
      + rewrite Hatoms. cbn [rev]. rewrite atoms_app, atoms_push, !atoms_cons.
        cbn [part_atoms map atoms flat_map]. now norm_app.
      + intros _. apply Hne. left. discriminate.
    - (* $name *)
      destruct f as [|f]; [apply pc_fuel|].
      cbn [app] in Hat. destruct (loop_dollar path pre0 pend _ s f acc Hat) as (s1 & H1 & E). rewrite E.
      assert (Hc : exists c r, t ++ X = c :: r /\ is_simple_var_char c = false).
      { destruct t as [|c r]; cbn [app].
        - destruct HX as (c & r & -> & [->|(_ & [->|[->| ->]])]); eexists _, _; split; reflexivity.
        - eauto. }
      destruct Hc as (c & r & EtX & Hc).
      assert (H1' : at_ s1 ((pre0 ++ pend) ++ [36%N]) (v ++ c :: r)).
      { eapply at_eq; [exact H1 | reflexivity|]. rewrite <- EtX. now norm_app. }
      eapply pc_bind; [apply (escape_simple s1 _ v c r f Hv Hsimple Hc H1') | apply pc_fuel|].
      intros p s2 (-> & H2). cbv beta.
      pose proof H2 as (_ & _ & Ho2 & _). rewrite Ho2.
      assert (H2' : at_ s2 ((((pre0 ++ pend) ++ [36%N]) ++ v) ++ []) (t ++ X))
        by (rewrite app_nil_r, EtX; exact H2).
      eapply pc_mono; [apply (IH _ [] X s2 f _ HX H2')|].
      intros r' s3 (acc' & pre1 & pend' & -> & Epre & H3 & Hatoms & Hne).
      exists acc', pre1, pend'. split; [reflexivity|]. split; [rewrite Epre; now norm_app|].
      split; [exact H3|]. split.
      + rewrite Hatoms. cbn [rev]. rewrite atoms_app, atoms_push, !atoms_cons.
        cbn [part_atoms map atoms flat_map]. now norm_app.
      + intros _. apply Hne. left. discriminate.
    - (* ${name} *)
      destruct f as [|f]; [apply pc_fuel|].
      cbn [app] in Hat. destruct (loop_dollar path pre0 pend _ s f acc Hat) as (s1 & H1 & E). rewrite E.
      assert (H1' : at_ s1 ((pre0 ++ pend) ++ [36%N]) (123%N :: v ++ 125%N :: (t ++ X))).
      { eapply at_eq; [exact H1 | reflexivity|]. now norm_app. }
      eapply pc_bind; [apply (escape_brace s1 _ v (t ++ X) f Hbrace H1') | apply pc_fuel|].
      intros p s2 (-> & H2). cbv beta.
      pose proof H2 as (_ & _ & Ho2 & _). rewrite Ho2.
      assert (H2' : at_ s2 ((((pre0 ++ pend) ++ [36%N]) ++ 123%N :: v ++ [125%N]) ++ []) (t ++ X))
        by (rewrite app_nil_r; exact H2).
      eapply pc_mono; [apply (IH _ [] X s2 f _ HX H2')|].
      intros r' s3 (acc' & pre1 & pend' & -> & Epre & H3 & Hatoms & Hne).
      exists acc', pre1, pend'. split; [reflexivity|]. split; [rewrite Epre; now norm_app|].
      split; [exact H3|]. split.
      + rewrite Hatoms. cbn [rev]. rewrite atoms_app, atoms_push, !atoms_cons.
        cbn [part_atoms map atoms flat_map]. now norm_app.
      + intros _. apply Hne. left. discriminate.
  Qed.

  (* -------------------------------------------------------------------------------- *)
  (* read_eval *)

  Definition eval_post (es : evalstring) (pre t X : bytes) (es' : evalstring) (s' : scanner) : Prop :=
    at_ s' (pre ++ t) X /\ atoms es' = atoms es /\ es' <> [].

  Lemma read_eval_raw path es t pre X s f :
    spells_eval_raw path es t -> t <> [] -> eval_stop path X -> at_ s pre (t ++ X) ->
    pc (eval_post es pre t X) (read_eval f path s).
  Proof.
    intros Hes Hne HX Hat. unfold read_eval.
    pose proof Hat as (_ & _ & Ho & _). rewrite Ho.
    assert (Hat' : at_ s (pre ++ []) (t ++ X)) by now rewrite app_nil_r.
    eapply pc_bind; [apply (loop_raw path es t Hes pre [] X s f [] HX Hat') | apply pc_fuel|].
    intros r s1 (acc' & pre1 & pend' & -> & Epre & H1 & Hatoms & Hacc). cbv beta iota.
    cbn [app] in Epre, Hatoms, Hacc.
    assert (Eflush : (if length pre1 <? length (pre1 ++ pend')
                      then sbind (sc_slice s1 (length pre1) (length (pre1 ++ pend')))
                                 (fun l s => SOk (Lit l :: acc') s)
                      else SOk acc' s1) = SOk (push_lit pend' acc') s1).
    { destruct pend' as [|p pend'].
      - rewrite app_nil_r, Nat.ltb_irrefl. reflexivity.
      - replace (length pre1 <? length (pre1 ++ p :: pend')) with true
          by (symmetry; apply Nat.ltb_lt; rewrite app_length; cbn [length]; lia).
        destruct H1 as (Hb1 & He1 & _).
        rewrite (slice_gen buf s1 pre1 (p :: pend') X Hb1) by (rewrite <- He1; now norm_app).
        reflexivity. }
    rewrite Eflush. cbn [sbind].
    assert (Hpush : push_lit pend' acc' <> []).
    { destruct (Hacc (or_intror Hne)) as [H|H]; destruct pend'; cbn [push_lit]; try congruence; discriminate. }
    destruct (push_lit pend' acc') as [|p0 acc0] eqn:Epush; [contradiction|].
    apply pc_ok. split; [|split].
    - eapply at_eq; [exact H1 | exact Epre | reflexivity].
    - rewrite <- Epush, atoms_push, Hatoms. reflexivity.
    - intro E0. apply (f_equal (@length _)) in E0. rewrite rev_length in E0. discriminate.
  Qed.

  Lemma read_eval_spells path es t pre X s f :
    spells_eval path es t -> t <> [] -> eval_stop path X -> at_ s pre (t ++ X) ->
    pc (eval_post es pre t X) (read_eval f path s).
  Proof.
    intros (es0 & Hraw & Eat) Hne HX Hat.
    eapply pc_mono; [apply (read_eval_raw path es0 t pre X s f Hraw Hne HX Hat)|].
    intros es' s' (H1 & H2 & H3). split; [exact H1|]. split; [congruence | exact H3].
  Qed.
End R1.

(* ------------------------------------------------------------------------------------ *)
(* no '\r' in a spelling *)

Lemma forallb_notin (ok : N -> bool) x l : ok x = false -> forallb ok l = true -> ~ In x l.
Proof.
  intros Hx Hall Hin. rewrite forallb_forall in Hall. apply Hall in Hin. congruence.
Qed.

Lemma repeat32_no13 n : ~ In 13%N (repeat 32%N n).
Proof. intro H. apply repeat_spec in H. discriminate. Qed.

Lemma raw_no13 path es t : spells_eval_raw path es t -> ~ In 13%N t.
Proof.
  induction 1 as [|l es t Hl Hplain Hes IH|c es t Hc Hes IH|n es t Hes IH Hnext
                  |v es t Hv Hsimple Hes IH Hnext|v es t Hv Hbrace Hes IH].
  - intros [].
  - apply notin_app; [|exact IH]. apply (forallb_notin (plain_char path)); [|exact Hplain].
    destruct path; reflexivity.
  - intros [E|[E|E]]; [discriminate | | contradiction]. destruct Hc as [->|[->| ->]]; discriminate.
  - intros [E|[E|E]]; [discriminate | discriminate|].
    apply in_app_or in E as [E|E]; [now apply repeat32_no13 in E | contradiction].
  - intros [E|E]; [discriminate|].
    apply in_app_or in E as [E|E]; [|contradiction].
    revert E. now apply (forallb_notin is_simple_var_char).
  - intros [E|[E|E]]; [discriminate | discriminate|].
    apply in_app_or in E as [E|[E|E]]; [|discriminate | contradiction].
    revert E. now apply (forallb_notin brace_char).
Qed.

Lemma spells_eval_no13 path es t : spells_eval path es t -> ~ In 13%N t.
Proof. intros (es0 & H & _). eapply raw_no13; eauto. Qed.

(* ------------------------------------------------------------------------------------ *)
(* Stage 1 theorems, on explicit scanners *)

Lemma at_intro buf L0 pre suf s :
  sbuf s = buf -> buf = pre ++ suf -> sofs s = length pre -> sline s = L0 ->
  at_ buf (L0 - nlz pre) s pre suf.
Proof. intros Hb -> Ho Hl. split; [exact Hb|]. split; [reflexivity|]. split; [exact Ho | lia]. Qed.

(* S1: read_eval on a spelling of [es] *)
Theorem eval_roundtrip path es txt pre rest s fuel :
  spells_eval path es txt -> txt <> [] -> eval_stop path (rest ++ [0%N]) ->
  ~ In 13%N (pre ++ rest) ->
  sbuf s = pre ++ txt ++ rest ++ [0%N] -> sofs s = length pre ->
  read_eval fuel path s = SFuel \/
  exists es', read_eval fuel path s =
              SOk es' (mkScanner (sbuf s) (length (pre ++ txt)) (sline s + nlz txt)) /\
              norm_eval es' = norm_eval es /\ es' <> [].
Proof.
  intros Hes Hne HX H13 Hb Ho.
  assert (Hno13 : ~ In 13%N (sbuf s)).
  { rewrite Hb. apply notin_app; [intro; apply H13, in_or_app; now left|].
    apply notin_app; [eapply spells_eval_no13; eauto|].
    apply notin_app; [intro; apply H13, in_or_app; now right | cbn; intuition discriminate]. }
  pose proof (at_intro (sbuf s) (sline s) pre (txt ++ rest ++ [0%N]) s eq_refl Hb Ho eq_refl) as Hat.
  destruct (read_eval_spells (sbuf s) _ Hno13 path es txt pre (rest ++ [0%N]) s fuel Hes Hne HX Hat)
    as [E|(es' & s' & E & (Hb' & _ & Ho' & Hl') & Hatoms & Hne')]; [now left|].
  right. exists es'. split; [|split; [now apply norm_eval_iff | exact Hne']].
  rewrite E. f_equal. destruct s' as [b o l]. cbn in Hb', Ho', Hl'. subst b o.
  f_equal. rewrite Hl', nlz_app. lia.
Qed.

(* two spellings of the same eval string are read as the same thing *)
Corollary eval_spelling_independent path es t1 t2 pre1 rest1 pre2 rest2 s1 s2 fuel1 fuel2 es1 es2 z1 z2 :
  spells_eval path es t1 -> spells_eval path es t2 -> t1 <> [] -> t2 <> [] ->
  eval_stop path (rest1 ++ [0%N]) -> eval_stop path (rest2 ++ [0%N]) ->
  ~ In 13%N (pre1 ++ rest1) -> ~ In 13%N (pre2 ++ rest2) ->
  sbuf s1 = pre1 ++ t1 ++ rest1 ++ [0%N] -> sofs s1 = length pre1 ->
  sbuf s2 = pre2 ++ t2 ++ rest2 ++ [0%N] -> sofs s2 = length pre2 ->
  read_eval fuel1 path s1 = SOk es1 z1 -> read_eval fuel2 path s2 = SOk es2 z2 ->
  norm_eval es1 = norm_eval es2 /\ forall envs, evaluate envs es1 = evaluate envs es2.
Proof.
  intros H1 H2 N1 N2 X1 X2 C1 C2 B1 O1 B2 O2 R1 R2.
  destruct (eval_roundtrip path es t1 pre1 rest1 s1 fuel1 H1 N1 X1 C1 B1 O1) as [E|(e1 & E1 & A1 & _)];
    [congruence|].
  destruct (eval_roundtrip path es t2 pre2 rest2 s2 fuel2 H2 N2 X2 C2 B2 O2) as [E|(e2 & E2 & A2 & _)];
    [congruence|].
  rewrite R1 in E1. rewrite R2 in E2. injection E1 as -> _. injection E2 as -> _.
  assert (A : norm_eval e1 = norm_eval e2) by congruence.
  split; [exact A|]. intro envs. apply evaluate_atoms_eq. now apply norm_eval_iff.
Qed.
