(* C10/C11, manifests WITH include/subninja: concrete two- and three-file manifests run through
   load_manifest, run_stmts_files, flat_file (vm_compute witnesses). *)
From Coq Require Import String.
From N2 Require Import Model.All Proofs.EvalFiles.
From N2 Require Import Proofs.LoadGraphSpec Proofs.LoadGraphRun Proofs.LoadGraphFile Proofs.LoadGraphNames.
From N2 Require Import Proofs.LoadInclSpec Proofs.LoadInclIsolated.

(* ------------------------------------------------------------------------------------ *)
(* three files: build.ninja includes a.ninja, which subninjas b.ninja.
   - a.ninja rebinds v and binds w: both are seen in a.ninja and b.ninja, neither in build.ninja
     after the include line (F11);
   - a.ninja declares rule r2 and pool pl: both are there for build.ninja afterwards;
   - the steps come in textual order, the children spliced in at the include line. *)

Definition ex_b : bytes := ln "build q: r2" [].

Definition ex_a : bytes :=
  ln "v = child" (ln "w = cw" (ln "rule r2" (ln "  command = d.$v.$w" (ln "pool pl" (ln "  depth = 2"
  (ln "build p: r" (ln "subninja b.ninja" []))))))).

Definition ex_main : bytes :=
  ln "rule r" (ln "  command = c.$v.$w" (ln "v = top" (ln "include a.ninja"
  (ln "build o1: r2" (ln "build o2: r" []))))).

Definition ex_fs : list (bytes * bytes) := [(bs "a.ninja", ex_a); (bs "b.ninja", ex_b)].

Lemma ex_incl_load :
  exists l b0 b1 b2 b3,
    load_manifest true 5 ex_fs (bs "build.ninja") ex_main = Ok l /\
    l_builds l = [b0; b1; b2; b3] /\
    lb_file b0 = bs "a.ninja" /\ lb_line b0 = 7%Z /\ lb_cmdline b0 = Some (bs "c.child.cw") /\
    lb_file b1 = bs "b.ninja" /\ lb_line b1 = 1%Z /\ lb_cmdline b1 = Some (bs "d.child.cw") /\
    lb_file b2 = bs "build.ninja" /\ lb_line b2 = 5%Z /\ lb_cmdline b2 = Some (bs "d.top.") /\
    lb_file b3 = bs "build.ninja" /\ lb_line b3 = 6%Z /\ lb_cmdline b3 = Some (bs "c.top.") /\
    l_pools l = [(bs "pl", 2%N)] /\
    map fst (l_rules l) = [bs "phony"; bs "r"; bs "r2"] /\
    map lf_name (l_files l) = [bs "build.ninja"; bs "a.ninja"; bs "p"; bs "b.ninja"; bs "q"; bs "o1"; bs "o2"].
Proof.
  eexists. eexists. eexists. eexists. eexists. split; [vm_compute; reflexivity|].
  split; [reflexivity|]. vm_compute. repeat split.
Qed.

(* the same through the declarative semantics: the manifest's own statements are four (rule,
   include, build, build); [run_stmts_files] on them gives the loader, up to the final builddir *)
Lemma ex_incl_run_stmts_files :
  exists sts vs' s' l1,
    file_stmts ex_main [] = (sts, SOk (None, vs') s') /\
    map (fun sv => is_include (fst sv)) sts = [false; true; false; false] /\
    map snd sts = [[]; [(bs "v", bs "top")]; [(bs "v", bs "top")]; [(bs "v", bs "top")]] /\
    vs' = [(bs "v", bs "top")] /\
    run_stmts_files 4 ex_fs [] (loader_start (bs "build.ninja")) (bs "build.ninja") sts = Ok l1 /\
    load_manifest true 5 ex_fs (bs "build.ninja") ex_main = Ok (with_builddir l1 (assoc_b (bs "builddir") vs')).
Proof.
  eexists. eexists. eexists. eexists. split; [vm_compute; reflexivity|].
  split; [vm_compute; reflexivity|]. split; [vm_compute; reflexivity|]. split; [reflexivity|].
  split; vm_compute; reflexivity.
Qed.

(* the flat sequence *)
Definition stmt_kind (st : statement) : bytes :=
  match st with
  | SRule _ _ => bs "rule" | SBuild _ => bs "build" | SDefault _ => bs "default"
  | SInclude _ => bs "include" | SSubninja _ => bs "subninja" | SPool _ _ => bs "pool"
  end.

(* file, kind, value of v attached to the item *)
Definition fitem_tag (it : fitem) : bytes * bytes * option bytes :=
  match it with
  | FStmt f st vs => (f, stmt_kind st, assoc_b (bs "v") vs)
  | FEnd vs => ([], bs "end", assoc_b (bs "v") vs)
  end.

Lemma ex_incl_flat :
  exists items vs' l,
    flat_file 5 ex_fs [] (bs "build.ninja") ex_main [] = Some (items ++ [FEnd vs']) /\
    map fitem_tag items =
      [ (bs "build.ninja", bs "rule", None);
        (bs "build.ninja", bs "include", Some (bs "top"));
        (bs "a.ninja", bs "rule", Some (bs "child"));
        (bs "a.ninja", bs "pool", Some (bs "child"));
        (bs "a.ninja", bs "build", Some (bs "child"));
        (bs "a.ninja", bs "subninja", Some (bs "child"));
        (bs "b.ninja", bs "build", Some (bs "child"));
        ([], bs "end", Some (bs "child"));
        ([], bs "end", Some (bs "child"));
        (bs "build.ninja", bs "build", Some (bs "top"));
        (bs "build.ninja", bs "build", Some (bs "top")) ] /\
    map (fun it => (fst it, pb_line (fst (fst (snd it))), map fst (snd (snd it))))
        (fbuild_items [(bs "phony", [])] items) =
      [ (bs "a.ninja", 7%Z, [bs "phony"; bs "r"; bs "r2"]);
        (bs "b.ninja", 1%Z, [bs "phony"; bs "r"; bs "r2"]);
        (bs "build.ninja", 5%Z, [bs "phony"; bs "r"; bs "r2"]);
        (bs "build.ninja", 6%Z, [bs "phony"; bs "r"; bs "r2"]) ] /\
    load_manifest true 5 ex_fs (bs "build.ninja") ex_main = Ok l /\
    run_flat (loader_start (bs "build.ninja")) (items ++ [FEnd vs']) = Ok l /\
    map fitem_view (fbuild_items [(bs "phony", [])] items) = map (fun b => Some (view l b)) (l_builds l) /\
    map (fun b => sv_cmdline (view l b)) (l_builds l) =
      [Some (bs "c.child.cw"); Some (bs "d.child.cw"); Some (bs "d.top."); Some (bs "c.top.")].
Proof.
  eexists (removelast (match flat_file 5 ex_fs [] (bs "build.ninja") ex_main [] with Some x => x | None => [] end)).
  eexists. eexists. split; [vm_compute; reflexivity|].
  split; [vm_compute; reflexivity|]. split; [vm_compute; reflexivity|].
  split; [vm_compute; reflexivity|]. split; [vm_compute; reflexivity|].
  split; vm_compute; reflexivity.
Qed.

(* ------------------------------------------------------------------------------------ *)
(* two files, the include line dropped (replaced by an empty line, so that line numbers stay):
   the child rebinds v, redeclares rule r and adds a step.  Afterwards `build o1: r` has the child's
   command (with the PARENT's v), `build o2: k` is the same step with and without the line. *)

Definition iso_child : bytes :=
  ln "v = child" (ln "rule r" (ln "  command = changed.$v" (ln "build p: k" []))).

Definition iso_main : bytes :=
  ln "rule r" (ln "  command = c.$v" (ln "rule k" (ln "  command = k.$v" (ln "v = top"
  (ln "include a.ninja" (ln "build o1: r" (ln "build o2: k" []))))))).

Definition iso_main' : bytes :=
  ln "rule r" (ln "  command = c.$v" (ln "rule k" (ln "  command = k.$v" (ln "v = top"
  (ln "" (ln "build o1: r" (ln "build o2: k" []))))))).

Definition iso_fs : list (bytes * bytes) := [(bs "a.ninja", iso_child)].

Definition iso_sts : list (statement * vars) := fst (file_stmts iso_main []).
Definition iso_pre : list (statement * vars) := firstn 2 iso_sts.
Definition iso_post : list (statement * vars) := skipn 3 iso_sts.

Lemma ex_isolated :
  exists l l' bp bo1 bo2 bo1' bo2' child,
    iso_sts = iso_pre ++ (SInclude [Lit (bs "a.ninja")], [(bs "v", bs "top")]) :: iso_post /\
    fst (file_stmts iso_main' []) = iso_pre ++ iso_post /\
    load_manifest true 5 iso_fs (bs "build.ninja") iso_main = Ok l /\
    load_manifest true 5 iso_fs (bs "build.ninja") iso_main' = Ok l' /\
    l_builds l = [bp; bo1; bo2] /\ l_builds l' = [bo1'; bo2'] /\
    flat_file 4 iso_fs [bs "a.ninja"] (bs "a.ninja") iso_child [(bs "v", bs "top")] = Some child /\
    last_rule (bs "k") (stmts_of child) = None /\
    last_rule (bs "r") (stmts_of child) = Some [(bs "command", [Lit (bs "changed."); Var (bs "v")])] /\
    view l bo2 = view l' bo2' /\
    paths_of (view l bo1) = paths_of (view l' bo1') /\
    lb_cmdline bp = Some (bs "k.child") /\
    lb_cmdline bo1 = Some (bs "changed.top") /\ lb_cmdline bo1' = Some (bs "c.top") /\
    lb_cmdline bo2 = Some (bs "k.top").
Proof.
  eexists. eexists. eexists. eexists. eexists. eexists. eexists. eexists.
  split; [vm_compute; reflexivity|]. split; [vm_compute; reflexivity|].
  split; [vm_compute; reflexivity|]. split; [vm_compute; reflexivity|].
  split; [reflexivity|]. split; [reflexivity|].
  split; [vm_compute; reflexivity|].
  vm_compute. repeat split.
Qed.

(* ------------------------------------------------------------------------------------ *)
(* the failures of the file structure *)

(* a.ninja -> b.ninja -> a.ninja (under another spelling) *)
Lemma ex_cycle :
  load_manifest true 5 [(bs "a.ninja", ln "include b.ninja" []); (bs "b.ninja", ln "include sub/../a.ninja" [])]
                (bs "build.ninja") (ln "include a.ninja" [])
  = Err (bs "b.ninja: a.ninja includes itself") /\
  flat_file 5 [(bs "a.ninja", ln "include b.ninja" []); (bs "b.ninja", ln "include sub/../a.ninja" [])] []
            (bs "build.ninja") (ln "include a.ninja" []) [] = None.
Proof. split; vm_compute; reflexivity. Qed.

Lemma ex_missing :
  load_manifest true 5 [] (bs "build.ninja") (ln "subninja a.ninja" [])
  = Err (bs "read a.ninja: No such file or directory (os error 2)").
Proof. vm_compute. reflexivity. Qed.

(* the manifest is not in its own [reading] list: it is read a second time before the cycle is seen *)
Lemma ex_self :
  load_manifest true 5 [(bs "build.ninja", ln "include build.ninja" [])] (bs "build.ninja")
                (ln "include build.ninja" [])
  = Err (bs "build.ninja: build.ninja includes itself").
Proof. vm_compute. reflexivity. Qed.

(* three files nested need depth 3 *)
Lemma ex_depth :
  load_manifest true 2 ex_fs (bs "build.ninja") ex_main = Panic 60%N /\
  flat_file 2 ex_fs [] (bs "build.ninja") ex_main [] = None /\
  exists l, load_manifest true 3 ex_fs (bs "build.ninja") ex_main = Ok l.
Proof. split; [vm_compute; reflexivity|]. split; [vm_compute; reflexivity|]. eexists. vm_compute. reflexivity. Qed.
