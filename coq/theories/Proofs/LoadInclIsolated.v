(* C11, manifests WITH include/subninja: the child scope is isolated.  Dropping an include/subninja
   line from a statement sequence changes no step declared after the line, except that the
   attributes a step takes from its RULE change when the child file (or a file it includes)
   declared a rule of that name.  Files, lines, inputs and outputs of the later steps never change:
   no variable bound in the child reaches the parent (for `include` this is finding F11). *)
From Coq Require Import String.
From N2 Require Import Model.All Proofs.EvalScope Proofs.GraphDedup Proofs.GraphAddBuild Proofs.GraphLoad.
From N2 Require Import Proofs.LoadGraphSpec Proofs.LoadGraphBuild Proofs.LoadGraphRun Proofs.LoadGraphFile
     Proofs.LoadGraphNames Proofs.LoadGraphView.
From N2 Require Import Proofs.LoadInclSpec Proofs.LoadInclRun Proofs.LoadInclFlat.

(* the part of a step that does not come from its rule *)
Definition paths_of (v : step_view) :=
  (sv_file v, sv_line v, sv_ins v, (sv_explicit_ins v, sv_implicit_ins v, sv_order_only_ins v),
   sv_outs v, sv_explicit_outs v).

Lemma decl_view_paths f pb vs r1 r2 v1 v2 :
  decl_view f pb vs r1 = Some v1 -> decl_view f pb vs r2 = Some v2 -> paths_of v1 = paths_of v2.
Proof.
  unfold decl_view. intros H1 H2.
  destruct (canon_all [pb_vars pb; vars_env vs] (pb_ins pb)) as [ins|]; [|discriminate].
  destruct (canon_all [pb_vars pb; vars_env vs] (pb_outs pb)) as [outs|]; [|discriminate].
  destruct (assoc_b (pb_rule pb) r1) as [rule1|]; [|discriminate].
  destruct (assoc_b (pb_rule pb) r2) as [rule2|]; [|discriminate].
  inversion H1; inversion H2; subst. reflexivity.
Qed.

Lemma decl_view_rule f pb vs r1 r2 :
  assoc_b (pb_rule pb) r1 = assoc_b (pb_rule pb) r2 -> decl_view f pb vs r1 = decl_view f pb vs r2.
Proof. unfold decl_view. intro E. rewrite E. reflexivity. Qed.

Lemma Forall2_nth {A B} (P : A -> B -> Prop) xs ys :
  Forall2 P xs ys -> forall k x y, nth_error xs k = Some x -> nth_error ys k = Some y -> P x y.
Proof.
  induction 1 as [|x0 y0 xs ys H1 H IH]; intros k x y Hx Hy; [destruct k; discriminate|].
  destruct k as [|k]; cbn [nth_error] in Hx, Hy.
  - inversion Hx; inversion Hy; subst. exact H1.
  - eapply IH; eassumption.
Qed.

Lemma Forall2_nth_ex {A B} (P : A -> B -> Prop) xs ys :
  Forall2 P xs ys -> forall k x, nth_error xs k = Some x -> exists y, nth_error ys k = Some y /\ P x y.
Proof.
  induction 1 as [|x0 y0 xs ys H1 H IH]; intros k x Hx; [destruct k; discriminate|].
  destruct k as [|k]; cbn [nth_error] in Hx.
  - inversion Hx; subst. exists y0. split; [reflexivity | exact H1].
  - destruct (IH _ _ Hx) as (y & Hy & Py). exists y. split; assumption.
Qed.

(* the same items under two rule tables: same files, statements and variables; the binding of a
   rule name the tables agree on is the same at every step *)
Lemma fbuild_items_agree n : forall items R1 R2,
  Forall2 (fun a b => fst a = fst b /\ fst (snd a) = fst (snd b) /\
                      (assoc_b n R1 = assoc_b n R2 -> assoc_b n (snd (snd a)) = assoc_b n (snd (snd b))))
          (fbuild_items R1 items) (fbuild_items R2 items).
Proof.
  induction items as [|[file st vs|vs] r IH]; intros R1 R2; [constructor| |].
  - destruct st as [name rv|pb|ds|p|p|name d]; cbn [fbuild_items]; try apply IH.
    + eapply Forall2_impl; [|apply (IH (insert_b name rv R1) (insert_b name rv R2))].
      intros a b (A1 & A2 & A3). split; [exact A1|]. split; [exact A2|]. intro E. apply A3.
      destruct (bytes_eqb n name) eqn:X.
      * apply bytes_eqb_spec in X. subst name. rewrite !assoc_insert_same. reflexivity.
      * apply bytes_eqb_false_neq in X. rewrite !assoc_insert_other by exact X. exact E.
    + constructor; [|apply IH]. cbn [fst snd]. repeat split. intro E. exact E.
  - cbn [fbuild_items]. apply IH.
Qed.

Lemma nth_error_map_some {A B} (f : A -> B) xs k y :
  nth_error (map f xs) k = Some y -> exists x, nth_error xs k = Some x /\ f x = y.
Proof.
  rewrite nth_error_map. destruct (nth_error xs k) as [x|]; [|discriminate].
  intro H. inversion H; subst. exists x. split; reflexivity.
Qed.

(* two loaders whose steps have the views declared by the same items under two rule tables *)
Lemma views_compare (R1 R2 : list (bytes * varlist)) post (vw vw' : lbuild -> step_view) bq bq' :
  map fitem_view (fbuild_items R2 post) = map (fun b => Some (vw b)) bq ->
  map fitem_view (fbuild_items R1 post) = map (fun b => Some (vw' b)) bq' ->
  forall k b b', nth_error bq k = Some b -> nth_error bq' k = Some b' ->
  paths_of (vw b) = paths_of (vw' b') /\
  exists f pb vs0 rules rules',
    nth_error (fbuild_items R2 post) k = Some (f, (pb, vs0, rules)) /\
    nth_error (fbuild_items R1 post) k = Some (f, (pb, vs0, rules')) /\
    (assoc_b (pb_rule pb) R2 = assoc_b (pb_rule pb) R1 -> vw b = vw' b').
Proof.
  intros V2 V1 k b b' Hb Hb'.
  assert (N2 : nth_error (map fitem_view (fbuild_items R2 post)) k = Some (Some (vw b)))
    by (rewrite V2, nth_error_map, Hb; reflexivity).
  assert (N1 : nth_error (map fitem_view (fbuild_items R1 post)) k = Some (Some (vw' b')))
    by (rewrite V1, nth_error_map, Hb'; reflexivity).
  apply nth_error_map_some in N2 as ([f [[pb vs0] rules]] & I2 & D2).
  apply nth_error_map_some in N1 as ([f' [[pb' vs0'] rules']] & I1 & D1).
  pose proof (Forall2_nth _ _ _ (fbuild_items_agree (pb_rule pb) post R2 R1) _ _ _ I2 I1) as (A1 & A2 & A3).
  cbn [fst snd] in A1, A2, A3. inversion A2; subst f' pb' vs0'. clear A2.
  unfold fitem_view in D1, D2. cbn [fst snd] in D1, D2.
  split; [eapply decl_view_paths; eassumption|].
  exists f, pb, vs0, rules, rules'. split; [exact I2|]. split; [exact I1|].
  intro E. specialize (A3 E). rewrite (decl_view_rule f pb vs0 rules rules' A3) in D2.
  rewrite D2 in D1. inversion D1. reflexivity.
Qed.

(* ------------------------------------------------------------------------------------ *)
(* flat sequences: dropping a block of items *)

Lemma FlatSpec_builds_split l0 l ia ib :
  FlatSpec l0 l (ia ++ ib) ->
  exists ba bb, l_builds l = l_builds l0 ++ ba ++ bb /\
    Forall2 (fitem_ok l) (fbuild_items (l_rules l0) ia) ba /\
    Forall2 (fitem_ok l) (fbuild_items (rules_of (l_rules l0) (stmts_of ia)) ib) bb.
Proof.
  intros (_ & _ & (bs0 & B & FB) & _). rewrite fbuild_items_app in FB.
  apply Forall2_app_inv_l in FB as (ba & bb & Fa & Fb & ->).
  exists ba, bb. repeat split; assumption.
Qed.

Lemma flat_isolated l0 pre X post l l' :
  LInv l0 -> NamesUnique l0 -> fitems_wf (pre ++ X ++ post) ->
  run_flat l0 (pre ++ X ++ post) = Ok l -> run_flat l0 (pre ++ post) = Ok l' ->
  exists bp bx bq bp' bq',
    l_builds l = l_builds l0 ++ bp ++ bx ++ bq /\
    l_builds l' = l_builds l0 ++ bp' ++ bq' /\
    map (view l) bp = map (view l') bp' /\
    length bx = count_builds (stmts_of X) /\
    map fitem_view (fbuild_items (rules_of (rules_of (l_rules l0) (stmts_of pre)) (stmts_of X)) post)
      = map (fun b => Some (view l b)) bq /\
    map fitem_view (fbuild_items (rules_of (l_rules l0) (stmts_of pre)) post)
      = map (fun b => Some (view l' b)) bq' /\
    l_rules l = rules_of (rules_of (rules_of (l_rules l0) (stmts_of pre)) (stmts_of X)) (stmts_of post) /\
    l_rules l' = rules_of (rules_of (l_rules l0) (stmts_of pre)) (stmts_of post) /\
    l_pools l = pools_of (pools_of (pools_of (l_pools l0) (stmts_of pre)) (stmts_of X)) (stmts_of post) /\
    l_pools l' = pools_of (pools_of (l_pools l0) (stmts_of pre)) (stmts_of post) /\
    exists dp dx dq dp' dq',
      l_defaults l = l_defaults l0 ++ dp ++ dx ++ dq /\
      l_defaults l' = l_defaults l0 ++ dp' ++ dq' /\
      map (file_nm l) dp = map (file_nm l') dp' /\
      map (file_nm l) dq = map (file_nm l') dq' /\
      Forall2 default_name (default_items (stmts_of X)) (map (file_nm l) dx).
Proof.
  intros I U W H H'.
  assert (W' : fitems_wf (pre ++ post)).
  { apply Forall_app in W as [Wa Wb]. apply Forall_app in Wb as [_ Wc]. apply Forall_app. split; assumption. }
  pose proof (run_flat_unique _ _ _ I W U H) as Ul.
  pose proof (run_flat_unique _ _ _ I W' U H') as Ul'.
  pose proof (run_flat_spec _ _ _ I W H) as S.
  pose proof (run_flat_spec _ _ _ I W' H') as S'.
  destruct (FlatSpec_builds_split _ _ _ _ S) as (bp & bxq & B & Fp & Fxq).
  rewrite fbuild_items_app in Fxq. apply Forall2_app_inv_l in Fxq as (bx & bq & Fx & Fq & ->).
  destruct (FlatSpec_builds_split _ _ _ _ S') as (bp' & bq' & B' & Fp' & Fq').
  destruct S as (_ & _ & _ & RL & PL & (ids & D & FD & _)).
  destruct S' as (_ & _ & _ & RL' & PL' & (ids' & D' & FD' & _)).
  rewrite !stmts_of_app, !rules_of_app in RL. rewrite !stmts_of_app, !pools_of_app in PL.
  rewrite !stmts_of_app, !rules_of_app in RL'. rewrite !stmts_of_app, !pools_of_app in PL'.
  rewrite !stmts_of_app, !default_items_app in FD. rewrite !stmts_of_app, !default_items_app in FD'.
  apply Forall2_app_inv_l in FD as (dp & dxq & FDp & FDxq & ->).
  apply Forall2_app_inv_l in FDxq as (dx & dq & FDx & FDq & ->).
  apply Forall2_app_inv_l in FD' as (dp' & dq' & FDp' & FDq' & ->).
  exists bp, bx, bq, bp', bq'.
  split; [exact B|]. split; [exact B'|].
  split.
  { apply map_Some_inj. rewrite <- (fitems_view _ _ _ Ul Fp), <- (fitems_view _ _ _ Ul' Fp'). reflexivity. }
  split; [rewrite <- (Forall2_length_eq _ _ _ Fx); apply fbuild_items_length|].
  split; [apply fitems_view; assumption|].
  split; [apply fitems_view; assumption|].
  split; [exact RL|]. split; [exact RL'|]. split; [exact PL|]. split; [exact PL'|].
  exists dp, dx, dq, dp', dq'. split; [exact D|]. split; [exact D'|].
  split; [exact (default_name_fun _ _ _ (default_ok_names _ _ _ FDp) (default_ok_names _ _ _ FDp'))|].
  split; [exact (default_name_fun _ _ _ (default_ok_names _ _ _ FDq) (default_ok_names _ _ _ FDq'))|].
  exact (default_ok_names _ _ _ FDx).
Qed.

(* ------------------------------------------------------------------------------------ *)
(* statement sequences: dropping an include/subninja line *)

Lemma child_line_include st p : is_child_line st p -> is_include st = true.
Proof. intros [->| ->]; reflexivity. Qed.

Lemma stmts_of_child_line file st p vs child :
  is_child_line st p ->
  forall rules pools,
    rules_of rules (stmts_of (FStmt file st vs :: child)) = rules_of rules (stmts_of child) /\
    pools_of pools (stmts_of (FStmt file st vs :: child)) = pools_of pools (stmts_of child) /\
    count_builds (stmts_of (FStmt file st vs :: child)) = count_builds (stmts_of child) /\
    default_items (stmts_of (FStmt file st vs :: child)) = default_items (stmts_of child).
Proof. intros [->| ->] rules pools; repeat split. Qed.

Theorem child_scope_isolated depth fs reading l0 file pre st p vs post l l' :
  is_child_line st p -> LInv l0 -> NamesUnique l0 -> builds_wf (pre ++ post) ->
  run_stmts_files depth fs reading l0 file (pre ++ (st, vs) :: post) = Ok l ->
  run_stmts_files depth fs reading l0 file (pre ++ post) = Ok l' ->
  exists path content child fpre fpost bs_pre bs_child bs_post bs_pre' bs_post',
    include_path p vs = Ok path /\ assoc_b path fs = Some content /\
    flat_file depth fs (reading ++ [path]) path content vs = Some child /\
    flat_stmts depth fs reading file pre = Some fpre /\
    flat_stmts depth fs reading file post = Some fpost /\
    l_builds l = l_builds l0 ++ bs_pre ++ bs_child ++ bs_post /\
    l_builds l' = l_builds l0 ++ bs_pre' ++ bs_post' /\
    map (view l) bs_pre = map (view l') bs_pre' /\
    length bs_child = count_builds (stmts_of child) /\
    length bs_post = count_builds (stmts_of fpost) /\
    length bs_post' = count_builds (stmts_of fpost) /\
    (forall k b b', nth_error bs_post k = Some b -> nth_error bs_post' k = Some b' ->
       paths_of (view l b) = paths_of (view l' b') /\
       exists f pb vs0 rules rules',
         nth_error (fbuild_items (rules_of (rules_of (l_rules l0) (stmts_of fpre)) (stmts_of child)) fpost) k
           = Some (f, (pb, vs0, rules)) /\
         nth_error (fbuild_items (rules_of (l_rules l0) (stmts_of fpre)) fpost) k
           = Some (f, (pb, vs0, rules')) /\
         (last_rule (pb_rule pb) (stmts_of child) = None -> view l b = view l' b')) /\
    l_rules l = rules_of (rules_of (rules_of (l_rules l0) (stmts_of fpre)) (stmts_of child)) (stmts_of fpost) /\
    l_rules l' = rules_of (rules_of (l_rules l0) (stmts_of fpre)) (stmts_of fpost) /\
    l_pools l = pools_of (pools_of (pools_of (l_pools l0) (stmts_of fpre)) (stmts_of child)) (stmts_of fpost) /\
    l_pools l' = pools_of (pools_of (l_pools l0) (stmts_of fpre)) (stmts_of fpost) /\
    exists dp dx dq dp' dq',
      l_defaults l = l_defaults l0 ++ dp ++ dx ++ dq /\
      l_defaults l' = l_defaults l0 ++ dp' ++ dq' /\
      map (file_nm l) dp = map (file_nm l') dp' /\
      map (file_nm l) dq = map (file_nm l') dq' /\
      Forall2 default_name (default_items (stmts_of child)) (map (file_nm l) dx).
Proof.
  intros IC I U BW H H'.
  apply run_stmts_files_ok_iff in H as (items & F & H).
  apply run_stmts_files_ok_iff in H' as (items' & F' & H').
  unfold flat_stmts in F, F'. rewrite flat_stmts_rec_app in F, F'.
  destruct (flat_stmts_rec (flat_file depth fs) fs reading file pre) as [fpre|] eqn:Fpre; [|discriminate].
  destruct (flat_stmts_rec (flat_file depth fs) fs reading file ((st, vs) :: post)) as [fx|] eqn:Fx; [|discriminate].
  inversion F; subst items; clear F.
  apply (flat_stmts_rec_child _ fs reading file st p vs post fx IC) in Fx.
  destruct Fx as (path & content & child & fpost & P & X & A & C & Fpost & ->).
  rewrite Fpost in F'. inversion F'; subst items'; clear F'.
  change (FStmt file st vs :: child ++ fpost) with ((FStmt file st vs :: child) ++ fpost) in H.
  assert (W : fitems_wf (fpre ++ (FStmt file st vs :: child) ++ fpost)).
  { apply Forall_app in BW as [Wa Wb].
    apply Forall_app. split; [eapply flat_stmts_wf; [exact Wa | exact Fpre]|].
    apply Forall_app. split; [|eapply flat_stmts_wf; [exact Wb | exact Fpost]].
    constructor; [destruct IC as [->| ->]; exact Logic.I|]. eapply flat_file_wf. exact C. }
  destruct (flat_isolated _ _ _ _ _ _ I U W H H')
    as (bp & bx & bq & bp' & bq' & B & B' & VP & LX & VQ & VQ' & RL & RL' & PL & PL' & DD).
  destruct (stmts_of_child_line file st p vs child IC (rules_of (l_rules l0) (stmts_of fpre))
              (pools_of (l_pools l0) (stmts_of fpre))) as (E1 & E2 & E3 & E4).
  rewrite E1 in VQ, RL. rewrite E2 in PL. rewrite E3 in LX. rewrite E4 in DD.
  exists path, content, child, fpre, fpost, bp, bx, bq, bp', bq'.
  split; [exact P|]. split; [exact A|]. split; [exact C|]. split; [exact Fpre|]. split; [exact Fpost|].
  split; [exact B|]. split; [exact B'|]. split; [exact VP|]. split; [exact LX|].
  split.
  { rewrite <- (map_length (fun b => Some (view l b))), <- VQ, map_length. apply fbuild_items_length. }
  split.
  { rewrite <- (map_length (fun b => Some (view l' b))), <- VQ', map_length. apply fbuild_items_length. }
  split; [|repeat (split; [assumption|]); exact DD].
  intros k b b' Hb Hb'.
  destruct (views_compare _ _ _ _ _ _ _ VQ VQ' k b b' Hb Hb')
    as (PP & f & pb & vs0 & rules & rules' & N2 & N1 & EQ).
  split; [exact PP|]. exists f, pb, vs0, rules, rules'. split; [exact N2|]. split; [exact N1|].
  intro LR. apply EQ. rewrite assoc_rules_of, LR. reflexivity.
Qed.

(* ------------------------------------------------------------------------------------ *)
(* whole manifests: two texts whose reads differ by one include/subninja line *)

Lemma view_with_builddir l x b : view (with_builddir l x) b = view l b.
Proof. reflexivity. Qed.

Lemma load_ok_run_stmts_files depth fs name text sts r l :
  reads_to (text ++ [0%N]) (mkScanner (text ++ [0%N]) 0 1) [] sts r ->
  load_manifest true (S depth) fs name text = Ok l ->
  exists c l1 vs' s', canon name = Ok c /\ r = SOk (None, vs') s' /\
    run_stmts_files depth fs [] (loader_start c) name sts = Ok l1 /\
    l = with_builddir l1 (assoc_b (bs "builddir") vs').
Proof.
  intros R H. rewrite (load_is_run_stmts_files _ _ _ _ _ _ R) in H.
  apply bind_ok in H as [c [C H]]. apply bind_ok in H as [l1 [E H]].
  destruct r as [[[st|] vs'] s'|m o|x|x|]; cbn [finish] in H; try discriminate.
  2:{ apply bind_ok in H as [txt [_ H]]. discriminate. }
  inversion H; subst l. exists c, l1, vs', s'. repeat split; assumption.
Qed.

Theorem manifest_child_scope_isolated depth fs name text text' pre st p vs post r r' l l' :
  is_child_line st p ->
  reads_to (text ++ [0%N]) (mkScanner (text ++ [0%N]) 0 1) [] (pre ++ (st, vs) :: post) r ->
  reads_to (text' ++ [0%N]) (mkScanner (text' ++ [0%N]) 0 1) [] (pre ++ post) r' ->
  load_manifest true (S depth) fs name text = Ok l ->
  load_manifest true (S depth) fs name text' = Ok l' ->
  exists path content child fpre fpost bs_pre bs_child bs_post bs_pre' bs_post',
    include_path p vs = Ok path /\ assoc_b path fs = Some content /\
    flat_file depth fs [path] path content vs = Some child /\
    flat_stmts depth fs [] name pre = Some fpre /\
    flat_stmts depth fs [] name post = Some fpost /\
    l_builds l = bs_pre ++ bs_child ++ bs_post /\
    l_builds l' = bs_pre' ++ bs_post' /\
    map (view l) bs_pre = map (view l') bs_pre' /\
    length bs_child = count_builds (stmts_of child) /\
    length bs_post = count_builds (stmts_of fpost) /\
    length bs_post' = count_builds (stmts_of fpost) /\
    (forall k b b', nth_error bs_post k = Some b -> nth_error bs_post' k = Some b' ->
       paths_of (view l b) = paths_of (view l' b') /\
       exists f pb vs0 rules rules',
         nth_error (fbuild_items (rules_of (rules_of [(bs "phony", [])] (stmts_of fpre)) (stmts_of child)) fpost) k
           = Some (f, (pb, vs0, rules)) /\
         nth_error (fbuild_items (rules_of [(bs "phony", [])] (stmts_of fpre)) fpost) k
           = Some (f, (pb, vs0, rules')) /\
         (last_rule (pb_rule pb) (stmts_of child) = None -> view l b = view l' b')) /\
    l_rules l = rules_of (rules_of (rules_of [(bs "phony", [])] (stmts_of fpre)) (stmts_of child)) (stmts_of fpost) /\
    l_rules l' = rules_of (rules_of [(bs "phony", [])] (stmts_of fpre)) (stmts_of fpost) /\
    l_pools l = pools_of (pools_of (pools_of [] (stmts_of fpre)) (stmts_of child)) (stmts_of fpost) /\
    l_pools l' = pools_of (pools_of [] (stmts_of fpre)) (stmts_of fpost) /\
    exists dp dx dq dp' dq',
      l_defaults l = dp ++ dx ++ dq /\
      l_defaults l' = dp' ++ dq' /\
      map (file_nm l) dp = map (file_nm l') dp' /\
      map (file_nm l) dq = map (file_nm l') dq' /\
      Forall2 default_name (default_items (stmts_of child)) (map (file_nm l) dx).
Proof.
  intros IC R R' H H'.
  destruct (load_ok_run_stmts_files _ _ _ _ _ _ _ R H) as (c & l1 & v1 & s1 & C & _ & E & ->).
  destruct (load_ok_run_stmts_files _ _ _ _ _ _ _ R' H') as (c' & l1' & v1' & s1' & C' & _ & E' & ->).
  rewrite C in C'. inversion C'; subst c'.
  pose proof (reads_to_builds_wf _ _ _ _ _ R') as BW.
  destruct (child_scope_isolated _ _ _ _ _ _ _ _ _ _ _ _ IC (LInv_start c) (NamesUnique_start c) BW E E')
    as (path & content & child & fpre & fpost & bp & bx & bq & bp' & bq' & K).
  exists path, content, child, fpre, fpost, bp, bx, bq, bp', bq'.
  cbn [loader_start l_builds l_rules l_pools l_defaults app] in K.
  cbn [with_builddir l_builds l_rules l_pools l_defaults]. exact K.
Qed.
