(* C15: facts about the independent specification of Proofs/DepfileIndep.v.  Nothing here
   mentions the parser model: these lemmas say what [grouped]/[all_deps]/[regroup] mean. *)
From Coq Require Import List NArith Permutation Lia.
From N2 Require Import Base.Base Proofs.DepfileIndep.
Import ListNotations.

(* ------------------------------------------------------------------------------------ *)
(* small list facts *)

Lemma is_for_true {V} t (e : bytes * V) : is_for t e = true <-> fst e = t.
Proof. unfold is_for. destruct (bytes_dec (fst e) t); split; congruence. Qed.

Lemma is_for_false {V} t (e : bytes * V) : is_for t e = false <-> fst e <> t.
Proof. unfold is_for. destruct (bytes_dec (fst e) t); split; congruence. Qed.

Lemma remove_notin (t : bytes) l : ~ In t l -> remove bytes_dec t l = l.
Proof. apply notin_remove. Qed.

Lemma in_remove_iff (t x : bytes) l : In x (remove bytes_dec t l) <-> In x l /\ x <> t.
Proof.
  split.
  - apply in_remove.
  - intros [H1 H2]. now apply in_in_remove.
Qed.

Lemma NoDup_remove_keep (t : bytes) l : NoDup l -> NoDup (remove bytes_dec t l).
Proof.
  induction 1 as [|x l Hx Hnd IH]; cbn [remove]; [constructor|].
  destruct (bytes_dec t x); [exact IH|]. constructor; [|exact IH].
  intro Hin. apply in_remove_iff in Hin. tauto.
Qed.

Lemma concat_flat_map {A B} (f : A -> list (list B)) l :
  concat (flat_map f l) = flat_map (fun x => concat (f x)) l.
Proof.
  induction l as [|x l IH]; cbn [flat_map concat]; [reflexivity|].
  now rewrite concat_app, IH.
Qed.

Lemma map_flat_map {A B C} (g : B -> C) (f : A -> list B) l :
  map g (flat_map f l) = flat_map (fun x => map g (f x)) l.
Proof.
  induction l as [|x l IH]; cbn [flat_map map]; [reflexivity|].
  now rewrite map_app, IH.
Qed.

Lemma filter_flat_map {A B} (p : B -> bool) (f : A -> list B) l :
  filter p (flat_map f l) = flat_map (fun x => filter p (f x)) l.
Proof.
  induction l as [|x l IH]; cbn [flat_map filter]; [reflexivity|].
  now rewrite filter_app, IH.
Qed.

Lemma flat_map_map_concat {A B} (f : A -> list B) l : flat_map f l = concat (map f l).
Proof. apply flat_map_concat_map. Qed.

Lemma flat_map_nil {A B} (f : A -> list B) l : (forall x, In x l -> f x = []) -> flat_map f l = [].
Proof.
  induction l as [|x l IH]; intro H; cbn [flat_map]; [reflexivity|].
  rewrite (H x (or_introl eq_refl)), IH; [reflexivity|]. intros y Hy. apply H. now right.
Qed.

Lemma flat_map_ext_in' {A B} (f g : A -> list B) l :
  (forall x, In x l -> f x = g x) -> flat_map f l = flat_map g l.
Proof.
  induction l as [|x l IH]; intro H; cbn [flat_map]; [reflexivity|].
  rewrite (H x (or_introl eq_refl)), IH; [reflexivity|]. intros y Hy. apply H. now right.
Qed.

Lemma filter_nil {A} (p : A -> bool) l : (forall x, In x l -> p x = false) -> filter p l = [].
Proof.
  induction l as [|x l IH]; intro H; cbn [filter]; [reflexivity|].
  rewrite (H x (or_introl eq_refl)). apply IH. intros y Hy. apply H. now right.
Qed.

Lemma filter_all {A} (p : A -> bool) l : (forall x, In x l -> p x = true) -> filter p l = l.
Proof.
  induction l as [|x l IH]; intro H; cbn [filter]; [reflexivity|].
  rewrite (H x (or_introl eq_refl)). f_equal. apply IH. intros y Hy. apply H. now right.
Qed.

Lemma filter_filter_comm {A} (p q : A -> bool) l : filter p (filter q l) = filter q (filter p l).
Proof.
  induction l as [|x l IH]; cbn [filter]; [reflexivity|].
  destruct (p x) eqn:Ep, (q x) eqn:Eq; cbn [filter]; rewrite ?Ep, ?Eq, IH; reflexivity.
Qed.

Lemma filter_split_perm {A} (p : A -> bool) l :
  Permutation l (filter p l ++ filter (fun x => negb (p x)) l).
Proof.
  induction l as [|x l IH]; cbn [filter]; [constructor|].
  destruct (p x); cbn [negb app].
  - now constructor.
  - apply Permutation_cons_app. exact IH.
Qed.

(* ------------------------------------------------------------------------------------ *)
(* the distinct targets *)

Lemma targets_in es t : In t (targets es) <-> In t (map fst es).
Proof.
  induction es as [|e r IH]; cbn [targets map In]; [tauto|].
  rewrite in_remove_iff, IH. destruct (bytes_dec t (fst e)) as [->|Hne]; [tauto|].
  split; [tauto|]. intros [H|H]; [congruence|]. right. split; [exact H | exact Hne].
Qed.

Lemma targets_nodup es : NoDup (targets es).
Proof.
  induction es as [|e r IH]; cbn [targets]; constructor.
  - intro H. apply in_remove_iff in H. tauto.
  - now apply NoDup_remove_keep.
Qed.

(* when no target repeats, the distinct targets are the targets *)
Lemma targets_distinct es : NoDup (map fst es) -> targets es = map fst es.
Proof.
  induction es as [|e r IH]; cbn [targets map]; intro H; [reflexivity|].
  inversion H as [|x l Hx Hnd]; subst. rewrite IH by exact Hnd.
  now rewrite remove_notin.
Qed.

Lemma entries_of_notin t es : ~ In t (map fst es) -> entries_of t es = [].
Proof.
  intro H. apply filter_nil. intros e He. apply is_for_false. intros <-.
  apply H. now apply in_map.
Qed.

Lemma entries_of_in t e es : In e (entries_of t es) <-> In e es /\ fst e = t.
Proof. unfold entries_of. rewrite filter_In, is_for_true. tauto. Qed.

Lemma prereqs_of_notin t es : ~ In t (map fst es) -> prereqs_of t es = [].
Proof. intro H. unfold prereqs_of. now rewrite entries_of_notin. Qed.

(* ------------------------------------------------------------------------------------ *)
(* [all_deps] is the textual reading of the regrouped entries; [regroup] permutes whole entries *)

Lemma all_deps_regroup es : all_deps es = textual (regroup es).
Proof.
  unfold all_deps, textual, grouped, regroup, prereqs_of.
  rewrite map_map. cbn [snd]. rewrite map_flat_map, concat_flat_map.
  now rewrite flat_map_map_concat.
Qed.

Lemma regroup_perm_gen : forall (l : list bytes) (es : dep_entries),
  NoDup l -> (forall e, In e es -> In (fst e) l) ->
  Permutation (flat_map (fun t => entries_of t es) l) es.
Proof.
  induction l as [|t l IH]; intros es Hnd Hall.
  - destruct es as [|e es]; [constructor|]. destruct (Hall e (or_introl eq_refl)).
  - inversion Hnd as [|x y Hx Hnd']; subst. cbn [flat_map].
    eapply Permutation_trans; [|apply Permutation_sym, (filter_split_perm (is_for t))].
    apply Permutation_app_head.
    set (es' := filter (fun e => negb (is_for t e)) es).
    assert (E : flat_map (fun t0 => entries_of t0 es) l = flat_map (fun t0 => entries_of t0 es') l).
    { apply flat_map_ext_in'. intros t0 Ht0. unfold entries_of, es'.
      rewrite filter_filter_comm. symmetry. apply filter_all.
      intros e He. apply filter_In in He. destruct He as [_ He]. apply is_for_true in He.
      apply Bool.negb_true_iff. apply is_for_false. intros Heq. apply Hx. congruence. }
    rewrite E. apply IH; [exact Hnd'|].
    intros e He. unfold es' in He. apply filter_In in He. destruct He as [He Hne].
    apply Bool.negb_true_iff, is_for_false in Hne.
    destruct (Hall e He) as [Heq|Hin]; [congruence | exact Hin].
Qed.

Lemma regroup_perm es : Permutation (regroup es) es.
Proof.
  apply regroup_perm_gen; [apply targets_nodup|].
  intros e He. apply targets_in. now apply in_map.
Qed.

Lemma textual_perm es es' : Permutation es es' -> Permutation (textual es) (textual es').
Proof.
  unfold textual. induction 1 as [|x l l' H IH|x y l|l l' l'' H1 IH1 H2 IH2]; cbn [map concat].
  - constructor.
  - now apply Permutation_app_head.
  - rewrite !app_assoc. apply Permutation_app_tail, Permutation_app_comm.
  - eapply Permutation_trans; eassumption.
Qed.

Lemma all_deps_perm es : Permutation (all_deps es) (textual es).
Proof. rewrite all_deps_regroup. apply textual_perm, regroup_perm. Qed.

(* ---- item 1: the direct characterisation ---- *)

Lemma textual_in es d : In d (textual es) <-> exists t ps, In (t, ps) es /\ In d ps.
Proof.
  unfold textual. rewrite in_concat. split.
  - intros (ps & Hps & Hd). apply in_map_iff in Hps. destruct Hps as ([t ps'] & <- & He).
    now exists t, ps'.
  - intros (t & ps & He & Hd). exists ps. split; [|exact Hd].
    apply in_map_iff. now exists (t, ps).
Qed.

Lemma all_deps_in es d : In d (all_deps es) <-> exists t ps, In (t, ps) es /\ In d ps.
Proof.
  rewrite <- textual_in. split; apply Permutation_in; [|apply Permutation_sym]; apply all_deps_perm.
Qed.

Lemma all_deps_count es d :
  count_occ bytes_dec (all_deps es) d = count_occ bytes_dec (textual es) d.
Proof. apply Permutation_count_occ, all_deps_perm. Qed.

(* each target of [grouped] carries exactly the prerequisites written under it *)
Lemma grouped_in es t ps : In (t, ps) (grouped es) <-> In t (map fst es) /\ ps = prereqs_of t es.
Proof.
  unfold grouped. rewrite in_map_iff. split.
  - intros (t' & E & Hin). inversion E; subst. split; [now apply targets_in | reflexivity].
  - intros [Hin ->]. exists t. split; [reflexivity | now apply targets_in].
Qed.

Lemma grouped_targets es : map fst (grouped es) = targets es.
Proof. unfold grouped. rewrite map_map. cbn [fst]. apply map_id. Qed.

Lemma grouped_nodup es : NoDup (map fst (grouped es)).
Proof. rewrite grouped_targets. apply targets_nodup. Qed.

(* item 1, last part: with pairwise distinct targets the meaning is the entries as written *)
Lemma entries_of_distinct_hd e r :
  ~ In (fst e) (map fst r) -> entries_of (fst e) (e :: r) = [e].
Proof.
  intro H. unfold entries_of. cbn [filter].
  replace (is_for (fst e) e) with true by (symmetry; now apply is_for_true).
  f_equal. now apply entries_of_notin.
Qed.

(* ------------------------------------------------------------------------------------ *)
(* [before] *)

Lemma before_nil {A} (x y : A) : ~ before [] x y.
Proof.
  intros (l1 & l2 & E & H1 & H2). symmetry in E. apply app_eq_nil in E. destruct E; subst.
  destruct H1.
Qed.

Lemma before_in {A} (l : list A) x y : before l x y -> In x l /\ In y l.
Proof.
  intros (l1 & l2 & -> & H1 & H2). split; apply in_or_app; [now left | now right].
Qed.

Lemma before_app {A} (a b : list A) x y :
  before (a ++ b) x y <-> before a x y \/ before b x y \/ (In x a /\ In y b).
Proof.
  split.
  - intros (l1 & l2 & E & H1 & H2). apply app_eq_app in E.
    destruct E as (l & [[-> ->]|[-> ->]]).
    + apply in_app_or in H2. destruct H2 as [H2|H2].
      * left. now exists l1, l.
      * right. right. split; [apply in_or_app; now left | exact H2].
    + apply in_app_or in H1. destruct H1 as [H1|H1].
      * right. right. split; [exact H1 | apply in_or_app; now right].
      * right. left. now exists l, l2.
  - intros [(l1 & l2 & -> & H1 & H2)|[(l1 & l2 & -> & H1 & H2)|[H1 H2]]].
    + exists l1, (l2 ++ b). rewrite app_assoc. split; [reflexivity|]. split; [exact H1|].
      apply in_or_app. now left.
    + exists (a ++ l1), l2. rewrite app_assoc. split; [reflexivity|]. split; [|exact H2].
      apply in_or_app. now right.
    + now exists a, b.
Qed.

Lemma before_cons {A} (z : A) l x y : before (z :: l) x y <-> (x = z /\ In y l) \/ before l x y.
Proof.
  change (z :: l) with ([z] ++ l). rewrite before_app. split.
  - intros [H|[H|[H1 H2]]].
    + exfalso. destruct H as (l1 & l2 & E & H1 & H2).
      destruct l1 as [|u l1]; [destruct H1|]. cbn [app] in E. inversion E as [[E1 E2]].
      symmetry in E2. apply app_eq_nil in E2. destruct E2; subst. destruct H2.
    + now right.
    + left. destruct H1 as [<-|[]]. now split.
  - intros [[-> H]|H].
    + right. right. split; [now left | exact H].
    + right. now left.
Qed.

Lemma before_nodup {A} (l : list A) x : NoDup l -> ~ before l x x.
Proof.
  intros Hnd (l1 & l2 & -> & H1 & H2). revert Hnd H1.
  induction l1 as [|u l1 IH]; intros Hnd H1; [destruct H1|].
  cbn [app] in Hnd. inversion Hnd as [|u' l' Hu Hnd']; subst.
  destruct H1 as [->|H1]; [|now apply IH].
  apply Hu. apply in_or_app. now right.
Qed.

Lemma before_filter_sub {A} (p : A -> bool) l x y : before (filter p l) x y -> before l x y.
Proof.
  induction l as [|z l IH]; cbn [filter]; [intro H; exact H|].
  destruct (p z).
  - rewrite !before_cons. intros [[-> H]|H].
    + left. split; [reflexivity|]. apply filter_In in H. tauto.
    + right. now apply IH.
  - intro H. apply before_cons. right. now apply IH.
Qed.

Lemma before_filter {A} (p : A -> bool) l x y :
  p x = true -> p y = true -> (before (filter p l) x y <-> before l x y).
Proof.
  intros Hx Hy. split; [apply before_filter_sub|].
  induction l as [|z l IH]; cbn [filter]; [intro H; exact H|].
  rewrite before_cons. destruct (p z) eqn:Ez.
  - rewrite before_cons. intros [[-> H]|H].
    + left. split; [reflexivity|]. apply filter_In. now split.
    + right. now apply IH.
  - intros [[-> H]|H]; [congruence | now apply IH].
Qed.

Lemma before_remove (t : bytes) l x y : before (remove bytes_dec t l) x y -> before l x y.
Proof.
  induction l as [|z l IH]; cbn [remove]; [intro H; exact H|].
  destruct (bytes_dec t z).
  - intro H. apply before_cons. right. now apply IH.
  - rewrite !before_cons. intros [[-> H]|H].
    + left. split; [reflexivity|]. apply in_remove_iff in H. tauto.
    + right. now apply IH.
Qed.

Lemma before_remove_keep (t : bytes) l x y :
  before l x y -> x <> t -> y <> t -> before (remove bytes_dec t l) x y.
Proof.
  intros (l1 & l2 & -> & H1 & H2) Hx Hy. exists (remove bytes_dec t l1), (remove bytes_dec t l2).
  split; [apply remove_app|]. split; apply in_remove_iff; tauto.
Qed.

Lemma before_flat_map {A B} (f : A -> list B) l x y :
  before (flat_map f l) x y <->
  (exists t, In t l /\ before (f t) x y) \/
  (exists t1 t2, before l t1 t2 /\ In x (f t1) /\ In y (f t2)).
Proof.
  split.
  - induction l as [|t l IH]; cbn [flat_map]; [intro H; now apply before_nil in H|].
    rewrite before_app. intros [H|[H|[H1 H2]]].
    + left. exists t. split; [now left | exact H].
    + destruct (IH H) as [(t' & Hin & Hb)|(t1 & t2 & Hb & H1 & H2)].
      * left. exists t'. split; [now right | exact Hb].
      * right. exists t1, t2. split; [|now split]. apply before_cons. now right.
    + apply in_flat_map in H2. destruct H2 as (t2 & Hin & H2).
      right. exists t, t2. split; [|now split]. apply before_cons. left. now split.
  - intros [(t & Hin & Hb)|(t1 & t2 & (l1 & l2 & -> & Hl1 & Hl2) & H1 & H2)].
    + apply in_split in Hin. destruct Hin as (l1 & l2 & ->).
      rewrite flat_map_app. cbn [flat_map]. apply before_app. right. left.
      apply before_app. now left.
    + rewrite flat_map_app. apply before_app. right. right.
      split; apply in_flat_map; eauto.
Qed.

(* ------------------------------------------------------------------------------------ *)
(* first-appearance order of the distinct targets *)

Lemma targets_before es t1 t2 : before (targets es) t1 t2 -> first_before (map fst es) t1 t2.
Proof.
  induction es as [|e r IH]; cbn [targets map]; [intro H; now apply before_nil in H|].
  rewrite before_cons. intros [[-> H]|H].
  - exists [], (map fst r). split; [reflexivity | intros []].
  - pose proof (before_in _ _ _ H) as [_ H2]. apply in_remove_iff in H2.
    apply before_remove in H. destruct (IH H) as (a & b & E & Hn).
    exists (fst e :: a), b. rewrite E. split; [reflexivity|].
    intros [Heq|Hin]; [now apply (proj2 H2) | now apply Hn].
Qed.

Lemma targets_before_conv es t1 t2 :
  first_before (map fst es) t1 t2 -> t1 <> t2 -> In t2 (map fst es) -> before (targets es) t1 t2.
Proof.
  intros (a & b & E & Hn) Hne. revert a E Hn.
  induction es as [|e r IH]; intros a E Hn Hin; [destruct Hin|].
  cbn [targets map] in *. apply before_cons.
  destruct (bytes_dec t1 (fst e)) as [Heq|Hne1].
  - left. split; [exact Heq|]. apply in_remove_iff. split; [|congruence].
    apply targets_in. destruct Hin as [Hin|Hin]; [congruence | exact Hin].
  - right. destruct a as [|x a]; cbn [app] in E; inversion E as [[E1 E2]]; [congruence|].
    assert (Hne2 : t2 <> fst e). { intro Heq. apply Hn. left. congruence. }
    apply before_remove_keep; [|exact Hne1 | exact Hne2].
    apply (IH a); [exact E2 | intro Hin'; apply Hn; now right |].
    destruct Hin as [Hin|Hin]; [congruence | exact Hin].
Qed.

(* ------------------------------------------------------------------------------------ *)
(* [regroup]: what it keeps and what it changes *)

Lemma entries_of_entries_of t t' es :
  entries_of t (entries_of t' es) = if bytes_dec t' t then entries_of t es else [].
Proof.
  unfold entries_of. destruct (bytes_dec t' t) as [->|Hne].
  - apply filter_all. intros e He. apply filter_In in He. tauto.
  - apply filter_nil. intros e He. apply filter_In in He. destruct He as [_ He].
    apply is_for_true in He. apply is_for_false. congruence.
Qed.

Lemma flat_map_select {B} (t : bytes) (X : list B) l :
  NoDup l ->
  flat_map (fun t' => if bytes_dec t' t then X else []) l = if in_dec bytes_dec t l then X else [].
Proof.
  induction 1 as [|u l Hu Hnd IH]; cbn [flat_map]; [reflexivity|].
  rewrite IH. destruct (bytes_dec u t) as [->|Hne].
  - destruct (in_dec bytes_dec t l) as [Hin|_]; [contradiction|]. rewrite app_nil_r.
    destruct (in_dec bytes_dec t (t :: l)) as [_|Hn]; [reflexivity|]. exfalso. apply Hn. now left.
  - cbn [app]. destruct (in_dec bytes_dec t l) as [Hin|Hn], (in_dec bytes_dec t (u :: l)) as [Hin'|Hn'];
      try reflexivity.
    + exfalso. apply Hn'. now right.
    + exfalso. destruct Hin' as [Heq|Hin']; [congruence | contradiction].
Qed.

(* (i) the entries of any one target keep their relative order (and nothing is lost or added) *)
Lemma regroup_same_target es t : entries_of t (regroup es) = entries_of t es.
Proof.
  unfold regroup. unfold entries_of at 1. rewrite filter_flat_map.
  rewrite (flat_map_ext_in' _ (fun t' => if bytes_dec t' t then entries_of t es else [])).
  2:{ intros t' _. apply entries_of_entries_of. }
  rewrite flat_map_select by apply targets_nodup.
  destruct (in_dec bytes_dec t (targets es)) as [_|Hn]; [reflexivity|].
  symmetry. apply entries_of_notin. now rewrite <- targets_in.
Qed.

(* (ii) entries of different targets stand in the order of the targets' first appearances *)
Lemma regroup_order es e1 e2 :
  before (regroup es) e1 e2 <->
  (fst e1 = fst e2 /\ before es e1 e2) \/
  (fst e1 <> fst e2 /\ first_before (map fst es) (fst e1) (fst e2) /\ In e1 es /\ In e2 es).
Proof.
  split.
  - intro H. unfold regroup in H. apply before_flat_map in H.
    destruct H as [(t & _ & Hb)|(t1 & t2 & Hb & H1 & H2)].
    + left. pose proof (before_in _ _ _ Hb) as [H1 H2].
      apply entries_of_in in H1, H2. split; [now rewrite (proj2 H1), (proj2 H2)|].
      now apply before_filter_sub in Hb.
    + apply entries_of_in in H1, H2. destruct H1 as [H1 <-], H2 as [H2 <-].
      right. split.
      * intro Heq. rewrite Heq in Hb. now apply (before_nodup _ _ (targets_nodup es)) in Hb.
      * split; [now apply targets_before | now split].
  - intros [[Heq Hb]|(Hne & Hf & H1 & H2)].
    + apply (before_filter (is_for (fst e1))); [now apply is_for_true | now apply is_for_true|].
      change (before (entries_of (fst e1) (regroup es)) e1 e2). rewrite regroup_same_target.
      apply (before_filter (is_for (fst e1))); [now apply is_for_true | now apply is_for_true | exact Hb].
    + unfold regroup. apply before_flat_map. right. exists (fst e1), (fst e2).
      split; [|split; apply entries_of_in; now split].
      apply targets_before_conv; [exact Hf | exact Hne | now apply in_map].
Qed.

(* (iii) nothing moves when no target is interrupted by another one *)
Lemma regroup_cons e r :
  regroup (e :: r) =
  e :: entries_of (fst e) r ++ flat_map (fun t => entries_of t r) (remove bytes_dec (fst e) (targets r)).
Proof.
  unfold regroup. cbn [targets flat_map]. unfold entries_of at 1. cbn [filter].
  replace (is_for (fst e) e) with true by (symmetry; now apply is_for_true).
  cbn [app]. f_equal. f_equal. apply flat_map_ext_in'. intros t Ht.
  apply in_remove_iff in Ht. unfold entries_of. cbn [filter].
  replace (is_for t e) with false; [reflexivity|]. symmetry. apply is_for_false. intro Heq.
  now apply (proj2 Ht).
Qed.

Lemma regroup_pull t0 r :
  (In t0 (map fst r) -> exists e' r', r = e' :: r' /\ fst e' = t0) ->
  entries_of t0 r ++ flat_map (fun t => entries_of t r) (remove bytes_dec t0 (targets r)) = regroup r.
Proof.
  intro H. destruct (in_dec bytes_dec t0 (map fst r)) as [Hin|Hn].
  - destruct (H Hin) as (e' & r' & -> & <-). unfold regroup. cbn [targets flat_map remove].
    destruct (bytes_dec (fst e') (fst e')) as [_|Hc]; [|congruence].
    rewrite remove_notin; [reflexivity|]. intro Hc. apply in_remove_iff in Hc. tauto.
  - rewrite entries_of_notin by exact Hn. rewrite remove_notin; [reflexivity|].
    now rewrite targets_in.
Qed.

Lemma regroup_clustered es : clustered es -> regroup es = es.
Proof.
  induction es as [|e r IH]; [reflexivity|]. cbn [clustered]. intros [H Hc].
  rewrite regroup_cons. f_equal. rewrite regroup_pull by exact H. now apply IH.
Qed.

Lemma clustered_block t blk rest :
  (forall e, In e blk -> fst e = t) -> (forall e, In e rest -> fst e <> t) -> clustered rest ->
  clustered (blk ++ rest).
Proof.
  intros Hb Hr Hc. induction blk as [|e blk IH]; [exact Hc|].
  cbn [app clustered]. split.
  - intro Hin. destruct blk as [|e' blk'].
    + exfalso. cbn [app] in Hin. apply in_map_iff in Hin. destruct Hin as (x & Hx & Hin).
      apply (Hr x Hin). rewrite Hx. apply Hb. now left.
    + exists e', (blk' ++ rest). split; [reflexivity|].
      rewrite (Hb e), (Hb e'); [reflexivity | right; now left | now left].
  - apply IH. intros x Hx. apply Hb. now right.
Qed.

Lemma clustered_flat_map es l : NoDup l -> clustered (flat_map (fun t => entries_of t es) l).
Proof.
  induction 1 as [|t l Ht Hnd IH]; cbn [flat_map]; [exact I|].
  apply (clustered_block t); [| |exact IH].
  - intros e He. now apply entries_of_in in He.
  - intros e He Heq. apply in_flat_map in He. destruct He as (t' & Hin & He).
    apply entries_of_in in He. destruct He as [_ He]. congruence.
Qed.

Lemma regroup_is_clustered es : clustered (regroup es).
Proof. apply clustered_flat_map, targets_nodup. Qed.

Lemma regroup_id_iff es : regroup es = es <-> clustered es.
Proof.
  split; [|apply regroup_clustered]. intro E. rewrite <- E. apply regroup_is_clustered.
Qed.

Lemma distinct_clustered es : NoDup (map fst es) -> clustered es.
Proof.
  induction es as [|e r IH]; cbn [map clustered]; intro H; [exact I|].
  inversion H as [|x l Hx Hnd]; subst. split; [intro Hin; contradiction | now apply IH].
Qed.

Lemma all_deps_clustered es : clustered es -> all_deps es = textual es.
Proof. intro H. now rewrite all_deps_regroup, regroup_clustered. Qed.

Lemma all_deps_distinct es : NoDup (map fst es) -> all_deps es = concat (map snd es).
Proof. intro H. apply all_deps_clustered, distinct_clustered, H. Qed.

Lemma grouped_distinct es : NoDup (map fst es) -> grouped es = es.
Proof.
  induction es as [|e r IH]; intro H; [reflexivity|].
  cbn [map] in H. inversion H as [|x l Hx Hnd]; subst.
  unfold grouped. cbn [targets map].
  rewrite remove_notin by (rewrite targets_in; exact Hx).
  unfold prereqs_of at 1. rewrite entries_of_distinct_hd by exact Hx.
  cbn [map concat]. rewrite app_nil_r. rewrite <- surjective_pairing. f_equal.
  rewrite <- (IH Hnd) at 2. unfold grouped. apply map_ext_in. intros t Ht.
  f_equal. unfold prereqs_of, entries_of. cbn [filter].
  replace (is_for t e) with false; [reflexivity|]. symmetry. apply is_for_false.
  intros Heq. apply Hx. rewrite Heq. now apply targets_in.
Qed.

(* ------------------------------------------------------------------------------------ *)
(* the same at the level of single prerequisite occurrences, each tagged with its target *)

Lemma flat_map_map {A B C} (f : B -> list C) (g : A -> B) l :
  flat_map f (map g l) = flat_map (fun x => f (g x)) l.
Proof. induction l as [|x l IH]; cbn [map flat_map]; [reflexivity | now rewrite IH]. Qed.

Lemma flat_map_flat_map {A B C} (g : B -> list C) (f : A -> list B) l :
  flat_map g (flat_map f l) = flat_map (fun x => flat_map g (f x)) l.
Proof.
  induction l as [|x l IH]; cbn [flat_map]; [reflexivity | now rewrite flat_map_app, IH].
Qed.

Lemma tagged_snd es : map snd (tagged es) = textual es.
Proof.
  unfold tagged, textual. rewrite map_flat_map, flat_map_map_concat. f_equal.
  apply map_ext. intro e. rewrite map_map. cbn [snd]. apply map_id.
Qed.

Lemma tagged_block t l : (forall e, In e l -> fst e = t) -> tagged l = map (pair t) (concat (map snd l)).
Proof.
  induction l as [|e l IH]; intro H; [reflexivity|].
  unfold tagged in *. cbn [flat_map map concat]. rewrite map_app, IH, (H e (or_introl eq_refl)).
  - reflexivity.
  - intros x Hx. apply H. now right.
Qed.

Lemma tagged_grouped es : tagged (grouped es) = tagged (regroup es).
Proof.
  unfold grouped, regroup. unfold tagged at 1 2. rewrite flat_map_map, flat_map_flat_map.
  apply flat_map_ext_in'. intros t _. cbn [fst snd]. unfold prereqs_of.
  symmetry. apply (tagged_block t). intros e He. now apply entries_of_in in He.
Qed.

Lemma all_deps_tagged es : map snd (tagged (grouped es)) = all_deps es.
Proof. now rewrite tagged_grouped, tagged_snd, all_deps_regroup. Qed.

Lemma tagged_one_in (e : bytes * list bytes) t d :
  In (t, d) (map (pair (fst e)) (snd e)) <-> fst e = t /\ In d (snd e).
Proof.
  rewrite in_map_iff. split.
  - intros (x & E & Hx). inversion E; subst. now split.
  - intros [<- H]. now exists d.
Qed.

Lemma tagged_in es t d : In (t, d) (tagged es) <-> exists ps, In (t, ps) es /\ In d ps.
Proof.
  unfold tagged. rewrite in_flat_map. split.
  - intros ([t' ps] & He & Hin). apply tagged_one_in in Hin. cbn [fst snd] in Hin.
    destruct Hin as [-> Hin]. now exists ps.
  - intros (ps & He & Hd). exists (t, ps). split; [exact He|]. now apply tagged_one_in.
Qed.

Lemma tagged_filter t l : filter (is_for t) (tagged l) = tagged (entries_of t l).
Proof.
  induction l as [|e l IH]; [reflexivity|].
  unfold tagged, entries_of in *. cbn [flat_map filter]. rewrite filter_app, IH.
  destruct (is_for t e) eqn:E; cbn [flat_map].
  - f_equal. apply filter_all. intros o Ho. apply in_map_iff in Ho. destruct Ho as (d & <- & _).
    apply is_for_true. cbn [fst]. now apply is_for_true in E.
  - rewrite filter_nil; [reflexivity|]. intros o Ho. apply in_map_iff in Ho. destruct Ho as (d & <- & _).
    apply is_for_false. cbn [fst]. now apply is_for_false in E.
Qed.

(* the prerequisites of any one target, as a list: exactly as in the text *)
Lemma tagged_same_target es t :
  filter (is_for t) (tagged (grouped es)) = filter (is_for t) (tagged es).
Proof. now rewrite tagged_grouped, !tagged_filter, regroup_same_target. Qed.

Lemma tagged_grouped_in es o : In o (tagged (grouped es)) <-> In o (tagged es).
Proof.
  assert (Ho : is_for (fst o) o = true) by now apply is_for_true.
  split; intro H.
  - assert (H' : In o (filter (is_for (fst o)) (tagged (grouped es)))) by (apply filter_In; now split).
    rewrite tagged_same_target in H'. apply filter_In in H'. tauto.
  - assert (H' : In o (filter (is_for (fst o)) (tagged es))) by (apply filter_In; now split).
    rewrite <- tagged_same_target in H'. apply filter_In in H'. tauto.
Qed.

(* THE ORDER OF THE RESULT, completely: occurrence (t1,d1) stands before occurrence (t2,d2) in the
   result iff either they were written under the same target and stand so in the text, or they were
   written under different targets and t1's first appearance precedes t2's *)
Lemma tagged_order es t1 d1 t2 d2 :
  before (tagged (grouped es)) (t1, d1) (t2, d2) <->
  (t1 = t2 /\ before (tagged es) (t1, d1) (t2, d2)) \/
  (t1 <> t2 /\ first_before (map fst es) t1 t2 /\ In (t1, d1) (tagged es) /\ In (t2, d2) (tagged es)).
Proof.
  destruct (bytes_dec t1 t2) as [<-|Hne].
  - assert (P1 : is_for t1 (t1, d1) = true) by now apply is_for_true.
    assert (P2 : is_for t1 (t1, d2) = true) by now apply is_for_true.
    rewrite <- (before_filter (is_for t1) (tagged (grouped es)) _ _ P1 P2).
    rewrite tagged_same_target, (before_filter (is_for t1) (tagged es) _ _ P1 P2).
    split; [intro H; left; now split|]. intros [[_ H]|[H _]]; [exact H | congruence].
  - split.
    + intro H. right. split; [exact Hne|].
      pose proof (before_in _ _ _ H) as [I1 I2].
      apply (proj1 (tagged_grouped_in _ _)) in I1. apply (proj1 (tagged_grouped_in _ _)) in I2.
      split; [|split; [exact I1 | exact I2]].
      rewrite tagged_grouped in H. unfold tagged in H. apply before_flat_map in H.
      destruct H as [(e & _ & Hb)|(e1 & e2 & Hb & H1 & H2)].
      * exfalso. apply before_in in Hb. destruct Hb as [H1 H2].
        apply tagged_one_in in H1, H2. apply Hne. now rewrite <- (proj1 H1), <- (proj1 H2).
      * apply tagged_one_in in H1, H2. destruct H1 as [<- _], H2 as [<- _].
        apply regroup_order in Hb. destruct Hb as [[Heq _]|(_ & Hf & _)]; [contradiction | exact Hf].
    + intros [[Heq _]|(_ & Hf & I1 & I2)]; [contradiction|].
      apply tagged_in in I1, I2. destruct I1 as (ps1 & He1 & Hd1), I2 as (ps2 & He2 & Hd2).
      rewrite tagged_grouped. unfold tagged. apply before_flat_map. right.
      exists (t1, ps1), (t2, ps2). split; [|split; apply tagged_one_in; now split].
      apply regroup_order. right. cbn [fst]. split; [exact Hne|]. split; [exact Hf | now split].
Qed.
