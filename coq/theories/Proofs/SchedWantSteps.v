(* A successful want traversal is a sequence of "good sets": each gives a state (Want or
   Ready) to a step that had none.  A step can be visited twice (re-entry through a validation
   edge while its ordering inputs are still being visited); the second set is then always
   Want -> Want, which BuildStates::set maps to the same BuildStates. *)
From N2 Require Import Model.All Proofs.SchedSpec Proofs.SchedWantRel.

Section Steps.
Variable g : graph.

Definition lenok (s : bstates) : Prop := length (bs_states s) = length (g_builds g).
Definition known (s : bstates) (b : nat) : Prop := get_state s b <> Unknown.

Definition good_set (s : bstates) (id : nat) (st : bstate) (s' : bstates) : Prop :=
  id < length (g_builds g) /\
  get_state s id = Unknown /\
  (st = Want \/ st = Ready) /\
  bs_set s id (get_build g id) st = Ok s' /\
  (st = Ready -> forall p, ordering_producer g id p -> get_state s p = Done) /\
  (lenok s -> forall p, ordering_producer g id p -> known s p).

Inductive steps : bstates -> bstates -> Prop :=
| steps_refl s : steps s s
| steps_cons s id st s1 s2 : good_set s id st s1 -> steps s1 s2 -> steps s s2.

Lemma steps_trans s1 s2 s3 : steps s1 s2 -> steps s2 s3 -> steps s1 s3.
Proof. induction 1; intros; [assumption|]. eapply steps_cons; eauto. Qed.

Lemma steps_one s id st s' : good_set s id st s' -> steps s s'.
Proof. intros; eapply steps_cons; [eassumption|constructor]. Qed.

(* what a traversal can do to the states *)
Definition ext (s s' : bstates) : Prop :=
  length (bs_states s') = length (bs_states s) /\
  bs_pools s' = bs_pools s /\
  (forall b, get_state s b <> Unknown -> get_state s' b = get_state s b) /\
  (forall b, get_state s b = Unknown ->
             get_state s' b = Unknown \/ get_state s' b = Want \/ get_state s' b = Ready) /\
  (forall b, get_state s b = Unknown -> get_state s' b = Ready ->
             forall p, ordering_producer g b p -> get_state s' p = Done).

Lemma ext_refl s : ext s s.
Proof.
  repeat split; auto. intros b HU HR. congruence.
Qed.

Lemma ext_trans s1 s2 s3 : ext s1 s2 -> ext s2 s3 -> ext s1 s3.
Proof.
  intros (L1 & P1 & F1 & U1 & R1) (L2 & P2 & F2 & U2 & R2).
  split; [congruence|]. split; [congruence|]. split; [|split].
  - intros b Hb. rewrite F2; [now apply F1|]. rewrite F1; assumption.
  - intros b Hb. destruct (U1 b Hb) as [H|[H|H]].
    + now apply U2.
    + right; left. rewrite F2; congruence.
    + right; right. rewrite F2; congruence.
  - intros b Hb HR p Hp.
    destruct (U1 b Hb) as [H|H].
    + now apply (R2 b H HR).
    + assert (Hk : get_state s2 b <> Unknown) by (destruct H; congruence).
      assert (E : get_state s2 b = Ready) by (rewrite <- (F2 b Hk); exact HR).
      pose proof (R1 b Hb E p Hp) as HD.
      rewrite F2; congruence.
Qed.

Lemma get_state_set s id st i :
  get_state (mkBS (set_nth_state (bs_states s) id st) (bs_counts s) (bs_pending s) (bs_ready s) (bs_pools s)) i =
  if ((i =? id) && (id <? length (bs_states s)))%nat then st else get_state s i.
Proof. unfold get_state. cbn [bs_states]. apply get_set_nth. Qed.

Lemma bs_set_get s id b st s' i :
  bs_set s id b st = Ok s' ->
  get_state s' i = if ((i =? id) && (id <? length (bs_states s)))%nat then st else get_state s i.
Proof.
  intro H. apply bs_set_states in H. unfold get_state. rewrite H. apply get_set_nth.
Qed.

Lemma bs_set_get_other s id b st s' i :
  bs_set s id b st = Ok s' -> i <> id -> get_state s' i = get_state s i.
Proof.
  intros H Hi. rewrite (bs_set_get _ _ _ _ _ i H).
  destruct (Nat.eqb_spec i id); [contradiction|reflexivity].
Qed.

Lemma bs_set_get_same s id b st s' :
  bs_set s id b st = Ok s' -> id < length (bs_states s) -> get_state s' id = st.
Proof.
  intros H Hi. rewrite (bs_set_get _ _ _ _ _ id H).
  rewrite Nat.eqb_refl. apply Nat.ltb_lt in Hi. now rewrite Hi.
Qed.

Lemma bs_set_get_cases s id b st s' :
  bs_set s id b st = Ok s' -> get_state s' id = st \/ get_state s' id = get_state s id.
Proof.
  intros H. rewrite (bs_set_get _ _ _ _ _ id H).
  destruct ((id =? id) && (id <? length (bs_states s)))%nat; auto.
Qed.

Lemma good_set_ext s id st s' : good_set s id st s' -> ext s s'.
Proof.
  intros (Hid & HU & Hst & Hset & HR & _).
  pose proof (bs_set_states _ _ _ _ _ Hset) as Hs.
  split; [rewrite Hs; apply set_nth_length|].
  split.
  { rewrite (bs_set_fresh s id _ st HU Hst) in Hset. inversion Hset; reflexivity. }
  split; [|split].
  - intros b Hb. apply (bs_set_get_other _ _ _ _ _ b Hset). congruence.
  - intros b Hb. destruct (Nat.eq_dec b id) as [->|Hne].
    + destruct (bs_set_get_cases _ _ _ _ _ Hset) as [E|E]; rewrite E; [|auto].
      destruct Hst; subst; auto.
    + left. rewrite (bs_set_get_other _ _ _ _ _ b Hset Hne). exact Hb.
  - intros b Hb HRd p Hp. destruct (Nat.eq_dec b id) as [->|Hne].
    + assert (st = Ready).
      { destruct (bs_set_get_cases _ _ _ _ _ Hset) as [E|E]; congruence. }
      pose proof (HR H p Hp) as HD.
      rewrite (bs_set_get_other _ _ _ _ _ p Hset); [exact HD|]. congruence.
    + rewrite (bs_set_get_other _ _ _ _ _ b Hset Hne) in HRd. congruence.
Qed.

Lemma steps_ext s s' : steps s s' -> ext s s'.
Proof.
  induction 1; [apply ext_refl|]. eapply ext_trans; [eapply good_set_ext; eassumption|assumption].
Qed.

Lemma ext_lenok s s' : ext s s' -> (lenok s <-> lenok s').
Proof. intros (L & _). unfold lenok. rewrite L. tauto. Qed.

Lemma ext_known s s' b : ext s s' -> known s b -> known s' b.
Proof. intros (_ & _ & F & _) H. unfold known in *. now rewrite F. Qed.

Lemma ext_not_done s s' b : ext s s' -> get_state s b <> Done -> get_state s' b <> Done.
Proof.
  intros (_ & _ & F & U & _) H.
  destruct (get_state s b) eqn:E;
    try (rewrite F; congruence).
  destruct (U b E) as [H1|[H1|H1]]; congruence.
Qed.

Lemma ext_done_back s s' b : ext s s' -> get_state s' b = Done -> get_state s b = Done.
Proof.
  intros He H. destruct (get_state s b) eqn:E; try reflexivity;
    exfalso; refine (ext_not_done s s' b He _ H); congruence.
Qed.

Lemma ext_frame s s' b : ext s s' ->
  get_state s' b = get_state s b \/
  (get_state s b = Unknown /\ (get_state s' b = Want \/ get_state s' b = Ready)).
Proof.
  intros (_ & _ & F & U & _).
  destruct (get_state s b) eqn:E; try (left; rewrite F; congruence).
  destruct (U b E) as [H|H]; [left; congruence|right; split; auto].
Qed.

(* ---- a traversal is a sequence of good sets ---- *)

Hypothesis Hwf : graph_wf g.

Definition P_WB (w : wst) (stack : list nat) (id : nat) (w' : wst) (st : bstate) : Prop :=
  id < length (g_builds g) ->
  steps (fst w) (fst w') /\
  (st = Done -> w' = w /\ get_state (fst w) id = Done) /\
  (st <> Done -> get_state (fst w') id <> Done) /\
  (lenok (fst w) -> known (fst w') id /\ st = get_state (fst w') id).

Definition P_WF (w : wst) (stack : list nat) (f : nat) (w' : wst) (ok : bool) : Prop :=
  steps (fst w) (fst w') /\
  (ok = true -> w' = w /\ forall p, file_input g f = Some p -> get_state (fst w) p = Done) /\
  (ok = false -> exists p, file_input g f = Some p /\ get_state (fst w') p <> Done) /\
  (lenok (fst w) -> forall p, file_input g f = Some p -> known (fst w') p).

Definition P_OL (w : wst) (stack : list nat) (ins : list nat) (ready : bool) (w' : wst) (ready' : bool) : Prop :=
  steps (fst w) (fst w') /\
  (ready' = true -> ready = true /\ w' = w /\
     forall f p, In f ins -> file_input g f = Some p -> get_state (fst w) p = Done) /\
  (ready' = false -> ready = false \/
     exists f p, In f ins /\ file_input g f = Some p /\ get_state (fst w') p <> Done) /\
  (lenok (fst w) -> forall f p, In f ins -> file_input g f = Some p -> known (fst w') p).

Definition P_VL (w : wst) (ins : list nat) (w' : wst) : Prop :=
  steps (fst w) (fst w') /\
  (lenok (fst w) -> forall f p, In f ins -> file_input g f = Some p -> known (fst w') p).

Lemma want_steps_all :
  (forall w stack id w' st, WB g w stack id w' st -> P_WB w stack id w' st) /\
  (forall w stack f w' ok, WF g w stack f w' ok -> P_WF w stack f w' ok) /\
  (forall w stack ins ready w' ready', OL g w stack ins ready w' ready' -> P_OL w stack ins ready w' ready') /\
  (forall w ins w', VL g w ins w' -> P_VL w ins w').
Proof.
  apply want_mutind.
  - (* WB_known *)
    intros w stack id Hk Hid. split; [constructor|]. split; [auto|]. split; [auto|].
    intros _. split; [exact Hk|reflexivity].
  - (* WB_visit *)
    intros w stack id w1 ready s' w2 HU _ (S1 & RT & RF & K1) Hset _ (S2 & K2) Hid.
    cbn [fst] in S2, K2.
    pose proof (steps_ext _ _ S1) as E1.
    pose proof (steps_ext _ _ S2) as E2.
    set (st := if ready then Ready else Want) in *.
    assert (Hst : st = Want \/ st = Ready) by (subst st; destruct ready; auto).
    assert (HstD : st <> Done) by (destruct Hst; congruence).
    (* the set is either a good set or a Want -> Want re-set *)
    assert (Hcase : good_set (fst w1) id st s' \/ (s' = fst w1 /\ get_state (fst w1) id = Want /\ st = Want)).
    { destruct ready eqn:Er.
      - destruct (RT eq_refl) as (_ & Ew & HD). subst w1.
        left. unfold good_set. repeat split; auto.
        + intros _ p (f & Hf & Hp). eapply HD; eauto.
        + intros _ p (f & Hf & Hp). unfold known. rewrite (HD f p Hf Hp). discriminate.
      - destruct (RF eq_refl) as [Hc|(f & p & Hf & Hp & HnD)]; [discriminate|].
        destruct E1 as (_ & _ & _ & U1 & R1).
        destruct (U1 id HU) as [HU1|[HW1|HR1]].
        + left. unfold good_set. repeat split; auto.
          * subst st. discriminate.
          * intros Hl p' (f' & Hf' & Hp'). apply (K1 (proj2 (ext_lenok _ _ (steps_ext _ _ S1)) Hl) f' p' Hf' Hp').
        + right. subst st. rewrite (bs_set_want_again _ _ _ HW1) in Hset.
          inversion Hset; subst s'. auto.
        + exfalso. apply HnD. apply (R1 id HU HR1). exists f; auto. }
    assert (Sset : steps (fst w1) s').
    { destruct Hcase as [Hg|(-> & _)]; [eapply steps_one; exact Hg|constructor]. }
    split; [eapply steps_trans; [exact S1|]; eapply steps_trans; [exact Sset|exact S2]|].
    split; [intro; contradiction|].
    assert (Hs'id : get_state s' id <> Done).
    { destruct (bs_set_get_cases _ _ _ _ _ Hset) as [E|E]; rewrite E; [exact HstD|].
      apply (ext_not_done _ _ _ E1). congruence. }
    split; [intros _; now apply (ext_not_done _ _ _ E2)|].
    intros Hl.
    assert (Hl1 : lenok (fst w1)) by (apply (ext_lenok _ _ E1); exact Hl).
    assert (Es' : get_state s' id = st).
    { destruct Hcase as [Hg|(-> & HW & ->)]; [|exact HW].
      apply (bs_set_get_same _ _ _ _ _ Hset). unfold lenok in Hl1. rewrite Hl1. exact Hid. }
    assert (Ks' : known s' id) by (unfold known; rewrite Es'; destruct Hst; congruence).
    split; [now apply (ext_known _ _ _ E2)|].
    destruct E2 as (_ & _ & F2 & _). rewrite F2; [now symmetry | exact Ks'].
  - (* WF_leaf *)
    intros w stack f _ HN. split; [constructor|]. split.
    + intros _. split; [reflexivity|]. intros p Hp. congruence.
    + split; [discriminate|]. intros _ p Hp. congruence.
  - (* WF_build *)
    intros w stack f bid w' st _ HF _ IH.
    assert (Hbid : bid < length (g_builds g)) by (eapply (proj1 Hwf); eauto).
    destruct (IH Hbid) as (S1 & HD & HnD & HK).
    split; [exact S1|]. split; [|split].
    + intro Hok. apply bstate_eqb_eq in Hok. destruct (HD Hok) as [Ew Hd].
      split; [exact Ew|]. intros p Hp. congruence.
    + intro Hok. apply bstate_eqb_neq in Hok. exists bid. split; [exact HF|]. now apply HnD.
    + intros Hl p Hp. assert (p = bid) by congruence. subst p. now apply HK.
  - (* OL_nil *)
    intros w stack ready. split; [constructor|]. split; [|split].
    + intros ->. split; [reflexivity|]. split; [reflexivity|]. intros f p [].
    + intros ->. now left.
    + intros _ f p [].
  - (* OL_cons *)
    intros w stack f rest ready w1 ok w2 ready2 _ (S1 & T1 & F1 & K1) _ (S2 & T2 & F2 & K2).
    pose proof (steps_ext _ _ S1) as E1.
    pose proof (steps_ext _ _ S2) as E2.
    split; [eapply steps_trans; eauto|]. split; [|split].
    + intro Hr. destruct (T2 Hr) as (Hand & Ew2 & HD2).
      apply andb_true_iff in Hand as [Hr1 Hok]. destruct (T1 Hok) as (Ew1 & HD1).
      subst w2 w1. split; [exact Hr1|]. split; [reflexivity|].
      intros f' p [<-|Hin] Hp; [now apply HD1|eapply HD2; eauto].
    + intro Hr. destruct (F2 Hr) as [Hand|(f' & p & Hin & Hp & HnD)].
      * apply andb_false_iff in Hand as [Hr1|Hok]; [now left|].
        right. destruct (F1 Hok) as (p & Hp & HnD). exists f, p.
        split; [now left|]. split; [exact Hp|]. now apply (ext_not_done _ _ _ E2).
      * right. exists f', p. split; [now right|]. auto.
    + intros Hl f' p [<-|Hin] Hp.
      * apply (ext_known _ _ _ E2). now apply K1.
      * apply (K2 (proj1 (ext_lenok _ _ E1) Hl) f' p Hin Hp).
  - (* VL_nil *)
    intros w. split; [constructor|]. intros _ f p [].
  - (* VL_cons *)
    intros w f rest w1 ok w2 _ (S1 & _ & _ & K1) _ (S2 & K2).
    pose proof (steps_ext _ _ S1) as E1.
    pose proof (steps_ext _ _ S2) as E2.
    split; [eapply steps_trans; eauto|].
    intros Hl f' p [<-|Hin] Hp.
    + apply (ext_known _ _ _ E2). now apply K1.
    + apply (K2 (proj1 (ext_lenok _ _ E1) Hl) f' p Hin Hp).
Qed.

Lemma WF_steps w stack f w' ok : WF g w stack f w' ok -> steps (fst w) (fst w').
Proof. intro H. now apply (proj1 (proj2 want_steps_all)) in H as (S & _). Qed.

Lemma WF_known w stack f w' ok p :
  WF g w stack f w' ok -> lenok (fst w) -> file_input g f = Some p -> known (fst w') p.
Proof. intros H Hl Hp. apply (proj1 (proj2 want_steps_all)) in H as (_ & _ & _ & K). eauto. Qed.

Lemma OL_steps w stack ins r w' r' : OL g w stack ins r w' r' -> steps (fst w) (fst w').
Proof. intro H. now apply (proj1 (proj2 (proj2 want_steps_all))) in H as (S & _). Qed.

Lemma VL_steps w ins w' : VL g w ins w' -> steps (fst w) (fst w').
Proof. intro H. now apply (proj2 (proj2 (proj2 want_steps_all))) in H as (S & _). Qed.

Lemma WB_steps w stack id w' st :
  WB g w stack id w' st -> id < length (g_builds g) -> steps (fst w) (fst w').
Proof. intros H Hid. now apply (proj1 want_steps_all) in H as (S & _). Qed.

(* every successful want_file call is a sequence of good sets *)
Lemma want_file_steps fuel s l stack f s' l' ok :
  want_file fuel g (s, l) stack f = Ok ((s', l'), ok) -> steps s s'.
Proof. intro H. apply want_file_sound in H. now apply WF_steps in H. Qed.

Lemma wanted_steps s s' : wanted g s s' -> steps s s'.
Proof.
  induction 1 as [s|s s1 s2 l l' f rdy _ IH Hw]; [constructor|].
  eapply steps_trans; [exact IH|]. eapply want_file_steps; eauto.
Qed.

End Steps.

(* the frame statement of SchedInv *)
Theorem wanted_frame g : graph_wf g ->
  forall s s' b, wanted g s s' ->
    get_state s' b = get_state s b \/
    (get_state s b = Unknown /\ (get_state s' b = Want \/ get_state s' b = Ready)).
Proof.
  intros Hwf s s' b H. apply (ext_frame g). apply steps_ext. now apply wanted_steps.
Qed.
