(* C10, spelling independence with include/subninja: the hypothesis [spells_files] for the three
   files of LoadInclSpellEx.v / LoadInclSpellEx2.v in their three spellings, the theorems applied,
   and the loads run ([vm_compute]). *)
From Coq Require Import String.
From N2 Require Import Model.All Proofs.EvalFiles.
From N2 Require Import Proofs.ParseSpell.
From N2 Require Import Proofs.LoadGraphSpec Proofs.LoadGraphRun Proofs.LoadGraphNorm Proofs.LoadGraphFile
     Proofs.LoadGraphNames.
From N2 Require Import Proofs.LoadInclSpec Proofs.LoadInclFlat.
From N2 Require Import Proofs.LoadInclSpellSpec Proofs.LoadInclSpellStep Proofs.LoadInclSpellRun
     Proofs.LoadInclSpellFiles Proofs.LoadInclSpellEx Proofs.LoadInclSpellEx2.

Ltac no_child I CL := inversion I; subst; destruct CL as [CL|CL]; discriminate CL.

(* what a file map pair must offer for a child named [name], read with [vs] *)
Definition child_offer (strict : bool) (fs1 fs2 : list (bytes * bytes)) (name : bytes) (vs : vars) : Prop :=
  forall reading,
    (assoc_b name fs1 = None /\ assoc_b name fs2 = None) \/
    (exists c1 c2, assoc_b name fs1 = Some c1 /\ assoc_b name fs2 = Some c2 /\
                   spells_files strict fs1 fs2 reading vs c1 c2).

Lemma b_tree strict fs1 fs2 reading o k1 k2 t1 t2 :
  spells_file_v 1 vs_child (b_svs o k1) vs_child t1 -> spells_file_v 1 vs_child (b_svs o k2) vs_child t2 ->
  ~ In 13%N t1 -> ~ In 13%N t2 -> same_decl strict (b_svs o k1) (b_svs o k2) ->
  spells_files strict fs1 fs2 reading vs_child t1 t2.
Proof.
  intros S1 S2 N1 N2 D.
  apply (spells_files_node strict fs1 fs2 reading vs_child t1 t2 _ _ vs_child S1 S2 N1 N2 D).
  intros st vs p path I CL P X. unfold b_svs in I. cbn [In] in I. destruct I as [I|[]]. no_child I CL.
Qed.

Lemma a_tree strict fs1 fs2 reading k1 k2 t1 t2 :
  spells_file_v 1 vs_top (a_svs k1) vs_child t1 -> spells_file_v 1 vs_top (a_svs k2) vs_child t2 ->
  ~ In 13%N t1 -> ~ In 13%N t2 -> same_decl strict (a_svs k1) (a_svs k2) ->
  child_offer strict fs1 fs2 (bs "b.ninja") vs_child ->
  spells_files strict fs1 fs2 reading vs_top t1 t2.
Proof.
  intros S1 S2 N1 N2 D B.
  apply (spells_files_node strict fs1 fs2 reading vs_top t1 t2 _ _ vs_child S1 S2 N1 N2 D).
  intros st vs p path I CL P X. unfold a_svs in I. cbn [In] in I.
  destruct I as [I|[I|[I|[I|[]]]]]; [no_child I CL | no_child I CL | no_child I CL |].
  inversion I; subst st vs. destruct CL as [CL|CL]; [discriminate CL|]. inversion CL; subst p.
  vm_compute in P. inversion P; subst path. apply B.
Qed.

Lemma main_tree strict fs1 fs2 k1 k2 k1' k2' t1 t2 :
  spells_file_v 1 [] (main_svs k1 k2) vs_top t1 -> spells_file_v 1 [] (main_svs k1' k2') vs_top t2 ->
  ~ In 13%N t1 -> ~ In 13%N t2 -> same_decl strict (main_svs k1 k2) (main_svs k1' k2') ->
  child_offer strict fs1 fs2 (bs "a.ninja") vs_top ->
  spells_files strict fs1 fs2 [] [] t1 t2.
Proof.
  intros S1 S2 N1 N2 D A.
  apply (spells_files_node strict fs1 fs2 [] [] t1 t2 _ _ vs_top S1 S2 N1 N2 D).
  intros st vs p path I CL P X. unfold main_svs in I. cbn [In] in I.
  destruct I as [I|[I|[I|[I|[I|[]]]]]]; [no_child I CL | | no_child I CL | no_child I CL | no_child I CL].
  inversion I; subst st vs. destruct CL as [CL|CL]; [|discriminate CL]. inversion CL; subst p.
  vm_compute in P. inversion P; subst path. apply A.
Qed.

Ltac nocr0 := apply no_cr; vm_compute; reflexivity.
Ltac lines_only := change (same_decl false ?a ?b) with
  (Forall2 (fun x y => unline_stmt (fst x) = unline_stmt (fst y) /\ snd x = snd y) a b); repeat constructor.

(* ------------------------------------------------------------------------------------ *)
(* spellings 1 and 2: the lines of `build` differ *)

Definition ex_fs1 : list (bytes * bytes) := [(bs "a.ninja", ex_a1); (bs "b.ninja", ex_b1)].
Definition ex_fs2 : list (bytes * bytes) := [(bs "b.ninja", ex_b2); (bs "a.ninja", ex_a2)].

Lemma plain_q : bs "q" <> [] /\ forallb (plain_char true) (bs "q") = true.
Proof. split; [discriminate | reflexivity]. Qed.
Lemma plain_p : bs "p" <> [] /\ forallb (plain_char true) (bs "p") = true.
Proof. split; [discriminate | reflexivity]. Qed.

Lemma ex12_a_offer fs1 fs2 :
  assoc_b (bs "a.ninja") fs1 = Some ex_a1 -> assoc_b (bs "a.ninja") fs2 = Some ex_a2 ->
  child_offer false fs1 fs2 (bs "b.ninja") vs_child ->
  child_offer false fs1 fs2 (bs "a.ninja") vs_top.
Proof.
  intros A1 A2 B reading. right. exists ex_a1, ex_a2. split; [exact A1|]. split; [exact A2|].
  apply (a_tree false fs1 fs2 reading 7 10 ex_a1 ex_a2 ex_a1_spells ex_a2_spells); [nocr0 | nocr0 | lines_only | exact B].
Qed.

Lemma ex12_main fs1 fs2 :
  assoc_b (bs "a.ninja") fs1 = Some ex_a1 -> assoc_b (bs "a.ninja") fs2 = Some ex_a2 ->
  child_offer false fs1 fs2 (bs "b.ninja") vs_child ->
  spells_files false fs1 fs2 [] [] ex_main1 ex_main2.
Proof.
  intros A1 A2 B.
  apply (main_tree false fs1 fs2 5 6 11 13 ex_main1 ex_main2 ex_main1_spells ex_main2_spells);
    [nocr0 | nocr0 | lines_only | apply ex12_a_offer; assumption].
Qed.

(* the hypothesis of the theorem, for the three files in the two spellings *)
Theorem ex_spells_files : spells_files false ex_fs1 ex_fs2 [] [] ex_main1 ex_main2.
Proof.
  apply ex12_main; [reflexivity | reflexivity|]. intro reading. right. exists ex_b1, ex_b2.
  split; [reflexivity|]. split; [reflexivity|].
  apply (b_tree false _ _ reading (bs "q") 1 3); [apply b1_spells; apply plain_q | apply b2_spells; apply plain_q
    | nocr0 | nocr0 | lines_only].
Qed.

(* ... and so the theorem applies: *)
Theorem ex_files_same_graph :
  exists l1 l2,
    load_manifest true 5 ex_fs1 (bs "build.ninja") ex_main1 = Ok l1 /\
    load_manifest true 5 ex_fs2 (bs "build.ninja") ex_main2 = Ok l2 /\
    l_files l1 = l_files l2 /\ map unline_lb (l_builds l1) = map unline_lb (l_builds l2) /\
    l_defaults l1 = l_defaults l2 /\ l_pools l1 = l_pools l2 /\ l_builddir l1 = l_builddir l2 /\
    map (fun b => unline_view (view l1 b)) (l_builds l1) = map (fun b => unline_view (view l2 b)) (l_builds l2).
Proof.
  destruct (files_graph_spelling_independent_lines 5 ex_fs1 ex_fs2 (bs "build.ninja") ex_main1 ex_main2
              ex_spells_files) as [(l1 & l2 & E1 & E2 & F & B & D & R & P & BD & V & Dn)|[N _]].
  - exists l1, l2. repeat (split; [assumption|]). exact V.
  - exfalso. destruct (load_manifest true 5 ex_fs1 (bs "build.ninja") ex_main1) as [l|m|x|x|] eqn:E;
      [exact (N l eq_refl) | | | |]; vm_compute in E; discriminate E.
Qed.

(* the two loads, run *)
Theorem ex_files_run :
  exists l1 l2,
    load_manifest true 5 ex_fs1 (bs "build.ninja") ex_main1 = Ok l1 /\
    load_manifest true 5 ex_fs2 (bs "build.ninja") ex_main2 = Ok l2 /\
    map lf_name (l_files l1) = [bs "build.ninja"; bs "a.ninja"; bs "p"; bs "b.ninja"; bs "q"; bs "o1"; bs "o2"] /\
    l_files l1 = l_files l2 /\
    map (fun b => (lb_file b, lb_line b, lb_cmdline b)) (l_builds l1) =
      [ (bs "a.ninja", 7%Z, Some (bs "c.child.cw")); (bs "b.ninja", 1%Z, Some (bs "d.child.cw"));
        (bs "build.ninja", 5%Z, Some (bs "d.top.")); (bs "build.ninja", 6%Z, Some (bs "c.top.")) ] /\
    map (fun b => (lb_file b, lb_line b, lb_cmdline b)) (l_builds l2) =
      [ (bs "a.ninja", 10%Z, Some (bs "c.child.cw")); (bs "b.ninja", 3%Z, Some (bs "d.child.cw"));
        (bs "build.ninja", 11%Z, Some (bs "d.top.")); (bs "build.ninja", 13%Z, Some (bs "c.top.")) ] /\
    map unline_lb (l_builds l1) = map unline_lb (l_builds l2) /\
    map (fun b => unline_view (view l1 b)) (l_builds l1) = map (fun b => unline_view (view l2 b)) (l_builds l2) /\
    l_pools l1 = [(bs "pl", 2%N)] /\ l_pools l2 = l_pools l1 /\
    map (file_nm l1) (l_defaults l1) = [bs "o1"] /\ l_defaults l2 = l_defaults l1 /\
    l_builddir l1 = l_builddir l2 /\
    l_rules l1 <> l_rules l2 /\ norm_rules (l_rules l1) = norm_rules (l_rules l2).
Proof.
  eexists. eexists. split; [vm_compute; reflexivity|]. split; [vm_compute; reflexivity|].
  split; [vm_compute; reflexivity|]. split; [vm_compute; reflexivity|].
  split; [vm_compute; reflexivity|]. split; [vm_compute; reflexivity|].
  split; [vm_compute; reflexivity|]. split; [vm_compute; reflexivity|].
  split; [vm_compute; reflexivity|]. split; [vm_compute; reflexivity|].
  split; [vm_compute; reflexivity|]. split; [vm_compute; reflexivity|].
  split; [vm_compute; reflexivity|]. split; [vm_compute; discriminate | vm_compute; reflexivity].
Qed.

(* a failure: b.ninja missing from both file maps; the theorem says the two loads fail alike *)
Theorem ex_fail_missing :
  spells_files false [(bs "a.ninja", ex_a1)] [(bs "a.ninja", ex_a2)] [] [] ex_main1 ex_main2 /\
  load_manifest true 5 [(bs "a.ninja", ex_a1)] (bs "build.ninja") ex_main1 =
    Err (bs "read b.ninja: No such file or directory (os error 2)") /\
  load_manifest true 5 [(bs "a.ninja", ex_a2)] (bs "build.ninja") ex_main2 =
    Err (bs "read b.ninja: No such file or directory (os error 2)").
Proof.
  split; [|split; vm_compute; reflexivity].
  apply ex12_main; [reflexivity | reflexivity|]. intro reading. left. split; reflexivity.
Qed.

(* a failure whose text quotes lines: b.ninja declares the output p of a.ninja again.  Spellings
   1 and 2: the same kind of failure, another text *)
Theorem ex_fail_lines :
  spells_files false [(bs "a.ninja", ex_a1); (bs "b.ninja", b1_of (bs "p"))]
                     [(bs "a.ninja", ex_a2); (bs "b.ninja", b2_of (bs "p"))] [] [] ex_main1 ex_main2 /\
  load_manifest true 5 [(bs "a.ninja", ex_a1); (bs "b.ninja", b1_of (bs "p"))] (bs "build.ninja") ex_main1 =
    Err (bs "b.ninja:1: ""p"" is already an output at a.ninja:7") /\
  load_manifest true 5 [(bs "a.ninja", ex_a2); (bs "b.ninja", b2_of (bs "p"))] (bs "build.ninja") ex_main2 =
    Err (bs "b.ninja:3: ""p"" is already an output at a.ninja:10").
Proof.
  split; [|split; vm_compute; reflexivity].
  apply ex12_main; [reflexivity | reflexivity|]. intro reading. right. exists (b1_of (bs "p")), (b2_of (bs "p")).
  split; [reflexivity|]. split; [reflexivity|].
  apply (b_tree false _ _ reading (bs "p") 1 3); [apply b1_spells; apply plain_p | apply b2_spells; apply plain_p
    | nocr0 | nocr0 | lines_only].
Qed.

(* ------------------------------------------------------------------------------------ *)
(* spellings 1 and 3: every `build` on the same line - the strict theorem *)

Definition ex_fs3 : list (bytes * bytes) := [(bs "a.ninja", ex_a3); (bs "b.ninja", ex_b3)].

Lemma ex13_main fs1 fs2 :
  assoc_b (bs "a.ninja") fs1 = Some ex_a1 -> assoc_b (bs "a.ninja") fs2 = Some ex_a3 ->
  child_offer true fs1 fs2 (bs "b.ninja") vs_child ->
  spells_files true fs1 fs2 [] [] ex_main1 ex_main3.
Proof.
  intros A1 A2 B.
  apply (main_tree true fs1 fs2 5 6 5 6 ex_main1 ex_main3 ex_main1_spells ex_main3_spells);
    [nocr0 | nocr0 | reflexivity|].
  intro reading. right. exists ex_a1, ex_a3. split; [exact A1|]. split; [exact A2|].
  apply (a_tree true fs1 fs2 reading 7 7 ex_a1 ex_a3 ex_a1_spells ex_a3_spells); [nocr0 | nocr0 | reflexivity | exact B].
Qed.

Theorem ex3_spells_files : spells_files true ex_fs1 ex_fs3 [] [] ex_main1 ex_main3.
Proof.
  apply ex13_main; [reflexivity | reflexivity|]. intro reading. right. exists ex_b1, ex_b3.
  split; [reflexivity|]. split; [reflexivity|].
  apply (b_tree true _ _ reading (bs "q") 1 1); [apply b1_spells; apply plain_q | apply b3_spells; apply plain_q
    | nocr0 | nocr0 | reflexivity].
Qed.

(* by the theorem: the same graph, lines and warnings included *)
Theorem ex3_files_same_graph :
  exists l1 l3,
    load_manifest true 5 ex_fs1 (bs "build.ninja") ex_main1 = Ok l1 /\
    load_manifest true 5 ex_fs3 (bs "build.ninja") ex_main3 = Ok l3 /\
    l_files l1 = l_files l3 /\ l_builds l1 = l_builds l3 /\ l_defaults l1 = l_defaults l3 /\
    l_pools l1 = l_pools l3 /\ l_builddir l1 = l_builddir l3 /\ l_warnings l1 = l_warnings l3 /\
    map (view l1) (l_builds l1) = map (view l3) (l_builds l3).
Proof.
  destruct (files_graph_spelling_independent 5 ex_fs1 ex_fs3 (bs "build.ninja") ex_main1 ex_main3
              ex3_spells_files) as [(l1 & l3 & E1 & E3 & F & B & D & R & P & BD & W & V & Dn)|[N _]].
  - exists l1, l3. repeat (split; [assumption|]). exact V.
  - exfalso. destruct (load_manifest true 5 ex_fs1 (bs "build.ninja") ex_main1) as [l|m|x|x|] eqn:E;
      [exact (N l eq_refl) | | | |]; vm_compute in E; discriminate E.
Qed.

(* the failure that quotes lines, spellings 1 and 3: the same text (by the theorem, and run) *)
Theorem ex3_fail_lines :
  spells_files true [(bs "a.ninja", ex_a1); (bs "b.ninja", b1_of (bs "p"))]
                    [(bs "a.ninja", ex_a3); (bs "b.ninja", b3_of (bs "p"))] [] [] ex_main1 ex_main3 /\
  load_manifest true 5 [(bs "a.ninja", ex_a3); (bs "b.ninja", b3_of (bs "p"))] (bs "build.ninja") ex_main3 =
  load_manifest true 5 [(bs "a.ninja", ex_a1); (bs "b.ninja", b1_of (bs "p"))] (bs "build.ninja") ex_main1 /\
  load_manifest true 5 [(bs "a.ninja", ex_a3); (bs "b.ninja", b3_of (bs "p"))] (bs "build.ninja") ex_main3 =
    Err (bs "b.ninja:1: ""p"" is already an output at a.ninja:7").
Proof.
  assert (T : spells_files true [(bs "a.ninja", ex_a1); (bs "b.ninja", b1_of (bs "p"))]
                    [(bs "a.ninja", ex_a3); (bs "b.ninja", b3_of (bs "p"))] [] [] ex_main1 ex_main3).
  { apply ex13_main; [reflexivity | reflexivity|]. intro reading. right. exists (b1_of (bs "p")), (b3_of (bs "p")).
    split; [reflexivity|]. split; [reflexivity|].
    apply (b_tree true _ _ reading (bs "p") 1 1); [apply b1_spells; apply plain_p | apply b3_spells; apply plain_p
      | nocr0 | nocr0 | reflexivity]. }
  split; [exact T|]. split; [|vm_compute; reflexivity].
  destruct (files_graph_spelling_independent 5 _ _ (bs "build.ninja") ex_main1 ex_main3 T)
    as [(l1 & l3 & E1 & _)|[_ E]]; [|exact E].
  vm_compute in E1. discriminate E1.
Qed.

(* the texts and the spelling derivations, collected *)
Theorem ex_spellings :
  ex_main1 =
    ln "rule r" (ln "  command = c.$v.$w" (ln "v = top" (ln "include a.ninja"
    (ln "build o1: r2" (ln "build o2: r" (ln "default o1" [])))))) /\
  ex_main2 =
    ln "# main manifest" (ln "" (ln "rule   r" (ln "    command = c.${v}.$" (ln "        $w"
    (ln "v = $" (ln "  top" (ln "include $" (ln "   a.ninja" (ln ""
    (ln "build o1 : r2" (ln "build $" (ln "  o2: r" (ln "# trailing comment"
    (ln "default $" (ln "  o1" (ln "" [])))))))))))))))) /\
  ex_main3 =
    ln "rule r" (ln " command=c.${v}.${w}" (ln "v=top" (ln "include   a.ninja"
    (ln "build o1 :r2" (ln "build o2:  r" (ln "default $" (ln "    o1" []))))))) /\
  ex_a1 =
    ln "v = child" (ln "w = cw" (ln "rule r2" (ln "  command = d.$v.$w" (ln "pool pl" (ln "  depth = 2"
    (ln "build p: r" (ln "subninja b.ninja" []))))))) /\
  ex_a2 =
    ln "v=child" (ln "# comment" (ln "w = c$" (ln "w" (ln "rule r2" (ln " command=d.${v}.${w}" (ln ""
    (ln "pool pl" (ln "  depth=2" (ln "build p :r" (ln "subninja  b.ninja" [])))))))))) /\
  ex_a3 =
    ln "v  =  child" (ln "w=cw" (ln "rule   r2" (ln "    command = d.${v}.${w}" (ln "pool  pl" (ln " depth=2"
    (ln "build p : r" (ln "subninja b.ninja" []))))))) /\
  ex_b1 = ln "build q: r2" [] /\
  ex_b2 = ln "" (ln "# b" (ln "build q: $" (ln " r2" []))) /\
  ex_b3 = ln "build q  :  r2" [] /\
  ex_fs1 = [(bs "a.ninja", ex_a1); (bs "b.ninja", ex_b1)] /\
  ex_fs2 = [(bs "b.ninja", ex_b2); (bs "a.ninja", ex_a2)] /\
  ex_fs3 = [(bs "a.ninja", ex_a3); (bs "b.ninja", ex_b3)].
Proof.
  split; [exact ex_main1_text|]. split; [exact ex_main2_text|]. split; [exact ex_main3_text|].
  split; [exact ex_a1_text|]. split; [exact ex_a2_text|]. split; [exact ex_a3_text|].
  split; [exact (proj1 ex_b_text)|]. split; [exact (proj2 ex_b_text)|]. split; [exact ex_b3_text|].
  repeat split.
Qed.

Theorem ex_spells_all :
  spells_file_v 1 [] (main_svs 5 6) vs_top ex_main1 /\ spells_file_v 1 [] (main_svs 11 13) vs_top ex_main2 /\
  spells_file_v 1 [] (main_svs 5 6) vs_top ex_main3 /\
  spells_file_v 1 vs_top (a_svs 7) vs_child ex_a1 /\ spells_file_v 1 vs_top (a_svs 10) vs_child ex_a2 /\
  spells_file_v 1 vs_top (a_svs 7) vs_child ex_a3 /\
  spells_file_v 1 vs_child (b_svs (bs "q") 1) vs_child ex_b1 /\
  spells_file_v 1 vs_child (b_svs (bs "q") 3) vs_child ex_b2 /\
  spells_file_v 1 vs_child (b_svs (bs "q") 1) vs_child ex_b3.
Proof.
  split; [exact ex_main1_spells|]. split; [exact ex_main2_spells|]. split; [exact ex_main3_spells|].
  split; [exact ex_a1_spells|]. split; [exact ex_a2_spells|]. split; [exact ex_a3_spells|].
  split; [apply b1_spells; apply plain_q|]. split; [apply b2_spells; apply plain_q | apply b3_spells; apply plain_q].
Qed.
