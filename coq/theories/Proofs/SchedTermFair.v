(* C06, termination with the stuttering events counted: under the two fairness premises
   (between two EQuiesce a command terminates; no two EUpdate in a row) an accepted trace has
   at most 20 events per unfinished step plus 5.  The acceptor enforces neither premise, and
   neither can be dropped. *)
From Coq Require Import Lia ZArith List Bool Arith.
From N2 Require Import Model.All Proofs.SchedSpec Proofs.SchedInv Proofs.SchedRunStep Proofs.SchedRunThms
     Proofs.SchedLive Proofs.SchedBoundSpec Proofs.SchedBound Proofs.SchedBoundStutter Proofs.SchedBoundComplete
     Proofs.SchedBoundEx Proofs.SchedTermSpec.
Import ListNotations.

(* ------------------------------------------------------------------------------------ *)
(* separated, as a property and as a check *)

Section Sep.
Variables p q : event -> bool.

(* an event of class p has a q before it *)
Definition guarded (evs : list event) : Prop :=
  forall l1 e l3, evs = l1 ++ e :: l3 -> p e = true -> exists x, In x l1 /\ q x = true.

Lemma separated_tail e evs : separated p q (e :: evs) -> separated p q evs.
Proof.
  intros H l1 e1 l2 e2 l3 E. apply (H (e :: l1) e1 l2 e2 l3). rewrite E. reflexivity.
Qed.

Lemma separated_cons_other e evs : p e = false -> separated p q evs -> separated p q (e :: evs).
Proof.
  intros Hp H l1 e1 l2 e2 l3 E P1 P2.
  destruct l1 as [|x l1]; cbn [app] in E; injection E as <- E.
  - congruence.
  - exact (H l1 e1 l2 e2 l3 E P1 P2).
Qed.

Lemma separated_cons_p e evs : guarded evs -> separated p q evs -> separated p q (e :: evs).
Proof.
  intros G H l1 e1 l2 e2 l3 E P1 P2.
  destruct l1 as [|x l1]; cbn [app] in E; injection E as <- E.
  - exact (G l2 e2 l3 E P2).
  - exact (H l1 e1 l2 e2 l3 E P1 P2).
Qed.

Lemma sep_b_sound : forall evs a,
  sep_b p q a evs = true -> separated p q evs /\ (a = true -> guarded evs).
Proof.
  induction evs as [|e evs IH]; intros a H.
  - split.
    + intros l1 e1 l2 e2 l3 E. destruct l1; discriminate E.
    + intros _ l1 e0 l3 E. destruct l1; discriminate E.
  - cbn [sep_b] in H. destruct (p e) eqn:Pe.
    + apply andb_true_iff in H. destruct H as [Ha H]. apply negb_true_iff in Ha. subst a.
      destruct (IH true H) as [S G]. split; [|discriminate].
      apply separated_cons_p; [exact (G eq_refl)|exact S].
    + destruct (q e) eqn:Qe.
      * destruct (IH false H) as [S _]. split; [exact (separated_cons_other e evs Pe S)|].
        intros _ l1 e0 l3 E P0.
        destruct l1 as [|x l1]; cbn [app] in E; injection E as <- E; [congruence|].
        exists e. split; [now left|exact Qe].
      * destruct (IH a H) as [S G]. split; [exact (separated_cons_other e evs Pe S)|].
        intros Ha l1 e0 l3 E P0.
        destruct l1 as [|x l1]; cbn [app] in E; injection E as <- E; [congruence|].
        destruct (G Ha l1 e0 l3 E P0) as (y & Iy & Qy). exists y. split; [now right|exact Qy].
Qed.

Lemma sep_b_complete : forall evs a,
  separated p q evs -> (a = true -> guarded evs) -> sep_b p q a evs = true.
Proof.
  induction evs as [|e evs IH]; intros a S G; [reflexivity|].
  cbn [sep_b]. destruct (p e) eqn:Pe.
  - apply andb_true_iff. split.
    + destruct a; [|reflexivity]. exfalso.
      destruct (G eq_refl [] e evs eq_refl Pe) as (x & [] & _).
    + apply IH; [exact (separated_tail e evs S)|].
      intros _ l1 e0 l3 E P0. apply (S [] e l1 e0 l3); [rewrite E; reflexivity|exact Pe|exact P0].
  - destruct (q e) eqn:Qe.
    + apply IH; [exact (separated_tail e evs S)|discriminate].
    + apply IH; [exact (separated_tail e evs S)|].
      intros Ha l1 e0 l3 E P0.
      destruct (G Ha (e :: l1) e0 l3 ltac:(rewrite E; reflexivity) P0) as (x & [<-|Ix] & Qx); [congruence|].
      exists x. split; assumption.
Qed.

Theorem separated_iff evs : separated p q evs <-> sep_b p q false evs = true.
Proof.
  split.
  - intro S. apply sep_b_complete; [exact S|discriminate].
  - intro H. exact (proj1 (sep_b_sound evs false H)).
Qed.

(* hence at most one more p than q *)
Lemma sep_b_count : forall evs a,
  sep_b p q a evs = true -> count_ev p evs + (if a then 1 else 0) <= count_ev q evs + 1.
Proof.
  induction evs as [|e evs IH]; intros a H.
  - cbn. destruct a; lia.
  - cbn [sep_b] in H. rewrite !count_ev_cons. destruct (p e) eqn:Pe.
    + apply andb_true_iff in H. destruct H as [Ha H]. apply negb_true_iff in Ha. subst a.
      specialize (IH true H). cbv iota in IH |- *. destruct (q e); lia.
    + destruct (q e) eqn:Qe.
      * specialize (IH false H). cbv iota in IH |- *. destruct a; lia.
      * specialize (IH a H). lia.
Qed.

Theorem separated_count evs : separated p q evs -> count_ev p evs <= count_ev q evs + 1.
Proof.
  intro S. apply separated_iff in S. pose proof (sep_b_count evs false S) as C. cbv iota in C. lia.
Qed.

End Sep.

(* ------------------------------------------------------------------------------------ *)
(* counting the two stuttering classes *)

Lemma count_stutter_split tr : count_ev is_stutter tr = count_ev is_update tr + count_ev is_quiesce tr.
Proof.
  induction tr as [|e tr IH]; [reflexivity|]. rewrite !count_ev_cons.
  destruct e; cbn [is_stutter is_update is_quiesce orb]; lia.
Qed.

Lemma count_non_update tr :
  count_ev (fun e => negb (is_update e)) tr =
  count_ev (fun e => negb (is_stutter e)) tr + count_ev is_quiesce tr.
Proof.
  induction tr as [|e tr IH]; [reflexivity|]. rewrite !count_ev_cons.
  destruct e; cbn [is_stutter is_update is_quiesce orb negb]; lia.
Qed.

Lemma length_stutter_split tr :
  length tr = count_ev is_stutter tr + count_ev (fun e => negb (is_stutter e)) tr.
Proof.
  induction tr as [|e tr IH]; [reflexivity|]. rewrite !count_ev_cons. cbn [length].
  destruct (is_stutter e); cbn [negb]; lia.
Qed.

(* ------------------------------------------------------------------------------------ *)

Section Fair.
Variable cf : config.
Variable decls : list (bytes * nat).
Hypothesis Hwf : graph_wf (cf_graph cf).
Notation g := (cf_graph cf).
Notation nb := (length (g_builds (cf_graph cf))).

Theorem fair_quiesce_bound r evs r' :
  reachable cf decls r -> accepts cf r evs = Some r' -> quiesce_fair evs ->
  count_ev is_quiesce evs <= unfinished g (rs_bs r) + 1.
Proof.
  intros Hr A Fq.
  pose proof (separated_count _ _ evs Fq).
  pose proof (proj1 (C06_bounded_finishes cf decls Hwf r evs r' Hr A)). lia.
Qed.

Theorem fair_run_bounded r evs r' :
  reachable cf decls r -> accepts cf r evs = Some r' -> quiesce_fair evs -> update_fair evs ->
  length evs <= 20 * unfinished g (rs_bs r) + 5 /\ unfinished g (rs_bs r) <= nb.
Proof.
  intros Hr A Fq Fu.
  pose proof (fair_quiesce_bound r evs r' Hr A Fq) as Q.
  pose proof (separated_count _ _ evs Fu) as U. rewrite count_non_update in U.
  destruct (C06_trace_length_partial cf decls Hwf r evs r' Hr A) as [N L].
  split; [|exact L].
  rewrite (length_stutter_split evs), count_stutter_split. lia.
Qed.

End Fair.

(* ------------------------------------------------------------------------------------ *)
(* the acceptor enforces neither premise ... *)

Lemma repeat_two_not_separated p q e : p e = true -> ~ separated p q (repeat e 2).
Proof.
  intros Pe S. destruct (S [] e [] e [] eq_refl Pe Pe) as (x & [] & _).
Qed.

Theorem fairness_not_enforced :
  exists cf decls r c n,
    graph_wf (cf_graph cf) /\ reachable cf decls r /\
    accepts cf r (repeat (EQuiesce n) 2) = Some r /\ ~ quiesce_fair (repeat (EQuiesce n) 2) /\
    accepts cf r (repeat (EUpdate c) 2) = Some r /\ ~ update_fair (repeat (EUpdate c) 2).
Proof.
  destruct trace_length_refuted as (cf & decls & r & c & n & Hwf & Hr & Hk).
  exists cf, decls, r, c, n. destruct (Hk 2) as (A & B & _).
  split; [exact Hwf|]. split; [exact Hr|].
  split; [exact B|]. split; [apply repeat_two_not_separated; reflexivity|].
  split; [exact A|apply repeat_two_not_separated; reflexivity].
Qed.

(* ... and neither can be dropped: with one of them alone the length is still unbounded *)

Lemma repeat_separated_none p q e k : p e = false -> separated p q (repeat e k).
Proof.
  intro Pe. apply separated_iff. induction k as [|k IH]; [reflexivity|].
  cbn [repeat sep_b]. rewrite Pe. destruct (q e); [|exact IH].
  clear IH. induction k as [|k IH]; [reflexivity|]. cbn [repeat sep_b]. rewrite Pe.
  destruct (q e); exact IH.
Qed.

Theorem quiesce_fair_not_enough : ~ bounded_by_graph_if quiesce_fair (@length event).
Proof.
  intros [f H].
  destruct trace_length_refuted as (cf & decls & r & c & n & Hwf & Hr & Hk).
  destruct (Hk (S (f (cf_graph cf)))) as (A & _ & _).
  specialize (H cf decls r _ r Hwf Hr A (repeat_separated_none _ _ _ _ eq_refl)).
  rewrite repeat_length in H. lia.
Qed.

(* EUpdate and EQuiesce in turn *)
Fixpoint alternate (a b : event) (k : nat) : list event :=
  match k with O => [] | S k => a :: b :: alternate a b k end.

Lemma accepts_alternate cf r a b :
  accept1 cf r a = Some r -> accept1 cf r b = Some r -> forall k, accepts cf r (alternate a b k) = Some r.
Proof.
  intros Ha Hb k. induction k as [|k IH]; cbn [alternate accepts]; [reflexivity|].
  rewrite Ha, Hb. exact IH.
Qed.

Lemma alternate_length a b k : length (alternate a b k) = 2 * k.
Proof. induction k as [|k IH]; cbn [alternate length]; lia. Qed.

Lemma alternate_update_fair c n k : update_fair (alternate (EUpdate c) (EQuiesce n) k).
Proof.
  apply separated_iff. induction k as [|k IH]; [reflexivity|]. exact IH.
Qed.

Lemma accept1_of_repeat cf r e : accepts cf r (repeat e 1) = Some r -> accept1 cf r e = Some r.
Proof.
  cbn [repeat accepts]. destruct (accept1 cf r e) as [r1|]; [|discriminate]. exact (fun H => H).
Qed.

Theorem update_fair_not_enough : ~ bounded_by_graph_if update_fair (@length event).
Proof.
  intros [f H].
  destruct trace_length_refuted as (cf & decls & r & c & n & Hwf & Hr & Hk).
  destruct (Hk 1) as (A & B & _).
  pose proof (accepts_alternate cf r _ _ (accept1_of_repeat cf r _ A) (accept1_of_repeat cf r _ B)
                (S (f (cf_graph cf)))) as C.
  specialize (H cf decls r _ r Hwf Hr C (alternate_update_fair c n _)).
  rewrite alternate_length in H. lia.
Qed.

(* ------------------------------------------------------------------------------------ *)
(* the premise on EQuiesce is the weakest of its kind: on an accepted trace, asking for ANY move
   between two EQuiesce events already forces an EFinish between them *)

Lemma separated_weaken p (q q' : event -> bool) evs :
  (forall e, q e = true -> q' e = true) -> separated p q evs -> separated p q' evs.
Proof.
  intros Hq S l1 e1 l2 e2 l3 E P1 P2. destruct (S l1 e1 l2 e2 l3 E P1 P2) as (x & Ix & Qx).
  exists x. split; [exact Ix|exact (Hq x Qx)].
Qed.

Lemma stutters_stay cf : forall l r r',
  Forall (fun e => is_stutter e = true) l -> accepts cf r l = Some r' -> r' = r.
Proof.
  induction l as [|e l IH]; intros r r' F A; cbn [accepts] in A; [now injection A|].
  destruct (accept1 cf r e) as [r1|] eqn:E1; [|discriminate].
  rewrite (C06_stutter_is_identity cf r e r1 E1 (Forall_inv F)) in A.
  exact (IH r r' (Forall_inv_tail F) A).
Qed.

Lemma first_nonstutter : forall l x,
  In x l -> is_stutter x = false ->
  exists l1 y l2, l = l1 ++ y :: l2 /\ Forall (fun e => is_stutter e = true) l1 /\ is_stutter y = false.
Proof.
  induction l as [|e l IH]; intros x Ix Nx; [destruct Ix|].
  destruct (is_stutter e) eqn:Se.
  - destruct Ix as [->|Ix]; [congruence|].
    destruct (IH x Ix Nx) as (l1 & y & l2 & -> & F & Ny).
    exists (e :: l1), y, l2. split; [reflexivity|]. split; [constructor; assumption|exact Ny].
  - exists [], e, l. split; [reflexivity|]. split; [constructor|exact Se].
Qed.

Lemma accept1_return_ctl cf r ok r' : accept1 cf r (EReturn ok) = Some r' -> rs_ctl r' = CReturned ok.
Proof. intro H. apply accept1_step in H. inversion H; subst; reflexivity. Qed.

Section Minimal.
Variable cf : config.
Variable decls : list (bytes * nat).
Hypothesis Hwf : graph_wf (cf_graph cf).

Theorem quiesce_fair_minimal r evs r' :
  reachable cf decls r -> accepts cf r evs = Some r' ->
  (quiesce_fair evs <-> separated is_quiesce (fun e => negb (is_stutter e)) evs).
Proof.
  intros Hr A. split.
  - apply separated_weaken. intros e He. destruct e; try discriminate He. reflexivity.
  - intros W l1 e1 l2 e2 l3 E P1 P2.
    destruct (W l1 e1 l2 e2 l3 E P1 P2) as (x & Ix & Nx). apply negb_true_iff in Nx.
    destruct (first_nonstutter l2 x Ix Nx) as (m1 & y & m2 & -> & Fs & Ny).
    subst evs. rewrite accepts_app in A.
    destruct (accepts cf r l1) as [ra|] eqn:A1; [|discriminate]. cbn [accepts] in A.
    destruct (accept1 cf ra e1) as [rb|] eqn:A2; [|discriminate].
    rewrite <- app_assoc, accepts_app in A.
    destruct (accepts cf rb m1) as [rc|] eqn:A3; [|discriminate].
    pose proof (stutters_stay cf m1 rb rc Fs A3) as ->.
    cbn [app accepts] in A.
    destruct (accept1 cf rb y) as [rd|] eqn:A4; [|discriminate].
    rewrite accepts_app in A.
    destruct (accepts cf rd m2) as [re|] eqn:A5; [|discriminate]. cbn [accepts] in A.
    destruct (accept1 cf re e2) as [rf|] eqn:A6; [|discriminate].
    destruct e1 as [| | | | |n| | |]; try discriminate P1.
    pose proof (reach_accepts cf decls l1 r ra Hr A1) as Hra.
    destruct (C06_after_quiesce cf decls Hwf ra n rb y rd Hra A2 A4)
      as [[c ->]|[[m ->]|[(b & t & ->)|(-> & _)]]]; try discriminate Ny.
    + exists (EFinish b t). split; [apply in_or_app; right; now left|reflexivity].
    + (* after the return nothing is accepted: e2 could not follow *)
      exfalso. pose proof (accept1_return_ctl cf rb _ rd A4) as Hc.
      destruct m2 as [|z m2]; cbn [accepts] in A5.
      * injection A5 as <-. rewrite (C05_returned_is_final cf rd _ e2 Hc) in A6. discriminate A6.
      * rewrite (C05_returned_is_final cf rd _ z Hc) in A5. discriminate A5.
Qed.

End Minimal.

(* and it has to cover the EQuiesce events with no command running too: after the failing run
   of the double-visit graph (step 0 Failed, step 2 waiting for it) EQuiesce 0 is accepted any
   number of times *)
Definition dv_failed : rstate :=
  match accepts dv_cf dv_r0 dv_fail_run with Some r => r | None => dv_r0 end.

Theorem quiesce_nothing_running :
  exists cf decls r,
    graph_wf (cf_graph cf) /\ reachable cf decls r /\ rs_ctl r = CIdle /\ rs_running r = 0 /\
    forall k, accepts cf r (repeat (EQuiesce 0) k) = Some r.
Proof.
  exists dv_cf, [], dv_failed.
  split; [exact dv_graph_wf|].
  split; [apply (reach_accepts dv_cf [] dv_fail_run dv_r0); [exact dv_reachable|vm_compute; reflexivity]|].
  split; [reflexivity|]. split; [reflexivity|].
  apply accepts_repeat. vm_compute. reflexivity.
Qed.
