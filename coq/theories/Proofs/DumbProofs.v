(* Proofs about Model/Dumb.v (the plain console). *)
From Coq Require Import String.
From Coq Require Import List NArith Arith Lia Bool.
From N2 Require Import Base.Base Model.Scanner Model.Render Model.Fancy Model.Dumb.
From N2 Require Import Proofs.FancyFrame.
Import ListNotations.

(* the outputs that have to be shown: non-empty, and not those of successful commands of a
   step with hide_success *)
Definition shown (o : dop) : list bytes :=
  match o with
  | DFinish _ _ _ h t out => if is_empty out || ((t =? 0)%N && h) then [] else [out]
  | DStart _ _ _ => []
  end.

Definition blocks (segs : list seg) : list bytes :=
  concat (map (fun s => match s with SBlock b => [b] | SLine _ => [] end) segs).

Definition has_cmd (o : dop) : Prop :=
  match o with DStart _ _ c => c <> None | DFinish _ _ c _ _ _ => c <> None end.

Lemma blocks_app a b : blocks (a ++ b) = blocks a ++ blocks b.
Proof. unfold blocks. now rewrite map_app, concat_app. Qed.

Ltac give_head :=
  match goal with
  | |- exists head, ?a ++ ?b = head ++ _ /\ _ => exists a; split; [reflexivity|]
  | |- exists head, [?x] = head ++ _ /\ _ => exists [x]; split; [reflexivity|]
  end.

Lemma d_step_spec st o :
  has_cmd o ->
  exists segs st', d_step st o = Ok (segs, st') /\ blocks segs = shown o /\
    (* at most one line of n2's own, and it comes first *)
    (exists head, segs = head ++ map SBlock (shown o) /\ (head = [] \/ exists l, head = [SLine l])) /\
    ds_verbose st' = ds_verbose st.
Proof.
  intros Hc. destruct o as [id d c|id d c h t out]; cbn [d_step has_cmd] in *.
  - unfold d_task_started.
    destruct (build_message_some d c Hc) as [m Em].
    destruct c as [c|]; [|contradiction].
    destruct (ds_verbose st) eqn:V; [|rewrite Em]; cbn [bind]; do 2 eexists; (split; [reflexivity|]);
      (split; [reflexivity|]); (split; [|reflexivity]); give_head; right; eexists; reflexivity.
  - unfold d_task_finished. destruct (build_message_some d c Hc) as [m Em]. rewrite Em. cbn [bind].
    destruct (t =? 0)%N eqn:T0; [|destruct (t =? 1)%N eqn:T1].
    + destruct (is_empty out || opt_N_eqb (ds_last st) id) eqn:Q; cbn [bind andb shown];
        rewrite T0; cbn [andb]; do 2 eexists; (split; [reflexivity|]);
        destruct (is_empty out || h); (split; [reflexivity|]); (split; [|reflexivity]);
        give_head; eauto.
    + cbn [bind andb shown]. rewrite T0. cbn [andb]. rewrite orb_false_r.
      do 2 eexists. split; [reflexivity|].
      destruct (is_empty out); (split; [reflexivity|]); (split; [|reflexivity]);
        give_head; right; eexists; reflexivity.
    + cbn [bind andb shown]. rewrite T0. cbn [andb]. rewrite orb_false_r.
      do 2 eexists. split; [reflexivity|].
      destruct (is_empty out); (split; [reflexivity|]); (split; [|reflexivity]);
        give_head; right; eexists; reflexivity.
Qed.

(* for every sequence of starts and completions (of steps that have a command): nothing panics,
   and the output blocks printed are exactly the outputs to be shown, each once, whole, in
   completion order *)
Theorem d_run_blocks : forall ops st,
  Forall has_cmd ops ->
  exists segs st', d_run st ops = Ok (segs, st') /\ blocks segs = concat (map shown ops).
Proof.
  induction ops as [|o r IH]; intros st H.
  - do 2 eexists. split; reflexivity.
  - inversion H as [|? ? Ho Hr]; subst.
    destruct (d_step_spec st o Ho) as (s1 & st1 & E1 & B1 & _ & _).
    destruct (IH st1 Hr) as (s2 & st2 & E2 & B2).
    cbn [d_run]. rewrite E1. cbn [bind snd fst]. rewrite E2. cbn [bind fst snd].
    do 2 eexists. split; [reflexivity|]. rewrite blocks_app, B1, B2. reflexivity.
Qed.

(* what one completion prints: an optional line of n2's own, then the output verbatim and
   contiguous, nothing after it *)
Theorem d_finished_shape st id d c h t out :
  c <> None ->
  exists head, d_task_finished st id d c h t out = Ok (head ++ map SBlock (shown (DFinish id d c h t out)), st) /\
               (head = [] \/ exists l, head = [SLine l]).
Proof.
  intros Hc. destruct (d_step_spec st (DFinish id d c h t out) Hc) as (segs & st' & E & _ & (head & Es & Hh) & _).
  cbn [d_step] in E. exists head. split; [|exact Hh]. rewrite E. f_equal. f_equal; [exact Es|].
  unfold d_task_finished in E. destruct (build_message_some d c Hc) as [m Em].
  revert E. destruct (t =? 0)%N; [destruct (is_empty out || opt_N_eqb (ds_last st) id)|destruct (t =? 1)%N];
    try rewrite Em; cbn [bind]; intro E; inversion E; reflexivity.
Qed.

(* the printed bytes of a completion whose output is shown end with that output *)
Corollary d_finished_bytes st id d c h t out :
  c <> None -> is_empty out || ((t =? 0)%N && h) = false ->
  exists head st', d_task_finished st id d c h t out = Ok (head ++ [SBlock out], st') /\
                   printed (head ++ [SBlock out]) = printed head ++ out.
Proof.
  intros Hc Hs. destruct (d_finished_shape st id d c h t out Hc) as (head & E & _).
  cbn [shown] in E. rewrite Hs in E. cbn [map] in E. exists head, st. split; [exact E|].
  unfold printed. rewrite map_app, concat_app. cbn [map concat seg_bytes]. now rewrite app_nil_r.
Qed.

(* a successful command that was the last one announced is not announced again; any other
   command with output is *)
Example d_examples :
  let a := DStart 1 (Some (bs "CC a")) (Some (bs "cc a")) in
  let b := DStart 2 None (Some (bs "cc b")) in
  d_run0 false [a; DFinish 1 (Some (bs "CC a")) (Some (bs "cc a")) false 0 (bs "warn")] =
    Ok ([SLine (bs "CC a"); SBlock (bs "warn")], mkDState false (Some 1%N)) /\
  d_run0 false [a; b; DFinish 1 (Some (bs "CC a")) (Some (bs "cc a")) false 0 (bs "warn"); DFinish 2 None (Some (bs "cc b")) false 2 (bs "boom")] =
    Ok ([SLine (bs "CC a"); SLine (bs "cc b"); SLine (bs "CC a"); SBlock (bs "warn"); SLine (bs "failed: cc b"); SBlock (bs "boom")],
        mkDState false (Some 2%N)) /\
  d_run0 true [a; DFinish 1 (Some (bs "CC a")) (Some (bs "cc a")) true 0 (bs "hidden"); DFinish 1 (Some (bs "CC a")) (Some (bs "cc a")) true 1 (bs "shown")] =
    Ok ([SLine (bs "cc a"); SLine (bs "interrupted: CC a"); SBlock (bs "shown")], mkDState true (Some 1%N)) /\
  d_run0 false [DStart 1 None None] = Panic 32%N.
Proof. cbv zeta. repeat split. Qed.
