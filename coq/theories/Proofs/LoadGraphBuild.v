(* C10, loader half, L2 for ONE statement: what a successful Loader::add_build leaves in the graph.
   Vocabulary ([NamesExt], [names_at], [build_ok]) and the single-step lemma [add_build_spec]. *)
From Coq Require Import String.
From N2 Require Import Model.All Proofs.EvalScope Proofs.GraphDedup Proofs.GraphAddBuild Proofs.GraphLoad.

(* ------------------------------------------------------------------------------------ *)
(* file names are stable: a file id keeps its name, new ids are appended *)

Definition NamesExt (l l' : loader) : Prop :=
  exists ext, map lf_name (l_files l') = map lf_name (l_files l) ++ ext.

Lemma NamesExt_refl l : NamesExt l l.
Proof. exists []. rewrite app_nil_r. reflexivity. Qed.

Lemma NamesExt_trans l1 l2 l3 : NamesExt l1 l2 -> NamesExt l2 l3 -> NamesExt l1 l3.
Proof. intros [e1 H1] [e2 H2]. exists (e1 ++ e2). rewrite H2, H1, app_assoc. reflexivity. Qed.

Lemma NamesExt_same l l' : l_files l' = l_files l -> NamesExt l l'.
Proof. intro H. exists []. rewrite H, app_nil_r. reflexivity. Qed.

Lemma NamesExt_names l l' : map lf_name (l_files l') = map lf_name (l_files l) -> NamesExt l l'.
Proof. intro H. exists []. rewrite H, app_nil_r. reflexivity. Qed.

Lemma Ext_NamesExt l l' : Ext l l' -> NamesExt l l'.
Proof. intros [[e [F _]] _ _]. exists (map lf_name e). rewrite F, map_app. reflexivity. Qed.

Lemma NamesExt_length l l' : NamesExt l l' -> length (l_files l) <= length (l_files l').
Proof.
  intros [e H]. rewrite <- (map_length lf_name (l_files l')), H, app_length, map_length. lia.
Qed.

Lemma file_nm_map l j :
  file_nm l j = match nth_error (map lf_name (l_files l)) j with Some n => n | None => [] end.
Proof. unfold file_nm. rewrite nth_error_map. destruct (nth_error (l_files l) j); reflexivity. Qed.

Lemma NamesExt_file_nm l l' j : NamesExt l l' -> j < length (l_files l) -> file_nm l' j = file_nm l j.
Proof.
  intros [e H] L. rewrite !file_nm_map, H. rewrite nth_error_app1; [reflexivity|].
  rewrite map_length. exact L.
Qed.

(* ------------------------------------------------------------------------------------ *)
(* vocabulary of the per-step characterisation *)

(* the path [p], expanded in [envs] and canonicalised, is the name of file [id] *)
Definition names_at (l : loader) (envs : list env) (p : evalstring) (id : nat) : Prop :=
  canon (evaluate envs p) = Ok (file_nm l id).

Definition ids_in (l : loader) (ids : list nat) : Prop := Forall (fun id => id < length (l_files l)) ids.

Definition is_some {A} (o : option A) : bool := match o with Some _ => true | None => false end.

(* the step [b] is what the statement `build` [pb], read with file-level variables [vs] while the
   rules [rules] were declared, puts in the graph; names are those of loader [l].
   [outs] are the ids of ALL declared outputs in declared order (a file declared twice is listed
   twice); the step keeps the first occurrence of each *)
Definition build_ok (l : loader) (filename : bytes) (pb : pbuild) (vs : vars)
           (rules : list (bytes * varlist)) (b : lbuild) : Prop :=
  lb_file b = filename /\ lb_line b = pb_line pb /\
  lb_explicit_ins b = pb_explicit_ins pb /\ lb_implicit_ins b = pb_implicit_ins pb /\
  lb_order_only_ins b = pb_order_only_ins pb /\
  Forall2 (names_at l [pb_vars pb; vars_env vs]) (pb_ins pb) (lb_ins b) /\ ids_in l (lb_ins b) /\
  exists outs rule,
    Forall2 (names_at l [pb_vars pb; vars_env vs]) (pb_outs pb) outs /\ ids_in l outs /\
    lb_outs b = dedup outs /\
    lb_explicit_outs b = length (dedup (firstn (pb_explicit_outs pb) outs)) /\
    assoc_b (pb_rule pb) rules = Some rule /\
    let look := attr_lookup (pb_vars pb) rule (implicit_env l pb (lb_ins b) outs) (vars_env vs) in
    lb_cmdline b = look (bs "command") /\
    lb_desc b = look (bs "description") /\
    lb_depfile b = look (bs "depfile") /\
    lb_pool b = look (bs "pool") /\
    lb_rspfile b = match look (bs "rspfile"), look (bs "rspfile_content") with
                   | Some p, Some c => Some (p, c)
                   | _, _ => None
                   end /\
    lb_showincludes b = match look (bs "deps") with
                        | Some d => bytes_eqb d (bs "msvc")
                        | None => false
                        end /\
    lb_hide_success b = is_some (look (bs "hide_success")) /\
    lb_hide_progress b = is_some (look (bs "hide_progress")).

Lemma build_ok_meaning : forall l filename pb vs rules b,
  build_ok l filename pb vs rules b <->
  (lb_file b = filename /\ lb_line b = pb_line pb /\
   lb_explicit_ins b = pb_explicit_ins pb /\ lb_implicit_ins b = pb_implicit_ins pb /\
   lb_order_only_ins b = pb_order_only_ins pb /\
   Forall2 (fun p id => canon (evaluate [pb_vars pb; vars_env vs] p) = Ok (file_nm l id)) (pb_ins pb) (lb_ins b) /\
   Forall (fun id => id < length (l_files l)) (lb_ins b) /\
   exists outs rule,
     Forall2 (fun p id => canon (evaluate [pb_vars pb; vars_env vs] p) = Ok (file_nm l id)) (pb_outs pb) outs /\
     Forall (fun id => id < length (l_files l)) outs /\
     lb_outs b = dedup outs /\
     lb_explicit_outs b = length (dedup (firstn (pb_explicit_outs pb) outs)) /\
     assoc_b (pb_rule pb) rules = Some rule /\
     lb_cmdline b = attr_lookup (pb_vars pb) rule (implicit_env l pb (lb_ins b) outs) (vars_env vs) (bs "command") /\
     lb_desc b = attr_lookup (pb_vars pb) rule (implicit_env l pb (lb_ins b) outs) (vars_env vs) (bs "description") /\
     lb_depfile b = attr_lookup (pb_vars pb) rule (implicit_env l pb (lb_ins b) outs) (vars_env vs) (bs "depfile") /\
     lb_pool b = attr_lookup (pb_vars pb) rule (implicit_env l pb (lb_ins b) outs) (vars_env vs) (bs "pool") /\
     lb_rspfile b =
       match attr_lookup (pb_vars pb) rule (implicit_env l pb (lb_ins b) outs) (vars_env vs) (bs "rspfile"),
             attr_lookup (pb_vars pb) rule (implicit_env l pb (lb_ins b) outs) (vars_env vs) (bs "rspfile_content") with
       | Some p, Some c => Some (p, c)
       | _, _ => None
       end /\
     lb_showincludes b =
       match attr_lookup (pb_vars pb) rule (implicit_env l pb (lb_ins b) outs) (vars_env vs) (bs "deps") with
       | Some d => bytes_eqb d (bs "msvc")
       | None => false
       end /\
     lb_hide_success b =
       is_some (attr_lookup (pb_vars pb) rule (implicit_env l pb (lb_ins b) outs) (vars_env vs) (bs "hide_success")) /\
     lb_hide_progress b =
       is_some (attr_lookup (pb_vars pb) rule (implicit_env l pb (lb_ins b) outs) (vars_env vs) (bs "hide_progress"))).
Proof. intros. reflexivity. Qed.

(* ------------------------------------------------------------------------------------ *)
(* stability along NamesExt *)

Lemma names_at_mono l l' envs ps ids :
  NamesExt l l' -> ids_in l ids -> Forall2 (names_at l envs) ps ids -> Forall2 (names_at l' envs) ps ids.
Proof.
  intros X R H. induction H as [|p id ps ids H1 H IH]; [constructor|].
  inversion R as [|? ? R1 R2]; subst. constructor; [|apply IH; exact R2].
  unfold names_at in *. rewrite (NamesExt_file_nm _ _ _ X R1). exact H1.
Qed.

Lemma ids_in_mono l l' ids : NamesExt l l' -> ids_in l ids -> ids_in l' ids.
Proof.
  intros X R. pose proof (NamesExt_length _ _ X) as L. unfold ids_in in *.
  rewrite Forall_forall in *. intros id I. specialize (R id I). lia.
Qed.

Lemma ids_in_firstn l n ids : ids_in l ids -> ids_in l (firstn n ids).
Proof.
  unfold ids_in. intro H. revert n. induction H as [|i r H1 H IH]; intro n.
  - rewrite firstn_nil. constructor.
  - destruct n as [|n]; cbn [firstn]; [constructor|]. constructor; [exact H1 | apply IH].
Qed.

Lemma join_names_mono l l' ids sep : NamesExt l l' -> ids_in l ids -> join_names l' ids sep = join_names l ids sep.
Proof.
  intros X R. induction ids as [|i r IH]; [reflexivity|].
  inversion R as [|? ? R1 R2]; subst. cbn [join_names]. rewrite (NamesExt_file_nm _ _ _ X R1).
  destruct r as [|i2 r2]; [reflexivity|]. rewrite (IH R2). reflexivity.
Qed.

Lemma implicit_env_mono l l' pb ins outs :
  NamesExt l l' -> ids_in l ins -> ids_in l outs -> implicit_env l' pb ins outs = implicit_env l pb ins outs.
Proof.
  intros X Ri Ro. unfold implicit_env.
  rewrite !(join_names_mono l l' _ _ X) by (apply ids_in_firstn; assumption). reflexivity.
Qed.

Lemma build_ok_mono l l' filename pb vs rules b :
  NamesExt l l' -> build_ok l filename pb vs rules b -> build_ok l' filename pb vs rules b.
Proof.
  intros X (A1 & A2 & A3 & A4 & A5 & A6 & A7 & outs & rule & B1 & B2 & B3 & B4 & B5 & B6).
  unfold build_ok. repeat (split; [assumption|]).
  split; [eapply names_at_mono; eassumption|]. split; [eapply ids_in_mono; eassumption|].
  exists outs, rule. split; [eapply names_at_mono; eassumption|]. split; [eapply ids_in_mono; eassumption|].
  repeat (split; [assumption|]).
  rewrite (implicit_env_mono l l' pb _ _ X A7 B2). exact B6.
Qed.

(* ------------------------------------------------------------------------------------ *)
(* Loader::add_build, every field *)

Lemma showinc_spec (o : option bytes) (m : bytes -> bytes) r :
  match o with
  | None => Ok false
  | Some d => if bytes_eqb d (bs "gcc") then Ok false
              else if bytes_eqb d (bs "msvc") then Ok true
              else Err (m d)
  end = Ok r ->
  r = match o with Some d => bytes_eqb d (bs "msvc") | None => false end.
Proof.
  destruct o as [d|]; [|intro H; inversion H; reflexivity].
  destruct (bytes_eqb d (bs "gcc")) eqn:G.
  - apply bytes_eqb_spec in G. subst d. intro H. inversion H. reflexivity.
  - destruct (bytes_eqb d (bs "msvc")); intro H; [inversion H; reflexivity | discriminate].
Qed.

Lemma rsp_spec (p c : option bytes) (m : bytes) r :
  match p, c with
  | None, None => Ok None
  | Some p, Some c => Ok (Some (p, c))
  | _, _ => Err m
  end = Ok r ->
  r = match p, c with Some p, Some c => Some (p, c) | _, _ => None end.
Proof. destruct p, c; intro H; inversion H; reflexivity. Qed.

(* interning paths touches nothing but the file table *)
Lemma evaluate_paths_other envs : forall ps la lb ids, evaluate_paths la ps envs = Ok (lb, ids) ->
  l_pools lb = l_pools la /\ l_defaults lb = l_defaults la /\ l_builddir lb = l_builddir la.
Proof.
  induction ps as [|p r IH]; intros la lb ids H0; cbn [evaluate_paths] in H0.
  - inversion H0; subst. repeat split.
  - apply bind_ok in H0 as [[la1 id] [Ea H0]]. apply bind_ok in H0 as [[la2 ids'] [Eb H0]].
    inversion H0; subst. destruct (IH _ _ _ Eb) as (Q1 & Q2 & Q3). rewrite Q1, Q2, Q3.
    unfold evaluate_path in Ea.
    assert (Ea' : load_path la (evaluate envs p) = Ok (la1, id))
      by (destruct (evaluate envs p); [discriminate | exact Ea]).
    unfold load_path in Ea'. apply bind_ok in Ea' as [c [_ Ea']]. inversion Ea' as [Ec].
    unfold id_from_canonical in Ec. destruct (find_file (l_files la) c 0); inversion Ec; subst;
      repeat split.
Qed.

Theorem add_build_spec l filename vs pb l' :
  LInv l -> pb_explicit_outs pb <= length (pb_outs pb) ->
  loader_add_build true l filename vs pb = Ok l' ->
  LInv l' /\ NamesExt l l' /\
  l_rules l' = l_rules l /\ l_pools l' = l_pools l /\ l_defaults l' = l_defaults l /\
  l_builddir l' = l_builddir l /\
  exists b, l_builds l' = l_builds l ++ [b] /\ build_ok l' filename pb vs (l_rules l) b.
Proof.
  intros I EL H.
  pose proof (loader_add_build_LInv _ _ _ _ _ I EL H) as I'.
  unfold loader_add_build in H.
  apply bind_ok in H as [[l1 ins] [E1 H]].
  apply bind_ok in H as [[l2 outs] [E2 H]].
  destruct (assoc_b (pb_rule pb) (l_rules l2)) as [rule|] eqn:ER; [|discriminate].
  apply bind_ok in H as [showinc [ES H]]. apply showinc_spec in ES.
  apply bind_ok in H as [rsp [EP H]]. apply rsp_spec in EP.
  destruct (evaluate_paths_spec _ _ _ _ _ E1) as [X1 [R1 C1]].
  destruct (evaluate_paths_spec _ _ _ _ _ E2) as [X2 [R2 C2]].
  assert (I2 : LInv l2) by (eapply Ext_LInv; [exact X2|]; eapply Ext_LInv; [exact X1 | exact I]).
  match type of H with graph_add_build true l2 ?b0 = _ => set (b := b0) in * end.
  assert (ELb : lb_explicit_outs b <= length (lb_outs b)).
  { cbn [b lb_explicit_outs lb_outs]. rewrite <- (Forall2_length_eq _ _ _ C2). exact EL. }
  destruct (gab_ok l2 b l' (LInv_NoDangling l2 I2) ELb H) as (NM & _ & _ & BS & _ & DF & RL & PL & BD).
  assert (N2 : NamesExt l2 l') by (apply NamesExt_names; exact NM).
  assert (N02 : NamesExt l l2).
  { eapply NamesExt_trans; apply Ext_NamesExt; eassumption. }
  split; [exact I'|]. split; [eapply NamesExt_trans; eassumption|].
  rewrite RL, PL, DF, BD, BS.
  rewrite (Ext_rules _ _ X2), (Ext_rules _ _ X1) in *.
  rewrite (Ext_builds _ _ X2), (Ext_builds _ _ X1).
  assert (D1 : l_pools l2 = l_pools l /\ l_defaults l2 = l_defaults l /\ l_builddir l2 = l_builddir l).
  { destruct (evaluate_paths_other _ _ _ _ _ E1) as (Q1 & Q2 & Q3).
    destruct (evaluate_paths_other _ _ _ _ _ E2) as (Q4 & Q5 & Q6). repeat split; congruence. }
  destruct D1 as (Q1 & Q2 & Q3). rewrite Q1, Q2, Q3.
  repeat (split; [reflexivity|]).
  exists (new_build b). split; [reflexivity|].
  apply (build_ok_mono l2 l' _ _ _ _ _ N2).
  assert (Ri : ids_in l2 ins) by (eapply ids_in_mono; [apply Ext_NamesExt; exact X2 | exact R1]).
  unfold build_ok. cbn [new_build set_outs b lb_file lb_line lb_explicit_ins lb_implicit_ins lb_order_only_ins
                        lb_ins lb_outs lb_explicit_outs lb_cmdline lb_desc lb_depfile lb_pool lb_rspfile
                        lb_showincludes lb_hide_success lb_hide_progress].
  repeat (split; [reflexivity|]).
  split.
  { eapply names_at_mono; [apply Ext_NamesExt; exact X2 | exact R1 | exact C1]. }
  split; [exact Ri|].
  exists outs, rule. split; [exact C2|]. split; [exact R2|].
  split; [reflexivity|]. split; [reflexivity|]. split; [exact ER|].
  cbv zeta. repeat (split; [reflexivity|]).
  split; [exact EP|]. split; [exact ES|]. split; reflexivity.
Qed.
