(* C10, loader half, L4 (1): the characterisation of the loaded graph only depends on the
   statements up to eval-string normalisation ([norm_stmt], ParseSpell.v) - so it can be stated
   for the DECLARED statements although the parser keeps literal pieces as it read them. *)
From Coq Require Import String.
From N2 Require Import Model.All Proofs.EvalScope Proofs.GraphDedup Proofs.GraphAddBuild Proofs.GraphLoad.
From N2 Require Import Proofs.ParseSpell Proofs.ParseRound1.
From N2 Require Import Proofs.LoadGraphSpec Proofs.LoadGraphBuild Proofs.LoadGraphRun.

(* ------------------------------------------------------------------------------------ *)
(* evaluation does not see how the bindings of an environment are split into pieces *)

Lemma assoc_norm_vars k (e : varlist) : assoc_b k (norm_vars e) = option_map norm_eval (assoc_b k e).
Proof.
  induction e as [|[k' v] r IH]; [reflexivity|].
  cbn [norm_vars map assoc_b fst snd]. destruct (bytes_eqb k' k); [reflexivity | exact IH].
Qed.

Lemma eval_var_evaluate e rest v es :
  assoc_b v e = Some es -> eval_var (e :: rest) v = evaluate rest es.
Proof. apply eval_first_env_wins. Qed.

Lemma eval_var_norm_envs : forall envs v, eval_var (map norm_vars envs) v = eval_var envs v.
Proof.
  induction envs as [|e rest IH]; intro v; [reflexivity|].
  cbn [map]. destruct (assoc_b v e) as [es|] eqn:A.
  - transitivity (evaluate (map norm_vars rest) (norm_eval es)).
    { apply eval_first_env_wins. rewrite assoc_norm_vars, A. reflexivity. }
    transitivity (evaluate rest es).
    { rewrite evaluate_norm. apply evaluate_ext. intros y _. apply IH. }
    symmetry. apply eval_first_env_wins. exact A.
  - transitivity (eval_var (map norm_vars rest) v).
    { apply eval_skip_env. rewrite assoc_norm_vars, A. reflexivity. }
    rewrite IH. symmetry. apply eval_skip_env. exact A.
Qed.

Lemma evaluate_norm_envs envs es : evaluate (map norm_vars envs) es = evaluate envs es.
Proof. apply evaluate_ext. intros y _. apply eval_var_norm_envs. Qed.

Lemma evaluate_norm_eq envs envs' es es' :
  map norm_vars envs' = map norm_vars envs -> norm_eval es' = norm_eval es ->
  evaluate envs' es' = evaluate envs es.
Proof.
  intros He Hs. rewrite <- (evaluate_norm_envs envs'), He, evaluate_norm_envs.
  rewrite <- (evaluate_norm envs es'), Hs. apply evaluate_norm.
Qed.

Lemma assoc_norm_eq k (e e' : varlist) :
  norm_vars e' = norm_vars e ->
  match assoc_b k e', assoc_b k e with
  | Some v', Some v => norm_eval v' = norm_eval v
  | None, None => True
  | _, _ => False
  end.
Proof.
  intro H. pose proof (assoc_norm_vars k e') as A'. rewrite H, assoc_norm_vars in A'.
  destruct (assoc_b k e'), (assoc_b k e); cbn [option_map] in A'; try discriminate; [|exact I].
  inversion A'. reflexivity.
Qed.

Lemma attr_lookup_norm bvars bvars' rule rule' implicit fenv key :
  norm_vars bvars' = norm_vars bvars -> norm_vars rule' = norm_vars rule ->
  attr_lookup bvars' rule' implicit fenv key = attr_lookup bvars rule implicit fenv key.
Proof.
  intros Hb Hr. unfold attr_lookup.
  pose proof (assoc_norm_eq key _ _ Hb) as A. pose proof (assoc_norm_eq key _ _ Hr) as B.
  destruct (assoc_b key bvars') as [v'|], (assoc_b key bvars) as [v|]; try contradiction.
  - f_equal. apply evaluate_norm_eq; [reflexivity | exact A].
  - destruct (assoc_b key rule') as [w'|], (assoc_b key rule) as [w|]; try contradiction; [|reflexivity].
    f_equal. apply evaluate_norm_eq; [|exact B]. cbn [map]. rewrite Hb. reflexivity.
Qed.

(* ------------------------------------------------------------------------------------ *)
(* rule tables up to normalisation *)

Definition norm_rules (rules : list (bytes * varlist)) : list (bytes * varlist) :=
  map (fun kv => (fst kv, norm_vars (snd kv))) rules.

Lemma assoc_norm_rules k rules : assoc_b k (norm_rules rules) = option_map norm_vars (assoc_b k rules).
Proof.
  induction rules as [|[k' v] r IH]; [reflexivity|].
  cbn [norm_rules map assoc_b fst snd]. destruct (bytes_eqb k' k); [reflexivity | exact IH].
Qed.

Lemma norm_rules_insert n rv rules :
  norm_rules (insert_b n rv rules) = insert_b n (norm_vars rv) (norm_rules rules).
Proof.
  induction rules as [|[k' v] r IH]; [reflexivity|].
  cbn [insert_b norm_rules map fst snd]. destruct (bytes_eqb k' n); cbn [map fst snd]; [reflexivity|].
  f_equal. exact IH.
Qed.

Lemma assoc_rules_norm k rules rules' rule' :
  norm_rules rules' = norm_rules rules -> assoc_b k rules' = Some rule' ->
  exists rule, assoc_b k rules = Some rule /\ norm_vars rule' = norm_vars rule.
Proof.
  intros H A. pose proof (assoc_norm_rules k rules') as A'. rewrite H, assoc_norm_rules, A in A'.
  destruct (assoc_b k rules) as [rule|]; cbn [option_map] in A'; [|discriminate].
  exists rule. split; [reflexivity|]. inversion A'. reflexivity.
Qed.

(* ------------------------------------------------------------------------------------ *)
(* build_ok / default_ok up to normalisation *)

Lemma Forall2_names_norm l envs envs' : forall ps ps' ids,
  map norm_vars envs' = map norm_vars envs -> map norm_eval ps' = map norm_eval ps ->
  Forall2 (names_at l envs') ps' ids -> Forall2 (names_at l envs) ps ids.
Proof.
  intros ps ps' ids He. revert ps ids. induction ps' as [|p' r' IH]; intros ps ids Hp H.
  - destruct ps; [|discriminate]. inversion H. constructor.
  - destruct ps as [|p r]; [discriminate|]. cbn [map] in Hp. inversion Hp as [[Hp1 Hp2]].
    inversion H as [|? id ? ids' H1 H2]; subst. constructor; [|apply IH; assumption].
    unfold names_at in *. rewrite <- (evaluate_norm_eq envs envs' p p' He Hp1). exact H1.
Qed.

Lemma build_ok_norm l filename pb pb' vs rules rules' b :
  norm_build pb' = norm_build pb -> norm_rules rules' = norm_rules rules ->
  build_ok l filename pb' vs rules' b -> build_ok l filename pb vs rules b.
Proof.
  intros Hb Hr (A1 & A2 & A3 & A4 & A5 & A6 & A7 & outs & rule' & B1 & B2 & B3 & B4 & B5 & B6).
  unfold norm_build in Hb. inversion Hb as [[Erule Eline Eouts Eeo Eins Eei Eii Eoi Evi Evars]].
  assert (He : map norm_vars [pb_vars pb'; vars_env vs] = map norm_vars [pb_vars pb; vars_env vs])
    by (cbn [map]; rewrite Evars; reflexivity).
  rewrite Erule in B5. destruct (assoc_rules_norm _ _ _ _ Hr B5) as (rule & B5' & Nr).
  unfold build_ok. rewrite <- Eline, <- Eeo, <- Eei, <- Eii, <- Eoi.
  repeat (split; [assumption|]).
  split; [eapply Forall2_names_norm; eassumption|]. split; [assumption|].
  exists outs, rule. split; [eapply Forall2_names_norm; eassumption|].
  repeat (split; [assumption|]).
  cbv zeta in *.
  assert (IE : implicit_env l pb (lb_ins b) outs = implicit_env l pb' (lb_ins b) outs).
  { unfold implicit_env. rewrite Eeo, Eei. reflexivity. }
  rewrite IE.
  rewrite <- !(attr_lookup_norm (pb_vars pb) (pb_vars pb') rule rule' _ _ _ Evars Nr). exact B6.
Qed.

Lemma default_ok_norm l p p' vs id :
  norm_eval p' = norm_eval p -> default_ok l (p', vs) id -> default_ok l (p, vs) id.
Proof.
  unfold default_ok, names_at. cbn [fst snd]. intros Hp H.
  rewrite <- (evaluate_norm_eq [vars_env vs] [vars_env vs] p p' eq_refl Hp). exact H.
Qed.

(* ------------------------------------------------------------------------------------ *)
(* statement sequences up to normalisation *)

Definition stmts_norm_eq (a b : list (statement * vars)) : Prop :=
  Forall2 (fun x y => norm_stmt (fst x) = norm_stmt (fst y) /\ snd x = snd y) a b.

Definition item_norm_eq (x y : pbuild * vars * list (bytes * varlist)) : Prop :=
  norm_build (fst (fst x)) = norm_build (fst (fst y)) /\ snd (fst x) = snd (fst y) /\
  norm_rules (snd x) = norm_rules (snd y).

Lemma norm_stmt_shape st' st : norm_stmt st' = norm_stmt st ->
  match st', st with
  | SRule n' rv', SRule n rv => n' = n /\ norm_vars rv' = norm_vars rv
  | SBuild b', SBuild b => norm_build b' = norm_build b
  | SDefault ps', SDefault ps => map norm_eval ps' = map norm_eval ps
  | SInclude p', SInclude p => norm_eval p' = norm_eval p
  | SSubninja p', SSubninja p => norm_eval p' = norm_eval p
  | SPool n' d', SPool n d => n' = n /\ d' = d
  | _, _ => False
  end.
Proof.
  destruct st', st; cbn [norm_stmt]; intro H; try discriminate; try (split; congruence); congruence.
Qed.

Lemma build_items_norm : forall a b rules' rules,
  stmts_norm_eq a b -> norm_rules rules' = norm_rules rules ->
  Forall2 item_norm_eq (build_items rules' a) (build_items rules b).
Proof.
  intros a b rules' rules H. revert rules' rules.
  induction H as [|[st' vs'] [st vs] a b [H1 H2] H IH]; intros rules' rules Hr; [constructor|].
  cbn [fst snd] in H1, H2. subst vs'. apply norm_stmt_shape in H1.
  destruct st' as [n' rv'|pb'|ds'|p'|p'|n' d'], st as [n rv|pb|ds|p|p|n d]; try contradiction;
    cbn [build_items]; try (apply IH; exact Hr).
  - destruct H1 as [-> Hv]. apply IH. rewrite !norm_rules_insert, Hv, Hr. reflexivity.
  - constructor; [|apply IH; exact Hr]. unfold item_norm_eq. cbn [fst snd]. auto.
Qed.

Lemma rules_of_norm : forall a b rules' rules,
  stmts_norm_eq a b -> norm_rules rules' = norm_rules rules ->
  norm_rules (rules_of rules' a) = norm_rules (rules_of rules b).
Proof.
  intros a b rules' rules H. revert rules' rules.
  induction H as [|[st' vs'] [st vs] a b [H1 H2] H IH]; intros rules' rules Hr; [exact Hr|].
  cbn [fst snd] in H1, H2. subst vs'. apply norm_stmt_shape in H1.
  destruct st' as [n' rv'|pb'|ds'|p'|p'|n' d'], st as [n rv|pb|ds|p|p|n d]; try contradiction;
    cbn [rules_of]; try (apply IH; exact Hr).
  destruct H1 as [-> Hv]. apply IH. rewrite !norm_rules_insert, Hv, Hr. reflexivity.
Qed.

Lemma pools_of_norm : forall a b pools, stmts_norm_eq a b -> pools_of pools a = pools_of pools b.
Proof.
  intros a b pools H. revert pools.
  induction H as [|[st' vs'] [st vs] a b [H1 H2] H IH]; intro pools; [reflexivity|].
  cbn [fst snd] in H1, H2. apply norm_stmt_shape in H1.
  destruct st' as [n' rv'|pb'|ds'|p'|p'|n' d'], st as [n rv|pb|ds|p|p|n d]; try contradiction;
    cbn [pools_of]; try apply IH.
  destruct H1 as [-> ->]. apply IH.
Qed.

Lemma count_builds_norm a b : stmts_norm_eq a b -> count_builds a = count_builds b.
Proof.
  induction 1 as [|[st' vs'] [st vs] a b [H1 H2] H IH]; [reflexivity|].
  cbn [fst snd] in H1. apply norm_stmt_shape in H1.
  destruct st', st; try contradiction; cbn [count_builds]; rewrite IH; reflexivity.
Qed.

Lemma no_include_norm a b : stmts_norm_eq a b -> no_include b -> no_include a.
Proof.
  induction 1 as [|[st' vs'] [st vs] a b [H1 H2] H IH]; intro N; [constructor|].
  inversion N as [|? ? N1 N2]; subst. constructor; [|apply IH; exact N2].
  cbn [fst snd] in *. apply norm_stmt_shape in H1.
  destruct st', st; try contradiction; try reflexivity; discriminate N1.
Qed.

Definition default_norm_eq (x y : evalstring * vars) : Prop :=
  norm_eval (fst x) = norm_eval (fst y) /\ snd x = snd y.

Lemma default_items_norm a b : stmts_norm_eq a b ->
  Forall2 default_norm_eq (default_items a) (default_items b).
Proof.
  induction 1 as [|[st' vs'] [st vs] a b [H1 H2] H IH]; [constructor|].
  cbn [fst snd] in H1, H2. subst vs'. apply norm_stmt_shape in H1.
  destruct st' as [n' rv'|pb'|ds'|p'|p'|n' d'], st as [n rv|pb|ds|p|p|n d]; try contradiction;
    cbn [default_items]; try exact IH.
  apply Forall2_app; [|exact IH].
  clear - H1. revert ds H1. induction ds' as [|p' r' IHd]; intros ds H1.
  - destruct ds; [constructor | discriminate].
  - destruct ds as [|p r]; [discriminate|]. cbn [map] in *. inversion H1.
    constructor; [split; cbn [fst snd]; auto | apply IHd; assumption].
Qed.

Lemma Forall2_compose {A B C} (P : A -> B -> Prop) (Q : A -> C -> Prop) (R : B -> C -> Prop) :
  (forall a b c, P a b -> Q a c -> R b c) ->
  forall xs ys zs, Forall2 P xs ys -> Forall2 Q xs zs -> Forall2 R ys zs.
Proof.
  intros K xs ys zs H. revert zs. induction H as [|x y xs ys H1 H IH]; intros zs HQ.
  - inversion HQ. constructor.
  - inversion HQ as [|? z ? zs' Q1 Q2]; subst. constructor; [eapply K; eassumption | apply IH; exact Q2].
Qed.

(* the statement [run_stmts_spec] gives for the parser's statements holds for the declared ones *)
Lemma items_ok_norm l filename a b rules' rules bs :
  stmts_norm_eq a b -> norm_rules rules' = norm_rules rules ->
  Forall2 (item_ok l filename) (build_items rules' a) bs ->
  Forall2 (item_ok l filename) (build_items rules b) bs.
Proof.
  intros H Hr F. eapply Forall2_compose; [|apply (build_items_norm a b rules' rules H Hr) | exact F].
  intros [[pb' vs'] r'] [[pb vs] r] c (N1 & N2 & N3) OK. unfold item_ok in *. cbn [fst snd] in *.
  subst vs'. eapply build_ok_norm; eassumption.
Qed.

Lemma defaults_ok_norm l a b ids :
  stmts_norm_eq a b ->
  Forall2 (default_ok l) (default_items a) ids -> Forall2 (default_ok l) (default_items b) ids.
Proof.
  intros H F. eapply Forall2_compose; [|apply (default_items_norm a b H) | exact F].
  intros [p' vs'] [p vs] id [N1 N2] OK. cbn [fst snd] in *. subst vs'.
  eapply default_ok_norm; eassumption.
Qed.
