(* Specification vocabulary for C07 / C08 (definitions only). *)
From N2 Require Import Model.All.

(* one completion record as the writer is asked to write it: output names, discovered
   dependency names, hash *)
Record wr := mkWr { w_outs : list bytes; w_deps : list bytes; w_hash : N }.

(* the bytes appended by a sequence of write_build calls starting from id table [tbl] *)
Fixpoint log_from (tbl : list bytes) (ws : list wr) : outcome (bytes * list bytes) :=
  match ws with
  | [] => Ok ([], tbl)
  | w :: rest =>
    do r <- write_build tbl (w_outs w) (w_deps w) (w_hash w);
    let '(b, tbl') := r in
    do r2 <- log_from tbl' rest;
    let '(b2, tbl2) := r2 in
    Ok (b ++ b2, tbl2)
  end.

(* a whole log file written by a crash-free run *)
Definition log_of (ws : list wr) : outcome bytes :=
  do r <- log_from [] ws; Ok (signature ++ fst r).

(* the limits of the record format (finding F7 is what happens outside them) *)
Definition in_bounds (w : wr) : Prop :=
  (N.of_nat (length (w_outs w)) < 32768)%N /\ (N.of_nat (length (w_deps w)) < 65536)%N /\
  (forall n, In n (w_outs w ++ w_deps w) -> (N.of_nat (length n) < 32768)%N) /\ (w_hash w < 18446744073709551616)%N.
Definition table_small (ws : list wr) : Prop :=
  (N.of_nat (length (concat (map (fun w => w_outs w ++ w_deps w) ws))) < 16777216)%N.

(* the record names only outputs currently produced by step [b] (and names at least one) *)
Definition applicable (producer : bytes -> option nat) (w : wr) (b : nat) : bool :=
  match w_outs w with
  | [] => false
  | outs => forallb (fun o => match producer o with Some b' => (b' =? b)%nat | None => false end) outs
  end.

(* what must be loaded for step b: the latest applicable record *)
Fixpoint last_applicable (producer : bytes -> option nat) (ws : list wr) (b : nat) (acc : option (list bytes * N))
  : option (list bytes * N) :=
  match ws with
  | [] => acc
  | w :: rest => last_applicable producer rest b (if applicable producer w b then Some (w_deps w, w_hash w) else acc)
  end.

Definition is_prefix (a b : bytes) : Prop := exists t, b = a ++ t.
