(* C06, termination: the two events that are not paid for by a potential (EUpdate, EQuiesce)
   are pure stuttering.  They can repeat without bound (so the length of an accepted trace is
   not bounded by the graph), but removing them leaves an accepted trace of bounded length
   with the same final state; and EQuiesce is accepted only when nothing but the completion
   of a running task (or the final return) can follow. *)
From Coq Require Import Lia ZArith List Bool Arith.
From N2 Require Import Model.All Proofs.SchedSpec Proofs.SchedInv Proofs.SchedRunBase
     Proofs.SchedRunStep Proofs.SchedRunCore Proofs.SchedRunAux Proofs.SchedRunRInv
     Proofs.SchedRunThms Proofs.SchedRunFinal Proofs.SchedLive Proofs.SchedBoundSpec Proofs.SchedBound.
Import ListNotations.

(* ------------------------------------------------------------------------------------ *)
(* stuttering *)

Lemma stutter_step cf r e r' : step cf r e r' -> is_stutter e = true -> r' = r.
Proof. intros Hs Hst. destruct Hs; cbn in Hst; try discriminate Hst; reflexivity. Qed.

Theorem C06_stutter_is_identity cf r e r' :
  accept1 cf r e = Some r' -> is_stutter e = true -> r' = r.
Proof. intros H. apply accept1_step in H. exact (stutter_step cf r e r' H). Qed.

Theorem C06_destutter cf : forall evs r r',
  accepts cf r evs = Some r' ->
  accepts cf r (filter (fun e => negb (is_stutter e)) evs) = Some r'.
Proof.
  induction evs as [|e evs IH]; intros r r' H; cbn [accepts filter] in *; [exact H|].
  destruct (accept1 cf r e) as [r1|] eqn:E1; [|discriminate].
  destruct (is_stutter e) eqn:Es; cbn [negb].
  - rewrite (C06_stutter_is_identity cf r e r1 E1 Es) in H. exact (IH r r' H).
  - cbn [accepts]. rewrite E1. exact (IH r1 r' H).
Qed.

Lemma accepts_repeat cf r e : accept1 cf r e = Some r -> forall k, accepts cf r (repeat e k) = Some r.
Proof.
  intros H k. induction k as [|k IH]; cbn [repeat accepts]; [reflexivity|]. rewrite H. exact IH.
Qed.

(* ------------------------------------------------------------------------------------ *)
(* what can follow EQuiesce *)

Lemma remove_first_nonempty x l q : remove_first x l = Some q -> l <> [].
Proof. intros H ->. discriminate H. Qed.

Lemma quiesce_inv cf r n r1 : step cf r (EQuiesce n) r1 ->
  r1 = r /\ rs_ctl r = CIdle /\ bs_ready (rs_bs r) = [] /\
  ((rs_running r <? cf_parallelism cf)%nat && some_startable (rs_bs r) = false) /\
  some_promotable (cf_graph cf) (rs_bs r) = false /\ (0 < bs_pending (rs_bs r))%Z.
Proof. intro H. inversion H; subst. repeat split; assumption. Qed.

Section Quiesce.
Variable cf : config.
Variable decls : list (bytes * nat).
Hypothesis Hwf : graph_wf (cf_graph cf).
Notation g := (cf_graph cf).
Notation nb := (length (g_builds (cf_graph cf))).

Theorem C06_after_quiesce r n r1 e r2 :
  reachable cf decls r -> accept1 cf r (EQuiesce n) = Some r1 -> accept1 cf r1 e = Some r2 ->
  (exists c, e = EUpdate c) \/ (exists m, e = EQuiesce m) \/ (exists b t, e = EFinish b t) \/
  (e = EReturn (Some false) /\ rs_running r = 0 /\ 0 < rs_failed r).
Proof.
  intros Hr H1 H2.
  pose proof (reachable_RInv_closed cf decls Hwf r Hr) as Hinv.
  pose proof (ri_core _ _ _ Hinv) as C.
  apply accept1_step in H1. apply accept1_step in H2.
  destruct (quiesce_inv cf r n r1 H1) as (-> & Hc & Hrd & Hst & Hpr & Hpe). clear H1.
  destruct H2; try congruence.
  - left. eexists; reflexivity.
  - (* a queued step cannot be startable *)
    exfalso.
    match goal with Hlt : rs_running r < _ |- _ => apply Nat.ltb_lt in Hlt; rewrite Hlt in Hst end.
    cbn [andb] in Hst.
    match goal with Hfind : pool_find _ _ = Some p |- _ => destruct (pool_find_In _ _ _ Hfind) as [Ip _] end.
    assert (T : some_startable (rs_bs r) = true).
    { unfold some_startable. apply existsb_exists. exists p. split; [exact Ip|].
      match goal with Hroom : pool_has_room p = true |- _ => rewrite Hroom end. cbn [andb].
      match goal with Hrem : remove_first _ (p_queued p) = Some _ |- _ =>
        pose proof (remove_first_nonempty _ _ _ Hrem) as Ne end.
      destruct (p_queued p); [contradiction|reflexivity]. }
    congruence.
  - (* the ready queue is empty *)
    exfalso.
    match goal with Hrem : remove_first _ (bs_ready _) = Some _ |- _ => rewrite Hrd in Hrem; discriminate Hrem end.
  - (* nothing is promotable *)
    exfalso.
    match goal with Ed : get_state (rs_bs r) d = Want |- _ => rename Ed into E end.
    assert (L : d < nb).
    { rewrite <- (bc_len _ _ _ C). apply get_state_range. rewrite E. discriminate. }
    assert (T : some_promotable g (rs_bs r) = true).
    { unfold some_promotable, indices. apply existsb_exists. exists d. split; [apply in_seq; lia|].
      match goal with Hpd : producers_done _ _ _ = true |- _ => rewrite E, Hpd end. reflexivity. }
    congruence.
  - right. left. eexists; reflexivity.
  - right. right. left. eexists. eexists. reflexivity.
  - (* return: pending is positive, so the loop is stuck on a failure *)
    right. right. right.
    match goal with Hret : _ \/ stuck_b cf r = true |- _ => destruct Hret as [Hz|Hstuck]; [lia|] end.
    unfold stuck_b in Hstuck.
    apply andb_true_iff in Hstuck. destruct Hstuck as [Hstuck _].
    apply andb_true_iff in Hstuck. destruct Hstuck as [Hstuck _].
    apply andb_true_iff in Hstuck. destruct Hstuck as [Hstuck _].
    apply andb_true_iff in Hstuck. destruct Hstuck as [Hrun Hfl].
    apply Nat.eqb_eq in Hrun. apply Nat.ltb_lt in Hfl.
    assert (Ez : (rs_failed r =? 0) = false) by (apply Nat.eqb_neq; lia).
    subst ok. rewrite Ez. auto.
Qed.

(* termination modulo stuttering: the trace without its EUpdate / EQuiesce events is accepted,
   reaches the same state, and is no longer than nine events per unfinished step plus one *)
Theorem C06_terminates_modulo_stutter r evs r' :
  reachable cf decls r -> accepts cf r evs = Some r' ->
  accepts cf r (filter (fun e => negb (is_stutter e)) evs) = Some r' /\
  length (filter (fun e => negb (is_stutter e)) evs) <= 9 * unfinished g (rs_bs r) + 1 /\
  unfinished g (rs_bs r) <= nb.
Proof.
  intros Hr H. split; [exact (C06_destutter cf evs r r' H)|].
  exact (C06_trace_length_partial cf decls Hwf r evs r' Hr H).
Qed.

End Quiesce.
