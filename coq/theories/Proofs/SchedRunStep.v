(* The accepting cases of [accept1] as an inductive relation, and the inversion lemma
   [accept1_step].  All later run-loop proofs go by cases on [step]. *)
From Coq Require Import Lia ZArith List Bool Arith.
From N2 Require Import Model.All Proofs.SchedSpec Proofs.SchedInv Proofs.SchedRunBase.
Import ListNotations.

Definition set_pools (s : bstates) (ps : list pool) : bstates :=
  mkBS (bs_states s) (bs_counts s) (bs_pending s) (bs_ready s) ps.
Definition set_ready (s : bstates) (q : list nat) : bstates :=
  mkBS (bs_states s) (bs_counts s) (bs_pending s) q (bs_pools s).
Definition pset_q (q : list nat) (p : pool) : pool := mkPool (p_name p) q (p_running p) (p_depth p).
Definition ppush_q (b : nat) (p : pool) : pool := mkPool (p_name p) (p_queued p ++ [b]) (p_running p) (p_depth p).

Definition stuck_b (cf : config) (r : rstate) : bool :=
  (rs_running r =? 0)%nat && (0 <? rs_failed r)%nat
  && match bs_ready (rs_bs r) with [] => true | _ => false end
  && negb (some_startable (rs_bs r)) && negb (some_promotable (cf_graph cf) (rs_bs r)).

Inductive step (cf : config) : rstate -> event -> rstate -> Prop :=
| st_update r c :
    rs_ctl r = CIdle -> c = bs_counts (rs_bs r) -> (0 < bs_pending (rs_bs r))%Z ->
    step cf r (EUpdate c) r
| st_run r b p q ps s' :
    rs_ctl r = CIdle -> get_state (rs_bs r) b = Queued ->
    rs_running r < cf_parallelism cf ->
    pool_find (bs_pools (rs_bs r)) (pool_name (get_build (cf_graph cf) b)) = Some p ->
    pool_has_room p = true ->
    remove_first b (p_queued p) = Some q ->
    pool_update (bs_pools (rs_bs r)) (pool_name (get_build (cf_graph cf) b)) (pset_q q) = Some ps ->
    bs_set (set_pools (rs_bs r) ps) b (get_build (cf_graph cf) b) Running = Ok s' ->
    step cf r (ESet b Queued Running) (with_bs r s' (CStarting b))
| st_start r b :
    rs_ctl r = CStarting b ->
    step cf r (EStart b)
         (mkRS (rs_bs r) (S (rs_running r)) (rs_failed r) (rs_failures_left r) (rs_tasks_run r) CIdle)
| st_pop r b q :
    rs_ctl r = CIdle -> get_state (rs_bs r) b = Ready ->
    remove_first b (bs_ready (rs_bs r)) = Some q ->
    step cf r (EPopReady b) (with_bs r (set_ready (rs_bs r) q) (CChecking b))
| st_verdict r b v :
    rs_ctl r = CChecking b ->
    (v = VDirty -> b_phony (get_build (cf_graph cf) b) = false) ->
    step cf r (EVerdict b v) (with_ctl r (CVerdict b v false))
| st_adopt_record r b :
    rs_ctl r = CVerdict b VDirty false -> cf_adopt cf = true ->
    step cf r (ERecord b) (with_ctl r (CVerdict b VDirty true))
| st_ready_done r b v rec s' :
    rs_ctl r = CVerdict b v rec ->
    ((v = VClean /\ rec = false) \/ (v = VDirty /\ cf_adopt cf = true)) ->
    bs_set (rs_bs r) b (get_build (cf_graph cf) b) Done = Ok s' ->
    step cf r (ESet b Ready Done) (with_bs r s' CIdle)
| st_enqueue r b s' ps :
    rs_ctl r = CVerdict b VDirty false -> cf_adopt cf = false ->
    bs_set (rs_bs r) b (get_build (cf_graph cf) b) Queued = Ok s' ->
    pool_update (bs_pools s') (pool_name (get_build (cf_graph cf) b)) (ppush_q b) = Some ps ->
    step cf r (ESet b Ready Queued) (with_bs r (set_pools s' ps) CIdle)
| st_enqueue_fail r b s' :
    rs_ctl r = CVerdict b VDirty false -> cf_adopt cf = false ->
    bs_set (rs_bs r) b (get_build (cf_graph cf) b) Queued = Ok s' ->
    pool_update (bs_pools s') (pool_name (get_build (cf_graph cf) b)) (ppush_q b) = None ->
    step cf r (ESet b Ready Queued) (with_bs r s' (CVerdict b VError false))
| st_error_return r b rec :
    rs_ctl r = CVerdict b VError rec ->
    step cf r (EReturn None) (with_ctl r (CReturned None))
| st_promote r d s' :
    rs_ctl r = CIdle -> get_state (rs_bs r) d = Want ->
    producers_done (cf_graph cf) (rs_bs r) (get_build (cf_graph cf) d) = true ->
    bs_set (rs_bs r) d (get_build (cf_graph cf) d) Ready = Ok s' ->
    step cf r (ESet d Want Ready) (with_bs r s' CIdle)
| st_quiesce r :
    rs_ctl r = CIdle -> bs_ready (rs_bs r) = [] ->
    ((rs_running r <? cf_parallelism cf)%nat && some_startable (rs_bs r) = false) ->
    some_promotable (cf_graph cf) (rs_bs r) = false ->
    (0 < bs_pending (rs_bs r))%Z ->
    (0 < rs_running r \/ 0 < rs_failed r) ->
    step cf r (EQuiesce (rs_running r)) r
| st_finish r b t :
    rs_ctl r = CIdle -> get_state (rs_bs r) b = Running -> 0 < rs_running r ->
    step cf r (EFinish b t)
         (mkRS (rs_bs r) (pred (rs_running r)) (rs_failed r) (rs_failures_left r) (rs_tasks_run r)
               (CFinished b t false))
| st_record r b :
    rs_ctl r = CFinished b TSuccess false ->
    step cf r (ERecord b) (with_ctl r (CFinished b TSuccess true))
| st_done r b rec s' :
    rs_ctl r = CFinished b TSuccess rec ->
    bs_set (rs_bs r) b (get_build (cf_graph cf) b) Done = Ok s' ->
    step cf r (ESet b Running Done)
         (mkRS s' (rs_running r) (rs_failed r) (rs_failures_left r) (S (rs_tasks_run r)) CIdle)
| st_failed r b rec s' :
    rs_ctl r = CFinished b TFailure rec -> rs_failures_left r <> Some 1 ->
    bs_set (rs_bs r) b (get_build (cf_graph cf) b) Failed = Ok s' ->
    step cf r (ESet b Running Failed)
         (mkRS s' (rs_running r) (S (rs_failed r)) (option_map pred (rs_failures_left r)) (rs_tasks_run r) CIdle)
| st_budget r b rec :
    rs_ctl r = CFinished b TFailure rec -> rs_failures_left r = Some 1 ->
    step cf r (EReturn (Some false)) (with_ctl r (CReturned (Some false)))
| st_interrupted r b rec :
    rs_ctl r = CFinished b TInterrupted rec ->
    step cf r (EReturn (Some false)) (with_ctl r (CReturned (Some false)))
| st_return r ok :
    rs_ctl r = CIdle ->
    (bs_pending (rs_bs r) = 0%Z \/ stuck_b cf r = true) ->
    ok = (rs_failed r =? 0)%nat ->
    step cf r (EReturn (Some ok)) (with_ctl r (CReturned (Some ok))).

Local Ltac dvars H :=
  repeat match type of H with
         | context[match ?x with _ => _ end] => is_var x; destruct x; try discriminate H
         end.

Local Ltac dif H :=
  match type of H with
  | context[if ?c then _ else _] => destruct c eqn:?; try discriminate H
  end.

Local Ltac norm :=
  repeat match goal with
         | H : (_ =? _)%nat = true |- _ => apply Nat.eqb_eq in H
         | H : andb _ _ = true |- _ => apply andb_true_iff in H; destruct H
         | H : negb _ = true |- _ => apply negb_true_iff in H
         | H : negb _ = false |- _ => apply negb_false_iff in H
         | H : bstate_eqb _ _ = true |- _ => apply bstate_eqb_eq in H
         | H : (_ <? _)%nat = true |- _ => apply Nat.ltb_lt in H
         | H : (_ <? _)%Z = true |- _ => apply Z.ltb_lt in H
         end.

Local Ltac fin :=
  cbn [rs_ctl rs_bs rs_running rs_failed rs_failures_left rs_tasks_run];
  eauto; try discriminate; try congruence.

Lemma accept1_step cf r e r' : accept1 cf r e = Some r' -> step cf r e r'.
Proof.
  intro H.
  destruct r as [s n nf fl tr c].
  unfold accept1 in H.
  cbn [rs_ctl rs_bs rs_running rs_failed rs_failures_left rs_tasks_run] in H.
  destruct c as [| b | b v rec | b | b t rec | o];
    destruct e as [c' | b' | b' v' | b' prev new | b' | n' | b' t' | b' | o'];
    try discriminate H.
  all: dvars H.
  all: repeat (first [dif H | match type of H with context[match ?x with _ => _ end] => destruct x eqn:?; try discriminate H end]).
  all: inversion H; subst r'; clear H; norm; subst; try discriminate.
  all: try solve [econstructor; fin].
  - (* EUpdate *)
    match goal with Hc : c6_eqb _ _ = true |- _ => apply c6_eqb_eq in Hc; subst end.
    apply st_update; fin.
  - (* EQuiesce *)
    apply st_quiesce; fin.
    + destruct (bs_ready s); [reflexivity|discriminate].
    + match goal with Hc : orb _ _ = true |- _ => apply orb_true_iff in Hc; destruct Hc as [Hc|Hc]; [left|right]; now apply Nat.ltb_lt in Hc end.
  - (* EReturn Some *)
    apply st_return; fin.
    + match goal with Hc : orb _ _ = true |- _ => apply orb_true_iff in Hc; destruct Hc as [Hc|Hc];
        [left; now apply Z.eqb_eq in Hc | right; exact Hc] end.
    + match goal with Hc : eqb _ _ = true |- _ => apply eqb_prop in Hc; exact Hc end.
  - apply st_verdict; fin. intros _.
    match goal with Hc : andb _ _ = false |- _ => cbn [negb] in Hc; rewrite andb_true_r in Hc; exact Hc end.
Qed.
