(* C15, independent specification: non-vacuity and examples.
   - a canonical rendering: EVERY well-formed abstract depfile has a text, so the premise
     [spells_d es text] of the round-trip theorems is satisfiable for every well-formed [es];
   - a depfile with a repeated target, a target without prerequisites between others, a blank line,
     a continuation, Windows-style paths (as target and as prerequisite) and no final newline;
   - the smallest deviation from textual order. *)
From Coq Require Import String.
From N2 Require Import Model.All Proofs.DepfileSpec Proofs.DepfileExamples Proofs.DepfileRound.
From N2 Require Import Proofs.DepfileIndep Proofs.DepfileIndepFacts Proofs.DepfileIndepMerge.

(* ------------------------------------------------------------------------------------ *)
(* canonical rendering: "t: d1 d2 ...\n" per entry *)

Definition wf_entry (e : bytes * list bytes) : Prop := good_target (fst e) /\ Forall good_path (snd e).
Definition wf_entries (es : dep_entries) : Prop := Forall wf_entry es.

Definition render_deps (ds : list bytes) : bytes := flat_map (fun d => 32%N :: d) ds.
Definition render_entry (e : bytes * list bytes) : bytes := fst e ++ [58%N] ++ render_deps (snd e).
Definition render (es : dep_entries) : bytes := flat_map (fun e => render_entry e ++ [10%N]) es.

Lemma seps_space : seps [32%N].
Proof. apply (seps_cons [32%N] []); constructor. Qed.

Lemma seps1_space : seps1 [32%N].
Proof. exists [32%N], []. split; [constructor|]. split; [constructor | reflexivity]. Qed.

Lemma render_deps_text ds : Forall good_path ds -> deps_text ds (render_deps ds).
Proof.
  induction 1 as [|d ds Hd Hds IH]; [constructor|].
  unfold render_deps. cbn [flat_map]. change (32%N :: d) with ([32%N] ++ d). rewrite <- app_assoc.
  apply dt_cons; [exact seps1_space | exact Hd | exact IH].
Qed.

Lemma render_deps_text0 ds : Forall good_path ds -> deps_text0 false ds (render_deps ds).
Proof.
  destruct 1 as [|d ds Hd Hds]; [constructor|].
  unfold render_deps. cbn [flat_map]. change (32%N :: d) with ([32%N] ++ d). rewrite <- app_assoc.
  apply dt0_cons; [exact seps_space | intros _; discriminate | exact Hd | now apply render_deps_text].
Qed.

Lemma render_entry_text e : wf_entry e -> entry_text e (render_entry e).
Proof.
  destruct e as [t ds]. intros [Ht Hds]. cbn [fst snd] in *. unfold render_entry. cbn [fst snd].
  rewrite <- (app_nil_r (render_deps ds)).
  apply et_attached; [exact Ht | now apply render_deps_text0 | constructor].
Qed.

Lemma render_spells es : wf_entries es -> spells_d es (render es).
Proof.
  induction 1 as [|e es He Hes IH]; [apply sd_nil, filler_nil|].
  unfold render. cbn [flat_map]. rewrite <- app_assoc.
  apply (sd_cons e es [] _ _ filler_nil); [now apply render_entry_text | exact IH].
Qed.

(* the round trip, for the canonical text of every well-formed abstract depfile *)
Lemma render_roundtrip es :
  wf_entries es ->
  depfile_parse (render es) = Ok (grouped es) /\ depfile_deps (render es) = Ok (all_deps es).
Proof. intro H. apply depfile_roundtrip_indep, render_spells, H. Qed.

(* ------------------------------------------------------------------------------------ *)
(* the example depfile

     c:\out\a.o: src/a.c \
       C:\inc\a.h
     out/gen.h:

     out/b.o : src/b.c
     c:\out\a.o: C:\inc\b.h src/a.c          <- no final newline                         *)

Definition ex3_text : bytes :=
  bs "c:\out\a.o: src/a.c \" ++ [10%N] ++ bs "  C:\inc\a.h" ++ [10%N] ++
  bs "out/gen.h:" ++ [10; 10]%N ++
  bs "out/b.o : src/b.c" ++ [10%N] ++
  bs "c:\out\a.o: C:\inc\b.h src/a.c".

Definition ex3_es : dep_entries :=
  [(bs "c:\out\a.o", [bs "src/a.c"; bs "C:\inc\a.h"]);
   (bs "out/gen.h", []);
   (bs "out/b.o", [bs "src/b.c"]);
   (bs "c:\out\a.o", [bs "C:\inc\b.h"; bs "src/a.c"])].

Example ex3_spells : spells_d ex3_es ex3_text.
Proof.
  eapply spells_eq.
  - eapply (sd_cons (bs "c:\out\a.o", [bs "src/a.c"; bs "C:\inc\a.h"]) _ [] _ _ filler_nil).
    + eapply (et_attached (bs "c:\out\a.o") _ _ []); [gt | | constructor].
      apply (dt0_cons false (bs "src/a.c") [bs "C:\inc\a.h"] [32%N]);
        [exact seps_space | intros _; discriminate | gp |].
      apply (dt_cons (bs "C:\inc\a.h") [] ([32%N] ++ [92; 10]%N ++ [32; 32]%N)); [| gp | constructor].
      exists [32%N], ([92; 10]%N ++ [32; 32]%N). split; [constructor|]. split; [|reflexivity].
      apply seps_cons; [constructor | exact seps_spaces2].
    + eapply (sd_cons (bs "out/gen.h", []) _ [] _ _ filler_nil).
      * eapply (et_attached (bs "out/gen.h") [] [] []); [gt | constructor | constructor].
      * eapply (sd_cons (bs "out/b.o", [bs "src/b.c"]) _ [10%N]).
        -- apply blank_filler. intros c [<-|[]]; now right.
        -- eapply (et_detached (bs "out/b.o") _ [32%N] _ []); [gt | | discriminate | | constructor].
           ++ intros c [<-|[]]; reflexivity.
           ++ apply (dt0_cons true (bs "src/b.c") [] [32%N]);
                [exact seps_space | intros _; discriminate | gp | constructor].
        -- eapply (sd_last (bs "c:\out\a.o", [bs "C:\inc\b.h"; bs "src/a.c"]) [] _ filler_nil).
           eapply (et_attached (bs "c:\out\a.o") _ _ []); [gt | | constructor].
           apply (dt0_cons false (bs "C:\inc\b.h") [bs "src/a.c"] [32%N]);
             [exact seps_space | intros _; discriminate | gp |].
           apply (dt_cons (bs "src/a.c") [] [32%N]); [exact seps1_space | gp | constructor].
  - vm_compute. reflexivity.
Qed.

(* what the independent specification says this depfile means *)
Example ex3_grouped :
  grouped ex3_es =
  [(bs "c:\out\a.o", [bs "src/a.c"; bs "C:\inc\a.h"; bs "C:\inc\b.h"; bs "src/a.c"]);
   (bs "out/gen.h", []);
   (bs "out/b.o", [bs "src/b.c"])].
Proof. vm_compute. reflexivity. Qed.

Example ex3_all_deps :
  all_deps ex3_es = [bs "src/a.c"; bs "C:\inc\a.h"; bs "C:\inc\b.h"; bs "src/a.c"; bs "src/b.c"].
Proof. vm_compute. reflexivity. Qed.

(* ... and the parser, run on the text, returns exactly that (by computation, independently of the
   theorems) *)
Example ex3_parse : depfile_parse ex3_text = Ok (grouped ex3_es).
Proof. vm_compute. reflexivity. Qed.

Example ex3_deps :
  depfile_deps ex3_text =
  Ok [bs "src/a.c"; bs "C:\inc\a.h"; bs "C:\inc\b.h"; bs "src/a.c"; bs "src/b.c"].
Proof. vm_compute. reflexivity. Qed.

(* the theorems apply to it (their premises are satisfiable on a depfile with a repeated target):
   src/a.c is listed twice and discovered twice; the textual order differs *)
Example ex3_theorem_applies :
  depfile_parse ex3_text = Ok (grouped ex3_es) /\ depfile_deps ex3_text = Ok (all_deps ex3_es) /\
  count_occ bytes_dec (all_deps ex3_es) (bs "src/a.c") = 2%nat /\
  ~ clustered ex3_es /\ all_deps ex3_es <> textual ex3_es.
Proof.
  destruct (depfile_roundtrip_indep _ _ ex3_spells) as [H1 H2].
  split; [exact H1|]. split; [exact H2|]. split; [vm_compute; reflexivity|]. split.
  - intros [H _]. destruct H as (e' & r' & E & Hfst).
    + cbn [ex3_es map fst]. right. right. now left.
    + inversion E; subst e'. vm_compute in Hfst. discriminate Hfst.
  - vm_compute. intro HH; discriminate HH.
Qed.

(* ------------------------------------------------------------------------------------ *)
(* the smallest deviation from textual order:   a: x / b: y / a: z   is read as  x z y *)

Definition dev_es : dep_entries := [(bs "a", [bs "x"]); (bs "b", [bs "y"]); (bs "a", [bs "z"])].
Definition dev_text : bytes := bs "a: x" ++ [10%N] ++ bs "b: y" ++ [10%N] ++ bs "a: z" ++ [10%N].

Lemma dev_wf : wf_entries dev_es.
Proof. repeat constructor; try gp; vm_compute; discriminate. Qed.

Example dev_render : render dev_es = dev_text.
Proof. vm_compute. reflexivity. Qed.

Example dev_spells : spells_d dev_es dev_text.
Proof. rewrite <- dev_render. apply render_spells, dev_wf. Qed.

Example dev_deps :
  depfile_deps dev_text = Ok [bs "x"; bs "z"; bs "y"] /\
  all_deps dev_es = [bs "x"; bs "z"; bs "y"] /\
  textual dev_es = [bs "x"; bs "y"; bs "z"] /\
  regroup dev_es = [(bs "a", [bs "x"]); (bs "a", [bs "z"]); (bs "b", [bs "y"])].
Proof. repeat split; vm_compute; reflexivity. Qed.

(* it is the smallest: with at most two entries no target can be interrupted *)
Lemma short_clustered es : (length es <= 2)%nat -> clustered es.
Proof.
  destruct es as [|e1 [|e2 [|e3 es]]]; cbn [length clustered map In]; intro H.
  - exact I.
  - split; [intros []|exact I].
  - split; [|split; [intros []|exact I]].
    intros [Heq|[]]. exists e2, []. now split.
  - exfalso. lia.
Qed.

Lemma short_textual es text :
  (length es <= 2)%nat -> spells_d es text -> depfile_deps text = Ok (concat (map snd es)).
Proof.
  intros Hl H. apply depfile_deps_textual_when_clustered; [exact H | now apply short_clustered].
Qed.
