(* Side results of the history development.

   1. [limits_premise_unsatisfiable]: the premise
        forall ws1, log_is w1 ws1 -> Forall in_bounds ws1 /\ table_small ws1
      (the premise an earlier statement of C03_null_build_invocation had for the log Work 1 leaves;
      the present statement bounds the record list  ws0 ++ work_records wg w1 tr1  instead) cannot hold when the log has
      a record: the writer stores the hash modulo 2^64, so [log_is] does not determine the hash of
      the record list, and a list with an out-of-bounds hash encodes to the same bytes.  The history
      theorems therefore carry the list of records written so far as ghost state ([h_ws]) and bound
      that list.
   2. [stamp_exists]: H-mtime in the form "no (name, mtime) pair is written twice" gives the
      function from (name, mtime) to content that Proofs/HistSpec.v takes as [stamp].
   3. [needed_is_wanted]: the wanted steps of an invocation started by [want_targets] are the
      closure [needed] of the targets (C18), so the history theorems speak about that closure. *)
From Coq Require Import Lia ZArith List Bool Arith.
From N2 Require Import Model.All Proofs.SchedSpec Proofs.SchedInv Proofs.SchedRunCore Proofs.SchedWantSpec.
From N2 Require Import Proofs.DbSpec Proofs.DbWriter Proofs.WorldSpec.
Import ListNotations.

(* ------------------------------------------------------------------------------------ *)
(* 1 *)

Definition two64 : N := 18446744073709551616.

Lemma enc_build_mod o d h : enc_build o d (h + two64) = enc_build o d h.
Proof.
  unfold enc_build. destruct (enc_ids o) as [eo| | | |]; cbn [bind]; try reflexivity.
  destruct (enc_ids d) as [ed| | | |]; cbn [bind]; try reflexivity.
  replace ((h + two64) mod 18446744073709551616)%N with (h mod 18446744073709551616)%N; [reflexivity|].
  unfold two64. rewrite <- (N.add_mod_idemp_r h), N.mod_same, N.add_0_r by discriminate. reflexivity.
Qed.

Lemma write_build_mod tbl o d h : write_build tbl o d (h + two64) = write_build tbl o d h.
Proof.
  unfold write_build. destruct (ensure_ids o tbl (N.of_nat (length tbl))) as [[[[oids p1] t1] n1]| | | |];
    cbn [bind]; try reflexivity.
  destruct (ensure_ids d t1 n1) as [[[[dids p2] t2] n2]| | | |]; cbn [bind]; try reflexivity.
  now rewrite enc_build_mod.
Qed.

Definition bump (x : wr) : wr := mkWr (w_outs x) (w_deps x) (w_hash x + two64).

Lemma log_from_bump : forall ws tbl x, log_from tbl (ws ++ [bump x]) = log_from tbl (ws ++ [x]).
Proof.
  induction ws as [|y ws IH]; intros tbl x; cbn [app log_from].
  - unfold bump. cbn [w_outs w_deps w_hash]. now rewrite write_build_mod.
  - destruct (write_build tbl (w_outs y) (w_deps y) (w_hash y)) as [[b t]| | | |]; cbn [bind]; try reflexivity.
    now rewrite IH.
Qed.

Theorem limits_premise_unsatisfiable : forall w ws x,
  log_is w (ws ++ [x]) -> ~ (forall ws1, log_is w ws1 -> Forall in_bounds ws1 /\ table_small ws1).
Proof.
  intros w ws x (body & Hf & Hl) H.
  assert (L : log_is w (ws ++ [bump x])) by (exists body; rewrite log_from_bump; auto).
  destruct (H _ L) as (Hb & _). apply Forall_app in Hb. destruct Hb as (_ & Hb).
  inversion Hb as [|? ? (_ & _ & _ & Hh) _]; subst. unfold bump in Hh. cbn [w_hash] in Hh. unfold two64 in Hh. lia.
Qed.

(* ------------------------------------------------------------------------------------ *)
(* 2 *)

Section Stamp.
Variable content : Type.

Definition key_eqb (a b : bytes * mtime) : bool :=
  bytes_eqb (fst a) (fst b) && (fst (snd a) =? fst (snd b))%N && (snd (snd a) =? snd (snd b))%N.

Lemma key_eqb_spec a b : key_eqb a b = true <-> a = b.
Proof.
  destruct a as [n [s ns]], b as [n' [s' ns']]. unfold key_eqb. cbn [fst snd].
  rewrite !andb_true_iff, bytes_eqb_spec, !N.eqb_eq. split; [intros ((-> & ->) & ->); reflexivity|].
  intros [= -> -> ->]. auto.
Qed.

Fixpoint lookup (evs : list ((bytes * mtime) * content)) (k : bytes * mtime) (dflt : content) : content :=
  match evs with
  | [] => dflt
  | (k', c) :: r => if key_eqb k' k then c else lookup r k dflt
  end.

(* the writes of a history, each with the name, the mtime it gave the file and the content it
   wrote; H-mtime: no (name, mtime) pair occurs twice *)
Theorem stamp_exists : forall (dflt : content) (evs : list ((bytes * mtime) * content)),
  NoDup (map fst evs) ->
  exists stamp : bytes -> mtime -> content, forall n t c, In ((n, t), c) evs -> stamp n t = c.
Proof.
  intros dflt evs Hnd. exists (fun n t => lookup evs (n, t) dflt).
  induction evs as [|[k c'] evs IH]; intros n t c Hin; [destruct Hin|].
  cbn [map fst] in Hnd. inversion Hnd as [|? ? Hnot Hnd']; subst. cbn [lookup].
  destruct Hin as [Heq|Hin].
  - injection Heq as -> ->. rewrite (proj2 (key_eqb_spec (n, t) (n, t)) eq_refl). reflexivity.
  - destruct (key_eqb k (n, t)) eqn:Ek; [|now apply IH].
    apply key_eqb_spec in Ek. subst k. exfalso. apply Hnot.
    apply in_map_iff. exists ((n, t), c). auto.
Qed.

End Stamp.

(* ------------------------------------------------------------------------------------ *)
(* 3 *)

Lemma needed_is_wanted g decls ts s l :
  graph_wf g -> want_targets g (bs_new (length (g_builds g)) decls, []) ts = Ok (s, l) ->
  wanted g (bs_new (length (g_builds g)) decls) s /\
  forall b, b < length (g_builds g) -> (get_state s b <> Unknown <-> needed g ts b).
Proof.
  intros Hwf H. split; [exact (want_targets_wanted g ts _ _ _ _ H)|].
  intros b L. rewrite (C18_wanted_is_closure g decls _ _ ts s l Hwf (bs_new_BInv g decls) H b L).
  rewrite get_state_bs_new. tauto.
Qed.
