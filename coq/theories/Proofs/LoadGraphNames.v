(* C10, loader half: the loaded steps seen BY NAME are a function of the declaration.
   File names are unique in the loader ([NamesUnique]), so ids and names correspond one to one, and
   the name-level view of a step ([view]) is computed by [decl_view] from the `build` statement, the
   file-level variables and the rule table alone. *)
From Coq Require Import String.
From N2 Require Import Model.All Proofs.EvalScope Proofs.GraphDedup Proofs.GraphAddBuild Proofs.GraphLoad.
From N2 Require Import Proofs.LoadGraphSpec Proofs.LoadGraphBuild Proofs.LoadGraphRun.

(* ------------------------------------------------------------------------------------ *)
(* names are unique *)

Definition NamesUnique (l : loader) : Prop := NoDup (map lf_name (l_files l)).

Lemma NoDup_snoc {A} (l : list A) x : NoDup l -> ~ In x l -> NoDup (l ++ [x]).
Proof.
  intros N I. rewrite <- (rev_involutive (l ++ [x])). apply NoDup_rev.
  rewrite rev_app_distr. cbn [rev app]. constructor; [rewrite <- in_rev; exact I | apply NoDup_rev; exact N].
Qed.

Lemma find_file_none fs name : forall i, find_file fs name i = None -> ~ In name (map lf_name fs).
Proof.
  induction fs as [|x r IH]; intros i H; [intros []|].
  cbn [find_file] in H. destruct (bytes_eqb (lf_name x) name) eqn:E; [discriminate|].
  cbn [map In]. intros [I|I].
  - rewrite I, bytes_eqb_refl in E. discriminate.
  - exact (IH _ H I).
Qed.

Lemma id_from_canonical_unique l c l' id :
  NamesUnique l -> id_from_canonical l c = (l', id) -> NamesUnique l'.
Proof.
  unfold id_from_canonical, NamesUnique. intros U H.
  destruct (find_file (l_files l) c 0) eqn:F; inversion H; subst; [exact U|].
  cbn [l_files]. rewrite map_app. cbn [map lf_name]. apply NoDup_snoc; [exact U|].
  eapply find_file_none. exact F.
Qed.

Lemma evaluate_paths_unique envs : forall ps l l' ids,
  NamesUnique l -> evaluate_paths l ps envs = Ok (l', ids) -> NamesUnique l'.
Proof.
  induction ps as [|p r IH]; intros l l' ids U H; cbn [evaluate_paths] in H.
  - inversion H; subst. exact U.
  - apply bind_ok in H as [[l1 id] [Ea H]]. apply bind_ok in H as [[l2 ids'] [Eb H]].
    inversion H; subst. eapply IH; [|exact Eb].
    unfold evaluate_path in Ea.
    assert (Ea' : load_path l (evaluate envs p) = Ok (l1, id))
      by (destruct (evaluate envs p); [discriminate | exact Ea]).
    unfold load_path in Ea'. apply bind_ok in Ea' as [c [_ Ea']]. inversion Ea' as [Ec].
    eapply id_from_canonical_unique; eassumption.
Qed.

Definition stmt_wf (st : statement) : Prop :=
  match st with SBuild pb => pb_explicit_outs pb <= length (pb_outs pb) | _ => True end.

Lemma stmt_step_unique l filename st vs l' :
  LInv l -> stmt_wf st -> NamesUnique l -> stmt_step l filename st vs = Ok l' ->
  LInv l' /\ NamesUnique l'.
Proof.
  intros I W U H. destruct st as [name rv|pb|ds|p|p|name d]; cbn [stmt_step] in H; try discriminate H.
  - inversion H; subst. split; [eapply LInv_same_graph; [| |exact I]; reflexivity | exact U].
  - cbn [stmt_wf] in W. split; [eapply loader_add_build_LInv; eassumption|].
    destruct (loader_add_build_ok _ _ _ _ _ _ H)
      as (l1 & ins & l2 & outs & rule & b & E1 & E2 & _ & _ & _ & Bi & Bo & Be & _ & _ & _ & G).
    destruct (evaluate_paths_spec _ _ _ _ _ E1) as [X1 _].
    destruct (evaluate_paths_spec _ _ _ _ _ E2) as [X2 [_ C2]].
    assert (I2 : LInv l2) by (eapply Ext_LInv; [exact X2|]; eapply Ext_LInv; [exact X1 | exact I]).
    assert (EL : lb_explicit_outs b <= length (lb_outs b)).
    { rewrite Be, Bo, <- (Forall2_length_eq _ _ _ C2). exact W. }
    destruct (gab_ok l2 b l' (LInv_NoDangling l2 I2) EL G) as (NM & _).
    unfold NamesUnique. rewrite NM.
    eapply evaluate_paths_unique; [|exact E2]. eapply evaluate_paths_unique; [|exact E1]. exact U.
  - apply bind_ok in H as [[l1 ids] [E1 H]]. inversion H; subst.
    destruct (evaluate_paths_spec _ _ _ _ _ E1) as [X1 _]. split.
    + eapply LInv_same_graph; [| |eapply Ext_LInv; [exact X1 | exact I]]; reflexivity.
    + change (NamesUnique l1). eapply evaluate_paths_unique; [exact U | exact E1].
  - inversion H; subst. split; [eapply LInv_same_graph; [| |exact I]; reflexivity | exact U].
Qed.

Theorem run_stmts_unique filename : forall sts l0 l,
  LInv l0 -> builds_wf sts -> NamesUnique l0 -> run_stmts l0 filename sts = Ok l -> NamesUnique l.
Proof.
  induction sts as [|[st vs] r IH]; intros l0 l I W U H; cbn [run_stmts] in H.
  - inversion H; subst. exact U.
  - apply bind_ok in H as [l1 [E H]]. inversion W as [|? ? W1 W2]; subst.
    destruct (stmt_step_unique _ _ _ _ _ I W1 U E) as [I1 U1]. eapply IH; eassumption.
Qed.

Lemma file_nm_nth l i : i < length (l_files l) ->
  nth_error (map lf_name (l_files l)) i = Some (file_nm l i).
Proof.
  intro L. rewrite file_nm_map. destruct (nth_error (map lf_name (l_files l)) i) eqn:E; [reflexivity|].
  apply nth_error_None in E. rewrite map_length in E. lia.
Qed.

Lemma file_nm_inj l i j : NamesUnique l -> i < length (l_files l) -> j < length (l_files l) ->
  file_nm l i = file_nm l j -> i = j.
Proof.
  intros U Li Lj E. apply (proj1 (NoDup_nth_error _) U i j).
  - rewrite map_length. exact Li.
  - rewrite (file_nm_nth l i Li), (file_nm_nth l j Lj), E. reflexivity.
Qed.

(* ------------------------------------------------------------------------------------ *)
(* keeping first occurrences, on names *)

Fixpoint dedup_b_from (seen : list bytes) (l : list bytes) : list bytes :=
  match l with
  | [] => []
  | x :: r => if existsb (bytes_eqb x) seen then dedup_b_from (seen ++ [x]) r
              else x :: dedup_b_from (seen ++ [x]) r
  end.
Definition dedup_b (l : list bytes) : list bytes := dedup_b_from [] l.

Lemma mem_names l x seen : NamesUnique l -> x < length (l_files l) -> ids_in l seen ->
  existsb (bytes_eqb (file_nm l x)) (map (file_nm l) seen) = mem_nat x seen.
Proof.
  intros U Lx R. destruct (mem_nat x seen) eqn:M.
  - apply mem_nat_In in M. apply existsb_exists. exists (file_nm l x). split; [|apply bytes_eqb_refl].
    apply in_map. exact M.
  - apply mem_nat_false in M. destruct (existsb _ _) eqn:E; [|reflexivity]. exfalso. apply M.
    apply existsb_exists in E as (n & In_n & En). apply bytes_eqb_spec in En.
    apply in_map_iff in In_n as (y & Ey & Iy). subst n.
    unfold ids_in in R. rewrite Forall_forall in R.
    rewrite (file_nm_inj l x y U Lx (R y Iy) En). exact Iy.
Qed.

Lemma dedup_names l : NamesUnique l -> forall ids seen, ids_in l ids -> ids_in l seen ->
  map (file_nm l) (dedup_from seen ids) = dedup_b_from (map (file_nm l) seen) (map (file_nm l) ids).
Proof.
  intro U. induction ids as [|x r IH]; intros seen R S; [reflexivity|].
  inversion R as [|? ? R1 R2]; subst. cbn [dedup_from map dedup_b_from].
  rewrite (mem_names l x seen U R1 S).
  assert (S' : ids_in l (seen ++ [x])) by (apply Forall_app; split; [exact S | constructor; [exact R1 | constructor]]).
  specialize (IH (seen ++ [x]) R2 S'). rewrite map_app in IH. cbn [map] in IH.
  destruct (mem_nat x seen); cbn [map]; rewrite IH; reflexivity.
Qed.

Lemma dedup_names0 l ids : NamesUnique l -> ids_in l ids ->
  map (file_nm l) (dedup ids) = dedup_b (map (file_nm l) ids).
Proof. intros U R. apply (dedup_names l U ids [] R). constructor. Qed.

(* ------------------------------------------------------------------------------------ *)
(* $in / $out on names *)

Fixpoint join_b (names : list bytes) (sep : N) : bytes :=
  match names with
  | [] => []
  | [n] => n
  | n :: r => n ++ [sep] ++ join_b r sep
  end.

Lemma join_names_map l ids sep : join_names l ids sep = join_b (map (file_nm l) ids) sep.
Proof.
  induction ids as [|i r IH]; [reflexivity|]. cbn [join_names map join_b].
  destruct r as [|i2 r2]; [reflexivity|]. cbn [map]. cbn [map] in IH. rewrite IH. reflexivity.
Qed.

Definition implicit_names (pb : pbuild) (ins outs : list bytes) : env :=
  [ (bs "in", [Lit (join_b (firstn (pb_explicit_ins pb) ins) 32%N)]);
    (bs "in_newline", [Lit (join_b (firstn (pb_explicit_ins pb) ins) 10%N)]);
    (bs "out", [Lit (join_b (firstn (pb_explicit_outs pb) outs) 32%N)]);
    (bs "out_newline", [Lit (join_b (firstn (pb_explicit_outs pb) outs) 10%N)]) ].

Lemma implicit_env_names l pb ins outs :
  implicit_env l pb ins outs = implicit_names pb (map (file_nm l) ins) (map (file_nm l) outs).
Proof. unfold implicit_env, implicit_names. rewrite !join_names_map, !firstn_map. reflexivity. Qed.

(* ------------------------------------------------------------------------------------ *)
(* the name-level view of a step, and the view a declaration asks for *)

Record step_view := mkView {
  sv_file : bytes; sv_line : Z;
  sv_ins : list bytes; sv_explicit_ins : nat; sv_implicit_ins : nat; sv_order_only_ins : nat;
  sv_outs : list bytes; sv_explicit_outs : nat;
  sv_cmdline : option bytes; sv_desc : option bytes; sv_depfile : option bytes;
  sv_showincludes : bool; sv_rspfile : option (bytes * bytes); sv_pool : option bytes;
  sv_hide_success : bool; sv_hide_progress : bool }.

Definition view (l : loader) (b : lbuild) : step_view :=
  mkView (lb_file b) (lb_line b) (map (file_nm l) (lb_ins b)) (lb_explicit_ins b) (lb_implicit_ins b)
         (lb_order_only_ins b) (map (file_nm l) (lb_outs b)) (lb_explicit_outs b)
         (lb_cmdline b) (lb_desc b) (lb_depfile b) (lb_showincludes b) (lb_rspfile b) (lb_pool b)
         (lb_hide_success b) (lb_hide_progress b).

(* every path expanded and canonicalised *)
Fixpoint canon_all (envs : list env) (ps : list evalstring) : option (list bytes) :=
  match ps with
  | [] => Some []
  | p :: r => match canon (evaluate envs p), canon_all envs r with
              | Ok n, Some ns => Some (n :: ns)
              | _, _ => None
              end
  end.

(* the step a `build` statement declares: inputs in declared order (the counts give the roles),
   outputs in declared order with repetitions dropped, the attributes looked up in the build block,
   then the rule (expanded with $in/$out, the build block, the file-level variables) *)
Definition decl_view (filename : bytes) (pb : pbuild) (vs : vars) (rules : list (bytes * varlist))
  : option step_view :=
  match canon_all [pb_vars pb; vars_env vs] (pb_ins pb),
        canon_all [pb_vars pb; vars_env vs] (pb_outs pb),
        assoc_b (pb_rule pb) rules with
  | Some ins, Some outs, Some rule =>
    let look := attr_lookup (pb_vars pb) rule (implicit_names pb ins outs) (vars_env vs) in
    Some (mkView filename (pb_line pb) ins (pb_explicit_ins pb) (pb_implicit_ins pb) (pb_order_only_ins pb)
                 (dedup_b outs) (length (dedup_b (firstn (pb_explicit_outs pb) outs)))
                 (look (bs "command")) (look (bs "description")) (look (bs "depfile"))
                 (match look (bs "deps") with Some d => bytes_eqb d (bs "msvc") | None => false end)
                 (match look (bs "rspfile"), look (bs "rspfile_content") with
                  | Some p, Some c => Some (p, c)
                  | _, _ => None
                  end)
                 (look (bs "pool"))
                 (is_some (look (bs "hide_success"))) (is_some (look (bs "hide_progress"))))
  | _, _, _ => None
  end.

Lemma canon_all_names l envs ps ids :
  Forall2 (names_at l envs) ps ids -> canon_all envs ps = Some (map (file_nm l) ids).
Proof.
  induction 1 as [|p id ps ids H1 H IH]; [reflexivity|].
  cbn [canon_all map]. unfold names_at in H1. rewrite H1, IH. reflexivity.
Qed.

Theorem build_ok_view l filename pb vs rules b :
  NamesUnique l -> build_ok l filename pb vs rules b ->
  decl_view filename pb vs rules = Some (view l b).
Proof.
  intros U (A1 & A2 & A3 & A4 & A5 & A6 & A7 & outs & rule & B1 & B2 & B3 & B4 & B5 & B6).
  cbv zeta in B6. destruct B6 as (C1 & C2 & C3 & C4 & C5 & C6 & C7 & C8).
  unfold decl_view. rewrite (canon_all_names _ _ _ _ A6), (canon_all_names _ _ _ _ B1), B5.
  cbv zeta. rewrite <- implicit_env_names. f_equal. unfold view.
  rewrite A1, A2, A3, A4, A5, B3, B4, C1, C2, C3, C4, C5, C6, C7, C8.
  rewrite (dedup_names0 l outs U B2).
  rewrite <- (map_length (file_nm l) (dedup (firstn (pb_explicit_outs pb) outs))).
  rewrite (dedup_names0 l _ U (ids_in_firstn l _ _ B2)), <- firstn_map.
  reflexivity.
Qed.

(* the same for default targets *)
Lemma default_ok_names l pvs ids :
  Forall2 (default_ok l) pvs ids ->
  Forall2 (fun pv n => canon (evaluate [vars_env (snd pv)] (fst pv)) = Ok n) pvs (map (file_nm l) ids).
Proof. induction 1; cbn [map]; constructor; assumption. Qed.
