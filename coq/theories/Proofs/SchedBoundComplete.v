(* C06, termination: from every reachable state at the top of the loop the acceptor's language
   contains a completed run.  The continuation is built one step of the graph at a time:
   a running task finishes successfully, a ready step is found clean, a queued step is
   started and finishes successfully, a waiting step whose producers are done is promoted;
   each of these lowers the potential of Proofs/SchedBound.v, and when none applies the
   loop can return. *)
From Coq Require Import Lia ZArith List Bool Arith.
From N2 Require Import Model.All Proofs.SchedSpec Proofs.SchedInv Proofs.SchedRunBase
     Proofs.SchedRunStep Proofs.SchedRunCore Proofs.SchedRunAux Proofs.SchedRunRInv
     Proofs.SchedRunThms Proofs.SchedRunFinal Proofs.SchedLive Proofs.SchedBoundSpec Proofs.SchedBound.
Import ListNotations.

Lemma bs_set_leave_running s b bd st :
  get_state s b = Running -> pool_find (bs_pools s) (pool_name bd) <> None ->
  st = Done \/ st = Failed -> exists s', bs_set s b bd st = Ok s'.
Proof.
  intros E F Hst. unfold bs_set. rewrite E. cbn [bstate_eqb bind].
  destruct (pool_find (bs_pools s) (pool_name bd)) as [p|] eqn:EF; [|contradiction].
  destruct (pool_update_some (bs_pools s) (pool_name bd)
              (fun p => mkPool (p_name p) (p_queued p) (p_running p - 1) (p_depth p)) p EF) as [ps ->].
  cbn [bind]. destruct Hst as [-> | ->]; cbn [bind]; eexists; reflexivity.
Qed.

Section Complete.
Variable cf : config.
Variable decls : list (bytes * nat).
Hypothesis Hwf : graph_wf (cf_graph cf).
Hypothesis Hpar : 1 <= cf_parallelism cf.
Notation g := (cf_graph cf).
Notation nb := (length (g_builds (cf_graph cf))).

Lemma reach_accepts : forall tr r r',
  reachable cf decls r -> accepts cf r tr = Some r' -> reachable cf decls r'.
Proof.
  induction tr as [|e tr IH]; intros r r' Hr H; cbn [accepts] in H.
  - injection H as <-. exact Hr.
  - destruct (accept1 cf r e) as [r1|] eqn:E1; [|discriminate].
    exact (IH r1 r' (reach_step cf decls r e r1 Hr E1) H).
Qed.

(* ---- single events, with the resulting state ---- *)

Lemma acc_pop r b q :
  rs_ctl r = CIdle -> get_state (rs_bs r) b = Ready -> remove_first b (bs_ready (rs_bs r)) = Some q ->
  accept1 cf r (EPopReady b) = Some (with_bs r (set_ready (rs_bs r) q) (CChecking b)).
Proof. intros Hc E Hq. unfold accept1. rewrite Hc, E, Hq. reflexivity. Qed.

Lemma acc_verdict_clean r b :
  rs_ctl r = CChecking b ->
  accept1 cf r (EVerdict b VClean) = Some (with_ctl r (CVerdict b VClean false)).
Proof.
  intro Hc. unfold accept1. rewrite Hc, Nat.eqb_refl. cbn [negb]. rewrite andb_false_r. reflexivity.
Qed.

Lemma acc_clean_done r b s' :
  rs_ctl r = CVerdict b VClean false -> bs_set (rs_bs r) b (get_build g b) Done = Ok s' ->
  accept1 cf r (ESet b Ready Done) = Some (with_bs r s' CIdle).
Proof.
  intros Hc Hs. unfold accept1. rewrite Hc, Nat.eqb_refl. cbn [negb andb]. rewrite Hs. reflexivity.
Qed.

Lemma acc_start r b :
  rs_ctl r = CStarting b ->
  accept1 cf r (EStart b) =
  Some (mkRS (rs_bs r) (S (rs_running r)) (rs_failed r) (rs_failures_left r) (rs_tasks_run r) CIdle).
Proof. intro Hc. unfold accept1. rewrite Hc, Nat.eqb_refl. reflexivity. Qed.

Lemma acc_finish r b t :
  rs_ctl r = CIdle -> get_state (rs_bs r) b = Running -> 0 < rs_running r ->
  accept1 cf r (EFinish b t) =
  Some (mkRS (rs_bs r) (pred (rs_running r)) (rs_failed r) (rs_failures_left r) (rs_tasks_run r)
             (CFinished b t false)).
Proof.
  intros Hc E Hrun. unfold accept1. rewrite Hc, E.
  assert (Hlt : (0 <? rs_running r) = true) by now apply Nat.ltb_lt.
  rewrite Hlt. reflexivity.
Qed.

Lemma acc_record r b :
  rs_ctl r = CFinished b TSuccess false ->
  accept1 cf r (ERecord b) = Some (with_ctl r (CFinished b TSuccess true)).
Proof. intro Hc. unfold accept1. rewrite Hc, Nat.eqb_refl. reflexivity. Qed.

Lemma acc_done r b rec s' :
  rs_ctl r = CFinished b TSuccess rec -> bs_set (rs_bs r) b (get_build g b) Done = Ok s' ->
  accept1 cf r (ESet b Running Done) =
  Some (mkRS s' (rs_running r) (rs_failed r) (rs_failures_left r) (S (rs_tasks_run r)) CIdle).
Proof. intros Hc Hs. unfold accept1. rewrite Hc, Nat.eqb_refl, Hs. destruct rec; reflexivity. Qed.

(* ---- the four macro steps ---- *)

Definition finish_evs (b : nat) : list event := [EFinish b TSuccess; ERecord b; ESet b Running Done].
Definition clean_evs (b : nat) : list event := [EPopReady b; EVerdict b VClean; ESet b Ready Done].
Definition run_evs (b : nat) : list event := [ESet b Queued Running; EStart b] ++ finish_evs b.

(* a running task finishes successfully *)
Lemma do_finish r b :
  rs_ctl r = CIdle -> get_state (rs_bs r) b = Running -> 0 < rs_running r ->
  pool_find (bs_pools (rs_bs r)) (pool_name (get_build g b)) <> None ->
  exists r2, accepts cf r (finish_evs b) = Some r2 /\ rs_ctl r2 = CIdle /\
             rs_running r2 = pred (rs_running r) /\ rs_failed r2 = rs_failed r.
Proof.
  intros Hc E Hrun Hpf.
  destruct (bs_set_leave_running (rs_bs r) b (get_build g b) Done E Hpf (or_introl eq_refl)) as [s' Hs].
  exists (mkRS s' (pred (rs_running r)) (rs_failed r) (rs_failures_left r) (S (rs_tasks_run r)) CIdle).
  split; [|cbn; auto].
  unfold finish_evs. cbn [accepts]. rewrite (acc_finish r b TSuccess Hc E Hrun).
  erewrite acc_record; [|reflexivity].
  erewrite acc_done; [reflexivity|reflexivity|exact Hs].
Qed.

(* a ready step is examined and found clean *)
Lemma do_clean r :
  reachable cf decls r -> rs_ctl r = CIdle -> bs_ready (rs_bs r) <> [] ->
  exists b r2, accepts cf r (clean_evs b) = Some r2 /\ rs_ctl r2 = CIdle /\
               rs_running r2 = rs_running r /\ rs_failed r2 = rs_failed r.
Proof.
  intros Hr Hc Hne.
  assert (B : BInv g decls (rs_bs r)) by (apply (reachable_BInv_closed cf decls Hwf r Hr); now left).
  destruct (bs_ready (rs_bs r)) as [|b q] eqn:ER; [contradiction|].
  assert (I : In b (bs_ready (rs_bs r))) by (rewrite ER; now left).
  apply (proj2 (bi_ready _ _ _ B)) in I. destruct I as [L E].
  assert (Hq : remove_first b (bs_ready (rs_bs r)) = Some q).
  { rewrite ER. cbn [remove_first]. now rewrite Nat.eqb_refl. }
  destruct (bs_set_total_nopool (set_ready (rs_bs r) q) b (get_build g b) Done) as [s' Hs];
    try (change (get_state (set_ready (rs_bs r) q) b) with (get_state (rs_bs r) b); rewrite E; discriminate);
    try discriminate.
  exists b, (with_bs r s' CIdle).
  split; [|cbn; auto].
  unfold clean_evs. cbn [accepts]. rewrite (acc_pop r b q Hc E Hq).
  erewrite acc_verdict_clean; [|reflexivity].
  erewrite acc_clean_done; [reflexivity|reflexivity|exact Hs].
Qed.

(* a queued step is started, and finishes successfully *)
Lemma do_run r :
  reachable cf decls r -> rs_ctl r = CIdle -> rs_running r = 0 -> some_startable (rs_bs r) = true ->
  exists b r2, accepts cf r (run_evs b) = Some r2 /\ rs_ctl r2 = CIdle /\
               rs_running r2 = rs_running r /\ rs_failed r2 = rs_failed r.
Proof.
  intros Hr Hc Hrun P.
  assert (B : BInv g decls (rs_bs r)) by (apply (reachable_BInv_closed cf decls Hwf r Hr); now left).
  unfold some_startable in P. apply existsb_exists in P. destruct P as (p & Ip & Hp2).
  apply andb_true_iff in Hp2. destruct Hp2 as [Room Hq].
  destruct (p_queued p) as [|b q] eqn:EQ; [discriminate|].
  assert (Iq : In b (p_queued p)) by (rewrite EQ; now left).
  destruct (bi_pool_queued _ _ _ B p b Ip Iq) as [E Hn].
  assert (F : pool_find (bs_pools (rs_bs r)) (pool_name (get_build g b)) = Some p).
  { rewrite Hn. apply pool_find_of_In; [exact (bi_pool_names_nodup _ _ _ B)|exact Ip]. }
  destruct (pool_update_some (bs_pools (rs_bs r)) (pool_name (get_build g b))
              (fun p0 => mkPool (p_name p0) q (p_running p0) (p_depth p0)) p F) as [ps EU].
  destruct (bs_set_total_run
              (mkBS (bs_states (rs_bs r)) (bs_counts (rs_bs r)) (bs_pending (rs_bs r)) (bs_ready (rs_bs r)) ps)
              b (get_build g b)) as [s' ES].
  { exact E. }
  { cbn [bs_pools]. apply (pool_find_names (bs_pools (rs_bs r)) ps).
    - eapply pool_update_map; [|exact EU]. intro p0. reflexivity.
    - rewrite F. discriminate. }
  assert (A1 : accept1 cf r (ESet b Queued Running) = Some (with_bs r s' (CStarting b))).
  { unfold accept1. rewrite Hc, E, F, Room, EQ, Hrun. cbn [bstate_eqb negb remove_first].
    rewrite Nat.eqb_refl.
    assert (Hlt : (0 <? cf_parallelism cf) = true) by (apply Nat.ltb_lt; lia).
    rewrite Hlt. cbn [negb]. rewrite EU, ES. reflexivity. }
  (* the state after ESet Queued Running: step b is Running and names a declared pool *)
  pose proof (reach_step cf decls r _ _ Hr A1) as Hr1.
  pose proof (ri_ctl _ _ _ (reachable_RInv_closed cf decls Hwf _ Hr1)) as K.
  cbn [with_bs rs_ctl rs_bs ctl_ok] in K. destruct K as (_ & QO & L & E1).
  assert (Hpf : pool_find (bs_pools s') (pool_name (get_build g b)) <> None).
  { apply (proj1 (QO b L)). rewrite E1. cbn. tauto. }
  destruct (do_finish
              (mkRS s' (S (rs_running r)) (rs_failed r) (rs_failures_left r) (rs_tasks_run r) CIdle) b
              eq_refl E1 (Nat.lt_0_succ _) Hpf) as (r2 & A2 & Hc2 & Hrun2 & Hf2).
  exists b, r2. split; [|cbn in Hrun2, Hf2; auto].
  unfold run_evs. cbn [app accepts]. rewrite A1.
  erewrite acc_start; [|reflexivity]. exact A2.
Qed.

(* a waiting step whose ordering producers are all done is promoted *)
Lemma do_promote r :
  rs_ctl r = CIdle -> some_promotable g (rs_bs r) = true ->
  exists d r2, accepts cf r [ESet d Want Ready] = Some r2 /\ rs_ctl r2 = CIdle /\
               rs_running r2 = rs_running r /\ rs_failed r2 = rs_failed r.
Proof.
  intros Hc P.
  unfold some_promotable in P. apply existsb_exists in P. destruct P as (d & Id & Hd).
  apply andb_true_iff in Hd. destruct Hd as [E PD]. apply bstate_eqb_eq in E.
  destruct (bs_set_total_nopool (rs_bs r) d (get_build g d) Ready) as [s' ES];
    try (rewrite E; discriminate); try discriminate.
  exists d, (with_bs r s' CIdle). split; [|cbn; auto].
  cbn [accepts]. unfold accept1. rewrite Hc, E, PD, ES. cbn [bstate_eqb andb]. reflexivity.
Qed.

(* ---- one macro step, or the return ---- *)

Definition macro_ok (r : rstate) (evs : list event) (r2 : rstate) : Prop :=
  accepts cf r evs = Some r2 /\ rs_ctl r2 = CIdle /\ rs_failed r2 = rs_failed r /\
  1 <= count_ev is_set evs /\ count_ev is_stutter evs = 0 /\ length evs <= 3 * count_ev is_set evs.

Lemma some_running r :
  reachable cf decls r -> rs_ctl r = CIdle -> 0 < rs_running r ->
  exists b, get_state (rs_bs r) b = Running /\
            pool_find (bs_pools (rs_bs r)) (pool_name (get_build g b)) <> None.
Proof.
  intros Hr Hc Hrun.
  pose proof (reachable_RInv_closed cf decls Hwf r Hr) as Hinv.
  pose proof (ri_running _ _ _ Hinv) as Rn. pose proof (ri_ctl _ _ _ Hinv) as K.
  rewrite Hc in Rn, K. cbn [run_count_ok run_shift ctl_ok] in Rn, K. destruct K as [_ QO].
  assert (Hpos : (0 < count_state g (rs_bs r) Running false)%Z) by (clear Hpar; lia).
  destruct (count_state_pos g (rs_bs r) Running Hpos) as (b & L & E).
  exists b. split; [exact E|]. apply (proj1 (QO b L)). rewrite E. cbn. tauto.
Qed.

(* nothing runs and nothing can progress: the loop can return *)
Lemma can_return r :
  reachable cf decls r -> rs_ctl r = CIdle -> rs_running r = 0 -> bs_ready (rs_bs r) = [] ->
  some_startable (rs_bs r) = false -> some_promotable g (rs_bs r) = false ->
  exists r', accept1 cf r (EReturn (Some (rs_failed r =? 0))) = Some r'.
Proof.
  intros Hr Hc Hrun ER ES EP.
  eexists. unfold accept1. rewrite Hc, Hrun, ER, ES, EP.
  cbn [Nat.eqb negb andb]. rewrite andb_true_r, eqb_reflx, andb_true_r.
  destruct (bs_pending (rs_bs r) =? 0)%Z eqn:Ez; [reflexivity|].
  destruct (0 <? rs_failed r) eqn:Ef; [reflexivity|]. exfalso.
  apply Z.eqb_neq in Ez. apply Nat.ltb_ge in Ef.
  assert (B : BInv g decls (rs_bs r)) by (apply (reachable_BInv_closed cf decls Hwf r Hr); now left).
  assert (Hp : (0 < bs_pending (rs_bs r))%Z).
  { pose proof (bi_pending _ _ _ B) as Ep.
    pose proof (count_state_nonneg g (rs_bs r) Want false). pose proof (count_state_nonneg g (rs_bs r) Ready false).
    pose proof (count_state_nonneg g (rs_bs r) Queued false). pose proof (count_state_nonneg g (rs_bs r) Running false).
    lia. }
  destruct (C06_progress cf decls Hwf r Hpar Hr Hc Hp Hrun ltac:(lia)) as [P|[P|P]]; congruence.
Qed.

Lemma macro_step r :
  reachable cf decls r -> rs_ctl r = CIdle ->
  (exists r', accept1 cf r (EReturn (Some (rs_failed r =? 0))) = Some r') \/
  (exists evs r2, macro_ok r evs r2).
Proof.
  intros Hr Hc.
  destruct (Nat.eq_dec (rs_running r) 0) as [Hrun|Hrun].
  2:{ (* a task is running: it finishes *)
      right. destruct (some_running r Hr Hc ltac:(lia)) as (b & E & Hpf).
      destruct (do_finish r b Hc E ltac:(lia) Hpf) as (r2 & A & Hc2 & _ & Hf2).
      exists (finish_evs b), r2. unfold macro_ok. repeat split; auto; cbn; lia. }
  destruct (bs_ready (rs_bs r)) as [|b0 q0] eqn:ER.
  2:{ right. destruct (do_clean r Hr Hc ltac:(rewrite ER; discriminate)) as (b & r2 & A & Hc2 & _ & Hf2).
      exists (clean_evs b), r2. unfold macro_ok. repeat split; auto; cbn; lia. }
  destruct (some_startable (rs_bs r)) eqn:ES.
  { right. destruct (do_run r Hr Hc Hrun ES) as (b & r2 & A & Hc2 & _ & Hf2).
    exists (run_evs b), r2. unfold macro_ok. repeat split; auto; cbn; lia. }
  destruct (some_promotable g (rs_bs r)) eqn:EP.
  { right. destruct (do_promote r Hc EP) as (d & r2 & A & Hc2 & _ & Hf2).
    exists [ESet d Want Ready], r2. unfold macro_ok. repeat split; auto; cbn; lia. }
  (* nothing can progress: the loop returns *)
  left. exact (can_return r Hr Hc Hrun ER ES EP).
Qed.

(* ---- iteration ---- *)

Lemma can_complete_gen : forall k r,
  run_potential g (rs_bs r) <= k -> reachable cf decls r -> rs_ctl r = CIdle ->
  exists evs r',
    accepts cf r (evs ++ [EReturn (Some (rs_failed r =? 0))]) = Some r' /\
    count_ev is_stutter evs = 0 /\ length evs <= 3 * run_potential g (rs_bs r).
Proof.
  induction k as [|k IH]; intros r Hk Hr Hc.
  - destruct (macro_step r Hr Hc) as [[r' A]|(evs & r2 & A & _ & _ & S1 & _ & _)].
    + exists [], r'. cbn [app accepts]. rewrite A. repeat split; cbn; lia.
    + pose proof (sets_bound_RInv cf decls r r2 evs (reachable_RInv_closed cf decls Hwf r Hr) A). lia.
  - destruct (macro_step r Hr Hc) as [[r' A]|(evs1 & r2 & A & Hc2 & Hf2 & S1 & St1 & Len1)].
    + exists [], r'. cbn [app accepts]. rewrite A. repeat split; cbn; lia.
    + pose proof (sets_bound_RInv cf decls r r2 evs1 (reachable_RInv_closed cf decls Hwf r Hr) A) as Pot.
      destruct (IH r2 ltac:(lia) (reach_accepts evs1 r r2 Hr A) Hc2) as (evs2 & r' & A2 & St2 & Len2).
      exists (evs1 ++ evs2), r'. rewrite <- app_assoc, accepts_app, A, <- Hf2.
      split; [exact A2|]. rewrite count_ev_app, app_length. lia.
Qed.

Theorem C06_can_complete r :
  reachable cf decls r -> rs_ctl r = CIdle ->
  exists evs r',
    accepts cf r (evs ++ [EReturn (Some (rs_failed r =? 0))]) = Some r' /\
    rs_ctl r' = CReturned (Some (rs_failed r =? 0)) /\
    count_ev is_stutter evs = 0 /\
    length evs <= 3 * run_potential g (rs_bs r) /\ run_potential g (rs_bs r) <= 4 * nb.
Proof.
  intros Hr Hc.
  destruct (can_complete_gen (run_potential g (rs_bs r)) r (le_n _) Hr Hc) as (evs & r' & A & St & Len).
  exists evs, r'. split; [exact A|]. split; [|split; [exact St|split; [exact Len|apply run_potential_le]]].
  rewrite accepts_app in A. destruct (accepts cf r evs) as [r1|]; [|discriminate].
  cbn [accepts] in A. destruct (accept1 cf r1 _) as [r2|] eqn:E; [|discriminate].
  injection A as <-. apply accept1_step in E. inversion E; subst; reflexivity.
Qed.

End Complete.
