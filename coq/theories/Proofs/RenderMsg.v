(* Proofs about Model/Render.v: task_message (fixed) and the pinned-tree refutation. *)
From Coq Require Import String.
From Coq Require Import List NArith Arith Lia Bool.
From N2 Require Import Base.Base Model.Scanner Model.Render Proofs.RenderTrunc.
Import ListNotations.

Lemma task_message_ok m secs cols :
  exists r, task_message m secs cols = Ok r /\ (length r <= cols)%nat /\
            (utf8_ok m = true -> utf8_ok r = true).
Proof.
  unfold task_message. cbv zeta. eexists. split; [reflexivity|].
  split; [apply truncate_length_le|].
  intros Hm. apply truncate_utf8. apply utf8_app; [|apply time_note_utf8].
  destruct (cols <=? length m + length (time_note secs))%nat; [|exact Hm].
  apply utf8_app; [apply truncate_utf8; exact Hm | reflexivity].
Qed.

Lemma task_message_fits m secs cols :
  (length m + length (time_note secs) < cols)%nat ->
  task_message m secs cols = Ok (m ++ time_note secs).
Proof.
  intros H. unfold task_message. cbv zeta.
  assert (E : (cols <=? length m + length (time_note secs))%nat = false)
    by (apply Nat.leb_gt; exact H).
  rewrite E. rewrite truncate_fits; [reflexivity|].
  rewrite app_length. lia.
Qed.

Lemma task_message_pinned_refuted :
  (exists m secs cols, (10 <= cols)%nat /\ utf8_ok m = true /\ (secs <= 1000000)%N /\
                       task_message_pinned m secs cols = Panic 30%N) /\
  (exists m secs cols, (10 <= cols)%nat /\ utf8_ok m = true /\ (secs <= 1000000)%N /\
                       task_message_pinned m secs cols = Panic 31%N).
Proof.
  split.
  - exists [240%N; 159%N; 152%N; 128%N], 99%N, 10%nat.
    split; [lia|]. split; [reflexivity|]. split; [lia|]. vm_compute. reflexivity.
  - exists [], 1000000%N, 10%nat.
    split; [lia|]. split; [reflexivity|]. split; [lia|]. vm_compute. reflexivity.
Qed.
