(* C13: the in-place index machine [canon_impl] computes the functional form [canon];
   no OutOfBounds site is reachable. *)
From Coq Require Import List NArith Arith Lia Bool.
From N2 Require Import Model.All Proofs.CanonBase.
Import ListNotations.
Local Open Scope nat_scope.

(* ---------------------------------------------------------------------------------- *)
(* list helpers *)

Lemma nth_error_skipn_None {A} (l : list A) : forall i, nth_error l i = None -> skipn i l = [].
Proof.
  induction l as [|x l IH]; intros [|i] H; try reflexivity; try discriminate.
  cbn [nth_error] in H. cbn [skipn]. auto.
Qed.

Lemma nth_error_skipn_Some {A} (l : list A) : forall i c, nth_error l i = Some c ->
  skipn i l = c :: skipn (S i) l /\ i < length l.
Proof.
  induction l as [|x l IH]; intros [|i] c H; try discriminate.
  - cbn [nth_error] in H. injection H as ->. cbn [skipn length]. split; [reflexivity | lia].
  - cbn [nth_error] in H. destruct (IH i c H) as [E L]. cbn [length]. split; [|lia].
    change (skipn i l = c :: skipn (S i) l). exact E.
Qed.

Lemma set_nth_length l : forall i v, length (set_nth l i v) = length l.
Proof.
  induction l as [|x l IH]; intros [|i] v; try reflexivity.
  cbn [set_nth length]. rewrite IH. reflexivity.
Qed.

Lemma set_nth_firstn_S l : forall i v, i < length l ->
  firstn (S i) (set_nth l i v) = firstn i l ++ [v].
Proof.
  induction l as [|x l IH]; intros [|i] v H; cbn [length] in H; try lia.
  - reflexivity.
  - cbn [set_nth]. change (x :: firstn (S i) (set_nth l i v) = x :: (firstn i l ++ [v])).
    rewrite IH by lia. reflexivity.
Qed.

Lemma set_nth_skipn l : forall i k v, i < k -> skipn k (set_nth l i v) = skipn k l.
Proof.
  induction l as [|x l IH]; intros [|i] [|k] v H; try lia; try reflexivity.
  cbn [set_nth skipn]. apply IH. lia.
Qed.

Lemma skipn_length_le {A} (l : list A) i : length l <= i -> skipn i l = [].
Proof. intro H. apply skipn_all2. exact H. Qed.

Lemma firstn_len_app {A} (a b : list A) : firstn (length a) (a ++ b) = a.
Proof. induction a as [|x a IH]; [reflexivity|]. cbn. rewrite IH. reflexivity. Qed.

Lemma skipn_len_app {A} (a b : list A) k : skipn (length a + k) (a ++ b) = skipn k b.
Proof. induction a as [|x a IH]; [reflexivity|]. cbn. exact IH. Qed.

Lemma skipn_add {A} (l : list A) : forall y x, skipn x (skipn y l) = skipn (y + x) l.
Proof.
  induction l as [|c l IH]; intros [|y] x; try reflexivity.
  - cbn [skipn]. destruct x; reflexivity.
  - cbn [skipn plus]. apply IH.
Qed.

(* copy_within *)
Lemma copy_within_spec data s e d : d <= s -> s <= e -> e <= length data ->
  length (copy_within data s e d) = length data /\
  firstn (d + (e - s)) (copy_within data s e d)
    = firstn d data ++ firstn (e - s) (skipn s data) /\
  skipn e (copy_within data s e d) = skipn e data.
Proof.
  intros Hds Hse Hel. unfold copy_within.
  set (a := firstn d data). set (b := firstn (e - s) (skipn s data)).
  assert (La : length a = d) by (unfold a; rewrite firstn_length; lia).
  assert (Lb : length b = e - s) by (unfold b; rewrite firstn_length, skipn_length; lia).
  split; [|split].
  - rewrite !app_length, La, Lb, skipn_length. lia.
  - rewrite app_assoc.
    replace (d + (e - s)) with (length (a ++ b)) by (rewrite app_length, La, Lb; lia).
    apply firstn_len_app.
  - rewrite app_assoc.
    replace e with (length (a ++ b) + (s - d)) at 1 by (rewrite app_length, La, Lb; lia).
    rewrite skipn_len_app, skipn_add. f_equal. lia.
Qed.

(* take_comp through find_sep *)
Lemma take_comp_find l :
  match find_sep l with
  | Some pos => take_comp l = (firstn (S pos) l, skipn (S pos) l) /\ pos < length l
  | None => take_comp l = (l, [])
  end.
Proof.
  induction l as [|c l IH]; [reflexivity|].
  cbn [find_sep take_comp]. destruct (is_sep c).
  - cbn [length]. split; [reflexivity | lia].
  - destruct (find_sep l) as [pos|]; cbn [option_map].
    + destruct IH as [-> L]. cbn [length]. split; [reflexivity | lia].
    + rewrite IH. reflexivity.
Qed.

(* ---------------------------------------------------------------------------------- *)
(* one-step unfoldings with the "ordinary component" branch named *)

Definition impl_ordinary (fuel : nat) (data : bytes) (dst src : nat) (stack : list nat)
  : outcome (bytes * nat) :=
  if (stack_cap <=? length stack)%nat then Panic 1%N else
  let stop := match find_sep (skipn src data) with
              | Some pos => (src + pos + 1)%nat
              | None => length data
              end in
  if negb ((dst <=? src)%nat && (src <=? stop)%nat && (stop <=? length data)%nat)
  then OutOfBounds 4%N
  else impl_loop fuel (copy_within data src stop dst) (dst + (stop - src))%nat stop
                 (dst :: stack).

Lemma impl_loop_S fuel data dst src stack :
  impl_loop (S fuel) data dst src stack =
    match nth_error data src with
    | None => Ok (data, dst)
    | Some cur =>
      if is_sep cur then impl_loop fuel data dst (S src) stack
      else if (cur =? 46)%N then
        match nth_error data (S src) with
        | None => Ok (data, dst)
        | Some next =>
          if is_sep next then impl_loop fuel data dst (S (S src)) stack
          else if (next =? 46)%N then
            let third := nth_error data (S (S src)) in
            if is_sep_or_end third then
              match stack with
              | ofs :: st => impl_loop fuel data ofs (S (S (S src))) st
              | [] =>
                if negb (dst <? length data)%nat then OutOfBounds 1%N else
                let data := set_nth data dst 46%N in
                let dst := S dst in
                if negb (dst <? length data)%nat then OutOfBounds 2%N else
                let data := set_nth data dst 46%N in
                let dst := S dst in
                match third with
                | Some sep =>
                  if negb (dst <? length data)%nat then OutOfBounds 3%N else
                  impl_loop fuel (set_nth data dst sep) (S dst) (S (S (S src))) []
                | None => impl_loop fuel data dst (S (S (S src))) []
                end
              end
            else impl_ordinary fuel data dst src stack
          else impl_ordinary fuel data dst src stack
        end
      else impl_ordinary fuel data dst src stack
    end.
Proof. reflexivity. Qed.

Lemma go_S fuel out stack src :
  go (S fuel) out stack src =
    match src with
    | [] => Ok out
    | cur :: rest =>
      if is_sep cur then go fuel out stack rest
      else if (cur =? 46)%N then
        match rest with
        | [] => Ok out
        | next :: rest2 =>
          if is_sep next then go fuel out stack rest2
          else if (next =? 46)%N then
            match rest2 with
            | [] =>
              match stack with
              | ofs :: st => go fuel (firstn ofs out) st []
              | [] => go fuel (out ++ [46; 46]%N) [] []
              end
            | third :: rest3 =>
              if is_sep third then
                match stack with
                | ofs :: st => go fuel (firstn ofs out) st rest3
                | [] => go fuel (out ++ [46; 46; third]%N) [] rest3
                end
              else ordinary fuel out stack src
            end
          else ordinary fuel out stack src
        end
      else ordinary fuel out stack src
    end.
Proof. reflexivity. Qed.

(* ---------------------------------------------------------------------------------- *)
(* the simulation *)

Fixpoint stk_ok (dst : nat) (stack : list nat) : Prop :=
  match stack with [] => True | ofs :: st => ofs <= dst /\ stk_ok ofs st end.

Lemma stk_ok_mono stack : forall d d', d <= d' -> stk_ok d stack -> stk_ok d' stack.
Proof.
  destruct stack as [|ofs st]; intros d d' H S; [exact I|].
  cbn [stk_ok] in *. destruct S. split; [lia | assumption].
Qed.

Definition rel (len : nat) (r : outcome (bytes * nat)) (g : outcome bytes) : Prop :=
  match r with
  | Ok (d', dst') => g = Ok (firstn dst' d') /\ dst' <= length d' /\ length d' = len
  | Panic s => g = Panic s
  | OutOfFuel => g = OutOfFuel
  | Err _ => False
  | OutOfBounds _ => False
  end.

Definition Sim (fuel : nat) : Prop :=
  forall data dst src stack, dst <= src -> dst <= length data -> stk_ok dst stack ->
  rel (length data) (impl_loop fuel data dst src stack)
      (go fuel (firstn dst data) stack (skipn src data)).

(* the induction hypothesis, in the form it is applied *)
Lemma Sim_apply fuel : Sim fuel ->
  forall len data dst src stack out rest,
    dst <= src -> dst <= length data -> stk_ok dst stack ->
    length data = len -> firstn dst data = out -> skipn src data = rest ->
    rel len (impl_loop fuel data dst src stack) (go fuel out stack rest).
Proof. intros IH len data dst src stack out rest H1 H2 H3 <- <- <-. apply IH; assumption. Qed.

Lemma sim_ordinary fuel : Sim fuel ->
  forall data dst src stack, dst <= src -> src < length data -> stk_ok dst stack ->
  rel (length data) (impl_ordinary fuel data dst src stack)
      (ordinary fuel (firstn dst data) stack (skipn src data)).
Proof.
  intros IH data dst src stack Hds Hsl Hst.
  unfold impl_ordinary, ordinary.
  destruct (stack_cap <=? length stack); [reflexivity|].
  pose proof (take_comp_find (skipn src data)) as HT.
  assert (Lsk : length (skipn src data) = length data - src) by apply skipn_length.
  assert (Lout : length (firstn dst data) = dst) by (rewrite firstn_length; lia).
  destruct (find_sep (skipn src data)) as [pos|].
  - destruct HT as [-> Hpos].
    assert (Hstop : src + pos + 1 <= length data) by lia.
    replace ((dst <=? src) && (src <=? src + pos + 1) && (src + pos + 1 <=? length data))
      with true
      by (symmetry; rewrite !andb_true_iff; repeat split; apply Nat.leb_le; lia).
    cbn [negb].
    destruct (copy_within_spec data src (src + pos + 1) dst) as (L & F & K); try lia.
    rewrite Lout.
    apply (Sim_apply fuel IH); try lia.
    + cbn [stk_ok]. split; [lia | assumption].
    + rewrite F. f_equal. f_equal. lia.
    + rewrite K. rewrite skipn_add. f_equal. lia.
  - rewrite HT.
    replace ((dst <=? src) && (src <=? length data) && (length data <=? length data))
      with true
      by (symmetry; rewrite !andb_true_iff; repeat split; apply Nat.leb_le; lia).
    cbn [negb].
    destruct (copy_within_spec data src (length data) dst) as (L & F & K); try lia.
    rewrite Lout.
    apply (Sim_apply fuel IH); try lia.
    + cbn [stk_ok]. split; [lia | assumption].
    + rewrite F. f_equal. apply firstn_all2. lia.
    + rewrite K. apply skipn_all.
Qed.

Lemma firstn_firstn_le {A} (l : list A) i j : i <= j -> firstn i (firstn j l) = firstn i l.
Proof. intro H. rewrite firstn_firstn. f_equal. lia. Qed.

Lemma ltb_true a b : a < b -> (a <? b) = true.
Proof. apply Nat.ltb_lt. Qed.

Lemma sim_all : forall fuel, Sim fuel.
Proof.
  induction fuel as [|fuel IH]; intros data dst src stack Hds Hdl Hst; [reflexivity|].
  pose proof (sim_ordinary fuel IH data dst src stack Hds) as HO.
  rewrite impl_loop_S.
  destruct (nth_error data src) as [cur|] eqn:E0.
  2:{ rewrite (nth_error_skipn_None _ _ E0). cbn [go rel]. auto. }
  destruct (nth_error_skipn_Some _ _ _ E0) as [K0 L0]. specialize (HO L0 Hst).
  rewrite K0 in *. rewrite go_S.
  destruct (is_sep cur).
  { apply (Sim_apply fuel IH); auto; lia. }
  destruct (cur =? 46)%N; [|exact HO].
  destruct (nth_error data (S src)) as [next|] eqn:E1.
  2:{ rewrite (nth_error_skipn_None _ _ E1). cbn [rel]. auto. }
  destruct (nth_error_skipn_Some _ _ _ E1) as [K1 L1].
  rewrite K1 in *.
  destruct (is_sep next).
  { apply (Sim_apply fuel IH); auto; lia. }
  destruct (next =? 46)%N; [|exact HO].
  cbn zeta.
  destruct (nth_error data (S (S src))) as [third|] eqn:E2.
  - destruct (nth_error_skipn_Some _ _ _ E2) as [K2 L2].
    rewrite K2 in *. cbn [is_sep_or_end].
    destruct (is_sep third); [|exact HO].
    destruct stack as [|ofs st].
    + rewrite (ltb_true dst (length data)) by lia. cbn [negb].
      rewrite set_nth_length. rewrite (ltb_true (S dst) (length data)) by lia. cbn [negb].
      rewrite !set_nth_length. rewrite (ltb_true (S (S dst)) (length data)) by lia. cbn [negb].
      apply (Sim_apply fuel IH); try exact I.
      * lia.
      * rewrite !set_nth_length. lia.
      * rewrite !set_nth_length. reflexivity.
      * rewrite set_nth_firstn_S by (rewrite !set_nth_length; lia).
        rewrite set_nth_firstn_S by (rewrite !set_nth_length; lia).
        rewrite set_nth_firstn_S by lia.
        rewrite <- !app_assoc. reflexivity.
      * rewrite !set_nth_skipn by lia. reflexivity.
    + cbn [stk_ok] in Hst. destruct Hst as [Ho Hst].
      apply (Sim_apply fuel IH); auto; try lia.
      symmetry; apply firstn_firstn_le; assumption.
  - rewrite (nth_error_skipn_None _ _ E2) in *. cbn [is_sep_or_end].
    destruct stack as [|ofs st].
    + rewrite (ltb_true dst (length data)) by lia. cbn [negb].
      rewrite set_nth_length. rewrite (ltb_true (S dst) (length data)) by lia. cbn [negb].
      apply (Sim_apply fuel IH); try exact I.
      * lia.
      * rewrite !set_nth_length. lia.
      * rewrite !set_nth_length. reflexivity.
      * rewrite set_nth_firstn_S by (rewrite !set_nth_length; lia).
        rewrite set_nth_firstn_S by lia.
        rewrite <- !app_assoc. reflexivity.
      * rewrite !set_nth_skipn by lia.
        apply skipn_all2. apply nth_error_None in E2. lia.
    + cbn [stk_ok] in Hst. destruct Hst as [Ho Hst].
      apply (Sim_apply fuel IH); auto; try lia.
      * symmetry; apply firstn_firstn_le; assumption.
      * apply skipn_all2. apply nth_error_None in E2. lia.
Qed.

Theorem canon_refines : forall p, canon_impl p = canon p.
Proof.
  intros [|c0 r]; [reflexivity|].
  unfold canon_impl, canon.
  set (p := c0 :: r).
  destruct (is_sep c0).
  - pose proof (sim_all (S (length p)) p 1 1 []) as H.
    change (firstn 1 p) with [c0] in H. change (skipn 1 p) with r in H.
    assert (L : 1 <= length p) by (cbn [p length]; lia).
    specialize (H (le_n _) L I).
    destruct (impl_loop (S (length p)) p 1 1 []) as [[data dst]|m|s|s|]; cbn [rel] in H;
      try contradiction; try (rewrite H; reflexivity).
    destruct H as (-> & Hd & Hl). cbn [bind].
    destruct dst as [|dst].
    + destruct data; [cbn [length] in Hl; lia | reflexivity].
    + apply Nat.leb_le in Hd as Hd'. rewrite Hd'.
      destruct data; [cbn [length] in Hd; lia | reflexivity].
  - pose proof (sim_all (S (length p)) p 0 0 []) as H.
    change (firstn 0 p) with (@nil N) in H. change (skipn 0 p) with p in H.
    assert (L : 1 <= length p) by (cbn [p length]; lia).
    specialize (H (le_n _) (Nat.le_0_l _) I).
    destruct (impl_loop (S (length p)) p 0 0 []) as [[data dst]|m|s|s|]; cbn [rel] in H;
      try contradiction; try (rewrite H; reflexivity).
    destruct H as (-> & Hd & Hl). cbn [bind].
    destruct dst as [|dst].
    + destruct data; [cbn [length] in Hl; lia | reflexivity].
    + apply Nat.leb_le in Hd as Hd'. rewrite Hd'.
      destruct data; [cbn [length] in Hd; lia | reflexivity].
Qed.
