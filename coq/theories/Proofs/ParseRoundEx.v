(* C10: the spelling relations of ParseSpec are inhabited by realistic texts, and the parser model
   run on them ([vm_compute]) gives the declared objects. *)
From Coq Require Import String.
From N2 Require Import Model.All Proofs.ParseSpell.

Definition nl : bytes := [10%N].

(* ------------------------------------------------------------------------------------ *)
(* Stage 1 *)

Definition ex1_text : bytes := bs "a$ b${x.y}$z.o $" ++ nl ++ bs "   c".
Definition ex1_eval : evalstring := [Lit (bs "a b"); Var (bs "x.y"); Var (bs "z"); Lit (bs ".o c")].

Example ex1_spells : spells_eval false ex1_eval ex1_text.
Proof.
  exists [Lit (bs "a"); Lit (bs " "); Lit (bs "b"); Var (bs "x.y"); Var (bs "z"); Lit (bs ".o "); Lit (bs "c")].
  split; [|reflexivity].
  vm_compute.
  refine (se_lit false [97%N] _ _ _ _ _); [discriminate | reflexivity|].
  refine (se_esc false 32%N _ _ _ _); [now left|].
  refine (se_lit false [98%N] _ _ _ _ _); [discriminate | reflexivity|].
  refine (se_bvar false [120; 46; 121]%N _ _ _ _ _); [discriminate | reflexivity|].
  refine (se_var false [122%N] _ _ _ _ _ _); [discriminate | reflexivity | | reflexivity].
  refine (se_lit false [46; 111; 32]%N _ _ _ _ _); [discriminate | reflexivity|].
  refine (se_cont false 3 _ _ _ _); [|discriminate].
  refine (se_lit false [99%N] _ [] _ _ _); [discriminate | reflexivity|].
  constructor.
Qed.

Example ex1_run :
  read_eval 100 false (mkScanner (ex1_text ++ nl ++ [0%N]) 0 1) =
  SOk [Lit (bs "a"); Lit (bs " "); Lit (bs "b"); Var (bs "x.y"); Var (bs "z"); Lit (bs ".o "); Lit []; Lit (bs "c")]
      (mkScanner (ex1_text ++ nl ++ [0%N]) (length ex1_text) 2).
Proof. vm_compute. reflexivity. Qed.

Example ex1_norm :
  norm_eval [Lit (bs "a"); Lit (bs " "); Lit (bs "b"); Var (bs "x.y"); Var (bs "z"); Lit (bs ".o "); Lit []; Lit (bs "c")]
  = ex1_eval.
Proof. vm_compute. reflexivity. Qed.

(* ------------------------------------------------------------------------------------ *)
(* Stages 2 and 3: a build statement with every section and a binding, spelled in two ways *)

Lemma plain_raw path l :
  l <> [] -> forallb (plain_char path) l = true -> spells_eval_raw path [Lit l] l.
Proof.
  intros Hne Hall. rewrite <- (app_nil_r l) at 2. apply se_lit; [exact Hne | exact Hall | constructor].
Qed.

Lemma plain_path_text l : l <> [] -> forallb (plain_char true) l = true -> path_text [Lit l] l.
Proof.
  intros Hne Hall. split; [|split; [exact Hne|]].
  - exists [Lit l]. split; [now apply plain_raw | reflexivity].
  - intros r ->. discriminate Hall.
Qed.

Lemma plain_value_text l :
  l <> [] -> forallb (plain_char false) l = true -> hd 0%N l <> 32%N -> value_text [Lit l] l.
Proof.
  intros Hne Hall Hhd. split; [|split].
  - exists [Lit l]. split; [now apply plain_raw | reflexivity].
  - intros r ->. discriminate Hall.
  - intros r ->. apply Hhd. reflexivity.
Qed.

Ltac plain := apply plain_path_text; [discriminate | reflexivity].
Ltac sep0 := split; [constructor | now left].
Ltac sep1 := split; [repeat constructor | right; eexists; reflexivity].

(* one path, followed by the white space [w] *)
Lemma paths_one l w :
  l <> [] -> forallb (plain_char true) l = true -> path_sep w -> spells_paths [[Lit l]] (l ++ w ++ []).
Proof.
  intros Hne Hall Hw. apply sp_cons; [now apply plain_path_text | exact Hw | intro H; now elim H | constructor].
Qed.

Definition p (s : string) : evalstring := [Lit (bs s)].

Definition ex_decl : build_decl :=
  mkDecl [p "a.o"] [p "a.map"] (bs "cc") [p "a.c"] [p "h.h"] [p "gen"] [p "val"].
Definition ex_block : list (bytes * evalstring) := [(bs "cflags", p "-O2")].
Definition ex_build : statement := SBuild (decl_build ex_decl 1 (block_vars ex_block)).

(* the usual spelling *)
Definition ex_text_a : bytes :=
  bs "build a.o | a.map: cc a.c | h.h || gen |@ val" ++ nl ++ bs "  cflags = -O2" ++ nl.
(* no optional spaces, a space in front of ':', a line continuation, one space of indentation *)
Definition ex_text_b : bytes :=
  bs "build a.o|a.map :cc$" ++ nl ++ bs "    a.c|h.h||gen|@val" ++ nl ++ bs " cflags=-O2" ++ nl.

Definition sp1 : bytes := [32%N].

Example ex_block_a : spells_block (fun _ => true) ex_block
  (repeat 32%N 2 ++ bs "cflags" ++ sp1 ++ [61%N] ++ sp1 ++ bs "-O2" ++ [10%N] ++ []).
Proof.
  apply sb_cons;
    [split; [discriminate | reflexivity] | reflexivity | repeat constructor | repeat constructor
     | apply plain_value_text; [discriminate | reflexivity | discriminate] | constructor].
Qed.

Example ex_block_b : spells_block (fun _ => true) ex_block
  (repeat 32%N 1 ++ bs "cflags" ++ [] ++ [61%N] ++ [] ++ bs "-O2" ++ [10%N] ++ []).
Proof.
  apply sb_cons;
    [split; [discriminate | reflexivity] | reflexivity | repeat constructor | repeat constructor
     | apply plain_value_text; [discriminate | reflexivity | discriminate] | constructor].
Qed.

Example ex_line_a : spells_build_line ex_decl
  ((bs "a.o" ++ sp1 ++ []) ++ (124%N :: sp1 ++ bs "a.map" ++ [] ++ []) ++ [58%N] ++ sp1 ++ bs "cc" ++
   (sp1 ++ bs "a.c" ++ sp1 ++ []) ++
   (124%N :: (sp1 ++ bs "h.h" ++ sp1 ++ []) ++
    (124%N :: 124%N :: (sp1 ++ bs "gen" ++ sp1 ++ []) ++
     (124%N :: 64%N :: (sp1 ++ bs "val" ++ [] ++ []) ++ [10%N])))).
Proof.
  eexists _, _, _, _, _. split; [reflexivity|].
  split; [apply paths_one; [discriminate | reflexivity | sep1]|].
  split; [apply io_some; exists sp1, (bs "a.map" ++ [] ++ []); split; [reflexivity|]; split;
          [repeat constructor | apply paths_one; [discriminate | reflexivity | sep0]]|].
  split; [repeat constructor|].
  split; [split; [discriminate | reflexivity]|].
  split; [exists sp1, (bs "a.c" ++ sp1 ++ []); split; [reflexivity|]; split;
          [repeat constructor | apply paths_one; [discriminate | reflexivity | sep1]]|].
  split; [|reflexivity].
  apply it_some; [| |intros r E; discriminate E | intros r E; discriminate E].
  - exists sp1, (bs "h.h" ++ sp1 ++ []). split; [reflexivity|]. split;
      [repeat constructor | apply paths_one; [discriminate | reflexivity | sep1]].
  - apply ot_some.
    + exists sp1, (bs "gen" ++ sp1 ++ []). split; [reflexivity|]. split;
        [repeat constructor | apply paths_one; [discriminate | reflexivity | sep1]].
    + apply vt_some. exists sp1, (bs "val" ++ [] ++ []). split; [reflexivity|]. split;
        [repeat constructor | apply paths_one; [discriminate | reflexivity | sep0]].
Qed.

Definition cont4 : bytes := 36%N :: 10%N :: repeat 32%N 4.

Example ex_line_b : spells_build_line ex_decl
  ((bs "a.o" ++ [] ++ []) ++ (124%N :: [] ++ bs "a.map" ++ sp1 ++ []) ++ [58%N] ++ [] ++ bs "cc" ++
   (cont4 ++ bs "a.c" ++ [] ++ []) ++
   (124%N :: ([] ++ bs "h.h" ++ [] ++ []) ++
    (124%N :: 124%N :: ([] ++ bs "gen" ++ [] ++ []) ++
     (124%N :: 64%N :: ([] ++ bs "val" ++ [] ++ []) ++ [10%N])))).
Proof.
  eexists _, _, _, _, _. split; [reflexivity|].
  split; [apply paths_one; [discriminate | reflexivity | sep0]|].
  split; [apply io_some; exists [], (bs "a.map" ++ sp1 ++ []); split; [reflexivity|]; split;
          [repeat constructor | apply paths_one; [discriminate | reflexivity | sep1]]|].
  split; [repeat constructor|].
  split; [split; [discriminate | reflexivity]|].
  split; [exists cont4, (bs "a.c" ++ [] ++ []); split; [reflexivity|]; split;
          [repeat constructor | apply paths_one; [discriminate | reflexivity | sep0]]|].
  split; [|reflexivity].
  apply it_some; [| |intros r E; discriminate E | intros r E; discriminate E].
  - exists [], (bs "h.h" ++ [] ++ []). split; [reflexivity|]. split;
      [repeat constructor | apply paths_one; [discriminate | reflexivity | sep0]].
  - apply ot_some.
    + exists [], (bs "gen" ++ [] ++ []). split; [reflexivity|]. split;
        [repeat constructor | apply paths_one; [discriminate | reflexivity | sep0]].
    + apply vt_some. exists [], (bs "val" ++ [] ++ []). split; [reflexivity|]. split;
        [repeat constructor | apply paths_one; [discriminate | reflexivity | sep0]].
Qed.

Example ex_spells_a : spells_stmt 1 ex_build ex_text_a.
Proof.
  pose proof (ss_build 1 sp1 ex_decl _ ex_block _ ltac:(repeat constructor) ex_line_a eq_refl ex_block_a) as H.
  exact H.
Qed.

Example ex_spells_b : spells_stmt 1 ex_build ex_text_b.
Proof.
  pose proof (ss_build 1 sp1 ex_decl _ ex_block _ ltac:(repeat constructor) ex_line_b eq_refl ex_block_b) as H.
  exact H.
Qed.

(* the parser model on both texts, in front of a comment, a blank line and a file-level binding *)
Definition ex_filler : bytes := bs "# comment" ++ nl ++ nl ++ bs "x = 1" ++ nl.

Example ex_filler_spells : spells_pre [] [(bs "x", bs "1")] ex_filler.
Proof.
  change ex_filler with (35%N :: bs " comment" ++ 10%N :: 10%N ::
                         (bs "x" ++ sp1 ++ [61%N] ++ sp1 ++ bs "1" ++ [10%N] ++ [])).
  apply pr_comment; [reflexivity|]. apply pr_blank.
  apply (pr_bind (bs "x") sp1 sp1 (p "1") (bs "1") [] _ []);
    [split; [discriminate | reflexivity] | reflexivity | repeat constructor | repeat constructor
     | apply plain_value_text; [discriminate | reflexivity | discriminate] | constructor].
Qed.

Definition ex_run (t : bytes) :=
  match parser_read true 1000 (mkScanner (ex_filler ++ t ++ [0%N]) 0 1) [] with
  | SOk (Some st, vs) s' => Some (norm_stmt st, vs, sofs s')
  | _ => None
  end.

Example ex_run_a :
  ex_run ex_text_a =
  Some (norm_stmt (SBuild (decl_build ex_decl 4 (block_vars ex_block))), [(bs "x", bs "1")],
        length (ex_filler ++ ex_text_a)).
Proof. vm_compute. reflexivity. Qed.

Example ex_run_b :
  ex_run ex_text_b =
  Some (norm_stmt (SBuild (decl_build ex_decl 4 (block_vars ex_block))), [(bs "x", bs "1")],
        length (ex_filler ++ ex_text_b)).
Proof. vm_compute. reflexivity. Qed.

(* ------------------------------------------------------------------------------------ *)
(* a whole file *)

Definition ex_file : bytes := ex_filler ++ ex_text_a ++ nl ++ bs "default a.o" ++ nl.
Definition ex_stmts : list statement :=
  [SBuild (decl_build ex_decl 4 (block_vars ex_block)); SDefault [p "a.o"]].

Example ex_file_spells : spells_file 1 [] ex_stmts [(bs "x", bs "1")] ex_file.
Proof.
  unfold ex_file.
  apply (sf_stmt 1 [] [(bs "x", bs "1")] _ ex_filler _ ex_text_a _ (nl ++ bs "default a.o" ++ nl)).
  - exact ex_filler_spells.
  - exact (ss_build (1 + nlz ex_filler) sp1 ex_decl _ ex_block _ ltac:(repeat constructor)
                    ex_line_a eq_refl ex_block_a).
  - exists 10%N, (bs "default a.o" ++ nl ++ [0%N]). split; [reflexivity | discriminate].
  - change (nl ++ bs "default a.o" ++ nl)
      with (nl ++ (bs "default" ++ sp1 ++ (bs "a.o" ++ [] ++ []) ++ [10%N]) ++ []).
    apply (sf_stmt _ _ [(bs "x", bs "1")] _ nl (SDefault [p "a.o"])).
    + apply pr_blank. constructor.
    + apply ss_default; [repeat constructor | discriminate | | reflexivity].
      apply paths_one; [discriminate | reflexivity | sep0].
    + exists 0%N, []. split; [reflexivity | discriminate].
    + apply sf_end. constructor.
Qed.

Example ex_file_run :
  match read_all 100 (parse_fuel (ex_file ++ [0%N])) (mkScanner (ex_file ++ [0%N]) 0 1) [] with
  | SOk (sts, vs) s' => Some (map norm_stmt sts, vs, sofs s')
  | _ => None
  end = Some (map norm_stmt ex_stmts, [(bs "x", bs "1")], length ex_file).
Proof. vm_compute. reflexivity. Qed.
